(* Proofs about Model/Fisher.v (convert_params of esr/fitting/test_all_Fisher.py). *)
From Coq Require Import QArith Qround ZArith List Bool Lia Permutation Arith.
From Coq Require Import Reals Qreals Lra.
From ESRV Require Import Model.Fisher.
Import ListNotations.
Close Scope R_scope.
Close Scope Q_scope.
Open Scope nat_scope.

(* ================================================================== list facts *)
Definition mask_of (D : list nat) (s n : nat) : list bool := map (fun i => memn i D) (seq s n).

Lemma zero_mask_length : forall m th, length m = length th -> length (zero_mask m th) = length th.
Proof.
  intros m th H. unfold zero_mask. rewrite map_length, combine_length. lia.
Qed.

Lemma zero_at_mask_gen : forall D th s,
  map (fun p : nat * Q => if memn (fst p) D then 0%Q else snd p) (combine (seq s (length th)) th)
  = zero_mask (mask_of D s (length th)) th.
Proof.
  intros D th. induction th as [|t th IH]; intros s; simpl; [reflexivity|].
  unfold zero_mask, mask_of in *. simpl. f_equal. apply IH.
Qed.

Lemma zero_at_mask : forall D th, zero_at D th = zero_mask (mask_of D 0 (length th)) th.
Proof. intros. unfold zero_at, enum. apply zero_at_mask_gen. Qed.

Lemma clear_at_mask_gen : forall D n s,
  map (fun p : nat * bool => if memn (fst p) D then false else snd p) (combine (seq s n) (repeat true n))
  = map negb (mask_of D s n).
Proof.
  intros D n. induction n as [|n IH]; intros s; simpl; [reflexivity|].
  unfold mask_of in *. simpl. rewrite IH. destruct (memn s D); reflexivity.
Qed.

Lemma clear_at_mask : forall D n, clear_at D (repeat true n) = map negb (mask_of D 0 n).
Proof. intros. unfold clear_at, enum. rewrite repeat_length. apply clear_at_mask_gen. Qed.

Lemma mask_of_length : forall D s n, length (mask_of D s n) = n.
Proof. intros. unfold mask_of. now rewrite map_length, seq_length. Qed.

(* indices produced from a mask, with offset *)
Definition idx_from (s : nat) (m : list bool) : list nat := map fst (filter snd (combine (seq s (length m)) m)).

Lemma idx_of_from : forall m, idx_of m = idx_from 0 m.
Proof. reflexivity. Qed.

Lemma idx_from_cons : forall s b m,
  idx_from s (b :: m) = if b then s :: idx_from (S s) m else idx_from (S s) m.
Proof. intros. unfold idx_from. simpl. destruct b; reflexivity. Qed.

Lemma idx_from_bounds : forall m s i, In i (idx_from s m) -> s <= i < s + length m.
Proof.
  induction m as [|b m IH]; intros s i H.
  - inversion H.
  - rewrite idx_from_cons in H. simpl. destruct b.
    + destruct H as [H|H]; [lia|]. apply IH in H. lia.
    + apply IH in H. lia.
Qed.

Lemma memn_true : forall i D, memn i D = true <-> In i D.
Proof.
  intros. unfold memn. rewrite existsb_exists. split.
  - intros [x [Hx He]]. apply Nat.eqb_eq in He. now subst.
  - intros H. exists i. split; [assumption|apply Nat.eqb_refl].
Qed.

Lemma memn_false : forall i D, memn i D = false <-> ~ In i D.
Proof.
  intros. rewrite <- memn_true. destruct (memn i D); split; congruence.
Qed.

Lemma mask_of_ext : forall D D' s n,
  (forall i, s <= i < s + n -> memn i D = memn i D') -> mask_of D s n = mask_of D' s n.
Proof.
  intros. unfold mask_of. apply map_ext_in. intros i Hi. apply in_seq in Hi. now apply H.
Qed.

Lemma mask_of_idx_from : forall m s, mask_of (idx_from s m) s (length m) = m.
Proof.
  induction m as [|b m IH]; intros s; [reflexivity|].
  simpl length. unfold mask_of. simpl seq. simpl map. fold (mask_of (idx_from s (b :: m)) (S s) (length m)).
  f_equal.
  - rewrite idx_from_cons. destruct b.
    + simpl. now rewrite Nat.eqb_refl.
    + apply memn_false. intros H. apply idx_from_bounds in H. lia.
  - transitivity (mask_of (idx_from (S s) m) (S s) (length m)); [|apply IH]. apply mask_of_ext. intros i Hi.
    rewrite idx_from_cons. destruct b; [|reflexivity].
    simpl. destruct (Nat.eqb_spec i s); [lia|reflexivity].
Qed.

Lemma mask_of_idx_of : forall m, mask_of (idx_of m) 0 (length m) = m.
Proof. intros. rewrite idx_of_from. apply mask_of_idx_from. Qed.

Lemma idx_from_length : forall m s, length (idx_from s m) = count m.
Proof.
  induction m as [|b m IH]; intros s; [reflexivity|].
  rewrite idx_from_cons. unfold count in *. simpl. destruct b; simpl; rewrite IH; reflexivity.
Qed.

Lemma idx_from_NoDup : forall m s, NoDup (idx_from s m).
Proof.
  induction m as [|b m IH]; intros s.
  - constructor.
  - rewrite idx_from_cons. destruct b; [|apply IH].
    constructor; [|apply IH]. intros H. apply idx_from_bounds in H. lia.
Qed.

Lemma filter_length_le : forall {A} (f : A -> bool) l, length (filter f l) <= length l.
Proof. intros A f l. induction l as [|x l IH]; simpl; [lia|]. destruct (f x); simpl; lia. Qed.

Lemma count_le_length : forall m, count m <= length m.
Proof. intros. unfold count. apply filter_length_le. Qed.

Lemma count_all : forall m, count m = length m -> m = repeat true (length m).
Proof.
  induction m as [|b m IH]; intros H; [reflexivity|].
  unfold count in *. simpl in *. destruct b; simpl in *.
  - f_equal. apply IH. lia.
  - pose proof (filter_length_le (fun b : bool => b) m). lia.
Qed.

Lemma existsb_id_count : forall m, existsb (fun b : bool => b) m = false -> m = repeat false (length m).
Proof.
  induction m as [|b m IH]; intros H; [reflexivity|].
  simpl in *. destruct b; simpl in *; [discriminate|]. f_equal. now apply IH.
Qed.

Lemma select_all : forall {A} (l : list A), select (repeat true (length l)) l = l.
Proof.
  intros A l. unfold select. induction l as [|x l IH]; [reflexivity|]. simpl. f_equal. apply IH.
Qed.

Lemma zero_mask_none : forall th, zero_mask (repeat false (length th)) th = th.
Proof.
  induction th as [|t th IH]; [reflexivity|]. unfold zero_mask in *. simpl. f_equal. apply IH.
Qed.

Lemma zero_mask_all : forall th, zero_mask (repeat true (length th)) th = repeat 0%Q (length th).
Proof.
  induction th as [|t th IH]; [reflexivity|]. unfold zero_mask in *. simpl. f_equal. apply IH.
Qed.

Lemma map_negb_repeat : forall b n, map negb (repeat b n) = repeat (negb b) n.
Proof. intros. induction n; simpl; congruence. Qed.

Lemma map_negb_invol : forall m, map negb (map negb m) = m.
Proof. induction m as [|b m IH]; simpl; [reflexivity|]. rewrite negb_involutive. now f_equal. Qed.

(* the kept entries are untouched by the zeroing of the others *)
Lemma select_zero_mask : forall kept th,
  select kept (zero_mask (map negb kept) th) = select kept th.
Proof.
  induction kept as [|b kept IH]; intros th; [reflexivity|].
  destruct th as [|t th]; [reflexivity|].
  unfold select, zero_mask in *. simpl. destruct b; simpl; [f_equal|]; apply IH.
Qed.

Lemma select_combine : forall {A B} kept (l1 : list A) (l2 : list B),
  combine (select kept l1) (select kept l2) = select kept (combine l1 l2).
Proof.
  intros A B. induction kept as [|b kept IH]; intros l1 l2; [reflexivity|].
  destruct l1 as [|x l1]; [reflexivity|]. destruct l2 as [|y l2].
  - unfold select. simpl. destruct b; simpl.
    + destruct (map snd (filter fst (combine kept l1))); reflexivity.
    + destruct (map snd (filter fst (combine kept l1))); reflexivity.
  - unfold select in *. simpl. destruct b; simpl; [f_equal|]; apply IH.
Qed.

Lemma select_length : forall {A} kept (l : list A), length kept = length l -> length (select kept l) = count kept.
Proof.
  intros A. induction kept as [|b kept IH]; intros l H; [reflexivity|].
  destruct l as [|x l]; [discriminate|]. simpl in H.
  unfold select, count in *. simpl. destruct b; simpl; rewrite IH; auto.
Qed.

Lemma count_negb : forall m, count (map negb m) + count m = length m.
Proof.
  induction m as [|b m IH]; [reflexivity|]. unfold count in *. simpl. destruct b; simpl; lia.
Qed.

(* |D| = number of set bits of its mask, for duplicate-free in-range D *)
Lemma count_mask_of : forall D n, NoDup D -> (forall i, In i D -> i < n) -> count (mask_of D 0 n) = length D.
Proof.
  intros D n ND HB. unfold count, mask_of.
  assert (E : length (filter (fun b : bool => b) (map (fun i => memn i D) (seq 0 n)))
              = length (filter (fun i => memn i D) (seq 0 n))).
  { generalize (seq 0 n). intros l. induction l as [|x l IH]; [reflexivity|].
    simpl. destruct (memn x D); simpl; now rewrite IH. }
  rewrite E. apply Permutation_length. apply NoDup_Permutation.
  - apply NoDup_filter, seq_NoDup.
  - assumption.
  - intros i. rewrite filter_In, memn_true, in_seq. split; [tauto|]. intros H. split; [|assumption].
    apply HB in H. lia.
Qed.

(* ================================================================== combinations *)
Inductive sublist {A} : list A -> list A -> Prop :=
| sub_nil : forall l, sublist [] l
| sub_take : forall x l1 l2, sublist l1 l2 -> sublist (x :: l1) (x :: l2)
| sub_skip : forall x l1 l2, sublist l1 l2 -> sublist l1 (x :: l2).

Lemma sublist_incl : forall {A} (l1 l2 : list A), sublist l1 l2 -> incl l1 l2.
Proof.
  intros A l1 l2 H. induction H; intros y Hy.
  - inversion Hy.
  - destruct Hy as [->|Hy]; [now left|right; now apply IHsublist].
  - right. now apply IHsublist.
Qed.

Lemma sublist_NoDup : forall {A} (l1 l2 : list A), sublist l1 l2 -> NoDup l2 -> NoDup l1.
Proof.
  intros A l1 l2 H. induction H; intros ND.
  - constructor.
  - inversion ND; subst. constructor; [|auto]. intros Hin. apply (sublist_incl _ _ H) in Hin. contradiction.
  - inversion ND; subst. auto.
Qed.

Lemma sublist_length : forall {A} (l1 l2 : list A), sublist l1 l2 -> length l1 <= length l2.
Proof. intros A l1 l2 H. induction H; simpl; lia. Qed.

(* soundness and completeness of [combs]: exactly the sublists of length r *)
Lemma combs_spec : forall {A} (l : list A) r D, In D (combs l r) <-> (sublist D l /\ length D = r).
Proof.
  intros A l. induction l as [|x l IH]; intros r D.
  - simpl. destruct r; simpl.
    + split.
      * intros [<-|[]]. split; [constructor|reflexivity].
      * intros [_ H]. destruct D; [now left|discriminate].
    + split; [tauto|]. intros [H HL]. inversion H; subst. discriminate.
  - simpl. destruct r.
    + simpl. split.
      * intros [<-|[]]. split; [constructor|reflexivity].
      * intros [_ H]. destruct D; [now left|discriminate].
    + rewrite in_app_iff, in_map_iff. split.
      * intros [[D' [<- HD']]|H].
        -- apply IH in HD'. destruct HD' as [HS HL]. split; [now constructor|simpl; lia].
        -- apply IH in H. destruct H as [HS HL]. split; [now constructor|assumption].
      * intros [HS HL]. inversion HS; subst.
        -- discriminate.
        -- left. exists l1. split; [reflexivity|]. apply IH. simpl in HL. split; [assumption|lia].
        -- right. apply IH. split; assumption.
Qed.

Lemma combs_too_big : forall {A} (l : list A) r, length l < r -> combs l r = [].
Proof.
  intros A l. induction l as [|x l IH]; intros r H; destruct r; simpl in *; try lia; [reflexivity|].
  rewrite (IH r), (IH (S r)) by lia. reflexivity.
Qed.

(* ================================================================== the subset search *)
Definition subsets_in_order (C : list nat) : list (list nat) :=
  concat (map (combs C) (rev (seq 1 (length C - 1)))).

Definition fin_at (fop : list Q -> xq) (th : list Q) (D : list nat) : bool := isfin (fop (zero_at D th)).

Definition st_of (fop : list Q -> xq) (th : list Q) (D : list nat) : sstate :=
  mkSS (zero_at D th) (fop (zero_at D th)) (Some D).

Lemma find_app : forall {A} (p : A -> bool) l1 l2,
  find p (l1 ++ l2) = match find p l1 with Some x => Some x | None => find p l2 end.
Proof. intros A p l1 l2. induction l1 as [|x l1 IH]; simpl; [reflexivity|]. destruct (p x); auto. Qed.

Lemma inner_spec : forall fop th cs st, isfin (s_nll st) = false ->
  match find (fin_at fop th) cs with
  | Some D => inner fop th cs st = st_of fop th D
  | None => isfin (s_nll (inner fop th cs st)) = false
  end.
Proof.
  intros fop th cs. induction cs as [|D cs IH]; intros st Hst; simpl; [assumption|].
  unfold fin_at at 1. destruct (isfin (fop (zero_at D th))) eqn:E; [reflexivity|].
  apply IH. exact E.
Qed.

Lemma outer_spec : forall fop th C rs st, isfin (s_nll st) = false ->
  match find (fin_at fop th) (concat (map (combs C) rs)) with
  | Some D => outer fop th C rs st = st_of fop th D
  | None => isfin (s_nll (outer fop th C rs st)) = false
  end.
Proof.
  intros fop th C rs. induction rs as [|r rs IH]; intros st Hst; simpl; [assumption|].
  rewrite find_app. pose proof (inner_spec fop th (combs C r) st Hst) as HI.
  destruct (find (fin_at fop th) (combs C r)) as [D|] eqn:EF.
  - rewrite HI. simpl. apply find_some in EF. destruct EF as [_ EF]. unfold fin_at in EF. rewrite EF. reflexivity.
  - rewrite HI. apply IH. exact HI.
Qed.

Lemma search_spec : forall fop th C st, isfin (s_nll st) = false ->
  match find (fin_at fop th) (subsets_in_order C) with
  | Some D => search fop th C st = st_of fop th D
  | None => isfin (s_nll (search fop th C st)) = false
  end.
Proof. intros. unfold search, subsets_in_order. now apply outer_spec. Qed.

(* what the candidates of the search are: exactly the sublists D of C with 1 <= |D| < |C| *)
Lemma subsets_in_order_spec : forall C D,
  In D (subsets_in_order C) <-> (sublist D C /\ 1 <= length D < length C).
Proof.
  intros C D. unfold subsets_in_order. rewrite in_concat. split.
  - intros [l [Hl HD]]. apply in_map_iff in Hl. destruct Hl as [r [<- Hr]].
    apply in_rev, in_seq in Hr. apply combs_spec in HD. destruct HD as [HS HL]. split; [assumption|lia].
  - intros [HS HL]. exists (combs C (length D)). split.
    + apply in_map_iff. exists (length D). split; [reflexivity|]. apply -> in_rev. apply in_seq. lia.
    + apply combs_spec. split; [assumption|reflexivity].
Qed.

(* ... in order of decreasing size: every strictly larger candidate was tried before and is not finite *)
Lemma rev_seq_S : forall k, rev (seq 1 (S k)) = S k :: rev (seq 1 k).
Proof. intros. rewrite seq_S, rev_app_distr. reflexivity. Qed.

Lemma find_decreasing : forall {A} (p : list A -> bool) (C : list A) k D,
  find p (concat (map (combs C) (rev (seq 1 k)))) = Some D ->
  forall D', length D < length D' <= k -> sublist D' C -> p D' = false.
Proof.
  intros A p C k. induction k as [|k IH]; intros D HF D' HL HS; [lia|].
  rewrite rev_seq_S in HF. simpl in HF. rewrite find_app in HF.
  destruct (find p (combs C (S k))) as [D0|] eqn:E.
  - inversion HF; subst. apply find_some in E. destruct E as [E _].
    apply combs_spec in E. lia.
  - destruct (Nat.eq_dec (length D') (S k)) as [Eq|Ne].
    + eapply find_none in E; [exact E|]. apply combs_spec. split; assumption.
    + eapply IH; eauto. lia.
Qed.

Lemma larger_subsets_not_finite : forall fop th C D D',
  find (fin_at fop th) (subsets_in_order C) = Some D ->
  sublist D' C -> length D < length D' < length C -> fin_at fop th D' = false.
Proof.
  intros fop th C D D' HF HS HL. unfold subsets_in_order in HF.
  eapply find_decreasing; eauto. lia.
Qed.

(* ... and among candidates of the same size, in itertools.combinations order *)
Lemma find_first : forall {A} (p : A -> bool) l x, find p l = Some x ->
  exists pre post, l = pre ++ x :: post /\ p x = true /\ forall y, In y pre -> p y = false.
Proof.
  intros A p l. induction l as [|a l IH]; intros x H; simpl in H; [discriminate|].
  destruct (p a) eqn:E.
  - inversion H; subst. exists [], l. repeat split; auto. intros y [].
  - destruct (IH x H) as [pre [post [-> [Hx Hpre]]]]. exists (a :: pre), post. repeat split; auto.
    intros y [<-|Hy]; auto.
Qed.

(* ================================================================== validity tests *)
Definition posfin (a : xq) : Prop := exists q, a = Fin q /\ (0 < q)%Q.
Definition good (I : list xq) : Prop := Forall posfin I.

Lemma Qlt_b_true : forall a b, Qlt_b a b = true <-> (a < b)%Q.
Proof.
  intros. unfold Qlt_b. rewrite negb_true_iff. split.
  - intros H. apply Qnot_le_lt. intros HL. apply Qle_bool_iff in HL. congruence.
  - intros H. destruct (Qle_bool b a) eqn:E; [|reflexivity]. apply Qle_bool_iff in E.
    exfalso. eapply Qlt_not_le; eauto.
Qed.

Lemma Qlt_b_false : forall a b, Qlt_b a b = false <-> (b <= a)%Q.
Proof.
  intros. unfold Qlt_b. rewrite negb_false_iff. apply Qle_bool_iff.
Qed.

Lemma posfin_tests : forall a, posfin a -> le0 a = false /\ isnan a = false /\ isinf a = false /\ gt0 a = true /\ isfin a = true.
Proof.
  intros a [q [-> Hq]]. simpl. repeat split; try reflexivity.
  - destruct (Qle_bool q 0) eqn:E; [|reflexivity]. apply Qle_bool_iff in E. exfalso. eapply Qlt_not_le; eauto.
  - now apply Qlt_b_true.
Qed.

Lemma not_bad_first_good : forall I, bad_first I = false <-> good I.
Proof.
  intros I. unfold bad_first, good. split.
  - intros H. apply orb_false_iff in H. destruct H as [H H3]. apply orb_false_iff in H. destruct H as [H1 H2].
    apply Forall_forall. intros a Ha.
    assert (E1 : le0 a = false).
    { destruct (le0 a) eqn:E; [|reflexivity]. assert (existsb le0 I = true) by (apply existsb_exists; eauto). congruence. }
    assert (E2 : isnan a = false).
    { destruct (isnan a) eqn:E; [|reflexivity]. assert (existsb isnan I = true) by (apply existsb_exists; eauto). congruence. }
    assert (E3 : isinf a = false).
    { destruct (isinf a) eqn:E; [|reflexivity]. assert (existsb isinf I = true) by (apply existsb_exists; eauto). congruence. }
    destruct a as [q| | |]; simpl in *; try discriminate.
    exists q. split; [reflexivity|]. apply Qnot_le_lt. intros HL. apply Qle_bool_iff in HL. congruence.
  - intros H. rewrite Forall_forall in H.
    assert (forall f, (forall a, posfin a -> f a = false) -> existsb f I = false).
    { intros f Hf. destruct (existsb f I) eqn:E; [|reflexivity]. apply existsb_exists in E.
      destruct E as [a [Ha Hfa]]. rewrite (Hf a (H a Ha)) in Hfa. discriminate. }
    rewrite !H0; try reflexivity; intros a Ha; apply posfin_tests in Ha; tauto.
Qed.

Lemma good_not_bad_second : forall I, good I -> bad_second I = false.
Proof.
  intros I H. apply not_bad_first_good in H. unfold bad_first, bad_second in *.
  apply orb_false_iff in H. tauto.
Qed.

(* a non-positive (finite or -inf) or NaN entry fails the second test *)
Definition nonpos_or_nan (a : xq) : Prop := a = NaN \/ a = NInf \/ exists q, a = Fin q /\ (q <= 0)%Q.

Lemma bad_second_iff : forall I, bad_second I = true <-> exists a, In a I /\ nonpos_or_nan a.
Proof.
  intros I. unfold bad_second. rewrite orb_true_iff, !existsb_exists. split.
  - intros [[a [Ha H]]|[a [Ha H]]]; exists a; split; try assumption.
    + destruct a as [q| | |]; simpl in H; try discriminate.
      * right. right. exists q. split; [reflexivity|]. now apply Qle_bool_iff.
      * right. now left.
    + destruct a; simpl in H; try discriminate. now left.
  - intros [a [Ha [->|[->|[q [-> Hq]]]]]].
    + right. exists NaN. split; [assumption|reflexivity].
    + left. exists NInf. split; [assumption|reflexivity].
    + left. exists (Fin q). split; [assumption|]. simpl. now apply Qle_bool_iff.
Qed.

Lemma ge1_negb_lt1 : forall th I, good I ->
  map2 ge1 th I = map negb (map2 lt1 th I).
Proof.
  intros th I H. revert th. induction H as [|a I Ha HI IH]; intros th.
  - destruct th; reflexivity.
  - destruct th as [|t th]; [reflexivity|]. unfold map2 in *. simpl. f_equal; [|apply IH].
    destruct Ha as [q [-> Hq]]. simpl. apply Qlt_b_true in Hq. rewrite Hq. simpl.
    unfold Qlt_b. rewrite negb_involutive. reflexivity.
Qed.

Lemma map2_length : forall {A B C} (f : A -> B -> C) l1 l2, length l1 = length l2 -> length (map2 f l1 l2) = length l1.
Proof. intros. unfold map2. rewrite map_length, combine_length. lia. Qed.

(* ================================================================== specification of [decide] *)
(* The set of parameters that end up dropped (None = nothing is dropped). *)
Definition dropped_set (th : list Q) (I : list xq) (fop : list Q -> xq) : option (list nat) :=
  let m := map2 lt1 th I in
  if negb (existsb (fun b : bool => b) m) then None
  else if fin_at fop th (idx_of m) then Some (idx_of m)
  else find (fin_at fop th) (subsets_in_order (idx_of m)).

Definition result_for (maxp : nat) (th : list Q) (I : list xq) (nll : xq) (fop : list Q -> xq)
                      (d : option (list nat)) : outcome :=
  let n := length th in
  match d with
  | None => Ret (mkRes (pad maxp th) nll (repeat true n) (Codelen (Z.of_nat n) (combine I th)))
  | Some D => finish maxp th (zero_at D th) I (fop (zero_at D th))
                     (Z.of_nat n - Z.of_nat (length D)) (clear_at D (repeat true n))
  end.

Theorem decide_spec : forall maxp th I nll fop,
  length I = length th -> good I ->
  decide maxp th I nll fop = result_for maxp th I nll fop (dropped_set th I fop).
Proof.
  intros maxp th I nll fop HL HG. unfold decide, dropped_set.
  rewrite (good_not_bad_second I HG).
  set (m := map2 lt1 th I).
  assert (Hm : length m = length th) by (unfold m; apply map2_length; auto).
  destruct (negb (existsb (fun b : bool => b) m)) eqn:Ecand; [reflexivity|].
  assert (Hz : zero_mask m th = zero_at (idx_of m) th).
  { rewrite zero_at_mask, <- Hm, mask_of_idx_of. reflexivity. }
  rewrite Hz. unfold fin_at at 1.
  destruct (isfin (fop (zero_at (idx_of m) th))) eqn:Efin.
  - unfold result_for. f_equal.
    + rewrite idx_of_from, idx_from_length. reflexivity.
    + rewrite (ge1_negb_lt1 th I HG). fold m. rewrite clear_at_mask, <- Hm, mask_of_idx_of. reflexivity.
  - pose proof (search_spec fop th (idx_of m) (mkSS (zero_at (idx_of m) th) (fop (zero_at (idx_of m) th)) None) Efin) as HS.
    destruct (find (fin_at fop th) (subsets_in_order (idx_of m))) as [D|] eqn:EF.
    + rewrite HS. apply find_some in EF. destruct EF as [_ EF]. unfold fin_at in EF.
      unfold st_of. simpl. rewrite EF. reflexivity.
    + rewrite HS. unfold result_for, finish.
      assert (Hn : 0 < length th).
      { destruct th; simpl in *; [|lia]. destruct m; [discriminate|discriminate]. }
      destruct (Z.of_nat (length th) <? 0)%Z eqn:E1; [apply Z.ltb_lt in E1; lia|].
      destruct (Z.of_nat (length th) =? 0)%Z eqn:E2; [apply Z.eqb_eq in E2; lia|].
      rewrite map_negb_repeat. simpl negb. rewrite zero_mask_none.
      rewrite (select_all th). rewrite <- HL. rewrite (select_all I). reflexivity.
Qed.

(* ---------------------------------------------------------------- pointwise views *)
Lemma nth_zero_at_gen : forall D th s i,
  nth i (map (fun p : nat * Q => if memn (fst p) D then 0%Q else snd p) (combine (seq s (length th)) th)) 0%Q
  = if memn (s + i) D then 0%Q else nth i th 0%Q.
Proof.
  intros D th. induction th as [|t th IH]; intros s i.
  - simpl. destruct i; destruct (memn _ D); reflexivity.
  - destruct i as [|i]; simpl.
    + rewrite Nat.add_0_r. reflexivity.
    + rewrite IH. replace (S s + i) with (s + S i) by lia. reflexivity.
Qed.

Lemma nth_zero_at : forall D th i, nth i (zero_at D th) 0%Q = if memn i D then 0%Q else nth i th 0%Q.
Proof. intros. unfold zero_at, enum. now rewrite nth_zero_at_gen. Qed.

Lemma nth_clear_at_gen : forall D n s i, i < n ->
  nth i (map (fun p : nat * bool => if memn (fst p) D then false else snd p) (combine (seq s n) (repeat true n))) true
  = negb (memn (s + i) D).
Proof.
  intros D n. induction n as [|n IH]; intros s i Hi; [lia|].
  destruct i as [|i]; simpl.
  - rewrite Nat.add_0_r. destruct (memn s D); reflexivity.
  - rewrite IH by lia. replace (S s + i) with (s + S i) by lia. reflexivity.
Qed.

Lemma nth_kept : forall D n i, i < n -> nth i (clear_at D (repeat true n)) true = negb (memn i D).
Proof. intros. unfold clear_at, enum. rewrite repeat_length. now rewrite nth_clear_at_gen. Qed.

Lemma zero_at_length : forall D th, length (zero_at D th) = length th.
Proof. intros. unfold zero_at, enum. rewrite map_length, combine_length, seq_length. lia. Qed.

Lemma zero_at_nil : forall th, zero_at [] th = th.
Proof.
  intros. rewrite zero_at_mask. unfold mask_of. simpl.
  replace (map (fun _ : nat => false) (seq 0 (length th))) with (repeat false (length th)).
  - apply zero_mask_none.
  - generalize 0. induction (length th); intros s; simpl; [reflexivity|]. f_equal. apply IHn.
Qed.

Lemma clear_at_nil : forall n, clear_at [] (repeat true n) = repeat true n.
Proof.
  intros. rewrite clear_at_mask. unfold mask_of. simpl.
  generalize 0. induction n; intros s; simpl; [reflexivity|]. f_equal. apply IHn.
Qed.

Lemma nth_pad : forall maxp l i, nth i (pad maxp l) 0%Q = nth i l 0%Q.
Proof.
  intros. unfold pad. destruct (Nat.lt_ge_cases i (length l)).
  - now rewrite app_nth1.
  - rewrite app_nth2 by assumption. rewrite (nth_overflow l) by assumption.
    generalize (maxp - length l) (i - length l). intros a b. revert b. induction a; intros b; destruct b; simpl; auto.
Qed.

Lemma pad_length : forall maxp l, length l <= maxp -> length (pad maxp l) = maxp.
Proof. intros. unfold pad. rewrite app_length, repeat_length. lia. Qed.

Lemma firstn_pad : forall maxp l, firstn (length l) (pad maxp l) = l.
Proof.
  intros. unfold pad. rewrite firstn_app, Nat.sub_diag, firstn_all. simpl. apply app_nil_r.
Qed.

(* ---------------------------------------------------------------- [finish] *)
Definition kept_of (D : list nat) (n : nat) : list bool := clear_at D (repeat true n).

Lemma kept_of_count : forall D n, NoDup D -> (forall i, In i D -> i < n) -> count (kept_of D n) = n - length D.
Proof.
  intros D n ND HB. unfold kept_of. rewrite clear_at_mask.
  pose proof (count_negb (mask_of D 0 n)) as H. rewrite mask_of_length, count_mask_of in H by assumption. lia.
Qed.

Lemma dropped_le : forall D n, NoDup D -> (forall i, In i D -> i < n) -> length D <= n.
Proof.
  intros D n ND HB. rewrite <- (count_mask_of D n ND HB).
  pose proof (count_le_length (mask_of D 0 n)). now rewrite mask_of_length in H.
Qed.

Lemma select_none : forall {A} n (l : list A), select (repeat false n) l = [].
Proof. intros A n. induction n; intros l; [reflexivity|]. destruct l; [reflexivity|]. unfold select in *. simpl. apply IHn. Qed.

Lemma finish_spec : forall maxp th I v D,
  let n := length th in
  length I = n -> n <= maxp -> NoDup D -> (forall i, In i D -> i < n) ->
  finish maxp th (zero_at D th) I v (Z.of_nat n - Z.of_nat (length D)) (kept_of D n)
  = Ret (mkRes (pad maxp (zero_at D th)) v (kept_of D n)
               (Codelen (Z.of_nat (n - length D)) (select (kept_of D n) (combine I th)))).
Proof.
  intros maxp th I v D n HL Hmax ND HB.
  pose proof (dropped_le D n ND HB) as HD.
  unfold finish.
  destruct (Z.of_nat n - Z.of_nat (length D) <? 0)%Z eqn:E1; [apply Z.ltb_lt in E1; lia|].
  assert (HK : map negb (kept_of D n) = mask_of D 0 n).
  { unfold kept_of. rewrite clear_at_mask. apply map_negb_invol. }
  destruct (Z.of_nat n - Z.of_nat (length D) =? 0)%Z eqn:E2.
  - apply Z.eqb_eq in E2. assert (HDn : length D = n) by lia.
    assert (HM : mask_of D 0 n = repeat true n).
    { pose proof (count_all (mask_of D 0 n)) as H. rewrite mask_of_length in H. apply H.
      rewrite count_mask_of; auto. }
    assert (HKf : kept_of D n = repeat false n).
    { unfold kept_of. rewrite clear_at_mask, HM. apply map_negb_repeat. }
    rewrite HKf, select_none. rewrite HDn, Nat.sub_diag.
    rewrite zero_at_mask. fold n. rewrite HM. unfold n at 2. rewrite zero_mask_all.
    unfold pad. rewrite repeat_length. fold n. rewrite <- repeat_app.
    replace (n + (maxp - n)) with maxp by lia. reflexivity.
  - apply Z.eqb_neq in E2.
    assert (HZ : zero_at D th = zero_mask (mask_of D 0 n) th) by (unfold n; apply zero_at_mask).
    rewrite HK, <- HZ.
    replace (Z.of_nat n - Z.of_nat (length D))%Z with (Z.of_nat (n - length D)) by lia.
    replace (select (kept_of D n) (zero_at D th)) with (select (kept_of D n) th).
    + rewrite select_combine. reflexivity.
    + rewrite HZ, <- HK. symmetry. apply select_zero_mask.
Qed.

(* ---------------------------------------------------------------- well-formedness of the dropped set *)
Lemma idx_of_NoDup : forall m, NoDup (idx_of m).
Proof. intros. rewrite idx_of_from. apply idx_from_NoDup. Qed.
Lemma idx_of_bound : forall m i, In i (idx_of m) -> i < length m.
Proof. intros m i H. rewrite idx_of_from in H. apply idx_from_bounds in H. lia. Qed.

Lemma In_idx_of : forall m i, In i (idx_of m) <-> (i < length m /\ nth i m false = true).
Proof.
  intros m i. rewrite <- memn_true.
  destruct (Nat.lt_ge_cases i (length m)) as [Hi|Hi].
  - pose proof (mask_of_idx_of m) as HM. apply (f_equal (fun l => nth i l false)) in HM.
    unfold mask_of in HM.
    rewrite (nth_indep _ false (memn (length m) (idx_of m))) in HM by (rewrite map_length, seq_length; exact Hi).
    rewrite (map_nth (fun j => memn j (idx_of m))) in HM. rewrite seq_nth in HM by assumption. simpl in HM.
    rewrite HM. tauto.
  - split; [|lia]. intros H. apply memn_true, idx_of_bound in H. lia.
Qed.

Lemma dropped_set_wf : forall th I fop D, length I = length th ->
  dropped_set th I fop = Some D ->
  let C := idx_of (map2 lt1 th I) in
  sublist D C /\ 1 <= length D /\ NoDup D /\ (forall i, In i D -> i < length th).
Proof.
  intros th I fop D HL H C. unfold dropped_set in H. fold C in H.
  assert (Hm : length (map2 lt1 th I) = length th) by (apply map2_length; auto).
  assert (HsubOK : forall D0, sublist D0 C -> NoDup D0 /\ (forall i, In i D0 -> i < length th)).
  { intros D0 HS. split.
    - eapply sublist_NoDup; eauto. apply idx_of_NoDup.
    - intros i Hi. apply (sublist_incl _ _ HS) in Hi. apply idx_of_bound in Hi. lia. }
  destruct (negb (existsb (fun b : bool => b) (map2 lt1 th I))) eqn:Ecand; [discriminate|].
  destruct (fin_at fop th C) eqn:Efin.
  - inversion H; subst D.
    assert (HSC : sublist C C).
    { clear. induction C; constructor; auto. }
    split; [assumption|]. split; [|now apply HsubOK].
    apply negb_false_iff, existsb_exists in Ecand. destruct Ecand as [b [Hb ->]].
    apply In_nth with (d := false) in Hb. destruct Hb as [i [Hi Hn]].
    assert (In i C) by (apply In_idx_of; split; assumption).
    destruct C; [contradiction|simpl; lia].
  - apply find_some in H. destruct H as [H _]. apply subsets_in_order_spec in H.
    destruct H as [HS HLn]. split; [assumption|]. split; [lia|]. now apply HsubOK.
Qed.

(* ================================================================== the result of [decide], in one equation *)
Definition dropped_list (th : list Q) (I : list xq) (fop : list Q -> xq) : list nat :=
  match dropped_set th I fop with Some D => D | None => [] end.

Definition nll_for (th : list Q) (I : list xq) (nll : xq) (fop : list Q -> xq) : xq :=
  match dropped_set th I fop with Some D => fop (zero_at D th) | None => nll end.

Theorem decide_result : forall maxp th I nll fop,
  let n := length th in
  let D := dropped_list th I fop in
  length I = n -> n <= maxp -> good I ->
  decide maxp th I nll fop =
  Ret (mkRes (pad maxp (zero_at D th)) (nll_for th I nll fop) (kept_of D n)
             (Codelen (Z.of_nat (n - length D)) (select (kept_of D n) (combine I th)))).
Proof.
  intros maxp th I nll fop n D HL Hmax HG.
  rewrite decide_spec by assumption. unfold D, dropped_list, nll_for.
  destruct (dropped_set th I fop) as [D0|] eqn:ED.
  - destruct (dropped_set_wf th I fop D0 HL ED) as [_ [_ [ND HB]]].
    unfold result_for. fold n. apply finish_spec; assumption.
  - unfold result_for, kept_of. rewrite zero_at_nil, clear_at_nil. simpl length. rewrite Nat.sub_0_r.
    assert (E : length (combine I th) = n) by (rewrite combine_length; lia).
    rewrite <- E at 3. rewrite select_all. reflexivity.
Qed.

(* ================================================================== corollaries of [decide_result] *)
Section Corollaries.
Variables (maxp : nat) (th : list Q) (I : list xq) (nll : xq) (fop : list Q -> xq).
Let n := length th.
Hypothesis HL : length I = n.
Hypothesis Hmax : n <= maxp.
Hypothesis HG : good I.

Let D := dropped_list th I fop.

Lemma D_facts : NoDup D /\ (forall i, In i D -> i < n) /\ length D <= n.
Proof.
  unfold D, dropped_list. destruct (dropped_set th I fop) as [D0|] eqn:E.
  - destruct (dropped_set_wf th I fop D0 HL E) as [_ [_ [ND HB]]]. repeat split; auto.
    apply dropped_le; auto.
  - repeat split; [constructor|intros i []|simpl; lia].
Qed.

(* returned parameters: zero at the dropped positions, theta elsewhere, zero padding *)
Lemma params_zeroed : forall r, decide maxp th I nll fop = Ret r ->
  length (r_params r) = maxp /\
  forall i, nth i (r_params r) 0%Q =
            if (i <? n) && nth i (r_kept r) true then nth i th 0%Q else 0%Q.
Proof.
  intros r Hr. rewrite decide_result in Hr by assumption. inversion Hr; subst r; clear Hr. simpl.
  fold n. fold D. split.
  - apply pad_length. rewrite zero_at_length. exact Hmax.
  - intros i. rewrite nth_pad, nth_zero_at.
    destruct (Nat.ltb_spec i n) as [Hi|Hi]; simpl.
    + unfold kept_of. rewrite nth_kept by assumption. destruct (memn i D); reflexivity.
    + rewrite (nth_overflow th) by (fold n; lia). destruct (memn i D); reflexivity.
Qed.

(* i is dropped iff it is in the dropped set *)
Lemma kept_mask_D : forall r, decide maxp th I nll fop = Ret r ->
  length (r_kept r) = n /\ forall i, i < n -> (nth i (r_kept r) true = false <-> In i D).
Proof.
  intros r Hr. rewrite decide_result in Hr by assumption. inversion Hr; subst r; clear Hr. simpl.
  fold n. fold D. split.
  - unfold kept_of. rewrite clear_at_mask, map_length. apply mask_of_length.
  - intros i Hi. unfold kept_of. rewrite nth_kept by assumption. rewrite negb_false_iff. apply memn_true.
Qed.

(* k and the number of terms are the number of kept parameters *)
Lemma k_counts_kept : forall r, decide maxp th I nll fop = Ret r ->
  exists ts, r_len r = Codelen (Z.of_nat (count (r_kept r))) ts /\
             ts = select (r_kept r) (combine I th) /\ length ts = count (r_kept r) /\
             count (r_kept r) = n - length D.
Proof.
  intros r Hr. rewrite decide_result in Hr by assumption. inversion Hr; subst r; clear Hr. simpl.
  fold n. fold D. destruct D_facts as [ND [HB HD]].
  rewrite kept_of_count by assumption.
  eexists. split; [reflexivity|]. split; [reflexivity|]. split; [|reflexivity].
  rewrite select_length.
  - apply kept_of_count; assumption.
  - unfold kept_of. rewrite clear_at_mask, map_length, mask_of_length, combine_length. lia.
Qed.

(* the returned nll: unchanged when nothing is dropped, otherwise the likelihood re-evaluated at
   exactly the returned parameters (for every fop) *)
Lemma nll_is_fop_at_params : forall r, decide maxp th I nll fop = Ret r ->
  (count (r_kept r) = n -> r_nll r = nll) /\
  (count (r_kept r) < n -> r_nll r = fop (firstn n (r_params r))).
Proof.
  intros r Hr. rewrite decide_result in Hr by assumption. inversion Hr; subst r; clear Hr. simpl.
  fold n. fold D. destruct D_facts as [ND [HB HD]].
  rewrite kept_of_count by assumption.
  replace (firstn n (pad maxp (zero_at D th))) with (zero_at D th)
    by (unfold n; rewrite <- (zero_at_length D th); symmetry; apply firstn_pad).
  unfold nll_for, D, dropped_list in *.
  destruct (dropped_set th I fop) as [D0|] eqn:E.
  - destruct (dropped_set_wf th I fop D0 HL E) as [_ [H1 _]]. split; [lia|reflexivity].
  - simpl. split; [reflexivity|lia].
Qed.

(* when the incoming nll is the likelihood at theta, the returned nll is always the likelihood at the
   returned parameters *)
Lemma nll_consistent : fop th = nll -> forall r, decide maxp th I nll fop = Ret r ->
  r_nll r = fop (firstn n (r_params r)).
Proof.
  intros Hc r Hr. rewrite decide_result in Hr by assumption. inversion Hr; subst r; clear Hr. simpl.
  fold n. fold D.
  replace (firstn n (pad maxp (zero_at D th))) with (zero_at D th)
    by (unfold n; rewrite <- (zero_at_length D th); symmetry; apply firstn_pad).
  unfold nll_for, D, dropped_list. destruct (dropped_set th I fop); [reflexivity|].
  rewrite zero_at_nil. symmetry. exact Hc.
Qed.

(* ---- which parameters are dropped *)
Let m := map2 lt1 th I.
Let C := idx_of m.

Lemma C_spec : forall i, In i C <-> (i < n /\ lt1 (nth i th 0%Q) (nth i I NaN) = true).
Proof.
  intros i. unfold C. rewrite In_idx_of.
  assert (Hm : length m = n) by (unfold m; rewrite map2_length; auto).
  rewrite Hm. split; intros [Hi H]; split; try assumption.
  - unfold m, map2 in H.
    rewrite (nth_indep _ false ((fun p => lt1 (fst p) (snd p)) (0%Q, NaN))) in H
      by (rewrite map_length, combine_length; lia).
    rewrite (map_nth (fun p => lt1 (fst p) (snd p))) in H. rewrite combine_nth in H by auto. exact H.
  - unfold m, map2.
    rewrite (nth_indep _ false ((fun p => lt1 (fst p) (snd p)) (0%Q, NaN)))
      by (rewrite map_length, combine_length; lia).
    rewrite (map_nth (fun p => lt1 (fst p) (snd p))). rewrite combine_nth by auto. exact H.
Qed.

(* no parameter below the threshold: nothing is dropped, nll unchanged *)
Lemma nothing_below_threshold : C = [] -> D = [] /\ nll_for th I nll fop = nll.
Proof.
  intros HC. unfold D, dropped_list, nll_for, dropped_set. fold m.
  destruct (existsb (fun b : bool => b) m) eqn:E; [|split; reflexivity]. exfalso.
  apply existsb_exists in E. destruct E as [b [Hb ->]].
  apply In_nth with (d := false) in Hb. destruct Hb as [i [Hi Hn]].
  assert (In i C) by (apply In_idx_of; split; assumption). rewrite HC in H. contradiction.
Qed.

(* all-at-once snap keeps the likelihood finite: dropped <-> below the threshold *)
Lemma all_at_once : C <> [] -> isfin (fop (zero_at C th)) = true -> D = C.
Proof.
  intros HC HF. unfold D, dropped_list, dropped_set. fold m. fold C.
  destruct (existsb (fun b : bool => b) m) eqn:E; simpl.
  - unfold fin_at. rewrite HF. reflexivity.
  - exfalso. apply HC. unfold C. apply existsb_id_count in E. rewrite E.
    generalize (length m). intros k. rewrite idx_of_from. generalize 0.
    induction k; intros s; [reflexivity|]. simpl repeat. rewrite idx_from_cons. apply IHk.
Qed.

(* otherwise: the first subset, in the code's order, whose snap keeps the likelihood finite; none -> restore *)
Lemma fallback_search : C <> [] -> isfin (fop (zero_at C th)) = false ->
  dropped_set th I fop = find (fin_at fop th) (subsets_in_order C).
Proof.
  intros HC HF. unfold dropped_set. fold m. fold C.
  destruct (existsb (fun b : bool => b) m) eqn:E; simpl.
  - unfold fin_at at 1. rewrite HF. reflexivity.
  - exfalso. apply HC. unfold C. apply existsb_id_count in E. rewrite E.
    generalize (length m). intros k. rewrite idx_of_from. generalize 0.
    induction k; intros s; [reflexivity|]. simpl repeat. rewrite idx_from_cons. apply IHk.
Qed.

Lemma single_candidate_restored : length C = 1 -> isfin (fop (zero_at C th)) = false ->
  D = [] /\ nll_for th I nll fop = nll.
Proof.
  intros H1 HF. assert (HC : C <> []) by (destruct C; [discriminate|congruence]).
  unfold D, dropped_list, nll_for. rewrite (fallback_search HC HF).
  unfold subsets_in_order. rewrite H1. simpl. split; reflexivity.
Qed.

End Corollaries.

(* ================================================================== statements that need no hypothesis on I *)
Lemma bad_curvature_nan : forall maxp th I nll fop,
  (exists a, In a I /\ nonpos_or_nan a) -> decide maxp th I nll fop = nan_result maxp nll.
Proof.
  intros maxp th I nll fop H. apply bad_second_iff in H. unfold decide. now rewrite H.
Qed.

Lemma finish_ret : forall maxp orig cur I v k kept, (0 <= k)%Z ->
  exists r, finish maxp orig cur I v k kept = Ret r /\ r_len r <> CNaN.
Proof.
  intros. unfold finish. destruct (k <? 0)%Z eqn:E; [apply Z.ltb_lt in E; lia|].
  destruct (k =? 0)%Z; eexists; (split; [reflexivity|simpl; discriminate]).
Qed.

(* decide never reaches quit() nor a NameError, and NaN comes only from the validity test *)
Lemma decide_total : forall maxp th I nll fop,
  exists r, decide maxp th I nll fop = Ret r /\ (r_len r = CNaN <-> bad_second I = true).
Proof.
  intros maxp th I nll fop. unfold decide.
  destruct (bad_second I) eqn:EB.
  { eexists. split; [reflexivity|]. simpl. tauto. }
  assert (HN : forall o, (exists r, o = Ret r /\ r_len r <> CNaN) ->
                         exists r, o = Ret r /\ (r_len r = CNaN <-> false = true)).
  { intros o [r [-> Hr]]. exists r. split; [reflexivity|]. split; [contradiction|discriminate]. }
  apply HN. clear HN.
  set (m := map2 lt1 th I).
  assert (Hm : length m <= length th).
  { unfold m, map2. rewrite map_length, combine_length. lia. }
  destruct (negb (existsb (fun b : bool => b) m)).
  { eexists. split; [reflexivity|simpl; discriminate]. }
  destruct (isfin (fop (zero_mask m th))) eqn:Efin.
  { apply finish_ret. pose proof (count_le_length m). lia. }
  pose proof (search_spec fop th (idx_of m) (mkSS (zero_mask m th) (fop (zero_mask m th)) None) Efin) as HS.
  destruct (find (fin_at fop th) (subsets_in_order (idx_of m))) as [D|] eqn:EF.
  - rewrite HS. apply find_some in EF. destruct EF as [HI EF]. unfold fin_at in EF.
    unfold st_of. simpl. rewrite EF. apply finish_ret.
    apply subsets_in_order_spec in HI. destruct HI as [_ HI].
    rewrite idx_of_from, idx_from_length in HI. pose proof (count_le_length m). lia.
  - rewrite HS. apply finish_ret. lia.
Qed.

(* an infinite entry: passes the second test on its own, is never a snapping candidate *)
Lemma inf_not_candidate : forall t, lt1 t PInf = false /\ lt1 t NInf = false.
Proof. intros. split; reflexivity. Qed.
Lemma inf_triggers_sweep : forall I, (In PInf I \/ In NInf I) -> bad_first I = true.
Proof.
  intros I H. unfold bad_first. apply orb_true_iff. right. apply existsb_exists.
  destruct H; [exists PInf|exists NInf]; split; auto.
Qed.
Lemma bad_second_first : forall I, bad_second I = true -> bad_first I = true.
Proof. intros I H. unfold bad_first, bad_second in *. rewrite H. reflexivity. Qed.

(* ================================================================== the sweep *)
Lemma mat_ok_good : forall n M, mat_ok n M = true -> good (diag n M).
Proof.
  intros n M H. unfold mat_ok in H. apply andb_true_iff in H. destruct H as [HF HP].
  rewrite forallb_forall in HP. apply Forall_forall. intros a Ha. specialize (HP a Ha).
  unfold diag in Ha. apply in_map_iff in Ha. destruct Ha as [i [<- Hi]].
  set (a := nth i (nth i M []) NaN) in *.
  assert (Hfin : isfin a = true \/ a = NaN).
  { unfold a. destruct (nth_in_or_default i (nth i M []) NaN) as [Hin|Hd]; [|right; exact Hd].
    left. destruct (nth_in_or_default i M []) as [Hin2|Hd2].
    - rewrite forallb_forall in HF. specialize (HF _ Hin2). rewrite forallb_forall in HF. now apply HF.
    - rewrite Hd2 in Hin. destruct i; contradiction. }
  destruct Hfin as [Hfin|Hnan]; [|rewrite Hnan in HP; discriminate].
  destruct a as [q| | |]; try discriminate. exists q. split; [reflexivity|]. now apply Qlt_b_true.
Qed.

Lemma mode_in : forall l, l <> [] -> exists x, mode l = Some x /\ In x l.
Proof.
  intros l Hne. unfold mode.
  assert (G : forall l' b, (match b with None => True | Some y => In y l end) -> incl l' l ->
              match fold_left (fun b x => match b with
                                          | None => Some x
                                          | Some y => if better l x y then Some x else b end) l' b with
              | None => b = None /\ l' = []
              | Some y => In y l
              end).
  { induction l' as [|x l' IH]; intros b Hb Hincl; simpl.
    - destruct b; auto.
    - assert (Hx : In x l) by (apply Hincl; now left).
      assert (Hincl' : incl l' l) by (intros y Hy; apply Hincl; now right).
      destruct b as [y|].
      + destruct (better l x y).
        * specialize (IH (Some x) Hx Hincl'). simpl in IH.
          destruct (fold_left _ l' (Some x)); [assumption|]. destruct IH; discriminate.
        * specialize (IH (Some y) Hb Hincl'). simpl in IH.
          destruct (fold_left _ l' (Some y)); [assumption|]. destruct IH; discriminate.
      + specialize (IH (Some x) Hx Hincl'). simpl in IH.
        destruct (fold_left _ l' (Some x)); [assumption|]. destruct IH; discriminate. }
  specialize (G l None I (incl_refl l)). simpl in G.
  destruct (fold_left _ l None) as [y|].
  - exists y. split; [reflexivity|assumption].
  - destruct G as [_ G]. contradiction.
Qed.

Lemma find_idx_some : forall {A} (p : A -> bool) l s, (exists x, In x l /\ p x = true) ->
  exists i, find_idx p l s = Some i /\ s <= i < s + length l.
Proof.
  intros A p l. induction l as [|a l IH]; intros s [x [Hx Hp]]; [contradiction|].
  simpl. destruct (p a) eqn:E.
  - exists s. split; [reflexivity|lia].
  - destruct Hx as [->|Hx]; [congruence|]. destruct (IH (S s)) as [i [Hi Hr]]; [eauto|].
    exists i. split; [assumption|lia].
Qed.

Lemma Qeq_bool_refl : forall x, Qeq_bool x x = true.
Proof. intros. apply Qeq_bool_iff. reflexivity. Qed.

Lemma choose_at_cases : forall d n F, 0 < n ->
  choose_at d n F = NoRepeat \/ exists M, choose_at d n F = Picked M /\ In M F.
Proof.
  intros d n F Hn. unfold choose_at.
  set (keys := map (fun M => map (key d) (diag n M)) F).
  set (col0 := map (fun r => hd 0%Q r) keys).
  destruct (has_dup col0) eqn:Edup; [|now left]. right.
  assert (Hne : col0 <> []).
  { destruct col0; [discriminate|discriminate]. }
  destruct (mode_in col0 Hne) as [m0 [Hm0 Hin]]. rewrite Hm0.
  assert (Hrow : exists row, In row keys /\ existsb (Qeq_bool m0) row = true).
  { unfold col0 in Hin. apply in_map_iff in Hin. destruct Hin as [row [Hhd Hrow]].
    exists row. split; [assumption|].
    unfold keys in Hrow. apply in_map_iff in Hrow. destruct Hrow as [M [<- HM]].
    unfold diag in *. destruct n; [lia|]. simpl in *. subst m0. now rewrite Qeq_bool_refl. }
  destruct (find_idx_some (existsb (Qeq_bool m0)) keys 0 Hrow) as [i [Hi Hr]]. rewrite Hi.
  unfold keys in Hr. rewrite map_length in Hr.
  destruct (nth_error F i) as [M|] eqn:EN.
  - exists M. split; [reflexivity|]. eapply nth_error_In; eauto.
  - apply nth_error_None in EN. lia.
Qed.

Lemma choose_cases : forall n cands, 0 < n ->
  choose n cands = NoRepeat \/ exists M, choose n cands = Picked M /\ In M cands /\ mat_ok n M = true.
Proof.
  intros n cands Hn. unfold choose.
  assert (HF : forall M, In M (filter (mat_ok n) cands) -> In M cands /\ mat_ok n M = true)
    by (intros M; apply filter_In).
  destruct (choose_at_cases 3 n (filter (mat_ok n) cands) Hn) as [E|[M [E HM]]]; rewrite E.
  - destruct (choose_at_cases 1 n (filter (mat_ok n) cands) Hn) as [E1|[M [E1 HM]]]; rewrite E1.
    + now left.
    + right. exists M. split; [reflexivity|]. now apply HF.
  - right. exists M. split; [reflexivity|]. now apply HF.
Qed.

(* the whole routine: either the NaN return of the sweep, or [decide] on a positive finite diagonal
   (that of the first Hessian, or of a sweep candidate that passed the filter); in particular an
   infinite, NaN or non-positive entry never reaches the formula, and line 180 never fires. *)
Theorem convert_cases : forall maxp th H0 cands nll fop,
  let n := length th in
  0 < n ->
  (bad_first (diag n H0) = false /\ good (diag n H0) /\
   convert maxp th H0 cands nll fop = (decide maxp th (diag n H0) nll fop, H0))
  \/ (bad_first (diag n H0) = true /\ choose n cands = NoRepeat /\
      convert maxp th H0 cands nll fop = (nan_result maxp nll, H0))
  \/ (bad_first (diag n H0) = true /\ exists M, choose n cands = Picked M /\ In M cands /\ mat_ok n M = true /\
      good (diag n M) /\ convert maxp th H0 cands nll fop = (decide maxp th (diag n M) nll fop, M)).
Proof.
  intros maxp th H0 cands nll fop n Hn. unfold convert. fold n.
  destruct n as [|n'] eqn:En; [lia|]. rewrite <- En in *.
  destruct (bad_first (diag n H0)) eqn:EB.
  - right. destruct (choose_cases n cands Hn) as [E|[M [E [HM HOK]]]]; rewrite E.
    + left. repeat split; reflexivity.
    + right. split; [reflexivity|]. exists M. repeat split; auto. now apply mat_ok_good.
  - left. repeat split; auto. now apply not_bad_first_good.
Qed.

(* ================================================================== over the reals *)
Open Scope R_scope.

(* the code's test  |t| / sqrt(12/i) < 1  is  t^2 * i < 12  for i > 0 *)
Lemma nsteps_lt1_equiv : forall t i : R, 0 < i -> (Rabs t / sqrt (12 / i) < 1 <-> t * t * i < 12).
Proof.
  intros t i Hi.
  assert (Hq : 0 < 12 / i) by (apply Rdiv_lt_0_compat; lra).
  assert (Hs : 0 < sqrt (12 / i)) by (apply sqrt_lt_R0; exact Hq).
  assert (E1 : Rabs t / sqrt (12 / i) < 1 <-> Rabs t < sqrt (12 / i)).
  { assert (Ha : Rabs t = (Rabs t / sqrt (12 / i)) * sqrt (12 / i)) by (field; lra).
    set (x := Rabs t / sqrt (12 / i)) in *. set (s := sqrt (12 / i)) in *.
    split; intros H.
    - rewrite Ha. nra.
    - rewrite Ha in H. nra. }
  assert (E2 : Rabs t < sqrt (12 / i) <-> t * t < 12 / i).
  { split; intros H.
    - apply Rsqr_incrst_1 in H; [|apply Rabs_pos|lra].
      rewrite <- Rsqr_abs in H. rewrite Rsqr_sqrt in H by lra. exact H.
    - rewrite <- (sqrt_Rsqr_abs t). apply sqrt_lt_1_alt. split; [apply Rle_0_sqr|exact H]. }
  assert (E3 : t * t < 12 / i <-> t * t * i < 12).
  { assert (Hy : 12 / i * i = 12) by (field; lra).
    set (y := 12 / i) in *. split; intros H; nra. }
  tauto.
Qed.

(* ... and is the documented form |t| * sqrt(i/12) < 1 *)
Lemma nsteps_doc_form : forall t i : R, 0 < i -> Rabs t / sqrt (12 / i) = Rabs t * sqrt (i / 12).
Proof.
  intros t i Hi. unfold Rdiv at 1. f_equal.
  assert (Hq : 0 < 12 / i) by (apply Rdiv_lt_0_compat; lra).
  assert (Hs : 0 < sqrt (12 / i)) by (apply sqrt_lt_R0; exact Hq).
  apply (Rmult_eq_reg_l (sqrt (12 / i))); [|lra].
  rewrite Rinv_r by lra. rewrite <- sqrt_mult by (try lra; apply Rlt_le, Rdiv_lt_0_compat; lra).
  replace (12 / i * (i / 12)) with 1 by (field; lra). symmetry. apply sqrt_1.
Qed.

Lemma Q2R_12 : Q2R 12 = 12.
Proof. unfold Q2R. simpl. lra. Qed.

Lemma lt1_real : forall (t q : Q), (0 < q)%Q ->
  (lt1 t (Fin q) = true <-> Rabs (Q2R t) * sqrt (Q2R q / 12) < 1).
Proof.
  intros t q Hq.
  assert (HqR : 0 < Q2R q) by (replace 0 with (Q2R 0) by (unfold Q2R; simpl; lra); now apply Qlt_Rlt).
  rewrite <- nsteps_doc_form by exact HqR. rewrite nsteps_lt1_equiv by exact HqR.
  simpl. apply Qlt_b_true in Hq. rewrite Hq. simpl. rewrite Qlt_b_true.
  rewrite <- Q2R_12, <- !Q2R_mult. split; [apply Qlt_Rlt|apply Rlt_Qlt].
Qed.

(* ---------------------------------------------------------------- denotation of the structure *)
Inductive dval := DReal (r : R) | DNegInf | DNaN | DUndef.

Definition term_val (p : xq * Q) : R :=
  match fst p with Fin q => / 2 * ln (Q2R q) + ln (Rabs (Q2R (snd p))) | _ => 0 end.
Fixpoint term_sum (ts : list (xq * Q)) : R :=
  match ts with [] => 0 | p :: r => term_val p + term_sum r end.
Definition terms_posfin (ts : list (xq * Q)) : bool := forallb (fun p => gt0 (fst p) && isfin (fst p)) ts.
Definition terms_zero (ts : list (xq * Q)) : bool := existsb (fun p => Qeq_bool (snd p) 0) ts.

(* -(k/2) ln 3 + sum (1/2 ln I + ln|theta|); -inf when a kept theta is 0 (ln 0), as in floats;
   DUndef when a curvature is not positive finite (never produced by convert) *)
Definition denote (c : clen) : dval :=
  match c with
  | CNaN => DNaN
  | Codelen k ts =>
      if negb (terms_posfin ts) then DUndef
      else if terms_zero ts then DNegInf
      else DReal (- (IZR k / 2) * ln 3 + term_sum ts)
  end.

(* the documented formula, written directly over the inputs and the kept mask *)
Fixpoint formula_sum (kept : list bool) (I : list xq) (th : list Q) : R :=
  match kept, I, th with
  | b :: kept', a :: I', t :: th' => (if b then term_val (a, t) else 0) + formula_sum kept' I' th'
  | _, _, _ => 0
  end.
Fixpoint kept_zero (kept : list bool) (th : list Q) : bool :=
  match kept, th with
  | b :: kept', t :: th' => (b && Qeq_bool t 0) || kept_zero kept' th'
  | _, _ => false
  end.

Lemma term_sum_select : forall kept I th,
  term_sum (select kept (combine I th)) = formula_sum kept I th.
Proof.
  induction kept as [|b kept IH]; intros I th; [reflexivity|].
  destruct I as [|a I]; [reflexivity|]. destruct th as [|t th]; [reflexivity|].
  unfold select in *. simpl. destruct b; simpl; rewrite IH; lra.
Qed.

Lemma terms_zero_select : forall kept I th, length I = length th ->
  terms_zero (select kept (combine I th)) = kept_zero kept th.
Proof.
  induction kept as [|b kept IH]; intros I th HL; [reflexivity|].
  destruct I as [|a I]; destruct th as [|t th]; try discriminate; [reflexivity|].
  unfold select, terms_zero in *. simpl. destruct b; simpl; rewrite IH; auto.
Qed.

Lemma select_incl : forall {A} kept (l : list A), incl (select kept l) l.
Proof.
  intros A. induction kept as [|b kept IH]; intros l x Hx; [inversion Hx|].
  destruct l as [|y l]; [inversion Hx|]. unfold select in *. simpl in Hx.
  destruct b; simpl in Hx.
  - destruct Hx as [->|Hx]; [now left|right; now apply IH].
  - right. now apply IH.
Qed.

Lemma terms_posfin_good : forall kept I th, good I -> terms_posfin (select kept (combine I th)) = true.
Proof.
  intros kept I th HG. unfold terms_posfin. apply forallb_forall. intros [a t] Hp.
  apply select_incl in Hp. apply in_combine_l in Hp. unfold good in HG. rewrite Forall_forall in HG.
  apply HG, posfin_tests in Hp. simpl. destruct Hp as [_ [_ [_ [-> ->]]]]. reflexivity.
Qed.

(* codelen_formula: the returned structure denotes the documented formula over the kept parameters *)
Theorem codelen_formula : forall maxp th I nll fop r,
  length I = length th -> (length th <= maxp)%nat -> good I ->
  decide maxp th I nll fop = Ret r ->
  let k := count (r_kept r) in
  denote (r_len r) =
    if kept_zero (r_kept r) th then DNegInf
    else DReal (- (INR k / 2) * ln 3 + formula_sum (r_kept r) I th).
Proof.
  intros maxp th I nll fop r HL Hmax HG Hr k.
  destruct (k_counts_kept maxp th I nll fop HL Hmax HG r Hr) as [ts [Hlen [Hts _]]].
  rewrite Hlen. unfold denote. rewrite Hts.
  rewrite terms_posfin_good by assumption. simpl negb. cbv iota.
  rewrite terms_zero_select by assumption. rewrite term_sum_select.
  fold k. rewrite <- INR_IZR_INZ. reflexivity.
Qed.

Theorem all_dropped_zero_len : forall maxp th I nll fop r,
  length I = length th -> (length th <= maxp)%nat -> good I ->
  decide maxp th I nll fop = Ret r -> count (r_kept r) = 0%nat ->
  r_len r = Codelen 0 [] /\ denote (r_len r) = DReal 0 /\ r_params r = repeat 0%Q maxp.
Proof.
  intros maxp th I nll fop r HL Hmax HG Hr Hk.
  destruct (k_counts_kept maxp th I nll fop HL Hmax HG r Hr) as [ts [Hlen [Hts [HtsL _]]]].
  rewrite Hk in *. destruct ts; [|discriminate]. split; [exact Hlen|]. split.
  - rewrite Hlen. simpl. f_equal. lra.
  - destruct (params_zeroed maxp th I nll fop HL Hmax HG r Hr) as [HPL HP].
    destruct (kept_mask_D maxp th I nll fop HL Hmax HG r Hr) as [HKL _].
    apply (nth_ext _ _ 0%Q 0%Q).
    + now rewrite repeat_length.
    + intros i Hi. rewrite HP.
      assert (Hrep : nth i (repeat 0%Q maxp) 0%Q = 0%Q).
      { clear. revert i. induction maxp; intros i; destruct i; simpl; auto. }
      rewrite Hrep.
      destruct (Nat.ltb_spec i (length th)) as [Hin|Hin]; simpl; [|reflexivity].
      assert (Hall : forall kept, count kept = 0%nat -> forall j, (j < length kept)%nat -> nth j kept true = false).
      { clear. induction kept as [|b kept IH]; intros Hc j Hj; simpl in Hj; [lia|].
        unfold count in *. simpl in Hc. destruct b; simpl in Hc; [discriminate|].
        destruct j; [reflexivity|]. apply IH; [assumption|lia]. }
      rewrite Hall; auto. lia.
Qed.

(* ---------------------------------------------------------------- kept_iff, in the property's words *)
Definition below (th : list Q) (I : list xq) (i : nat) : Prop :=
  exists q, nth i I NaN = Fin q /\ Rabs (Q2R (nth i th 0%Q)) * sqrt (Q2R q / 12) < 1.

Lemma below_iff_candidate : forall th I, length I = length th -> good I ->
  forall i, In i (idx_of (map2 lt1 th I)) <-> ((i < length th)%nat /\ below th I i).
Proof.
  intros th I HL HG i. rewrite (C_spec (length th) th I HL (le_n _)).
  split; intros [Hi H]; split; try assumption.
  - assert (Hin : In (nth i I NaN) I) by (apply nth_In; lia).
    unfold good in HG. rewrite Forall_forall in HG. destruct (HG _ Hin) as [q [Eq Hq]].
    exists q. split; [assumption|]. rewrite Eq in H. now apply lt1_real.
  - destruct H as [q [Eq H]]. rewrite Eq.
    assert (Hin : In (nth i I NaN) I) by (apply nth_In; lia).
    unfold good in HG. rewrite Forall_forall in HG. destruct (HG _ Hin) as [q' [Eq' Hq]].
    rewrite Eq in Eq'. inversion Eq'; subst q'. now apply lt1_real.
Qed.

Theorem kept_iff : forall maxp th I nll fop r,
  length I = length th -> (length th <= maxp)%nat -> good I ->
  decide maxp th I nll fop = Ret r ->
  let n := length th in
  let C := idx_of (map2 lt1 th I) in
  let dropped i := nth i (r_kept r) true = false in
  (* C is the set of parameters below the threshold *)
  (forall i, In i C <-> ((i < n)%nat /\ below th I i)) /\
  (* the all-at-once snap keeps the likelihood finite: dropped <-> below the threshold *)
  (isfin (fop (zero_at C th)) = true -> forall i, (i < n)%nat -> (dropped i <-> below th I i)) /\
  (* otherwise: the first subset in the order (size |C|-1 down to 1, itertools.combinations order
     within a size) whose snap keeps the likelihood finite; none (e.g. |C| = 1): nothing is dropped *)
  (C <> [] -> isfin (fop (zero_at C th)) = false ->
     match find (fin_at fop th) (subsets_in_order C) with
     | Some D => (forall i, (i < n)%nat -> (dropped i <-> In i D)) /\
                 sublist D C /\ (1 <= length D < length C)%nat /\ fin_at fop th D = true /\
                 (forall D', sublist D' C -> (length D < length D' < length C)%nat -> fin_at fop th D' = false)
     | None => forall i, (i < n)%nat -> ~ dropped i
     end).
Proof.
  intros maxp th I nll fop r HL Hmax HG Hr n C dropped.
  destruct (kept_mask_D maxp th I nll fop HL Hmax HG r Hr) as [_ HK].
  pose proof (below_iff_candidate th I HL HG) as HB. fold C in HB. fold n in HB.
  split; [exact HB|]. split.
  - intros HF i Hi. unfold dropped. rewrite (HK i Hi).
    destruct C as [|c C'] eqn:EC.
    + destruct (nothing_below_threshold th I nll fop EC) as [-> _]. specialize (HB i). simpl in *. tauto.
    + assert (HC : C <> []) by (rewrite EC; discriminate).
      rewrite <- EC in HF. rewrite (all_at_once th I fop HC HF).
      change (In i C <-> below th I i). rewrite EC. specialize (HB i). tauto.
  - intros HC HF. pose proof (fallback_search th I fop HC HF) as HS. fold C in HS.
    destruct (find (fin_at fop th) (subsets_in_order C)) as [D|] eqn:EF.
    + split.
      * intros i Hi. unfold dropped. rewrite (HK i Hi). unfold dropped_list. rewrite HS. tauto.
      * pose proof EF as EF2. apply find_some in EF2. destruct EF2 as [HI HFD].
        apply subsets_in_order_spec in HI. destruct HI as [HSub HLen].
        repeat split; try assumption; try lia.
        intros D' HS' HL'. eapply larger_subsets_not_finite; eauto.
    + intros i Hi. unfold dropped. rewrite (HK i Hi). unfold dropped_list. rewrite HS. simpl. tauto.
Qed.

(* within one size, the order is that of itertools.combinations: everything before D in combs C |D| is not finite *)
Theorem fallback_same_size_order : forall fop th C D,
  find (fin_at fop th) (subsets_in_order C) = Some D ->
  exists pre post, combs C (length D) = pre ++ D :: post /\ forall D', In D' pre -> fin_at fop th D' = false.
Proof.
  intros fop th C D HF. unfold subsets_in_order in HF.
  assert (G : forall k, find (fin_at fop th) (concat (map (combs C) (rev (seq 1 k)))) = Some D ->
                        find (fin_at fop th) (combs C (length D)) = Some D).
  { induction k as [|k IH]; intros H; [discriminate|].
    rewrite rev_seq_S in H. simpl in H. rewrite find_app in H.
    destruct (find (fin_at fop th) (combs C (S k))) as [D0|] eqn:E.
    - inversion H; subst D0. pose proof E as E2. apply find_some in E2. destruct E2 as [E2 _].
      apply combs_spec in E2. destruct E2 as [_ E2]. rewrite E2. exact E.
    - now apply IH. }
  apply G in HF. apply find_first in HF. destruct HF as [pre [post [E [_ HP]]]]. eauto.
Qed.

(* ================================================================== a kept parameter is never 0 on consistent inputs *)
Close Scope R_scope.
Open Scope nat_scope.

Lemma sublist_single : forall {A} (x : A) l, In x l -> sublist [x] l.
Proof.
  intros A x l. induction l as [|y l IH]; intros H; [inversion H|].
  destruct H as [->|H].
  - constructor. constructor.
  - apply sub_skip. now apply IH.
Qed.

Lemma sublist_insert : forall (D C : list nat) i, sublist D C -> In i C -> ~ In i D ->
  exists D', sublist D' C /\ length D' = S (length D) /\ forall j, In j D' <-> (j = i \/ In j D).
Proof.
  intros D C i HS. induction HS as [l|x l1 l2 HS IH|x l1 l2 HS IH]; intros HiC HiD.
  - exists [i]. split; [now apply sublist_single|]. split; [reflexivity|]. intros j. simpl. intuition.
  - assert (Hne : i <> x) by (intros ->; apply HiD; now left).
    destruct HiC as [HiC|HiC]; [congruence|].
    destruct IH as [D' [H1 [H2 H3]]]; [assumption|intros H; apply HiD; now right|].
    exists (x :: D'). split; [now constructor|]. split; [simpl; lia|].
    intros j. simpl. rewrite H3. intuition.
  - destruct (Nat.eq_dec i x) as [->|Hne].
    + exists (x :: l1). split; [now constructor|]. split; [reflexivity|]. intros j. simpl. intuition.
    + destruct HiC as [HiC|HiC]; [congruence|].
      destruct IH as [D' [H1 [H2 H3]]]; [assumption|assumption|].
      exists D'. split; [now apply sub_skip|]. split; assumption.
Qed.

Lemma sublist_same_length : forall {A} (l1 l2 : list A), sublist l1 l2 -> length l1 = length l2 -> l1 = l2.
Proof.
  intros A l1 l2 H. induction H as [l|x l1 l2 H IH|x l1 l2 H IH]; intros HL.
  - destruct l; [reflexivity|discriminate].
  - f_equal. apply IH. simpl in HL. lia.
  - apply sublist_length in H. simpl in HL. lia.
Qed.

Lemma zero_at_insert_zero : forall D D' th i,
  (forall j, In j D' <-> (j = i \/ In j D)) -> nth i th 0%Q = 0%Q -> zero_at D' th = zero_at D th.
Proof.
  intros D D' th i HD Hz. apply (nth_ext _ _ 0%Q 0%Q).
  - now rewrite !zero_at_length.
  - intros j _. rewrite !nth_zero_at.
    destruct (memn j D') eqn:E1; destruct (memn j D) eqn:E2; try reflexivity.
    + apply memn_true in E1. apply HD in E1. destruct E1 as [->|E1]; [now rewrite Hz|].
      apply memn_true in E1. congruence.
    + apply memn_true in E2. assert (In j D') by (apply HD; now right). apply memn_true in H. congruence.
Qed.

Lemma kept_zero_witness : forall kept th, kept_zero kept th = true ->
  exists i, i < length th /\ i < length kept /\ nth i kept true = true /\ Qeq_bool (nth i th 0%Q) 0 = true.
Proof.
  induction kept as [|b kept IH]; intros th H; [discriminate|].
  destruct th as [|t th]; [discriminate|]. simpl in H. apply orb_true_iff in H. destruct H as [H|H].
  - apply andb_true_iff in H. destruct H as [-> Ht]. exists 0. simpl. repeat split; try lia; assumption.
  - destruct (IH th H) as [i [H1 [H2 [H3 H4]]]]. exists (S i). simpl. repeat split; try lia; assumption.
Qed.

Theorem kept_nonzero : forall maxp th I nll fop r,
  length I = length th -> length th <= maxp -> good I ->
  fop th = nll -> isfin nll = true ->
  (forall i, Qeq_bool (nth i th 0%Q) 0 = true -> nth i th 0%Q = 0%Q) ->
  decide maxp th I nll fop = Ret r -> kept_zero (r_kept r) th = false.
Proof.
  intros maxp th I nll fop r HL Hmax HG Hc Hfin Hlit Hr.
  destruct (kept_zero (r_kept r) th) eqn:EK; [exfalso|reflexivity].
  apply kept_zero_witness in EK. destruct EK as [i [Hi [_ [Hkept Hz]]]].
  apply Hlit in Hz.
  destruct (kept_mask_D maxp th I nll fop HL Hmax HG r Hr) as [_ HK].
  assert (HiD : ~ In i (dropped_list th I fop)).
  { intros H. apply (HK i Hi) in H. congruence. }
  set (C := idx_of (map2 lt1 th I)).
  assert (HiC : In i C).
  { apply (C_spec (length th) th I HL (le_n _)). split; [assumption|]. rewrite Hz.
    assert (Hin : In (nth i I NaN) I) by (apply nth_In; lia).
    unfold good in HG. rewrite Forall_forall in HG. destruct (HG _ Hin) as [q [-> Hq]].
    simpl. apply Qlt_b_true in Hq. rewrite Hq. simpl. apply Qlt_b_true.
    setoid_replace (0 * 0 * q)%Q with 0%Q by ring. reflexivity. }
  assert (HC : C <> []) by (intros E; rewrite E in HiC; inversion HiC).
  destruct (isfin (fop (zero_at C th))) eqn:EF.
  - rewrite (all_at_once th I fop HC EF) in HiD. contradiction.
  - pose proof (fallback_search th I fop HC EF) as HS. fold C in HS.
    unfold dropped_list in HiD. rewrite HS in HiD.
    destruct (find (fin_at fop th) (subsets_in_order C)) as [D0|] eqn:EFind.
    + pose proof EFind as E2. apply find_some in E2. destruct E2 as [HIn HfD].
      apply subsets_in_order_spec in HIn. destruct HIn as [HSub HLen].
      destruct (sublist_insert D0 C i HSub HiC HiD) as [D' [HS' [HL' HD']]].
      pose proof (zero_at_insert_zero D0 D' th i HD' Hz) as HZ.
      pose proof (sublist_length _ _ HS') as HLe.
      destruct (Nat.eq_dec (length D') (length C)) as [Eq|Ne].
      * apply sublist_same_length in HS'; [|assumption]. subst D'.
        unfold fin_at in HfD. rewrite <- HZ in HfD. congruence.
      * assert (Hf : fin_at fop th D' = false).
        { eapply larger_subsets_not_finite; eauto. lia. }
        unfold fin_at in *. rewrite HZ in Hf. congruence.
    + assert (HZ : zero_at [i] th = zero_at [] th).
      { apply (zero_at_insert_zero [] [i] th i); [|assumption]. intros j. simpl. intuition. }
      rewrite zero_at_nil in HZ.
      pose proof (sublist_single i C HiC) as HS1. pose proof (sublist_length _ _ HS1) as HLe. simpl in HLe.
      destruct (Nat.eq_dec (length C) 1) as [Eq|Ne].
      * assert (E1 : [i] = C) by (apply sublist_same_length; [assumption|simpl; lia]).
        rewrite <- E1, HZ, Hc, Hfin in EF. discriminate.
      * assert (HIn : In [i] (subsets_in_order C)).
        { apply subsets_in_order_spec. split; [assumption|simpl; lia]. }
        eapply find_none in EFind; [|exact HIn]. unfold fin_at in EFind. rewrite HZ, Hc, Hfin in EFind. discriminate.
Qed.
