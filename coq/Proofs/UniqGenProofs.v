(* C03: the functions generated from esr/generation/utils.py (Gen/GenUniq.v, regenerated on every run) compute
   exactly the hand-written models of Model/Uniq.v, for every element type, every equality and every input
   (indices as Z on the generated side, nat on the model side). *)
From Coq Require Import ZArith List Bool Arith Lia.
From ESRV Require Import Common.Py Gen.GenUniq Model.Uniq.
Import ListNotations.

Definition zd {A} (d : list (A * nat)) : list (A * Z) := map (fun kv => (fst kv, Z.of_nat (snd kv))) d.

Section G.
  Context {A : Type} (eqb : A -> A -> bool).

  Lemma zd_dget : forall (d : list (A * nat)) k,
    py_dget eqb k (zd d) = option_map Z.of_nat (dget eqb k d).
  Proof.
    induction d as [|[k' v] d IH]; intros k; cbn [zd map py_dget dget fst snd option_map]; [reflexivity|].
    destruct (eqb k k'); [reflexivity|]. apply IH.
  Qed.

  Lemma zd_dmem : forall (d : list (A * nat)) k, py_dmem eqb k (zd d) = dmem eqb k d.
  Proof. intros. unfold py_dmem, dmem. rewrite zd_dget. destruct (dget eqb k d); reflexivity. Qed.

  Lemma zd_dset : forall (d : list (A * nat)) k v,
    py_dset eqb k (Z.of_nat v) (zd d) = zd (dset eqb k v d).
  Proof.
    induction d as [|[k' v'] d IH]; intros k v; cbn [zd map py_dset dset fst snd]; [reflexivity|].
    destruct (eqb k k'); cbn [map fst snd]; [reflexivity|]. f_equal. apply IH.
  Qed.

  Lemma zd_keys : forall d : list (A * nat), map fst (zd d) = map fst d.
  Proof. intros. unfold zd. rewrite map_map. reflexivity. Qed.

  Lemma py_index_nat : forall (l : list A) (i : nat), py_index l (Z.of_nat i) = nth_error l i.
  Proof.
    intros l i. unfold py_index.
    destruct (0 <=? Z.of_nat i)%Z eqn:E; [ now rewrite Nat2Z.id | apply Z.leb_gt in E; lia ].
  Qed.

  (* a for loop over range(len(L)) whose body reads L[i] is a fold over enumerate(L) *)
  Lemma for_enum : forall (S : Type) (step : S -> nat * A -> S) (body : Z -> S -> option S) (suf pre : list A) (s : S),
    (forall n s, body (Z.of_nat n) s = (ix <- nth_error (pre ++ suf) n ;; Some (step s (n, ix)))) ->
    for_list body (map Z.of_nat (seq (length pre) (length suf))) s
    = Some (fold_left step (combine (seq (length pre) (length suf)) suf) s).
  Proof.
    intros S step body suf. induction suf as [|x suf IH]; intros pre s Hb; [reflexivity|].
    cbn [length seq map for_list combine fold_left].
    rewrite Hb, nth_error_app2 by lia. rewrite Nat.sub_diag. cbn [nth_error bind].
    specialize (IH (pre ++ [x])). rewrite <- app_assoc in IH. cbn [app] in IH.
    rewrite app_length in IH. cbn [length] in IH. rewrite Nat.add_1_r in IH. apply IH. exact Hb.
  Qed.

  Lemma for_range_enum : forall (S : Type) (step : S -> nat * A -> S) (L : list A) (s : S)
      (body : Z -> S -> option S),
    (forall n s, body (Z.of_nat n) s = (ix <- nth_error L n ;; Some (step s (n, ix)))) ->
    py_for_range (py_len L) body s = Some (fold_left step (enumerate L) s).
  Proof.
    intros S step L s body Hb. unfold py_for_range, zrange, py_len, enumerate. rewrite Nat2Z.id.
    exact (for_enum S step body L [] s Hb).
  Qed.

  (* ---- get_unique_indexes ---- *)
  Definition zstep (d : list (A * Z)) (iv : nat * A) : list (A * Z) :=
    if negb (py_dmem eqb (snd iv) d) then py_dset eqb (snd iv) (Z.of_nat (fst iv)) d else d.

  Lemma zstep_fold : forall l d, fold_left zstep l (zd d) = zd (fold_left (gui_step eqb) l d).
  Proof.
    induction l as [|iv l IH]; intros d; cbn [fold_left]; [reflexivity|].
    rewrite <- IH. f_equal. unfold zstep, gui_step. rewrite zd_dmem.
    destruct (dmem eqb (snd iv) d); cbn [negb]; [reflexivity|]. apply zd_dset.
  Qed.

  Lemma enum_Z : forall (B : Type) (l : list B),
    py_enumerate l = map (fun iv => (Z.of_nat (fst iv), snd iv)) (enumerate l).
  Proof.
    intros B l. unfold py_enumerate, enumerate, zrange, py_len. rewrite Nat2Z.id.
    generalize (seq 0 (length l)) as s. intros s. revert l.
    induction s as [|i s IH]; intros l; [reflexivity|]. destruct l as [|x l]; [reflexivity|].
    cbn [map combine fst snd]. f_equal. apply IH.
  Qed.

  Lemma dict_of_fold : forall (l : list (nat * A)) (d : list (A * nat)),
    fold_left (fun d kv => py_dset eqb (fst kv) (snd kv) d)
              (map (fun '(i, v) => (v, i)) (map (fun iv : nat * A => (Z.of_nat (fst iv), snd iv)) l)) (zd d)
    = zd (fold_left (fun d iv => dset eqb (snd iv) (fst iv) d) l d).
  Proof.
    induction l as [|[i v] l IH]; intros d; cbn [map fold_left fst snd]; [reflexivity|].
    rewrite zd_dset. apply IH.
  Qed.

  Theorem gen_get_unique_indexes : forall L : list A,
    GenUniq.get_unique_indexes eqb L = Some (zd (gui_result eqb L), zd (gui_match eqb L)).
  Proof.
    intros L. unfold GenUniq.get_unique_indexes.
    rewrite (for_range_enum _ zstep L []).
    - cbn [bind]. change (@nil (A * Z)) with (zd (@nil (A * nat))). rewrite !zstep_fold.
      fold (gui_result eqb L). f_equal. f_equal.
      unfold py_dict_of, gui_match, uniq_keys. rewrite zd_keys, enum_Z.
      change (@nil (A * Z)) with (zd (@nil (A * nat))). apply dict_of_fold.
    - intros n s. rewrite py_index_nat. destruct (nth_error L n) as [x|]; cbn [bind]; [|reflexivity].
      unfold zstep. cbn [fst snd].
      destruct (negb (py_dmem eqb x s)); reflexivity.
  Qed.

  (* ---- get_match_indexes ---- *)
  Definition zmstep (b : list A) (d : list (A * Z)) (iv : nat * A) : list (A * Z) :=
    if py_mem eqb (snd iv) b && negb (py_dmem eqb (snd iv) d) then py_dset eqb (snd iv) (Z.of_nat (fst iv)) d else d.

  (* Python evaluates `val in bb` and `val in result` with == on the elements; the generated code and the model write the
     two arguments of the equality in different orders, which is immaterial for a symmetric equality *)
  Hypothesis eqb_sym : forall x y, eqb x y = eqb y x.

  Lemma mem_lmem : forall x l, py_mem eqb x l = lmem eqb x l.
  Proof.
    intros x l. unfold py_mem, lmem. induction l as [|e l IH]; cbn [existsb]; [reflexivity|].
    now rewrite IH, (eqb_sym e x).
  Qed.

  Lemma zmstep_fold : forall b l d, fold_left (zmstep b) l (zd d) = zd (fold_left (gmi_step eqb b) l d).
  Proof.
    intros b. induction l as [|iv l IH]; intros d; cbn [fold_left]; [reflexivity|].
    rewrite <- IH. f_equal. unfold zmstep, gmi_step. rewrite zd_dmem, mem_lmem.
    destruct (lmem eqb (snd iv) b && negb (dmem eqb (snd iv) d)); [apply zd_dset | reflexivity].
  Qed.

  Lemma traverse_zd : forall (d : list (A * nat)) (b : list A),
    py_traverse (fun f => dg <- py_dget eqb f (zd d) ;; Some dg) b
    = option_map (map Z.of_nat) (traverse (fun f => dget eqb f d) b).
  Proof.
    intros d. induction b as [|f b IH]; cbn [py_traverse traverse]; [reflexivity|].
    rewrite zd_dget. destruct (dget eqb f d) as [v|]; cbn [option_map bind]; [|reflexivity].
    rewrite IH. destruct (traverse (fun f0 => dget eqb f0 d) b); reflexivity.
  Qed.

  Theorem gen_get_match_indexes : forall a b : list A,
    GenUniq.get_match_indexes eqb a b = option_map (map Z.of_nat) (Uniq.get_match_indexes eqb a b).
  Proof.
    intros a b. unfold GenUniq.get_match_indexes, Uniq.get_match_indexes.
    rewrite (for_range_enum _ (zmstep b) a []).
    - cbn [bind]. change (@nil (A * Z)) with (zd (@nil (A * nat))). rewrite zmstep_fold.
      fold (gmi_result eqb a b). rewrite traverse_zd.
      destruct (traverse (fun f => dget eqb f (gmi_result eqb a b)) b); reflexivity.
    - intros n s. rewrite py_index_nat. destruct (nth_error a n) as [x|]; cbn [bind]; [|reflexivity].
      unfold zmstep. cbn [fst snd].
      destruct (py_mem eqb x b && negb (py_dmem eqb x s)); reflexivity.
  Qed.
End G.

(* ---- the C03 statements about the two functions, restated on the generated code ---- *)
From ESRV Require Import Proofs.UniqProofs.

Section Code.
  Context {A : Type} (eqb : A -> A -> bool).
  Hypothesis eqb_spec : forall x y, eqb x y = true <-> x = y.

  Lemma eqb_sym_of_spec : forall x y, eqb x y = eqb y x.
  Proof.
    intros x y. destruct (eqb x y) eqn:E1, (eqb y x) eqn:E2; try reflexivity.
    - apply eqb_spec in E1. subst. assert (eqb y y = true) by now apply eqb_spec. congruence.
    - apply eqb_spec in E2. subst. assert (eqb x x = true) by now apply eqb_spec. congruence.
  Qed.

  (* get_unique_indexes returns (without raising) the distinct values in order of first appearance, each with the index of
     its first occurrence, and the position of each distinct value in that order *)
  Theorem code_get_unique_indexes : forall L : list A,
    GenUniq.get_unique_indexes eqb L
    = Some (map (fun k => (k, Z.of_nat (first_index eqb k L))) (dedup eqb L),
            combine (dedup eqb L) (map Z.of_nat (seq 0 (length (dedup eqb L))))).
  Proof.
    intros L. rewrite gen_get_unique_indexes. f_equal. f_equal.
    - rewrite (gui_result_spec A eqb eqb_spec). unfold zd. rewrite map_map. reflexivity.
    - rewrite (gui_match_spec A eqb eqb_spec), (uniq_keys_spec A eqb eqb_spec). unfold zd.
      generalize (seq 0 (length (dedup eqb L))) as s. generalize (dedup eqb L) as D.
      induction D as [|k D IH]; intros s; [reflexivity|]. destruct s as [|i s]; [reflexivity|].
      cbn [combine map fst snd]. f_equal. apply IH.
  Qed.

  Theorem code_get_match_indexes_total : forall a b : list A,
    (forall f, In f b -> In f a) ->
    GenUniq.get_match_indexes eqb a b = Some (map (fun f => Z.of_nat (first_index eqb f a)) b).
  Proof.
    intros a b H. rewrite (gen_get_match_indexes eqb eqb_sym_of_spec).
    rewrite (get_match_indexes_spec A eqb eqb_spec a b H). cbn [option_map]. now rewrite map_map.
  Qed.

  Theorem code_get_match_indexes_keyerror : forall (a b : list A) f,
    In f b -> ~ In f a -> GenUniq.get_match_indexes eqb a b = None.
  Proof.
    intros a b f Hb Ha. rewrite (gen_get_match_indexes eqb eqb_sym_of_spec).
    now rewrite (get_match_indexes_keyerror A eqb eqb_spec a b f Hb Ha).
  Qed.
End Code.
