(* C03: the contract [cancel_ok] that C03_chain_sound assumes about simplify_inv_subs is a THEOREM about the code as regenerated
   from simplifier.py (Gen/GenCancel.v), for chains of abstract substitution ids, provided every member of all_dup denotes an
   involution of the parameter vector and the nan marker is not a member of all_dup (get_all_dup: C17_all_dup_spec,
   C17_all_dup_involutive). *)
From Coq Require Import NArith List Bool Arith Lia.
From ESRV Require Import Common.Py Gen.GenCancel Model.DoSympy Proofs.CancelGenProofs Proofs.CancelGenericProofs.
Import ListNotations.
Open Scope nat_scope.

Section S.
  Variable Env : Type.
  Variable sden : N -> Env -> Env.
  Variable dup : list N.
  Hypothesis dup_involutive : forall s, In s dup -> forall theta, sden s (sden s theta) = theta.
  Hypothesis nan_not_dup : ~ In nan_sub dup.

  Lemma mem_In : forall x, py_mem N.eqb x dup = true -> In x dup.
  Proof.
    intros x H. unfold py_mem in H. apply existsb_exists in H as (e & He & E). apply N.eqb_eq in E. now subst.
  Qed.

  Lemma gcancel_ok_len : forall n c, length c <= n ->
    has_nan (gcancel N.eqb dup c) = has_nan c /\
    forall theta, compose Env sden (gcancel N.eqb dup c) theta = compose Env sden c theta.
  Proof.
    induction n as [|n IH]; intros c Hn.
    - destruct c; [split; reflexivity | cbn in Hn; lia].
    - destruct c as [|x [|y r]]; [split; reflexivity | split; reflexivity |].
      rewrite gcancel_cons2. destruct (py_mem N.eqb x dup && N.eqb y x) eqn:Hc.
      + apply andb_true_iff in Hc as [Hm He]. apply N.eqb_eq in He. subst y. apply mem_In in Hm.
        destruct (IH r) as [H1 H2]; [cbn in Hn; lia|]. split.
        * rewrite H1. unfold has_nan. cbn [existsb].
          assert (E : N.eqb nan_sub x = false).
          { apply N.eqb_neq. intros Heq. apply nan_not_dup. rewrite Heq. exact Hm. }
          now rewrite E.
        * intros theta. rewrite H2. unfold compose. cbn [fold_right]. now rewrite dup_involutive.
      + destruct (IH (y :: r)) as [H1 H2]; [cbn in Hn |- *; lia|]. split.
        * unfold has_nan in *. cbn [existsb] in *. now rewrite H1.
        * intros theta. unfold compose in *. cbn [fold_right] in *. now rewrite H2.
  Qed.

  Theorem code_cancel_ok : cancel_ok Env sden (code_cancel N.eqb dup).
  Proof.
    intros c. rewrite code_cancel_is_gcancel.
    destruct (gcancel_ok_len (length c) c (le_n _)) as [H1 H2]. split; [exact H1 | intros _; exact H2].
  Qed.
End S.

From Coq Require Import Permutation.
From ESRV Require Import Model.Uniq Proofs.DoSympyProofs.

(* chain_sound with the cancellation step instantiated by the generated code: the contract hypothesis is gone *)
Theorem chain_sound_code_cancel : forall (V Env : Type) (den : N -> Env -> V) (sden : N -> Env -> Env) (npar : N -> nat)
    cp mp E xo os perm (dup : list N) check T o,
  (forall s, In s dup -> forall theta, sden s (sden s theta) = theta) ->
  ~ In nan_sub dup ->
  main cp mp E xo os perm (code_cancel N.eqb dup) check T = Some o ->
  Permutation perm (seq 0 (length (uniq_keys N.eqb (o_fun o)))) ->
  run_sound V Env den sden npar cp mp (inherit E xo) os ->
  forall i f0, nth_error (o_a0 o) i = Some f0 ->
    exists q u c, nth_error (l_match (o_lib o)) i = Some q /\ nth_error (l_uniq (o_lib o)) q = Some u /\
                  nth_error (l_subs (o_lib o)) i = Some c /\ step_sound V Env den sden npar f0 u c.
Proof.
  intros V Env den sden npar cp mp E xo os perm dup check T o Hinv Hnan Hmain Hperm Hrun.
  eapply chain_sound; eauto. now apply code_cancel_ok.
Qed.
