(* C13: for every rank count P >= 1 the scatter / compute / gather index arithmetic of
   ESR's generation stage (Model/Dist.v, built on the translated utils.split_idx)
   returns what the one-rank run returns. *)
From Coq Require Import ZArith List Lia Arith Bool.
From ESRV Require Import Common.Py Common.Tiling Gen.GenPartition Proofs.PartitionProofs Model.Dist.
Import ListNotations.
Open Scope Z_scope.

(* ------------------------------------------------------------------ *)
(* generic facts                                                       *)

Lemma sequence_map_seq {X} (f : nat -> option X) (g : nat -> X) (s n : nat) :
  (forall r, (s <= r < s + n)%nat -> f r = Some (g r)) ->
  sequence (map f (seq s n)) = Some (map g (seq s n)).
Proof.
  revert s; induction n as [|n IH]; intros s H; cbn; [reflexivity|].
  rewrite H by lia. cbn. rewrite IH by (intros; apply H; lia). reflexivity.
Qed.

Lemma gather_some {X} (P : Z) (f : Z -> option X) (g : nat -> X) :
  (forall r, (r < Z.to_nat P)%nat -> f (Z.of_nat r) = Some (g r)) ->
  gather P f = Some (map g (seq 0 (Z.to_nat P))).
Proof.
  intros H. unfold gather, traverse, zrange. rewrite map_map.
  apply sequence_map_seq. intros r Hr. apply H. lia.
Qed.

Lemma traverse_some {X Y} (f : X -> option Y) (g : X -> Y) (l : list X) :
  (forall x, In x l -> f x = Some (g x)) -> traverse f l = Some (map g l).
Proof.
  unfold traverse. induction l as [|x l IH]; intros H; cbn; [reflexivity|].
  rewrite H by (now left). cbn. rewrite IH by (intros; apply H; now right). reflexivity.
Qed.

Lemma fold_opt_inv_from {S} (f : S -> Z -> option S) (I : nat -> S) (s n : nat) :
  (forall k, (s <= k < s + n)%nat -> f (I k) (Z.of_nat k) = Some (I (Datatypes.S k))) ->
  fold_opt f (map Z.of_nat (seq s n)) (I s) = Some (I (s + n)%nat).
Proof.
  revert s; induction n as [|n IH]; intros s H; cbn.
  - now rewrite Nat.add_0_r.
  - rewrite H by lia. cbn. rewrite IH by (intros; apply H; lia). f_equal. f_equal. lia.
Qed.

Lemma fold_opt_inv {S} (f : S -> Z -> option S) (I : nat -> S) (P : Z) :
  (forall k, (k < Z.to_nat P)%nat -> f (I k) (Z.of_nat k) = Some (I (Datatypes.S k))) ->
  fold_opt f (zrange P) (I 0%nat) = Some (I (Z.to_nat P)).
Proof.
  intros H. unfold zrange. apply (fold_opt_inv_from f I 0). intros k Hk. apply H. lia.
Qed.

Lemma fold_opt_app {S X} (f : S -> X -> option S) (l1 l2 : list X) (s : S) :
  fold_opt f (l1 ++ l2) s = (s' <- fold_opt f l1 s ;; fold_opt f l2 s').
Proof.
  revert s; induction l1 as [|x l1 IH]; intros s; cbn; [reflexivity|].
  destruct (f s x); cbn; [apply IH|reflexivity].
Qed.

Lemma py_index_nat {X} (l : list X) (k : nat) : py_index l (Z.of_nat k) = nth_error l k.
Proof.
  unfold py_index. destruct (Z.leb_spec 0 (Z.of_nat k)); [|lia]. now rewrite Nat2Z.id.
Qed.

Lemma py_index_last {X} (l : list X) (x : X) : py_index (l ++ [x]) (-1) = Some x.
Proof.
  unfold py_index, py_len. rewrite app_length. cbn [length].
  destruct (Z.leb_spec 0 (-1)); [lia|].
  destruct (Z.leb_spec (- Z.of_nat (length l + 1)) (-1)); [|lia].
  replace (Z.to_nat (Z.of_nat (length l + 1) + -1)) with (length l) by lia.
  rewrite nth_error_app2 by lia. now rewrite Nat.sub_diag.
Qed.

Lemma first_last1_pair (a b : Z) : first_last1 [a; b - 1] = Some (a, b).
Proof.
  unfold first_last1. cbn. change (Pos.to_nat 1) with 1%nat. cbn. f_equal. f_equal. lia.
Qed.

Lemma flat_map_concat {X Y} (g : X -> list Y) (ls : list (list X)) :
  flat_map g (concat ls) = concat (map (flat_map g) ls).
Proof.
  induction ls as [|l ls IH]; cbn; [reflexivity|]. now rewrite flat_map_app, IH.
Qed.

Lemma flat_map_if_filter {X Y} (c : X -> bool) (g : X -> list Y) (l : list X) :
  flat_map (fun x => if c x then g x else []) l = flat_map g (filter c l).
Proof.
  induction l as [|x l IH]; cbn; [reflexivity|]. destruct (c x); cbn; now rewrite IH.
Qed.

(* ------------------------------------------------------------------ *)
(* integer intervals                                                   *)

Lemma zinterval_In (a b x : Z) : In x (zinterval a b) <-> a <= x < b.
Proof.
  unfold zinterval. rewrite in_map_iff. split.
  - intros (i & <- & Hi). apply in_seq in Hi. lia.
  - intros H. exists (Z.to_nat (x - a)). split; [lia|]. apply in_seq. lia.
Qed.

Lemma zinterval_empty (a b : Z) : b <= a -> zinterval a b = [].
Proof. intros H. unfold zinterval. replace (Z.to_nat (b - a)) with 0%nat by lia. reflexivity. Qed.

Lemma zinterval_split (a m b : Z) : a <= m <= b -> zinterval a b = zinterval a m ++ zinterval m b.
Proof.
  intros H. unfold zinterval.
  replace (Z.to_nat (b - a)) with (Z.to_nat (m - a) + Z.to_nat (b - m))%nat by lia.
  rewrite seq_app, map_app. f_equal. cbn [plus].
  rewrite <- (map_map Z.of_nat (fun z => a + z)), map_of_nat_seq, map_map.
  apply map_ext. intros i. lia.
Qed.

Lemma zrange_zinterval (n : Z) : zrange n = zinterval 0 n.
Proof. unfold zrange, zinterval. rewrite Z.sub_0_r. apply map_ext. intros; lia. Qed.

Lemma filter_none {X} (c : X -> bool) (l : list X) : (forall x, In x l -> c x = false) -> filter c l = [].
Proof.
  induction l as [|x l IH]; intros H; cbn; [reflexivity|].
  rewrite H by (now left). apply IH. intros; apply H; now right.
Qed.

Lemma filter_all {X} (c : X -> bool) (l : list X) : (forall x, In x l -> c x = true) -> filter c l = l.
Proof.
  induction l as [|x l IH]; intros H; cbn; [reflexivity|].
  rewrite H by (now left). f_equal. apply IH. intros; apply H; now right.
Qed.

Lemma filter_zrange_window (T a b : Z) :
  0 <= a -> b <= T ->
  filter (fun pos => (pos >=? a) && (pos <? b)) (zrange T) = zinterval a b.
Proof.
  intros Ha Hb. destruct (Z.le_gt_cases a b) as [Hab|Hab].
  - rewrite zrange_zinterval, (zinterval_split 0 a T), (zinterval_split a b T) by lia.
    rewrite !filter_app.
    rewrite (filter_none _ (zinterval 0 a)), (filter_all _ (zinterval a b)), (filter_none _ (zinterval b T)).
    + now rewrite app_nil_r.
    + intros x Hx. apply zinterval_In in Hx. destruct (Z.ltb_spec x b); [lia|]. apply andb_false_r.
    + intros x Hx. apply zinterval_In in Hx.
      destruct (Z.geb_spec x a); [|lia]. destruct (Z.ltb_spec x b); [reflexivity|lia].
    + intros x Hx. apply zinterval_In in Hx. destruct (Z.geb_spec x a); [lia|]. reflexivity.
  - rewrite zinterval_empty by lia. apply filter_none. intros x _.
    destruct (Z.geb_spec x a); [|reflexivity]. destruct (Z.ltb_spec x b); [lia|reflexivity].
Qed.

(* ------------------------------------------------------------------ *)
(* split_idx: nat-indexed form of split_idx_spec                       *)

Section SplitIdx.
  Variables (N P : Z).
  Hypothesis HN : 0 <= N.
  Hypothesis HP : 1 <= P.

  Lemma sb_0 : si_bounds N P 0 = 0%nat.
  Proof. unfold si_bounds, div_point. cbn. lia. Qed.

  Lemma sb_facts :
    0 <= N mod P < P /\ 0 <= N / P /\ N = P * (N / P) + N mod P.
  Proof.
    split; [apply Z.mod_pos_bound; lia|]. split; [apply Z.div_pos; lia|]. apply Z.div_mod; lia.
  Qed.

  Lemma sb_mono (r : nat) : (r < Z.to_nat P)%nat -> (si_bounds N P r <= si_bounds N P (S r))%nat.
  Proof. destruct sb_facts as (He & Hq & Hd). intros Hr. unfold si_bounds, div_point. nia. Qed.

  Lemma sb_P : si_bounds N P (Z.to_nat P) = Z.to_nat N.
  Proof. destruct sb_facts as (He & Hq & Hd). unfold si_bounds, div_point. f_equal. nia. Qed.

  Lemma sb_le_N (r : nat) : (r <= Z.to_nat P)%nat -> (si_bounds N P r <= Z.to_nat N)%nat.
  Proof. destruct sb_facts as (He & Hq & Hd). intros Hr. unfold si_bounds, div_point. nia. Qed.

  Lemma sb_of_nat (r : nat) : Z.of_nat (si_bounds N P r) = div_point (N / P) (N mod P) (Z.of_nat r).
  Proof. destruct sb_facts as (He & Hq & Hd). unfold si_bounds. rewrite Z2Nat.id; [reflexivity|]. unfold div_point. nia. Qed.

  Lemma split_idx_nat (r : nat) :
    (r < Z.to_nat P)%nat ->
    split_idx N (Z.of_nat r) P =
      Some (if (si_bounds N P r <? si_bounds N P (S r))%nat
            then [Z.of_nat (si_bounds N P r); Z.of_nat (si_bounds N P (S r)) - 1] else []).
  Proof.
    intros Hr. rewrite split_idx_spec by lia. cbv zeta.
    rewrite !sb_of_nat. replace (Z.of_nat (S r)) with (Z.of_nat r + 1) by lia.
    pose proof (sb_of_nat r) as E1. pose proof (sb_of_nat (S r)) as E2.
    replace (Z.of_nat (S r)) with (Z.of_nat r + 1) in E2 by lia.
    destruct (Z.geb_spec (div_point (N / P) (N mod P) (Z.of_nat r)) (div_point (N / P) (N mod P) (Z.of_nat r + 1)));
      destruct (Nat.ltb_spec (si_bounds N P r) (si_bounds N P (S r))); try reflexivity; lia.
  Qed.
End SplitIdx.

Lemma si_chunks_tile {X} (l : list X) (P : Z) :
  1 <= P -> concat (map (chunk (si_bounds (py_len l) P) l) (seq 0 (Z.to_nat P))) = l.
Proof.
  intros HP. assert (HN : 0 <= py_len l) by (unfold py_len; lia).
  apply chunks_tile.
  - now apply sb_0.
  - intros r Hr. now apply sb_mono.
  - rewrite sb_P by assumption. unfold py_len. lia.
Qed.

Lemma si_flat_map_chunks {X Y} (g : X -> list Y) (l : list X) (P : Z) :
  1 <= P ->
  concat (map (fun r => flat_map g (chunk (si_bounds (py_len l) P) l r)) (seq 0 (Z.to_nat P))) = flat_map g l.
Proof.
  intros HP.
  transitivity (flat_map g (concat (map (chunk (si_bounds (py_len l) P) l) (seq 0 (Z.to_nat P))))).
  - now rewrite flat_map_concat, map_map.
  - now rewrite si_chunks_tile.
Qed.

(* py_slice between two consecutive division points is the chunk *)
Lemma si_py_slice_chunk {X} (l : list X) (P : Z) (r : nat) :
  1 <= P -> (r < Z.to_nat P)%nat ->
  py_slice l (Z.of_nat (si_bounds (py_len l) P r)) (Z.of_nat (si_bounds (py_len l) P (S r)))
  = chunk (si_bounds (py_len l) P) l r.
Proof.
  intros HP Hr. assert (HN : 0 <= py_len l) by (unfold py_len; lia).
  pose proof (sb_mono _ _ HN HP r Hr). pose proof (sb_le_N _ _ HN HP (S r) ltac:(lia)).
  rewrite py_slice_in_range by lia. rewrite !Nat2Z.id. reflexivity.
Qed.

Lemma chunk_empty {X} (f : nat -> nat) (l : list X) (r : nat) : (f (S r) <= f r)%nat -> chunk f l r = [].
Proof. intros H. unfold chunk. replace (f (S r) - f r)%nat with 0%nat by lia. reflexivity. Qed.

Lemma is_slice_chunk {X} (l : list X) (P : Z) (r : nat) :
  1 <= P -> (r < Z.to_nat P)%nat ->
  is_slice l (Z.of_nat r) P = Some (chunk (si_bounds (py_len l) P) l r).
Proof.
  intros HP Hr. assert (HN : 0 <= py_len l) by (unfold py_len; lia).
  unfold is_slice. rewrite split_idx_nat by assumption. cbn [bind].
  destruct (Nat.ltb_spec (si_bounds (py_len l) P r) (si_bounds (py_len l) P (S r))).
  - cbn [py_len length Z.eqb Z.of_nat]. rewrite first_last1_pair. cbn [bind].
    now rewrite si_py_slice_chunk.
  - cbn. now rewrite chunk_empty.
Qed.

(* ------------------------------------------------------------------ *)
(* 1. shape_to_functions                                               *)

Theorem dist_extras_eq_seq {B} (g : Z -> list B) (T P : Z) :
  0 <= T -> 1 <= P -> dist_extras g T P = Some (flat_map g (zrange T)).
Proof.
  intros HT HP. unfold dist_extras.
  assert (HTl : py_len (zrange T) = T) by (unfold py_len; rewrite zrange_length; lia).
  rewrite (gather_some P _ (fun r => flat_map g (chunk (si_bounds T P) (zrange T) r))).
  - cbn [bind]. unfold chain. f_equal.
    rewrite <- (si_flat_map_chunks g (zrange T) P HP). rewrite HTl. reflexivity.
  - intros r Hr. unfold stf_rank_extras, stf_bounds. rewrite split_idx_nat by assumption. cbn [bind].
    pose proof (sb_mono _ _ HT HP r Hr) as Hm. pose proof (sb_le_N _ _ HT HP (S r) ltac:(lia)) as Hle.
    destruct (Nat.ltb_spec (si_bounds T P r) (si_bounds T P (S r))).
    + cbn [py_len length Z.eqb Z.of_nat]. rewrite first_last1_pair. cbn [bind].
      rewrite flat_map_if_filter, filter_zrange_window by lia.
      rewrite (zinterval_chunk T) by lia. rewrite !Nat2Z.id. reflexivity.
    + cbn [py_len length Z.eqb Z.of_nat bind].
      rewrite flat_map_if_filter, filter_zrange_window by lia.
      rewrite zinterval_empty by lia. rewrite chunk_empty by lia. reflexivity.
Qed.

(* ------------------------------------------------------------------ *)
(* more list / Python facts                                            *)

Lemma fold_opt_inv_eq {S} (f : S -> Z -> option S) (I : nat -> S) (P : Z) (s0 : S) :
  s0 = I 0%nat ->
  (forall k, (k < Z.to_nat P)%nat -> f (I k) (Z.of_nat k) = Some (I (Datatypes.S k))) ->
  fold_opt f (zrange P) s0 = Some (I (Z.to_nat P)).
Proof. intros ->. apply fold_opt_inv. Qed.

Lemma nth_error_map_seq {X} (g : nat -> X) (s n k : nat) :
  (k < n)%nat -> nth_error (map g (seq s n)) k = Some (g (s + k)%nat).
Proof.
  revert s k; induction n as [|n IH]; intros s k Hk; [lia|].
  destruct k as [|k]; cbn; [now rewrite Nat.add_0_r|].
  rewrite IH by lia. f_equal. f_equal. lia.
Qed.

Lemma nth_error_mid {X} (l1 l2 : list X) (x : X) : nth_error (l1 ++ x :: l2) (length l1) = Some x.
Proof. rewrite nth_error_app2 by lia. now rewrite Nat.sub_diag. Qed.

Lemma py_index_map {X Y} (f : X -> Y) (l : list X) (i : Z) :
  py_index (map f l) i = option_map f (py_index l i).
Proof.
  unfold py_index, py_len. rewrite map_length.
  destruct (0 <=? i); [apply nth_error_map|].
  destruct (- Z.of_nat (length l) <=? i); [apply nth_error_map|reflexivity].
Qed.

Lemma py_len_app {X} (l1 l2 : list X) : py_len (l1 ++ l2) = py_len l1 + py_len l2.
Proof. unfold py_len. rewrite app_length. lia. Qed.

Lemma py_setitem_mid {X} (l1 l2 : list X) (y x : X) :
  py_setitem (l1 ++ y :: l2) (py_len l1) x = Some (l1 ++ x :: l2).
Proof.
  unfold py_setitem, py_len. rewrite app_length. cbn [length].
  cbv zeta.
  assert (E1 : 0 <=? Z.of_nat (length l1) = true) by (apply Z.leb_le; lia). rewrite !E1.
  assert (E2 : Z.of_nat (length l1) <? Z.of_nat (length l1 + S (length l2)) = true) by (apply Z.ltb_lt; lia).
  rewrite E2. cbn [andb]. rewrite Nat2Z.id. f_equal.
  rewrite firstn_app, Nat.sub_diag, firstn_all. cbn [firstn]. rewrite app_nil_r. f_equal.
  replace (S (length l1)) with (length l1 + 1)%nat by lia.
  rewrite skipn_app. rewrite skipn_all2 by lia.
  replace (length l1 + 1 - length l1)%nat with 1%nat by lia. reflexivity.
Qed.

(* for k in range(len(L)): x = L[k]; s = F(s, x)   ==   for x in L: s = F(s, x) *)
Lemma fold_index_from {S X} (F : S -> X -> option S) (L2 L1 : list X) (s : S) :
  fold_opt (fun s k => x <- py_index (L1 ++ L2) k ;; F s x)
           (map Z.of_nat (seq (length L1) (length L2))) s = fold_opt F L2 s.
Proof.
  revert L1 s; induction L2 as [|x L2 IH]; intros L1 s; cbn; [reflexivity|].
  rewrite py_index_nat, nth_error_mid. cbn [bind].
  destruct (F s x) as [s'|]; cbn [bind]; [|reflexivity].
  specialize (IH (L1 ++ [x]) s'). rewrite <- app_assoc in IH. cbn [app] in IH.
  rewrite app_length in IH. cbn [length] in IH. rewrite Nat.add_1_r in IH. exact IH.
Qed.

Lemma fold_index {S X} (F : S -> X -> option S) (L : list X) (s : S) :
  fold_opt (fun s k => x <- py_index L k ;; F s x) (zrange (py_len L)) s = fold_opt F L s.
Proof.
  unfold zrange, py_len. rewrite Nat2Z.id. apply (fold_index_from F L []).
Qed.

Lemma fold_opt_ext {S X} (f g : S -> X -> option S) (l : list X) (s : S) :
  (forall s x, f s x = g s x) -> fold_opt f l s = fold_opt g l s.
Proof.
  intros H. revert s; induction l as [|x l IH]; intros s; cbn; [reflexivity|].
  rewrite H. destruct (g s x); cbn; [apply IH|reflexivity].
Qed.

Lemma cumsum_diffs (f : nat -> nat) (n s k : nat) (acc : Z) :
  (k < n)%nat ->
  nth_error (cumsum_from acc (map (fun r => Z.of_nat (f (S r)) - Z.of_nat (f r)) (seq s n))) k
  = Some (acc + Z.of_nat (f (s + S k)%nat) - Z.of_nat (f s)).
Proof.
  revert s k acc; induction n as [|n IH]; intros s k acc Hk; [lia|].
  cbn [seq map cumsum_from]. destruct k as [|k]; cbn [nth_error].
  - f_equal. rewrite Nat.add_1_r. lia.
  - rewrite IH by lia. f_equal. replace (S s + S k)%nat with (s + S (S k))%nat by lia. lia.
Qed.

Lemma start_idx_nth (f : nat -> nat) (n k : nat) :
  f 0%nat = 0%nat -> (k <= n)%nat ->
  nth_error (py_cumsum ([0] ++ map (fun r => Z.of_nat (f (S r)) - Z.of_nat (f r)) (seq 0 n))) k
  = Some (Z.of_nat (f k)).
Proof.
  intros H0 Hk. unfold py_cumsum. cbn [app cumsum_from Z.add].
  destruct k as [|k]; cbn [nth_error]; [now rewrite H0|].
  rewrite cumsum_diffs by lia. rewrite H0. f_equal. cbn [plus]. lia.
Qed.

Lemma skipn_add {X} (a b : nat) (l : list X) : skipn b (skipn a l) = skipn (a + b) l.
Proof.
  revert l; induction a as [|a IH]; intros l; cbn; [reflexivity|].
  destruct l as [|x l]; [now rewrite skipn_nil|]. apply IH.
Qed.

Lemma skipn_chunk {X} (f : nat -> nat) (l : list X) (r : nat) :
  (f r <= f (S r))%nat -> skipn (f r) l = chunk f l r ++ skipn (f (S r)) l.
Proof.
  intros H. unfold chunk.
  replace (f (S r)) with (f r + (f (S r) - f r))%nat at 2 by lia.
  rewrite <- skipn_add. now rewrite firstn_skipn.
Qed.

Lemma length_concat_map_ext {X Y Z'} (g1 : X -> list Y) (g2 : X -> list Z') (L : list X) :
  (forall r, In r L -> length (g1 r) = length (g2 r)) ->
  length (concat (map g1 L)) = length (concat (map g2 L)).
Proof.
  induction L as [|r L IH]; intros H; cbn; [reflexivity|].
  rewrite !app_length, H by (now left). f_equal. apply IH. intros; apply H; now right.
Qed.

Lemma concat_map_seq_S {X} (g : nat -> list X) (k : nat) :
  concat (map g (seq 0 (S k))) = concat (map g (seq 0 k)) ++ g k.
Proof. rewrite seq_S, map_app, concat_app. cbn. now rewrite app_nil_r. Qed.

Lemma si_prefix_length {X} (l : list X) (P : Z) (k : nat) :
  1 <= P -> (k <= Z.to_nat P)%nat ->
  length (concat (map (chunk (si_bounds (py_len l) P) l) (seq 0 k))) = si_bounds (py_len l) P k.
Proof.
  intros HP Hk. assert (HN : 0 <= py_len l) by (unfold py_len; lia).
  rewrite chunks_prefix.
  - rewrite firstn_length. pose proof (sb_le_N _ _ HN HP k Hk). unfold py_len in *. lia.
  - now apply sb_0.
  - intros r Hr. apply sb_mono; try assumption. lia.
Qed.

(* ------------------------------------------------------------------ *)
(* 2. make_changes                                                     *)

Section MakeChangesProofs.
  Context {A : Type}.
  Variable neq : A -> A -> bool.

  (* what the gathered (chidx + start, changes) pairs of one rank are *)
  Fixpoint diffs (o : Z) (str seg : list A) : list (Z * A) :=
    match str, seg with
    | x :: str', y :: seg' => (if neq x y then [(o, x)] else []) ++ diffs (o + 1) str' seg'
    | _, _ => []
    end.

  (* the list after the updates: the new entry where it differs from the old one *)
  Fixpoint merge (str seg : list A) : list A :=
    match str, seg with
    | x :: str', y :: seg' => (if neq x y then x else y) :: merge str' seg'
    | _, _ => []
    end.

  Lemma merge_length str seg : length str = length seg -> length (merge str seg) = length seg.
  Proof.
    revert seg; induction str as [|x str IH]; intros [|y seg] H; cbn in *; try lia.
    now rewrite IH by lia.
  Qed.

  Lemma merge_app s1 g1 s2 g2 :
    length s1 = length g1 -> merge (s1 ++ s2) (g1 ++ g2) = merge s1 g1 ++ merge s2 g2.
  Proof.
    revert g1; induction s1 as [|x s1 IH]; intros [|y g1] H; cbn in *; try lia; [reflexivity|].
    now rewrite IH by lia.
  Qed.

  Lemma merge_same str seg :
    (forall x y, neq x y = false -> x = y) -> length str = length seg -> merge str seg = str.
  Proof.
    intros Hn. revert seg; induction str as [|x str IH]; intros [|y seg] H; cbn in *; try lia; [reflexivity|].
    rewrite IH by lia. destruct (neq x y) eqn:E; [reflexivity|]. now rewrite (Hn x y E).
  Qed.

  Lemma merge_map (h : A -> A) seg :
    (forall x, neq (h x) x = false -> h x = x) -> merge (map h seg) seg = map h seg.
  Proof.
    intros Hn. induction seg as [|y seg IH]; cbn; [reflexivity|].
    rewrite IH. destruct (neq (h y) y) eqn:E; [reflexivity|]. now rewrite (Hn y E).
  Qed.

  Lemma diffs_shift (s o : Z) str seg :
    map (fun p => (fst p + s, snd p)) (diffs o str seg) = diffs (o + s) str seg.
  Proof.
    revert o seg; induction str as [|x str IH]; intros o [|y seg]; cbn; try reflexivity.
    rewrite map_app, IH. replace (o + 1 + s) with (o + s + 1) by lia.
    destruct (neq x y); reflexivity.
  Qed.

  Section Lookups.
    Variables (lookS lookG : Z -> option A).

    Lemma chidx_spec str seg (o : nat) :
      length str = length seg ->
      (forall i, (i < length str)%nat ->
         lookS (Z.of_nat (o + i)) = nth_error str i /\ lookG (Z.of_nat (o + i)) = nth_error seg i) ->
      opt_filter (fun i => x <- lookS i ;; y <- lookG i ;; Some (neq x y))
                 (map Z.of_nat (seq o (length str)))
      = Some (map fst (diffs (Z.of_nat o) str seg)).
    Proof.
      revert seg o; induction str as [|x str IH]; intros [|y seg] o Hl H; cbn in Hl; try lia; [reflexivity|].
      cbn [length seq map opt_filter].
      destruct (H 0%nat ltac:(cbn; lia)) as [E1 E2]. rewrite Nat.add_0_r in E1, E2.
      rewrite E1, E2. cbn [nth_error bind].
      rewrite (IH seg (S o)).
      - cbn [bind diffs]. rewrite map_app. rewrite Nat2Z.inj_succ, <- Z.add_1_r.
        destruct (neq x y); reflexivity.
      - lia.
      - intros i Hi. specialize (H (S i) ltac:(cbn; lia)).
        replace (o + S i)%nat with (S o + i)%nat in H by lia. exact H.
    Qed.

    Lemma changes_spec str seg (o : nat) :
      (forall i, (i < length str)%nat -> lookS (Z.of_nat (o + i)) = nth_error str i) ->
      traverse lookS (map fst (diffs (Z.of_nat o) str seg)) = Some (map snd (diffs (Z.of_nat o) str seg)).
    Proof.
      revert seg o; induction str as [|x str IH]; intros [|y seg] o H; try reflexivity.
      cbn [diffs]. rewrite !map_app. unfold traverse. rewrite map_app.
      assert (E : sequence (map lookS (map fst (diffs (Z.of_nat o + 1) str seg)))
                  = Some (map snd (diffs (Z.of_nat o + 1) str seg))).
      { rewrite Z.add_1_r, <- Nat2Z.inj_succ. apply (IH seg (S o)).
        intros i Hi. specialize (H (S i) ltac:(cbn; lia)).
        replace (o + S i)%nat with (S o + i)%nat in H by lia. exact H. }
      specialize (H 0%nat ltac:(cbn; lia)). rewrite Nat.add_0_r in H. cbn [nth_error] in H.
      destruct (neq x y); cbn [map app sequence fst snd].
      - rewrite H. cbn [bind]. rewrite E. reflexivity.
      - exact E.
    Qed.
  End Lookups.

  Definition setpair (all : list A) (jv : Z * A) : option (list A) := py_setitem all (fst jv) (snd jv).

  Lemma apply_diffs str seg cpre post :
    length str = length seg ->
    fold_opt setpair (diffs (py_len cpre) str seg) (cpre ++ seg ++ post) = Some (cpre ++ merge str seg ++ post).
  Proof.
    revert seg cpre; induction str as [|x str IH]; intros [|y seg] cpre H; cbn in H; try lia; [reflexivity|].
    cbn [diffs merge]. rewrite fold_opt_app.
    assert (Hlen : forall z : A, py_len cpre + 1 = py_len (cpre ++ [z])).
    { intros z. rewrite py_len_app. reflexivity. }
    destruct (neq x y).
    - cbn [fold_opt app]. unfold setpair at 1. cbn [fst snd]. rewrite py_setitem_mid. cbn [bind].
      rewrite (Hlen x). specialize (IH seg (cpre ++ [x]) ltac:(lia)).
      rewrite <- !app_assoc in IH. exact IH.
    - cbn [fold_opt app bind].
      rewrite (Hlen y). specialize (IH seg (cpre ++ [y]) ltac:(lia)).
      rewrite <- !app_assoc in IH. exact IH.
  Qed.

  Lemma mc_apply_rank_pairs (all : list A) (D : list (Z * A)) :
    mc_apply_rank all (map fst D) (map snd D) = fold_opt setpair D all.
  Proof.
    unfold mc_apply_rank. replace (py_len (map snd D)) with (py_len D) by (unfold py_len; now rewrite map_length).
    rewrite <- (fold_index setpair D all). apply fold_opt_ext. intros s k.
    rewrite !py_index_map. destruct (py_index D k); reflexivity.
  Qed.

  (* one rank: chidx / changes against the ORIGINAL list, applied to the CURRENT one *)
  Lemma mc_rank_chidx (pre seg post str : list A) :
    length str = length seg ->
    mc_chidx neq (pre ++ seg ++ post) (py_len pre) str = Some (map fst (diffs 0 str seg)).
  Proof.
    intros Hl. unfold mc_chidx, zrange, py_len. rewrite Nat2Z.id.
    apply (chidx_spec (py_index str) (fun i => py_index (pre ++ seg ++ post) (Z.of_nat (length pre) + i)) str seg 0 Hl).
    intros i Hi. split; [apply py_index_nat|].
    rewrite <- Nat2Z.inj_add, py_index_nat. cbn [plus].
    rewrite nth_error_app2 by lia. replace (length pre + i - length pre)%nat with i by lia.
    apply nth_error_app1. lia.
  Qed.

  Lemma mc_rank_changes (str seg : list A) :
    mc_changes str (map fst (diffs 0 str seg)) = Some (map snd (diffs 0 str seg)).
  Proof.
    unfold mc_changes. apply (changes_spec (py_index str) str seg 0).
    intros i _. apply py_index_nat.
  Qed.

  Lemma mc_rank_apply (seg post cpre str : list A) (s : Z) :
    length str = length seg -> s = py_len cpre ->
    mc_apply_rank (cpre ++ seg ++ post) (map (fun c => c + s) (map fst (diffs 0 str seg))) (map snd (diffs 0 str seg))
      = Some (cpre ++ merge str seg ++ post).
  Proof.
    intros Hl ->.
    set (D := map (fun p => (fst p + py_len cpre, snd p)) (diffs 0 str seg)).
    replace (map (fun c => c + py_len cpre) (map fst (diffs 0 str seg))) with (map fst D)
      by (unfold D; rewrite !map_map; reflexivity).
    replace (map snd (diffs 0 str seg)) with (map snd D)
      by (unfold D; rewrite !map_map; reflexivity).
    rewrite mc_apply_rank_pairs. unfold D. rewrite diffs_shift. cbn [Z.add].
    now apply apply_diffs.
  Qed.

  (* ---- all ranks ---- *)
  Variables (all_fun : list A) (str_fun : Z -> list A) (P : Z).
  Hypothesis HP : 1 <= P.
  Let N := py_len all_fun.
  Let f := si_bounds N P.
  Let HN : 0 <= N. Proof. unfold N, py_len; lia. Qed.

  Lemma mc_bounds_nat (r : nat) :
    (r < Z.to_nat P)%nat ->
    mc_bounds all_fun (Z.of_nat r) P =
      Some (if (f r <? f (S r))%nat then Z.of_nat (f r) else N, Z.of_nat (f (S r)) - Z.of_nat (f r)).
  Proof.
    intros Hr. unfold mc_bounds. fold N. rewrite split_idx_nat by assumption. cbn [bind]. fold f.
    pose proof (sb_mono _ _ HN HP r Hr) as Hm. fold f in Hm.
    destruct (Nat.ltb_spec (f r) (f (S r))).
    - assert (E : forall x y : Z, (py_len [x; y] >? 0) = true) by reflexivity. rewrite E.
      rewrite first_last1_pair. reflexivity.
    - cbn. f_equal. f_equal. lia.
  Qed.

  Hypothesis Hlen : forall r, (r < Z.to_nat P)%nat -> length (str_fun (Z.of_nat r)) = length (chunk f all_fun r).

  Let merged (r : nat) : list A := merge (str_fun (Z.of_nat r)) (chunk f all_fun r).

  Lemma merged_prefix_length (k : nat) :
    (k <= Z.to_nat P)%nat -> length (concat (map merged (seq 0 k))) = f k.
  Proof.
    intros Hk. change (f k) with (si_bounds (py_len all_fun) P k).
    rewrite <- (si_prefix_length all_fun P k HP Hk). fold N. fold f.
    apply length_concat_map_ext. intros r Hr. apply in_seq in Hr.
    unfold merged. apply merge_length. apply Hlen. lia.
  Qed.

  Theorem make_changes_chunks :
    dist_make_changes neq all_fun str_fun P = Some (concat (map merged (seq 0 (Z.to_nat P)))).
  Proof.
    unfold dist_make_changes.
    rewrite (gather_some P _ _ mc_bounds_nat). cbn [bind].
    rewrite map_map. cbn [snd].
    set (D := fun r : nat => diffs 0 (str_fun (Z.of_nat r)) (chunk f all_fun r)).
    rewrite (gather_some P _ (fun r => (map fst (D r), map snd (D r)))).
    2:{ intros r Hr. rewrite mc_bounds_nat by assumption. cbn [bind fst].
        pose proof (sb_mono _ _ HN HP r Hr) as Hm. fold f in Hm.
        pose proof (sb_le_N _ _ HN HP r ltac:(lia)) as Hle. fold f in Hle.
        specialize (Hlen r Hr).
        destruct (Nat.ltb_spec (f r) (f (S r))).
        - assert (Eall : all_fun = firstn (f r) all_fun ++ chunk f all_fun r ++ skipn (f (S r)) all_fun).
          { rewrite <- skipn_chunk by lia. now rewrite firstn_skipn. }
          assert (Epre : Z.of_nat (f r) = py_len (firstn (f r) all_fun)).
          { unfold py_len. rewrite firstn_length. unfold N, py_len in Hle. lia. }
          rewrite Eall at 1. rewrite Epre. rewrite mc_rank_chidx by assumption. cbn [bind].
          rewrite mc_rank_changes. reflexivity.
        - rewrite chunk_empty in Hlen by lia. cbn [length] in Hlen.
          apply length_zero_iff_nil in Hlen. unfold D. rewrite Hlen. reflexivity. }
    cbn [bind].
    set (I := fun k : nat => concat (map merged (seq 0 k)) ++ skipn (f k) all_fun).
    replace (concat (map merged (seq 0 (Z.to_nat P)))) with (I (Z.to_nat P)).
    2:{ unfold I. unfold f at 1. rewrite sb_P by assumption. unfold N, py_len. rewrite Nat2Z.id.
        rewrite skipn_all. apply app_nil_r. }
    apply (fold_opt_inv_eq _ I).
    { unfold I, f. rewrite sb_0. reflexivity. }
    intros k Hk.
    rewrite !py_index_nat. rewrite nth_error_map_seq by assumption. cbn [bind plus fst snd].
    unfold f. rewrite start_idx_nth; [|apply sb_0|lia]. cbn [bind]. fold f.
    pose proof (sb_mono _ _ HN HP k Hk) as Hm. fold f in Hm.
    unfold I. rewrite (skipn_chunk f all_fun k Hm). unfold D.
    rewrite mc_rank_apply.
    - rewrite concat_map_seq_S. unfold merged at 3. now rewrite <- app_assoc.
    - now apply Hlen.
    - unfold py_len. rewrite merged_prefix_length by lia. reflexivity.
  Qed.
End MakeChangesProofs.

Lemma slice_hyp_nat {A} (l : list A) (P : Z) (Q : Z -> list A -> Prop) :
  1 <= P ->
  (forall r, 0 <= r < P -> exists s, is_slice l r P = Some s /\ Q r s) ->
  forall r, (r < Z.to_nat P)%nat -> Q (Z.of_nat r) (chunk (si_bounds (py_len l) P) l r).
Proof.
  intros HP H r Hr. destruct (H (Z.of_nat r) ltac:(lia)) as (s & E & HQ).
  rewrite is_slice_chunk in E by assumption. now injection E as <-.
Qed.

Lemma zrange_map {X} (g : Z -> X) (P : Z) : map g (zrange P) = map (fun r => g (Z.of_nat r)) (seq 0 (Z.to_nat P)).
Proof. unfold zrange. now rewrite map_map. Qed.

Lemma merge_concat {A} (neq : A -> A -> bool) (S C : nat -> list A) (L : list nat) :
  (forall r, In r L -> length (S r) = length (C r)) ->
  concat (map (fun r => merge neq (S r) (C r)) L) = merge neq (concat (map S L)) (concat (map C L)).
Proof.
  induction L as [|r L IH]; intros H; cbn; [reflexivity|].
  rewrite merge_app by (apply H; now left). f_equal. apply IH. intros; apply H; now right.
Qed.

(* the list every rank holds after make_changes: position by position the gathered entry
   where `!=` saw a difference, the old entry elsewhere -- whatever the rank count *)
Theorem make_changes_eq_merge {A} (neq : A -> A -> bool) (all_fun : list A) (str_fun : Z -> list A) (P : Z) :
  1 <= P ->
  (forall r, 0 <= r < P -> exists s, is_slice all_fun r P = Some s /\ length (str_fun r) = length s) ->
  dist_make_changes neq all_fun str_fun P = Some (merge neq (concat (map str_fun (zrange P))) all_fun).
Proof.
  intros HP H.
  pose proof (slice_hyp_nat all_fun P (fun r s => length (str_fun r) = length s) HP H) as Hn.
  rewrite make_changes_chunks by assumption. f_equal.
  rewrite (merge_concat neq (fun r => str_fun (Z.of_nat r))).
  - rewrite si_chunks_tile by assumption. now rewrite zrange_map.
  - intros r Hr. apply in_seq in Hr. apply Hn. lia.
Qed.

Theorem make_changes_eq_concat {A} (neq : A -> A -> bool) (all_fun : list A) (str_fun : Z -> list A) (P : Z) :
  1 <= P ->
  (forall x y, neq x y = false -> x = y) ->
  (forall r, 0 <= r < P -> exists s, is_slice all_fun r P = Some s /\ length (str_fun r) = length s) ->
  dist_make_changes neq all_fun str_fun P = Some (concat (map str_fun (zrange P))).
Proof.
  intros HP Hneq H.
  pose proof (slice_hyp_nat all_fun P (fun r s => length (str_fun r) = length s) HP H) as Hn.
  rewrite make_changes_chunks by assumption. f_equal. rewrite zrange_map. f_equal.
  apply map_ext_in. intros r Hr. apply in_seq in Hr. apply merge_same; [assumption|]. apply Hn. lia.
Qed.

Theorem make_changes_eq_map {A} (neq : A -> A -> bool) (h : A -> A) (all_fun : list A) (str_fun : Z -> list A) (P : Z) :
  1 <= P ->
  (forall x, neq (h x) x = false -> h x = x) ->
  (forall r, 0 <= r < P -> exists s, is_slice all_fun r P = Some s /\ str_fun r = map h s) ->
  dist_make_changes neq all_fun str_fun P = Some (map h all_fun).
Proof.
  intros HP Hneq H.
  pose proof (slice_hyp_nat all_fun P (fun r s => str_fun r = map h s) HP H) as Hn.
  rewrite make_changes_chunks.
  - f_equal.
    transitivity (map h (concat (map (chunk (si_bounds (py_len all_fun) P) all_fun) (seq 0 (Z.to_nat P)))));
      [|now rewrite si_chunks_tile].
    rewrite concat_map, map_map. f_equal.
    apply map_ext_in. intros r Hr. apply in_seq in Hr. rewrite Hn by lia. now apply merge_map.
  - assumption.
  - intros r Hr. rewrite Hn by assumption. apply map_length.
Qed.

(* ------------------------------------------------------------------ *)
(* 3. initial_sympify                                                  *)

Lemma firstn_length_app {X} (l1 l2 : list X) : firstn (length l1) (l1 ++ l2) = l1.
Proof. induction l1 as [|x l1 IH]; cbn; [reflexivity|]. now rewrite IH. Qed.

Lemma skipn_length_app {X} (l1 l2 : list X) : skipn (length l1) (l1 ++ l2) = l2.
Proof. induction l1 as [|x l1 IH]; cbn; [reflexivity|]. exact IH. Qed.

Lemma py_slice_assign_mid {X} (l1 l2 l3 v : list X) :
  py_slice_assign (l1 ++ l2 ++ l3) (py_len l1) (py_len l1 + py_len l2) v = l1 ++ v ++ l3.
Proof.
  unfold py_slice_assign, py_clamp, py_len. rewrite !app_length.
  destruct (Z.ltb_spec (Z.of_nat (length l1)) 0); [lia|].
  destruct (Z.ltb_spec (Z.of_nat (length l1) + Z.of_nat (length l2)) 0); [lia|].
  rewrite !Z.min_l by lia. rewrite Z.max_r by lia.
  rewrite Nat2Z.id, firstn_length_app. f_equal. f_equal.
  rewrite <- Nat2Z.inj_add, Nat2Z.id, <- app_length, app_assoc. apply skipn_length_app.
Qed.

Lemma cumsum_length (acc : Z) (l : list Z) : length (cumsum_from acc l) = length l.
Proof. revert acc; induction l as [|x l IH]; intros acc; cbn; [reflexivity|]. now rewrite IH. Qed.

Lemma py_index_m1 {X} (l : list X) : l <> [] -> py_index l (-1) = nth_error l (length l - 1).
Proof.
  intros H. destruct l as [|x l]; [congruence|].
  unfold py_index, py_len. cbn [length].
  destruct (Z.leb_spec 0 (-1)); [lia|].
  destruct (Z.leb_spec (- Z.of_nat (S (length l))) (-1)); [|lia].
  f_equal. lia.
Qed.

Lemma chunk_length {X} (f : nat -> nat) (l : list X) (r : nat) :
  (f (S r) <= length l)%nat -> length (chunk f l r) = (f (S r) - f r)%nat.
Proof. intros H. unfold chunk. rewrite firstn_length, skipn_length. lia. Qed.

Theorem initial_sympify_eq_map {A} (h : A -> A) (all_fun : list A) (P : Z) :
  1 <= P -> dist_initial_sympify h all_fun P = Some (map Some (map h all_fun)).
Proof.
  intros HP. unfold dist_initial_sympify.
  set (N := py_len all_fun). set (f := si_bounds N P).
  assert (HN : 0 <= N) by (unfold N, py_len; lia).
  set (strs := fun r : nat => map h (chunk f all_fun r)).
  rewrite (gather_some P _ strs).
  2:{ intros r Hr. rewrite is_slice_chunk by assumption. reflexivity. }
  cbn [bind]. rewrite map_map.
  assert (Hmono : forall r, (r < Z.to_nat P)%nat -> (f r <= f (S r))%nat) by (intros; now apply sb_mono).
  assert (HleN : forall r, (r <= Z.to_nat P)%nat -> (f r <= length all_fun)%nat).
  { intros r Hr. pose proof (sb_le_N N P HN HP r Hr) as Hx. fold f in Hx. unfold N, py_len in Hx. lia. }
  rewrite (map_ext_in (fun x => py_len (strs x)) (fun r => Z.of_nat (f (S r)) - Z.of_nat (f r))).
  2:{ intros r Hr. apply in_seq in Hr. unfold strs, py_len. rewrite map_length, chunk_length by (apply HleN; lia).
      specialize (Hmono r ltac:(lia)). lia. }
  set (start_idx := py_cumsum _).
  assert (Hst : forall k, (k <= Z.to_nat P)%nat -> nth_error start_idx k = Some (Z.of_nat (f k))).
  { intros k Hk. unfold start_idx. apply start_idx_nth; [apply sb_0|exact Hk]. }
  assert (HfP : f (Z.to_nat P) = length all_fun).
  { unfold f. rewrite sb_P by assumption. unfold N, py_len. lia. }
  rewrite py_index_m1.
  2:{ unfold start_idx, py_cumsum. cbn. discriminate. }
  replace (length start_idx - 1)%nat with (Z.to_nat P).
  2:{ unfold start_idx, py_cumsum. rewrite cumsum_length, app_length, map_length, seq_length. cbn. lia. }
  rewrite Hst by lia. cbn [bind]. rewrite py_repeat_single, Nat2Z.id, HfP.
  set (I := fun k : nat => map Some (concat (map strs (seq 0 k))) ++ repeat None (length all_fun - f k)).
  replace (map Some (map h all_fun)) with (I (Z.to_nat P)).
  2:{ unfold I. rewrite HfP, Nat.sub_diag. cbn [repeat]. rewrite app_nil_r. f_equal.
      unfold strs. rewrite <- (map_map (chunk f all_fun) (map h)), <- concat_map. f_equal.
      apply si_chunks_tile. assumption. }
  apply (fold_opt_inv_eq _ I).
  { unfold I, f. rewrite sb_0. cbn. now rewrite Nat.sub_0_r. }
  intros k Hk. rewrite !py_index_nat.
  replace (Z.of_nat k + 1) with (Z.of_nat (S k)) by lia. rewrite py_index_nat.
  rewrite !Hst by lia. rewrite nth_error_map_seq by assumption. cbn [bind plus].
  unfold I. specialize (Hmono k Hk). pose proof (HleN (S k) ltac:(lia)).
  replace (length all_fun - f k)%nat with ((f (S k) - f k) + (length all_fun - f (S k)))%nat by lia.
  rewrite repeat_app.
  assert (Hpre : py_len (map Some (concat (map strs (seq 0 k)))) = Z.of_nat (f k)).
  { unfold py_len. rewrite map_length. f_equal.
    transitivity (length (concat (map (chunk f all_fun) (seq 0 k)))).
    - apply length_concat_map_ext. intros r _. unfold strs. apply map_length.
    - apply si_prefix_length; [assumption|lia]. }
  replace (Z.of_nat (f (S k))) with (py_len (map Some (concat (map strs (seq 0 k)))) + py_len (repeat (@None A) (f (S k) - f k))).
  2:{ rewrite Hpre. unfold py_len. rewrite repeat_length. lia. }
  rewrite <- Hpre. rewrite py_slice_assign_mid. f_equal.
  rewrite concat_map_seq_S, map_app, <- app_assoc. reflexivity.
Qed.

(* ------------------------------------------------------------------ *)
(* numpy.array_split has the arithmetic of split_idx                   *)

Lemma traverse_zrange_some {X} (P : Z) (f : Z -> option X) (g : nat -> X) :
  (forall r, (r < Z.to_nat P)%nat -> f (Z.of_nat r) = Some (g r)) ->
  traverse f (zrange P) = Some (map g (seq 0 (Z.to_nat P))).
Proof. exact (gather_some P f g). Qed.

Lemma np_array_split_chunks {X} (l : list X) (P : Z) :
  1 <= P ->
  np_array_split l P = Some (map (chunk (si_bounds (py_len l) P) l) (seq 0 (Z.to_nat P))).
Proof.
  intros HP. set (N := py_len l). assert (HN : 0 <= N) by (unfold N, py_len; lia).
  unfold np_array_split, np_div_points. fold N.
  destruct (Z.leb_spec P 0); [lia|].
  unfold py_divmod. destruct (Z.eqb_spec P 0); [lia|]. cbn [bind].
  destruct (sb_facts N P HN HP) as (He & Hq & Hd).
  apply traverse_zrange_some. intros r Hr.
  rewrite py_index_nat. replace (Z.of_nat r + 1) with (Z.of_nat (S r)) by lia. rewrite py_index_nat.
  rewrite !div_points_nth by lia. cbn [bind].
  rewrite <- !sb_of_nat by assumption. f_equal. now apply si_py_slice_chunk.
Qed.

(* the pieces numpy.array_split(l, P) returns are the slices the split_idx idiom takes *)
Theorem np_array_split_split_idx {X} (l : list X) (P : Z) :
  1 <= P -> np_array_split l P = gather P (fun r => is_slice l r P).
Proof.
  intros HP. rewrite np_array_split_chunks by assumption. symmetry.
  apply gather_some. intros r Hr. now apply is_slice_chunk.
Qed.

(* ------------------------------------------------------------------ *)
(* 5. load_subs                                                        *)

Lemma py_index_0_cons {X} (x : X) (l : list X) : py_index (x :: l) 0 = Some x.
Proof. reflexivity. Qed.

Lemma zinterval_cons (a b : Z) : a < b -> zinterval a b = a :: zinterval (a + 1) b.
Proof.
  intros H. unfold zinterval.
  replace (Z.to_nat (b - a)) with (S (Z.to_nat (b - (a + 1)))) by lia.
  cbn [seq map]. f_equal; [lia|]. rewrite <- seq_shift, map_map. apply map_ext. intros; lia.
Qed.

Lemma zinterval_snoc (a b : Z) : a < b -> zinterval a b = zinterval a (b - 1) ++ [b - 1].
Proof.
  intros H. rewrite (zinterval_split a (b - 1) b) by lia. f_equal.
  rewrite zinterval_cons by lia. rewrite zinterval_empty by lia. reflexivity.
Qed.

Lemma first_last1_zinterval (a b : Z) : a < b -> first_last1 (zinterval a b) = Some (a, b).
Proof.
  intros H. unfold first_last1. rewrite (zinterval_cons a b H) at 1. rewrite py_index_0_cons. cbn [bind].
  rewrite (zinterval_snoc a b H), py_index_last. cbn [bind]. f_equal. f_equal. lia.
Qed.

Lemma zinterval_length (a b : Z) : length (zinterval a b) = Z.to_nat (b - a).
Proof. unfold zinterval. now rewrite map_length, seq_length. Qed.

Lemma ls_scatter_chunks {Sb} (subs : list (list Sb)) (P : Z) :
  1 <= P ->
  ls_scatter subs P = Some (map (chunk (si_bounds (py_len subs) P) subs) (seq 0 (Z.to_nat P))).
Proof.
  intros HP. set (N := py_len subs). assert (HN : 0 <= N) by (unfold N, py_len; lia).
  assert (HNl : py_len (zrange N) = N) by (unfold py_len; rewrite zrange_length; lia).
  unfold ls_scatter. fold N. rewrite np_array_split_chunks by assumption. cbn [bind]. rewrite HNl.
  apply traverse_zrange_some. intros r Hr.
  rewrite py_index_nat, nth_error_map_seq by assumption. cbn [bind plus].
  pose proof (sb_mono _ _ HN HP r Hr) as Hm. pose proof (sb_le_N _ _ HN HP (S r) ltac:(lia)) as Hle.
  set (a := si_bounds N P r) in *. set (b := si_bounds N P (S r)) in *.
  change (chunk (si_bounds N P) (zrange N) r) with (firstn (b - a) (skipn a (zrange N))).
  replace (firstn (b - a) (skipn a (zrange N))) with (zinterval (Z.of_nat a) (Z.of_nat b))
    by (rewrite (zinterval_chunk N) by lia; now rewrite !Nat2Z.id).
  destruct (Nat.eq_dec a b) as [E|E].
  - rewrite E, zinterval_empty by lia. cbn. f_equal. unfold chunk. fold a b. rewrite E, Nat.sub_diag. reflexivity.
  - assert (El : py_len (zinterval (Z.of_nat a) (Z.of_nat b)) =? 0 = false).
    { apply Z.eqb_neq. unfold py_len. rewrite zinterval_length. lia. }
    rewrite El, first_last1_zinterval by lia. cbn [bind]. f_equal. now apply si_py_slice_chunk.
Qed.

Theorem load_subs_rows_preserved {Sb Sb'} (fe : Sb -> Sb') (subs : list (list Sb)) (P : Z) :
  1 <= P -> dist_load_subs fe subs P = Some (map (map fe) subs).
Proof.
  intros HP. unfold dist_load_subs. rewrite ls_scatter_chunks by assumption. cbn [bind].
  set (f := si_bounds (py_len subs) P).
  rewrite (gather_some P _ (fun r => map (map fe) (chunk f subs r))).
  - cbn [bind]. unfold chain. f_equal.
    rewrite <- (map_map (chunk f subs) (map (map fe))), <- concat_map. f_equal.
    now apply si_chunks_tile.
  - intros r Hr. rewrite py_index_nat, nth_error_map_seq by assumption. cbn [bind plus]. f_equal.
    apply map_ext. intros row. destruct row; reflexivity.
Qed.

(* ------------------------------------------------------------------ *)
(* 6. check_results                                                    *)

Section CheckResults.
  Context {F M : Type}.
  Variable bad : F -> M -> bool.

  (* [(k, funs[k]) for k = o, o+1, ... if bad(funs[k], matches[k])] *)
  Fixpoint rej (o : Z) (fs : list F) (ms : list M) : list (Z * F) :=
    match fs, ms with
    | f :: fs', m :: ms' => (if bad f m then [(o, f)] else []) ++ rej (o + 1) fs' ms'
    | _, _ => []
    end.

  Lemma rej_app o f1 m1 f2 m2 :
    length f1 = length m1 ->
    rej o (f1 ++ f2) (m1 ++ m2) = rej o f1 m1 ++ rej (o + py_len f1) f2 m2.
  Proof.
    revert o m1; induction f1 as [|f f1 IH]; intros o [|m m1] H; cbn [length] in H; try lia.
    - cbn. now rewrite Z.add_0_r.
    - cbn [app rej]. rewrite IH by lia. rewrite <- app_assoc. f_equal. f_equal. f_equal.
      unfold py_len. cbn [length]. lia.
  Qed.

  Lemma rej_range o fs ms : forall r, In r (rej o fs ms) -> o <= fst r < o + py_len fs.
  Proof.
    revert o ms; induction fs as [|f fs IH]; intros o [|m ms] r H; cbn in H; try contradiction.
    apply in_app_or in H. unfold py_len. cbn [length]. destruct H as [H|H].
    - destruct (bad f m); [|contradiction]. destruct H as [<-|[]]. cbn. lia.
    - apply IH in H. unfold py_len in H. lia.
  Qed.

  Lemma cr_rank_from (lookF : Z -> option F) (lookM : Z -> option M) (imin : Z) fs ms (o : nat) :
    length fs = length ms ->
    (forall i, (i < length fs)%nat ->
       lookF (Z.of_nat (o + i)) = nth_error fs i /\ lookM (Z.of_nat (o + i)) = nth_error ms i) ->
    exists per,
      traverse (fun i => f <- lookF i ;; m <- lookM i ;; Some (if bad f m then [(i + imin, f)] else []))
               (map Z.of_nat (seq o (length fs))) = Some per /\
      concat per = rej (Z.of_nat o + imin) fs ms.
  Proof.
    revert ms o; induction fs as [|f fs IH]; intros [|m ms] o Hl H; cbn [length] in Hl; try lia.
    - exists []. split; reflexivity.
    - destruct (IH ms (S o) ltac:(lia)) as (per & E & Hc).
      { intros i Hi. specialize (H (S i) ltac:(cbn; lia)).
        replace (o + S i)%nat with (S o + i)%nat in H by lia. exact H. }
      destruct (H 0%nat ltac:(cbn; lia)) as [E1 E2]. rewrite Nat.add_0_r in E1, E2. cbn in E1, E2.
      exists ((if bad f m then [(Z.of_nat o + imin, f)] else []) :: per). split.
      + cbn [length seq map]. unfold traverse in *. cbn [map sequence]. rewrite E1, E2. cbn [bind].
        rewrite E. reflexivity.
      + cbn [concat rej]. rewrite Hc. f_equal. f_equal. lia.
  Qed.

  Lemma cr_rank_spec fs ms imin :
    length fs = length ms -> cr_rank bad fs ms imin = Some (rej imin fs ms).
  Proof.
    intros Hl. unfold cr_rank, zrange, py_len. rewrite Nat2Z.id.
    destruct (cr_rank_from (py_index fs) (py_index ms) imin fs ms 0 Hl) as (per & E & Hc).
    { intros i _. split; apply py_index_nat. }
    rewrite E. cbn [bind]. now rewrite Hc.
  Qed.

  Lemma firstn_chunk_S {X} (f : nat -> nat) (l : list X) (k : nat) :
    (f k <= f (S k))%nat -> firstn (f (S k)) l = firstn (f k) l ++ chunk f l k.
  Proof.
    intros H. unfold chunk. rewrite firstn_add_skipn. f_equal. lia.
  Qed.

  Lemma rej_chunks (f : nat -> nat) fs ms (k : nat) :
    length fs = length ms -> f 0%nat = 0%nat ->
    (forall r, (r < k)%nat -> (f r <= f (S r))%nat) -> (f k <= length fs)%nat ->
    concat (map (fun r => rej (Z.of_nat (f r)) (chunk f fs r) (chunk f ms r)) (seq 0 k))
    = rej 0 (firstn (f k) fs) (firstn (f k) ms).
  Proof.
    intros Hl H0 Hm Hk. induction k as [|k IH].
    - cbn. now rewrite H0.
    - rewrite concat_map_seq_S, IH; [|intros; apply Hm; lia|specialize (Hm k); lia].
      specialize (Hm k ltac:(lia)).
      rewrite (firstn_chunk_S f fs k Hm), (firstn_chunk_S f ms k Hm).
      rewrite rej_app by (rewrite !firstn_length; lia).
      f_equal. f_equal. unfold py_len. rewrite firstn_length. lia.
  Qed.

  Theorem check_results_eq_seq (funs : list F) (matches : list M) (shufidx : list Z) (P : Z) :
    1 <= P -> length matches = length funs -> length shufidx = length funs ->
    dist_check_results bad funs matches shufidx P =
      Some (map (fun r => (nth (Z.to_nat (fst r)) shufidx 0, snd r)) (rej 0 funs matches)).
  Proof.
    intros HP Hlm Hls. unfold dist_check_results.
    set (N := py_len funs). assert (HN : 0 <= N) by (unfold N, py_len; lia).
    set (f := si_bounds N P).
    assert (Hmono : forall r, (r < Z.to_nat P)%nat -> (f r <= f (S r))%nat) by (intros; now apply sb_mono).
    assert (HleN : forall r, (r <= Z.to_nat P)%nat -> (f r <= length funs)%nat).
    { intros r Hr. pose proof (sb_le_N N P HN HP r Hr) as Hx. fold f in Hx. unfold N, py_len in Hx. lia. }
    rewrite (gather_some P _ (fun r => if (f r <? f (S r))%nat then (Z.of_nat (f r), Z.of_nat (f (S r))) else (0, 0))).
    2:{ intros r Hr. unfold cr_bounds. rewrite split_idx_nat by assumption. cbn [bind]. fold f.
        destruct (Nat.ltb_spec (f r) (f (S r))).
        - assert (E : forall x y : Z, (py_len [x; y] =? 0) = false) by reflexivity. rewrite E.
          cbn [bind fst snd]. f_equal. f_equal. lia.
        - reflexivity. }
    cbn [bind]. rewrite map_map.
    rewrite (map_ext_in _ (chunk f funs)).
    2:{ intros r Hr. apply in_seq in Hr. specialize (Hmono r ltac:(lia)).
        destruct (Nat.ltb_spec (f r) (f (S r))); cbn [fst snd].
        - apply si_py_slice_chunk; [assumption|lia].
        - rewrite chunk_empty by lia. rewrite py_slice_in_range by (unfold py_len; lia). reflexivity. }
    rewrite np_array_split_chunks by assumption. cbn [bind].
    replace (py_len matches) with N by (unfold N, py_len; now rewrite Hlm). fold f.
    rewrite (gather_some P _ (fun r => rej (Z.of_nat (f r)) (chunk f funs r) (chunk f matches r))).
    2:{ intros r Hr. rewrite !py_index_nat, !nth_error_map_seq by assumption. cbn [bind plus].
        unfold cr_imin. rewrite split_idx_nat by assumption. cbn [bind]. fold f.
        specialize (Hmono r Hr). pose proof (HleN (S r) ltac:(lia)) as Hle.
        assert (Hcl : length (chunk f funs r) = length (chunk f matches r)).
        { rewrite !chunk_length by lia. reflexivity. }
        destruct (Nat.ltb_spec (f r) (f (S r))).
        - assert (E : forall x y : Z, (py_len [x; y] >? 0) = true) by reflexivity. rewrite E.
          rewrite py_index_0_cons. cbn [bind]. now apply cr_rank_spec.
        - cbn [py_len length Z.of_nat Z.gtb Z.compare bind].
          rewrite cr_rank_spec by assumption. rewrite !chunk_empty by lia. reflexivity. }
    cbn [bind]. unfold chain.
    rewrite (rej_chunks f funs matches (Z.to_nat P)); try (now symmetry); try (unfold f; now apply sb_0).
    2:{ intros r Hr. now apply Hmono. }
    2:{ apply HleN. lia. }
    assert (HfP : f (Z.to_nat P) = length funs).
    { unfold f. rewrite sb_P by assumption. unfold N, py_len. lia. }
    rewrite HfP, firstn_all. rewrite <- Hlm at 1. rewrite firstn_all.
    apply traverse_some. intros r Hr. apply rej_range in Hr.
    replace (fst r) with (Z.of_nat (Z.to_nat (fst r))) at 1 by lia.
    rewrite py_index_nat. unfold py_len in Hr.
    rewrite (nth_error_nth' shufidx 0) by lia. reflexivity.
  Qed.
  Lemma rej_filter (dF : F) (dM : M) fs ms (o : nat) :
    length fs = length ms ->
    map fst (rej (Z.of_nat o) fs ms) =
    filter (fun k => bad (nth (Z.to_nat k - o) fs dF) (nth (Z.to_nat k - o) ms dM))
           (map Z.of_nat (seq o (length fs))).
  Proof.
    revert ms o; induction fs as [|f fs IH]; intros [|m ms] o Hl; cbn [length] in Hl; try lia; [reflexivity|].
    cbn [rej length seq map filter]. rewrite Nat2Z.id, Nat.sub_diag. cbn [nth].
    rewrite map_app, Z.add_1_r, <- Nat2Z.inj_succ, (IH ms (S o)) by lia.
    rewrite (filter_ext_in
               (fun k => bad (nth (Z.to_nat k - o) (f :: fs) dF) (nth (Z.to_nat k - o) (m :: ms) dM))
               (fun k => bad (nth (Z.to_nat k - S o) fs dF) (nth (Z.to_nat k - S o) ms dM))).
    - destruct (bad f m); reflexivity.
    - intros k Hk. apply in_map_iff in Hk. destruct Hk as (j & <- & Hj). apply in_seq in Hj.
      rewrite Nat2Z.id. replace (j - o)%nat with (S (j - S o)) by lia. reflexivity.
  Qed.

  (* the un-shuffled indices reported are exactly those of the functions the per-item test
     rejects, in the order of the shuffled list -- for every rank count *)
  Theorem check_results_indices (dF : F) (dM : M) (funs : list F) (matches : list M) (shufidx : list Z) (P : Z) :
    1 <= P -> length matches = length funs -> length shufidx = length funs ->
    exists res,
      dist_check_results bad funs matches shufidx P = Some res /\
      map fst res =
        map (fun k => nth (Z.to_nat k) shufidx 0)
            (filter (fun k => bad (nth (Z.to_nat k) funs dF) (nth (Z.to_nat k) matches dM))
                    (zrange (py_len funs))).
  Proof.
    intros HP Hlm Hls. eexists. split; [now apply check_results_eq_seq|].
    rewrite map_map. cbn [fst].
    rewrite <- (map_map fst (fun k => nth (Z.to_nat k) shufidx 0)). f_equal.
    change 0 with (Z.of_nat 0) at 1. rewrite (rej_filter dF dM) by (now symmetry).
    unfold zrange, py_len. rewrite Nat2Z.id.
    apply filter_ext. intros k. now rewrite Nat.sub_0_r.
  Qed.

  Corollary check_results_rank_independent (funs : list F) (matches : list M) (shufidx : list Z) (P : Z) :
    1 <= P -> length matches = length funs -> length shufidx = length funs ->
    dist_check_results bad funs matches shufidx P = dist_check_results bad funs matches shufidx 1.
  Proof. intros. rewrite !check_results_eq_seq by (assumption || lia). reflexivity. Qed.
End CheckResults.

(* ------------------------------------------------------------------ *)
(* 4a. expand_or_factor                                                *)

Definition eof_pair {V} (g : Z -> option V) (j : Z) : list (Z * V) :=
  match g j with Some v => [(j, v)] | None => [] end.

(* the gathered-and-chained (index, value) list is the one-rank list *)
Lemma eof_gathered {V} (g : Z -> option V) (n P : Z) :
  0 <= n -> 1 <= P ->
  gather P (fun rank => eof_rank g n rank P)
  = Some (map (fun r => flat_map (eof_pair g) (chunk (si_bounds n P) (zrange n) r)) (seq 0 (Z.to_nat P))).
Proof.
  intros Hn HP. apply gather_some. intros r Hr.
  unfold eof_rank. rewrite split_idx_nat by assumption. cbn [bind].
  pose proof (sb_mono _ _ Hn HP r Hr) as Hm. pose proof (sb_le_N _ _ Hn HP (S r) ltac:(lia)) as Hle.
  destruct (Nat.ltb_spec (si_bounds n P r) (si_bounds n P (S r))).
  - assert (E : forall x y : Z, (py_len [x; y] >? 0) = true) by reflexivity. rewrite E.
    rewrite first_last1_pair. cbn [bind]. f_equal.
    rewrite (zinterval_chunk n) by lia. rewrite !Nat2Z.id. reflexivity.
  - cbn. rewrite chunk_empty by lia. reflexivity.
Qed.

Theorem expand_or_factor_eq_apply {V} (g : Z -> option V) (vals : list V) (P : Z) :
  1 <= P ->
  dist_expand_or_factor g vals P = eof_apply vals (flat_map (eof_pair g) (zrange (py_len vals))).
Proof.
  intros HP. unfold dist_expand_or_factor.
  assert (Hn : 0 <= py_len vals) by (unfold py_len; lia).
  rewrite eof_gathered by assumption. cbn [bind]. unfold chain. f_equal.
  assert (HTl : py_len (zrange (py_len vals)) = py_len vals) by (unfold py_len at 1; rewrite zrange_length; lia).
  rewrite <- (si_flat_map_chunks (eof_pair g) (zrange (py_len vals)) P HP). rewrite HTl. reflexivity.
Qed.

Corollary expand_or_factor_eq_seq {V} (g : Z -> option V) (vals : list V) (P : Z) :
  1 <= P -> dist_expand_or_factor g vals P = dist_expand_or_factor g vals 1.
Proof. intros HP. rewrite !expand_or_factor_eq_apply by lia. reflexivity. Qed.

(* ... and that result rewrites exactly the changed positions *)
Fixpoint eof_upd {V} (g : Z -> option V) (o : Z) (vals : list V) : list V :=
  match vals with
  | [] => []
  | v0 :: t => match g o with Some v => v | None => v0 end :: eof_upd g (o + 1) t
  end.

Lemma eof_apply_upd {V} (g : Z -> option V) (seg cpre : list V) :
  eof_apply (cpre ++ seg) (flat_map (eof_pair g) (map Z.of_nat (seq (length cpre) (length seg))))
  = Some (cpre ++ eof_upd g (py_len cpre) seg).
Proof.
  unfold eof_apply. revert cpre; induction seg as [|v0 seg IH]; intros cpre; [reflexivity|].
  cbn [length seq map flat_map eof_upd]. rewrite fold_opt_app.
  assert (Hlen : forall z : V, py_len cpre + 1 = py_len (cpre ++ [z])).
  { intros z. rewrite py_len_app. reflexivity. }
  unfold eof_pair at 1. fold (py_len cpre). destruct (g (py_len cpre)) as [v|].
  - cbn [fold_opt fst snd]. rewrite py_setitem_mid. cbn [bind].
    specialize (IH (cpre ++ [v])). rewrite app_length in IH. cbn [length] in IH.
    rewrite Nat.add_1_r, <- app_assoc in IH. cbn [app] in IH. rewrite IH, <- Hlen, <- app_assoc. reflexivity.
  - cbn [fold_opt bind].
    specialize (IH (cpre ++ [v0])). rewrite app_length in IH. cbn [length] in IH.
    rewrite Nat.add_1_r, <- app_assoc in IH. cbn [app] in IH. rewrite IH, <- Hlen, <- app_assoc. reflexivity.
Qed.

Theorem expand_or_factor_eq_pointwise {V} (g : Z -> option V) (vals : list V) (P : Z) :
  1 <= P -> dist_expand_or_factor g vals P = Some (eof_upd g 0 vals).
Proof.
  intros HP. rewrite expand_or_factor_eq_apply by assumption.
  unfold zrange, py_len. rewrite Nat2Z.id. exact (eof_apply_upd g vals []).
Qed.

(* ------------------------------------------------------------------ *)
(* 4b. sympy_simplify: change_indices / ref_indices / new_inv_subs     *)

Theorem change_loop_gathered {A T} (g : A -> list T) (items : list A) (P : Z) :
  1 <= P -> cl_gathered g items P = Some (flat_map g items).
Proof.
  intros HP. unfold cl_gathered, cl_rank.
  rewrite (gather_some P _ (fun r => flat_map g (chunk (si_bounds (py_len items) P) items r))).
  - cbn [bind]. unfold chain. now rewrite si_flat_map_chunks.
  - intros r Hr. rewrite is_slice_chunk by assumption. reflexivity.
Qed.

(* the lists after the guarded loop are one fixed function (cl_apply) of the gathered list,
   and the gathered list is the one-rank list *)
Theorem change_loop_eq_apply {F Y S A} (g : A -> list (Z * Z * S)) (items : list A)
    (st : @cl_state F Y S) (P : Z) :
  1 <= P -> dist_change_loop g items st P = cl_apply st (flat_map g items).
Proof. intros HP. unfold dist_change_loop. now rewrite change_loop_gathered. Qed.

Corollary change_loop_eq_seq {F Y S A} (g : A -> list (Z * Z * S)) (items : list A)
    (st : @cl_state F Y S) (P : Z) :
  1 <= P -> dist_change_loop g items st P = dist_change_loop g items st 1.
Proof. intros HP. rewrite !change_loop_eq_apply by lia. reflexivity. Qed.

(* ------------------------------------------------------------------ *)
(* non-vacuity: concrete instances, 5 items on 7 ranks (more ranks than items) and on   *)
(* 3 ranks (5 mod 3 <> 0), evaluated by the models themselves                           *)

Definition ex_g (p : Z) : list Z := if p mod 2 =? 0 then [p; 10 * p] else [].
Example dist_extras_ex7 : dist_extras ex_g 5 7 = Some [0; 0; 2; 20; 4; 40].
Proof. vm_compute. reflexivity. Qed.
Example dist_extras_ex3 : dist_extras ex_g 5 3 = Some (flat_map ex_g (zrange 5)).
Proof. vm_compute. reflexivity. Qed.

Definition ex_neq (x y : Z) : bool := negb (x =? y).
Definition ex_h (x : Z) : Z := if x =? 3 then 30 else if x =? 5 then 50 else x.
Definition ex_all : list Z := [1; 2; 3; 4; 5].
Definition ex_str (P r : Z) : list Z := map ex_h (match is_slice ex_all r P with Some s => s | None => [] end).
Example make_changes_ex7 : dist_make_changes ex_neq ex_all (ex_str 7) 7 = Some [1; 2; 30; 4; 50].
Proof. vm_compute. reflexivity. Qed.
Example make_changes_ex3 : dist_make_changes ex_neq ex_all (ex_str 3) 3 = Some (map ex_h ex_all).
Proof. vm_compute. reflexivity. Qed.
(* the hypotheses of make_changes_eq_concat / _eq_map are satisfiable with P > N *)
Example make_changes_hyp_ex7 :
  forall r, 0 <= r < 7 -> exists s, is_slice ex_all r 7 = Some s /\ ex_str 7 r = map ex_h s.
Proof.
  intros r Hr.
  assert (C : r = 0 \/ r = 1 \/ r = 2 \/ r = 3 \/ r = 4 \/ r = 5 \/ r = 6) by lia.
  destruct C as [->|[->|[->|[->|[->|[->| ->]]]]]]; eexists; split; vm_compute; reflexivity.
Qed.
Example make_changes_thm_ex7 : dist_make_changes ex_neq ex_all (ex_str 7) 7 = Some (map ex_h ex_all).
Proof.
  apply make_changes_eq_map; [lia| |exact make_changes_hyp_ex7].
  intros x H. unfold ex_neq in H. apply negb_false_iff in H. now apply Z.eqb_eq in H.
Qed.
(* an entry whose string is unchanged is NOT taken over (chidx skips it): merge, not concat *)
Example make_changes_merge_ex :
  dist_make_changes (fun x y : Z * Z => negb (fst x =? fst y)) [(1, 0); (2, 0); (3, 0)]
                    (fun r => if r =? 0 then [(1, 7); (9, 7)] else if r =? 1 then [(3, 7)] else []) 2
  = Some [(1, 0); (9, 7); (3, 0)].
Proof. vm_compute. reflexivity. Qed.

Example initial_sympify_ex7 :
  dist_initial_sympify (fun x => 2 * x) ex_all 7 = Some [Some 2; Some 4; Some 6; Some 8; Some 10].
Proof. vm_compute. reflexivity. Qed.
Example initial_sympify_ex3 :
  dist_initial_sympify (fun x => 2 * x) ex_all 3 = Some (map Some (map (fun x => 2 * x) ex_all)).
Proof. vm_compute. reflexivity. Qed.

Definition ex_eof (j : Z) : option Z := if j mod 2 =? 1 then Some (100 + j) else None.
Example expand_or_factor_ex7 : dist_expand_or_factor ex_eof [0; 1; 2; 3; 4] 7 = Some [0; 101; 2; 103; 4].
Proof. vm_compute. reflexivity. Qed.
Example expand_or_factor_ex3 : dist_expand_or_factor ex_eof [0; 1; 2; 3; 4] 3 = Some (eof_upd ex_eof 0 [0; 1; 2; 3; 4]).
Proof. vm_compute. reflexivity. Qed.

(* item x asks for all_fun[x] = all_fun[(x+1) mod 5]; the third request is dropped by the guard
   (its ref 0 is in change_indices[:2]) *)
Definition ex_cl (x : Z) : list (Z * Z * Z) := if x mod 2 =? 0 then [(x, (x + 1) mod 5, x)] else [].
Definition ex_st : @cl_state Z Z Z := ([10; 11; 12; 13; 14], [20; 21; 22; 23; 24], [None; Some [7]; None; None; None]).
Example change_loop_ex7 :
  dist_change_loop ex_cl [0; 1; 2; 3; 4] ex_st 7
  = Some ([11; 11; 13; 13; 14], [21; 21; 23; 23; 24], [Some [0]; Some [7]; Some [2]; None; None]).
Proof. vm_compute. reflexivity. Qed.
Example change_loop_ex3 :
  dist_change_loop ex_cl [0; 1; 2; 3; 4] ex_st 3 = cl_apply ex_st (flat_map ex_cl [0; 1; 2; 3; 4]).
Proof. vm_compute. reflexivity. Qed.

Example load_subs_ex7 :
  dist_load_subs (fun x => x + 1) [[1]; []; [2; 3]; [4]; []] 7 = Some [[2]; []; [3; 4]; [5]; []].
Proof. vm_compute. reflexivity. Qed.
Example load_subs_ex3 :
  dist_load_subs (fun x => x + 1) [[1]; []; [2; 3]; [4]; []] 3 = Some (map (map (fun x => x + 1)) [[1]; []; [2; 3]; [4]; []]).
Proof. vm_compute. reflexivity. Qed.
Example np_array_split_ex : np_array_split [1; 2; 3; 4; 5] 3 = Some [[1; 2]; [3; 4]; [5]].
Proof. vm_compute. reflexivity. Qed.
Example np_array_split_ex7 : np_array_split [1; 2; 3; 4; 5] 7 = gather 7 (fun r => is_slice [1; 2; 3; 4; 5] r 7).
Proof. vm_compute. reflexivity. Qed.

Definition ex_bad (f m : Z) : bool := f + m >? 10.
Example check_results_ex7 :
  dist_check_results ex_bad [1; 2; 3; 4; 5] [10; 0; 9; 0; 8] [40; 30; 20; 10; 0] 7 = Some [(40, 1); (20, 3); (0, 5)].
Proof. vm_compute. reflexivity. Qed.
Example check_results_ex3 :
  dist_check_results ex_bad [1; 2; 3; 4; 5] [10; 0; 9; 0; 8] [40; 30; 20; 10; 0] 3
  = Some (map (fun r => (nth (Z.to_nat (fst r)) [40; 30; 20; 10; 0] 0, snd r)) (rej ex_bad 0 [1; 2; 3; 4; 5] [10; 0; 9; 0; 8])).
Proof. vm_compute. reflexivity. Qed.
Example check_results_indices_ex :
  map (fun k => nth (Z.to_nat k) [40; 30; 20; 10; 0] 0)
      (filter (fun k => ex_bad (nth (Z.to_nat k) [1; 2; 3; 4; 5] 0) (nth (Z.to_nat k) [10; 0; 9; 0; 8] 0)) (zrange 5))
  = [40; 20; 0].
Proof. vm_compute. reflexivity. Qed.

Print Assumptions dist_extras_eq_seq.
Print Assumptions make_changes_eq_merge.
Print Assumptions make_changes_eq_concat.
Print Assumptions make_changes_eq_map.
Print Assumptions initial_sympify_eq_map.
Print Assumptions np_array_split_split_idx.
Print Assumptions load_subs_rows_preserved.
Print Assumptions check_results_eq_seq.
Print Assumptions check_results_indices.
Print Assumptions check_results_rank_independent.
Print Assumptions expand_or_factor_eq_apply.
Print Assumptions expand_or_factor_eq_seq.
Print Assumptions expand_or_factor_eq_pointwise.
Print Assumptions change_loop_gathered.
Print Assumptions change_loop_eq_apply.
Print Assumptions change_loop_eq_seq.
