(* C01: the function generated from generator.check_tree (Gen/GenShapes.v, regenerated on every run: checked attribute stores,
   variables that may be unbound, `for`/`while` left with `break`) computes exactly the hand-written model Model/Shapes.check_tree
   on every string: same success flag, same part_considered, same node arrays, and it raises exactly when the model says Crash.
   The theorems about check_tree (C01_check_tree_iff, C01_check_tree_arrays, ...) therefore speak about the code as it is now. *)
From Coq Require Import List Arith Bool Lia.
From ESRV Require Import Model.Shapes Gen.GenShapes Proofs.ShapesProofs.
Import ListNotations.

Lemma setnode_some : forall t k f nd, nth_error t k = Some nd -> setnode t (Some k) f = Some (upd k f t).
Proof. intros t k f nd H. unfold setnode. now rewrite H. Qed.

Lemma nth_error_lt_some : forall (A : Type) (l : list A) k, k < length l -> exists x, nth_error l k = Some x.
Proof. intros A l k H. destruct (nth_error l k) eqn:E; [eauto|]. apply nth_error_None in E. lia. Qed.

Lemma is_none_o_eq : forall (A : Type) (o : option A), is_none_o o = is_none o.
Proof. destruct o; reflexivity. Qed.

Lemma climb_length : forall f t i j b t', climb f t i j = Ok (b, t') -> length t' = length t.
Proof.
  induction f as [|f IH]; intros t i j b t' H; [discriminate|].
  cbn [climb] in H. destruct j as [jj|]; [|discriminate].
  destruct (nth_error t jj) as [nj|]; [|discriminate].
  destruct (freebin nj).
  - injection H as Hb Ht. rewrite <- Ht.
    change (length (upd (S i) (set_par jj) (upd jj (set_rgt (S i)) t)) = length t). now rewrite !upd_length.
  - destruct (is_none (par nj)).
    + injection H as Hb Ht. now rewrite <- Ht.
    + eapply IH; eauto.
Qed.

(* one iteration of the generated while loop, in readable form *)
Lemma ct_while_step : forall f i t jj nj, nth_error t jj = Some nj ->
  ct_while (S f) i t false (Some jj) =
  if freebin nj then
    (tr1 <~ setnode t (Some jj) (set_rgt_o (Some (i + 1))) ;;
     tr2 <~ setnode tr1 (Some (i + 1)) (set_par_o (Some jj)) ;;
     nd <~ getnode tr2 (Some jj) ;;
     ct_while f i tr2 true (par nd))
  else if is_none (par nj) then Some (t, false, Some jj)
  else ct_while f i t false (par nj).
Proof.
  intros f i t jj nj Hj. cbn [ct_while negb getnode]. rewrite Hj. cbn [bindc]. unfold freebin.
  destruct (ty nj =? 2); destruct (rgt nj); destruct (par nj); reflexivity.
Qed.

Lemma ct_while_done : forall f i t j, ct_while (S f) i t true j = Some (t, true, j).
Proof. reflexivity. Qed.

Lemma climb_S : forall f t i jj,
  climb (S f) t i (Some jj) =
  match nth_error t jj with
  | None => Crash
  | Some nj =>
      if freebin nj then Ok (true, upd (S i) (set_par jj) (upd jj (set_rgt (S i)) t))
      else if is_none (par nj) then Ok (false, t) else climb f t i (par nj)
  end.
Proof. reflexivity. Qed.

(* the while loop: ct_while with one more unit of fuel (the final test of the loop condition) is climb *)
Lemma while_climb : forall f t i j, S i < length t ->
  match climb f t i j with
  | Ok (b, t') => exists j', ct_while (S f) i t false j = Some (t', b, j')
  | Crash => ct_while (S f) i t false j = None
  | Fuel => True
  end.
Proof.
  induction f as [|f IH]; intros t i j Hi; [exact I|].
  destruct j as [jj|]; [|reflexivity].
  rewrite climb_S.
  destruct (nth_error t jj) as [nj|] eqn:Hj.
  2:{ cbn [ct_while negb getnode bindc]. now rewrite Hj. }
  rewrite (ct_while_step _ _ _ _ _ Hj).
  destruct (freebin nj) eqn:Hfb.
  - (* attach on the right *)
    rewrite (setnode_some _ _ _ _ Hj). cbn [bindc].
    set (t1 := upd jj (set_rgt_o (Some (i + 1))) t).
    assert (L1 : length t1 = length t) by (unfold t1; apply upd_length).
    destruct (nth_error_lt_some _ t1 (i + 1)) as [n1 Hn1]; [lia|].
    rewrite (setnode_some _ _ _ _ Hn1). cbn [bindc].
    set (t2 := upd (i + 1) (set_par_o (Some jj)) t1).
    assert (L2 : length t2 = length t) by (unfold t2; rewrite upd_length; exact L1).
    assert (Hjj : jj < length t) by (apply nth_error_Some; congruence).
    destruct (nth_error_lt_some _ t2 jj) as [n2 Hn2]; [lia|].
    cbn [getnode]. rewrite Hn2. cbn [bindc].
    exists (par n2). destruct f as [|f'].
    + (* f = 0: ct_while 0 has no fuel for the final test -- but climb (S 0) answered, and S f = 1 gives ct_while 1 ... *)
      cbn [ct_while]. unfold t2, t1. rewrite Nat.add_1_r. reflexivity.
    + rewrite ct_while_done. unfold t2, t1. rewrite Nat.add_1_r. reflexivity.
  - destruct (is_none (par nj)) eqn:Ep.
    + exists (Some jj). reflexivity.
    + apply IH. exact Hi.
Qed.

Lemma step_length : forall i t b t', step i t = Ok (b, t') -> length t' = length t.
Proof.
  intros i t b t' H. unfold step in H. destruct (nth_error t i) as [ni|]; [|discriminate].
  destruct ((ty ni =? 2) || (ty ni =? 1)).
  - injection H as Hb Ht. rewrite <- Ht.
    change (length (upd (S i) (set_par i) (upd i (set_lft (S i)) t)) = length t). now rewrite !upd_length.
  - eapply climb_length; eauto.
Qed.

(* one iteration of the generated for loop, in readable form *)
Lemma ct_for_step : forall k i s t so jo il ni, nth_error t i = Some ni ->
  ct_for (S k) i s t so jo il =
  if (ty ni =? 2) || (ty ni =? 1) then
    (tr1 <~ setnode t (Some i) (set_lft_o (Some (i + 1))) ;;
     tr2 <~ setnode tr1 (Some (i + 1)) (set_par_o (Some i)) ;;
     ct_for k (S i) s tr2 (Some true) jo (Some i))
  else
    ('(tr, b, j') <~ ct_while (S (length t)) i t false (par ni) ;;
     if negb b then Some (tr, Some b, Some j', Some i) else ct_for k (S i) s tr (Some b) (Some j') (Some i)).
Proof.
  intros k i s t so jo il ni Hi. cbn [ct_for getnode]. rewrite Hi. cbn [bindc].
  destruct (ty ni =? 2); cbn [orb bindc]; [reflexivity|].
  destruct (ty ni =? 1); cbn [bindc negb]; reflexivity.
Qed.

Lemma for_loop : forall k i s t so jo il, 1 <= k -> i + k < length t ->
  match loop k i t with
  | Ok (b, i', t') => exists jo', ct_for k i s t so jo il = Some (t', Some b, jo', Some i')
  | Crash => ct_for k i s t so jo il = None
  | Fuel => True
  end.
Proof.
  induction k as [|k IH]; intros i s t so jo il Hk Hlen; [lia|].
  cbn [loop]. unfold step.
  destruct (nth_error_lt_some _ t i) as [ni Hi]; [lia|]. rewrite Hi.
  rewrite (ct_for_step _ _ _ _ _ _ _ _ Hi).
  destruct ((ty ni =? 2) || (ty ni =? 1)) eqn:Et.
  - (* attach on the left *)
    rewrite (setnode_some _ _ _ _ Hi). cbn [bindc].
    set (t1 := upd i (set_lft_o (Some (i + 1))) t).
    assert (L1 : length t1 = length t) by (unfold t1; apply upd_length).
    destruct (nth_error_lt_some _ t1 (i + 1)) as [n1 Hn1]; [lia|].
    rewrite (setnode_some _ _ _ _ Hn1). cbn [bindc].
    set (t2 := upd (i + 1) (set_par_o (Some i)) t1).
    assert (E : upd (S i) (set_par i) (upd i (set_lft (S i)) t) = t2) by (unfold t2, t1; rewrite Nat.add_1_r; reflexivity).
    rewrite E.
    destruct k as [|k'].
    + exists jo. reflexivity.
    + assert (L2 : length t2 = length t) by (unfold t2; rewrite upd_length; exact L1).
      apply IH; lia.
  - (* climb *)
    pose proof (while_climb (length t) t i (par ni) ltac:(lia)) as HW.
    destruct (climb (length t) t i (par ni)) as [[b t']| |] eqn:Hc.
    + destruct HW as [j' HW]. rewrite HW. cbn [bindc].
      destruct b; cbn [negb].
      * destruct k as [|k'].
        -- exists (Some j'). reflexivity.
        -- assert (L : length t' = length t) by (eapply climb_length; eauto). apply IH; lia.
      * exists (Some j'). reflexivity.
    + rewrite HW. reflexivity.
    + exact I.
Qed.

Lemma lefts_code : forall t,
  mem_none (map (fun nd => lft nd) (filter (fun nd => (ty nd =? 1) || (ty nd =? 2)) t)) = lefts_missing t.
Proof.
  induction t as [|nd t IH]; [reflexivity|]. unfold lefts_missing in *. cbn [filter existsb].
  destruct ((ty nd =? 1) || (ty nd =? 2)); cbn [map mem_none existsb andb].
  - unfold mem_none in IH. rewrite IH, is_none_o_eq. reflexivity.
  - exact IH.
Qed.

Lemma rights_code : forall t,
  mem_none (map (fun nd => rgt nd) (filter (fun nd => ty nd =? 2) t)) = rights_missing t.
Proof.
  induction t as [|nd t IH]; [reflexivity|]. unfold rights_missing in *. cbn [filter existsb].
  destruct (ty nd =? 2); cbn [map mem_none existsb andb].
  - unfold mem_none in IH. rewrite IH, is_none_o_eq. reflexivity.
  - exact IH.
Qed.

(* the generated check_tree is the model's: same result on every string, raises exactly where the model says Crash *)
Theorem check_tree_code_refines : forall s,
  match check_tree s with
  | Ok r => check_tree_code s = Some r
  | Crash => check_tree_code s = None
  | Fuel => True
  end.
Proof.
  intros s. unfold check_tree, check_tree_code.
  destruct (1 <? length s) eqn:H1.
  - apply Nat.ltb_lt in H1.
    pose proof (for_loop (length s - 1) 0 s (map mknode s) None None None ltac:(lia) ltac:(rewrite map_length; lia)) as HF.
    destruct (loop (length s - 1) 0 (map mknode s)) as [[[b i'] t']| |].
    + destruct HF as [jo' HF]. rewrite HF. cbn [bindc].
      rewrite lefts_code, rights_code.
      destruct b; cbn [bindc].
      * destruct (lefts_missing t'); cbn [negb].
        -- reflexivity.
        -- destruct (rights_missing t'); reflexivity.
      * reflexivity.
    + rewrite HF. reflexivity.
    + exact I.
  - (* at most one node: the loop body never runs *)
    apply Nat.ltb_ge in H1.
    destruct s as [|a [|a' r]]; [reflexivity | reflexivity | cbn [length] in H1; lia].
Qed.

(* ---- the C01 statements about check_tree, restated on the generated code ---- *)

Theorem code_check_tree_iff : forall s, 2 <= length s -> hd 0 s <> 0 -> Forall le2 s ->
  exists p t, check_tree_code s = Some (lukb s, Some p, t) /\ (lukb s = true <-> exists u, pre u = s).
Proof.
  intros s H1 H2 H3. destruct (check_tree_iff s H1 H2 H3) as [p [t [Hc Hl]]].
  exists p, t. split; [|exact Hl]. pose proof (check_tree_code_refines s) as R. now rewrite Hc in R.
Qed.

Theorem code_check_tree_prune_sound : forall s, 2 <= length s -> hd 0 s <> 0 -> Forall le2 s ->
  exists p t, check_tree_code s = Some (lukb s, Some p, t) /\
    firstn (length p) s = p /\
    (lukb s = false -> forall s', length s' = length s -> firstn (length p) s' = p -> lukb s' = false).
Proof.
  intros s H1 H2 H3. destruct (check_tree_spec s H1 H2 H3) as [p [t [Hc Hr]]].
  exists p, t. split; [|exact Hr]. pose proof (check_tree_code_refines s) as R. now rewrite Hc in R.
Qed.

Theorem code_check_tree_arrays : forall u, 2 <= size u ->
  check_tree_code (pre u) = Some (true, Some (pre u), arr u 0 None).
Proof.
  intros u H. pose proof (check_tree_code_refines (pre u)) as R. now rewrite (check_tree_arrays u H) in R.
Qed.

(* the s[0] = 0 crash of the code (tree[None]): the generated function raises too *)
Theorem code_check_tree_crash : forall a r, check_tree_code (0 :: a :: r) = None.
Proof.
  intros a r. pose proof (check_tree_code_refines (0 :: a :: r)) as R. now rewrite check_tree_crash in R.
Qed.

Theorem code_check_tree_single : forall a, check_tree_code [a] = Some (true, None, [mknode a]).
Proof. reflexivity. Qed.
