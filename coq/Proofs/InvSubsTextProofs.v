(* C17, text side: the four replaces + literal_eval give back the written dict;
   csv row round trip; array_split / gather keeps row i at row i. *)
From Coq Require Import String Ascii Bool Arith Lia List.
From ESRV Require Import Common.Py Common.Tiling Model.InvSubsText.
Import ListNotations.
Open Scope char_scope.
Open Scope nat_scope.

(* ------------------------------------------------------------------ *)
(* string equality *)
Lemma str_eqb_refl s : str_eqb s s = true.
Proof. induction s as [|c s IH]; cbn; [reflexivity|]. now rewrite Ascii.eqb_refl, IH. Qed.

Lemma str_eqb_eq a b : str_eqb a b = true <-> a = b.
Proof.
  split; [|intros ->; apply str_eqb_refl].
  revert b; induction a as [|x a IH]; intros [|y b] H; cbn in H; try discriminate; [reflexivity|].
  apply andb_true_iff in H as [H1 H2]. apply Ascii.eqb_eq in H1. subst. f_equal. now apply IH.
Qed.

(* ------------------------------------------------------------------ *)
(* replace with a one-character pattern *)
Definition nochar (ch : ascii) (s : str) : bool := forallb (fun c => negb (Ascii.eqb ch c)) s.

Lemma nochar_app ch a b : nochar ch (a ++ b) = nochar ch a && nochar ch b.
Proof. apply forallb_app. Qed.

Lemma repl1_app ch rep X Y :
  nochar ch X = true -> repl [ch] rep 0 (X ++ Y) = X ++ repl [ch] rep 0 Y.
Proof.
  induction X as [|x X IH]; intros H; [reflexivity|].
  cbn in H. apply andb_true_iff in H as [H1 H2]. apply negb_true_iff in H1.
  cbn [app repl is_prefix]. rewrite H1. cbn [andb]. now rewrite IH.
Qed.

Lemma repl1_hit ch rep Y : repl [ch] rep 0 (ch :: Y) = rep ++ repl [ch] rep 0 Y.
Proof. cbn [repl is_prefix]. now rewrite Ascii.eqb_refl. Qed.

Lemma repl_nil pat rep k : repl pat rep k [] = [].
Proof. reflexivity. Qed.

(* replace with a two-character pattern: a piece without the pattern, followed
   by a character different from the pattern's second one, is copied *)
Lemma is_prefix2_short c1 c2 x : is_prefix [c1; c2] [x] = false.
Proof. cbn. now rewrite andb_false_r. Qed.

Lemma repl2_pass c1 c2 rep X c Y :
  has_sub [c1; c2] X = false -> Ascii.eqb c2 c = false ->
  repl [c1; c2] rep 0 (X ++ c :: Y) = X ++ repl [c1; c2] rep 0 (c :: Y).
Proof.
  intros H Hc. induction X as [|x X IH]; [reflexivity|].
  cbn [has_sub] in H. apply orb_false_iff in H as [H1 H2].
  cbn [app]. cbn [repl].
  assert (E : is_prefix [c1; c2] (x :: X ++ c :: Y) = false).
  { destruct X as [|y X].
    - cbn. rewrite Hc. now rewrite andb_false_r.
    - cbn in H1 |- *. exact H1. }
  rewrite E. now rewrite IH.
Qed.

Lemma repl2_pass_end c1 c2 rep X :
  has_sub [c1; c2] X = false -> repl [c1; c2] rep 0 X = X.
Proof.
  intros H. induction X as [|x X IH]; [reflexivity|].
  cbn [has_sub] in H. apply orb_false_iff in H as [H1 H2].
  cbn [repl]. rewrite H1. now rewrite IH.
Qed.

(* ------------------------------------------------------------------ *)
(* what cleanliness gives *)
Lemma clean_parts s :
  clean s = true ->
  forallb (fun c => negb (bad_char c)) s = true /\ has_sub [","; sp] s = false /\ has_sub [":"; sp] s = false.
Proof.
  unfold clean. intros H. apply andb_true_iff in H as [H H3]. apply andb_true_iff in H as [H1 H2].
  apply negb_true_iff in H2, H3. auto.
Qed.

Lemma clean_nochar ch s :
  bad_char ch = true -> clean s = true -> nochar ch s = true.
Proof.
  intros Hb H. apply clean_parts in H as (H & _ & _).
  unfold nochar. rewrite forallb_forall in *. intros c Hc. specialize (H c Hc).
  destruct (Ascii.eqb_spec ch c) as [->|]; [|reflexivity]. now rewrite Hb in H.
Qed.

Lemma clean_lit s c : clean s = true -> In c s -> Ascii.eqb c q = false /\ lit_bad c = false.
Proof.
  intros H Hc. apply clean_parts in H as (H & _ & _). rewrite forallb_forall in H.
  specialize (H c Hc). apply negb_true_iff in H. unfold bad_char in H.
  apply orb_false_iff in H as [_ H]. split; [|exact H].
  unfold lit_bad in H. now repeat (apply orb_false_iff in H as [H _]).
Qed.

Definition all_clean (d : dict) : bool := forallb (fun kv => clean (fst kv) && clean (snd kv)) d.

Lemma all_clean_cons k v d : all_clean ((k, v) :: d) = true -> clean k = true /\ clean v = true /\ all_clean d = true.
Proof.
  unfold all_clean. cbn. intros H. apply andb_true_iff in H as [H H2]. apply andb_true_iff in H as [Hk Hv]. auto.
Qed.

Lemma show_items_nochar ch d :
  bad_char ch = true -> Ascii.eqb ch ":" = false -> Ascii.eqb ch sp = false -> Ascii.eqb ch "," = false ->
  all_clean d = true -> nochar ch (show_items d) = true.
Proof.
  intros Hb H1 H2 H3. induction d as [|[k v] r IH]; intros H; [reflexivity|].
  apply all_clean_cons in H as (Hk & Hv & Hr).
  pose proof (clean_nochar ch k Hb Hk) as Nk. pose proof (clean_nochar ch v Hb Hv) as Nv.
  cbn [show_items]. destruct r as [|p r].
  - rewrite !nochar_app, Nk, Nv. cbn. now rewrite H1, H2.
  - rewrite !nochar_app, Nk, Nv, (IH Hr). cbn. now rewrite H1, H2, H3.
Qed.

(* ------------------------------------------------------------------ *)
(* the text after the third and after the fourth replace *)
Fixpoint items3 (d : dict) : str :=
  match d with
  | [] => []
  | (k, v) :: r =>
      match r with
      | [] => k ++ [":"; sp] ++ v
      | _ => k ++ [":"; sp] ++ v ++ [q; ","; sp; q] ++ items3 r
      end
  end.
Fixpoint items4 (d : dict) : str :=
  match d with
  | [] => []
  | (k, v) :: r =>
      match r with
      | [] => k ++ [q; ":"; sp; q] ++ v
      | _ => k ++ [q; ":"; sp; q] ++ v ++ [q; ","; sp; q] ++ items4 r
      end
  end.

Lemma stage3 d z Z :
  all_clean d = true -> Ascii.eqb sp z = false ->
  repl [","; sp] [q; ","; sp; q] 0 (show_items d ++ z :: Z)
  = items3 d ++ repl [","; sp] [q; ","; sp; q] 0 (z :: Z).
Proof.
  intros H Hz. induction d as [|[k v] r IH]; [reflexivity|].
  apply all_clean_cons in H as (Hk & Hv & Hr).
  apply clean_parts in Hk as (_ & Hk & _). apply clean_parts in Hv as (_ & Hv & _).
  cbn [show_items items3]. destruct r as [|p r].
  - rewrite <- !app_assoc. cbn [app].
    rewrite repl2_pass by (assumption || reflexivity).
    cbn [repl is_prefix]. cbn [Ascii.eqb Bool.eqb andb].
    rewrite repl2_pass by assumption. reflexivity.
  - rewrite <- !app_assoc. cbn [app].
    rewrite repl2_pass by (assumption || reflexivity).
    cbn [repl is_prefix]. cbn [Ascii.eqb Bool.eqb andb].
    rewrite repl2_pass by (assumption || reflexivity).
    cbn [repl is_prefix]. cbn [Ascii.eqb Bool.eqb andb List.length Nat.sub app].
    rewrite (IH Hr). reflexivity.
Qed.

Lemma stage4 d z Z :
  all_clean d = true -> Ascii.eqb sp z = false -> Ascii.eqb ":" z = false ->
  (forall W, repl [":"; sp] [q; ":"; sp; q] 0 (z :: W) = z :: repl [":"; sp] [q; ":"; sp; q] 0 W) ->
  repl [":"; sp] [q; ":"; sp; q] 0 (items3 d ++ z :: Z)
  = items4 d ++ repl [":"; sp] [q; ":"; sp; q] 0 (z :: Z).
Proof.
  intros H Hz Hz' Hstep. induction d as [|[k v] r IH]; [reflexivity|].
  apply all_clean_cons in H as (Hk & Hv & Hr).
  apply clean_parts in Hk as (_ & _ & Hk). apply clean_parts in Hv as (_ & _ & Hv).
  cbn [items3 items4]. destruct r as [|p r].
  - rewrite <- !app_assoc. cbn [app].
    rewrite repl2_pass by (assumption || reflexivity).
    cbn [repl is_prefix]. cbn [Ascii.eqb Bool.eqb andb List.length Nat.sub app].
    rewrite repl2_pass by assumption. reflexivity.
  - rewrite <- !app_assoc. cbn [app].
    rewrite repl2_pass by (assumption || reflexivity).
    cbn [repl is_prefix]. cbn [Ascii.eqb Bool.eqb andb List.length Nat.sub app].
    rewrite repl2_pass by (assumption || reflexivity).
    cbn [repl is_prefix]. cbn [Ascii.eqb Bool.eqb andb List.length Nat.sub app].
    rewrite (IH Hr). reflexivity.
Qed.

Lemma stage1_full d :
  all_clean d = true ->
  repl ["{"] ["{"; q] 0 (show_dict d) = "{" :: q :: show_items d ++ ["}"].
Proof.
  intros H. unfold show_dict. cbn [app]. rewrite repl1_hit. cbn [app]. do 2 f_equal.
  rewrite <- (app_nil_r (show_items d ++ ["}"])) at 1. rewrite repl1_app; [now rewrite app_nil_r|].
  rewrite nochar_app, show_items_nochar by (assumption || reflexivity). reflexivity.
Qed.

Lemma stage2_full d :
  all_clean d = true ->
  repl ["}"] [q; "}"] 0 ("{" :: q :: show_items d ++ ["}"]) = "{" :: q :: show_items d ++ [q; "}"].
Proof.
  intros H. change ("{" :: q :: show_items d ++ ["}"]) with (("{" :: q :: show_items d) ++ ["}"]).
  rewrite repl1_app.
  - rewrite repl1_hit. reflexivity.
  - change (nochar "}" ("{" :: q :: show_items d)) with (nochar "}" (["{"; q] ++ show_items d)).
    rewrite nochar_app, show_items_nochar by (assumption || reflexivity). reflexivity.
Qed.

Lemma stage3_full d :
  all_clean d = true ->
  repl [","; sp] [q; ","; sp; q] 0 ("{" :: q :: show_items d ++ [q; "}"]) = "{" :: q :: items3 d ++ [q; "}"].
Proof.
  intros H. cbn [repl is_prefix]. cbn [Ascii.eqb Bool.eqb andb].
  rewrite stage3 by (assumption || reflexivity). reflexivity.
Qed.

Lemma stage4_full d :
  all_clean d = true ->
  repl [":"; sp] [q; ":"; sp; q] 0 ("{" :: q :: items3 d ++ [q; "}"]) = "{" :: q :: items4 d ++ [q; "}"].
Proof.
  intros H. cbn [repl is_prefix]. cbn [Ascii.eqb Bool.eqb andb].
  rewrite stage4; [reflexivity|assumption|reflexivity|reflexivity|intros W; reflexivity].
Qed.

Theorem requote_form d :
  all_clean d = true ->
  requote (show_dict d) = ["{"; q] ++ items4 d ++ [q; "}"].
Proof.
  intros H. unfold requote, py_replace.
  now rewrite stage1_full, stage2_full, stage3_full, stage4_full.
Qed.

(* ------------------------------------------------------------------ *)
(* the literal_eval state machine on the requoted text *)
Lemma lex_key acc items k rest :
  clean k = true ->
  lex (PKey acc) items (k ++ q :: rest) = lex (PColon (rev acc ++ k)) items rest.
Proof.
  intros H. assert (Hc : forall c, In c k -> Ascii.eqb c q = false /\ lit_bad c = false)
    by (intros c; now apply clean_lit).
  clear H. revert acc. induction k as [|c k IH]; intros acc.
  - cbn. now rewrite app_nil_r.
  - destruct (Hc c (or_introl eq_refl)) as [H1 H2].
    cbn [app lex]. rewrite H1, H2. rewrite IH by (intros; apply Hc; now right).
    cbn [rev]. now rewrite <- app_assoc.
Qed.

Lemma lex_val k0 acc items v rest :
  clean v = true ->
  lex (PVal k0 acc) items (v ++ q :: rest) = lex PAfterVal ((k0, rev acc ++ v) :: items) rest.
Proof.
  intros H. assert (Hc : forall c, In c v -> Ascii.eqb c q = false /\ lit_bad c = false)
    by (intros c; now apply clean_lit).
  clear H. revert acc. induction v as [|c v IH]; intros acc.
  - cbn. now rewrite app_nil_r.
  - destruct (Hc c (or_introl eq_refl)) as [H1 H2].
    cbn [app lex]. rewrite H1, H2. rewrite IH by (intros; apply Hc; now right).
    cbn [rev]. now rewrite <- app_assoc.
Qed.

Lemma lex_items d items :
  d <> [] -> all_clean d = true ->
  lex (PKey []) items (items4 d ++ [q; "}"]) = Some (rev items ++ d).
Proof.
  revert items. induction d as [|[k v] r IH]; intros items Hne H; [congruence|].
  apply all_clean_cons in H as (Hk & Hv & Hr).
  cbn [items4]. destruct r as [|p r].
  - rewrite <- !app_assoc. cbn [app].
    rewrite lex_key by assumption. cbn [rev app lex]. cbn [Ascii.eqb Bool.eqb andb].
    rewrite lex_val by assumption. cbn [rev app lex]. cbn [Ascii.eqb Bool.eqb andb].
    reflexivity.
  - rewrite <- !app_assoc. cbn [app].
    rewrite lex_key by assumption. cbn [rev app lex]. cbn [Ascii.eqb Bool.eqb andb].
    rewrite lex_val by assumption. cbn [rev app lex]. cbn [Ascii.eqb Bool.eqb andb].
    rewrite IH by (congruence || assumption). cbn [rev]. now rewrite <- app_assoc.
Qed.

(* dict construction is the identity on items with pairwise different keys *)
Definition fresh_for (acc items : dict) : bool :=
  forallb (fun kv => negb (existsb (fun kv' => str_eqb (fst kv) (fst kv')) items)) acc.

Lemma dict_set_fresh k v acc :
  forallb (fun kv => negb (str_eqb (fst kv) k)) acc = true -> dict_set k v acc = acc ++ [(k, v)].
Proof.
  induction acc as [|[k' v'] acc IH]; intros H; [reflexivity|].
  cbn in H. apply andb_true_iff in H as [H1 H2]. apply negb_true_iff in H1.
  cbn [dict_set]. rewrite H1. cbn [app]. now rewrite IH.
Qed.

Lemma dict_of_items_nodup items acc :
  fresh_for acc items = true -> nodup_keys items = true ->
  fold_left (fun d kv => dict_set (fst kv) (snd kv) d) items acc = acc ++ items.
Proof.
  revert acc. induction items as [|[k v] r IH]; intros acc Hf Hn.
  - cbn. now rewrite app_nil_r.
  - cbn [fold_left fst snd]. cbn [nodup_keys] in Hn. apply andb_true_iff in Hn as [Hn1 Hn2].
    rewrite dict_set_fresh.
    + rewrite IH; [now rewrite <- app_assoc| |assumption].
      unfold fresh_for in *. rewrite forallb_app. apply andb_true_iff. split.
      * rewrite forallb_forall in *. intros kv Hkv. specialize (Hf kv Hkv).
        apply negb_true_iff in Hf. cbn [existsb] in Hf. apply orb_false_iff in Hf as [_ Hf].
        now apply negb_true_iff.
      * cbn [forallb fst]. now rewrite Hn1.
    + unfold fresh_for in Hf. rewrite forallb_forall in *. intros kv Hkv. specialize (Hf kv Hkv).
      apply negb_true_iff in Hf. cbn [existsb fst] in Hf. apply orb_false_iff in Hf as [Hf _].
      now apply negb_true_iff.
Qed.

Lemma dict_ok_parts d : dict_ok d = true -> d <> [] /\ nodup_keys d = true /\ all_clean d = true.
Proof.
  unfold dict_ok. intros H. apply andb_true_iff in H as [H H3]. apply andb_true_iff in H as [H1 H2].
  repeat split; try assumption. intros ->. discriminate.
Qed.

(* T1: the four replaces followed by literal_eval give back the written dict:
   same keys in the same order, same value strings *)
Theorem requote_roundtrip d :
  dict_ok d = true -> literal_eval_dict (requote (show_dict d)) = Some d.
Proof.
  intros H. apply dict_ok_parts in H as (Hne & Hn & Hc).
  rewrite requote_form by assumption. unfold literal_eval_dict.
  cbn [app lex]. cbn [Ascii.eqb Bool.eqb andb].
  rewrite lex_items by assumption. cbn [rev app].
  unfold dict_of_items. rewrite dict_of_items_nodup by (reflexivity || assumption). reflexivity.
Qed.

Theorem read_cell_dict d : dict_ok d = true -> read_cell (show_dict d) = CDict d.
Proof.
  intros H. unfold read_cell. rewrite requote_roundtrip by assumption.
  apply dict_ok_parts in H as (_ & _ & Hc). rewrite requote_form by assumption.
  reflexivity.
Qed.

Theorem nan_stays_nan : read_cell (lit "nan") = CNan.
Proof. vm_compute. reflexivity. Qed.

Theorem read_wcell w : wcell_ok w = true -> read_cell (show_wcell w) = cell_of w.
Proof.
  destruct w as [|d]; cbn [wcell_ok show_wcell cell_of]; intros H.
  - apply nan_stays_nan.
  - apply andb_true_iff in H as [H _]. now apply read_cell_dict.
Qed.

(* a dict cell is never read as nan, a nan cell never as a dict *)
Theorem nan_iff_nan w : wcell_ok w = true -> (read_cell (show_wcell w) = CNan <-> w = WNan).
Proof.
  intros H. rewrite read_wcell by assumption. destruct w; cbn; split; congruence.
Qed.

(* nodup_keys is NoDup of the key strings *)
Lemma nodup_keys_NoDup d : nodup_keys d = true <-> NoDup (map fst d).
Proof.
  induction d as [|[k v] r IH]; cbn [nodup_keys map fst].
  - split; [constructor|reflexivity].
  - rewrite andb_true_iff, IH, negb_true_iff. split.
    + intros [H1 H2]. constructor; [|assumption]. intros Hin. apply in_map_iff in Hin as ([k' v'] & E & Hin).
      cbn in E. subst k'. apply not_true_iff_false in H1. apply H1. apply existsb_exists.
      exists (k, v'). split; [assumption|]. apply str_eqb_refl.
    + intros Hnd. inversion Hnd as [|? ? Hni Hr]; subst. split; [|assumption].
      apply not_true_iff_false. intros Hex. apply existsb_exists in Hex as ([k' v'] & Hin & E).
      apply str_eqb_eq in E. cbn in E. subst k'. apply Hni. apply in_map_iff. now exists (k, v').
Qed.

(* T2: the whole bounded family satisfies the side condition (finite check) *)
Theorem emitted_family_clean : forallb tmpl_ok (family 4 12) = true.
Proof. vm_compute. reflexivity. Qed.

Theorem emitted_family_roundtrip t :
  In t (family 4 12) -> read_cell (show_tmpl t) = cell_of (wcell_of t).
Proof.
  intros H. pose proof emitted_family_clean as F. rewrite forallb_forall in F.
  apply read_wcell. exact (F t H).
Qed.

(* ------------------------------------------------------------------ *)
(* csv row *)
Definition nosemi (f : str) : bool := forallb (fun c => negb (Ascii.eqb c semi)) f.

Lemma csv_plain_parts f : csv_plain f = true -> f <> [] /\ nosemi f = true.
Proof.
  unfold csv_plain. intros H. apply andb_true_iff in H as [H1 H2]. split.
  - intros ->. discriminate.
  - unfold nosemi. rewrite forallb_forall in *. intros c Hc. specialize (H2 c Hc).
    apply negb_true_iff in H2. unfold csv_special in H2.
    repeat (apply orb_false_iff in H2 as [H2 _]). now apply negb_true_iff.
Qed.

Lemma split_semi_field cur f Y :
  nosemi f = true -> split_semi cur (f ++ semi :: Y) = (rev cur ++ f) :: split_semi [] Y.
Proof.
  revert cur. induction f as [|c f IH]; intros cur H.
  - cbn. now rewrite app_nil_r.
  - cbn in H. apply andb_true_iff in H as [H1 H2]. apply negb_true_iff in H1.
    cbn [app split_semi]. rewrite H1. rewrite IH by assumption. cbn [rev]. now rewrite <- app_assoc.
Qed.

Lemma split_semi_last cur f :
  nosemi f = true -> split_semi cur f = [rev cur ++ f].
Proof.
  revert cur. induction f as [|c f IH]; intros cur H.
  - cbn. now rewrite app_nil_r.
  - cbn in H. apply andb_true_iff in H as [H1 H2]. apply negb_true_iff in H1.
    cbn [split_semi]. rewrite H1. rewrite IH by assumption. cbn [rev]. now rewrite <- app_assoc.
Qed.

Lemma split_join row :
  row <> [] -> forallb csv_plain row = true -> split_semi [] (join_semi row) = row.
Proof.
  induction row as [|f r IH]; intros Hne H; [congruence|].
  cbn in H. apply andb_true_iff in H as [Hf Hr]. apply csv_plain_parts in Hf as [_ Hf].
  cbn [join_semi]. destruct r as [|g r].
  - now rewrite split_semi_last.
  - cbn [app]. rewrite split_semi_field by assumption. cbn [rev app]. f_equal. apply IH; [congruence|assumption].
Qed.

Theorem csv_roundtrip row line :
  csv_write_row row = Some line -> csv_read_row line = row.
Proof.
  unfold csv_write_row. destruct (forallb csv_plain row) eqn:H; [|discriminate].
  intros E. injection E as <-. destruct row as [|f r]; [reflexivity|].
  pose proof H as H'. cbn in H'. apply andb_true_iff in H' as [Hf _]. apply csv_plain_parts in Hf as [Hf _].
  unfold csv_read_row. rewrite split_join by (congruence || assumption).
  destruct (join_semi (f :: r)) eqn:E; [|reflexivity].
  exfalso. cbn in E. destruct r; [congruence|]. destruct f; [congruence|discriminate].
Qed.

(* ------------------------------------------------------------------ *)
(* array_split over P ranks, per-rank processing, gather in rank order *)
Lemma as_point_0 N P : as_point N P 0 = 0.
Proof. reflexivity. Qed.

Lemma as_point_mono N P r : as_point N P r <= as_point N P (S r).
Proof. unfold as_point. nia. Qed.

Lemma as_point_P N P : 1 <= P -> as_point N P P = N.
Proof.
  intros HP. unfold as_point.
  pose proof (Nat.div_mod N P ltac:(lia)). pose proof (Nat.mod_upper_bound N P ltac:(lia)).
  rewrite Nat.min_r by lia. nia.
Qed.

Lemma rank_rows_chunk {A} (rows : list A) P r :
  rank_rows rows P r = chunk (as_point (List.length rows) P) rows r.
Proof.
  unfold rank_rows, chunk. destruct (Nat.leb_spec (as_point (List.length rows) P (S r)) (as_point (List.length rows) P r)) as [H|H].
  - replace (_ - _) with 0 by lia. reflexivity.
  - reflexivity.
Qed.

Theorem array_split_tiles {A} (rows : list A) P :
  1 <= P -> concat (map (rank_rows rows P) (seq 0 P)) = rows.
Proof.
  intros HP. erewrite map_ext by (intros; apply rank_rows_chunk).
  apply chunks_tile.
  - apply as_point_0.
  - intros; apply as_point_mono.
  - now apply as_point_P.
Qed.

(* T3: for every P >= 1 the gathered result is the row-wise image of the file:
   row i stays row i, empty rows stay empty *)
Theorem rows_preserved P lines :
  1 <= P -> load_subs P lines = map (fun l => read_row (csv_read_row l)) lines.
Proof.
  intros HP. unfold load_subs.
  rewrite <- (map_map (rank_rows (map csv_read_row lines) P) (map read_row)).
  rewrite <- concat_map, array_split_tiles by assumption.
  now rewrite map_map.
Qed.

Corollary row_i_preserved P lines i :
  1 <= P -> nth_error (load_subs P lines) i = option_map (fun l => read_row (csv_read_row l)) (nth_error lines i).
Proof. intros HP. rewrite rows_preserved by assumption. apply nth_error_map. Qed.

Corollary empty_row_stays_empty P (lines : list str) i :
  1 <= P -> nth_error lines i = Some ([] : str) -> nth_error (load_subs P lines) i = Some [].
Proof. intros HP H. rewrite row_i_preserved by assumption. rewrite H. reflexivity. Qed.

(* ------------------------------------------------------------------ *)
(* T4: write the rows, load them with any number of ranks: every cell of every
   row comes back as written *)
Lemma wcell_ok_plain w : wcell_ok w = true -> csv_plain (show_wcell w) = true.
Proof.
  destruct w as [|d]; cbn [wcell_ok show_wcell]; intros H; [reflexivity|].
  now apply andb_true_iff in H as [_ H].
Qed.

Lemma read_written_row row :
  forallb wcell_ok row = true ->
  exists line, csv_write_row (map show_wcell row) = Some line /\ read_row (csv_read_row line) = map cell_of row.
Proof.
  intros H. assert (Hp : forallb csv_plain (map show_wcell row) = true).
  { rewrite forallb_forall in *. intros f Hf. apply in_map_iff in Hf as (w & <- & Hw). apply wcell_ok_plain. now apply H. }
  unfold csv_write_row at 1. rewrite Hp. eexists. split; [reflexivity|].
  erewrite csv_roundtrip by (unfold csv_write_row; now rewrite Hp).
  destruct row as [|w r]; [reflexivity|].
  unfold read_row. cbn [map]. rewrite map_map.
  change (read_cell (show_wcell w) :: map (fun x => read_cell (show_wcell x)) r)
    with (map (fun x => read_cell (show_wcell x)) (w :: r)).
  change (cell_of w :: map cell_of r) with (map cell_of (w :: r)).
  apply map_ext_in. intros x Hx. apply read_wcell. rewrite forallb_forall in H. now apply H.
Qed.

Theorem file_roundtrip P rows :
  1 <= P -> forallb (forallb wcell_ok) rows = true ->
  exists lines, write_file rows = Some lines /\ load_subs P lines = map (map cell_of) rows.
Proof.
  intros HP H.
  assert (E : exists lines, write_file rows = Some lines /\
               map (fun l => read_row (csv_read_row l)) lines = map (map cell_of) rows).
  { unfold write_file. induction rows as [|row rows IH].
    - exists []. split; reflexivity.
    - cbn in H. apply andb_true_iff in H as [H1 H2].
      destruct (IH H2) as (lines & E1 & E2). destruct (read_written_row row H1) as (line & L1 & L2).
      exists (line :: lines). cbn [map opt_all]. rewrite L1, E1. split; [reflexivity|]. cbn [map]. now rewrite L2, E2. }
  destruct E as (lines & E1 & E2). exists lines. split; [assumption|].
  rewrite rows_preserved by assumption. exact E2.
Qed.
