(* C02 / C01: the function generated from generator.node_to_string (Gen/GenNodeStr.v, regenerated on every run), applied to the
   parent/left/right arrays that check_tree returns for a shape (Model/Shapes.arr, C01_check_tree_arrays) and a label list,
   returns -- without raising, for every shape and every label list -- the rendering of the labelled tree that Model/NodeStr.v
   defines structurally; hence (C02_node_to_string_readable) the string determines the tree. *)
From Coq Require Import String List Arith Bool Lia.
From ESRV Require Import Model.Shapes Model.NodeStr Gen.GenNodeStr Proofs.ShapesProofs.
Import ListNotations.
Open Scope string_scope.
Open Scope list_scope.

(* the labelled tree: node number k (prefix order, starting at off) carries label L[k] *)
Fixpoint lab (u : tree) (L : list string) (off : nat) : lt :=
  match u with
  | Shapes.L => T0 (nth off L "")
  | U c => T1 (nth off L "") (lab c L (S off))
  | B l r => T2 (nth off L "") (lab l L (S off)) (lab r L (S (off + Shapes.size l)))
  end.

Lemma sapp_assoc : forall a b c : string, ((a ++ b) ++ c = a ++ (b ++ c))%string.
Proof. induction a as [|ch a IH]; intros b c; cbn; [reflexivity | now rewrite IH]. Qed.

Lemma sapp_nil_r : forall a : string, (a ++ "" = a)%string.
Proof. induction a as [|ch a IH]; cbn; [reflexivity | now rewrite IH]. Qed.

Lemma render_app : forall a b, render (a ++ b) = (render a ++ render b)%string.
Proof.
  induction a as [|k a IH]; intros b; cbn [app render fold_right]; [reflexivity|].
  fold (render (a ++ b)). fold (render a). rewrite IH. now rewrite sapp_assoc.
Qed.

Lemma render_cons : forall k a, render (k :: a) = (tok_text k ++ render a)%string.
Proof. reflexivity. Qed.

Lemma str_in_infix : forall l, str_in l ["*"; "/"; "-"; "+"] = is_infix l.
Proof.
  intros l. unfold str_in, is_infix. cbn [existsb].
  destruct (string_dec l "*") as [->|H1]; [reflexivity|].
  destruct (String.eqb_spec l "*") as [E|_]; [contradiction|].
  destruct (string_dec l "/") as [->|H2]; [reflexivity|].
  destruct (String.eqb_spec l "/") as [E|_]; [contradiction|].
  destruct (string_dec l "-") as [->|H3]; [reflexivity|].
  destruct (String.eqb_spec l "-") as [E|_]; [contradiction|].
  destruct (string_dec l "+") as [->|H4]; [reflexivity|].
  destruct (String.eqb_spec l "+") as [E|_]; [contradiction|]. reflexivity.
Qed.

Lemma nth_error_mid_app : forall (A : Type) (pre : list A) x suf, nth_error (pre ++ x :: suf) (length pre) = Some x.
Proof. intros. rewrite nth_error_app2 by lia. now rewrite Nat.sub_diag. Qed.

Lemma nth_error_mid_off : forall (A : Type) (pre : list A) x suf off, length pre = off -> nth_error (pre ++ x :: suf) off = Some x.
Proof. intros. subst. apply nth_error_mid_app. Qed.

Lemma nth_error_nth_str : forall (L : list string) k, k < length L -> nth_error L k = Some (nth k L "").
Proof. intros L k H. now apply nth_error_nth'. Qed.

Theorem gen_node_to_string_arr : forall u off p pre suf L fuel,
  length pre = off -> off + Shapes.size u <= length L -> Shapes.size u <= fuel ->
  GenNodeStr.node_to_string fuel (Some off) (pre ++ arr u off p ++ suf) L
  = Some (Some (NodeStr.node_to_string (lab u L off))).
Proof.
  induction u as [|c IHc|l IHl r IHr]; intros off p pre suf L fuel Hpre HL Hf;
    (destruct fuel as [|fuel]; [cbn [Shapes.size] in Hf; lia|]); cbn [Shapes.size] in HL, Hf.
  - (* leaf *)
    cbn [arr GenNodeStr.node_to_string app].
    replace (Nat.eqb (List.length (pre ++ mkNode 0 p None None :: suf)) 0) with false
      by (symmetry; apply Nat.eqb_neq; rewrite app_length; cbn; lia).
    unfold getn. rewrite (nth_error_mid_off _ _ _ _ _ Hpre). cbn [bindo ty Nat.eqb].
    rewrite nth_error_nth_str by lia. cbn [bindo lab].
    unfold NodeStr.node_to_string. cbn [nts render fold_right tok_text]. now rewrite sapp_nil_r.
  - (* unary *)
    cbn [arr GenNodeStr.node_to_string app].
    replace (Nat.eqb (List.length (pre ++ mkNode 1 p (Some (S off)) None :: arr c (S off) (Some off) ++ suf)) 0) with false
      by (symmetry; apply Nat.eqb_neq; rewrite app_length; cbn; lia).
    unfold getn. rewrite !(nth_error_mid_off _ _ _ _ _ Hpre). cbn [bindo ty lft Nat.eqb].
    rewrite nth_error_nth_str by lia. cbn [bindo].
    replace (pre ++ mkNode 1 p (Some (S off)) None :: arr c (S off) (Some off) ++ suf)
      with ((pre ++ [mkNode 1 p (Some (S off)) None]) ++ arr c (S off) (Some off) ++ suf)
      by (rewrite <- app_assoc; reflexivity).
    rewrite IHc by (try (rewrite app_length; cbn [length]); lia). cbn [bindo lab].
    unfold NodeStr.node_to_string. cbn [nts]. rewrite !render_cons, render_app. cbn [tok_text render fold_right].
    repeat rewrite sapp_assoc. rewrite ?sapp_nil_r. reflexivity.
  - (* binary *)
    cbn [arr GenNodeStr.node_to_string app].
    set (nd := mkNode 2 p (Some (S off)) (Some (S (off + Shapes.size l)))).
    set (AL := arr l (S off) (Some off)). set (AR := arr r (S (off + Shapes.size l)) (Some off)).
    replace (Nat.eqb (List.length (pre ++ nd :: (AL ++ AR) ++ suf)) 0) with false
      by (symmetry; apply Nat.eqb_neq; rewrite app_length; cbn; lia).
    unfold getn. rewrite !(nth_error_mid_off _ _ _ _ _ Hpre). cbn [bindo]. unfold nd at 1 2 3 4 5 6 7. cbn [ty lft rgt Nat.eqb].
    rewrite !nth_error_nth_str by lia. cbn [bindo].
    assert (EL : forall fuel', Shapes.size l <= fuel' ->
              GenNodeStr.node_to_string fuel' (Some (S off)) (pre ++ nd :: (AL ++ AR) ++ suf) L
              = Some (Some (NodeStr.node_to_string (lab l L (S off))))).
    { intros f' Hf'. replace (pre ++ nd :: (AL ++ AR) ++ suf) with ((pre ++ [nd]) ++ AL ++ (AR ++ suf))
        by (rewrite <- !app_assoc; reflexivity).
      apply IHl; try (rewrite app_length; cbn [length]); lia. }
    assert (ER : forall fuel', Shapes.size r <= fuel' ->
              GenNodeStr.node_to_string fuel' (Some (S (off + Shapes.size l))) (pre ++ nd :: (AL ++ AR) ++ suf) L
              = Some (Some (NodeStr.node_to_string (lab r L (S (off + Shapes.size l)))))).
    { intros f' Hf'. replace (pre ++ nd :: (AL ++ AR) ++ suf) with ((pre ++ nd :: AL) ++ AR ++ suf)
        by (rewrite <- !app_assoc; reflexivity).
      apply IHr; try (rewrite app_length; cbn [length]; unfold AL; rewrite arr_length); lia. }
    rewrite str_in_infix. destruct (is_infix (nth off L "")) eqn:Hinf.
    + rewrite EL, ER by lia. cbn [bindo lab].
      unfold NodeStr.node_to_string. cbn [nts]. rewrite Hinf.
      rewrite !render_cons, !render_app, !render_cons, !render_app. cbn [tok_text render fold_right].
      repeat rewrite sapp_assoc. reflexivity.
    + rewrite EL, ER by lia. cbn [bindo lab].
      unfold NodeStr.node_to_string. cbn [nts]. rewrite Hinf.
      rewrite !render_cons, !render_app, !render_cons, !render_app. cbn [tok_text render fold_right].
      repeat rewrite sapp_assoc. reflexivity.
Qed.

(* the statement for a whole tree: the arrays check_tree returns for the shape, any label list of the right length *)
Theorem gen_node_to_string_tree : forall u L fuel,
  Shapes.size u <= length L -> Shapes.size u <= fuel ->
  GenNodeStr.node_to_string fuel (Some 0) (arr u 0 None) L = Some (Some (NodeStr.node_to_string (lab u L 0))).
Proof.
  intros u L fuel HL Hf. pose proof (gen_node_to_string_arr u 0 None [] [] L fuel eq_refl HL Hf) as H.
  cbn [app] in H. now rewrite app_nil_r in H.
Qed.

(* the empty tree (complexity 0): the code returns the string "0" *)
Theorem gen_node_to_string_empty : forall idx L fuel, GenNodeStr.node_to_string (S fuel) idx [] L = Some (Some "0").
Proof. reflexivity. Qed.

(* end to end with check_tree (C01): for every shape with at least two nodes, the arrays returned by check_tree on its prefix code,
   handed to the generated node_to_string with any label list of the right length, give the structural rendering *)
Theorem check_tree_then_node_to_string : forall u L tr,
  2 <= Shapes.size u -> Shapes.size u <= length L ->
  check_tree (pre u) = Ok (true, Some (pre u), tr) ->
  GenNodeStr.node_to_string (Shapes.size u) (Some 0) tr L = Some (Some (NodeStr.node_to_string (lab u L 0))).
Proof.
  intros u L tr H2 HL Hc. rewrite (check_tree_arrays u H2) in Hc. injection Hc as <-.
  apply gen_node_to_string_tree; [exact HL | apply le_n].
Qed.
