(* C09 -- proofs about the generated likelihood terms (Gen/GenLikelihood.v) over the
   numpy/extended-real model (Model/XR.v) instantiated at Coq's real numbers. *)
From Coq Require Import Reals QArith Qreals List Bool Lra Lia.
From ESRV Require Import Model.XR Gen.GenLikelihood.
Import ListNotations.
Open Scope R_scope.

Notation xr := (XR RNum).
Notation fin := (@Fin RNum).

(* ------------------------------------------------------------------ signs over R *)
Lemma n0_R : @n0 RNum = 0.
Proof. unfold n0; simpl; unfold Q2R; simpl; lra. Qed.

Lemma sgn_pos : forall r : R, 0 < r -> @sgn RNum r = Gt.
Proof.
  intros r H. unfold sgn. rewrite n0_R. simpl. unfold Rltb, Reqb.
  destruct (Rlt_dec r 0); [lra|]. destruct (Req_EM_T r 0); [lra|reflexivity].
Qed.
Lemma sgn_neg : forall r : R, r < 0 -> @sgn RNum r = Lt.
Proof.
  intros r H. unfold sgn. rewrite n0_R. simpl. unfold Rltb.
  destruct (Rlt_dec r 0); [reflexivity|lra].
Qed.
Lemma sgn_zero : @sgn RNum 0 = Eq.
Proof.
  unfold sgn. rewrite n0_R. simpl. unfold Rltb, Reqb.
  destruct (Rlt_dec 0 0); [lra|]. destruct (Req_EM_T 0 0); [reflexivity|lra].
Qed.
Lemma sgn_cases : forall r : R,
  (r < 0 /\ @sgn RNum r = Lt) \/ (r = 0 /\ @sgn RNum r = Eq) \/ (0 < r /\ @sgn RNum r = Gt).
Proof.
  intros r. destruct (Rtotal_order r 0) as [H|[H|H]].
  - left. split; [exact H|apply sgn_neg; exact H].
  - right; left. subst. split; [reflexivity|apply sgn_zero].
  - right; right. split; [lra|apply sgn_pos; lra].
Qed.

Lemma half_R : Q2R (1 # 2) = / 2.
Proof. unfold Q2R; simpl; lra. Qed.
Lemma two_R : Q2R (2 # 1) = 2.
Proof. unfold Q2R; simpl; lra. Qed.
Lemma one_R : Q2R (1 # 1) = 1.
Proof. unfold Q2R; simpl; lra. Qed.
Lemma zero_R : Q2R (0 # 1) = 0.
Proof. unfold Q2R; simpl; lra. Qed.

(* ------------------------------------------------------------------ lists *)
Lemma forallb_id_map : forall {X} (f : X -> bool) (l : list X),
  forallb (fun b => b) (map f l) = forallb f l.
Proof. induction l as [|x l IH]; simpl; [reflexivity|rewrite IH; reflexivity]. Qed.

Lemma zipw_map : forall {X A B C} (f : A -> B -> C) (g : X -> A) (h : X -> B) (d : list X),
  zipw f (map g d) (map h d) = map (fun t => f (g t) (h t)) d.
Proof. induction d as [|t d IH]; simpl; [reflexivity|rewrite IH; reflexivity]. Qed.

Lemma bcast_map : forall {X A B C} (f : A -> B -> C) (g : X -> A) (h : X -> B) (d : list X),
  bcast f (map g d) (map h d) = Some (map (fun t => f (g t) (h t)) d).
Proof.
  intros. unfold bcast. rewrite !map_length, Nat.eqb_refl, zipw_map. reflexivity.
Qed.

Section Lift.
Context {X : Type}.
Variable N : Num.
Lemma lift2_AA : forall (f : XR N -> XR N -> XR N) (g h : X -> XR N) (d : list X),
  lift2 f (NA (map g d)) (NA (map h d)) = NA (map (fun t => f (g t) (h t)) d).
Proof. intros. unfold lift2. rewrite bcast_map. reflexivity. Qed.
Lemma lift2_SA : forall (f : XR N -> XR N -> XR N) (c : XR N) (h : X -> XR N) (d : list X),
  lift2 f (NS c) (NA (map h d)) = NA (map (fun t => f c (h t)) d).
Proof. intros. unfold lift2. rewrite map_map. reflexivity. Qed.
Lemma lift2_AS : forall (f : XR N -> XR N -> XR N) (g : X -> XR N) (c : XR N) (d : list X),
  lift2 f (NA (map g d)) (NS c) = NA (map (fun t => f (g t) c) d).
Proof. intros. unfold lift2. rewrite map_map. reflexivity. Qed.
Lemma lift1_A : forall (f : XR N -> XR N) (g : X -> XR N) (d : list X),
  lift1 f (NA (map g d)) = NA (map (fun t => f (g t)) d).
Proof. intros. unfold lift1. rewrite map_map. reflexivity. Qed.
End Lift.

(* three lists of equal length are the columns of one list of rows *)
Lemma rows3 : forall {A B C} (l1 : list A) (l2 : list B) (l3 : list C),
  length l2 = length l1 -> length l3 = length l1 ->
  exists d : list (A * B * C),
    l1 = map (fun t => fst (fst t)) d /\ l2 = map (fun t => snd (fst t)) d /\ l3 = map (fun t => snd t) d.
Proof.
  induction l1 as [|a l1 IH]; intros l2 l3 H2 H3.
  - destruct l2; [|discriminate]. destruct l3; [|discriminate]. exists []. auto.
  - destruct l2 as [|b l2]; [discriminate|]. destruct l3 as [|c l3]; [discriminate|].
    simpl in H2, H3. injection H2 as H2. injection H3 as H3.
    destruct (IH l2 l3 H2 H3) as [d [E1 [E2 E3]]].
    exists ((a, b, c) :: d). simpl. rewrite <- E1, <- E2, <- E3. auto.
Qed.
Lemma rows2 : forall {A B} (l1 : list A) (l2 : list B),
  length l2 = length l1 ->
  exists d : list (A * B), l1 = map fst d /\ l2 = map snd d.
Proof.
  induction l1 as [|a l1 IH]; intros l2 H2.
  - destruct l2; [|discriminate]. exists []. auto.
  - destruct l2 as [|b l2]; [discriminate|]. simpl in H2. injection H2 as H2.
    destruct (IH l2 H2) as [d [E1 E2]]. exists ((a, b) :: d). simpl. rewrite <- E1, <- E2. auto.
Qed.

(* ------------------------------------------------------------------ the documented sums *)
Fixpoint sum3 (g : R -> R -> R -> R) (ys ss fs : list R) : R :=
  match ys, ss, fs with
  | y :: ys', s :: ss', f :: fs' => g y s f + sum3 g ys' ss' fs'
  | _, _, _ => 0
  end.
Fixpoint sum2 (g : R -> R -> R) (ys fs : list R) : R :=
  match ys, fs with
  | y :: ys', f :: fs' => g y f + sum2 g ys' fs'
  | _, _ => 0
  end.
Definition rsum {X} (g : X -> R) (d : list X) : R := fold_right (fun t acc => g t + acc) 0 d.

Lemma sum3_rows : forall {X} g (y s f : X -> R) (d : list X),
  sum3 g (map y d) (map s d) (map f d) = rsum (fun t => g (y t) (s t) (f t)) d.
Proof. induction d as [|t d IH]; simpl; [reflexivity|rewrite IH; reflexivity]. Qed.
Lemma sum2_rows : forall {X} g (y f : X -> R) (d : list X),
  sum2 g (map y d) (map f d) = rsum (fun t => g (y t) (f t)) d.
Proof. induction d as [|t d IH]; simpl; [reflexivity|rewrite IH; reflexivity]. Qed.

(* (y-f)^2/(2 sigma^2) + ln(2 pi)/2 + ln sigma *)
Definition gauss_term (y s f : R) : R := (y - f) * (y - f) / (2 * (s * s)) + ln (2 * PI) / 2 + ln s.
(* f - y ln f *)
Definition poisson_term (y f : R) : R := f - y * ln f.
(* (sqrt f - y)^2/(2 sigma^2) *)
Definition cc_term (y s f : R) : R := (sqrt f - y) * (sqrt f - y) / (2 * (s * s)).
(* (y - f)^2 *)
Definition mse_term (y f : R) : R := (y - f) * (y - f).

(* ------------------------------------------------------------------ sums of extended reals *)
Definition okc (x : xr) : Prop := match x with Fin _ | PInf | NaN => True | _ => False end.
Definition badc (x : xr) : Prop := x = PInf \/ x = NaN.

Lemma xsum_fin : forall {X} (K : X -> xr) (g : X -> R) (d : list X),
  (forall t, In t d -> K t = fin (g t)) -> xsum (map K d) = fin (rsum g d).
Proof.
  induction d as [|t d IH]; intros H.
  - unfold xsum, rsum; cbn [fold_right map]. rewrite n0_R. reflexivity.
  - unfold xsum in *. cbn [fold_right map]. rewrite IH by (intros; apply H; right; assumption).
    rewrite (H t) by (left; reflexivity). reflexivity.
Qed.

Lemma xsum_okc : forall l : list xr, Forall okc l -> okc (xsum l).
Proof.
  induction l as [|x l IH]; intros H.
  - exact I.
  - inversion H as [|? ? Hx Hl]; subst. specialize (IH Hl). unfold xsum in *. cbn [fold_right].
    destruct x; try contradiction; destruct (fold_right xadd (Fin n0) l); try contradiction; exact I.
Qed.

Lemma xsum_bad : forall l : list xr, Forall okc l -> Exists badc l -> badc (xsum l).
Proof.
  induction l as [|x l IH]; intros H E.
  - inversion E.
  - inversion H as [|? ? Hx Hl]; subst. pose proof (xsum_okc l Hl) as Ho.
    unfold xsum in *. cbn [fold_right].
    inversion E as [? ? Hb|? ? Hb]; subst.
    + destruct Hb as [Hb|Hb]; subst; destruct (fold_right xadd (Fin n0) l); try contradiction;
        unfold badc; simpl; auto.
    + specialize (IH Hl Hb). destruct IH as [IH|IH]; rewrite IH;
        destruct x; try contradiction; unfold badc; simpl; auto.
Qed.

(* what every translated method does with its accumulated value *)
Definition guarded (ok : bool) (s : xr) : res RNum :=
  if ok then (if xisnan s then Ret (NS PInf) else Ret (NS s)) else Ret (NS PInf).

Lemma guarded_bad : forall ok s, badc s -> guarded ok s = Ret (NS PInf).
Proof. intros ok s [H|H]; subst; destruct ok; reflexivity. Qed.
Lemma guarded_fin : forall r, guarded true (fin r) = Ret (NS (fin r)).
Proof. reflexivity. Qed.

(* ------------------------------------------------------------------ unfolding the generated terms *)
Lemma lift2_SS : forall N (f : XR N -> XR N -> XR N) x y, lift2 f (NS x) (NS y) = NS (f x y).
Proof. reflexivity. Qed.
Lemma lift1_S : forall N (f : XR N -> XR N) x, lift1 f (NS x) = NS (f x).
Proof. reflexivity. Qed.

Ltac lifts :=
  unfold np_add, np_sub, np_mul, np_div, np_square, np_sqrt, np_log, lit, np_pi, np_inf;
  repeat (rewrite lift2_AA || rewrite lift2_SA || rewrite lift2_AS || rewrite lift1_A
          || rewrite lift2_SS || rewrite lift1_S).

(* the common tail:  nll = <value>; if np.isnan(nll): return np.inf; return nll *)
Lemma tail_guarded : forall (ok : bool) (s : xr),
  py_if (py_not (BS ok)) (py_return (NS PInf))
    (py_let (NS s) (fun nll => py_if (np_isnan nll) (py_return (NS PInf)) (py_return nll)))
  = guarded ok s.
Proof. intros [|] s; [destruct s|]; reflexivity. Qed.

Definition half : xr := fin (Q2R (1 # 2)).
Definition gaussC : xr := xmul half (xlog (xmul (fin (Q2R (2 # 1))) (fin PI))).
Definition gaussK (y s : R) (p : xr) : xr :=
  xadd (xadd (xdiv (xmul half (xsq (xsub p (fin y)))) (xsq (fin s))) gaussC) (xlog (fin s)).

Lemma gauss_shape_vec : forall (A : Type) (a : A) eqn xvar {X} (Y S : X -> R) (P : X -> xr) (d : list X),
  eqn xvar a = NA (map P d) ->
  GaussLikelihood_negloglike RNum A xvar (NA (map (fun t => fin (Y t)) d)) (NA (map (fun t => fin (S t)) d)) a eqn
  = guarded (forallb xisreal (map P d)) (xsum (map (fun t => gaussK (Y t) (S t) (P t)) d)).
Proof.
  intros A a eqn xvar X Y S P d H.
  unfold GaussLikelihood_negloglike, Likelihood_get_pred, np_atleast_1d. rewrite H.
  cbn [py_try py_let np_inf]. lifts.
  cbn [np_sum np_isreal np_all]. rewrite forallb_id_map.
  apply tail_guarded.
Qed.

Lemma gauss_shape_scalar : forall (A : Type) (a : A) eqn xvar {X} (Y S : X -> R) (p : xr) (d : list X),
  eqn xvar a = NS p ->
  GaussLikelihood_negloglike RNum A xvar (NA (map (fun t => fin (Y t)) d)) (NA (map (fun t => fin (S t)) d)) a eqn
  = guarded (xisreal p) (xsum (map (fun t => gaussK (Y t) (S t) p) d)).
Proof.
  intros A a eqn xvar X Y S p d H.
  unfold GaussLikelihood_negloglike, Likelihood_get_pred, np_atleast_1d. rewrite H.
  cbn [py_try py_let np_inf]. lifts.
  cbn [np_sum np_isreal np_all].
  apply tail_guarded.
Qed.

(* an exception in the model function: base-class get_pred turns it into the scalar +inf *)
Lemma gauss_shape_exc : forall (A : Type) (a : A) eqn xvar {X} (Y S : X -> R) (d : list X),
  eqn xvar a = NErr ->
  GaussLikelihood_negloglike RNum A xvar (NA (map (fun t => fin (Y t)) d)) (NA (map (fun t => fin (S t)) d)) a eqn
  = guarded true (xsum (map (fun t => gaussK (Y t) (S t) PInf) d)).
Proof.
  intros A a eqn xvar X Y S d H.
  unfold GaussLikelihood_negloglike, Likelihood_get_pred, np_atleast_1d. rewrite H.
  cbn [py_try py_let np_inf]. lifts.
  cbn [np_sum np_isreal np_all].
  apply (tail_guarded true).
Qed.

Lemma gaussC_fin : gaussC = fin (ln (2 * PI) / 2).
Proof.
  unfold gaussC, half. cbn [xmul]. cbn [nmul RNum]. unfold xlog.
  rewrite sgn_pos by (rewrite two_R; generalize PI_RGT_0; lra).
  cbn [xmul nmul nln RNum]. rewrite half_R, two_R. f_equal. lra.
Qed.

Lemma gaussK_fin : forall y s f, 0 < s -> gaussK y s (fin f) = fin (gauss_term y s f).
Proof.
  intros y s f Hs. unfold gaussK. rewrite gaussC_fin. unfold half, xsq.
  cbn [xsub xmul nsub nmul RNum]. unfold xdiv.
  rewrite (sgn_pos (s * s)) by nra. unfold xlog. rewrite (sgn_pos s Hs).
  cbn [xadd nadd ndiv nln RNum]. rewrite half_R. unfold gauss_term. f_equal. field. lra.
Qed.

Lemma gaussK_okc : forall y s p, 0 < s -> xisreal p = true -> okc (gaussK y s p).
Proof.
  intros y s p Hs Hr. destruct p as [f| | | |]; try discriminate.
  - rewrite gaussK_fin by assumption. exact I.
  - unfold gaussK. rewrite gaussC_fin. unfold half, xsq. cbn [xsub xmul]. rewrite sgn_pos by (rewrite half_R; lra).
    cbn [inf_times xmul nmul RNum]. unfold xdiv. rewrite (sgn_pos (s * s)) by nra. unfold xlog. rewrite (sgn_pos s Hs).
    exact I.
  - unfold gaussK. rewrite gaussC_fin. unfold half, xsq. cbn [xsub xmul]. rewrite sgn_pos by (rewrite half_R; lra).
    cbn [inf_times xmul nmul RNum]. unfold xdiv. rewrite (sgn_pos (s * s)) by nra. unfold xlog. rewrite (sgn_pos s Hs).
    exact I.
  - unfold gaussK. rewrite gaussC_fin. unfold xsq. cbn [xsub xmul]. unfold half, xlog. rewrite (sgn_pos s Hs). exact I.
Qed.

Definition special (p : xr) : Prop := match p with Fin _ => False | _ => True end.

Lemma gaussK_bad : forall y s p, 0 < s -> xisreal p = true -> special p -> badc (gaussK y s p).
Proof.
  intros y s p Hs Hr Hsp. destruct p as [f| | | |]; try discriminate; try contradiction.
  - unfold gaussK. rewrite gaussC_fin. unfold half, xsq. cbn [xsub xmul]. rewrite sgn_pos by (rewrite half_R; lra).
    cbn [inf_times xmul nmul RNum]. unfold xdiv. rewrite (sgn_pos (s * s)) by nra. unfold xlog. rewrite (sgn_pos s Hs).
    left; reflexivity.
  - unfold gaussK. rewrite gaussC_fin. unfold half, xsq. cbn [xsub xmul]. rewrite sgn_pos by (rewrite half_R; lra).
    cbn [inf_times xmul nmul RNum]. unfold xdiv. rewrite (sgn_pos (s * s)) by nra. unfold xlog. rewrite (sgn_pos s Hs).
    left; reflexivity.
  - unfold gaussK. rewrite gaussC_fin. unfold xsq. cbn [xsub xmul]. unfold half, xlog. rewrite (sgn_pos s Hs). right; reflexivity.
Qed.

(* ------------------------------------------------------------------ generic closing lemmas *)
Lemma forallb_map_In : forall {X Y} (f : Y -> bool) (P : X -> Y) (d : list X),
  forallb f (map P d) = true -> forall t, In t d -> f (P t) = true.
Proof.
  intros X Y f P d H t Ht. rewrite forallb_forall in H. apply H. apply in_map. exact Ht.
Qed.
Lemma Forall_map_intro : forall {X Y} (Q : Y -> Prop) (K : X -> Y) (d : list X),
  (forall t, In t d -> Q (K t)) -> Forall Q (map K d).
Proof.
  intros X Y Q K d H. apply Forall_forall. intros y Hy. apply in_map_iff in Hy.
  destruct Hy as [t [E Ht]]. subst. apply H. exact Ht.
Qed.
Lemma Exists_map_elim : forall {X Y} (Q : Y -> Prop) (P : X -> Y) (d : list X),
  Exists Q (map P d) -> exists t, In t d /\ Q (P t).
Proof.
  intros X Y Q P d H. apply Exists_exists in H. destruct H as [y [Hy Q']]. apply in_map_iff in Hy.
  destruct Hy as [t [E Ht]]. subst. exists t. auto.
Qed.
Lemma Exists_map_intro : forall {X Y} (Q : Y -> Prop) (K : X -> Y) (d : list X) t,
  In t d -> Q (K t) -> Exists Q (map K d).
Proof.
  intros X Y Q K d t Ht HQ. apply Exists_exists. exists (K t). split; [apply in_map; exact Ht|exact HQ].
Qed.

Lemma guarded_sum_fin : forall {X} (K : X -> xr) (g : X -> R) (d : list X),
  (forall t, In t d -> K t = fin (g t)) ->
  guarded true (xsum (map K d)) = Ret (NS (fin (rsum g d))).
Proof. intros X K g d H. rewrite (xsum_fin K g d H). reflexivity. Qed.

Lemma guarded_sum_bad : forall {X} (K : X -> xr) (d : list X) (ok : bool),
  (ok = true -> forall t, In t d -> okc (K t)) ->
  (ok = true -> exists t, In t d /\ badc (K t)) ->
  guarded ok (xsum (map K d)) = Ret (NS PInf).
Proof.
  intros X K d [|] H1 H2; [|reflexivity].
  apply guarded_bad. apply xsum_bad.
  - apply Forall_map_intro. apply H1. reflexivity.
  - destruct (H2 eq_refl) as [t [Ht Hb]]. eapply Exists_map_intro; eauto.
Qed.

Lemma forallb_isreal_fin : forall {X} (F : X -> R) (d : list X), forallb xisreal (map (fun t => fin (F t)) d) = true.
Proof. induction d as [|t d IH]; simpl; auto. Qed.

Lemma special_not_real_or : forall p : xr, special p -> xisreal p = true -> p = PInf \/ p = NInf \/ p = NaN.
Proof. intros [f| | | |] H1 H2; try contradiction; try discriminate; auto. Qed.

(* ------------------------------------------------------------------ Gauss *)
Theorem gauss_formula : forall (A : Type) (a : A) (eqn : nv RNum -> A -> nv RNum) (xvar : nv RNum) (ys ss fs : list R),
  length ss = length ys -> length fs = length ys -> (forall s, In s ss -> 0 < s) ->
  eqn xvar a = NA (map fin fs) ->
  GaussLikelihood_negloglike RNum A xvar (NA (map fin ys)) (NA (map fin ss)) a eqn
  = Ret (NS (fin (sum3 gauss_term ys ss fs))).
Proof.
  intros A a eqn xvar ys ss fs L1 L2 Hs H.
  destruct (rows3 ys ss fs L1 L2) as [d [E1 [E2 E3]]]. subst ys ss fs.
  rewrite !map_map in *.
  rewrite (@gauss_shape_vec A a eqn xvar (R * R * R)%type (fun t => fst (fst t)) (fun t => snd (fst t)) (fun t => fin (snd t)) d H).
  rewrite forallb_isreal_fin. rewrite sum3_rows.
  apply guarded_sum_fin. intros t Ht. apply gaussK_fin. apply Hs. apply in_map_iff. exists t. auto.
Qed.

Theorem gauss_formula_scalar : forall (A : Type) (a : A) (eqn : nv RNum -> A -> nv RNum) (xvar : nv RNum) (ys ss : list R) (c : R),
  length ss = length ys -> (forall s, In s ss -> 0 < s) ->
  eqn xvar a = NS (fin c) ->
  GaussLikelihood_negloglike RNum A xvar (NA (map fin ys)) (NA (map fin ss)) a eqn
  = Ret (NS (fin (sum3 gauss_term ys ss (map (fun _ => c) ys)))).
Proof.
  intros A a eqn xvar ys ss c L1 Hs H.
  destruct (rows2 ys ss L1) as [d [E1 E2]]. subst ys ss.
  rewrite !map_map in *.
  rewrite (gauss_shape_scalar A a eqn xvar fst snd (fin c) d H).
  rewrite (sum3_rows gauss_term fst snd (fun _ => c) d).
  apply guarded_sum_fin. intros t Ht. apply gaussK_fin. apply Hs. apply in_map_iff. exists t. auto.
Qed.

Theorem never_nan_gauss : forall (A : Type) (a : A) (eqn : nv RNum -> A -> nv RNum) (xvar : nv RNum) (ys ss : list R) (l : list xr),
  length ss = length ys -> length l = length ys -> (forall s, In s ss -> 0 < s) ->
  eqn xvar a = NA l -> Exists special l ->
  GaussLikelihood_negloglike RNum A xvar (NA (map fin ys)) (NA (map fin ss)) a eqn = Ret (NS PInf).
Proof.
  intros A a eqn xvar ys ss l L1 L2 Hs H Hsp.
  destruct (rows3 ys ss l L1 L2) as [d [E1 [E2 E3]]]. subst ys ss l.
  rewrite !map_map in *.
  rewrite (gauss_shape_vec A a eqn xvar (fun t => fst (fst t)) (fun t => snd (fst t)) snd d H).
  apply guarded_sum_bad.
  - intros Hr t Ht. apply gaussK_okc.
    + apply Hs. apply in_map_iff. exists t. auto.
    + apply (forallb_map_In xisreal snd d Hr t Ht).
  - intros Hr. apply Exists_map_elim in Hsp. destruct Hsp as [t [Ht Hq]]. exists t. split; [exact Ht|].
    apply gaussK_bad; [apply Hs; apply in_map_iff; exists t; auto| apply (forallb_map_In xisreal snd d Hr t Ht) | exact Hq].
Qed.

Theorem never_nan_gauss_scalar : forall (A : Type) (a : A) (eqn : nv RNum -> A -> nv RNum) (xvar : nv RNum) (ys ss : list R) (p : xr),
  length ss = length ys -> ys <> [] -> (forall s, In s ss -> 0 < s) ->
  eqn xvar a = NS p -> special p ->
  GaussLikelihood_negloglike RNum A xvar (NA (map fin ys)) (NA (map fin ss)) a eqn = Ret (NS PInf).
Proof.
  intros A a eqn xvar ys ss p L1 Hne Hs H Hsp.
  destruct (rows2 ys ss L1) as [d [E1 E2]]. subst ys ss.
  rewrite !map_map in *.
  rewrite (gauss_shape_scalar A a eqn xvar fst snd p d H).
  destruct d as [|t0 d]; [exfalso; apply Hne; reflexivity|].
  apply guarded_sum_bad.
  - intros Hr t Ht. apply gaussK_okc; [apply Hs; apply in_map_iff; exists t; auto|exact Hr].
  - intros Hr. exists t0. split; [left; reflexivity|].
    apply gaussK_bad; [apply Hs; left; reflexivity|exact Hr|exact Hsp].
Qed.

Theorem gauss_exception : forall (A : Type) (a : A) (eqn : nv RNum -> A -> nv RNum) (xvar : nv RNum) (ys ss : list R),
  length ss = length ys -> ys <> [] -> (forall s, In s ss -> 0 < s) ->
  eqn xvar a = NErr ->
  GaussLikelihood_negloglike RNum A xvar (NA (map fin ys)) (NA (map fin ss)) a eqn = Ret (NS PInf).
Proof.
  intros A a eqn xvar ys ss L1 Hne Hs H.
  destruct (rows2 ys ss L1) as [d [E1 E2]]. subst ys ss.
  rewrite !map_map in *.
  rewrite (gauss_shape_exc A a eqn xvar fst snd d H).
  destruct d as [|t0 d]; [exfalso; apply Hne; reflexivity|].
  apply guarded_sum_bad.
  - intros _ t Ht. apply gaussK_okc; [apply Hs; apply in_map_iff; exists t; auto|reflexivity].
  - intros _. exists t0. split; [left; reflexivity|].
    apply gaussK_bad; [apply Hs; left; reflexivity|reflexivity|exact I].
Qed.

(* ------------------------------------------------------------------ MSE *)
Definition mseK (y : R) (p : xr) : xr := xsq (xsub p (fin y)).

Lemma mse_shape_vec : forall (A : Type) (a : A) eqn xvar {X} (Y : X -> R) (P : X -> xr) (d : list X),
  eqn xvar a = NA (map P d) ->
  MSE_negloglike RNum A xvar (NA (map (fun t => fin (Y t)) d)) a eqn
  = guarded (forallb xisreal (map P d)) (xdiv (xsum (map (fun t => mseK (Y t) (P t)) d)) (fin (INR (length d)))).
Proof.
  intros A a eqn xvar X Y P d H.
  unfold MSE_negloglike, Likelihood_get_pred, np_atleast_1d. rewrite H.
  cbn [py_try py_let np_inf]. lifts.
  cbn [np_mean np_isreal np_all]. rewrite forallb_id_map, map_length.
  apply tail_guarded.
Qed.

Lemma mse_shape_scalar : forall (A : Type) (a : A) eqn xvar {X} (Y : X -> R) (p : xr) (d : list X),
  eqn xvar a = NS p ->
  MSE_negloglike RNum A xvar (NA (map (fun t => fin (Y t)) d)) a eqn
  = guarded (xisreal p) (xdiv (xsum (map (fun t => mseK (Y t) p) d)) (fin (INR (length d)))).
Proof.
  intros A a eqn xvar X Y p d H.
  unfold MSE_negloglike, Likelihood_get_pred, np_atleast_1d. rewrite H.
  cbn [py_try py_let np_inf]. lifts.
  cbn [np_mean np_isreal np_all]. rewrite map_length.
  apply tail_guarded.
Qed.

Lemma mse_shape_exc : forall (A : Type) (a : A) eqn xvar {X} (Y : X -> R) (d : list X),
  eqn xvar a = NErr ->
  MSE_negloglike RNum A xvar (NA (map (fun t => fin (Y t)) d)) a eqn
  = guarded true (xdiv (xsum (map (fun t => mseK (Y t) PInf) d)) (fin (INR (length d)))).
Proof.
  intros A a eqn xvar X Y d H.
  unfold MSE_negloglike, Likelihood_get_pred, np_atleast_1d. rewrite H.
  cbn [py_try py_let np_inf]. lifts.
  cbn [np_mean np_isreal np_all]. rewrite map_length.
  apply (tail_guarded true).
Qed.

Lemma INR_len_pos : forall {X} (d : list X), d <> [] -> 0 < INR (length d).
Proof. intros X [|t d] H; [contradiction H; reflexivity|]. apply lt_0_INR. simpl. lia. Qed.

Lemma mean_fin : forall (s n : R), 0 < n -> xdiv (fin s) (fin n) = fin (s / n).
Proof. intros s n Hn. unfold xdiv. rewrite (sgn_pos n Hn). reflexivity. Qed.
Lemma mean_bad : forall (s : xr) (n : R), 0 < n -> badc s -> badc (xdiv s (fin n)).
Proof.
  intros s n Hn [H|H]; subst; unfold xdiv; [rewrite (sgn_pos n Hn); left|right]; reflexivity.
Qed.

Lemma mseK_fin : forall y f, mseK y (fin f) = fin (mse_term y f).
Proof. intros. unfold mseK, xsq, mse_term. cbn [xsub xmul nsub nmul RNum]. f_equal. ring. Qed.
Lemma mseK_okc : forall y p, xisreal p = true -> okc (mseK y p).
Proof. intros y [f| | | |] H; try discriminate; exact I. Qed.
Lemma mseK_bad : forall y p, xisreal p = true -> special p -> badc (mseK y p).
Proof.
  intros y [f| | | |] H Hs; try discriminate; try contradiction; unfold mseK, xsq; cbn [xsub xmul];
    [left|left|right]; reflexivity.
Qed.

Lemma guarded_mean_bad : forall {X} (K : X -> xr) (d : list X) (ok : bool),
  d <> [] ->
  (ok = true -> forall t, In t d -> okc (K t)) ->
  (ok = true -> exists t, In t d /\ badc (K t)) ->
  guarded ok (xdiv (xsum (map K d)) (fin (INR (length d)))) = Ret (NS PInf).
Proof.
  intros X K d [|] Hne H1 H2; [|reflexivity].
  apply guarded_bad. apply mean_bad; [apply INR_len_pos; exact Hne|]. apply xsum_bad.
  - apply Forall_map_intro. apply H1. reflexivity.
  - destruct (H2 eq_refl) as [t [Ht Hb]]. eapply Exists_map_intro; eauto.
Qed.

Theorem mse_formula : forall (A : Type) (a : A) (eqn : nv RNum -> A -> nv RNum) (xvar : nv RNum) (ys fs : list R),
  length fs = length ys -> ys <> [] ->
  eqn xvar a = NA (map fin fs) ->
  MSE_negloglike RNum A xvar (NA (map fin ys)) a eqn
  = Ret (NS (fin (sum2 mse_term ys fs / INR (length ys)))).
Proof.
  intros A a eqn xvar ys fs L1 Hne H.
  destruct (rows2 ys fs L1) as [d [E1 E2]]. subst ys fs.
  rewrite !map_map in *. rewrite map_length.
  rewrite (@mse_shape_vec A a eqn xvar (R * R)%type fst (fun t => fin (snd t)) d H).
  rewrite forallb_isreal_fin. rewrite sum2_rows.
  rewrite (xsum_fin (fun t : R * R => mseK (fst t) (fin (snd t))) (fun t => mse_term (fst t) (snd t)) d)
    by (intros; apply mseK_fin).
  rewrite mean_fin; [reflexivity|]. apply INR_len_pos. intro E; subst; apply Hne; reflexivity.
Qed.

Theorem mse_formula_scalar : forall (A : Type) (a : A) (eqn : nv RNum -> A -> nv RNum) (xvar : nv RNum) (ys : list R) (c : R),
  ys <> [] ->
  eqn xvar a = NS (fin c) ->
  MSE_negloglike RNum A xvar (NA (map fin ys)) a eqn
  = Ret (NS (fin (sum2 mse_term ys (map (fun _ => c) ys) / INR (length ys)))).
Proof.
  intros A a eqn xvar ys c Hne H.
  pose proof (sum2_rows mse_term (fun t : R => t) (fun _ => c) ys) as E. rewrite map_id in E. rewrite E. clear E.
  rewrite <- (map_id ys) at 1. rewrite !map_map.
  rewrite (@mse_shape_scalar A a eqn xvar R (fun t => t) (fin c) ys H).
  rewrite (xsum_fin (fun t : R => mseK t (fin c)) (fun t => mse_term t c) ys) by (intros; apply mseK_fin).
  cbn [xisreal]. rewrite mean_fin; [reflexivity|]. apply INR_len_pos. exact Hne.
Qed.

Theorem never_nan_mse : forall (A : Type) (a : A) (eqn : nv RNum -> A -> nv RNum) (xvar : nv RNum) (ys : list R) (l : list xr),
  length l = length ys ->
  eqn xvar a = NA l -> Exists special l ->
  MSE_negloglike RNum A xvar (NA (map fin ys)) a eqn = Ret (NS PInf).
Proof.
  intros A a eqn xvar ys l L1 H Hsp.
  destruct (rows2 ys l L1) as [d [E1 E2]]. subst ys l.
  rewrite !map_map in *.
  rewrite (@mse_shape_vec A a eqn xvar (R * xr)%type fst snd d H).
  apply guarded_mean_bad.
  - intro E; subst; inversion Hsp.
  - intros Hr t Ht. apply mseK_okc. apply (forallb_map_In xisreal snd d Hr t Ht).
  - intros Hr. apply Exists_map_elim in Hsp. destruct Hsp as [t [Ht Hq]]. exists t. split; [exact Ht|].
    apply mseK_bad; [apply (forallb_map_In xisreal snd d Hr t Ht)|exact Hq].
Qed.

Theorem never_nan_mse_scalar : forall (A : Type) (a : A) (eqn : nv RNum -> A -> nv RNum) (xvar : nv RNum) (ys : list R) (p : xr),
  ys <> [] -> eqn xvar a = NS p -> special p ->
  MSE_negloglike RNum A xvar (NA (map fin ys)) a eqn = Ret (NS PInf).
Proof.
  intros A a eqn xvar ys p Hne H Hsp.
  rewrite <- (map_id ys). rewrite !map_map.
  rewrite (@mse_shape_scalar A a eqn xvar R (fun t => t) p ys H).
  apply guarded_mean_bad; [exact Hne| |].
  - intros Hr t Ht. apply mseK_okc. exact Hr.
  - intros Hr. destruct ys as [|t0 ys]; [contradiction Hne; reflexivity|]. exists t0. split; [left; reflexivity|].
    apply mseK_bad; assumption.
Qed.

Theorem mse_exception : forall (A : Type) (a : A) (eqn : nv RNum -> A -> nv RNum) (xvar : nv RNum) (ys : list R),
  ys <> [] -> eqn xvar a = NErr ->
  MSE_negloglike RNum A xvar (NA (map fin ys)) a eqn = Ret (NS PInf).
Proof.
  intros A a eqn xvar ys Hne H.
  rewrite <- (map_id ys). rewrite !map_map.
  rewrite (@mse_shape_exc A a eqn xvar R (fun t => t) ys H).
  apply guarded_mean_bad; [exact Hne| |].
  - intros _ t Ht. apply mseK_okc. reflexivity.
  - intros _. destruct ys as [|t0 ys]; [contradiction Hne; reflexivity|]. exists t0. split; [left; reflexivity|].
    apply mseK_bad; [reflexivity|exact I].
Qed.

(* np.mean of an empty array is NaN, which the isnan test turns into +inf *)
Theorem mse_empty : forall (A : Type) (a : A) (eqn : nv RNum -> A -> nv RNum) (xvar : nv RNum),
  eqn xvar a = NA [] ->
  MSE_negloglike RNum A xvar (NA []) a eqn = Ret (NS PInf).
Proof.
  intros A a eqn xvar H.
  change (@NA RNum []) with (@NA RNum (map (fun t : R => fin t) [])) at 1.
  rewrite (@mse_shape_vec A a eqn xvar R (fun t => t) (fun t => fin t) [] H).
  cbn [map forallb length INR xsum fold_right]. unfold xdiv. rewrite sgn_zero, n0_R, sgn_zero. reflexivity.
Qed.

(* ------------------------------------------------------------------ Poisson *)
Definition poisK (y : R) (p : xr) : xr := xsub p (xmul (fin y) (xlog p)).
Definition zeroX : xr := fin (Q2R (0 # 1)).
Definition xposb (p : xr) : bool := match xgt p zeroX with Some true => true | _ => false end.

Lemma sequence_gt : forall (l : list xr),
  forallb xisreal l = true ->
  sequence (map (fun a => xgt a zeroX) l) = Some (map xposb l).
Proof.
  induction l as [|p l IH]; intros H; [reflexivity|].
  simpl in H. apply andb_true_iff in H. destruct H as [Hp Hl].
  cbn [map sequence]. rewrite (IH Hl).
  destruct p; try discriminate; unfold xposb, zeroX; cbn [xgt]; try reflexivity.
  destruct (nltb RNum (Q2R (0 # 1)) r); reflexivity.
Qed.

Lemma poisson_tail : forall (real pos : bool) (s : xr),
  py_if (py_or (py_not (BS real)) (py_not (if real then BS pos else BErr))) (py_return (NS PInf))
    (py_let (NS s) (fun nll => py_if (np_isnan nll) (py_return (NS PInf)) (py_return nll)))
  = guarded (real && pos) s.
Proof. intros [|] [|] s; try reflexivity; destruct s; reflexivity. Qed.

Lemma poisson_shape_vec : forall (A : Type) (a : A) eqn xvar {X} (Y : X -> R) (P : X -> xr) (d : list X),
  eqn xvar a = NA (map P d) ->
  PoissonLikelihood_negloglike RNum A xvar (NA (map (fun t => fin (Y t)) d)) a eqn
  = guarded (forallb xisreal (map P d) && forallb xposb (map P d)) (xsum (map (fun t => poisK (Y t) (P t)) d)).
Proof.
  intros A a eqn xvar X Y P d H.
  unfold PoissonLikelihood_negloglike, Likelihood_get_pred, np_atleast_1d. rewrite H.
  cbn [py_try py_let np_inf]. lifts.
  cbn [np_sum np_isreal np_all np_gt]. rewrite forallb_id_map.
  destruct (forallb xisreal (map P d)) eqn:Hr.
  - change (fin (nofQ RNum (0 # 1))) with zeroX. rewrite (sequence_gt _ Hr). cbn [np_all]. rewrite forallb_id_map.
    apply (poisson_tail true).
  - destruct (sequence _); reflexivity.
Qed.

Lemma poisson_shape_scalar : forall (A : Type) (a : A) eqn xvar {X} (Y : X -> R) (p : xr) (d : list X),
  eqn xvar a = NS p ->
  PoissonLikelihood_negloglike RNum A xvar (NA (map (fun t => fin (Y t)) d)) a eqn
  = guarded (xisreal p && xposb p) (xsum (map (fun t => poisK (Y t) p) d)).
Proof.
  intros A a eqn xvar X Y p d H.
  unfold PoissonLikelihood_negloglike, Likelihood_get_pred, np_atleast_1d. rewrite H.
  cbn [py_try py_let np_inf]. lifts.
  cbn [np_sum np_isreal np_all np_gt].
  change (fin (nofQ RNum (0 # 1))) with zeroX. unfold xposb.
  destruct p as [f| | | |]; cbn [xgt xisreal zeroX]; try reflexivity.
  unfold zeroX. cbn [xgt].
  destruct (nltb RNum (Q2R (0 # 1)) f); [apply (poisson_tail true true)|apply (poisson_tail true false)].
Qed.

Lemma poisson_shape_exc : forall (A : Type) (a : A) eqn xvar {X} (Y : X -> R) (d : list X),
  eqn xvar a = NErr ->
  PoissonLikelihood_negloglike RNum A xvar (NA (map (fun t => fin (Y t)) d)) a eqn
  = guarded true (xsum (map (fun t => poisK (Y t) PInf) d)).
Proof.
  intros A a eqn xvar X Y d H.
  unfold PoissonLikelihood_negloglike, Likelihood_get_pred, np_atleast_1d. rewrite H.
  cbn [py_try py_let np_inf]. lifts.
  cbn [np_sum np_isreal np_all np_gt xgt].
  apply (tail_guarded true).
Qed.

Definition posfin (p : xr) : Prop := match p with Fin f => 0 < f | _ => False end.

Lemma xposb_fin : forall f : R, xposb (fin f) = true <-> 0 < f.
Proof.
  intros f. unfold xposb, zeroX. cbn [xgt nltb RNum]. rewrite zero_R. unfold Rltb.
  destruct (Rlt_dec 0 f); split; intros; try assumption; try reflexivity; try discriminate; contradiction.
Qed.

Lemma poisK_fin : forall y f, 0 < f -> poisK y (fin f) = fin (poisson_term y f).
Proof.
  intros y f Hf. unfold poisK, xlog. rewrite (sgn_pos f Hf). reflexivity.
Qed.

(* +inf passes the `ypred > 0` test:  inf - y*ln(inf)  is NaN (y >= 0) or +inf (y < 0) *)
Lemma poisK_pinf : forall y, badc (poisK y PInf).
Proof.
  intros y. unfold poisK. cbn [xlog xmul].
  destruct (sgn_cases y) as [[_ E]|[[_ E]|[_ E]]]; rewrite E; cbn [inf_times xsub]; [left|right|right]; reflexivity.
Qed.

Lemma pos_real_cases : forall p : xr, xisreal p = true -> xposb p = true -> posfin p \/ p = PInf.
Proof.
  intros [f| | | |] Hr Hp; try discriminate.
  - left. apply xposb_fin. exact Hp.
  - right. reflexivity.
Qed.

Lemma poisK_okc : forall y p, xisreal p = true -> xposb p = true -> okc (poisK y p).
Proof.
  intros y p Hr Hp. destruct (pos_real_cases p Hr Hp) as [H|H].
  - destruct p; try contradiction. rewrite poisK_fin by exact H. exact I.
  - subst. destruct (poisK_pinf y) as [E|E]; rewrite E; exact I.
Qed.

Theorem poisson_formula : forall (A : Type) (a : A) (eqn : nv RNum -> A -> nv RNum) (xvar : nv RNum) (ys fs : list R),
  length fs = length ys -> (forall f, In f fs -> 0 < f) ->
  eqn xvar a = NA (map fin fs) ->
  PoissonLikelihood_negloglike RNum A xvar (NA (map fin ys)) a eqn
  = Ret (NS (fin (sum2 poisson_term ys fs))).
Proof.
  intros A a eqn xvar ys fs L1 Hf H.
  destruct (rows2 ys fs L1) as [d [E1 E2]]. subst ys fs.
  rewrite !map_map in *.
  rewrite (@poisson_shape_vec A a eqn xvar (R * R)%type fst (fun t => fin (snd t)) d H).
  rewrite forallb_isreal_fin. rewrite sum2_rows.
  assert (Hp : forallb xposb (map (fun t : R * R => fin (snd t)) d) = true).
  { apply forallb_forall. intros x Hx. apply in_map_iff in Hx. destruct Hx as [t [E Ht]]. subst x.
    apply xposb_fin. apply Hf. apply in_map_iff. exists t. auto. }
  rewrite Hp. cbn [andb].
  apply guarded_sum_fin. intros t Ht. apply poisK_fin. apply Hf. apply in_map_iff. exists t. auto.
Qed.

Theorem poisson_formula_scalar : forall (A : Type) (a : A) (eqn : nv RNum -> A -> nv RNum) (xvar : nv RNum) (ys : list R) (c : R),
  0 < c -> eqn xvar a = NS (fin c) ->
  PoissonLikelihood_negloglike RNum A xvar (NA (map fin ys)) a eqn
  = Ret (NS (fin (sum2 poisson_term ys (map (fun _ => c) ys)))).
Proof.
  intros A a eqn xvar ys c Hc H.
  pose proof (sum2_rows poisson_term (fun t : R => t) (fun _ => c) ys) as E. rewrite map_id in E. rewrite E. clear E.
  rewrite <- (map_id ys) at 1. rewrite !map_map.
  rewrite (@poisson_shape_scalar A a eqn xvar R (fun t => t) (fin c) ys H).
  assert (Hp : xposb (fin c) = true) by (apply xposb_fin; exact Hc). rewrite Hp. cbn [xisreal andb].
  apply guarded_sum_fin. intros t Ht. apply poisK_fin. exact Hc.
Qed.

Theorem never_nan_poisson : forall (A : Type) (a : A) (eqn : nv RNum -> A -> nv RNum) (xvar : nv RNum) (ys : list R) (l : list xr),
  length l = length ys ->
  eqn xvar a = NA l -> Exists (fun p => ~ posfin p) l ->
  PoissonLikelihood_negloglike RNum A xvar (NA (map fin ys)) a eqn = Ret (NS PInf).
Proof.
  intros A a eqn xvar ys l L1 H Hsp.
  destruct (rows2 ys l L1) as [d [E1 E2]]. subst ys l.
  rewrite !map_map in *.
  rewrite (@poisson_shape_vec A a eqn xvar (R * xr)%type fst snd d H).
  apply guarded_sum_bad.
  - intros Hok t Ht. apply andb_true_iff in Hok. destruct Hok as [Hr Hp].
    apply poisK_okc; [apply (forallb_map_In xisreal snd d Hr t Ht)|apply (forallb_map_In xposb snd d Hp t Ht)].
  - intros Hok. apply andb_true_iff in Hok. destruct Hok as [Hr Hp].
    apply Exists_map_elim in Hsp. destruct Hsp as [t [Ht Hq]]. exists t. split; [exact Ht|].
    destruct (pos_real_cases (snd t) (forallb_map_In xisreal snd d Hr t Ht) (forallb_map_In xposb snd d Hp t Ht)) as [Hc|Hc].
    + contradiction.
    + rewrite Hc. apply poisK_pinf.
Qed.

Theorem never_nan_poisson_scalar : forall (A : Type) (a : A) (eqn : nv RNum -> A -> nv RNum) (xvar : nv RNum) (ys : list R) (p : xr),
  ys <> [] -> eqn xvar a = NS p -> ~ posfin p ->
  PoissonLikelihood_negloglike RNum A xvar (NA (map fin ys)) a eqn = Ret (NS PInf).
Proof.
  intros A a eqn xvar ys p Hne H Hsp.
  rewrite <- (map_id ys). rewrite !map_map.
  rewrite (@poisson_shape_scalar A a eqn xvar R (fun t => t) p ys H).
  apply guarded_sum_bad.
  - intros Hok t Ht. apply andb_true_iff in Hok. destruct Hok as [Hr Hp]. apply poisK_okc; assumption.
  - intros Hok. apply andb_true_iff in Hok. destruct Hok as [Hr Hp].
    destruct ys as [|t0 ys]; [contradiction Hne; reflexivity|]. exists t0. split; [left; reflexivity|].
    destruct (pos_real_cases p Hr Hp) as [Hc|Hc]; [contradiction|]. rewrite Hc. apply poisK_pinf.
Qed.

Theorem poisson_exception : forall (A : Type) (a : A) (eqn : nv RNum -> A -> nv RNum) (xvar : nv RNum) (ys : list R),
  ys <> [] -> eqn xvar a = NErr ->
  PoissonLikelihood_negloglike RNum A xvar (NA (map fin ys)) a eqn = Ret (NS PInf).
Proof.
  intros A a eqn xvar ys Hne H.
  rewrite <- (map_id ys). rewrite !map_map.
  rewrite (@poisson_shape_exc A a eqn xvar R (fun t => t) ys H).
  apply guarded_sum_bad.
  - intros _ t Ht. destruct (poisK_pinf t) as [E|E]; rewrite E; exact I.
  - intros _. destruct ys as [|t0 ys]; [contradiction Hne; reflexivity|]. exists t0. split; [left; reflexivity|].
    apply poisK_pinf.
Qed.

(* ------------------------------------------------------------------ cosmic chronometers (and the mock class) *)
Definition oneX : xr := fin (Q2R (1 # 1)).
Definition ccK (y s : R) (p : xr) : xr :=
  xmul (xmul half (xsq (xsub (xsqrt p) (fin y)))) (xdiv oneX (xsq (fin s))).

Lemma isreal_sqrt : forall p : xr, xisreal (xsqrt p) = xisreal p.
Proof. intros [f| | | |]; try reflexivity. unfold xsqrt. destruct (sgn f); reflexivity. Qed.
Lemma forallb_isreal_sqrt : forall {X} (P : X -> xr) (d : list X),
  forallb xisreal (map (fun t => xsqrt (P t)) d) = forallb xisreal (map P d).
Proof. induction d as [|t d IH]; simpl; [reflexivity|]. rewrite IH, isreal_sqrt. reflexivity. Qed.

Lemma cc_shape_vec : forall (A : Type) (a : A) eqn xvar {X} (Y S : X -> R) (P : X -> xr) (d : list X),
  eqn xvar a = NA (map P d) ->
  CCLikelihood_negloglike RNum A xvar (NA (map (fun t => fin (Y t)) d))
    (CCLikelihood_inv_cov RNum (NA (map (fun t => fin (S t)) d))) a eqn
  = guarded (forallb xisreal (map P d)) (xsum (map (fun t => ccK (Y t) (S t) (P t)) d)).
Proof.
  intros A a eqn xvar X Y S P d H.
  unfold CCLikelihood_negloglike, CCLikelihood_get_pred, CCLikelihood_inv_cov, np_atleast_1d. rewrite H.
  lifts. cbn [py_let]. lifts.
  cbn [np_sum np_isreal np_all]. rewrite forallb_id_map, forallb_isreal_sqrt.
  apply tail_guarded.
Qed.

Lemma cc_shape_scalar : forall (A : Type) (a : A) eqn xvar {X} (Y S : X -> R) (p : xr) (d : list X),
  eqn xvar a = NS p ->
  CCLikelihood_negloglike RNum A xvar (NA (map (fun t => fin (Y t)) d))
    (CCLikelihood_inv_cov RNum (NA (map (fun t => fin (S t)) d))) a eqn
  = guarded (xisreal p) (xsum (map (fun t => ccK (Y t) (S t) p) d)).
Proof.
  intros A a eqn xvar X Y S p d H.
  unfold CCLikelihood_negloglike, CCLikelihood_get_pred, CCLikelihood_inv_cov, np_atleast_1d. rewrite H.
  lifts. cbn [py_let]. lifts.
  cbn [np_sum np_isreal np_all]. rewrite isreal_sqrt.
  apply tail_guarded.
Qed.

(* CC/Mock override get_pred without the try/except: an exception in the model function
   leaves negloglike as an exception (it is NOT turned into +inf) *)
Theorem cc_exception_propagates : forall (A : Type) (a : A) (eqn : nv RNum -> A -> nv RNum) (xvar yvar inv_cov : nv RNum),
  eqn xvar a = NErr ->
  CCLikelihood_negloglike RNum A xvar yvar inv_cov a eqn = Raise.
Proof.
  intros A a eqn xvar yvar inv_cov H.
  unfold CCLikelihood_negloglike, CCLikelihood_get_pred, np_atleast_1d. rewrite H. reflexivity.
Qed.

Definition nonnegfin (p : xr) : Prop := match p with Fin f => 0 <= f | _ => False end.

Lemma invcov_fin : forall s : R, 0 < s -> xdiv oneX (xsq (fin s)) = fin (1 / (s * s)).
Proof.
  intros s Hs. unfold oneX, xsq. cbn [xmul nmul RNum]. unfold xdiv. rewrite (sgn_pos (s * s)) by nra.
  cbn [ndiv RNum]. rewrite one_R. reflexivity.
Qed.

Lemma sqrt_fin : forall f : R, 0 <= f -> xsqrt (fin f) = fin (sqrt f).
Proof.
  intros f Hf. unfold xsqrt. destruct (sgn_cases f) as [[H _]|[[_ E]|[_ E]]]; [lra|rewrite E|rewrite E]; reflexivity.
Qed.

Lemma ccK_fin : forall y s f, 0 < s -> 0 <= f -> ccK y s (fin f) = fin (cc_term y s f).
Proof.
  intros y s f Hs Hf. unfold ccK. rewrite invcov_fin by exact Hs. rewrite sqrt_fin by exact Hf.
  unfold half, xsq. cbn [xsub xmul nsub nmul RNum]. rewrite half_R. unfold cc_term. f_equal. field. lra.
Qed.

Lemma ccK_pinf : forall y s, 0 < s -> ccK y s PInf = PInf.
Proof.
  intros y s Hs. unfold ccK. rewrite invcov_fin by exact Hs. unfold half, xsq. cbn [xsqrt xsub xmul].
  rewrite sgn_pos by (rewrite half_R; lra). cbn [inf_times xmul].
  rewrite sgn_pos; [reflexivity|]. apply Rdiv_lt_0_compat; nra.
Qed.

Lemma ccK_nan : forall y s p, 0 < s -> xsqrt p = NaN -> ccK y s p = NaN.
Proof.
  intros y s p Hs E. unfold ccK. rewrite invcov_fin by exact Hs. rewrite E. reflexivity.
Qed.

Lemma cc_cases : forall p : xr, xisreal p = true -> nonnegfin p \/ p = PInf \/ xsqrt p = NaN.
Proof.
  intros [f| | | |] H; try discriminate.
  - destruct (sgn_cases f) as [[Hf E]|[[Hf E]|[Hf E]]].
    + right; right. unfold xsqrt. rewrite E. reflexivity.
    + left. simpl. lra.
    + left. simpl. lra.
  - right; left; reflexivity.
  - right; right; reflexivity.
  - right; right; reflexivity.
Qed.

Lemma ccK_okc : forall y s p, 0 < s -> xisreal p = true -> okc (ccK y s p).
Proof.
  intros y s p Hs Hr. destruct (cc_cases p Hr) as [H|[H|H]].
  - destruct p; try contradiction. rewrite ccK_fin by assumption. exact I.
  - subst. rewrite ccK_pinf by exact Hs. exact I.
  - rewrite ccK_nan by assumption. exact I.
Qed.

Lemma ccK_bad : forall y s p, 0 < s -> xisreal p = true -> ~ nonnegfin p -> badc (ccK y s p).
Proof.
  intros y s p Hs Hr Hn. destruct (cc_cases p Hr) as [H|[H|H]].
  - contradiction.
  - subst. rewrite ccK_pinf by exact Hs. left; reflexivity.
  - rewrite ccK_nan by assumption. right; reflexivity.
Qed.

Theorem cc_formula : forall (A : Type) (a : A) (eqn : nv RNum -> A -> nv RNum) (xvar : nv RNum) (ys ss fs : list R),
  length ss = length ys -> length fs = length ys -> (forall s, In s ss -> 0 < s) -> (forall f, In f fs -> 0 <= f) ->
  eqn xvar a = NA (map fin fs) ->
  CCLikelihood_negloglike RNum A xvar (NA (map fin ys)) (CCLikelihood_inv_cov RNum (NA (map fin ss))) a eqn
  = Ret (NS (fin (sum3 cc_term ys ss fs))).
Proof.
  intros A a eqn xvar ys ss fs L1 L2 Hs Hf H.
  destruct (rows3 ys ss fs L1 L2) as [d [E1 [E2 E3]]]. subst ys ss fs.
  rewrite !map_map in *.
  rewrite (@cc_shape_vec A a eqn xvar (R * R * R)%type (fun t => fst (fst t)) (fun t => snd (fst t)) (fun t => fin (snd t)) d H).
  rewrite forallb_isreal_fin. rewrite sum3_rows.
  apply guarded_sum_fin. intros t Ht. apply ccK_fin.
  - apply Hs. apply in_map_iff. exists t. auto.
  - apply Hf. apply in_map_iff. exists t. auto.
Qed.

Theorem cc_formula_scalar : forall (A : Type) (a : A) (eqn : nv RNum -> A -> nv RNum) (xvar : nv RNum) (ys ss : list R) (c : R),
  length ss = length ys -> (forall s, In s ss -> 0 < s) -> 0 <= c ->
  eqn xvar a = NS (fin c) ->
  CCLikelihood_negloglike RNum A xvar (NA (map fin ys)) (CCLikelihood_inv_cov RNum (NA (map fin ss))) a eqn
  = Ret (NS (fin (sum3 cc_term ys ss (map (fun _ => c) ys)))).
Proof.
  intros A a eqn xvar ys ss c L1 Hs Hc H.
  destruct (rows2 ys ss L1) as [d [E1 E2]]. subst ys ss.
  rewrite !map_map in *.
  rewrite (@cc_shape_scalar A a eqn xvar (R * R)%type fst snd (fin c) d H).
  rewrite (sum3_rows cc_term fst snd (fun _ => c) d).
  apply guarded_sum_fin. intros t Ht. apply ccK_fin; [|exact Hc]. apply Hs. apply in_map_iff. exists t. auto.
Qed.

Theorem never_nan_cc : forall (A : Type) (a : A) (eqn : nv RNum -> A -> nv RNum) (xvar : nv RNum) (ys ss : list R) (l : list xr),
  length ss = length ys -> length l = length ys -> (forall s, In s ss -> 0 < s) ->
  eqn xvar a = NA l -> Exists (fun p => ~ nonnegfin p) l ->
  CCLikelihood_negloglike RNum A xvar (NA (map fin ys)) (CCLikelihood_inv_cov RNum (NA (map fin ss))) a eqn = Ret (NS PInf).
Proof.
  intros A a eqn xvar ys ss l L1 L2 Hs H Hsp.
  destruct (rows3 ys ss l L1 L2) as [d [E1 [E2 E3]]]. subst ys ss l.
  rewrite !map_map in *.
  rewrite (@cc_shape_vec A a eqn xvar (R * R * xr)%type (fun t => fst (fst t)) (fun t => snd (fst t)) snd d H).
  apply guarded_sum_bad.
  - intros Hr t Ht. apply ccK_okc.
    + apply Hs. apply in_map_iff. exists t. auto.
    + apply (forallb_map_In xisreal snd d Hr t Ht).
  - intros Hr. apply Exists_map_elim in Hsp. destruct Hsp as [t [Ht Hq]]. exists t. split; [exact Ht|].
    apply ccK_bad; [apply Hs; apply in_map_iff; exists t; auto| apply (forallb_map_In xisreal snd d Hr t Ht) | exact Hq].
Qed.

Theorem never_nan_cc_scalar : forall (A : Type) (a : A) (eqn : nv RNum -> A -> nv RNum) (xvar : nv RNum) (ys ss : list R) (p : xr),
  length ss = length ys -> ys <> [] -> (forall s, In s ss -> 0 < s) ->
  eqn xvar a = NS p -> ~ nonnegfin p ->
  CCLikelihood_negloglike RNum A xvar (NA (map fin ys)) (CCLikelihood_inv_cov RNum (NA (map fin ss))) a eqn = Ret (NS PInf).
Proof.
  intros A a eqn xvar ys ss p L1 Hne Hs H Hsp.
  destruct (rows2 ys ss L1) as [d [E1 E2]]. subst ys ss.
  rewrite !map_map in *.
  rewrite (@cc_shape_scalar A a eqn xvar (R * R)%type fst snd p d H).
  destruct d as [|t0 d]; [exfalso; apply Hne; reflexivity|].
  apply guarded_sum_bad.
  - intros Hr t Ht. apply ccK_okc; [apply Hs; apply in_map_iff; exists t; auto|exact Hr].
  - intros Hr. exists t0. split; [left; reflexivity|].
    apply ccK_bad; [apply Hs; left; reflexivity|exact Hr|exact Hsp].
Qed.

(* the mock class is the same code *)
Lemma mock_is_cc : MockLikelihood_negloglike = CCLikelihood_negloglike /\ MockLikelihood_inv_cov = CCLikelihood_inv_cov.
Proof. split; reflexivity. Qed.

Theorem mock_formula : forall (A : Type) (a : A) (eqn : nv RNum -> A -> nv RNum) (xvar : nv RNum) (ys ss fs : list R),
  length ss = length ys -> length fs = length ys -> (forall s, In s ss -> 0 < s) -> (forall f, In f fs -> 0 <= f) ->
  eqn xvar a = NA (map fin fs) ->
  MockLikelihood_negloglike RNum A xvar (NA (map fin ys)) (MockLikelihood_inv_cov RNum (NA (map fin ss))) a eqn
  = Ret (NS (fin (sum3 cc_term ys ss fs))).
Proof. destruct mock_is_cc as [E1 E2]. rewrite E1, E2. exact cc_formula. Qed.

Theorem mock_formula_scalar : forall (A : Type) (a : A) (eqn : nv RNum -> A -> nv RNum) (xvar : nv RNum) (ys ss : list R) (c : R),
  length ss = length ys -> (forall s, In s ss -> 0 < s) -> 0 <= c ->
  eqn xvar a = NS (fin c) ->
  MockLikelihood_negloglike RNum A xvar (NA (map fin ys)) (MockLikelihood_inv_cov RNum (NA (map fin ss))) a eqn
  = Ret (NS (fin (sum3 cc_term ys ss (map (fun _ => c) ys)))).
Proof. destruct mock_is_cc as [E1 E2]. rewrite E1, E2. exact cc_formula_scalar. Qed.

Theorem never_nan_mock : forall (A : Type) (a : A) (eqn : nv RNum -> A -> nv RNum) (xvar : nv RNum) (ys ss : list R) (l : list xr),
  length ss = length ys -> length l = length ys -> (forall s, In s ss -> 0 < s) ->
  eqn xvar a = NA l -> Exists (fun p => ~ nonnegfin p) l ->
  MockLikelihood_negloglike RNum A xvar (NA (map fin ys)) (MockLikelihood_inv_cov RNum (NA (map fin ss))) a eqn = Ret (NS PInf).
Proof. destruct mock_is_cc as [E1 E2]. rewrite E1, E2. exact never_nan_cc. Qed.

Theorem never_nan_mock_scalar : forall (A : Type) (a : A) (eqn : nv RNum -> A -> nv RNum) (xvar : nv RNum) (ys ss : list R) (p : xr),
  length ss = length ys -> ys <> [] -> (forall s, In s ss -> 0 < s) ->
  eqn xvar a = NS p -> ~ nonnegfin p ->
  MockLikelihood_negloglike RNum A xvar (NA (map fin ys)) (MockLikelihood_inv_cov RNum (NA (map fin ss))) a eqn = Ret (NS PInf).
Proof. destruct mock_is_cc as [E1 E2]. rewrite E1, E2. exact never_nan_cc_scalar. Qed.

Theorem mock_exception_propagates : forall (A : Type) (a : A) (eqn : nv RNum -> A -> nv RNum) (xvar yvar inv_cov : nv RNum),
  eqn xvar a = NErr ->
  MockLikelihood_negloglike RNum A xvar yvar inv_cov a eqn = Raise.
Proof. destruct mock_is_cc as [E1 E2]. rewrite E1. exact cc_exception_propagates. Qed.

(* ------------------------------------------------------------------ no NaN, for every input whatsoever and every number structure *)
(* the call either raises or returns a scalar that is not NaN *)
Definition not_nan_result {N} (r : res N) : Prop :=
  match r with
  | Raise => True
  | Ret (NS NaN) => False
  | Ret (NS _) => True
  | Ret _ => False
  end.
Definition scalar_or_err {N} (v : nv N) : Prop := match v with NA _ => False | _ => True end.

Section NoNaN.
Variable N : Num.
Variable A : Type.

Lemma nn_if : forall c (r : res N), not_nan_result r -> not_nan_result (py_if c (py_return np_inf) r).
Proof. intros c r H. unfold py_if. destruct (truth c) as [[|]|]; simpl; auto. Qed.
Lemma nn_let : forall (v : nv N) k, (forall w, not_nan_result (k w)) -> not_nan_result (py_let v k).
Proof. intros v k H. destruct v; simpl; auto. Qed.
Lemma nn_tail : forall w : nv N, scalar_or_err w ->
  not_nan_result (py_let w (fun nll => py_if (np_isnan nll) (py_return np_inf) (py_return nll))).
Proof. intros [x|l|] H; simpl in *; auto; [destruct x; simpl; auto|contradiction]. Qed.
Lemma sum_scalar : forall v : nv N, scalar_or_err (np_sum v).
Proof. intros [x|l|]; exact I. Qed.
Lemma mean_scalar : forall v : nv N, scalar_or_err (np_mean v).
Proof. intros [x|l|]; exact I. Qed.

Theorem gauss_no_nan : forall xvar yvar yerr (a : A) eqn, not_nan_result (GaussLikelihood_negloglike N A xvar yvar yerr a eqn).
Proof. intros. unfold GaussLikelihood_negloglike. apply nn_let; intro. apply nn_if. apply nn_tail. apply sum_scalar. Qed.
Theorem poisson_no_nan : forall xvar yvar (a : A) eqn, not_nan_result (PoissonLikelihood_negloglike N A xvar yvar a eqn).
Proof. intros. unfold PoissonLikelihood_negloglike. apply nn_let; intro. apply nn_if. apply nn_tail. apply sum_scalar. Qed.
Theorem cc_no_nan : forall xvar yvar ic (a : A) eqn, not_nan_result (CCLikelihood_negloglike N A xvar yvar ic a eqn).
Proof. intros. unfold CCLikelihood_negloglike. apply nn_let; intro. apply nn_if. apply nn_tail. apply sum_scalar. Qed.
Theorem mock_no_nan : forall xvar yvar ic (a : A) eqn, not_nan_result (MockLikelihood_negloglike N A xvar yvar ic a eqn).
Proof. intros. unfold MockLikelihood_negloglike. apply nn_let; intro. apply nn_if. apply nn_tail. apply sum_scalar. Qed.
Theorem mse_no_nan : forall xvar yvar (a : A) eqn, not_nan_result (MSE_negloglike N A xvar yvar a eqn).
Proof. intros. unfold MSE_negloglike. apply nn_let; intro. apply nn_if. apply nn_tail. apply mean_scalar. Qed.
End NoNaN.

(* the model's addition is associative and commutative on the extended reals, so the order in which
   np.sum adds (pairwise in numpy, right fold in [xsum]) does not matter in the model *)
Lemma xadd_comm : forall a b : xr, xadd a b = xadd b a.
Proof. intros [x| | | |] [y| | | |]; simpl; try reflexivity. f_equal. apply Rplus_comm. Qed.
Lemma xadd_assoc : forall a b c : xr, xadd a (xadd b c) = xadd (xadd a b) c.
Proof.
  intros [x| | | |] [y| | | |] [z| | | |]; simpl; try reflexivity. f_equal. symmetry. apply Rplus_assoc.
Qed.
