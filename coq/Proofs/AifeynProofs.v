(* C08 -- lemmas about the translated aifeyn_complexity / get_max_param
   (Gen/GenAifeyn.v, regenerated from /repo on every run) and the models in
   Model/AifeynSpec.v. *)
From Coq Require Import String Ascii ZArith List Bool Lia Reals DecimalString DecimalZ DecimalPos.
From ESRV Require Import Common.Py Model.AifeynSpec Gen.GenAifeyn.
Import ListNotations.
Open Scope Z_scope.
Local Opaque Z.mul.

(* ================================================================ idioms *)

Lemma py_in_spec : forall x l, py_in x l = true <-> In x l.
Proof.
  intros x l. unfold py_in. rewrite existsb_exists. split.
  - intros [y [Hy He]]. apply String.eqb_eq in He. subst. exact Hy.
  - intros H. exists x. split; [exact H | apply String.eqb_refl].
Qed.

Lemma py_in_false : forall x l, py_in x l = false <-> ~ In x l.
Proof.
  intros x l. rewrite <- py_in_spec. destruct (py_in x l); split; congruence.
Qed.

Lemma py_set_In : forall l x, In x (py_set l) <-> In x l.
Proof.
  induction l as [|y r IH]; intros x; simpl; [tauto|].
  destruct (py_in y r) eqn:E.
  - rewrite IH. apply py_in_spec in E. split; [tauto|]. intros [H|H]; subst; tauto.
  - simpl. rewrite IH. tauto.
Qed.

Lemma py_set_NoDup : forall l, NoDup (py_set l).
Proof.
  induction l as [|y r IH]; simpl; [constructor|].
  destruct (py_in y r) eqn:E; [exact IH|].
  constructor; [|exact IH]. rewrite py_set_In. apply py_in_false. exact E.
Qed.

(* len(set(l)) is the number of distinct elements: any duplicate-free list with
   the same elements has that length *)
Lemma py_set_canonical : forall l l', NoDup l' -> (forall x, In x l' <-> In x l) ->
  length l' = length (py_set l).
Proof.
  intros l l' Hnd Hin. apply Nat.le_antisymm; apply NoDup_incl_length.
  - exact Hnd.
  - intros x Hx. apply py_set_In, Hin, Hx.
  - apply py_set_NoDup.
  - intros x Hx. apply Hin, py_set_In, Hx.
Qed.

Fixpoint dashes (n : nat) : string :=
  match n with O => EmptyString | S k => String "-" (dashes k) end.

(* s.lstrip("-") removes exactly the leading run of '-' *)
Lemma py_lstrip_dash_spec : forall s, exists n,
  s = (dashes n ++ py_lstrip "-" s)%string /\
  (forall r, py_lstrip "-" s <> String "-" r).
Proof.
  induction s as [|c r IH].
  - exists O. split; [reflexivity | discriminate].
  - simpl. destruct (Ascii.eqb c "-") eqn:E.
    + apply Ascii.eqb_eq in E. subst c. simpl. destruct IH as [n [H1 H2]].
      exists (S n). split; [simpl; f_equal; exact H1 | exact H2].
    + simpl. exists O. split; [reflexivity|].
      intros r' H. inversion H. subst. rewrite Ascii.eqb_refl in E. discriminate.
Qed.

Lemma py_isdigit_spec : forall s,
  py_isdigit s = true <-> s <> EmptyString /\ str_all is_py_digit s = true.
Proof.
  destruct s; simpl; split; try tauto; try (intros [H _]; congruence); try discriminate.
  intros H. split; [discriminate | exact H].
Qed.

(* decimal value: appending a digit is  v -> 10 v + digit *)
Lemma digits_val_snoc : forall s acc c, is_ascii_digit c = true ->
  digits_val acc (s ++ String c EmptyString)
  = option_map (fun v => 10 * v + (Z.of_nat (code c) - 48)) (digits_val acc s).
Proof.
  induction s as [|d r IH]; intros acc c Hc; simpl.
  - rewrite Hc. reflexivity.
  - destruct (is_ascii_digit d); [apply IH; exact Hc | reflexivity].
Qed.

Lemma digits_val_some : forall s acc, str_all is_ascii_digit s = true ->
  exists v, digits_val acc s = Some v.
Proof.
  induction s as [|d r IH]; intros acc H; simpl in *.
  - eauto.
  - apply andb_true_iff in H. destruct H as [H1 H2]. rewrite H1. apply IH. exact H2.
Qed.

Lemma digits_val_nonneg : forall s acc v, 0 <= acc -> digits_val acc s = Some v -> 0 <= v.
Proof.
  induction s as [|d r IH]; intros acc v Ha H; simpl in *.
  - inversion H. subst. exact Ha.
  - destruct (is_ascii_digit d) eqn:E; [|discriminate].
    eapply IH; [|exact H]. unfold is_ascii_digit in E. apply andb_true_iff in E. destruct E as [E1 E2].
    apply Nat.leb_le in E1. apply Nat.leb_le in E2. lia.
Qed.

Lemma ascii_digit_is_py_digit : forall c, is_ascii_digit c = true -> is_py_digit c = true.
Proof. intros c H. unfold is_py_digit. rewrite H. reflexivity. Qed.

Lemma ascii_digit_not_dash : forall c, is_ascii_digit c = true -> Ascii.eqb c "-" = false.
Proof.
  intros c H. destruct (Ascii.eqb c "-") eqn:E; [|reflexivity].
  apply Ascii.eqb_eq in E. subst. discriminate.
Qed.

Lemma str_all_impl : forall (p q : ascii -> bool) s, (forall c, p c = true -> q c = true) ->
  str_all p s = true -> str_all q s = true.
Proof.
  induction s as [|c r IH]; intros Hpq H; simpl in *; [reflexivity|].
  apply andb_true_iff in H. destruct H as [H1 H2]. rewrite (Hpq _ H1), (IH Hpq H2). reflexivity.
Qed.

(* int(d) and int("-" d) for a non-empty string d of ASCII digits *)
Lemma py_int_digits : forall d, d <> EmptyString -> str_all is_ascii_digit d = true ->
  exists v, 0 <= v /\ digits_val 0 d = Some v /\ py_int d = Some v /\ py_int (String "-" d) = Some (- v).
Proof.
  intros d Hne Hd. destruct (digits_val_some d 0 Hd) as [v Hv].
  exists v. split; [eapply digits_val_nonneg; [|exact Hv]; lia|]. split; [exact Hv|]. split.
  - destruct d as [|c r]; [congruence|]. unfold py_int.
    simpl in Hd. apply andb_true_iff in Hd. destruct Hd as [Hc _].
    rewrite (ascii_digit_not_dash _ Hc). exact Hv.
  - unfold py_int. rewrite Ascii.eqb_refl. destruct d; [congruence|]. rewrite Hv. reflexivity.
Qed.

Lemma numeric_like_digits : forall d, d <> EmptyString -> str_all is_ascii_digit d = true ->
  numeric_like d = true /\ numeric_like (String "-" d) = true.
Proof.
  intros d Hne Hd.
  assert (Hs : py_lstrip "-" d = d).
  { destruct d as [|c r]; [reflexivity|]. simpl in *. apply andb_true_iff in Hd. destruct Hd as [Hc _].
    rewrite (ascii_digit_not_dash _ Hc). reflexivity. }
  assert (Hn : numeric_like d = true).
  { unfold numeric_like. rewrite Hs. apply py_isdigit_spec. split; [exact Hne|].
    eapply str_all_impl; [apply ascii_digit_is_py_digit | exact Hd]. }
  split; [exact Hn|]. unfold numeric_like in *. simpl. exact Hn.
Qed.

(* ================================================================ aifeyn_complexity = specification *)

Lemma is_op_filter : forall pl tt,
  (negb (py_in tt pl) && negb (py_isdigit (py_lstrip "-" tt)))%bool = is_op pl tt.
Proof.
  intros pl tt. unfold is_op, classify, numeric_like.
  destruct (py_isdigit (py_lstrip "-" tt)); [destruct (py_int tt)|]; destruct (py_in tt pl); reflexivity.
Qed.

Lemma ints_of_tree : forall pl tree,
  py_map_opt (fun tt => py_int tt) (filter (fun tt => py_isdigit (py_lstrip "-" tt)) tree)
  = if existsb (is_bad pl) tree then None else Some (spec_ints pl tree).
Proof.
  intros pl. induction tree as [|l r IH]; [reflexivity|].
  simpl. unfold is_bad at 1, int_of at 1, classify, numeric_like.
  destruct (py_isdigit (py_lstrip "-" l)) eqn:E.
  - simpl. destruct (py_int l) eqn:Ei; simpl; [|reflexivity].
    rewrite IH. destruct (existsb (is_bad pl) r); reflexivity.
  - rewrite IH. destruct (py_in l pl); simpl; reflexivity.
Qed.

Lemma filter_length_le : forall {A} (p : A -> bool) l, (length (filter p l) <= length l)%nat.
Proof. induction l as [|x r IH]; simpl; [lia|]. destruct (p x); simpl; lia. Qed.

Lemma filter_length_lt : forall {A} (p : A -> bool) l x, In x l -> p x = false ->
  (length (filter p l) < length l)%nat.
Proof.
  induction l as [|y r IH]; intros x Hin Hp; [destruct Hin|].
  pose proof (filter_length_le p r) as Hle. cbn [filter length].
  destruct Hin as [->|Hin].
  - rewrite Hp. lia.
  - specialize (IH x Hin Hp). destruct (p y); cbn [length]; lia.
Qed.

Lemma filter_all_id : forall {A} (p : A -> bool) l, existsb (fun x => negb (p x)) l = false -> filter p l = l.
Proof.
  induction l as [|y r IH]; intros H; [reflexivity|].
  cbn [existsb filter] in *. apply orb_false_iff in H. destruct H as [H1 H2].
  apply negb_false_iff in H1. rewrite H1, (IH H2). reflexivity.
Qed.

Lemma filter_length_all : forall {A} (p : A -> bool) l,
  negb (py_len (filter p l) =? py_len l) = existsb (fun x => negb (p x)) l.
Proof.
  intros A p l. unfold py_len. destruct (existsb (fun x => negb (p x)) l) eqn:E.
  - apply existsb_exists in E. destruct E as [x [Hin Hp]]. apply negb_true_iff in Hp.
    pose proof (filter_length_lt p l x Hin Hp). apply negb_true_iff, Z.eqb_neq. lia.
  - rewrite (filter_all_id p l E). rewrite Z.eqb_refl. reflexivity.
Qed.

Lemma abs_where : forall n, np_abs (np_set_where_eq n 0 1) = map c01 n.
Proof.
  intros n. unfold np_abs, np_set_where_eq. rewrite map_map. apply map_ext.
  intros x. unfold c01. destruct (x =? 0); reflexivity.
Qed.

(* T1: the translated function is the specification, for every label list and
   every param_list *)
Theorem aifeyn_structure : forall tree pl, aifeyn_complexity tree pl = aifeyn_spec tree pl.
Proof.
  intros tree pl. unfold aifeyn_complexity, aifeyn_spec.
  rewrite (ints_of_tree pl tree).
  destruct (existsb (is_bad pl) tree); [reflexivity|]. simpl.
  unfold np_int_array. destruct (forallb int64_strict (spec_ints pl tree)); [|reflexivity]. simpl.
  rewrite abs_where.
  rewrite (filter_ext _ _ (is_op_filter pl) tree).
  rewrite filter_length_all.
  reflexivity.
Qed.

(* when there is no answer: exactly the two documented reasons *)
Theorem aifeyn_none_iff : forall tree pl,
  aifeyn_complexity tree pl = None <->
  (exists l, In l tree /\ numeric_like l = true /\ py_int l = None) \/
  (exists l z, In l tree /\ numeric_like l = true /\ py_int l = Some z /\ int64_strict z = false).
Proof.
  intros tree pl. rewrite aifeyn_structure. unfold aifeyn_spec.
  destruct (existsb (is_bad pl) tree) eqn:Eb.
  - split; [intros _|reflexivity]. left. apply existsb_exists in Eb. destruct Eb as [l [Hl Hb]].
    exists l. split; [exact Hl|]. unfold is_bad, classify in Hb.
    destruct (numeric_like l); [destruct (py_int l); [discriminate|tauto]|].
    destruct (py_in l pl); discriminate.
  - destruct (forallb int64_strict (spec_ints pl tree)) eqn:Ef.
    + split; [discriminate|]. intros [[l [Hl [Hn Hi]]] | [l [z [Hl [Hn [Hi Hz]]]]]].
      * assert (existsb (is_bad pl) tree = true); [|congruence].
        apply existsb_exists. exists l. split; [exact Hl|]. unfold is_bad, classify. rewrite Hn, Hi. reflexivity.
      * rewrite forallb_forall in Ef. assert (Hz' : int64_strict z = true); [apply Ef | congruence].
        unfold spec_ints. apply in_flat_map. exists l. split; [exact Hl|].
        unfold int_of, classify. rewrite Hn, Hi. left. reflexivity.
    + split; [intros _|reflexivity]. right.
      assert (Hex : exists z, In z (spec_ints pl tree) /\ int64_strict z = false).
      { clear Eb. induction (spec_ints pl tree) as [|z r IH]; [discriminate|].
        simpl in Ef. destruct (int64_strict z) eqn:Ez.
        - destruct (IH Ef) as [z' [H1 H2]]. exists z'. split; [right; exact H1 | exact H2].
        - exists z. split; [left; reflexivity | exact Ez]. }
      destruct Hex as [z [Hz1 Hz2]]. unfold spec_ints in Hz1. apply in_flat_map in Hz1.
      destruct Hz1 as [l [Hl Hz]]. exists l, z. split; [exact Hl|].
      unfold int_of, classify in Hz. destruct (numeric_like l).
      * destruct (py_int l); [|destruct Hz]. destruct Hz as [Hz|[]]. subst. tauto.
      * destruct (py_in l pl); destruct Hz.
Qed.

(* ================================================================ congruence: renaming, zero, sign *)

(* two labels (under two param lists) that the code length cannot tell apart *)
Definition lequiv (pl pl' : list string) (l l' : string) : Prop :=
  match classify pl l, classify pl' l' with
  | COp, COp => l = l'
  | CParam, CParam => True
  | CBad, CBad => True
  | CInt z, CInt z' => c01 z = c01 z' /\ int64_strict z = int64_strict z'
  | _, _ => False
  end.

Lemma lequiv_refl : forall pl l, lequiv pl pl l l.
Proof. intros pl l. unfold lequiv. destruct (classify pl l); auto. Qed.

Lemma spec_congr_parts : forall pl pl' t t', Forall2 (lequiv pl pl') t t' ->
  existsb (is_bad pl) t = existsb (is_bad pl') t' /\
  forallb int64_strict (spec_ints pl t) = forallb int64_strict (spec_ints pl' t') /\
  map c01 (spec_ints pl t) = map c01 (spec_ints pl' t') /\
  length t = length t' /\
  spec_ops pl t = spec_ops pl' t' /\
  spec_grouped pl t = spec_grouped pl' t'.
Proof.
  intros pl pl' t t' H. induction H as [|x y r r' Hxy Hr IH].
  - repeat split.
  - destruct IH as [I1 [I2 [I3 [I4 [I5 I6]]]]].
    unfold spec_ints, spec_ops, spec_grouped, is_bad, int_of, is_op in *. cbn [existsb flat_map filter length].
    unfold lequiv in Hxy.
    destruct (classify pl x), (classify pl' y); try contradiction;
      cbn [app forallb map negb orb andb];
      rewrite ?I1, ?I2, ?I3, ?I4, ?I5, ?I6; try (repeat split; reflexivity).
    + destruct Hxy as [Hc Hi]. rewrite Hc, Hi. repeat split; reflexivity.
    + subst y. repeat split; reflexivity.
Qed.

Lemma spec_congr : forall pl pl' t t', Forall2 (lequiv pl pl') t t' ->
  aifeyn_spec t pl = aifeyn_spec t' pl'.
Proof.
  intros pl pl' t t' H. destruct (spec_congr_parts _ _ _ _ H) as [I1 [I2 [I3 [I4 [I5 I6]]]]].
  unfold aifeyn_spec, spec_n, spec_k. rewrite I1, I2, I3, I4, I5, I6. reflexivity.
Qed.

Lemma Forall2_refl_lequiv : forall pl t, Forall2 (lequiv pl pl) t t.
Proof. induction t; constructor; [apply lequiv_refl | assumption]. Qed.

(* T2: renaming parameters.  rho may send parameters anywhere inside param_list
   (injectivity is not even needed: all parameters count as one symbol) and
   must leave every other label alone. *)
Theorem aifeyn_rename_invariant : forall (rho : string -> string) tree pl,
  (forall l, In l pl -> In (rho l) pl) ->
  (forall l, ~ In l pl -> rho l = l) ->
  (forall l, In l pl -> numeric_like l = false) ->
  aifeyn_complexity (map rho tree) pl = aifeyn_complexity tree pl.
Proof.
  intros rho tree pl Hin Hout Hnum. rewrite !aifeyn_structure. symmetry. apply spec_congr.
  induction tree as [|l r IH]; [constructor|]. cbn [map]. constructor; [|exact IH].
  destruct (py_in l pl) eqn:E.
  - apply py_in_spec in E. unfold lequiv, classify.
    rewrite (Hnum l E), (Hnum _ (Hin l E)).
    apply py_in_spec in E. rewrite E. apply py_in_spec in E.
    pose proof (Hin l E) as E'. apply py_in_spec in E'. rewrite E'. exact I.
  - apply py_in_false in E. rewrite (Hout l E). apply lequiv_refl.
Qed.

(* two param lists that agree on the labels of the tree give the same answer *)
Theorem aifeyn_param_list_agree : forall tree pl1 pl2,
  (forall l, In l tree -> (In l pl1 <-> In l pl2)) ->
  aifeyn_complexity tree pl1 = aifeyn_complexity tree pl2.
Proof.
  intros tree pl1 pl2 H. rewrite !aifeyn_structure. apply spec_congr.
  induction tree as [|l r IH]; [constructor|]. constructor.
  - unfold lequiv, classify. assert (E : py_in l pl1 = py_in l pl2).
    { specialize (H l (or_introl eq_refl)).
      destruct (py_in l pl1) eqn:E1; destruct (py_in l pl2) eqn:E2; try reflexivity.
      - apply py_in_spec in E1. apply py_in_false in E2. tauto.
      - apply py_in_spec in E2. apply py_in_false in E1. tauto. }
    rewrite E. destruct (numeric_like l); [destruct (py_int l); auto|]. destruct (py_in l pl2); auto.
  - apply IH. intros l' Hl'. apply H. right. exact Hl'.
Qed.

Lemma aifeyn_replace : forall pl x y t1 t2, lequiv pl pl x y ->
  aifeyn_complexity (t1 ++ x :: t2) pl = aifeyn_complexity (t1 ++ y :: t2) pl.
Proof.
  intros pl x y t1 t2 H. rewrite !aifeyn_structure. apply spec_congr.
  apply Forall2_app; [apply Forall2_refl_lequiv|]. constructor; [exact H | apply Forall2_refl_lequiv].
Qed.

(* T3: an integer constant 0 is read as 1 *)
Theorem aifeyn_zero_general : forall pl x t1 t2, classify pl x = CInt 0 ->
  aifeyn_complexity (t1 ++ x :: t2) pl = aifeyn_complexity (t1 ++ "1"%string :: t2) pl.
Proof.
  intros pl x t1 t2 H. apply aifeyn_replace. unfold lequiv. rewrite H.
  unfold classify. cbn. split; reflexivity.
Qed.

Theorem aifeyn_zero_as_one : forall pl t1 t2,
  aifeyn_complexity (t1 ++ "0"%string :: t2) pl = aifeyn_complexity (t1 ++ "1"%string :: t2) pl.
Proof. intros. apply aifeyn_zero_general. reflexivity. Qed.

Lemma c01_opp : forall v, c01 (- v) = c01 v.
Proof.
  intros v. unfold c01. rewrite Z.abs_opp.
  destruct (Z.eqb_spec v 0); destruct (Z.eqb_spec (- v) 0); try reflexivity; lia.
Qed.

Lemma int64_strict_opp : forall v, int64_strict (- v) = int64_strict v.
Proof.
  intros v. unfold int64_strict.
  destruct (Z.ltb_spec (-9223372036854775808) (- v)); destruct (Z.ltb_spec (- v) 9223372036854775808);
  destruct (Z.ltb_spec (-9223372036854775808) v); destruct (Z.ltb_spec v 9223372036854775808);
  try reflexivity; lia.
Qed.

(* T4: a negative integer constant costs as much as its absolute value *)
Theorem aifeyn_negative_abs : forall pl d t1 t2,
  d <> EmptyString -> str_all is_ascii_digit d = true ->
  aifeyn_complexity (t1 ++ String "-" d :: t2) pl = aifeyn_complexity (t1 ++ d :: t2) pl.
Proof.
  intros pl d t1 t2 Hne Hd. apply aifeyn_replace.
  destruct (py_int_digits d Hne Hd) as [v [_ [_ [H1 H2]]]].
  destruct (numeric_like_digits d Hne Hd) as [N1 N2].
  unfold lequiv, classify. rewrite N1, N2, H1, H2.
  split; [apply c01_opp | apply int64_strict_opp].
Qed.

(* what such a constant contributes *)
Lemma classify_digits : forall pl d, d <> EmptyString -> str_all is_ascii_digit d = true ->
  exists v, 0 <= v /\ digits_val 0 d = Some v /\
            classify pl d = CInt v /\ classify pl (String "-" d) = CInt (- v).
Proof.
  intros pl d Hne Hd. destruct (py_int_digits d Hne Hd) as [v [Hv [Hdv [H1 H2]]]].
  destruct (numeric_like_digits d Hne Hd) as [N1 N2].
  exists v. unfold classify. rewrite N1, N2, H1, H2. auto.
Qed.

(* ================================================================ parameter names a0, a1, ... *)

Lemma In_anames : forall m l, In l (anames m) <-> exists j, (j < m)%nat /\ l = aname j.
Proof.
  intros m l. unfold anames. rewrite in_map_iff. split.
  - intros [j [Hj Hin]]. apply in_seq in Hin. exists j. split; [lia | auto].
  - intros [j [Hj ->]]. exists j. split; [reflexivity | apply in_seq; lia].
Qed.

Lemma gen_param_list_anames : forall m, gen_param_list m = anames (Z.to_nat m).
Proof.
  intros m. unfold gen_param_list, anames, zrange, aname. rewrite map_map. reflexivity.
Qed.

(* param lists a0..a(m1-1) and a0..a(m2-1) that both cover the tree's parameters *)
Theorem aifeyn_cover_same : forall tree m1 m2,
  (forall j, In (aname j) tree -> (j < m1)%nat /\ (j < m2)%nat) ->
  aifeyn_complexity tree (anames m1) = aifeyn_complexity tree (anames m2).
Proof.
  intros tree m1 m2 H. apply aifeyn_param_list_agree. intros l Hl. rewrite !In_anames.
  split; intros [j [Hj ->]]; exists j; (split; [|reflexivity]); destruct (H j Hl); assumption.
Qed.

(* ================================================================ the real value *)

Lemma c01_pos : forall z, 1 <= c01 z.
Proof. intros z. unfold c01. destruct (Z.eqb_spec z 0); lia. Qed.

Lemma spec_n_pos : forall pl tree, tree <> [] -> 1 <= spec_n pl tree.
Proof.
  intros pl [|l r] H; [congruence|]. unfold spec_n, spec_ops, spec_grouped. cbn [filter existsb].
  destruct (is_op pl l) eqn:E; cbn [negb orb].
  - assert (Hin : In l (py_set (l :: filter (is_op pl) r))) by (apply py_set_In; left; reflexivity).
    destruct (py_set (l :: filter (is_op pl) r)); [destruct Hin|].
    cbn [length]. destruct (existsb _ r); unfold b2z; lia.
  - unfold b2z. lia.
Qed.

Lemma struct_value_spec : forall pl tree,
  struct_value (spec_k tree, spec_n pl tree, map c01 (spec_ints pl tree)) = spec_value pl tree.
Proof.
  intros pl tree. unfold struct_value, spec_value, spec_k, spec_n.
  rewrite plus_IZR, <- !INR_IZR_INZ.
  assert (Hb : forall b, IZR (b2z b) = (if b then 1 else 0)%R) by (intros []; reflexivity).
  rewrite Hb. f_equal. rewrite map_map. f_equal. apply map_ext. intros z. unfold c01.
  destruct (z =? 0); [reflexivity|]. rewrite abs_IZR. reflexivity.
Qed.

(* T5: the value is  k ln n + sum ln|c_j|  (0 read as 1), and every logarithm
   is taken of a number >= 1 (n >= 1 needs a non-empty tree: the real code
   returns nan for the empty tree) *)
Theorem aifeyn_value : forall tree pl s, aifeyn_complexity tree pl = Some s ->
  struct_value s = spec_value pl tree /\
  (tree <> [] -> 1 <= snd (fst s)) /\
  Forall (fun c => 1 <= c) (snd s).
Proof.
  intros tree pl s H. rewrite aifeyn_structure in H. unfold aifeyn_spec in H.
  destruct (existsb (is_bad pl) tree); [discriminate|].
  destruct (forallb int64_strict (spec_ints pl tree)); [|discriminate].
  inversion H. subst s. clear H. split; [apply struct_value_spec|]. split.
  - cbn [fst snd]. apply spec_n_pos.
  - cbn [snd]. apply Forall_forall. intros c Hc. apply in_map_iff in Hc.
    destruct Hc as [z [<- _]]. apply c01_pos.
Qed.

(* ================================================================ get_max_param *)

Definition gmp_cond (s : Z * list string) : bool := let '(m, w) := s in py_len w >? 0.
Definition gmp_body (s : Z * list string) : option (Z * list string) :=
  let '(m, w) := s in
  Some (m + 1, filter (fun f => py_str_contains (py_fmt_pct_i "a" "" (m + 1)) f) w).

Lemma get_max_param_unfold : forall F,
  get_max_param F =
  match while_fuel (S (S (max_strlen F))) gmp_cond gmp_body (-1, F) with
  | Some (m, _) => Some (if m <? 0 then 0 else m)
  | None => None
  end.
Proof.
  intros F. unfold get_max_param.
  replace (fun '(max_param, with_ai) => py_len with_ai >? 0) with gmp_cond by reflexivity.
  match goal with |- context [while_fuel _ gmp_cond ?b _] => replace b with gmp_body by reflexivity end.
  destruct (while_fuel _ gmp_cond gmp_body (-1, F)) as [[m w]|]; [|reflexivity].
  cbn [bind]. destruct (m <? 0); reflexivity.
Qed.

Definition aZ (i : Z) : string := py_fmt_pct_i "a" "" i.

Lemma gmp_step : forall fuel m w,
  while_fuel (S fuel) gmp_cond gmp_body (m, w) =
  match w with
  | [] => Some (m, w)
  | _ => while_fuel fuel gmp_cond gmp_body (m + 1, filter (fun f => py_str_contains (aZ (m + 1)) f) w)
  end.
Proof.
  intros fuel m w. cbn [while_fuel gmp_cond gmp_body bind]. unfold py_len.
  destruct w as [|f r]; [reflexivity|]. cbn [length].
  destruct (Z.gtb_spec (Z.of_nat (S (length r))) 0); [reflexivity | lia].
Qed.

(* the loop only moves forward and ends with an empty list *)
Lemma gmp_mono : forall fuel m w m' w',
  while_fuel fuel gmp_cond gmp_body (m, w) = Some (m', w') -> m <= m' /\ w' = [].
Proof.
  induction fuel as [|fuel IH]; intros m w m' w' H; [discriminate|].
  rewrite gmp_step in H. destruct w as [|f r].
  - inversion H. subst. split; [lia | reflexivity].
  - apply IH in H. destruct H. split; [lia | assumption].
Qed.

(* a string that contains a(m+1) .. a(m+K) keeps the loop running beyond m+K *)
Lemma gmp_cover : forall fuel m w m' w' f (K : nat),
  while_fuel fuel gmp_cond gmp_body (m, w) = Some (m', w') ->
  In f w ->
  (forall i, m < i <= m + Z.of_nat K -> py_str_contains (aZ i) f = true) ->
  m + Z.of_nat K + 1 <= m'.
Proof.
  induction fuel as [|fuel IH]; intros m w m' w' f K H Hin Hc; [discriminate|].
  rewrite gmp_step in H. destruct w as [|f0 r]; [destruct Hin|].
  destruct K as [|K].
  - apply gmp_mono in H. lia.
  - specialize (IH (m + 1) _ m' w' f K H).
    assert (Hin' : In f (filter (fun f => py_str_contains (aZ (m + 1)) f) (f0 :: r))).
    { apply filter_In. split; [exact Hin|]. apply Hc. lia. }
    specialize (IH Hin'). assert (m + 1 + Z.of_nat K + 1 <= m'); [|lia].
    apply IH. intros i Hi. apply Hc. lia.
Qed.

(* ---- substring test *)

Lemma append_nil_r : forall s, (s ++ "")%string = s.
Proof. induction s as [|c r IH]; simpl; [reflexivity | rewrite IH; reflexivity]. Qed.

Lemma append_assoc : forall a b c, ((a ++ b) ++ c)%string = (a ++ (b ++ c))%string.
Proof. induction a as [|x r IH]; intros; simpl; [reflexivity | rewrite IH; reflexivity]. Qed.

Lemma prefix_spec : forall s f, prefix s f = true <-> exists v, f = (s ++ v)%string.
Proof.
  induction s as [|a s IH]; intros f.
  - destruct f; simpl; split; eauto.
  - destruct f as [|b f]; simpl.
    + split; [discriminate | intros [v Hv]; discriminate].
    + destruct (ascii_dec a b) as [->|Hab].
      * rewrite IH. split; intros [v Hv]; exists v; [rewrite Hv; reflexivity | inversion Hv; reflexivity].
      * split; [discriminate|]. intros [v Hv]. inversion Hv. congruence.
Qed.

Lemma py_str_contains_unfold : forall s f,
  py_str_contains s f = (prefix s f || match f with EmptyString => false | String _ r => py_str_contains s r end)%bool.
Proof. intros s [|c r]; reflexivity. Qed.

(* s in f  <->  f = u s v *)
Lemma py_str_contains_spec : forall s f,
  py_str_contains s f = true <-> exists u v, f = (u ++ s ++ v)%string.
Proof.
  intros s f. induction f as [|c r IH]; rewrite py_str_contains_unfold.
  - rewrite orb_false_r, prefix_spec. split.
    + intros [v Hv]. exists EmptyString, v. exact Hv.
    + intros [u [v H]]. destruct u; [exists v; exact H | discriminate].
  - rewrite orb_true_iff, prefix_spec, IH. split.
    + intros [[v Hv] | [u [v Hr]]].
      * exists EmptyString, v. exact Hv.
      * exists (String c u), v. simpl. rewrite Hr. reflexivity.
    + intros [u [v H]]. destruct u as [|c' u'].
      * left. exists v. exact H.
      * right. simpl in H. inversion H. exists u', v. reflexivity.
Qed.

(* ---- strings as lists of characters *)

Notation la := list_ascii_of_string.
Local Open Scope list_scope.

Lemma la_app : forall s1 s2, la (s1 ++ s2) = (la s1 ++ la s2)%list.
Proof. induction s1 as [|c r IH]; intros; simpl; [reflexivity | rewrite IH; reflexivity]. Qed.

Lemma la_length : forall s, length (la s) = String.length s.
Proof. induction s as [|c r IH]; simpl; [reflexivity | rewrite IH; reflexivity]. Qed.

Lemma la_inj : forall s s', la s = la s' -> s = s'.
Proof.
  intros s s' H. rewrite <- (string_of_list_ascii_of_string s), <- (string_of_list_ascii_of_string s'), H.
  reflexivity.
Qed.

Lemma str_all_Forall : forall p s, str_all p s = true -> Forall (fun c => p c = true) (la s).
Proof.
  induction s as [|c r IH]; intros H; simpl in *; [constructor|].
  apply andb_true_iff in H. destruct H. constructor; auto.
Qed.

(* ---- '%i' % z *)

Lemma uint_str_digits : forall d, str_all is_ascii_digit (NilEmpty.string_of_uint d) = true.
Proof. induction d; simpl; auto. Qed.

Lemma uint_str_nonempty : forall d, d <> Decimal.Nil -> NilEmpty.string_of_uint d <> EmptyString.
Proof. destruct d; simpl; intros H; congruence. Qed.

Lemma to_int_nonneg : forall z, 0 <= z -> exists d, Z.to_int z = Decimal.Pos d /\ d <> Decimal.Nil.
Proof.
  intros [|p|p] H; simpl.
  - eexists; split; [reflexivity | discriminate].
  - eexists; split; [reflexivity | apply Unsigned.to_uint_nonnil].
  - lia.
Qed.

Lemma py_fmt_i_nonneg : forall z, 0 <= z ->
  str_all is_ascii_digit (py_fmt_i z) = true /\ py_fmt_i z <> EmptyString.
Proof.
  intros z Hz. destruct (to_int_nonneg z Hz) as [d [Hd Hn]]. unfold py_fmt_i. rewrite Hd.
  unfold NilZero.string_of_int, NilZero.string_of_uint.
  destruct d; try congruence; (split; [apply uint_str_digits | apply uint_str_nonempty; exact Hn]).
Qed.

Lemma py_fmt_i_inj : forall z z', py_fmt_i z = py_fmt_i z' -> z = z'.
Proof.
  intros z z' H. unfold py_fmt_i in H.
  assert (Hz : forall x, Z.to_int x <> Decimal.Pos Decimal.Nil /\ Z.to_int x <> Decimal.Neg Decimal.Nil).
  { intros [|p|p]; simpl; split; try discriminate;
      intros E; inversion E as [E']; exact (Unsigned.to_uint_nonnil p E'). }
  assert (E : Some (Z.to_int z) = Some (Z.to_int z')).
  { rewrite <- (NilZero.isi (Z.to_int z)), <- (NilZero.isi (Z.to_int z')); try apply Hz. rewrite H. reflexivity. }
  inversion E as [E']. rewrite <- (DecimalZ.of_to z), <- (DecimalZ.of_to z'), E'. reflexivity.
Qed.

Definition dig (j : nat) : list ascii := la (py_fmt_i (Z.of_nat j)).

Lemma la_aname : forall j, la (aname j) = "a"%char :: dig j.
Proof. intros j. unfold aname, py_fmt_pct_i, dig. rewrite append_nil_r. reflexivity. Qed.

Lemma dig_not_a : forall j, ~ In "a"%char (dig j).
Proof.
  intros j H. destruct (py_fmt_i_nonneg (Z.of_nat j)) as [Hd _]; [lia|].
  apply str_all_Forall in Hd. rewrite Forall_forall in Hd. specialize (Hd _ H). discriminate.
Qed.

Lemma dig_nonempty : forall j, (1 <= length (dig j))%nat.
Proof.
  intros j. destruct (py_fmt_i_nonneg (Z.of_nat j)) as [_ Hn]; [lia|].
  unfold dig. destruct (py_fmt_i (Z.of_nat j)); [congruence | simpl; lia].
Qed.

Lemma dig_inj : forall i j, dig i = dig j -> i = j.
Proof. intros i j H. apply la_inj, py_fmt_i_inj in H. lia. Qed.

(* parameter names do not look like integers *)
Lemma aname_not_numeric : forall j, numeric_like (aname j) = false.
Proof.
  intros j. unfold aname, py_fmt_pct_i. reflexivity.
Qed.

(* ---- how many of a0, a1, ... fit into one string *)

Definition occ (A f : list ascii) (e : nat) : Prop := exists u v, f = u ++ A ++ v /\ length v = e.

Lemma contains_occ : forall j f, py_str_contains (aname j) f = true -> exists e, occ ("a"%char :: dig j) (la f) e.
Proof.
  intros j f H. apply py_str_contains_spec in H. destruct H as [u [v H]].
  exists (length (la v)), (la u), (la v). split; [|reflexivity].
  rewrite H, !la_app, la_aname. reflexivity.
Qed.

Lemma occ_same_end : forall i j f e,
  occ ("a"%char :: dig i) f e -> occ ("a"%char :: dig j) f e -> i = j.
Proof.
  intros i j f e [u [v [H1 L1]]] [u' [v' [H2 L2]]].
  assert (Hs : (u ++ "a"%char :: dig i) ++ v = (u' ++ "a"%char :: dig j) ++ v').
  { rewrite <- !app_assoc. rewrite <- H1. exact H2. }
  assert (Hx : u ++ "a"%char :: dig i = u' ++ "a"%char :: dig j).
  { apply app_eq_app in Hs. destruct Hs as [l [[Ha Hb] | [Ha Hb]]].
    - assert (l = []) by (destruct l; [reflexivity | rewrite Hb, app_length in L2; simpl in L2; lia]).
      subst l. rewrite app_nil_r in Ha. exact Ha.
    - assert (l = []) by (destruct l; [reflexivity | rewrite Hb, app_length in L1; simpl in L1; lia]).
      subst l. rewrite app_nil_r in Ha. symmetry. exact Ha. }
  apply app_eq_app in Hx. destruct Hx as [l [[Ha Hb] | [Ha Hb]]].
  - destruct l as [|c l].
    + inversion Hb as [Hd]. apply dig_inj. symmetry. exact Hd.
    + inversion Hb as [[Hc Hd]]. exfalso. apply (dig_not_a j). rewrite Hd. apply in_or_app. right. left. reflexivity.
  - destruct l as [|c l].
    + inversion Hb as [Hd]. apply dig_inj. exact Hd.
    + inversion Hb as [[Hc Hd]]. exfalso. apply (dig_not_a i). rewrite Hd. apply in_or_app. right. left. reflexivity.
Qed.

Lemma occ_bound : forall j f e, occ ("a"%char :: dig j) f e -> (e + 2 <= length f)%nat.
Proof.
  intros j f e [u [v [H L]]]. rewrite H, !app_length. cbn [length]. pose proof (dig_nonempty j). lia.
Qed.

Lemma distinct_ends : forall n f,
  (forall i, (i < n)%nat -> exists e, occ ("a"%char :: dig i) f e) ->
  exists l, length l = n /\ NoDup l /\ forall e, In e l -> exists i, (i < n)%nat /\ occ ("a"%char :: dig i) f e.
Proof.
  induction n as [|n IH]; intros f H.
  - exists []. split; [reflexivity|]. split; [constructor | intros e []].
  - destruct (IH f) as [l [Hl [Hnd Hocc]]]; [intros i Hi; apply H; lia|].
    destruct (H n) as [e He]; [lia|].
    exists (e :: l). split; [simpl; lia|]. split.
    + constructor; [|exact Hnd]. intros Hin. destruct (Hocc e Hin) as [i [Hi Hoi]].
      pose proof (occ_same_end _ _ _ _ Hoi He). lia.
    + intros e' [<-|Hin]; [exists n; split; [lia | exact He]|].
      destruct (Hocc e' Hin) as [i [Hi Hoi]]. exists i. split; [lia | exact Hoi].
Qed.

(* a string that contains all of a0 .. a(n-1) has at least n+1 characters *)
Lemma names_bound : forall n f,
  (forall i, (i < n)%nat -> py_str_contains (aname i) f = true) ->
  n = O \/ (n + 1 <= String.length f)%nat.
Proof.
  intros n f H. destruct n as [|n]; [left; reflexivity | right].
  destruct (distinct_ends (S n) (la f)) as [l [Hl [Hnd Hocc]]].
  { intros i Hi. apply contains_occ, H, Hi. }
  assert (Hincl : incl l (seq 0 (String.length f - 1))).
  { intros e He. destruct (Hocc e He) as [i [_ Ho]]. apply occ_bound in Ho. rewrite la_length in Ho.
    apply in_seq. lia. }
  pose proof (NoDup_incl_length Hnd Hincl) as Hle. rewrite seq_length in Hle. lia.
Qed.

(* ---- the loop terminates within the fuel the translator gives it *)

Lemma max_strlen_ge : forall F f, In f F -> (String.length f <= max_strlen F)%nat.
Proof.
  induction F as [|g r IH]; intros f Hin; [destruct Hin|].
  destruct Hin as [<-|H]; simpl; [lia|]. specialize (IH f H). lia.
Qed.

Lemma gmp_total_aux : forall fuel m w (L : nat),
  0 <= m ->
  (forall f i, In f w -> 0 <= i <= m -> py_str_contains (aZ i) f = true) ->
  (forall f, In f w -> (String.length f <= L)%nat) ->
  w <> [] ->
  Z.of_nat L - m <= Z.of_nat fuel ->
  exists r, while_fuel fuel gmp_cond gmp_body (m, w) = Some r.
Proof.
  induction fuel as [|fuel IH]; intros m w L Hm Hinv Hlen Hne Hfuel.
  - exfalso. destruct w as [|f r]; [congruence|].
    destruct (names_bound (S (Z.to_nat m)) f) as [H|H]; [|discriminate|].
    + intros i Hi. unfold aname. apply (Hinv f (Z.of_nat i)); [left; reflexivity | lia].
    + specialize (Hlen f (or_introl eq_refl)). lia.
  - rewrite gmp_step. destruct w as [|f r]; [congruence|].
    assert (Hb : m + 2 <= Z.of_nat L).
    { destruct (names_bound (S (Z.to_nat m)) f) as [H|H]; [|discriminate|].
      - intros i Hi. unfold aname. apply (Hinv f (Z.of_nat i)); [left; reflexivity | lia].
      - specialize (Hlen f (or_introl eq_refl)). lia. }
    set (w1 := filter (fun f0 => py_str_contains (aZ (m + 1)) f0) (f :: r)).
    destruct w1 as [|g w1'] eqn:Ew.
    + destruct fuel as [|fuel']; [lia|]. rewrite gmp_step. eauto.
    + rewrite <- Ew. apply (IH (m + 1) w1 L); try lia.
      * intros f0 i Hf0 Hi. unfold w1 in Hf0. apply filter_In in Hf0. destruct Hf0 as [Hf0 Hc].
        destruct (Z.eq_dec i (m + 1)) as [->|Hneq]; [exact Hc|]. apply Hinv; [exact Hf0 | lia].
      * intros f0 Hf0. unfold w1 in Hf0. apply filter_In in Hf0. apply Hlen. tauto.
      * rewrite Ew. discriminate.
Qed.

Lemma gmp_loop_total : forall F, exists r, while_fuel (S (S (max_strlen F))) gmp_cond gmp_body (-1, F) = Some r.
Proof.
  intros F. rewrite gmp_step. destruct F as [|f r]; [eauto|].
  replace (-1 + 1) with 0 by lia.
  set (w1 := filter (fun f0 => py_str_contains (aZ 0) f0) (f :: r)).
  destruct w1 as [|g w1'] eqn:Ew.
  - rewrite gmp_step. eauto.
  - rewrite <- Ew. apply (gmp_total_aux _ 0 w1 (max_strlen (f :: r))); try lia.
    + intros f0 i Hf0 Hi. assert (i = 0) by lia. subst i.
      unfold w1 in Hf0. apply filter_In in Hf0. tauto.
    + intros f0 Hf0. unfold w1 in Hf0. apply filter_In in Hf0. apply max_strlen_ge. tauto.
    + rewrite Ew. discriminate.
Qed.

(* get_max_param always returns, and what it returns is >= 0 *)
Theorem get_max_param_total : forall F, exists m, get_max_param F = Some m /\ 0 <= m.
Proof.
  intros F. rewrite get_max_param_unfold. destruct (gmp_loop_total F) as [[m w] H]. rewrite H.
  exists (if m <? 0 then 0 else m). split; [reflexivity|]. destruct (Z.ltb_spec m 0); lia.
Qed.

(* T6: if some string of the list contains a0 .. a(K-1), the returned bound is >= K:
   param_list = [a0 .. a(bound-1)] then covers every parameter with index < K.
   (The scan is a substring test: 'a1' is also found inside 'a10'; that can only
   make the bound larger.) *)
Theorem max_param_covers : forall F f (K : nat),
  In f F -> (forall j, (j < K)%nat -> py_str_contains (aname j) f = true) ->
  exists m, get_max_param F = Some m /\ Z.of_nat K <= m.
Proof.
  intros F f K Hin Hc. rewrite get_max_param_unfold. destruct (gmp_loop_total F) as [[m w] H]. rewrite H.
  exists (if m <? 0 then 0 else m). split; [reflexivity|].
  assert (Hk : -1 + Z.of_nat K + 1 <= m).
  { apply (gmp_cover _ _ _ _ _ f K H Hin). intros i Hi.
    replace i with (Z.of_nat (Z.to_nat i)) by lia. apply (Hc (Z.to_nat i)). lia. }
  destruct (Z.ltb_spec m 0); lia.
Qed.

(* ================================================================ pipeline and single-tree API *)

(* some string of F mentions all of a0 .. a(K-1) *)
Definition covers (F : list string) (K : nat) : Prop :=
  exists f, In f F /\ forall j, (j < K)%nat -> py_str_contains (aname j) f = true.

Lemma covered_param_list : forall tree F (K : nat),
  (forall j, In (aname j) tree -> (j < K)%nat) -> covers F K ->
  exists m, get_max_param F = Some m /\
            aifeyn_complexity tree (gen_param_list m) = aifeyn_spec tree (anames K).
Proof.
  intros tree F K Ht [f [Hf Hc]]. destruct (max_param_covers F f K Hf Hc) as [m [Hm Hk]].
  exists m. split; [exact Hm|]. rewrite gen_param_list_anames, <- aifeyn_structure.
  apply aifeyn_cover_same. intros j Hj. specialize (Ht j Hj). lia.
Qed.

(* T7: generate_equations calls aifeyn_complexity(tree, param_list) with param_list built
   from get_max_param(all_fun[i]); tree_to_aifeyn / single_function call the same routine
   with param_list built from get_max_param([fstr]), fstr printed from the tree itself.
   If the tree uses parameters a0..a(K-1) (all of them, as ESR numbers them), fstr mentions
   every label of the tree, and the shape's strings cover a0..a(K-1), both calls return
   the same structure, namely the specification with parameters {a0..a(K-1)}. *)
Theorem single_tree_api_same : forall tree (K : nat) Fpipe fstr,
  (forall j, In (aname j) tree -> (j < K)%nat) ->
  (forall j, (j < K)%nat -> In (aname j) tree) ->
  (forall l, In l tree -> py_str_contains l fstr = true) ->
  covers Fpipe K ->
  exists mp ma, get_max_param Fpipe = Some mp /\ get_max_param [fstr] = Some ma /\
    aifeyn_complexity tree (gen_param_list ma) = aifeyn_complexity tree (gen_param_list mp) /\
    aifeyn_complexity tree (gen_param_list mp) = aifeyn_spec tree (anames K).
Proof.
  intros tree K Fpipe fstr Hlt Hall Hstr Hpipe.
  destruct (covered_param_list tree Fpipe K Hlt Hpipe) as [mp [Hmp Hp]].
  assert (Hapi : covers [fstr] K).
  { exists fstr. split; [left; reflexivity|]. intros j Hj. apply Hstr, Hall, Hj. }
  destruct (covered_param_list tree [fstr] K Hlt Hapi) as [ma [Hma Ha]].
  exists mp, ma. repeat split; try assumption. rewrite Ha, Hp. reflexivity.
Qed.

(* ================================================================ alignment of trees_n and aifeyn_n *)

Definition run_gen : fsys -> list shape_out -> option fsys :=
  run_generate get_max_param gen_param_list aifeyn_complexity gen_clear gen_plan gen_cats.

(* the param_list used for all trees of one shape *)
Definition pl_of (sh : shape_out) : list string :=
  match get_max_param (so_fun sh) with Some m => gen_param_list m | None => [] end.

(* (tree, shape it came from): originals of all shapes, then rewritten trees of all shapes *)
Definition rows (shapes : list shape_out) : list (list string * shape_out) :=
  flat_map (fun sh => map (fun t => (t, sh)) (so_all sh)) shapes ++
  flat_map (fun sh => map (fun t => (t, sh)) (so_extra sh)) shapes.

Lemma fs_read_write : forall fs n c n',
  fs_read (fs_write fs n c) n' = if String.eqb n n' then c else fs_read fs n'.
Proof. reflexivity. Qed.

Definition vals_all (sh : shape_out) : list line :=
  map (fun t => LVal (aifeyn_complexity t (pl_of sh))) (so_all sh).
Definition vals_extra (sh : shape_out) : list line :=
  map (fun t => LVal (aifeyn_complexity t (pl_of sh))) (so_extra sh).

Lemma plan_step : forall pl sh fs,
  let fs1 := fold_left (do_wstep aifeyn_complexity pl sh) gen_plan fs in
  fs_read fs1 "orig_trees" = fs_read fs "orig_trees" ++ map LTree (so_all sh) /\
  fs_read fs1 "extra_trees" = fs_read fs "extra_trees" ++ map LTree (so_extra sh) /\
  fs_read fs1 "orig_aifeyn" = fs_read fs "orig_aifeyn" ++ map (fun t => LVal (aifeyn_complexity t pl)) (so_all sh) /\
  fs_read fs1 "extra_aifeyn" = fs_read fs "extra_aifeyn" ++ map (fun t => LVal (aifeyn_complexity t pl)) (so_extra sh).
Proof.
  intros pl sh fs. unfold gen_plan. cbn [fold_left]. unfold do_wstep, fs_append.
  cbn [w_file w_src w_pay pick]. rewrite !fs_read_write. simpl (String.eqb _ _).
  repeat split; reflexivity.
Qed.

Lemma loop_inv : forall shapes fs,
  exists fs', fold_left (do_shape get_max_param gen_param_list aifeyn_complexity gen_plan) shapes (Some fs) = Some fs' /\
    fs_read fs' "orig_trees" = fs_read fs "orig_trees" ++ map LTree (flat_map so_all shapes) /\
    fs_read fs' "extra_trees" = fs_read fs "extra_trees" ++ map LTree (flat_map so_extra shapes) /\
    fs_read fs' "orig_aifeyn" = fs_read fs "orig_aifeyn" ++ flat_map vals_all shapes /\
    fs_read fs' "extra_aifeyn" = fs_read fs "extra_aifeyn" ++ flat_map vals_extra shapes.
Proof.
  induction shapes as [|sh r IH]; intros fs.
  - exists fs. cbn [fold_left flat_map map]. rewrite !app_nil_r. repeat split; reflexivity.
  - cbn [fold_left]. unfold do_shape at 2. cbn [bind].
    destruct (get_max_param_total (so_fun sh)) as [m [Hm _]]. rewrite Hm. cbn [bind].
    destruct (plan_step (gen_param_list m) sh fs) as [P1 [P2 [P3 P4]]].
    destruct (IH (fold_left (do_wstep aifeyn_complexity (gen_param_list m) sh) gen_plan fs))
      as [fs' [Hf [I1 [I2 [I3 I4]]]]].
    exists fs'. split; [exact Hf|].
    rewrite I1, I2, I3, I4, P1, P2, P3, P4. cbn [flat_map]. rewrite !map_app, <- !app_assoc.
    unfold vals_all at 2, vals_extra at 2, pl_of. rewrite Hm. repeat split; reflexivity.
Qed.

Lemma rows_fst : forall (sel : shape_out -> list (list string)) shapes,
  map LTree (flat_map sel shapes)
  = map (fun r : list string * shape_out => LTree (fst r)) (flat_map (fun sh => map (fun t => (t, sh)) (sel sh)) shapes).
Proof.
  intros sel. induction shapes as [|sh r IH]; [reflexivity|].
  cbn [flat_map]. rewrite !map_app, IH, map_map. reflexivity.
Qed.

Lemma rows_val : forall (sel : shape_out -> list (list string)) shapes,
  flat_map (fun sh => map (fun t => LVal (aifeyn_complexity t (pl_of sh))) (sel sh)) shapes
  = map (fun r : list string * shape_out => LVal (aifeyn_complexity (fst r) (pl_of (snd r))))
        (flat_map (fun sh => map (fun t => (t, sh)) (sel sh)) shapes).
Proof.
  intros sel. induction shapes as [|sh r IH]; [reflexivity|].
  cbn [flat_map]. rewrite !map_app, IH, map_map. reflexivity.
Qed.

(* T8: whatever the four part files and the two final files contained before, after
   generate_equations  trees_n = [tree of row i]_i  and  aifeyn_n = [code length of the
   tree of row i, under its shape's param_list]_i  for one and the same list of rows
   (originals of every shape in order, then rewritten trees of every shape in order). *)
Theorem alignment : forall fs0 shapes,
  exists fs, run_gen fs0 shapes = Some fs /\
    fs_read fs "trees" = map (fun r => LTree (fst r)) (rows shapes) /\
    fs_read fs "aifeyn" = map (fun r => LVal (aifeyn_complexity (fst r) (pl_of (snd r)))) (rows shapes).
Proof.
  intros fs0 shapes. unfold run_gen, run_generate.
  set (fs1 := fold_left (fun fs n => fs_write fs n []) gen_clear fs0).
  destruct (loop_inv shapes fs1) as [fs2 [Hf [I1 [I2 [I3 I4]]]]]. rewrite Hf. cbn [bind].
  eexists. split; [reflexivity|].
  assert (C1 : fs_read fs1 "orig_trees" = []) by reflexivity.
  assert (C2 : fs_read fs1 "extra_trees" = []) by reflexivity.
  assert (C3 : fs_read fs1 "orig_aifeyn" = []) by reflexivity.
  assert (C4 : fs_read fs1 "extra_aifeyn" = []) by reflexivity.
  rewrite C1 in I1. rewrite C2 in I2. rewrite C3 in I3. rewrite C4 in I4. cbn [app] in *.
  unfold gen_cats. cbn [fold_left]. unfold do_cat. cbn [fst snd map concat].
  repeat (rewrite !fs_read_write; simpl (String.eqb _ _)).
  rewrite I1, I2, I3, I4, !app_nil_r. unfold rows. rewrite !map_app.
  unfold vals_all, vals_extra. rewrite (rows_val so_all), (rows_val so_extra).
  rewrite (rows_fst so_all), (rows_fst so_extra). split; reflexivity.
Qed.

Lemma rows_In : forall shapes r, In r (rows shapes) ->
  In (snd r) shapes /\ (In (fst r) (so_all (snd r)) \/ In (fst r) (so_extra (snd r))).
Proof.
  intros shapes [t sh] H. unfold rows in H. apply in_app_or in H. cbn [fst snd].
  destruct H as [H|H]; apply in_flat_map in H; destruct H as [sh' [Hs Hm]];
    apply in_map_iff in Hm; destruct Hm as [t' [E Ht]]; inversion E; subst; auto.
Qed.

(* line i of aifeyn_n is the code length of the tree on line i of trees_n *)
Theorem alignment_lines : forall fs0 shapes fs i t,
  run_gen fs0 shapes = Some fs ->
  length (fs_read fs "trees") = length (fs_read fs "aifeyn") /\
  (nth_error (fs_read fs "trees") i = Some (LTree t) ->
   exists sh, In sh shapes /\ (In t (so_all sh) \/ In t (so_extra sh)) /\
     nth_error (fs_read fs "aifeyn") i = Some (LVal (aifeyn_complexity t (pl_of sh)))).
Proof.
  intros fs0 shapes fs i t H. destruct (alignment fs0 shapes) as [fs' [H' [A1 A2]]].
  rewrite H in H'. inversion H'. subst fs'. rewrite A1, A2. split; [rewrite !map_length; reflexivity|].
  rewrite !nth_error_map. destruct (nth_error (rows shapes) i) as [r|] eqn:E; cbn [option_map]; [|discriminate].
  intros Ht. inversion Ht. subst t. exists (snd r).
  apply nth_error_In in E. destruct (rows_In _ _ E) as [R1 R2]. auto.
Qed.

(* a shape whose strings cover the parameters of all its trees *)
Definition shape_covered (sh : shape_out) (K : nat) : Prop :=
  covers (so_fun sh) K /\
  forall t, In t (so_all sh) \/ In t (so_extra sh) -> forall j, In (aname j) t -> (j < K)%nat.

(* ... then the value on the line is the specification with parameters {a0..a(K-1)} *)
Theorem line_value : forall sh K t, shape_covered sh K ->
  In t (so_all sh) \/ In t (so_extra sh) ->
  aifeyn_complexity t (pl_of sh) = aifeyn_spec t (anames K).
Proof.
  intros sh K t [Hc Ht] Hin. destruct (covered_param_list t (so_fun sh) K (Ht t Hin) Hc) as [m [Hm Hv]].
  unfold pl_of. rewrite Hm. exact Hv.
Qed.

(* the contiguity hypothesis of single_tree_api_same is needed: with parameters a1, a2
   (no a0) the single-tree API's scan stops at a0, param_list is empty, and a1, a2 are
   counted as two further operators *)
Lemma api_gap_witness :
  let tree := ["+"; "a1"; "a2"]%string in
  get_max_param ["(a1)+(a2)"%string] = Some 0 /\
  aifeyn_complexity tree (gen_param_list 0) = Some (3, 3, []) /\
  aifeyn_spec tree (anames 3) = Some (3, 2, []).
Proof. vm_compute. repeat split; reflexivity. Qed.

Lemma param_names_not_numeric : forall m l, In l (gen_param_list m) -> numeric_like l = false.
Proof.
  intros m l H. rewrite gen_param_list_anames in H. apply In_anames in H.
  destruct H as [j [_ ->]]. apply aname_not_numeric.
Qed.

Lemma aname_inj : forall i j, aname i = aname j -> i = j.
Proof.
  intros i j H. apply (f_equal list_ascii_of_string) in H. rewrite !la_aname in H.
  inversion H as [Hd]. apply dig_inj. exact Hd.
Qed.

Lemma aname_first : forall j, exists r, aname j = String "a" r.
Proof. intros j. unfold aname, py_fmt_pct_i. simpl. eauto. Qed.

(* non-vacuity of shape_covered / covers (used as an Example in Props/C08.v) *)
Lemma shape_covered_example :
  shape_covered {| so_fun := ["(x)+(a0)"; "(a0)+(a1)"]%string;
                   so_all := [["+"; "x"; "a0"]; ["+"; "a0"; "a1"]]%string;
                   so_extra := [["a1"]]%string |} 2.
Proof.
  split.
  - exists "(a0)+(a1)"%string. split; [right; left; reflexivity|].
    intros j Hj. destruct j as [|[|j]]; [reflexivity | reflexivity | lia].
  - assert (Hop : forall j l r, l = aname j -> l = String "+" r \/ l = String "x" r -> False).
    { intros j l r E [H|H]; destruct (aname_first j) as [r' Hr]; rewrite H, Hr in E; discriminate. }
    assert (H0 : forall j, "a0"%string = aname j -> (j < 2)%nat).
    { intros j E. change "a0"%string with (aname 0) in E. apply aname_inj in E. lia. }
    assert (H1 : forall j, "a1"%string = aname j -> (j < 2)%nat).
    { intros j E. change "a1"%string with (aname 1) in E. apply aname_inj in E. lia. }
    cbn [so_all so_extra]. intros t Ht j Hj.
    destruct Ht as [[<-|[<-|[]]]|[<-|[]]]; cbn [In] in Hj;
      repeat (destruct Hj as [Hj|Hj]);
      try (exfalso; exact Hj);
      try (apply H0; exact Hj); try (apply H1; exact Hj);
      (exfalso; eapply Hop; [exact Hj | (left; reflexivity) || (right; reflexivity)]).
Qed.
