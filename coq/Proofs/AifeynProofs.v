(* C08 -- lemmas about the translated aifeyn_complexity / get_max_param
   (Gen/GenAifeyn.v, regenerated from /repo on every run) and the models in
   Model/AifeynSpec.v. *)
From Coq Require Import String Ascii ZArith List Bool Lia Reals DecimalString DecimalZ DecimalPos.
From ESRV Require Import Common.Py Model.AifeynSpec Gen.GenAifeyn.
Import ListNotations.
Open Scope Z_scope.
Local Opaque Z.mul.

(* ================================================================ idioms *)

Lemma py_in_spec : forall x l, py_in x l = true <-> In x l.
Proof.
  intros x l. unfold py_in. rewrite existsb_exists. split.
  - intros [y [Hy He]]. apply String.eqb_eq in He. subst. exact Hy.
  - intros H. exists x. split; [exact H | apply String.eqb_refl].
Qed.

Lemma py_in_false : forall x l, py_in x l = false <-> ~ In x l.
Proof.
  intros x l. rewrite <- py_in_spec. destruct (py_in x l); split; congruence.
Qed.

Lemma py_set_In : forall l x, In x (py_set l) <-> In x l.
Proof.
  induction l as [|y r IH]; intros x; simpl; [tauto|].
  destruct (py_in y r) eqn:E.
  - rewrite IH. apply py_in_spec in E. split; [tauto|]. intros [H|H]; subst; tauto.
  - simpl. rewrite IH. tauto.
Qed.

Lemma py_set_NoDup : forall l, NoDup (py_set l).
Proof.
  induction l as [|y r IH]; simpl; [constructor|].
  destruct (py_in y r) eqn:E; [exact IH|].
  constructor; [|exact IH]. rewrite py_set_In. apply py_in_false. exact E.
Qed.

(* len(set(l)) is the number of distinct elements: any duplicate-free list with
   the same elements has that length *)
Lemma py_set_canonical : forall l l', NoDup l' -> (forall x, In x l' <-> In x l) ->
  length l' = length (py_set l).
Proof.
  intros l l' Hnd Hin. apply Nat.le_antisymm; apply NoDup_incl_length.
  - exact Hnd.
  - intros x Hx. apply py_set_In, Hin, Hx.
  - apply py_set_NoDup.
  - intros x Hx. apply Hin, py_set_In, Hx.
Qed.

Fixpoint dashes (n : nat) : string :=
  match n with O => EmptyString | S k => String "-" (dashes k) end.

(* s.lstrip("-") removes exactly the leading run of '-' *)
Lemma py_lstrip_dash_spec : forall s, exists n,
  s = (dashes n ++ py_lstrip "-" s)%string /\
  (forall r, py_lstrip "-" s <> String "-" r).
Proof.
  induction s as [|c r IH].
  - exists O. split; [reflexivity | discriminate].
  - simpl. destruct (Ascii.eqb c "-") eqn:E.
    + apply Ascii.eqb_eq in E. subst c. simpl. destruct IH as [n [H1 H2]].
      exists (S n). split; [simpl; f_equal; exact H1 | exact H2].
    + simpl. exists O. split; [reflexivity|].
      intros r' H. inversion H. subst. rewrite Ascii.eqb_refl in E. discriminate.
Qed.

Lemma py_isdigit_spec : forall s,
  py_isdigit s = true <-> s <> EmptyString /\ str_all is_py_digit s = true.
Proof.
  destruct s; simpl; split; try tauto; try (intros [H _]; congruence); try discriminate.
  intros H. split; [discriminate | exact H].
Qed.

(* decimal value: appending a digit is  v -> 10 v + digit *)
Lemma digits_val_snoc : forall s acc c, is_ascii_digit c = true ->
  digits_val acc (s ++ String c EmptyString)
  = option_map (fun v => 10 * v + (Z.of_nat (code c) - 48)) (digits_val acc s).
Proof.
  induction s as [|d r IH]; intros acc c Hc; simpl.
  - rewrite Hc. reflexivity.
  - destruct (is_ascii_digit d); [apply IH; exact Hc | reflexivity].
Qed.

Lemma digits_val_some : forall s acc, str_all is_ascii_digit s = true ->
  exists v, digits_val acc s = Some v.
Proof.
  induction s as [|d r IH]; intros acc H; simpl in *.
  - eauto.
  - apply andb_true_iff in H. destruct H as [H1 H2]. rewrite H1. apply IH. exact H2.
Qed.

Lemma digits_val_nonneg : forall s acc v, 0 <= acc -> digits_val acc s = Some v -> 0 <= v.
Proof.
  induction s as [|d r IH]; intros acc v Ha H; simpl in *.
  - inversion H. subst. exact Ha.
  - destruct (is_ascii_digit d) eqn:E; [|discriminate].
    eapply IH; [|exact H]. unfold is_ascii_digit in E. apply andb_true_iff in E. destruct E as [E1 E2].
    apply Nat.leb_le in E1. apply Nat.leb_le in E2. lia.
Qed.

Lemma ascii_digit_is_py_digit : forall c, is_ascii_digit c = true -> is_py_digit c = true.
Proof. intros c H. unfold is_py_digit. rewrite H. reflexivity. Qed.

Lemma ascii_digit_not_dash : forall c, is_ascii_digit c = true -> Ascii.eqb c "-" = false.
Proof.
  intros c H. destruct (Ascii.eqb c "-") eqn:E; [|reflexivity].
  apply Ascii.eqb_eq in E. subst. discriminate.
Qed.

Lemma str_all_impl : forall (p q : ascii -> bool) s, (forall c, p c = true -> q c = true) ->
  str_all p s = true -> str_all q s = true.
Proof.
  induction s as [|c r IH]; intros Hpq H; simpl in *; [reflexivity|].
  apply andb_true_iff in H. destruct H as [H1 H2]. rewrite (Hpq _ H1), (IH Hpq H2). reflexivity.
Qed.

(* int(d) and int("-" d) for a non-empty string d of ASCII digits *)
Lemma py_int_digits : forall d, d <> EmptyString -> str_all is_ascii_digit d = true ->
  exists v, 0 <= v /\ digits_val 0 d = Some v /\ py_int d = Some v /\ py_int (String "-" d) = Some (- v).
Proof.
  intros d Hne Hd. destruct (digits_val_some d 0 Hd) as [v Hv].
  exists v. split; [eapply digits_val_nonneg; [|exact Hv]; lia|]. split; [exact Hv|]. split.
  - destruct d as [|c r]; [congruence|]. unfold py_int.
    simpl in Hd. apply andb_true_iff in Hd. destruct Hd as [Hc _].
    rewrite (ascii_digit_not_dash _ Hc). exact Hv.
  - unfold py_int. rewrite Ascii.eqb_refl. destruct d; [congruence|]. rewrite Hv. reflexivity.
Qed.

Lemma numeric_like_digits : forall d, d <> EmptyString -> str_all is_ascii_digit d = true ->
  numeric_like d = true /\ numeric_like (String "-" d) = true.
Proof.
  intros d Hne Hd.
  assert (Hs : py_lstrip "-" d = d).
  { destruct d as [|c r]; [reflexivity|]. simpl in *. apply andb_true_iff in Hd. destruct Hd as [Hc _].
    rewrite (ascii_digit_not_dash _ Hc). reflexivity. }
  assert (Hn : numeric_like d = true).
  { unfold numeric_like. rewrite Hs. apply py_isdigit_spec. split; [exact Hne|].
    eapply str_all_impl; [apply ascii_digit_is_py_digit | exact Hd]. }
  split; [exact Hn|]. unfold numeric_like in *. simpl. exact Hn.
Qed.

(* ================================================================ aifeyn_complexity = specification *)

Lemma is_op_filter : forall pl tt,
  (negb (py_in tt pl) && negb (py_isdigit (py_lstrip "-" tt)))%bool = is_op pl tt.
Proof.
  intros pl tt. unfold is_op, classify, numeric_like.
  destruct (py_isdigit (py_lstrip "-" tt)); [destruct (py_int tt)|]; destruct (py_in tt pl); reflexivity.
Qed.

Lemma ints_of_tree : forall pl tree,
  py_map_opt (fun tt => py_int tt) (filter (fun tt => py_isdigit (py_lstrip "-" tt)) tree)
  = if existsb (is_bad pl) tree then None else Some (spec_ints pl tree).
Proof.
  intros pl. induction tree as [|l r IH]; [reflexivity|].
  simpl. unfold is_bad at 1, int_of at 1, classify, numeric_like.
  destruct (py_isdigit (py_lstrip "-" l)) eqn:E.
  - simpl. destruct (py_int l) eqn:Ei; simpl; [|reflexivity].
    rewrite IH. destruct (existsb (is_bad pl) r); reflexivity.
  - rewrite IH. destruct (py_in l pl); simpl; reflexivity.
Qed.

Lemma filter_length_le : forall {A} (p : A -> bool) l, (length (filter p l) <= length l)%nat.
Proof. induction l as [|x r IH]; simpl; [lia|]. destruct (p x); simpl; lia. Qed.

Lemma filter_length_lt : forall {A} (p : A -> bool) l x, In x l -> p x = false ->
  (length (filter p l) < length l)%nat.
Proof.
  induction l as [|y r IH]; intros x Hin Hp; [destruct Hin|].
  pose proof (filter_length_le p r) as Hle. cbn [filter length].
  destruct Hin as [->|Hin].
  - rewrite Hp. lia.
  - specialize (IH x Hin Hp). destruct (p y); cbn [length]; lia.
Qed.

Lemma filter_all_id : forall {A} (p : A -> bool) l, existsb (fun x => negb (p x)) l = false -> filter p l = l.
Proof.
  induction l as [|y r IH]; intros H; [reflexivity|].
  cbn [existsb filter] in *. apply orb_false_iff in H. destruct H as [H1 H2].
  apply negb_false_iff in H1. rewrite H1, (IH H2). reflexivity.
Qed.

Lemma filter_length_all : forall {A} (p : A -> bool) l,
  negb (py_len (filter p l) =? py_len l) = existsb (fun x => negb (p x)) l.
Proof.
  intros A p l. unfold py_len. destruct (existsb (fun x => negb (p x)) l) eqn:E.
  - apply existsb_exists in E. destruct E as [x [Hin Hp]]. apply negb_true_iff in Hp.
    pose proof (filter_length_lt p l x Hin Hp). apply negb_true_iff, Z.eqb_neq. lia.
  - rewrite (filter_all_id p l E). rewrite Z.eqb_refl. reflexivity.
Qed.

Lemma abs_where : forall n, np_abs (np_set_where_eq n 0 1) = map c01 n.
Proof.
  intros n. unfold np_abs, np_set_where_eq. rewrite map_map. apply map_ext.
  intros x. unfold c01. destruct (x =? 0); reflexivity.
Qed.

(* T1: the translated function is the specification, for every label list and
   every param_list *)
Theorem aifeyn_structure : forall tree pl, aifeyn_complexity tree pl = aifeyn_spec tree pl.
Proof.
  intros tree pl. unfold aifeyn_complexity, aifeyn_spec.
  rewrite (ints_of_tree pl tree).
  destruct (existsb (is_bad pl) tree); [reflexivity|]. simpl.
  unfold np_int_array. destruct (forallb int64_strict (spec_ints pl tree)); [|reflexivity]. simpl.
  rewrite abs_where.
  rewrite (filter_ext _ _ (is_op_filter pl) tree).
  rewrite filter_length_all.
  reflexivity.
Qed.

(* when there is no answer: exactly the two documented reasons *)
Theorem aifeyn_none_iff : forall tree pl,
  aifeyn_complexity tree pl = None <->
  (exists l, In l tree /\ numeric_like l = true /\ py_int l = None) \/
  (exists l z, In l tree /\ numeric_like l = true /\ py_int l = Some z /\ int64_strict z = false).
Proof.
  intros tree pl. rewrite aifeyn_structure. unfold aifeyn_spec.
  destruct (existsb (is_bad pl) tree) eqn:Eb.
  - split; [intros _|reflexivity]. left. apply existsb_exists in Eb. destruct Eb as [l [Hl Hb]].
    exists l. split; [exact Hl|]. unfold is_bad, classify in Hb.
    destruct (numeric_like l); [destruct (py_int l); [discriminate|tauto]|].
    destruct (py_in l pl); discriminate.
  - destruct (forallb int64_strict (spec_ints pl tree)) eqn:Ef.
    + split; [discriminate|]. intros [[l [Hl [Hn Hi]]] | [l [z [Hl [Hn [Hi Hz]]]]]].
      * assert (existsb (is_bad pl) tree = true); [|congruence].
        apply existsb_exists. exists l. split; [exact Hl|]. unfold is_bad, classify. rewrite Hn, Hi. reflexivity.
      * rewrite forallb_forall in Ef. assert (Hz' : int64_strict z = true); [apply Ef | congruence].
        unfold spec_ints. apply in_flat_map. exists l. split; [exact Hl|].
        unfold int_of, classify. rewrite Hn, Hi. left. reflexivity.
    + split; [intros _|reflexivity]. right.
      assert (Hex : exists z, In z (spec_ints pl tree) /\ int64_strict z = false).
      { clear Eb. induction (spec_ints pl tree) as [|z r IH]; [discriminate|].
        simpl in Ef. destruct (int64_strict z) eqn:Ez.
        - destruct (IH Ef) as [z' [H1 H2]]. exists z'. split; [right; exact H1 | exact H2].
        - exists z. split; [left; reflexivity | exact Ez]. }
      destruct Hex as [z [Hz1 Hz2]]. unfold spec_ints in Hz1. apply in_flat_map in Hz1.
      destruct Hz1 as [l [Hl Hz]]. exists l, z. split; [exact Hl|].
      unfold int_of, classify in Hz. destruct (numeric_like l).
      * destruct (py_int l); [|destruct Hz]. destruct Hz as [Hz|[]]. subst. tauto.
      * destruct (py_in l pl); destruct Hz.
Qed.

(* ================================================================ congruence: renaming, zero, sign *)

(* two labels (under two param lists) that the code length cannot tell apart *)
Definition lequiv (pl pl' : list string) (l l' : string) : Prop :=
  match classify pl l, classify pl' l' with
  | COp, COp => l = l'
  | CParam, CParam => True
  | CBad, CBad => True
  | CInt z, CInt z' => c01 z = c01 z' /\ int64_strict z = int64_strict z'
  | _, _ => False
  end.

Lemma lequiv_refl : forall pl l, lequiv pl pl l l.
Proof. intros pl l. unfold lequiv. destruct (classify pl l); auto. Qed.

Lemma spec_congr_parts : forall pl pl' t t', Forall2 (lequiv pl pl') t t' ->
  existsb (is_bad pl) t = existsb (is_bad pl') t' /\
  forallb int64_strict (spec_ints pl t) = forallb int64_strict (spec_ints pl' t') /\
  map c01 (spec_ints pl t) = map c01 (spec_ints pl' t') /\
  length t = length t' /\
  spec_ops pl t = spec_ops pl' t' /\
  spec_grouped pl t = spec_grouped pl' t'.
Proof.
  intros pl pl' t t' H. induction H as [|x y r r' Hxy Hr IH].
  - repeat split.
  - destruct IH as [I1 [I2 [I3 [I4 [I5 I6]]]]].
    unfold spec_ints, spec_ops, spec_grouped, is_bad, int_of, is_op in *. cbn [existsb flat_map filter length].
    unfold lequiv in Hxy.
    destruct (classify pl x), (classify pl' y); try contradiction;
      cbn [app forallb map negb orb andb];
      rewrite ?I1, ?I2, ?I3, ?I4, ?I5, ?I6; try (repeat split; reflexivity).
    + destruct Hxy as [Hc Hi]. rewrite Hc, Hi. repeat split; reflexivity.
    + subst y. repeat split; reflexivity.
Qed.

Lemma spec_congr : forall pl pl' t t', Forall2 (lequiv pl pl') t t' ->
  aifeyn_spec t pl = aifeyn_spec t' pl'.
Proof.
  intros pl pl' t t' H. destruct (spec_congr_parts _ _ _ _ H) as [I1 [I2 [I3 [I4 [I5 I6]]]]].
  unfold aifeyn_spec, spec_n, spec_k. rewrite I1, I2, I3, I4, I5, I6. reflexivity.
Qed.

Lemma Forall2_refl_lequiv : forall pl t, Forall2 (lequiv pl pl) t t.
Proof. induction t; constructor; [apply lequiv_refl | assumption]. Qed.

(* T2: renaming parameters.  rho may send parameters anywhere inside param_list
   (injectivity is not even needed: all parameters count as one symbol) and
   must leave every other label alone. *)
Theorem aifeyn_rename_invariant : forall (rho : string -> string) tree pl,
  (forall l, In l pl -> In (rho l) pl) ->
  (forall l, ~ In l pl -> rho l = l) ->
  (forall l, In l pl -> numeric_like l = false) ->
  aifeyn_complexity (map rho tree) pl = aifeyn_complexity tree pl.
Proof.
  intros rho tree pl Hin Hout Hnum. rewrite !aifeyn_structure. symmetry. apply spec_congr.
  induction tree as [|l r IH]; [constructor|]. cbn [map]. constructor; [|exact IH].
  destruct (py_in l pl) eqn:E.
  - apply py_in_spec in E. unfold lequiv, classify.
    rewrite (Hnum l E), (Hnum _ (Hin l E)).
    apply py_in_spec in E. rewrite E. apply py_in_spec in E.
    pose proof (Hin l E) as E'. apply py_in_spec in E'. rewrite E'. exact I.
  - apply py_in_false in E. rewrite (Hout l E). apply lequiv_refl.
Qed.

(* two param lists that agree on the labels of the tree give the same answer *)
Theorem aifeyn_param_list_agree : forall tree pl1 pl2,
  (forall l, In l tree -> (In l pl1 <-> In l pl2)) ->
  aifeyn_complexity tree pl1 = aifeyn_complexity tree pl2.
Proof.
  intros tree pl1 pl2 H. rewrite !aifeyn_structure. apply spec_congr.
  induction tree as [|l r IH]; [constructor|]. constructor.
  - unfold lequiv, classify. assert (E : py_in l pl1 = py_in l pl2).
    { specialize (H l (or_introl eq_refl)).
      destruct (py_in l pl1) eqn:E1; destruct (py_in l pl2) eqn:E2; try reflexivity.
      - apply py_in_spec in E1. apply py_in_false in E2. tauto.
      - apply py_in_spec in E2. apply py_in_false in E1. tauto. }
    rewrite E. destruct (numeric_like l); [destruct (py_int l); auto|]. destruct (py_in l pl2); auto.
  - apply IH. intros l' Hl'. apply H. right. exact Hl'.
Qed.

Lemma aifeyn_replace : forall pl x y t1 t2, lequiv pl pl x y ->
  aifeyn_complexity (t1 ++ x :: t2) pl = aifeyn_complexity (t1 ++ y :: t2) pl.
Proof.
  intros pl x y t1 t2 H. rewrite !aifeyn_structure. apply spec_congr.
  apply Forall2_app; [apply Forall2_refl_lequiv|]. constructor; [exact H | apply Forall2_refl_lequiv].
Qed.

(* T3: an integer constant 0 is read as 1 *)
Theorem aifeyn_zero_general : forall pl x t1 t2, classify pl x = CInt 0 ->
  aifeyn_complexity (t1 ++ x :: t2) pl = aifeyn_complexity (t1 ++ "1"%string :: t2) pl.
Proof.
  intros pl x t1 t2 H. apply aifeyn_replace. unfold lequiv. rewrite H.
  unfold classify. cbn. split; reflexivity.
Qed.

Theorem aifeyn_zero_as_one : forall pl t1 t2,
  aifeyn_complexity (t1 ++ "0"%string :: t2) pl = aifeyn_complexity (t1 ++ "1"%string :: t2) pl.
Proof. intros. apply aifeyn_zero_general. reflexivity. Qed.

Lemma c01_opp : forall v, c01 (- v) = c01 v.
Proof.
  intros v. unfold c01. rewrite Z.abs_opp.
  destruct (Z.eqb_spec v 0); destruct (Z.eqb_spec (- v) 0); try reflexivity; lia.
Qed.

Lemma int64_strict_opp : forall v, int64_strict (- v) = int64_strict v.
Proof.
  intros v. unfold int64_strict.
  destruct (Z.ltb_spec (-9223372036854775808) (- v)); destruct (Z.ltb_spec (- v) 9223372036854775808);
  destruct (Z.ltb_spec (-9223372036854775808) v); destruct (Z.ltb_spec v 9223372036854775808);
  try reflexivity; lia.
Qed.

(* T4: a negative integer constant costs as much as its absolute value *)
Theorem aifeyn_negative_abs : forall pl d t1 t2,
  d <> EmptyString -> str_all is_ascii_digit d = true ->
  aifeyn_complexity (t1 ++ String "-" d :: t2) pl = aifeyn_complexity (t1 ++ d :: t2) pl.
Proof.
  intros pl d t1 t2 Hne Hd. apply aifeyn_replace.
  destruct (py_int_digits d Hne Hd) as [v [_ [_ [H1 H2]]]].
  destruct (numeric_like_digits d Hne Hd) as [N1 N2].
  unfold lequiv, classify. rewrite N1, N2, H1, H2.
  split; [apply c01_opp | apply int64_strict_opp].
Qed.

(* what such a constant contributes *)
Lemma classify_digits : forall pl d, d <> EmptyString -> str_all is_ascii_digit d = true ->
  exists v, 0 <= v /\ digits_val 0 d = Some v /\
            classify pl d = CInt v /\ classify pl (String "-" d) = CInt (- v).
Proof.
  intros pl d Hne Hd. destruct (py_int_digits d Hne Hd) as [v [Hv [Hdv [H1 H2]]]].
  destruct (numeric_like_digits d Hne Hd) as [N1 N2].
  exists v. unfold classify. rewrite N1, N2, H1, H2. auto.
Qed.

(* ================================================================ parameter names a0, a1, ... *)

Lemma In_anames : forall m l, In l (anames m) <-> exists j, (j < m)%nat /\ l = aname j.
Proof.
  intros m l. unfold anames. rewrite in_map_iff. split.
  - intros [j [Hj Hin]]. apply in_seq in Hin. exists j. split; [lia | auto].
  - intros [j [Hj ->]]. exists j. split; [reflexivity | apply in_seq; lia].
Qed.

Lemma gen_param_list_anames : forall m, gen_param_list m = anames (Z.to_nat m).
Proof.
  intros m. unfold gen_param_list, anames, zrange, aname. rewrite map_map. reflexivity.
Qed.

(* param lists a0..a(m1-1) and a0..a(m2-1) that both cover the tree's parameters *)
Theorem aifeyn_cover_same : forall tree m1 m2,
  (forall j, In (aname j) tree -> (j < m1)%nat /\ (j < m2)%nat) ->
  aifeyn_complexity tree (anames m1) = aifeyn_complexity tree (anames m2).
Proof.
  intros tree m1 m2 H. apply aifeyn_param_list_agree. intros l Hl. rewrite !In_anames.
  split; intros [j [Hj ->]]; exists j; (split; [|reflexivity]); destruct (H j Hl); assumption.
Qed.

(* ================================================================ the real value *)

Lemma c01_pos : forall z, 1 <= c01 z.
Proof. intros z. unfold c01. destruct (Z.eqb_spec z 0); lia. Qed.

Lemma spec_n_pos : forall pl tree, tree <> [] -> 1 <= spec_n pl tree.
Proof.
  intros pl [|l r] H; [congruence|]. unfold spec_n, spec_ops, spec_grouped. cbn [filter existsb].
  destruct (is_op pl l) eqn:E; cbn [negb orb].
  - assert (Hin : In l (py_set (l :: filter (is_op pl) r))) by (apply py_set_In; left; reflexivity).
    destruct (py_set (l :: filter (is_op pl) r)); [destruct Hin|].
    cbn [length]. destruct (existsb _ r); unfold b2z; lia.
  - unfold b2z. lia.
Qed.

Lemma struct_value_spec : forall pl tree,
  struct_value (spec_k tree, spec_n pl tree, map c01 (spec_ints pl tree)) = spec_value pl tree.
Proof.
  intros pl tree. unfold struct_value, spec_value, spec_k, spec_n.
  rewrite plus_IZR, <- !INR_IZR_INZ.
  assert (Hb : forall b, IZR (b2z b) = (if b then 1 else 0)%R) by (intros []; reflexivity).
  rewrite Hb. f_equal. rewrite map_map. f_equal. apply map_ext. intros z. unfold c01.
  destruct (z =? 0); [reflexivity|]. rewrite abs_IZR. reflexivity.
Qed.

(* T5: the value is  k ln n + sum ln|c_j|  (0 read as 1), and every logarithm
   is taken of a number >= 1 (n >= 1 needs a non-empty tree: the real code
   returns nan for the empty tree) *)
Theorem aifeyn_value : forall tree pl s, aifeyn_complexity tree pl = Some s ->
  struct_value s = spec_value pl tree /\
  (tree <> [] -> 1 <= snd (fst s)) /\
  Forall (fun c => 1 <= c) (snd s).
Proof.
  intros tree pl s H. rewrite aifeyn_structure in H. unfold aifeyn_spec in H.
  destruct (existsb (is_bad pl) tree); [discriminate|].
  destruct (forallb int64_strict (spec_ints pl tree)); [|discriminate].
  inversion H. subst s. clear H. split; [apply struct_value_spec|]. split.
  - cbn [fst snd]. apply spec_n_pos.
  - cbn [snd]. apply Forall_forall. intros c Hc. apply in_map_iff in Hc.
    destruct Hc as [z [<- _]]. apply c01_pos.
Qed.

(* ================================================================ get_max_param *)

Definition gmp_cond (s : Z * list string) : bool := let '(m, w) := s in py_len w >? 0.
Definition gmp_body (s : Z * list string) : option (Z * list string) :=
  let '(m, w) := s in
  Some (m + 1, filter (fun f => py_str_contains (py_fmt_pct_i "a" "" (m + 1)) f) w).

Lemma get_max_param_unfold : forall F,
  get_max_param F =
  match while_fuel (S (S (max_strlen F))) gmp_cond gmp_body (-1, F) with
  | Some (m, _) => Some (if m <? 0 then 0 else m)
  | None => None
  end.
Proof.
  intros F. unfold get_max_param.
  replace (fun '(max_param, with_ai) => py_len with_ai >? 0) with gmp_cond by reflexivity.
  match goal with |- context [while_fuel _ gmp_cond ?b _] => replace b with gmp_body by reflexivity end.
  destruct (while_fuel _ gmp_cond gmp_body (-1, F)) as [[m w]|]; [|reflexivity].
  cbn [bind]. destruct (m <? 0); reflexivity.
Qed.

Definition aZ (i : Z) : string := py_fmt_pct_i "a" "" i.

Lemma gmp_step : forall fuel m w,
  while_fuel (S fuel) gmp_cond gmp_body (m, w) =
  match w with
  | [] => Some (m, w)
  | _ => while_fuel fuel gmp_cond gmp_body (m + 1, filter (fun f => py_str_contains (aZ (m + 1)) f) w)
  end.
Proof.
  intros fuel m w. cbn [while_fuel gmp_cond gmp_body bind]. unfold py_len.
  destruct w as [|f r]; [reflexivity|]. cbn [length].
  destruct (Z.gtb_spec (Z.of_nat (S (length r))) 0); [reflexivity | lia].
Qed.

(* the loop only moves forward and ends with an empty list *)
Lemma gmp_mono : forall fuel m w m' w',
  while_fuel fuel gmp_cond gmp_body (m, w) = Some (m', w') -> m <= m' /\ w' = [].
Proof.
  induction fuel as [|fuel IH]; intros m w m' w' H; [discriminate|].
  rewrite gmp_step in H. destruct w as [|f r].
  - inversion H. subst. split; [lia | reflexivity].
  - apply IH in H. destruct H. split; [lia | assumption].
Qed.

(* a string that contains a(m+1) .. a(m+K) keeps the loop running beyond m+K *)
Lemma gmp_cover : forall fuel m w m' w' f (K : nat),
  while_fuel fuel gmp_cond gmp_body (m, w) = Some (m', w') ->
  In f w ->
  (forall i, m < i <= m + Z.of_nat K -> py_str_contains (aZ i) f = true) ->
  m + Z.of_nat K + 1 <= m'.
Proof.
  induction fuel as [|fuel IH]; intros m w m' w' f K H Hin Hc; [discriminate|].
  rewrite gmp_step in H. destruct w as [|f0 r]; [destruct Hin|].
  destruct K as [|K].
  - apply gmp_mono in H. lia.
  - specialize (IH (m + 1) _ m' w' f K H).
    assert (Hin' : In f (filter (fun f => py_str_contains (aZ (m + 1)) f) (f0 :: r))).
    { apply filter_In. split; [exact Hin|]. apply Hc. lia. }
    specialize (IH Hin'). assert (m + 1 + Z.of_nat K + 1 <= m'); [|lia].
    apply IH. intros i Hi. apply Hc. lia.
Qed.
