(* C16 -- proofs about Model/History.v *)
From Coq Require Import List Bool Arith Lia.
From ESRV Require Import Model.History.
Import ListNotations.

(* ------------------------------------------------------------------ names *)

Lemma libkind_code_inj : forall a b, libkind_code a = libkind_code b -> a = b.
Proof. destruct a, b; simpl; intro H; try reflexivity; discriminate H. Qed.
Lemma tmpkind_code_inj : forall a b, tmpkind_code a = tmpkind_code b -> a = b.
Proof. destruct a, b; simpl; intro H; try reflexivity; discriminate H. Qed.
Lemma outkind_code_inj : forall a b, outkind_code a = outkind_code b -> a = b.
Proof. destruct a, b; simpl; intro H; try reflexivity; discriminate H. Qed.

Lemma code_eqb_eq : forall x y, code_eqb x y = true <-> x = y.
Proof.
  intros [[[[a1 b1] c1] d1] e1] [[[[a2 b2] c2] d2] e2]; simpl.
  rewrite !andb_true_iff, !Nat.eqb_eq. split.
  - intros [[[[-> ->] ->] ->] ->]. reflexivity.
  - intro H; inversion H; subst; auto.
Qed.

Lemma fcode_inj : forall f g, fcode f = fcode g -> f = g.
Proof.
  destruct f, g; simpl; intro H; inversion H; subst; try reflexivity.
  - f_equal. apply libkind_code_inj; assumption.
  - f_equal. apply tmpkind_code_inj; assumption.
  - f_equal. apply outkind_code_inj; assumption.
Qed.

Lemma fname_eqb_eq : forall f g, fname_eqb f g = true <-> f = g.
Proof.
  intros f g. unfold fname_eqb. rewrite code_eqb_eq. split.
  - apply fcode_inj.
  - intros ->; reflexivity.
Qed.
Lemma fname_eqb_refl : forall f, fname_eqb f f = true.
Proof. intro f. apply fname_eqb_eq. reflexivity. Qed.
Lemma fname_eqb_neq : forall f g, fname_eqb f g = false <-> f <> g.
Proof.
  intros f g. split.
  - intros H E. apply fname_eqb_eq in E. rewrite E in H. discriminate.
  - intro N. destruct (fname_eqb f g) eqn:E; [apply fname_eqb_eq in E; contradiction | reflexivity].
Qed.

Lemma mem_In : forall f D, mem f D = true <-> In f D.
Proof.
  intros f D. unfold mem. rewrite existsb_exists. split.
  - intros [x [Hin E]]. apply fname_eqb_eq in E. subst. assumption.
  - intro H. exists f. split; [assumption | apply fname_eqb_refl].
Qed.

Lemma key_eqb_eq : forall a b, key_eqb a b = true <-> a = b.
Proof.
  destruct a, b; simpl; try (split; [discriminate | intro H; discriminate H]);
    rewrite Nat.eqb_eq; split; intro H; try (inversion H); subst; reflexivity.
Qed.

Lemma pat_match_tmp : forall p f, pat_match p f = true -> is_tmp f = true.
Proof. destruct p, f; simpl; intro H; try discriminate; reflexivity. Qed.
Lemma pat_file_tmp : forall p r, is_tmp (pat_file p r) = true.
Proof. destruct p; reflexivity. Qed.
Lemma pat_file_match : forall p r, pat_match p (pat_file p r) = true.
Proof. destruct p; simpl; intros. rewrite !Nat.eqb_refl. reflexivity. Qed.

(* ------------------------------------------------------------------ det *)

Lemma det_cons_mono : forall inp D D' f, incl D D' -> det inp D f = true -> det inp D' f = true.
Proof.
  unfold det. intros inp D D' f Hi H.
  apply orb_true_iff in H. destruct H as [H | H].
  - rewrite H. reflexivity.
  - apply mem_In in H. apply Hi in H. apply mem_In in H. rewrite H. apply orb_true_r.
Qed.
Lemma det_In : forall inp D f, In f D -> det inp D f = true.
Proof. unfold det. intros. apply mem_In in H. rewrite H. apply orb_true_r. Qed.
Lemma det_app : forall inp A D f, det inp (A ++ D) f = true <-> (In f A \/ det inp D f = true).
Proof.
  unfold det. intros inp A D f. rewrite !orb_true_iff, !mem_In, in_app_iff. tauto.
Qed.

(* ------------------------------------------------------------------ the main invariant *)

Section Main.
  Variable V : Type.
  Variable interp : nat -> list (obs V) -> contents V.
  Variable R : nat.

  Notation step := (step V interp R).
  Notation run := (run V interp R).
  Notation run_history := (run_history V interp R).
  Notation state := (state V).

  Definition agree (P : fname -> bool) (s1 s2 : store V) : Prop := forall f, P f = true -> s1 f = s2 f.

  Definition key_in (I : list nat) (k : key) : Prop := match k with KParam i => In i I | _ => True end.
  Definition lagree (I : list nat) (l1 l2 : locs) : Prop := forall k, key_in I k -> l1 k = l2 k.

  Definition ins (o : op) (I : list nat) : list nat := match o with LocsInsert i => i :: I | _ => I end.
  Definition look_ok (I : list nat) (o : op) : bool :=
    match o with LocsLookup (KParam i) => existsb (Nat.eqb i) I | _ => true end.
  Lemma ibl_cons : forall I o p, ibl I (o :: p) = look_ok I o && ibl (ins o I) p.
  Proof. intros I o p. destruct o; simpl; try reflexivity. destruct k; reflexivity. Qed.

  Lemma upd_same : forall (s : store V) f v, upd V s f v f = v.
  Proof. intros. unfold upd. rewrite fname_eqb_refl. reflexivity. Qed.
  Lemma upd_other : forall (s : store V) f v g, g <> f -> upd V s f v g = s g.
  Proof. intros. unfold upd. apply fname_eqb_neq in H. rewrite H. reflexivity. Qed.

  Lemma agree_upd : forall inp D A (s1 s2 : store V) f v,
    agree (det inp D) s1 s2 -> In f A ->
    agree (det inp (A ++ D)) s1 s2 ->
    agree (det inp (A ++ D)) (upd V s1 f v) (upd V s2 f v).
  Proof.
    intros inp D A s1 s2 f v _ _ H g Hg. unfold upd. destruct (fname_eqb g f); [reflexivity | apply H; assumption].
  Qed.

  Lemma agree_upd1 : forall inp D (s1 s2 : store V) f v,
    agree (det inp D) s1 s2 -> agree (det inp (f :: D)) (upd V s1 f v) (upd V s2 f v).
  Proof.
    intros inp D s1 s2 f v H g Hg. unfold upd. destruct (fname_eqb g f) eqn:E; [reflexivity|].
    apply H. change (f :: D) with ([f] ++ D) in Hg. apply det_app in Hg. destruct Hg as [[Hg | []] | Hg]; [|assumption].
    subst. rewrite fname_eqb_refl in E. discriminate.
  Qed.

  Lemma cur_agree : forall P (s1 s2 : store V) f, agree P s1 s2 -> P f = true -> cur V s1 f = cur V s2 f.
  Proof. intros. unfold cur. rewrite (H f H0). reflexivity. Qed.

  Lemma map_cur_agree : forall P (s1 s2 : store V) fs, agree P s1 s2 -> forallb P fs = true ->
    map (cur V s1) fs = map (cur V s2) fs.
  Proof.
    intros P s1 s2 fs H. induction fs as [|f fs IH]; simpl; intro Hf; [reflexivity|].
    apply andb_true_iff in Hf. destruct Hf as [Hf1 Hf2].
    rewrite (cur_agree P s1 s2 f H Hf1), (IH Hf2). reflexivity.
  Qed.

  Lemma glob_cat_agree : forall inp D (s1 s2 : store V) p,
    agree (det inp D) s1 s2 -> glob_cat V R s1 p = glob_cat V R s2 p.
  Proof.
    intros inp D s1 s2 p H. unfold glob_cat. f_equal. apply map_ext. intro r.
    apply (cur_agree (det inp D)); [assumption|]. unfold det. rewrite pat_file_tmp. rewrite orb_true_r. reflexivity.
  Qed.

  (* one operation keeps two executions in step *)
  Lemma step_agree : forall o inp D I (a b : state),
    forallb (det inp D) (needs o) = true -> look_ok I o = true ->
    agree (det inp D) (st_files a) (st_files b) ->
    lagree I (st_locs a) (st_locs b) ->
    st_reads a = st_reads b ->
    agree (det inp (defs o ++ D)) (st_files (step o a)) (st_files (step o b))
    /\ lagree (ins o I) (st_locs (step o a)) (st_locs (step o b))
    /\ st_reads (step o a) = st_reads (step o b).
  Proof.
    intros o inp D I [s1 l1 r1] [s2 l2 r2] Hn Hl Hs Hloc Hr. simpl in Hs, Hloc, Hr. subst r2.
    destruct o; simpl in *.
    - (* Truncate *) split; [apply agree_upd1; assumption | split; [assumption | reflexivity]].
    - (* Write *) split; [apply agree_upd1; assumption | split; [assumption | reflexivity]].
    - (* Append *) apply andb_true_iff in Hn. destruct Hn as [Hn _].
      rewrite (cur_agree _ _ _ f Hs Hn).
      split; [apply agree_upd1; assumption | split; [assumption | reflexivity]].
    - (* Read *) apply andb_true_iff in Hn. destruct Hn as [Hn _].
      rewrite (Hs f Hn). split; [assumption | split; [assumption | reflexivity]].
    - (* Remove *) split; [apply agree_upd1; assumption | split; [assumption | reflexivity]].
    - (* Touch *) apply andb_true_iff in Hn. destruct Hn as [Hn _].
      rewrite (cur_agree _ _ _ f Hs Hn).
      split; [apply agree_upd1; assumption | split; [assumption | reflexivity]].
    - (* Cat *) rewrite (map_cur_agree _ _ _ srcs Hs Hn).
      split; [apply agree_upd1; assumption | split; [assumption | reflexivity]].
    - (* Filter *) apply andb_true_iff in Hn. destruct Hn as [Hn _].
      rewrite (Hs src Hn). split; [apply agree_upd1; assumption | split; [assumption | reflexivity]].
    - (* Move *) apply andb_true_iff in Hn. destruct Hn as [Hsrc Hn].
      apply andb_true_iff in Hn. destruct Hn as [Hdst _].
      rewrite (Hs src Hsrc). destruct (s2 src) as [c|]; simpl.
      + split; [| split; [assumption | reflexivity]].
        apply agree_upd1. apply agree_upd1. assumption.
      + split; [| split; [assumption | reflexivity]].
        intros g Hg. apply Hs.
        change (src :: dst :: D) with ([src; dst] ++ D) in Hg. apply det_app in Hg.
        destruct Hg as [[Hg | [Hg | []]] | Hg]; subst; assumption.
    - (* CatGlob *) rewrite (glob_cat_agree inp D s1 s2 p Hs).
      split; [apply agree_upd1; assumption | split; [assumption | reflexivity]].
    - (* RemoveGlob *) split; [| split; [assumption | reflexivity]].
      intros g Hg. destruct (pat_match p g); [reflexivity | apply Hs; assumption].
    - (* LocsInsert *) split; [assumption | split; [| reflexivity]].
      intros k Hk. unfold locs_insert. destruct (key_eqb k (KParam i)) eqn:E; [reflexivity|].
      apply Hloc. destruct k; simpl in *; try exact Logic.I.
      destruct Hk as [Hk | Hk]; [| assumption]. subst. rewrite Nat.eqb_refl in E. discriminate.
    - (* LocsLookup *) split; [assumption | split; [assumption |]].
      rewrite (Hloc k); [reflexivity|].
      destruct k; simpl in *; try exact Logic.I.
      apply existsb_exists in Hl. destruct Hl as [x [Hin E]]. apply Nat.eqb_eq in E. subst. assumption.
  Qed.

  Lemma run_agree : forall p inp D I (a b : state),
    dbu inp D p = true -> ibl I p = true ->
    agree (det inp D) (st_files a) (st_files b) ->
    lagree I (st_locs a) (st_locs b) ->
    st_reads a = st_reads b ->
    st_reads (run p a) = st_reads (run p b)
    /\ forall f, (det inp D f = true \/ In f (written p)) -> st_files (run p a) f = st_files (run p b) f.
  Proof.
    induction p as [|o p IH]; intros inp D I a b Hd Hi Hs Hl Hr; simpl.
    - split; [assumption|]. intros f [Hf | []]. apply Hs. assumption.
    - simpl in Hd. apply andb_true_iff in Hd. destruct Hd as [Hn Hd].
      rewrite ibl_cons in Hi. apply andb_true_iff in Hi. destruct Hi as [Hlk Hi].
      destruct (step_agree o inp D I a b Hn Hlk Hs Hl Hr) as [Hs' [Hl' Hr']].
      destruct (IH inp (defs o ++ D) (ins o I) _ _ Hd Hi Hs' Hl' Hr') as [Hrd Hf].
      split; [assumption|]. intros f Hf0. apply Hf.
      destruct Hf0 as [Hf0 | Hf0].
      + left. apply det_app. right. assumption.
      + apply in_app_iff in Hf0. destruct Hf0 as [Hf0 | Hf0]; [left; apply det_app; left; assumption | right; assumption].
  Qed.

  (* ---------------------------------------------------------------- sympy_locs *)

  Definition locs_ok (l : locs) : Prop :=
    forall k, match k with
              | KParam i => l k = None \/ l k = Some (LReal i)
              | _ => l k = base_locs k
              end.

  Lemma base_locs_ok : locs_ok base_locs.
  Proof. intro k. destruct k; simpl; auto. Qed.
  Lemma locs_upto_ok : forall K, locs_ok (locs_upto K).
  Proof. intros K k. destruct k; simpl; auto. destruct (i <? K); auto. Qed.

  Lemma locs_insert_ok : forall i l, locs_ok l -> locs_ok (locs_insert i l).
  Proof.
    intros i l H k. unfold locs_insert. specialize (H k). destruct k; simpl; try assumption.
    destruct (i0 =? i) eqn:E; [| assumption]. apply Nat.eqb_eq in E. subst. right. reflexivity.
  Qed.

  Lemma step_locs_ok : forall o (a : state), locs_ok (st_locs a) -> locs_ok (st_locs (step o a)).
  Proof.
    intros o [s l r] H. destruct o; simpl in *; try assumption.
    - destruct (s src); assumption.
    - apply locs_insert_ok. assumption.
  Qed.
  Lemma run_locs_ok : forall p (a : state), locs_ok (st_locs a) -> locs_ok (st_locs (run p a)).
  Proof. induction p as [|o p IH]; intros a H; simpl; [assumption | apply IH, step_locs_ok, H]. Qed.
  Lemma history_locs_ok : forall h (a : state), locs_ok (st_locs a) -> locs_ok (st_locs (run_history h a)).
  Proof.
    induction h as [|p h IH]; intros a H; simpl; [assumption|]. apply IH. apply run_locs_ok. destruct a; assumption.
  Qed.

  Lemma locs_ok_lagree : forall l1 l2, locs_ok l1 -> locs_ok l2 -> lagree [] l1 l2.
  Proof.
    intros l1 l2 H1 H2 k Hk. specialize (H1 k). specialize (H2 k). destruct k; simpl in *; try congruence. contradiction.
  Qed.

  (* inserting an existing binding is the identity; inserting twice is inserting once *)
  Lemma locs_insert_idem : forall i l k, locs_insert i (locs_insert i l) k = locs_insert i l k.
  Proof. intros. unfold locs_insert. destruct (key_eqb k (KParam i)); reflexivity. Qed.
  Lemma locs_insert_present : forall i l, l (KParam i) = Some (LReal i) -> forall k, locs_insert i l k = l k.
  Proof.
    intros i l H k. unfold locs_insert. destruct (key_eqb k (KParam i)) eqn:E; [| reflexivity].
    apply key_eqb_eq in E. subst. symmetry. assumption.
  Qed.

  (* ---------------------------------------------------------------- temp files *)

  Definition clean (s : store V) : Prop := forall f, is_tmp f = true -> s f = None.
  Definition live_inv (live : list fname) (s : store V) : Prop :=
    forall f, is_tmp f = true -> s f <> None -> In f live.

  Lemma live_default : forall live (s : store V) f v,
    live_inv live s -> live_inv (filter is_tmp [f] ++ live) (upd V s f v).
  Proof.
    intros live s f v H g Hg Hne. unfold upd in Hne. apply in_app_iff.
    destruct (fname_eqb g f) eqn:E.
    - apply fname_eqb_eq in E. subst. left. simpl. rewrite Hg. left. reflexivity.
    - right. apply H; assumption.
  Qed.

  Lemma step_live : forall o live (a : state),
    live_inv live (st_files a) -> live_inv (live_upd o live) (st_files (step o a)).
  Proof.
    intros o live [s l r] H. destruct o; simpl in *;
      try (apply live_default; assumption); try assumption.
    - (* Remove *) intros g Hg Hne. unfold upd in Hne. apply filter_In.
      destruct (fname_eqb g f) eqn:E; [contradiction|]. split; [apply H; assumption | reflexivity].
    - (* Move *) destruct (s src) as [c|] eqn:Es; simpl.
      + intros g Hg Hne. unfold upd in Hne. apply in_app_iff.
        destruct (fname_eqb g src) eqn:E1; [contradiction|].
        destruct (fname_eqb g dst) eqn:E2.
        * apply fname_eqb_eq in E2. subst. left. simpl. rewrite Hg. left. reflexivity.
        * right. apply filter_In. split; [apply H; assumption | rewrite E1; reflexivity].
      + intros g Hg Hne. apply in_app_iff. right. apply filter_In. split; [apply H; assumption|].
        destruct (fname_eqb g src) eqn:E1; [| reflexivity]. apply fname_eqb_eq in E1. subst. contradiction.
    - (* RemoveGlob *) intros g Hg Hne. apply filter_In.
      destruct (pat_match p g) eqn:E; [contradiction|]. split; [apply H; assumption | reflexivity].
  Qed.

  Lemma run_live : forall p live (a : state),
    live_inv live (st_files a) -> tmpbal live p = true -> clean (st_files (run p a)).
  Proof.
    induction p as [|o p IH]; intros live a H Hb; simpl in *.
    - destruct live; [| discriminate]. intros f Hf. destruct (st_files a f) eqn:E; [| reflexivity].
      exfalso. apply (H f Hf). rewrite E. discriminate.
    - apply (IH (live_upd o live)); [apply step_live; assumption | assumption].
  Qed.

  Lemma clean_live_nil : forall s, clean s -> live_inv [] s.
  Proof. intros s H f Hf Hne. exfalso. apply Hne. apply H. assumption. Qed.

  Theorem clean_preserved : forall p (a : state),
    tmp_balanced p = true -> clean (st_files a) -> clean (st_files (run p a)).
  Proof. intros p a Hb Hc. apply (run_live p [] a); [apply clean_live_nil; assumption | assumption]. Qed.

  Lemma history_clean : forall h (a : state),
    Forall (fun q => tmp_balanced q = true) h -> clean (st_files a) -> clean (st_files (run_history h a)).
  Proof.
    induction h as [|p h IH]; intros a Hf Hc; simpl; [assumption|].
    inversion Hf; subst. apply IH; [assumption|]. apply clean_preserved; [assumption | destruct a; assumption].
  Qed.

  (* ---------------------------------------------------------------- the property *)

  (* two stores that agree on the declared inputs and on the temp files (e.g. both clean),
     two dictionaries that agree outside the parameter names: a program that passes the two
     checks reads the same values and leaves the same contents in every file it defines *)
  Theorem output_independent_of_store : forall p inp (s1 s2 : store V) (l1 l2 : locs),
    def_before_use inp p = true -> inserted_before_lookup p = true ->
    agree (fun f => inp f || is_tmp f) s1 s2 ->
    locs_ok l1 -> locs_ok l2 ->
    st_reads (run p (mkSt s1 l1 [])) = st_reads (run p (mkSt s2 l2 []))
    /\ forall f, In f (written p) -> st_files (run p (mkSt s1 l1 [])) f = st_files (run p (mkSt s2 l2 [])) f.
  Proof.
    intros p inp s1 s2 l1 l2 Hd Hi Ha H1 H2.
    destruct (run_agree p inp [] [] (mkSt s1 l1 []) (mkSt s2 l2 []) Hd Hi) as [Hr Hf]; simpl.
    - intros f Hf. apply Ha. unfold det in Hf. simpl in Hf. rewrite orb_false_r in Hf. assumption.
    - apply locs_ok_lagree; assumption.
    - reflexivity.
    - split; [assumption|]. intros f Hin. apply Hf. right. assumption.
  Qed.

  (* ... in particular: a fresh process on the store s0 (no temp files) against the same call
     after ANY history of completed stage programs that left the call's declared inputs alone *)
  Theorem fresh_vs_history : forall p inp (h : list prog) (s0 : store V),
    def_before_use inp p = true -> inserted_before_lookup p = true ->
    Forall (fun q => tmp_balanced q = true) h ->
    clean s0 ->
    let sh := run_history h (fresh V s0) in
    agree inp s0 (st_files sh) ->
    st_reads (run p (fresh V s0)) = st_reads (run p (start V sh))
    /\ forall f, In f (written p) -> st_files (run p (fresh V s0)) f = st_files (run p (start V sh)) f.
  Proof.
    intros p inp h s0 Hd Hi Hh Hc sh Ha.
    apply (output_independent_of_store p inp); try assumption.
    - intros f Hf. apply orb_true_iff in Hf. destruct Hf as [Hf | Hf]; [apply Ha; assumption|].
      rewrite (Hc f Hf). symmetry. apply (history_clean h (fresh V s0)); assumption.
    - apply base_locs_ok.
    - apply (history_locs_ok h (fresh V s0)). apply base_locs_ok.
  Qed.
End Main.

(* ------------------------------------------------------------------ sympy_locs after a history *)

Fixpoint inserted (p : prog) (i : nat) : bool :=
  match p with
  | [] => false
  | LocsInsert j :: p' => (i =? j) || inserted p' i
  | _ :: p' => inserted p' i
  end.
Fixpoint maxS (I : list nat) : nat := match I with [] => 0 | i :: I' => Nat.max (S i) (maxS I') end.
Definition dc (I : list nat) : Prop := forall i, In (S i) I -> In i I.

Lemma maxS_lt : forall I i, In i I -> i < maxS I.
Proof. induction I as [|j I IH]; cbn [maxS In]; intros i H; [contradiction|]. destruct H as [H | H]; [subst; lia | specialize (IH i H); lia]. Qed.
Lemma maxS_in : forall I, I <> [] -> exists m, In m I /\ maxS I = S m.
Proof.
  induction I as [|j I IH]; intro H; [contradiction|]. cbn [maxS].
  destruct I as [|j' I'].
  - exists j. cbn [maxS In]. split; [left; reflexivity | lia].
  - destruct IH as [m [Hm E]]; [discriminate|].
    destruct (Nat.le_ge_cases (S j) (maxS (j' :: I'))) as [L | L].
    + exists m. split; [right; assumption | rewrite <- E; lia].
    + exists j. split; [left; reflexivity | lia].
Qed.
Lemma dc_down : forall I m, dc I -> In m I -> forall d, In (m - d) I.
Proof.
  intros I m Hdc Hm d. induction d as [|d IH]; [rewrite Nat.sub_0_r; assumption|].
  destruct (m - d) as [|x] eqn:E.
  - replace (m - S d) with 0 by lia. assumption.
  - replace (m - S d) with x by lia. apply Hdc. assumption.
Qed.
Lemma dc_lt : forall I, dc I -> forall i, In i I <-> i < maxS I.
Proof.
  intros I Hdc i. split; [apply maxS_lt|]. intro H.
  destruct I as [|j I']; [cbn [maxS] in H; lia|].
  destruct (maxS_in (j :: I')) as [m [Hm E]]; [discriminate|].
  replace i with (m - (m - i)) by lia. apply dc_down; assumption.
Qed.

Lemma prefix_ins_spec : forall p I, prefix_ins I p = true -> dc I ->
  forall i, (In i I \/ inserted p i = true) <-> i < Nat.max (maxS I) (prog_K p).
Proof.
  induction p as [|o p IH]; intros I Hp Hdc i.
  - cbn [inserted prog_K]. rewrite Nat.max_0_r. rewrite <- (dc_lt I Hdc).
    split; [intros [H | H]; [assumption | discriminate] | auto].
  - destruct o; cbn [prefix_ins inserted prog_K] in Hp |- *; try (apply IH; assumption).
    apply andb_true_iff in Hp. destruct Hp as [Hj Hp].
    assert (Hdc' : dc (i0 :: I)).
    { intros x [Hx | Hx].
      - subst i0. right. apply existsb_exists in Hj. destruct Hj as [y [Hy E]]. apply Nat.eqb_eq in E. subst. assumption.
      - right. apply Hdc. assumption. }
    specialize (IH (i0 :: I) Hp Hdc' i). cbn [maxS In] in IH.
    rewrite orb_true_iff, Nat.eqb_eq. split.
    + intro H. assert (H' : (i0 = i \/ In i I) \/ inserted p i = true) by (destruct H as [H | [H | H]]; auto).
      apply IH in H'. lia.
    + intro H. assert (H' : i < Nat.max (Nat.max (S i0) (maxS I)) (prog_K p)) by lia.
      apply IH in H'. destruct H' as [[H' | H'] | H']; auto.
Qed.

Section LocsHistory.
  Variable V : Type.
  Variable interp : nat -> list (obs V) -> contents V.
  Variable R : nat.
  Notation step := (step V interp R).
  Notation run := (run V interp R).
  Notation run_history := (run_history V interp R).

  Lemma run_locs_param : forall p (a : state V) k,
    st_locs (run p a) k = match k with
                          | KParam i => if inserted p i then Some (LReal i) else st_locs a k
                          | _ => st_locs a k
                          end.
  Proof.
    induction p as [|o p IH]; intros a k.
    - simpl. destruct k; reflexivity.
    - simpl run. rewrite IH. destruct a as [s l r].
      destruct o; simpl; try reflexivity.
      + destruct (s src); reflexivity.
      + unfold locs_insert. destruct k; simpl; try reflexivity.
        destruct (i0 =? i) eqn:E; simpl.
        * apply Nat.eqb_eq in E. subst. destruct (inserted p i); reflexivity.
        * reflexivity.
  Qed.

  Lemma locs_after_prog : forall p K0 (a : state V),
    prefix_inserts p = true -> (forall k, st_locs a k = locs_upto K0 k) ->
    forall k, st_locs (run p a) k = locs_upto (Nat.max K0 (prog_K p)) k.
  Proof.
    intros p K0 a Hp Ha k. rewrite run_locs_param. destruct k; try (rewrite Ha; reflexivity).
    assert (Hs := prefix_ins_spec p [] Hp (fun i H => match H with end) i). simpl in Hs.
    rewrite Ha. simpl.
    destruct (inserted p i) eqn:E.
    - assert (i < prog_K p) by (apply Hs; right; reflexivity).
      assert (L : i <? Nat.max K0 (prog_K p) = true) by (apply Nat.ltb_lt; lia). rewrite L. reflexivity.
    - destruct (i <? K0) eqn:E0.
      + apply Nat.ltb_lt in E0. assert (L : i <? Nat.max K0 (prog_K p) = true) by (apply Nat.ltb_lt; lia).
        rewrite L. reflexivity.
      + apply Nat.ltb_ge in E0.
        assert (L : i <? Nat.max K0 (prog_K p) = false).
        { apply Nat.ltb_ge. destruct (Nat.lt_ge_cases i (prog_K p)) as [C | C]; [| lia].
          apply Hs in C. destruct C as [[] | C']. discriminate C'. }
        rewrite L. reflexivity.
  Qed.

  Lemma locs_after_history : forall h K0 (a : state V),
    Forall (fun p => prefix_inserts p = true) h -> (forall k, st_locs a k = locs_upto K0 k) ->
    forall k, st_locs (run_history h a) k = locs_upto (Nat.max K0 (hist_K h)) k.
  Proof.
    induction h as [|p h IH]; intros K0 a Hf Ha k; simpl.
    - rewrite Nat.max_0_r. apply Ha.
    - inversion Hf; subst. rewrite Nat.max_assoc. apply IH; [assumption|].
      apply locs_after_prog; [assumption | destruct a; assumption].
  Qed.

  (* after any history the dictionary is the import-time table plus a0 .. a(K-1), K the largest seen *)
  Theorem locs_monotone_idempotent : forall (h : list prog) (s0 : store V),
    Forall (fun p => prefix_inserts p = true) h ->
    forall k, st_locs (run_history h (fresh V s0)) k = locs_upto (hist_K h) k.
  Proof.
    intros h s0 Hf k. change (hist_K h) with (Nat.max 0 (hist_K h)).
    apply locs_after_history; [assumption|]. intro k'. destruct k'; reflexivity.
  Qed.
End LocsHistory.

(* ------------------------------------------------------------------ composing the checks *)

Fixpoint dafter (p : prog) (D : list fname) : list fname :=
  match p with [] => D | o :: p' => dafter p' (defs o ++ D) end.

Lemma dbu_mono : forall inp p D D', incl D D' -> dbu inp D p = true -> dbu inp D' p = true.
Proof.
  induction p as [|o p IH]; simpl; intros D D' Hi H; [reflexivity|].
  apply andb_true_iff in H. destruct H as [H1 H2]. apply andb_true_intro. split.
  - rewrite forallb_forall in *. intros f Hf. apply (det_cons_mono inp D D'); auto.
  - apply (IH (defs o ++ D)); [| assumption]. apply incl_app; [apply incl_appl, incl_refl | apply incl_appr; assumption].
Qed.
Lemma dbu_app : forall inp p q D, dbu inp D (p ++ q) = dbu inp D p && dbu inp (dafter p D) q.
Proof. induction p as [|o p IH]; simpl; intros q D; [reflexivity|]. rewrite IH, andb_assoc. reflexivity. Qed.
Lemma dafter_keep : forall p D f, In f D -> In f (dafter p D).
Proof. induction p as [|o p IH]; simpl; intros D f H; [assumption|]. apply IH. apply in_app_iff. right. assumption. Qed.
Lemma dafter_written : forall p D f, In f (written p) -> In f (dafter p D).
Proof.
  induction p as [|o p IH]; simpl; intros D f H; [contradiction|].
  apply in_app_iff in H. destruct H as [H | H].
  - apply dafter_keep. apply in_app_iff. left. assumption.
  - apply IH. assumption.
Qed.
Lemma dafter_incl : forall p D, incl D (dafter p D).
Proof. intros p D f H. apply dafter_keep. assumption. Qed.
Lemma dbu_seq : forall inp p q D, dbu inp D p = true -> dbu inp (dafter p D) q = true -> dbu inp D (p ++ q) = true.
Proof. intros. rewrite dbu_app, H, H0. reflexivity. Qed.
Lemma dbu_all : forall inp p D, (forall o, In o p -> forallb (det inp D) (needs o) = true) -> dbu inp D p = true.
Proof.
  induction p as [|o p IH]; simpl; intros D H; [reflexivity|].
  apply andb_true_intro. split; [apply H; left; reflexivity|].
  apply IH. intros o' Ho'. specialize (H o' (or_intror Ho')).
  rewrite forallb_forall in *. intros f Hf. apply (det_cons_mono inp D); [apply incl_appr, incl_refl | auto].
Qed.
Lemma dbu_flat_map : forall inp (A : Type) (g : A -> prog) xs D,
  (forall x D', In x xs -> incl D D' -> dbu inp D' (g x) = true) -> dbu inp D (flat_map g xs) = true.
Proof.
  induction xs as [|x xs IH]; simpl; intros D H; [reflexivity|].
  apply dbu_seq; [apply H; [left; reflexivity | apply incl_refl]|].
  apply IH. intros x' D' Hx Hi. apply H; [right; assumption|].
  eapply incl_tran; [apply dafter_incl | exact Hi].
Qed.
Lemma dbu_ranked : forall inp (A : Type) (g : nat -> A -> prog) ms r0 D,
  (forall r m D', In m ms -> incl D D' -> dbu inp D' (g r m) = true) -> dbu inp D (ranked r0 g ms) = true.
Proof.
  induction ms as [|m ms IH]; simpl; intros r0 D H; [reflexivity|].
  apply dbu_seq; [apply H; [left; reflexivity | apply incl_refl]|].
  apply IH. intros r m' D' Hm Hi. apply H; [right; assumption|].
  eapply incl_tran; [apply dafter_incl | exact Hi].
Qed.

Definition is_locs (o : op) : bool := match o with LocsInsert _ | LocsLookup _ => true | _ => false end.
Lemma block_ops_locs : forall b o, In o (block_ops b) -> is_locs o = true.
Proof.
  intros b o H. unfold block_ops in H. apply in_app_iff in H.
  destruct H as [H | H]; apply in_map_iff in H; destruct H as [x [E _]]; subst; reflexivity.
Qed.
Lemma blocks_ops_locs : forall bs o, In o (blocks_ops bs) -> is_locs o = true.
Proof.
  intros bs o H. unfold blocks_ops in H. apply in_flat_map in H. destruct H as [b [_ H]].
  apply (block_ops_locs b). assumption.
Qed.
Lemma locs_needs : forall o, is_locs o = true -> needs o = [] /\ defs o = [].
Proof. destruct o; simpl; intro H; try discriminate; split; reflexivity. Qed.
Lemma dbu_locs : forall inp p D, (forall o, In o p -> is_locs o = true) -> dbu inp D p = true.
Proof.
  intros inp p D H. apply dbu_all. intros o Ho. destruct (locs_needs o (H o Ho)) as [E _]. rewrite E. reflexivity.
Qed.
Lemma dbu_block : forall inp b D, dbu inp D (block_ops b) = true.
Proof. intros. apply dbu_locs. apply block_ops_locs. Qed.
Lemma dbu_blocks : forall inp bs D, dbu inp D (blocks_ops bs) = true.
Proof. intros. apply dbu_locs. apply blocks_ops_locs. Qed.
Lemma dbu_repeat : forall inp o m D, forallb (det inp D) (needs o) = true -> dbu inp D (repeat o m) = true.
Proof. intros. apply dbu_all. intros o' Ho'. apply repeat_spec in Ho'. subst. assumption. Qed.

Ltac indaf := repeat first [ solve [apply dafter_written; simpl; tauto] | apply dafter_keep | solve [left; reflexivity] | right ]; try (simpl; tauto).
Ltac detgoal := cbn [forallb needs]; repeat (apply andb_true_intro; split); try reflexivity; apply det_In; indaf.

(* inserted_before_lookup / prefix_inserts compose from pieces that pass for every starting set *)
Definition iblall (p : prog) : Prop := forall I, ibl I p = true.
Definition pfxall (p : prog) : Prop := forall I, prefix_ins I p = true.

Lemma ibl_app_gen : forall p q I, ibl I p = true -> iblall q -> ibl I (p ++ q) = true.
Proof.
  induction p as [|o p IH]; intros q I Hp Hq; [apply Hq|].
  change ((o :: p) ++ q) with (o :: (p ++ q)). rewrite ibl_cons in *.
  apply andb_true_iff in Hp. destruct Hp as [H1 H2]. rewrite H1. simpl. apply IH; assumption.
Qed.
Lemma iblall_app : forall p q, iblall p -> iblall q -> iblall (p ++ q).
Proof. intros p q Hp Hq I. apply ibl_app_gen; [apply Hp | assumption]. Qed.
Lemma iblall_nil : iblall [].
Proof. intro I. reflexivity. Qed.
Lemma iblall_nolocs : forall p, (forall o, In o p -> is_locs o = false) -> iblall p.
Proof.
  induction p as [|o p IH]; intros H I; [reflexivity|].
  rewrite ibl_cons. assert (Ho := H o (or_introl eq_refl)).
  replace (look_ok I o) with true by (destruct o; simpl in *; try reflexivity; discriminate).
  replace (ins o I) with I by (destruct o; simpl in *; try reflexivity; discriminate).
  simpl. apply IH. intros o' Ho'. apply H. right. assumption.
Qed.
Lemma iblall_flat_map : forall (A : Type) (g : A -> prog) xs, (forall x, In x xs -> iblall (g x)) -> iblall (flat_map g xs).
Proof.
  induction xs as [|x xs IH]; simpl; intro H; [apply iblall_nil|].
  apply iblall_app; [apply H; left; reflexivity | apply IH; intros; apply H; right; assumption].
Qed.
Lemma iblall_ranked : forall (A : Type) (g : nat -> A -> prog) ms r0, (forall r m, In m ms -> iblall (g r m)) -> iblall (ranked r0 g ms).
Proof.
  induction ms as [|m ms IH]; simpl; intros r0 H; [apply iblall_nil|].
  apply iblall_app; [apply H; left; reflexivity | apply IH; intros; apply H; right; assumption].
Qed.

Lemma ibl_inserts : forall ks K k0 I, (forall i, i < k0 -> In i I) ->
  forallb (key_ok (k0 + K)) ks = true ->
  ibl I (map LocsInsert (seq k0 K) ++ map LocsLookup ks) = true.
Proof.
  intros ks. induction K as [|K IH]; intros k0 I HI Hk.
  - simpl. rewrite Nat.add_0_r in Hk. induction ks as [|k ks IHk]; [reflexivity|].
    simpl in Hk. apply andb_true_iff in Hk. destruct Hk as [H1 H2].
    cbn [map]. rewrite ibl_cons. cbn [ins]. rewrite (IHk H2). rewrite andb_true_r.
    destruct k; simpl in *; try reflexivity.
    apply existsb_exists. exists i. split; [apply HI; apply Nat.ltb_lt; assumption | apply Nat.eqb_refl].
  - cbn [seq map app ibl]. apply IH.
    + intros i Hi. destruct (Nat.eq_dec i k0) as [-> | N]; [left; reflexivity | right; apply HI; lia].
    + replace (S k0 + K) with (k0 + S K) by lia. assumption.
Qed.
Lemma iblall_block : forall b, block_ok b = true -> iblall (block_ops b).
Proof.
  intros [K ks] H I. unfold block_ops, block_ok in *. simpl in *.
  apply (ibl_inserts ks K 0 I); [intros i Hi; lia | assumption].
Qed.
Lemma iblall_blocks : forall bs, forallb block_ok bs = true -> iblall (blocks_ops bs).
Proof.
  intros bs H. unfold blocks_ops. apply iblall_flat_map. intros b Hb. apply iblall_block.
  rewrite forallb_forall in H. apply H. assumption.
Qed.

Lemma pfx_cons_other : forall I o p, is_locs o = false -> prefix_ins I (o :: p) = prefix_ins I p.
Proof. intros I o p H. destruct o; simpl in *; try reflexivity; discriminate. Qed.
Lemma pfx_app_gen : forall p q I, prefix_ins I p = true -> pfxall q -> prefix_ins I (p ++ q) = true.
Proof.
  induction p as [|o p IH]; intros q I Hp Hq; [apply Hq|].
  change ((o :: p) ++ q) with (o :: (p ++ q)).
  destruct o; simpl in *; try (apply IH; assumption).
  apply andb_true_iff in Hp. destruct Hp as [H1 H2]. rewrite H1. simpl. apply IH; assumption.
Qed.
Lemma pfxall_app : forall p q, pfxall p -> pfxall q -> pfxall (p ++ q).
Proof. intros p q Hp Hq I. apply pfx_app_gen; [apply Hp | assumption]. Qed.
Lemma pfxall_nil : pfxall [].
Proof. intro I. reflexivity. Qed.
Lemma pfxall_noins : forall p, (forall o, In o p -> match o with LocsInsert _ => False | _ => True end) -> pfxall p.
Proof.
  induction p as [|o p IH]; intros H I; [reflexivity|].
  assert (Ho := H o (or_introl eq_refl)).
  destruct o; simpl in *; try contradiction; apply IH; intros o' Ho'; apply H; right; assumption.
Qed.
Lemma pfxall_flat_map : forall (A : Type) (g : A -> prog) xs, (forall x, In x xs -> pfxall (g x)) -> pfxall (flat_map g xs).
Proof.
  induction xs as [|x xs IH]; simpl; intro H; [apply pfxall_nil|].
  apply pfxall_app; [apply H; left; reflexivity | apply IH; intros; apply H; right; assumption].
Qed.
Lemma pfxall_ranked : forall (A : Type) (g : nat -> A -> prog) ms r0, (forall r m, In m ms -> pfxall (g r m)) -> pfxall (ranked r0 g ms).
Proof.
  induction ms as [|m ms IH]; simpl; intros r0 H; [apply pfxall_nil|].
  apply pfxall_app; [apply H; left; reflexivity | apply IH; intros; apply H; right; assumption].
Qed.
Lemma pfx_inserts : forall K k0 I q, (k0 = 0 \/ In (k0 - 1) I) -> pfxall q ->
  prefix_ins I (map LocsInsert (seq k0 K) ++ q) = true.
Proof.
  induction K as [|K IH]; intros k0 I q H0 Hq; [apply Hq|].
  cbn [seq map app prefix_ins]. apply andb_true_intro. split.
  - destruct k0 as [|j]; [reflexivity|]. destruct H0 as [H0 | H0]; [discriminate|].
    apply existsb_exists. exists j. split; [replace j with (S j - 1) by lia; assumption | apply Nat.eqb_refl].
  - apply IH; [| assumption]. right. replace (S k0 - 1) with k0 by lia. left. reflexivity.
Qed.
Lemma pfxall_block : forall b, pfxall (block_ops b).
Proof.
  intros [K ks] I. unfold block_ops. simpl. apply pfx_inserts; [left; reflexivity|].
  apply pfxall_noins. intros o Ho. apply in_map_iff in Ho. destruct Ho as [k [E _]]. subst. exact Logic.I.
Qed.
Lemma pfxall_blocks : forall bs, pfxall (blocks_ops bs).
Proof. intro bs. unfold blocks_ops. apply pfxall_flat_map. intros. apply pfxall_block. Qed.
Lemma pfxall_nolocs : forall p, (forall o, In o p -> is_locs o = false) -> pfxall p.
Proof.
  intros p H. apply pfxall_noins. intros o Ho. specialize (H o Ho). destruct o; simpl in *; try exact Logic.I. discriminate.
Qed.

(* temp-file balance *)
Fixpoint lafter (p : prog) (live : list fname) : list fname :=
  match p with [] => live | o :: p' => lafter p' (live_upd o live) end.
Lemma tmpbal_lafter : forall p live, lafter p live = [] -> tmpbal live p = true.
Proof. induction p as [|o p IH]; simpl; intros live H; [rewrite H; reflexivity | apply IH; assumption]. Qed.
Lemma lafter_app : forall p q live, lafter (p ++ q) live = lafter q (lafter p live).
Proof. induction p as [|o p IH]; simpl; intros; [reflexivity | apply IH]. Qed.
Lemma live_upd_in : forall o live f, In f (live_upd o live) -> In f live \/ (In f (defs o) /\ is_tmp f = true).
Proof.
  intros o live f H.
  assert (Hdef : forall fs, In f (filter is_tmp fs ++ live) -> In f live \/ (In f fs /\ is_tmp f = true)).
  { intros fs Hf. apply in_app_iff in Hf. destruct Hf as [Hf | Hf]; [| left; assumption].
    apply filter_In in Hf. right. assumption. }
  destruct o; cbn [live_upd defs] in H; try (apply Hdef in H; simpl; tauto).
  - apply filter_In in H. left. tauto.
  - apply in_app_iff in H. destruct H as [H | H].
    + apply filter_In in H. right. simpl. destruct H as [[H | []] Ht]. subst. tauto.
    + apply filter_In in H. left. tauto.
  - apply filter_In in H. left. tauto.
Qed.
Lemma lafter_in : forall p live f, In f (lafter p live) -> In f live \/ (In f (written p) /\ is_tmp f = true).
Proof.
  induction p as [|o p IH]; simpl; intros live f H; [left; assumption|].
  apply IH in H. destruct H as [H | [H Ht]].
  - apply live_upd_in in H. destruct H as [H | [H Ht]]; [left; assumption | right; split; [apply in_app_iff; left; assumption | assumption]].
  - right. split; [apply in_app_iff; right; assumption | assumption].
Qed.
Lemma filter_nil : forall (A : Type) (g : A -> bool) l, (forall x, In x l -> g x = false) -> filter g l = [].
Proof.
  induction l as [|x l IH]; simpl; intro H; [reflexivity|].
  rewrite (H x (or_introl eq_refl)). apply IH. intros. apply H. right. assumption.
Qed.
Lemma one_glob : forall p L, (forall f, In f L -> pat_match p f = true) -> filter (fun g => negb (pat_match p g)) L = [].
Proof. intros. apply filter_nil. intros x Hx. rewrite (H x Hx). reflexivity. Qed.
Lemma two_globs : forall p1 p2 L, (forall f, In f L -> pat_match p1 f = true \/ pat_match p2 f = true) ->
  filter (fun g => negb (pat_match p2 g)) (filter (fun g => negb (pat_match p1 g)) L) = [].
Proof.
  intros. apply filter_nil. intros x Hx. apply filter_In in Hx. destruct Hx as [Hx Hn].
  destruct (H x Hx) as [E | E]; rewrite E in *; [discriminate | reflexivity].
Qed.
Definition notmp (o : op) : bool := forallb (fun f => negb (is_tmp f)) (defs o).
Lemma notmp_live : forall o, notmp o = true -> live_upd o [] = [].
Proof.
  intros o H. unfold notmp in H. destruct o; simpl in *; try reflexivity;
    repeat (apply andb_true_iff in H; destruct H as [? H]);
    repeat match goal with Hx : negb (is_tmp ?f) = true |- _ => apply negb_true_iff in Hx; rewrite Hx end; reflexivity.
Qed.
Lemma lafter_notmp : forall p, forallb notmp p = true -> lafter p [] = [].
Proof.
  induction p as [|o p IH]; simpl; intro H; [reflexivity|].
  apply andb_true_iff in H. destruct H as [H1 H2]. rewrite (notmp_live o H1). apply IH. assumption.
Qed.
Lemma locs_notmp : forall o, is_locs o = true -> notmp o = true.
Proof. intros o H. unfold notmp. destruct (locs_needs o H) as [_ E]. rewrite E. reflexivity. Qed.
Lemma forallb_flat_map : forall (A B : Type) (g : B -> bool) (f : A -> list B) xs,
  (forall x, In x xs -> forallb g (f x) = true) -> forallb g (flat_map f xs) = true.
Proof.
  induction xs as [|x xs IH]; simpl; intro H; [reflexivity|].
  rewrite forallb_app, (H x (or_introl eq_refl)), IH; [reflexivity|]. intros. apply H. right. assumption.
Qed.
Lemma forallb_In : forall (A : Type) (g : A -> bool) l, (forall x, In x l -> g x = true) -> forallb g l = true.
Proof. intros. apply forallb_forall. assumption. Qed.
Lemma written_app : forall p q, written (p ++ q) = written p ++ written q.
Proof. intros. unfold written. apply flat_map_app. Qed.
Lemma written_flat_map : forall (A : Type) (g : A -> prog) xs f,
  In f (written (flat_map g xs)) -> exists x, In x xs /\ In f (written (g x)).
Proof.
  induction xs as [|x xs IH]; simpl; intros f H; [contradiction|].
  rewrite written_app in H. apply in_app_iff in H. destruct H as [H | H].
  - exists x. split; [left; reflexivity | assumption].
  - destruct (IH f H) as [x' [Hx Hf]]. exists x'. split; [right; assumption | assumption].
Qed.
Lemma written_ranked : forall (A : Type) (g : nat -> A -> prog) ms r0 f,
  In f (written (ranked r0 g ms)) -> exists r m, In f (written (g r m)).
Proof.
  induction ms as [|m ms IH]; simpl; intros r0 f H; [contradiction|].
  rewrite written_app in H. apply in_app_iff in H. destruct H as [H | H].
  - exists r0, m. assumption.
  - apply (IH (S r0)). assumption.
Qed.
Lemma written_locs : forall p, (forall o, In o p -> is_locs o = true) -> written p = [].
Proof.
  induction p as [|o p IH]; simpl; intro H; [reflexivity|].
  destruct (locs_needs o (H o (or_introl eq_refl))) as [_ E]. rewrite E. simpl. apply IH. intros. apply H. right. assumption.
Qed.

(* ------------------------------------------------------------------ ESR's stage programs pass the checks *)

Lemma sedmv_dbu : forall inp b n f D, In f D -> dbu inp D (sedmv b n f) = true.
Proof.
  intros inp b n f D H. unfold sedmv. cbn [dbu needs defs forallb app].
  repeat (apply andb_true_intro; split); try reflexivity; apply det_In; simpl; tauto.
Qed.

Lemma round_writes_written : forall b n nr r0 r, r0 <= r < r0 + nr ->
  In (LibF b n InvSubsRound r) (written (gen_round_writes b n r0 nr)) /\
  In (LibF b n InvIdxRound r) (written (gen_round_writes b n r0 nr)).
Proof.
  induction nr as [|k IH]; intros r0 r H; [lia|].
  cbn [gen_round_writes written flat_map defs app].
  destruct (Nat.eq_dec r r0) as [-> | N].
  - split; simpl; tauto.
  - destruct (IH (S r0) r) as [H1 H2]; [lia|]. unfold written in H1, H2. split; simpl; tauto.
Qed.

Lemma round_reads_dbu : forall inp b n rs r0 D,
  (forall r, r0 <= r < r0 + length rs -> In (LibF b n InvSubsRound r) D /\ In (LibF b n InvIdxRound r) D) ->
  dbu inp D (gen_round_reads b n r0 rs) = true.
Proof.
  induction rs as [|[blk rd] rs IH]; intros r0 D H; [reflexivity|].
  cbn [gen_round_reads]. cbn [dbu needs defs app forallb].
  destruct (H r0) as [H1 H2]; [simpl; lia|].
  apply andb_true_intro. split; [rewrite andb_true_r; apply det_In; assumption|].
  apply dbu_seq; [apply dbu_block|].
  assert (Hrest : dbu inp D (gen_round_reads b n (S r0) rs) = true).
  { apply IH. intros r Hr. apply H. simpl. lia. }
  apply dbu_seq.
  - destruct rd; [| reflexivity]. cbn [dbu needs defs forallb]. rewrite !andb_true_r. apply det_In. apply dafter_keep. assumption.
  - eapply dbu_mono; [| exact Hrest]. eapply incl_tran; apply dafter_incl.
Qed.

Lemma check_results_dbu : forall inp b n blk D,
  In (LibF b n AllEq 0) D -> In (LibF b n InvSubs 0) D -> In (LibF b n UniqEq 0) D -> In (LibF b n Matches 0) D ->
  dbu inp D (check_results_prog b n blk) = true.
Proof.
  intros inp b n blk D H1 H2 H3 H4. unfold check_results_prog.
  apply dbu_seq; [apply dbu_all; intros o Ho; simpl in Ho;
                  repeat (destruct Ho as [Ho | Ho]; [subst o; cbn [needs forallb]; rewrite andb_true_r; apply det_In; assumption|]); contradiction|].
  apply dbu_seq; [apply dbu_block|].
  apply dbu_seq; [apply dbu_all; intros o Ho; simpl in Ho;
                  repeat (destruct Ho as [Ho | Ho]; [subst o; cbn [needs forallb]; try reflexivity; rewrite andb_true_r; apply det_In; indaf|]); contradiction|].
  apply dbu_seq; [apply sedmv_dbu; indaf|].
  apply dbu_all. intros o Ho. simpl in Ho.
  repeat (destruct Ho as [Ho | Ho]; [subst o; cbn [needs forallb]; try reflexivity; rewrite andb_true_r; apply det_In; indaf|]); contradiction.
Qed.

Theorem generation_def_before_use : forall b n G,
  def_before_use generation_inputs (generation_prog b n G) = true.
Proof.
  intros b n G. unfold def_before_use, generation_prog.
  apply dbu_seq; [reflexivity|].
  apply dbu_seq.
  { apply dbu_flat_map. intros bs D' _ Hi. unfold gen_shape. apply dbu_seq; [apply dbu_blocks|].
    apply dbu_all. intros o Ho. apply in_map_iff in Ho. destruct Ho as [f [E Hf]]. subst o.
    cbn [needs forallb]. rewrite andb_true_r. apply det_In. apply dafter_keep. apply Hi.
    unfold L4 in *. simpl in Hf |- *. tauto. }
  apply dbu_seq.
  { cbn [dbu needs defs forallb app]. repeat (apply andb_true_intro; split); try reflexivity; apply det_In; indaf. }
  apply dbu_seq; [apply dbu_blocks|].
  apply dbu_seq; [reflexivity|].
  apply dbu_seq.
  { apply dbu_all. intros o Ho. assert (E : needs o = []); [| rewrite E; reflexivity].
    clear - Ho. generalize 0 Ho. generalize (length (g_rounds G)). clear. induction n0 as [|k IH]; intros r0 Ho; simpl in Ho; [contradiction|].
    destruct Ho as [Ho | [Ho | Ho]]; [subst; reflexivity | subst; reflexivity | apply (IH (S r0)); assumption]. }
  apply dbu_seq; [reflexivity|].
  apply dbu_seq.
  { apply round_reads_dbu. intros r Hr.
    destruct (round_writes_written b n (length (g_rounds G)) 0 r Hr) as [H1 H2].
    split; apply dafter_keep; apply dafter_written; assumption. }
  apply dbu_seq; [reflexivity|].
  apply dbu_seq.
  { apply dbu_flat_map. intros f D' Hf Hi. apply sedmv_dbu. apply Hi.
    simpl in Hf. repeat (destruct Hf as [Hf | Hf]; [subst f; indaf|]). contradiction. }
  destruct (2 <? n); [| reflexivity].
  apply check_results_dbu; indaf.
Qed.

Lemma nolocs_fixed : forall p, forallb (fun o => negb (is_locs o)) p = true -> forall o, In o p -> is_locs o = false.
Proof. intros p H o Ho. rewrite forallb_forall in H. apply negb_true_iff. apply H. assumption. Qed.

Lemma round_writes_nolocs : forall b n nr r0 o, In o (gen_round_writes b n r0 nr) -> is_locs o = false.
Proof.
  induction nr as [|k IH]; intros r0 o H; simpl in H; [contradiction|].
  destruct H as [H | [H | H]]; [subst; reflexivity | subst; reflexivity | apply (IH (S r0)); assumption].
Qed.

Lemma round_reads_iblall : forall b n rs r0, forallb block_ok (map fst rs) = true -> iblall (gen_round_reads b n r0 rs).
Proof.
  induction rs as [|[blk rd] rs IH]; intros r0 H; [apply iblall_nil|].
  simpl in H. apply andb_true_iff in H. destruct H as [H1 H2].
  cbn [gen_round_reads]. change (Read (LibF b n InvSubsRound r0) :: ?x) with ([Read (LibF b n InvSubsRound r0)] ++ x).
  apply (iblall_app [Read (LibF b n InvSubsRound r0)]); [apply iblall_nolocs, nolocs_fixed; reflexivity|].
  apply iblall_app; [apply iblall_block; assumption|].
  apply iblall_app; [destruct rd; apply iblall_nolocs, nolocs_fixed; reflexivity | apply IH; assumption].
Qed.
Lemma round_reads_pfxall : forall b n rs r0, pfxall (gen_round_reads b n r0 rs).
Proof.
  induction rs as [|[blk rd] rs IH]; intros r0; [apply pfxall_nil|].
  cbn [gen_round_reads].
  apply (pfxall_app [Read (LibF b n InvSubsRound r0)]); [apply pfxall_nolocs, nolocs_fixed; reflexivity|].
  apply pfxall_app; [apply pfxall_block|].
  apply pfxall_app; [destruct rd; apply pfxall_nolocs, nolocs_fixed; reflexivity | apply IH].
Qed.

Lemma forallb_app_l : forall (A : Type) (g : A -> bool) l1 l2, forallb g (l1 ++ l2) = true -> forallb g l1 = true /\ forallb g l2 = true.
Proof. intros. rewrite forallb_app in H. apply andb_true_iff in H. assumption. Qed.

Lemma sedmv_nolocs : forall b n fs o, In o (flat_map (sedmv b n) fs) -> is_locs o = false.
Proof.
  intros b n fs o H. apply in_flat_map in H. destruct H as [f [_ H]]. simpl in H.
  destruct H as [H | [H | []]]; subst; reflexivity.
Qed.

Theorem generation_inserted_before_lookup : forall b n G,
  forallb block_ok (gen_blocks G) = true ->
  inserted_before_lookup (generation_prog b n G) = true.
Proof.
  intros b n G H. unfold gen_blocks in H.
  apply forallb_app_l in H. destruct H as [Hs H]. apply forallb_app_l in H. destruct H as [Hi H].
  apply forallb_app_l in H. destruct H as [Hr Hc]. simpl in Hc. rewrite andb_true_r in Hc.
  unfold inserted_before_lookup, generation_prog.
  assert (A : iblall (generation_prog b n G)); [| apply A].
  unfold generation_prog.
  apply iblall_app; [apply iblall_nolocs, nolocs_fixed; reflexivity|].
  apply iblall_app.
  { apply iblall_flat_map. intros bs Hbs. unfold gen_shape.
    apply iblall_app; [| apply iblall_nolocs, nolocs_fixed; reflexivity].
    apply iblall_blocks. apply forallb_forall. intros x Hx.
    rewrite forallb_forall in Hs. apply Hs. apply in_concat. exists bs. split; assumption. }
  apply iblall_app; [apply iblall_nolocs, nolocs_fixed; reflexivity|].
  apply iblall_app; [apply iblall_blocks; assumption|].
  apply iblall_app; [apply iblall_nolocs, nolocs_fixed; reflexivity|].
  apply iblall_app; [apply iblall_nolocs; apply round_writes_nolocs|].
  apply iblall_app; [apply iblall_nolocs, nolocs_fixed; reflexivity|].
  apply iblall_app; [apply round_reads_iblall; assumption|].
  apply iblall_app; [apply iblall_nolocs, nolocs_fixed; reflexivity|].
  apply iblall_app; [apply iblall_nolocs; apply sedmv_nolocs|].
  destruct (2 <? n); [| apply iblall_nil].
  unfold check_results_prog.
  apply iblall_app; [apply iblall_nolocs, nolocs_fixed; reflexivity|].
  apply iblall_app; [apply iblall_block; assumption|].
  apply iblall_nolocs, nolocs_fixed; reflexivity.
Qed.

Theorem generation_prefix_inserts : forall b n G, prefix_inserts (generation_prog b n G) = true.
Proof.
  intros b n G. assert (A : pfxall (generation_prog b n G)); [| apply A].
  unfold generation_prog.
  apply pfxall_app; [apply pfxall_nolocs, nolocs_fixed; reflexivity|].
  apply pfxall_app.
  { apply pfxall_flat_map. intros bs _. unfold gen_shape.
    apply pfxall_app; [apply pfxall_blocks | apply pfxall_nolocs, nolocs_fixed; reflexivity]. }
  apply pfxall_app; [apply pfxall_nolocs, nolocs_fixed; reflexivity|].
  apply pfxall_app; [apply pfxall_blocks|].
  apply pfxall_app; [apply pfxall_nolocs, nolocs_fixed; reflexivity|].
  apply pfxall_app; [apply pfxall_nolocs; apply round_writes_nolocs|].
  apply pfxall_app; [apply pfxall_nolocs, nolocs_fixed; reflexivity|].
  apply pfxall_app; [apply round_reads_pfxall|].
  apply pfxall_app; [apply pfxall_nolocs, nolocs_fixed; reflexivity|].
  apply pfxall_app; [apply pfxall_nolocs; apply sedmv_nolocs|].
  destruct (2 <? n); [| apply pfxall_nil].
  unfold check_results_prog.
  apply pfxall_app; [apply pfxall_nolocs, nolocs_fixed; reflexivity|].
  apply pfxall_app; [apply pfxall_block|].
  apply pfxall_nolocs, nolocs_fixed; reflexivity.
Qed.

(* generation touches no temp file at all *)
Lemma notmp_blocks : forall bs, forallb notmp (blocks_ops bs) = true.
Proof. intro bs. apply forallb_In. intros o Ho. apply locs_notmp. apply (blocks_ops_locs bs). assumption. Qed.
Lemma notmp_block : forall blk, forallb notmp (block_ops blk) = true.
Proof. intro blk. apply forallb_In. intros o Ho. apply locs_notmp. apply (block_ops_locs blk). assumption. Qed.
Lemma notmp_round_writes : forall b n nr r0, forallb notmp (gen_round_writes b n r0 nr) = true.
Proof. induction nr as [|k IH]; intro r0; simpl; [reflexivity | apply IH]. Qed.
Lemma notmp_round_reads : forall b n rs r0, forallb notmp (gen_round_reads b n r0 rs) = true.
Proof.
  induction rs as [|[blk rd] rs IH]; intro r0; [reflexivity|].
  cbn [gen_round_reads forallb]. rewrite !forallb_app, notmp_block, IH. destruct rd; reflexivity.
Qed.

Theorem generation_tmp_balanced : forall b n G, tmp_balanced (generation_prog b n G) = true.
Proof.
  intros b n G. apply tmpbal_lafter. apply lafter_notmp. unfold generation_prog.
  rewrite !forallb_app, notmp_blocks, notmp_round_writes, notmp_round_reads.
  assert (E1 : forallb notmp (flat_map (gen_shape b n) (g_shapes G)) = true).
  { apply forallb_flat_map. intros bs _. unfold gen_shape. rewrite forallb_app, notmp_blocks. reflexivity. }
  rewrite E1.
  destruct (2 <? n); [| reflexivity].
  unfold check_results_prog. rewrite !forallb_app, notmp_block. reflexivity.
Qed.

(* --- fitting stages *)

Lemma fit_inp_n : forall b n prev, fit_inputs b n prev (LibF b n UniqEq 0) = true.
Proof. intros. simpl. rewrite !Nat.eqb_refl. reflexivity. Qed.
Lemma fit_inp_lower : forall b n i, 1 <= i < n -> fit_inputs b n true (LibF b i UniqEq 0) = true.
Proof.
  intros b n i [H1 H2]. simpl. rewrite Nat.eqb_refl. simpl.
  apply Nat.ltb_lt in H2. rewrite H2. destruct i; [lia|]. apply orb_true_r.
Qed.

Lemma fit_s1_dbu : forall b n prev r D, dbu (fit_inputs b n prev) D (fit_s1 b n prev r) = true.
Proof.
  intros b n prev r D. apply dbu_all. intros o Ho. unfold fit_s1 in Ho. destruct Ho as [Ho | Ho].
  - subst o. cbn [needs forallb]. unfold det. rewrite fit_inp_n. reflexivity.
  - destruct r; [| contradiction]. destruct prev; [| contradiction]. simpl only0 in Ho.
    apply in_app_iff in Ho. destruct Ho as [Ho | [Ho | []]]; [| subst o; reflexivity].
    apply in_map_iff in Ho. destruct Ho as [i [E Hi]]. subst o. apply in_seq in Hi.
    cbn [needs forallb]. unfold det. rewrite fit_inp_lower; [reflexivity | lia].
Qed.

Theorem fit_def_before_use : forall run b n prev ms,
  def_before_use (fit_inputs b n prev) (fit_prog run b n prev ms) = true.
Proof.
  intros run b n prev ms. unfold def_before_use, fit_prog.
  apply dbu_seq; [apply dbu_ranked; intros; apply fit_s1_dbu|].
  apply dbu_seq; [| reflexivity].
  destruct ms as [|m0 ms]; [reflexivity|].
  apply dbu_ranked. intros r m D' _ Hi. unfold fit_s2.
  apply dbu_seq; [| reflexivity].
  destruct (prev && (1 <? n)) eqn:E; [| reflexivity].
  apply andb_true_iff in E. destruct E as [E _]. subst prev.
  apply dbu_repeat. cbn [needs forallb]. rewrite andb_true_r. apply det_In. apply Hi.
  apply dafter_written. cbn [ranked]. rewrite written_app. apply in_app_iff. left.
  unfold fit_s1. simpl only0. unfold written. cbn [flat_map defs app]. rewrite flat_map_app. apply in_app_iff. right.
  simpl. tauto.
Qed.

Lemma fit_s1_nolocs : forall b n prev r o, In o (fit_s1 b n prev r) -> is_locs o = false.
Proof.
  intros b n prev r o Ho. unfold fit_s1 in Ho. destruct Ho as [Ho | Ho]; [subst; reflexivity|].
  destruct r; [| contradiction]. destruct prev; [| contradiction]. simpl only0 in Ho.
  apply in_app_iff in Ho. destruct Ho as [Ho | [Ho | []]]; [| subst; reflexivity].
  apply in_map_iff in Ho. destruct Ho as [i [E _]]. subst. reflexivity.
Qed.
Lemma fit_s2_nolocs : forall run b n prev r m o, In o (fit_s2 run b n prev r m) -> is_locs o = false.
Proof.
  intros run b n prev r m o Ho. unfold fit_s2 in Ho. apply in_app_iff in Ho. destruct Ho as [Ho | [Ho | []]]; [| subst; reflexivity].
  destruct (prev && (1 <? n)); [| contradiction]. apply repeat_spec in Ho. subst. reflexivity.
Qed.
Lemma fit_nolocs : forall run b n prev ms o, In o (fit_prog run b n prev ms) -> is_locs o = false.
Proof.
  intros run b n prev ms o Ho. unfold fit_prog in Ho.
  apply in_app_iff in Ho. destruct Ho as [Ho | Ho].
  - revert Ho. generalize 0. induction ms as [|m ms IH]; intros r0 Ho; [contradiction|].
    cbn [ranked] in Ho. apply in_app_iff in Ho. destruct Ho as [Ho | Ho]; [apply (fit_s1_nolocs b n prev r0 o); exact Ho | apply (IH (S r0)); exact Ho].
  - apply in_app_iff in Ho. destruct Ho as [Ho | Ho].
    + revert Ho. generalize 0. induction ms as [|m ms IH]; intros r0 Ho; [contradiction|].
      cbn [ranked] in Ho. apply in_app_iff in Ho. destruct Ho as [Ho | Ho]; [apply (fit_s2_nolocs run b n prev r0 m o); exact Ho | apply (IH (S r0)); exact Ho].
    + simpl in Ho. destruct Ho as [Ho | [Ho | []]]; subst; reflexivity.
Qed.
Theorem fit_inserted_before_lookup : forall run b n prev ms, inserted_before_lookup (fit_prog run b n prev ms) = true.
Proof. intros. apply (iblall_nolocs _ (fit_nolocs run b n prev ms)). Qed.
Theorem fit_prefix_inserts : forall run b n prev ms, prefix_inserts (fit_prog run b n prev ms) = true.
Proof. intros. apply (pfxall_nolocs _ (fit_nolocs run b n prev ms)). Qed.

Lemma tmp_written_pre : forall (pre : prog) (p : pat) f,
  (forall g, In g (written pre) -> is_tmp g = true -> pat_match p g = true) ->
  In f (lafter pre []) -> pat_match p f = true.
Proof.
  intros pre p f H Hf. apply lafter_in in Hf. destruct Hf as [[] | [Hw Ht]]. apply H; assumption.
Qed.

Theorem fit_tmp_balanced : forall run b n prev ms, tmp_balanced (fit_prog run b n prev ms) = true.
Proof.
  intros run b n prev ms. apply tmpbal_lafter. unfold fit_prog. rewrite app_assoc, lafter_app.
  unfold fit_s3. cbn [lafter live_upd defs filter is_tmp app].
  apply one_glob. intros f Hf. apply lafter_in in Hf. destruct Hf as [[] | [Hw Ht]].
  rewrite written_app in Hw. apply in_app_iff in Hw. destruct Hw as [Hw | Hw].
  - apply written_ranked in Hw. destruct Hw as [r [m Hw]]. unfold fit_s1, written in Hw. cbn [flat_map defs app] in Hw.
    destruct r; [| contradiction]. destruct prev; [| contradiction]. simpl only0 in Hw.
    rewrite flat_map_app in Hw. apply in_app_iff in Hw. destruct Hw as [Hw | Hw].
    + apply in_flat_map in Hw. destruct Hw as [o [Ho Hw]]. apply in_map_iff in Ho. destruct Ho as [i [E _]]. subst o. contradiction.
    + simpl in Hw. destruct Hw as [Hw | []]. subst f. discriminate.
  - apply written_ranked in Hw. destruct Hw as [r [m Hw]]. unfold fit_s2 in Hw. rewrite written_app in Hw.
    apply in_app_iff in Hw. destruct Hw as [Hw | Hw].
    + destruct (prev && (1 <? n)); [| contradiction]. unfold written in Hw. apply in_flat_map in Hw.
      destruct Hw as [o [Ho Hw]]. apply repeat_spec in Ho. subst o. contradiction.
    + simpl in Hw. destruct Hw as [Hw | []]. subst f. simpl. rewrite !Nat.eqb_refl. reflexivity.
Qed.

(* Fisher *)
Lemma fisher_inp1 : forall run b n, fisher_inputs run b n (LibF b n UniqEq 0) = true.
Proof. intros. unfold fisher_inputs. rewrite fname_eqb_refl. reflexivity. Qed.
Lemma fisher_inp2 : forall run b n, fisher_inputs run b n (OutF run ONegloglike n) = true.
Proof. intros. unfold fisher_inputs. rewrite fname_eqb_refl. apply orb_true_r. Qed.

Theorem fisher_def_before_use : forall run b n P,
  def_before_use (fisher_inputs run b n) (fisher_prog run b n P) = true.
Proof.
  intros run b n P. unfold def_before_use, fisher_prog. apply dbu_all. intros o Ho.
  apply in_app_iff in Ho. destruct Ho as [Ho | Ho].
  - apply in_flat_map in Ho. destruct Ho as [r [_ Ho]]. simpl in Ho.
    destruct Ho as [Ho | [Ho | [Ho | [Ho | []]]]]; subst o; cbn [needs forallb]; try reflexivity; unfold det.
    + rewrite fisher_inp1. reflexivity.
    + rewrite fisher_inp2. reflexivity.
  - simpl in Ho. destruct Ho as [Ho | [Ho | [Ho | [Ho | []]]]]; subst o; reflexivity.
Qed.
Lemma fisher_nolocs : forall run b n P o, In o (fisher_prog run b n P) -> is_locs o = false.
Proof.
  intros run b n P o Ho. unfold fisher_prog in Ho. apply in_app_iff in Ho. destruct Ho as [Ho | Ho].
  - apply in_flat_map in Ho. destruct Ho as [r [_ Ho]]. simpl in Ho.
    destruct Ho as [Ho | [Ho | [Ho | [Ho | []]]]]; subst o; reflexivity.
  - simpl in Ho. destruct Ho as [Ho | [Ho | [Ho | [Ho | []]]]]; subst o; reflexivity.
Qed.
Theorem fisher_inserted_before_lookup : forall run b n P, inserted_before_lookup (fisher_prog run b n P) = true.
Proof. intros. apply (iblall_nolocs _ (fisher_nolocs run b n P)). Qed.
Theorem fisher_prefix_inserts : forall run b n P, prefix_inserts (fisher_prog run b n P) = true.
Proof. intros. apply (pfxall_nolocs _ (fisher_nolocs run b n P)). Qed.
Theorem fisher_tmp_balanced : forall run b n P, tmp_balanced (fisher_prog run b n P) = true.
Proof.
  intros run b n P. apply tmpbal_lafter. unfold fisher_prog. rewrite lafter_app.
  unfold fisher_post. cbn [lafter live_upd defs filter is_tmp app].
  apply two_globs. intros f Hf. apply lafter_in in Hf. destruct Hf as [[] | [Hw Ht]].
  apply written_flat_map in Hw. destruct Hw as [r [_ Hw]]. simpl in Hw.
  destruct Hw as [Hw | [Hw | []]]; subst f; simpl; rewrite !Nat.eqb_refl; auto.
Qed.

(* match *)
Lemma match_inp : forall run b n f,
  In f [LibF b n AllEq 0; LibF b n InvSubs 0; LibF b n Matches 0; OutF run ONegloglike n; OutF run ODerivs n] ->
  match_inputs run b n f = true.
Proof.
  intros run b n f H. unfold match_inputs. simpl in H.
  repeat (destruct H as [H | H]; [subst f; rewrite fname_eqb_refl; rewrite ?orb_true_r; reflexivity|]). contradiction.
Qed.

Lemma match_pre_cases : forall run b n r blk o, In o (match_pre run b n r blk) ->
  In o (block_ops blk) \/
  (exists f, o = Read f /\ In f [LibF b n AllEq 0; LibF b n InvSubs 0; LibF b n Matches 0; OutF run ONegloglike n; OutF run ODerivs n]) \/
  o = Write (TmpF run TCodelenMatches n r) 15.
Proof.
  intros run b n r blk o Ho. unfold match_pre in Ho.
  apply in_app_iff in Ho. destruct Ho as [Ho | Ho].
  { right. left. simpl in Ho. destruct Ho as [Ho | [Ho | []]]; subst o; eexists; split; try reflexivity; simpl; tauto. }
  apply in_app_iff in Ho. destruct Ho as [Ho | Ho].
  { destruct r; [| contradiction]. simpl in Ho. destruct Ho as [Ho | []]. subst o. right. left. eexists; split; [reflexivity | simpl; tauto]. }
  apply in_app_iff in Ho. destruct Ho as [Ho | Ho]; [left; assumption|].
  simpl in Ho. destruct Ho as [Ho | [Ho | [Ho | []]]]; subst o.
  - right. left. eexists; split; [reflexivity | simpl; tauto].
  - right. left. eexists; split; [reflexivity | simpl; tauto].
  - right. right. reflexivity.
Qed.

Theorem match_def_before_use : forall run b n blks,
  def_before_use (match_inputs run b n) (match_prog run b n blks) = true.
Proof.
  intros run b n blks. unfold def_before_use, match_prog. apply dbu_seq; [| reflexivity].
  apply dbu_ranked. intros r blk D' _ _. apply dbu_all. intros o Ho.
  apply match_pre_cases in Ho. destruct Ho as [Ho | [[f [E Hf]] | Ho]].
  - destruct (locs_needs o (block_ops_locs blk o Ho)) as [E _]. rewrite E. reflexivity.
  - subst o. cbn [needs forallb]. unfold det. rewrite (match_inp run b n f Hf). reflexivity.
  - subst o. reflexivity.
Qed.

Lemma match_pre_iblall : forall run b n r blk, block_ok blk = true -> iblall (match_pre run b n r blk).
Proof.
  intros. unfold match_pre.
  apply iblall_app; [apply iblall_nolocs, nolocs_fixed; reflexivity|].
  apply iblall_app; [destruct r; apply iblall_nolocs, nolocs_fixed; reflexivity|].
  apply iblall_app; [apply iblall_block; assumption | apply iblall_nolocs, nolocs_fixed; reflexivity].
Qed.
Theorem match_inserted_before_lookup : forall run b n blks,
  forallb block_ok blks = true -> inserted_before_lookup (match_prog run b n blks) = true.
Proof.
  intros run b n blks H. assert (A : iblall (match_prog run b n blks)); [| apply A].
  unfold match_prog. apply iblall_app; [| apply iblall_nolocs, nolocs_fixed; reflexivity].
  apply iblall_ranked. intros r blk Hb. apply match_pre_iblall. rewrite forallb_forall in H. apply H. assumption.
Qed.
Theorem match_prefix_inserts : forall run b n blks, prefix_inserts (match_prog run b n blks) = true.
Proof.
  intros run b n blks. assert (A : pfxall (match_prog run b n blks)); [| apply A].
  unfold match_prog. apply pfxall_app; [| apply pfxall_nolocs, nolocs_fixed; reflexivity].
  apply pfxall_ranked. intros r blk _. unfold match_pre.
  apply pfxall_app; [apply pfxall_nolocs, nolocs_fixed; reflexivity|].
  apply pfxall_app; [destruct r; apply pfxall_nolocs, nolocs_fixed; reflexivity|].
  apply pfxall_app; [apply pfxall_block | apply pfxall_nolocs, nolocs_fixed; reflexivity].
Qed.
Theorem match_tmp_balanced : forall run b n blks, tmp_balanced (match_prog run b n blks) = true.
Proof.
  intros run b n blks. apply tmpbal_lafter. unfold match_prog. rewrite lafter_app.
  unfold match_post. cbn [lafter live_upd defs filter is_tmp app].
  apply one_glob. intros f Hf. apply lafter_in in Hf. destruct Hf as [[] | [Hw Ht]].
  apply written_ranked in Hw. destruct Hw as [r [blk Hw]]. unfold match_pre in Hw.
  rewrite !written_app in Hw. rewrite (written_locs (block_ops blk) (block_ops_locs blk)) in Hw.
  destruct r; simpl in Hw; destruct Hw as [Hw | []]; subst f; simpl; rewrite !Nat.eqb_refl; reflexivity.
Qed.

(* combine *)
Lemma combine_inp : forall run b n f,
  In f [LibF b n UniqEq 0; LibF b n AllEq 0; LibF b n Aifeyn 0; OutF run OCodelenMatches n] ->
  combine_inputs run b n f = true.
Proof.
  intros run b n f H. unfold combine_inputs. simpl in H.
  repeat (destruct H as [H | H]; [subst f; rewrite fname_eqb_refl; rewrite ?orb_true_r; reflexivity|]). contradiction.
Qed.

Theorem combine_def_before_use : forall run b n P m,
  def_before_use (combine_inputs run b n) (combine_prog run b n P m) = true.
Proof.
  intros run b n P m. unfold def_before_use, combine_prog.
  apply dbu_seq.
  { apply dbu_all. intros o Ho. apply in_flat_map in Ho. destruct Ho as [r [_ Ho]]. simpl in Ho.
    repeat (destruct Ho as [Ho | Ho];
            [subst o; cbn [needs forallb]; first [reflexivity | unfold det; rewrite combine_inp; [reflexivity | simpl; tauto]]|]).
    contradiction. }
  unfold combine_post.
  apply dbu_seq.
  { cbn [dbu needs defs forallb app]. repeat (apply andb_true_intro; split); try reflexivity; apply det_In; simpl; tauto. }
  apply dbu_seq.
  { apply dbu_repeat. cbn [needs forallb]. rewrite andb_true_r. apply det_In. indaf. }
  apply dbu_seq; [| reflexivity].
  destruct m; [| reflexivity]. cbn [dbu needs defs forallb]. rewrite !andb_true_r. apply det_In. indaf.
Qed.

Lemma combine_nolocs : forall run b n P m o, In o (combine_prog run b n P m) -> is_locs o = false.
Proof.
  intros run b n P m o Ho. unfold combine_prog in Ho. apply in_app_iff in Ho. destruct Ho as [Ho | Ho].
  - apply in_flat_map in Ho. destruct Ho as [r [_ Ho]]. simpl in Ho.
    repeat (destruct Ho as [Ho | Ho]; [subst o; reflexivity|]). contradiction.
  - unfold combine_post in Ho. apply in_app_iff in Ho. destruct Ho as [Ho | Ho].
    { simpl in Ho. repeat (destruct Ho as [Ho | Ho]; [subst o; reflexivity|]). contradiction. }
    apply in_app_iff in Ho. destruct Ho as [Ho | Ho]; [apply repeat_spec in Ho; subst o; reflexivity|].
    apply in_app_iff in Ho. destruct Ho as [Ho | Ho].
    + destruct m; [| contradiction]. destruct Ho as [Ho | []]. subst o. reflexivity.
    + destruct Ho as [Ho | []]. subst o. reflexivity.
Qed.
Theorem combine_inserted_before_lookup : forall run b n P m, inserted_before_lookup (combine_prog run b n P m) = true.
Proof. intros. apply (iblall_nolocs _ (combine_nolocs run b n P m)). Qed.
Theorem combine_prefix_inserts : forall run b n P m, prefix_inserts (combine_prog run b n P m) = true.
Proof. intros. apply (pfxall_nolocs _ (combine_nolocs run b n P m)). Qed.

Theorem combine_tmp_balanced : forall run b n P m, tmp_balanced (combine_prog run b n P m) = true.
Proof.
  intros run b n P m. apply tmpbal_lafter. unfold combine_prog, combine_post. rewrite !lafter_app.
  cbn [lafter live_upd defs filter is_tmp app].
  rewrite two_globs.
  - cbn [filter]. rewrite !lafter_notmp; try reflexivity.
    + destruct m; reflexivity.
    + apply forallb_In. intros o Ho. apply repeat_spec in Ho. subst o. reflexivity.
  - intros f Hf. apply lafter_in in Hf. destruct Hf as [[] | [Hw Ht]].
    apply written_flat_map in Hw. destruct Hw as [r [_ Hw]]. simpl in Hw.
    destruct Hw as [Hw | [Hw | []]]; subst f; simpl; rewrite !Nat.eqb_refl; auto.
Qed.

(* a killed run leaves a temp file behind: it is not tmp_balanced, and the statement excludes it *)
Lemma fit_crashed_unbalanced : forall run b n r, tmp_balanced (fit_crashed run b n r) = false.
Proof. intros. unfold fit_crashed, fit_s1, fit_s2. destruct r; reflexivity. Qed.

(* ------------------------------------------------------------------ the cached grid *)
Lemma memo_get_value : forall (X G : Type) (grid : X -> G) xvar cache,
  cache_ok X G grid xvar cache -> fst (memo_get X G grid xvar cache) = grid xvar.
Proof. intros X G grid xvar cache [-> | ->]; reflexivity. Qed.
Lemma memo_get_ok : forall (X G : Type) (grid : X -> G) xvar cache,
  cache_ok X G grid xvar cache -> cache_ok X G grid xvar (snd (memo_get X G grid xvar cache)).
Proof. intros X G grid xvar cache [-> | ->]; right; reflexivity. Qed.

(* ------------------------------------------------------------------ the property for ESR's stages *)

Lemma esr_stage_tmp_balanced : forall p, esr_stage p -> tmp_balanced p = true.
Proof.
  intros p H. destruct H.
  - apply generation_tmp_balanced.
  - reflexivity.
  - apply fit_tmp_balanced.
  - apply fisher_tmp_balanced.
  - apply match_tmp_balanced.
  - apply combine_tmp_balanced.
Qed.
Lemma esr_stage_prefix_inserts : forall p, esr_stage p -> prefix_inserts p = true.
Proof.
  intros p H. destruct H.
  - apply generation_prefix_inserts.
  - reflexivity.
  - apply fit_prefix_inserts.
  - apply fisher_prefix_inserts.
  - apply match_prefix_inserts.
  - apply combine_prefix_inserts.
Qed.
Lemma esr_history_tmp_balanced : forall h, esr_history h -> Forall (fun q => tmp_balanced q = true) h.
Proof. intros h H. eapply Forall_impl; [| exact H]. apply esr_stage_tmp_balanced. Qed.
Lemma esr_history_prefix_inserts : forall h, esr_history h -> Forall (fun q => prefix_inserts q = true) h.
Proof. intros h H. eapply Forall_impl; [| exact H]. apply esr_stage_prefix_inserts. Qed.

Section Stages.
  Variable V : Type.
  Variable interp : nat -> list (obs V) -> contents V.
  Variable R : nat.
  Notation run := (run V interp R).
  Notation run_history := (run_history V interp R).

  (* same reads and same files, fresh process on s0 vs. after the history h *)
  Definition same_outputs (p : prog) (h : list prog) (s0 : store V) : Prop :=
    let sh := run_history h (fresh V s0) in
    st_reads (run p (fresh V s0)) = st_reads (run p (start V sh))
    /\ forall f, In f (written p) -> st_files (run p (fresh V s0)) f = st_files (run p (start V sh)) f.

  Lemma stage_after_history : forall p inp h s0,
    def_before_use inp p = true -> inserted_before_lookup p = true ->
    esr_history h -> clean V s0 ->
    agree V inp s0 (st_files (run_history h (fresh V s0))) ->
    same_outputs p h s0.
  Proof.
    intros p inp h s0 Hd Hi Hh Hc Ha. unfold same_outputs.
    apply (fresh_vs_history V interp R p inp h s0); try assumption. apply esr_history_tmp_balanced. assumption.
  Qed.

  Theorem generation_after_any_history : forall b n G h s0,
    forallb block_ok (gen_blocks G) = true -> esr_history h -> clean V s0 ->
    same_outputs (generation_prog b n G) h s0.
  Proof.
    intros b n G h s0 Hb Hh Hc. apply (stage_after_history _ generation_inputs); try assumption.
    - apply generation_def_before_use.
    - apply generation_inserted_before_lookup. assumption.
    - intros f Hf. discriminate Hf.
  Qed.
  Theorem fit_after_any_history : forall run b n prev ms h s0,
    esr_history h -> clean V s0 ->
    agree V (fit_inputs b n prev) s0 (st_files (run_history h (fresh V s0))) ->
    same_outputs (fit_prog run b n prev ms) h s0.
  Proof.
    intros. apply (stage_after_history _ (fit_inputs b n prev)); try assumption.
    - apply fit_def_before_use.
    - apply fit_inserted_before_lookup.
  Qed.
  Theorem fisher_after_any_history : forall run b n P h s0,
    esr_history h -> clean V s0 ->
    agree V (fisher_inputs run b n) s0 (st_files (run_history h (fresh V s0))) ->
    same_outputs (fisher_prog run b n P) h s0.
  Proof.
    intros. apply (stage_after_history _ (fisher_inputs run b n)); try assumption.
    - apply fisher_def_before_use.
    - apply fisher_inserted_before_lookup.
  Qed.
  Theorem match_after_any_history : forall run b n blks h s0,
    forallb block_ok blks = true -> esr_history h -> clean V s0 ->
    agree V (match_inputs run b n) s0 (st_files (run_history h (fresh V s0))) ->
    same_outputs (match_prog run b n blks) h s0.
  Proof.
    intros. apply (stage_after_history _ (match_inputs run b n)); try assumption.
    - apply match_def_before_use.
    - apply match_inserted_before_lookup. assumption.
  Qed.
  Theorem combine_after_any_history : forall run b n P m h s0,
    esr_history h -> clean V s0 ->
    agree V (combine_inputs run b n) s0 (st_files (run_history h (fresh V s0))) ->
    same_outputs (combine_prog run b n P m) h s0.
  Proof.
    intros. apply (stage_after_history _ (combine_inputs run b n)); try assumption.
    - apply combine_def_before_use.
    - apply combine_inserted_before_lookup.
  Qed.

  Theorem locs_after_esr_history : forall h s0, esr_history h ->
    forall k, st_locs (run_history h (fresh V s0)) k = locs_upto (hist_K h) k.
  Proof. intros h s0 H. apply locs_monotone_idempotent. apply esr_history_prefix_inserts. assumption. Qed.
End Stages.

Lemma memo_get_spec : forall (X G : Type) (grid : X -> G) xvar cache,
  cache_ok X G grid xvar cache ->
  fst (memo_get X G grid xvar cache) = grid xvar /\ cache_ok X G grid xvar (snd (memo_get X G grid xvar cache)).
Proof. intros. split; [apply memo_get_value | apply memo_get_ok]; assumption. Qed.
