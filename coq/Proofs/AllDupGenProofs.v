(* C17: the function generated from simplifier.get_all_dup (Gen/GenAllDup.v, regenerated on every run) returns, for every
   max_param and without raising, exactly the list Model/SubsCancel.all_dup -- sign flips, reciprocals, and both key orders of
   every swap of two different parameters, in the code's order. *)
From Coq Require Import List Arith Bool Lia.
From ESRV Require Import Common.Np Model.SubsCancel Gen.GenAllDup Proofs.SubsCancelProofs.
Import ListNotations.

Lemma mapM_total : forall (A B : Type) (f : A -> option B) (g : A -> B) l,
  (forall x, In x l -> f x = Some (g x)) -> np_mapM f l = Some (map g l).
Proof.
  intros A B f g. induction l as [|x l IH]; intros H; cbn [np_mapM map]; [reflexivity|].
  rewrite (H x (or_introl eq_refl)), IH; [reflexivity|]. intros y Hy. apply H. now right.
Qed.

Lemma rev_seq_S : forall k, rev (seq 0 (S k)) = k :: rev (seq 0 k).
Proof. intros k. rewrite seq_S, rev_app_distr. reflexivity. Qed.

Lemma combinations_comb : forall k, np_combinations2 (rev (seq 0 k)) = comb k.
Proof.
  unfold comb. induction k as [|k IH]; [reflexivity|].
  rewrite rev_seq_S. cbn [np_combinations2 flat_map]. now rewrite IH.
Qed.

Lemma in_comb : forall k i j, In (i, j) (comb k) -> j < i /\ i < k.
Proof.
  intros k i j H. unfold comb in H. apply in_flat_map in H. destruct H as [i0 [Hi0 H]].
  apply in_map_iff in H. destruct H as [j0 [E Hj0]]. inversion E; subst.
  apply in_rev, in_seq in Hi0. apply in_rev, in_seq in Hj0. lia.
Qed.

Lemma nth_error_seq0 : forall k a i, i < k -> nth_error (seq a k) i = Some (a + i).
Proof.
  induction k as [|k IH]; intros a i H; [lia|]. destruct i as [|i]; cbn [seq nth_error].
  - f_equal. lia.
  - rewrite IH by lia. f_equal. lia.
Qed.

Theorem all_dup_code_is_model : forall k, get_all_dup_code k = Some (SubsCancel.all_dup k).
Proof.
  intros k. unfold get_all_dup_code. destruct (k =? 0) eqn:E.
  - apply Nat.eqb_eq in E. subst. reflexivity.
  - cbv zeta.
    rewrite (mapM_total _ _ _ SNeg) by (intros x _; now rewrite Nat.eqb_refl). cbn [bindd].
    rewrite (mapM_total _ _ _ SInv) by (intros x _; now rewrite Nat.eqb_refl). cbn [bindd].
    rewrite combinations_comb.
    rewrite (mapM_total _ _ _ (fun c => swap (fst c) (snd c))).
    2:{ intros [i j] Hc. apply in_comb in Hc. cbn [fst snd].
        rewrite !nth_error_seq0 by lia. cbn [bindd plus]. unfold py_dict2, swap.
        destruct (Nat.eqb_spec i j); [lia|reflexivity]. }
    cbn [bindd].
    rewrite (mapM_total _ _ _ (fun c => swap (snd c) (fst c))).
    2:{ intros [i j] Hc. apply in_comb in Hc. cbn [fst snd].
        rewrite !nth_error_seq0 by lia. cbn [bindd plus]. unfold py_dict2, swap.
        destruct (Nat.eqb_spec j i); [lia|reflexivity]. }
    cbn [bindd]. unfold SubsCancel.all_dup. now rewrite <- !app_assoc.
Qed.

Theorem all_dup_code_spec : forall (k : nat) (s : sub),
  (exists l, get_all_dup_code k = Some l /\ In s l) <->
  (exists i, i < k /\ (s = SNeg i \/ s = SInv i)) \/
  (exists i j, i < k /\ j < k /\ i <> j /\ s = swap i j).
Proof.
  intros k s. rewrite <- (all_dup_spec k s). rewrite all_dup_code_is_model. split.
  - intros [l [E H]]. inversion E. now subst.
  - intros H. exists (SubsCancel.all_dup k). split; [reflexivity | exact H].
Qed.

(* the two generated functions together, as duplicate_checker.main uses them: all_dup = get_all_dup(max_param), then
   simplify_inv_subs(chain, all_dup) for every chain -- the composed parameter map is preserved (rationals: decidable arithmetic) *)
From Coq Require Import QArith Qcanon.
From ESRV Require Import Proofs.CancelGenProofs.
Theorem code_all_dup_then_cancel_Qc : forall (interp : nat -> list Qc -> option (list Qc)) (k : nat) (chain : list sub) (e e' : list Qc) dup,
  get_all_dup_code k = Some dup -> (k <= length e)%nat ->
  compose Qc (Q2Qc 0) Qcopp Qcinv Qc_is_zero interp chain e = Some e' ->
  exists c, gen_chain chain dup = Some c /\ compose Qc (Q2Qc 0) Qcopp Qcinv Qc_is_zero interp c e = Some e'.
Proof.
  intros interp k chain e e' dup Hd Hk Hc. rewrite all_dup_code_is_model in Hd. injection Hd as <-.
  now apply gen_preserves_composition_Qc.
Qed.
