(* C17: the function generated from simplifier.simplify_inv_subs (Gen/GenCancel.v, regenerated on every run)
   computes exactly the hand-written model Model/SubsCancel.simplify_inv_subs -- for every element type with any
   equality, every chain, every all_dup.  The theorems about [cancel] therefore speak about the code as it is now. *)
From Coq Require Import ZArith List Bool Arith Lia.
From ESRV Require Import Common.Py Gen.GenCancel Model.SubsCancel.
Import ListNotations.

(* the hand model, generalised over the element type (SubsCancel instantiates it at [sub]) *)
Section Generic.
  Context {A : Type} (eqA : A -> A -> bool).

  Fixpoint gloop (fuel : nat) (inv dup : list A) (i : nat) (del : list nat) : option (list nat) :=
    match fuel with
    | O => None
    | S f =>
        if (i + 1 <? length inv)%nat then
          match nth_error inv i, nth_error inv (i + 1) with
          | Some x, Some y =>
              if py_mem eqA x dup then
                if eqA y x then gloop f inv dup (i + 2) (del ++ [i; (i + 1)%nat])
                else gloop f inv dup (i + 1) del
              else gloop f inv dup (i + 1) del
          | _, _ => None
          end
        else Some del
    end.

  Definition gselect (inv : list A) (del : list nat) : list A :=
    map snd (filter (fun p => negb (existsb (Nat.eqb (fst p)) del)) (combine (seq 0 (length inv)) inv)).

  Definition gsimplify (inv dup : list A) : option (option (list A)) :=
    match inv with
    | [] => Some (Some [])
    | _ =>
        match gloop (S (length inv)) inv dup 0 [] with
        | None => None
        | Some del =>
            let new_inv := gselect inv del in
            Some (match new_inv with [] => None | _ => Some new_inv end)
        end
    end.

  Lemma py_index_nat : forall (l : list A) (i : nat), py_index l (Z.of_nat i) = nth_error l i.
  Proof.
    intros l i. unfold py_index.
    destruct (0 <=? Z.of_nat i)%Z eqn:E; [ now rewrite Nat2Z.id | apply Z.leb_gt in E; lia ].
  Qed.

  Lemma mem_Z_nat : forall (k : nat) (del : list nat),
    py_mem Z.eqb (Z.of_nat k) (map Z.of_nat del) = existsb (Nat.eqb k) del.
  Proof.
    intros k del. unfold py_mem. induction del as [|d del IH]; cbn [map existsb]; [reflexivity|].
    rewrite IH. f_equal.
    destruct (Nat.eqb_spec k d) as [->|Hne]; [ apply Z.eqb_refl | apply Z.eqb_neq; lia ].
  Qed.

  Definition wcond (inv : list A) : list Z * Z -> bool :=
    fun '(del_idx, i) => (i <? ((py_len inv) - 1))%Z.

  Definition wbody (inv dup : list A) : list Z * Z -> option (list Z * Z) :=
    fun '(del_idx, i) => ix_1 <- (py_index inv i) ;;
      '(del_idx, i) <- (if (py_mem eqA ix_1 dup) then (ix_2 <- (py_index inv (i + 1)) ;;
        ix_3 <- (py_index inv i) ;;
        '(del_idx, i) <- (if (eqA ix_2 ix_3) then (let del_idx := (del_idx ++ [i]) in
            let del_idx := (del_idx ++ [(i + 1)%Z]) in
            let i := (i + 2)%Z in
            Some (del_idx, i)) else (let i := (i + 1)%Z in
            Some (del_idx, i))) ;;
        Some (del_idx, i)) else (let i := (i + 1)%Z in
        Some (del_idx, i))) ;;
      Some (del_idx, i).

  Lemma loop_eq : forall fuel inv dup i del,
    option_map fst (while_fuel fuel (wcond inv) (wbody inv dup) (map Z.of_nat del, Z.of_nat i))
    = option_map (map Z.of_nat) (gloop fuel inv dup i del).
  Proof.
    induction fuel as [|f IH]; intros inv dup i del; [reflexivity|].
    cbn [while_fuel gloop]. unfold wcond at 1. unfold py_len.
    destruct (i + 1 <? length inv)%nat eqn:Hc.
    - apply Nat.ltb_lt in Hc.
      replace (Z.of_nat i <? Z.of_nat (length inv) - 1)%Z with true by (symmetry; apply Z.ltb_lt; lia).
      destruct (nth_error inv i) as [x|] eqn:Hx; [| apply nth_error_None in Hx; lia ].
      destruct (nth_error inv (i + 1)) as [y|] eqn:Hy; [| apply nth_error_None in Hy; lia ].
      unfold wbody at 1. rewrite py_index_nat, Hx. cbn [bind].
      destruct (py_mem eqA x dup) eqn:Hm.
      + replace (Z.of_nat i + 1)%Z with (Z.of_nat (i + 1)) by lia.
        rewrite py_index_nat, Hy. cbn [bind].
        destruct (eqA y x) eqn:He; cbn [bind].
        * replace (Z.of_nat i + 2)%Z with (Z.of_nat (i + 2)) by lia.
          replace ((map Z.of_nat del ++ [Z.of_nat i]) ++ [Z.of_nat (i + 1)]) with (map Z.of_nat (del ++ [i; (i + 1)%nat])).
          -- apply IH.
          -- rewrite map_app. cbn [map]. rewrite <- app_assoc. reflexivity.
        * apply IH.
      + cbn [bind]. replace (Z.of_nat i + 1)%Z with (Z.of_nat (i + 1)) by lia. apply IH.
    - apply Nat.ltb_ge in Hc.
      replace (Z.of_nat i <? Z.of_nat (length inv) - 1)%Z with false by (symmetry; apply Z.ltb_ge; lia).
      reflexivity.
  Qed.

  Lemma comp_select_aux : forall (del : list nat) (suf pre : list A),
    comp_list (fun i => negb (py_mem Z.eqb i (map Z.of_nat del)))
              (fun i => ix <- py_index (pre ++ suf) i ;; Some ix)
              (map Z.of_nat (seq (length pre) (length suf)))
    = Some (map snd (filter (fun p => negb (existsb (Nat.eqb (fst p)) del)) (combine (seq (length pre) (length suf)) suf))).
  Proof.
    intros del suf. induction suf as [|x suf IH]; intros pre; [reflexivity|].
    cbn [length seq map comp_list combine filter fst].
    rewrite mem_Z_nat.
    specialize (IH (pre ++ [x])). rewrite <- app_assoc in IH. cbn [app] in IH.
    rewrite app_length in IH. cbn [length] in IH. rewrite Nat.add_1_r in IH.
    destruct (existsb (Nat.eqb (length pre)) del) eqn:He; cbn [negb].
    - exact IH.
    - rewrite py_index_nat. rewrite nth_error_app2 by lia. rewrite Nat.sub_diag. cbn [nth_error bind].
      rewrite IH. reflexivity.
  Qed.

  Lemma comp_select : forall (inv : list A) (del : list nat),
    py_comp_range (py_len inv) (fun i => negb (py_mem Z.eqb i (map Z.of_nat del)))
                  (fun i => ix <- py_index inv i ;; Some ix)
    = Some (gselect inv del).
  Proof.
    intros inv del. unfold py_comp_range, zrange, py_len, gselect. rewrite Nat2Z.id.
    exact (comp_select_aux del inv []).
  Qed.

  (* the generated function = the generalised hand model *)
  Theorem gen_simplify_eq : forall inv dup : list A,
    GenCancel.simplify_inv_subs eqA (Some inv) dup = gsimplify inv dup.
  Proof.
    intros inv dup. unfold GenCancel.simplify_inv_subs, gsimplify.
    destruct inv as [|a inv']; [reflexivity|].
    set (inv := a :: inv').
    replace (py_len inv =? 0)%Z with false by (symmetry; apply Z.eqb_neq; unfold py_len, inv; cbn [length]; lia).
    pose proof (loop_eq (S (length inv)) inv dup 0 []) as HL. cbn [map Z.of_nat] in HL.
    change (fun '(del_idx, i) => (i <? py_len inv - 1)%Z) with (wcond inv).
    match goal with |- context [while_fuel _ _ ?b _] => change b with (wbody inv dup) end.
    destruct (while_fuel (S (length inv)) (wcond inv) (wbody inv dup) ([], 0%Z)) as [[dz iz]|] eqn:HW;
      destruct (gloop (S (length inv)) inv dup 0 []) as [del|] eqn:HG; cbn [option_map fst] in HL; try discriminate.
    - injection HL as ->. cbn [bind]. rewrite comp_select. cbn [bind].
      unfold py_len. destruct (gselect inv del) as [|z zs]; reflexivity.
    - reflexivity.
  Qed.

  Theorem gen_simplify_none : forall dup : list A, GenCancel.simplify_inv_subs eqA None dup = Some None.
  Proof. reflexivity. Qed.
End Generic.

(* at the element type of the C17 model the generalised model is the model, definitionally *)
Lemma gloop_is_sis_loop : forall fuel inv dup i del, gloop sub_eqb fuel inv dup i del = sis_loop fuel inv dup i del.
Proof. induction fuel as [|f IH]; intros; cbn [gloop sis_loop]; [reflexivity|]. now rewrite !IH. Qed.

Theorem gen_is_model : forall inv dup : list sub,
  GenCancel.simplify_inv_subs sub_eqb (Some inv) dup = SubsCancel.simplify_inv_subs inv dup.
Proof.
  intros inv dup. rewrite gen_simplify_eq. unfold gsimplify, SubsCancel.simplify_inv_subs.
  destruct inv as [|a inv']; [reflexivity|]. rewrite gloop_is_sis_loop. reflexivity.
Qed.

(* the row the code writes for a function, from the GENERATED function *)
Definition gen_chain (inv dup : list sub) : option (list sub) :=
  match GenCancel.simplify_inv_subs sub_eqb (Some inv) dup with
  | None => None
  | Some None => Some []
  | Some (Some c) => Some c
  end.

Theorem gen_chain_is_sis_chain : forall inv dup, gen_chain inv dup = sis_chain inv dup.
Proof. intros. unfold gen_chain, sis_chain. now rewrite gen_is_model. Qed.

(* ---- the C17 cancellation theorems, restated on the generated function ---- *)
From Coq Require Import Reals QArith Qcanon.
From ESRV Require Import Proofs.SubsCancelProofs.

Theorem gen_chain_cancel : forall inv dup, gen_chain inv dup = Some (cancel dup inv).
Proof. intros. rewrite gen_chain_is_sis_chain. apply sis_chain_cancel. Qed.

Theorem gen_preserves_composition_R :
  forall (interp : nat -> list R -> option (list R)) (k : nat) (chain : list sub) (e e' : list R),
  (k <= length e)%nat ->
  compose R 0%R Ropp Rinv R_is_zero interp chain e = Some e' ->
  exists c, gen_chain chain (all_dup k) = Some c /\ compose R 0%R Ropp Rinv R_is_zero interp c e = Some e'.
Proof. intros. rewrite gen_chain_is_sis_chain. now apply cancel_preserves_composition_R. Qed.

Theorem gen_preserves_composition_Qc :
  forall (interp : nat -> list Qc -> option (list Qc)) (k : nat) (chain : list sub) (e e' : list Qc),
  (k <= length e)%nat ->
  compose Qc (Q2Qc 0) Qcopp Qcinv Qc_is_zero interp chain e = Some e' ->
  exists c, gen_chain chain (all_dup k) = Some c /\ compose Qc (Q2Qc 0) Qcopp Qcinv Qc_is_zero interp c e = Some e'.
Proof. intros. rewrite gen_chain_is_sis_chain. now apply cancel_preserves_composition_Qc. Qed.

Theorem gen_removes_pairs : forall (k : nat) (chain : list sub),
  exists c, gen_chain chain (all_dup k) = Some c /\ removes_pairs (all_dup k) chain c.
Proof. intros. rewrite gen_chain_is_sis_chain. apply sis_chain_removes_pairs. Qed.

Theorem gen_keeps_nan : forall (k : nat) (chain : list sub),
  exists c, gen_chain chain (all_dup k) = Some c /\ (In SNan c <-> In SNan chain).
Proof. intros. rewrite gen_chain_is_sis_chain. apply sis_chain_nan. Qed.
