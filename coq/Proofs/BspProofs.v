(* Schedule independence of SPMD programs built from blocking collectives:
   every asynchronous execution agrees with the lock-step run. *)
From Coq Require Import List Arith Bool Lia.
From ESRV Require Import Model.Bsp.
Import ListNotations.

Section BspProofs.
  Variables (S C : Type) (P : nat) (prog : list (phase S C)) (init : nat -> S).

  Definition Lst (k : nat) : nat -> S := lock P (firstn k prog) init.

  Lemma lock_app (l1 l2 : list (phase S C)) (st : nat -> S) : lock P (l1 ++ l2) st = lock P l2 (lock P l1 st).
  Proof. revert st; induction l1 as [|p l1 IH]; intros st; cbn; [reflexivity|apply IH]. Qed.

  Lemma firstn_snoc {A} (l : list A) k x : nth_error l k = Some x -> firstn (Datatypes.S k) l = firstn k l ++ [x].
  Proof.
    revert k; induction l as [|h t IH]; intros k Hk; destruct k; cbn in *; try discriminate.
    - now inversion Hk.
    - f_equal. now apply IH.
  Qed.

  Lemma Lst_succ k p : nth_error prog k = Some p -> Lst (Datatypes.S k) = lock_step P p (Lst k).
  Proof. intros H. unfold Lst. rewrite (firstn_snoc _ _ _ H), lock_app. reflexivity. Qed.

  Lemma nth_error_set_nth_eq {A} (l : list A) r x : r < length l -> nth_error (set_nth r x l) r = Some x.
  Proof.
    revert r; induction l as [|h t IH]; intros r Hr; cbn in *; [lia|].
    destruct r; cbn; [reflexivity|]. apply IH. lia.
  Qed.

  Lemma nth_error_set_nth_neq {A} (l : list A) r r' x : r <> r' -> nth_error (set_nth r x l) r' = nth_error l r'.
  Proof.
    revert r r'; induction l as [|h t IH]; intros r r' Hn; cbn.
    - destruct r; reflexivity.
    - destruct r, r'; cbn; try reflexivity; [lia|]. apply IH. lia.
  Qed.

  Lemma set_nth_length {A} (l : list A) r x : length (set_nth r x l) = length l.
  Proof. revert r; induction l as [|h t IH]; intros r; destruct r; cbn; auto. Qed.

  Definition board_sound (b : board C) : Prop :=
    forall k r c, lookup b k r = Some c -> exists p, nth_error prog k = Some p /\ c = snd (local p r (Lst k r)).

  Definition rank_ok (r : nat) (rs : rank_state S) : Prop :=
    pc rs <= length prog /\
    (dep rs = false -> rst rs = Lst (pc rs) r) /\
    (dep rs = true -> exists p, nth_error prog (pc rs) = Some p /\ rst rs = fst (local p r (Lst (pc rs) r))).

  Definition Inv (a : astate S C) : Prop :=
    length (ranks a) = P /\
    (forall r rs, nth_error (ranks a) r = Some rs -> rank_ok r rs) /\
    board_sound (brd a).

  Lemma collect_sound b k p rs cs :
    board_sound b -> nth_error prog k = Some p -> collect b k rs = Some cs ->
    cs = map (fun r => snd (local p r (Lst k r))) rs.
  Proof.
    intros Hb Hp. revert cs; induction rs as [|r rs IH]; intros cs; cbn.
    - now intros [= <-].
    - destruct (lookup b k r) as [c|] eqn:El; [|discriminate].
      destruct (collect b k rs) as [cs'|]; [|discriminate]. intros [= <-].
      destruct (Hb _ _ _ El) as (p' & Hp' & ->). rewrite Hp in Hp'. inversion Hp'; subst p'.
      f_equal. now apply IH.
  Qed.

  Lemma astep_inv a r : Inv a -> Inv (astep P prog a r).
  Proof.
    intros (Hlen & Hr & Hb). unfold astep.
    destruct (nth_error (ranks a) r) as [rs|] eqn:En; [|exact (conj Hlen (conj Hr Hb))].
    destruct (nth_error prog (pc rs)) as [p|] eqn:Ep; [|exact (conj Hlen (conj Hr Hb))].
    assert (Hlt : r < length (ranks a)) by (apply nth_error_Some; congruence).
    destruct (Hr _ _ En) as (Hpc & Hd0 & Hd1).
    destruct (dep rs) eqn:Ed.
    - destruct (collect (brd a) (pc rs) (seq 0 P)) as [cs|] eqn:Ec; [|exact (conj Hlen (conj Hr Hb))].
      pose proof (collect_sound _ _ _ _ _ Hb Ep Ec) as Hcs.
      destruct (Hd1 eq_refl) as (p' & Hp' & Hst). rewrite Ep in Hp'. inversion Hp'; subst p'.
      split; [cbn; now rewrite set_nth_length|]. split; [|exact Hb].
      intros r' rs' En'. cbn [ranks] in En'.
      destruct (Nat.eq_dec r r') as [<-|Hne].
      + rewrite nth_error_set_nth_eq in En' by exact Hlt. inversion En'; subst rs'. clear En'.
        unfold rank_ok. cbn [pc rst dep].
        assert (pc rs < length prog) by (apply nth_error_Some; congruence).
        split; [lia|]. split; [|discriminate]. intros _.
        rewrite (Lst_succ _ _ Ep). unfold lock_step, contribs. rewrite Hcs, Hst. reflexivity.
      + rewrite nth_error_set_nth_neq in En' by exact Hne. now apply Hr.
    - destruct (local p r (rst rs)) as [s' c] eqn:El.
      split; [cbn; now rewrite set_nth_length|]. split.
      + intros r' rs' En'. cbn [ranks] in En'.
        destruct (Nat.eq_dec r r') as [<-|Hne].
        * rewrite nth_error_set_nth_eq in En' by exact Hlt. inversion En'; subst rs'. clear En'.
          unfold rank_ok. cbn [pc rst dep]. split; [exact Hpc|]. split; [discriminate|]. intros _.
          exists p. split; [exact Ep|]. rewrite <- (Hd0 eq_refl), El. reflexivity.
        * rewrite nth_error_set_nth_neq in En' by exact Hne. now apply Hr.
      + intros k r' c'. cbn [brd lookup].
        destruct (Nat.eqb k (pc rs) && Nat.eqb r' r)%bool eqn:Eb.
        * apply andb_true_iff in Eb as [Ek Er]. apply Nat.eqb_eq in Ek, Er. subst k r'.
          intros [= <-]. exists p. split; [exact Ep|]. rewrite <- (Hd0 eq_refl), El. reflexivity.
        * apply Hb.
  Qed.

  Lemma ainit_rank r rs : nth_error (ranks (ainit (C:=C) P init)) r = Some rs -> rs = mkRank 0 (init r) false.
  Proof.
    unfold ainit; cbn [ranks]. intros H.
    rewrite nth_error_map in H. destruct (nth_error (seq 0 P) r) as [r0|] eqn:E; [|discriminate].
    cbn in H. inversion H; subst rs. f_equal.
    assert (r < length (seq 0 P)) by (apply nth_error_Some; congruence).
    rewrite seq_length in H0. apply (nth_error_nth _ _ 0) in E. rewrite seq_nth in E by lia. now subst r0.
  Qed.
  Lemma ainit_inv : Inv (ainit (C:=C) P init).
  Proof.
    unfold ainit, Inv; cbn [ranks brd]. split; [now rewrite map_length, seq_length|]. split.
    - intros r rs En. apply ainit_rank in En. subst rs.
      unfold rank_ok; cbn. split; [lia|]. split; [|discriminate].
      intros _. reflexivity.
    - intros k r c; cbn; discriminate.
  Qed.


  Theorem schedule_independent (sched : list nat) :
    let a := arun P prog init sched in
    Inv a /\
    (finished prog a -> forall r rs, nth_error (ranks a) r = Some rs -> rst rs = lock P prog init r).
  Proof.
    cbn zeta. unfold arun.
    assert (HI : Inv (fold_left (astep P prog) sched (ainit P init))).
    { generalize ainit_inv. generalize (ainit (C:=C) P init) as a.
      induction sched as [|r s IH]; intros a Ha; cbn [fold_left]; [exact Ha|].
      apply IH. now apply astep_inv. }
    split; [exact HI|]. intros Hfin r rs En.
    destruct HI as (_ & Hr & _). destruct (Hr _ _ En) as (_ & Hd0 & Hd1).
    unfold finished in Hfin. rewrite Forall_forall in Hfin.
    pose proof (Hfin rs (nth_error_In _ _ En)) as Hpc.
    destruct (dep rs) eqn:Ed.
    - destruct (Hd1 eq_refl) as (p & Hp & _). rewrite Hpc in Hp.
      assert (nth_error prog (length prog) = None) by (apply nth_error_None; lia). congruence.
    - rewrite (Hd0 eq_refl), Hpc. unfold Lst. now rewrite firstn_all.
  Qed.
End BspProofs.

(* ------------------------------------------------------------------ *)
(* Deadlock freedom: in every reachable state that is not finished some rank can take a step
   that makes progress (a deposit or a pick-up); the progress measure is bounded, so every
   fair execution finishes -- and then agrees with the lock-step run by [schedule_independent]. *)
Section BspProgress.
  Variables (S C : Type) (P : nat) (prog : list (phase S C)) (init : nat -> S).

  Definition rank_measure (rs : rank_state S) : nat := 2 * pc rs + (if dep rs then 1 else 0).
  Definition measure (a : astate S C) : nat := fold_right (fun rs m => rank_measure rs + m) 0 (ranks a).

  (* board completeness: whatever a rank has deposited is on the board *)
  Definition board_complete (a : astate S C) : Prop :=
    forall r rs, nth_error (ranks a) r = Some rs ->
      forall k, (k < pc rs \/ (k = pc rs /\ dep rs = true)) -> k < length prog -> lookup (brd a) k r <> None.

  Definition Inv2 (a : astate S C) : Prop :=
    length (ranks a) = P /\ board_complete a /\ (forall r rs, nth_error (ranks a) r = Some rs -> pc rs <= length prog).

  Lemma measure_set_nth (l : list (rank_state S)) r rs rs' :
    nth_error l r = Some rs ->
    fold_right (fun x m => rank_measure x + m) 0 (set_nth r rs' l) + rank_measure rs =
    fold_right (fun x m => rank_measure x + m) 0 l + rank_measure rs'.
  Proof.
    revert r; induction l as [|h t IH]; intros r H; destruct r; cbn in *; try discriminate.
    - inversion H; subst. lia.
    - specialize (IH _ H). lia.
  Qed.

  Lemma lookup_cons_other (b : board C) k r k' r' c :
    lookup b k r <> None -> lookup ((k', r', c) :: b) k r <> None.
  Proof. cbn. destruct (Nat.eqb k k' && Nat.eqb r r')%bool; [discriminate|auto]. Qed.

  Lemma astep_inv2 a r : Inv2 a -> Inv2 (astep P prog a r).
  Proof.
    intros (Hlen & Hbc & Hpc). unfold astep.
    destruct (nth_error (ranks a) r) as [rs|] eqn:En; [|exact (conj Hlen (conj Hbc Hpc))].
    destruct (nth_error prog (pc rs)) as [p|] eqn:Ep; [|exact (conj Hlen (conj Hbc Hpc))].
    assert (Hlt : r < length (ranks a)) by (apply nth_error_Some; congruence).
    assert (Hpl : pc rs < length prog) by (apply nth_error_Some; congruence).
    destruct (dep rs) eqn:Ed.
    - destruct (collect (brd a) (pc rs) (seq 0 P)) as [cs|] eqn:Ec; [|exact (conj Hlen (conj Hbc Hpc))].
      split; [cbn; now rewrite set_nth_length|]. split.
      + intros r' rs' En' k Hk Hkl. cbn [ranks brd] in *.
        destruct (Nat.eq_dec r r') as [<-|Hne].
        * rewrite nth_error_set_nth_eq in En' by exact Hlt. inversion En'; subst rs'; clear En'. cbn [pc dep] in Hk.
          apply (Hbc r rs En k); [|exact Hkl]. destruct Hk as [Hk|[_ Hk]]; [|discriminate].
          destruct (Nat.eq_dec k (pc rs)); [right; auto|left; lia].
        * rewrite nth_error_set_nth_neq in En' by exact Hne. now apply (Hbc r' rs' En' k).
      + intros r' rs' En'. cbn [ranks] in En'.
        destruct (Nat.eq_dec r r') as [<-|Hne].
        * rewrite nth_error_set_nth_eq in En' by exact Hlt. inversion En'; subst rs'. cbn. lia.
        * rewrite nth_error_set_nth_neq in En' by exact Hne. now apply Hpc with r'.
    - destruct (local p r (rst rs)) as [s' c] eqn:El.
      split; [cbn; now rewrite set_nth_length|]. split.
      + intros r' rs' En' k Hk Hkl. cbn [ranks brd] in *.
        destruct (Nat.eq_dec r r') as [<-|Hne].
        * rewrite nth_error_set_nth_eq in En' by exact Hlt. inversion En'; subst rs'; clear En'. cbn [pc dep] in Hk.
          destruct Hk as [Hk|[Hk _]].
          -- apply lookup_cons_other. apply (Hbc r rs En k); [left; exact Hk|exact Hkl].
          -- subst k. cbn. rewrite !Nat.eqb_refl. cbn. discriminate.
        * rewrite nth_error_set_nth_neq in En' by exact Hne. apply lookup_cons_other. now apply (Hbc r' rs' En' k).
      + intros r' rs' En'. cbn [ranks] in En'.
        destruct (Nat.eq_dec r r') as [<-|Hne].
        * rewrite nth_error_set_nth_eq in En' by exact Hlt. inversion En'; subst rs'. cbn. now apply Hpc with r.
        * rewrite nth_error_set_nth_neq in En' by exact Hne. now apply Hpc with r'.
  Qed.

  Lemma ainit_inv2 : Inv2 (ainit (C:=C) P init).
  Proof.
    split; [cbn; now rewrite map_length, seq_length|]. split.
    - intros r rs En k Hk _. apply (ainit_rank S C P init) in En. subst rs. cbn in Hk. destruct Hk as [Hk|[_ Hk]]; [lia|discriminate].
    - intros r rs En. apply (ainit_rank S C P init) in En. subst rs. cbn. lia.
  Qed.

  (* a rank with the least progress *)
  Lemma exists_min (l : list (rank_state S)) : l <> [] ->
    exists r rs, nth_error l r = Some rs /\ forall r' rs', nth_error l r' = Some rs' -> rank_measure rs <= rank_measure rs'.
  Proof.
    induction l as [|h t IH]; [congruence|]. intros _. destruct t as [|h2 t2].
    - exists 0, h. split; [reflexivity|]. intros [|r'] rs' H; cbn in H; [inversion H; lia|destruct r'; discriminate].
    - destruct IH as (r & rs & Hn & Hmin); [discriminate|].
      destruct (le_lt_dec (rank_measure h) (rank_measure rs)) as [Hle|Hgt].
      + exists 0, h. split; [reflexivity|]. intros [|r'] rs' H; cbn in H; [inversion H; lia|]. specialize (Hmin _ _ H). lia.
      + exists (Datatypes.S r), rs. split; [exact Hn|]. intros [|r'] rs' H; cbn in H; [inversion H; subst; lia|]. now apply Hmin with r'.
  Qed.

  Lemma collect_complete (b : board C) k rs :
    (forall r, In r rs -> lookup b k r <> None) -> collect b k rs <> None.
  Proof.
    induction rs as [|r rs IH]; intros H; cbn; [discriminate|].
    destruct (lookup b k r) eqn:El; [|exfalso; apply (H r (or_introl eq_refl)); exact El].
    assert (Hc : collect b k rs <> None) by (apply IH; intros; apply H; now right).
    destruct (collect b k rs); [discriminate|congruence].
  Qed.

  Theorem bsp_progress (a : astate S C) :
    Inv2 a -> 1 <= P -> ~ finished prog a ->
    exists r, r < P /\ measure (astep P prog a r) = Datatypes.S (measure a).
  Proof.
    intros (Hlen & Hbc & Hpc) HP Hnf.
    assert (Hne : ranks a <> []) by (intros E; rewrite E in Hlen; cbn in Hlen; lia).
    destruct (exists_min (ranks a) Hne) as (r & rs & En & Hmin).
    assert (Hr : r < P) by (rewrite <- Hlen; apply nth_error_Some; congruence).
    (* the least-advanced rank is not at the end, otherwise everybody is finished *)
    assert (Hk : pc rs < length prog).
    { destruct (le_lt_dec (length prog) (pc rs)) as [Hge|]; [|assumption]. exfalso. apply Hnf.
      unfold finished. apply Forall_forall. intros rs' Hin. apply In_nth_error in Hin as (r' & En').
      pose proof (Hmin _ _ En') as Hm. pose proof (Hpc _ _ En') as Hp'. pose proof (Hpc _ _ En) as Hp.
      unfold rank_measure in Hm. destruct (dep rs), (dep rs'); lia. }
    exists r. split; [exact Hr|]. unfold astep. rewrite En.
    destruct (nth_error prog (pc rs)) as [p|] eqn:Ep; [|apply nth_error_None in Ep; lia].
    destruct (dep rs) eqn:Ed.
    - (* everybody has deposited for phase pc rs *)
      destruct (collect (brd a) (pc rs) (seq 0 P)) as [cs|] eqn:Ec.
      + unfold measure. cbn [ranks].
        pose proof (measure_set_nth (ranks a) r rs (mkRank (Datatypes.S (pc rs)) (combine p cs r (rst rs)) false) En) as Hm.
        set (A := fold_right _ 0 (set_nth _ _ _)) in *. set (B := fold_right _ 0 (ranks a)) in *.
        unfold rank_measure in Hm. cbn [pc dep] in Hm. rewrite Ed in Hm. lia.
      + exfalso. revert Ec. apply collect_complete. intros r' Hin. apply in_seq in Hin.
        assert (Hr' : r' < length (ranks a)) by lia.
        destruct (nth_error (ranks a) r') as [rs'|] eqn:En'; [|apply nth_error_None in En'; lia].
        apply (Hbc r' rs' En' (pc rs)); [|exact Hk].
        pose proof (Hmin _ _ En') as Hm. unfold rank_measure in Hm. rewrite Ed in Hm.
        destruct (dep rs') eqn:Ed'; [|left; lia].
        destruct (Nat.eq_dec (pc rs') (pc rs)); [right; auto|left; lia].
    - destruct (local p r (rst rs)) as [s' c] eqn:El.
      unfold measure. cbn [ranks].
      pose proof (measure_set_nth (ranks a) r rs (mkRank (pc rs) s' true) En) as Hm.
      set (A := fold_right _ 0 (set_nth _ _ _)) in *. set (B := fold_right _ 0 (ranks a)) in *.
      unfold rank_measure in Hm. cbn [pc dep] in Hm. rewrite Ed in Hm. lia.
  Qed.

  Theorem bsp_deadlock_free (sched : list nat) :
    1 <= P -> let a := arun P prog init sched in
    ~ finished prog a -> exists r, r < P /\ measure (astep P prog a r) = Datatypes.S (measure a).
  Proof.
    intros HP a Hnf. apply bsp_progress; [|exact HP|exact Hnf].
    unfold a, arun. clear a Hnf. generalize ainit_inv2. generalize (ainit (C:=C) P init) as a0.
    induction sched as [|r s IH]; intros a0 Ha; cbn [fold_left]; [exact Ha|]. apply IH. now apply astep_inv2.
  Qed.
End BspProgress.
