(* C05 -- lemmas about Model/Match.v (the per-variant body of esr/fitting/match.py : main). *)
From Coq Require Import QArith ZArith List Bool Arith Lia Lqa.
From ESRV Require Import Model.Subs Model.Match Proofs.SubsProofs.
Import ListNotations.
Close Scope Q_scope.
Open Scope nat_scope.

(* ================================================================== list facts *)
Lemma map2_length : forall {A B C} (f : A -> B -> C) l1 l2, length (map2 f l1 l2) = Nat.min (length l1) (length l2).
Proof. intros. unfold map2. now rewrite map_length, combine_length. Qed.

Lemma filter_length_le : forall {A} (f : A -> bool) l, length (filter f l) <= length l.
Proof. intros A f l. induction l as [|x l IH]; simpl; [lia|]. destruct (f x); simpl; lia. Qed.

Lemma count_le_length : forall m, count m <= length m.
Proof. intros. unfold count. apply filter_length_le. Qed.

Lemma memn_true : forall i D, memn i D = true <-> In i D.
Proof.
  intros. unfold memn. rewrite existsb_exists. split.
  - intros [x [Hx He]]. apply Nat.eqb_eq in He. now subst.
  - intros H. exists i. split; [assumption|apply Nat.eqb_refl].
Qed.

Definition idx_from (s : nat) (m : list bool) : list nat := map fst (filter snd (combine (seq s (length m)) m)).
Lemma idx_of_from : forall m, idx_of m = idx_from 0 m.
Proof. reflexivity. Qed.
Lemma idx_from_cons : forall s b m,
  idx_from s (b :: m) = if b then s :: idx_from (S s) m else idx_from (S s) m.
Proof. intros. unfold idx_from. simpl. destruct b; reflexivity. Qed.
Lemma idx_from_bounds : forall m s i, In i (idx_from s m) -> s <= i < s + length m.
Proof.
  induction m as [|b m IH]; intros s i H.
  - inversion H.
  - rewrite idx_from_cons in H. simpl. destruct b.
    + destruct H as [H|H]; [lia|]. apply IH in H. lia.
    + apply IH in H. lia.
Qed.
Lemma idx_from_nth : forall m s i, In i (idx_from s m) <-> (s <= i < s + length m /\ nth (i - s) m false = true).
Proof.
  induction m as [|b m IH]; intros s i.
  - simpl. split; [intros []|intros [H _]; lia].
  - rewrite idx_from_cons. simpl length. destruct b.
    + simpl In. rewrite IH. split.
      * intros [<-|[Hb Hn]]; [split; [lia|]; now rewrite Nat.sub_diag|].
        split; [lia|]. replace (i - s) with (S (i - S s)) by lia. exact Hn.
      * intros [Hb Hn]. destruct (Nat.eq_dec s i) as [E|E]; [now left|right].
        split; [lia|]. replace (i - s) with (S (i - S s)) in Hn by lia. exact Hn.
    + rewrite IH. split.
      * intros [Hb Hn]. split; [lia|]. replace (i - s) with (S (i - S s)) by lia. exact Hn.
      * intros [Hb Hn]. destruct (Nat.eq_dec s i) as [E|E].
        { subst. rewrite Nat.sub_diag in Hn. discriminate. }
        split; [lia|]. replace (i - s) with (S (i - S s)) in Hn by lia. exact Hn.
Qed.
Lemma In_idx_of : forall m i, In i (idx_of m) <-> (i < length m /\ nth i m false = true).
Proof. intros. rewrite idx_of_from, idx_from_nth, Nat.sub_0_r. simpl. split; intros [H1 H2]; (split; [lia|exact H2]). Qed.

Lemma idx_from_length : forall m s, length (idx_from s m) = count m.
Proof.
  induction m as [|b m IH]; intros s; [reflexivity|].
  rewrite idx_from_cons. unfold count in *. simpl. destruct b; simpl; rewrite IH; reflexivity.
Qed.
Lemma idx_of_length : forall m, length (idx_of m) = count m.
Proof. intros. rewrite idx_of_from. apply idx_from_length. Qed.

Lemma anyb_count : forall m, anyb m = false <-> count m = 0.
Proof.
  induction m as [|b m IH]; simpl; [split; reflexivity|].
  unfold anyb, count in *. simpl. destruct b; simpl; [split; [discriminate|lia]|exact IH].
Qed.
Lemma anyb_idx_nil : forall m, anyb m = false <-> idx_of m = [].
Proof. intros. rewrite anyb_count, <- idx_of_length. apply length_zero_iff_nil. Qed.

Lemma select_all : forall {A} (l : list A), select (repeat true (length l)) l = l.
Proof. intros A l. unfold select. induction l as [|x l IH]; [reflexivity|]. simpl. f_equal. apply IH. Qed.

Lemma zero_mask_length : forall m th, length m = length th -> length (zero_mask m th) = length th.
Proof. intros m th H. unfold zero_mask. rewrite map_length, combine_length. lia. Qed.

Lemma zero_at_length : forall D th, length (zero_at D th) = length th.
Proof. intros. unfold zero_at, enum. rewrite map_length, combine_length, seq_length. lia. Qed.

Lemma pad_length : forall maxp l, length l <= maxp -> length (pad maxp l) = maxp.
Proof. intros. unfold pad. rewrite app_length, repeat_length. lia. Qed.
Lemma firstn_pad : forall maxp l, firstn (length l) (pad maxp l) = l.
Proof. intros. unfold pad. rewrite firstn_app, Nat.sub_diag, firstn_all. simpl. apply app_nil_r. Qed.

(* mask[idx] = 0 and p[idx] = 0 agree: zeroing through the cleared mask is zero_at *)
Lemma zero_clear_gen : forall D th s,
  map (fun q : bool * Q => if fst q then 0%Q else snd q)
      (combine (map negb (map (fun q : nat * bool => if memn (fst q) D then false else snd q)
                              (combine (seq s (length th)) (repeat true (length th))))) th)
  = map (fun q : nat * Q => if memn (fst q) D then 0%Q else snd q) (combine (seq s (length th)) th).
Proof.
  intros D th. induction th as [|t th IH]; intros s; simpl; [reflexivity|].
  rewrite IH. destruct (memn s D); reflexivity.
Qed.
Lemma zero_mask_clear_at : forall D th,
  zero_mask (map negb (clear_at D (repeat true (length th)))) th = zero_at D th.
Proof. intros. unfold zero_mask, clear_at, zero_at, enum. rewrite repeat_length. apply zero_clear_gen. Qed.

Lemma clear_at_length : forall D m, length (clear_at D m) = length m.
Proof. intros. unfold clear_at, enum. rewrite map_length, combine_length, seq_length. lia. Qed.

(* ================================================================== the subset search *)
Lemma combs_0 : forall {A} (l : list A), combs l 0 = [[]].
Proof. destruct l; reflexivity. Qed.
Lemma combs_1 : forall {A} (l : list A), combs l 1 = map (fun j => [j]) l.
Proof. induction l as [|x l IH]; [reflexivity|]. simpl. rewrite combs_0, IH. reflexivity. Qed.

(* the inner loop forgets the incoming state as soon as it has one candidate *)
Lemma inner_indep : forall fop p cs st st', cs <> [] -> inner fop p cs st = inner fop p cs st'.
Proof. intros fop p [|idx rest] st st' H; [congruence|reflexivity]. Qed.

Lemma outer_app : forall fop p C rs r st,
  outer fop p C (rs ++ [r]) st = inner fop p (combs C r) (outer fop p C rs st).
Proof. intros fop p C rs. induction rs as [|a rs IH]; intros r st; simpl; [reflexivity|]. apply IH. Qed.

Definition singles (fop : list Q -> xq) (p : list Q) (C : list nat) (st : sstate) : sstate :=
  inner fop p (map (fun j => [j]) C) st.

(* search_is_last_round: with two or more candidates the state after the loops is that of the
   round r = 1 alone -- whatever happened for the larger subsets *)
Theorem search_is_last_round : forall fop p C st, 2 <= length C ->
  search fop p C st = singles fop p C st.
Proof.
  intros fop p C st HC. unfold search, singles.
  destruct (length C - 1) as [|n] eqn:E; [lia|].
  change (seq 1 (S n)) with (1 :: seq 2 n). simpl rev. rewrite outer_app, combs_1.
  apply inner_indep. destruct C; [simpl in HC; lia|discriminate].
Qed.
(* with at most one candidate nothing is tried *)
Theorem search_short : forall fop p C st, length C <= 1 -> search fop p C st = st.
Proof. intros fop p C st HC. unfold search. replace (length C - 1) with 0 by lia. reflexivity. Qed.

Definition single_state (fop : list Q -> xq) (p : list Q) (j : nat) : sstate :=
  mkSS (zero_at [j] p) (fop (zero_at [j] p)) (Some [j]).

(* the round r = 1: the first singleton with a finite likelihood, else the last singleton *)
Theorem singles_result : forall fop p C st, C <> [] ->
  singles fop p C st =
    match find (fun j => isfin (fop (zero_at [j] p))) C with
    | Some j => single_state fop p j
    | None => single_state fop p (last C 0)
    end.
Proof.
  intros fop p C. unfold singles. induction C as [|j C IH]; intros st HC; [congruence|].
  simpl map. simpl inner. simpl find. destruct (isfin (fop (zero_at [j] p))) eqn:E; [reflexivity|].
  destruct C as [|j' C']; [reflexivity|]. rewrite IH by discriminate. reflexivity.
Qed.

Lemma singles_shape : forall fop p C st, C <> [] -> exists j, In j C /\ singles fop p C st = single_state fop p j.
Proof.
  intros fop p C st HC. rewrite singles_result by exact HC.
  destruct (find _ C) as [j|] eqn:F.
  - apply find_some in F. exists j. split; [apply F|reflexivity].
  - exists (last C 0). split; [|reflexivity]. destruct C; [congruence|]. apply exists_last in HC.
    destruct HC as [l' [a E]]. rewrite E. rewrite last_last. apply in_or_app. right. now left.
Qed.

(* what the search leaves behind, for every likelihood *)
Lemma search_shape : forall fop p C st,
  (length C <= 1 /\ search fop p C st = st) \/
  (2 <= length C /\ exists j, In j C /\ search fop p C st = single_state fop p j).
Proof.
  intros fop p C st. destruct (le_lt_dec (length C) 1) as [H|H].
  - left. split; [exact H|now apply search_short].
  - right. split; [lia|]. rewrite search_is_last_round by lia. apply singles_shape. destruct C; [simpl in H; lia|discriminate].
Qed.

(* ================================================================== totality *)
Lemma finish_ret : forall maxp ptrue cur fish nll k kept, (0 <= k)%Z ->
  exists r, finish maxp ptrue cur fish nll k kept = Ret r.
Proof.
  intros. unfold finish. destruct (k <? 0)%Z eqn:E; [apply Z.ltb_lt in E; lia|].
  destruct (k =? 0)%Z; eexists; reflexivity.
Qed.

Lemma anyb_nonempty : forall {A B} (f : A -> B -> bool) (l1 : list A) (l2 : list B), anyb (map2 f l1 l2) = true -> 1 <= length l1.
Proof. intros A B f [|x l1] l2 H; [discriminate|simpl; lia]. Qed.

(* row_total: the loop body never raises and never reaches quit() *)
Theorem snap_total : forall maxp p fish nll reeval fop, exists r, snap maxp p fish nll reeval fop = Ret r.
Proof.
  intros. unfold snap.
  destruct (existsb le0 fish); [eexists; reflexivity|].
  destruct (negb (anyb (map2 lt1 p fish))) eqn:EA; [eexists; reflexivity|].
  apply negb_false_iff in EA. pose proof (anyb_nonempty _ _ _ EA) as Hn.
  set (m := map2 lt1 p fish) in *.
  destruct (isfin (if reeval then fop (zero_mask m p) else NaN)) eqn:E0.
  { apply finish_ret. pose proof (count_le_length m) as Hc. unfold m in Hc at 2. rewrite map2_length in Hc. lia. }
  destruct reeval; simpl negb; cbv iota; [|eexists; reflexivity].
  destruct (search_shape fop p (idx_of m) (mkSS (zero_mask m p) (fop (zero_mask m p)) None)) as [[_ Hs]|[_ [j [_ Hs]]]]; rewrite Hs.
  - simpl s_nll. rewrite E0. simpl s_p. destruct (isinf (fop (zero_mask m p))); [eexists; reflexivity|].
    apply finish_ret. lia.
  - unfold single_state. simpl s_nll. simpl s_idx. simpl s_p.
    destruct (isfin (fop (zero_at [j] p))); [apply finish_ret; lia|].
    destruct (isinf (fop (zero_at [j] p))); [eexists; reflexivity|]. apply finish_ret. lia.
Qed.

Theorem row_total : forall maxp nparams nll theta flat chain reeval fop,
  (exists r, row maxp nparams nll theta flat chain reeval fop = Ret r) \/
  row maxp nparams nll theta flat chain reeval fop = Irregular.
Proof.
  intros. unfold row.
  destruct (isnan nll || isinf nll); [left; eexists; reflexivity|].
  destruct (nparams =? 0); [left; eexists; reflexivity|].
  destruct (existsb is_nan_step chain); [left; eexists; reflexivity|].
  destruct (existsb is_raise_step chain); [left; eexists; reflexivity|].
  destruct (convert nparams maxp (firstn nparams theta) flat (dicts chain)).
  - left; eexists; reflexivity.
  - now right.
  - left. apply snap_total.
Qed.

Corollary row_never_pyerror : forall maxp nparams nll theta flat chain reeval fop,
  row maxp nparams nll theta flat chain reeval fop <> PyError /\
  row maxp nparams nll theta flat chain reeval fop <> Quit.
Proof.
  intros. destruct (row_total maxp nparams nll theta flat chain reeval fop) as [[r ->]| ->]; split; discriminate.
Qed.

(* the irregular outcome is exactly: recoverable chain, well-formed composite, a reciprocal at 0 *)
Theorem irregular_iff : forall maxp nparams nll theta flat chain reeval fop,
  row maxp nparams nll theta flat chain reeval fop = Irregular <->
  (isfin nll = true /\ nparams <> 0 /\ existsb is_nan_step chain = false /\ existsb is_raise_step chain = false /\
   let pv := compose_chain nparams (dicts chain) in
   in_range nparams pv = true /\ coeffs_nonzero pv = true /\ regular (firstn nparams theta) pv = false).
Proof.
  intros. unfold row. rewrite convert_cases. cbv zeta.
  destruct nll; simpl; try (split; [discriminate|intros [H _]; discriminate]).
  destruct (Nat.eqb_spec nparams 0) as [E|E]; [split; [discriminate|intros [_ [H _]]; contradiction]|].
  destruct (existsb is_nan_step chain); [split; [discriminate|intros [_ [_ [H _]]]; discriminate]|].
  destruct (existsb is_raise_step chain); [split; [discriminate|intros [_ [_ [_ [H _]]]]; discriminate]|].
  destruct (in_range nparams _); simpl; [|split; [discriminate|intros [_ [_ [_ [_ [H _]]]]]; discriminate]].
  destruct (coeffs_nonzero _); simpl; [|split; [discriminate|intros [_ [_ [_ [_ [_ [H _]]]]]]; discriminate]].
  destruct (regular _ _); simpl.
  - split; [|intros [_ [_ [_ [_ [_ [_ H]]]]]]; discriminate].
    destruct (nodupb _); simpl; [|discriminate]. intros H.
    destruct (snap_total maxp (eval_vec (firstn nparams theta) (compose_chain nparams (dicts chain)))
               (map (fnew maxp nparams flat (env_of (firstn nparams theta)) (compose_chain nparams (dicts chain))) (seq 0 nparams))
               (Fin q) reeval fop) as [r Hr]. rewrite Hr in H. discriminate.
  - split; [intros _; repeat split; auto|reflexivity].
Qed.

(* ================================================================== unrecoverable transformations *)
Definition clen_is (c : clen) (v : xq) : Prop := c = CVal v.

(* unrecoverable_never_finite: a chain containing 'nan' gives inf (or nan when the unique's
   likelihood is not finite), whatever the other steps, parameters, curvatures and likelihood *)
Theorem unrecoverable_never_finite : forall maxp nparams nll theta flat chain reeval fop,
  existsb is_nan_step chain = true -> nparams <> 0 ->
  exists r, row maxp nparams nll theta flat chain reeval fop = Ret r /\
            r_params r = zeros maxp /\ r_nll r = nll /\
            (r_len r = CVal PInf \/ (r_len r = CVal NaN /\ isfin nll = false)).
Proof.
  intros maxp nparams nll theta flat chain reeval fop Hn Hp. unfold row.
  destruct (isnan nll || isinf nll) eqn:E.
  - eexists; split; [reflexivity|]. simpl. repeat split. right. split; [reflexivity|]. destruct nll; simpl in *; congruence.
  - destruct (Nat.eqb_spec nparams 0); [contradiction|]. rewrite Hn. eexists; split; [reflexivity|]. simpl. auto.
Qed.

(* the same for a dictionary on which convert_params raises, and for a composite that is not
   a generalised permutation (exception path, line 99) *)
Theorem exception_gives_inf : forall maxp nparams nll theta flat chain reeval fop,
  isfin nll = true -> nparams <> 0 -> existsb is_nan_step chain = false ->
  (existsb is_raise_step chain = true \/
   convert nparams maxp (firstn nparams theta) flat (dicts chain) = ConvRaise) ->
  row maxp nparams nll theta flat chain reeval fop = Ret (mkRow nll (CVal PInf) (zeros maxp) []).
Proof.
  intros maxp nparams nll theta flat chain reeval fop Hf Hp Hn H. unfold row.
  destruct nll; try discriminate. simpl.
  destruct (Nat.eqb_spec nparams 0); [contradiction|]. rewrite Hn.
  destruct (existsb is_raise_step chain); [reflexivity|]. destruct H as [H|H]; [discriminate|]. rewrite H. reflexivity.
Qed.

(* ================================================================== what snap returns *)
Lemma finish_cases : forall maxp ptrue cur fish v k kept r,
  finish maxp ptrue cur fish v k kept = Ret r ->
  (k = 0%Z /\ r = mkRow v (CLen 0 []) (zeros maxp) kept) \/
  ((0 < k)%Z /\ r = mkRow v (CLen k (combine (select kept fish) (select kept cur)))
                        (pad maxp (zero_mask (map negb kept) ptrue)) kept).
Proof.
  intros maxp ptrue cur fish v k kept r H. unfold finish in H.
  destruct (k <? 0)%Z eqn:E1; [discriminate|]. apply Z.ltb_ge in E1.
  destruct (k =? 0)%Z eqn:E2.
  - apply Z.eqb_eq in E2. left. split; [exact E2|]. now inversion H.
  - apply Z.eqb_neq in E2. right. split; [lia|]. now inversion H.
Qed.

Definition final_state (fop : list Q -> xq) (p : list Q) (fish : list xq) : sstate :=
  let m := map2 lt1 p fish in
  search fop p (idx_of m) (mkSS (zero_mask m p) (fop (zero_mask m p)) None).

Definition fallback_fish (p : list Q) (fish : list xq) : list xq :=
  map (fun t : bool * (Q * xq) => if fst t then twelve_over_sq (fst (snd t)) else snd (snd t))
      (combine (map2 lt1 p fish) (combine p fish)).

(* snap_cases: every way the loop body can end after convert_params succeeded *)
Theorem snap_cases : forall maxp p fish nll reeval fop r,
  snap maxp p fish nll reeval fop = Ret r ->
  let n := length p in
  let m := map2 lt1 p fish in
  let C := idx_of m in
  let p0 := zero_mask m p in
  let st := final_state fop p fish in
  let ones := repeat true n in
  (* A: a non-positive curvature *)
  (existsb le0 fish = true /\ r = mkRow nll (CVal PInf) (zeros maxp) []) \/
  (existsb le0 fish = false /\
   ((* B: nothing below one precision step *)
    (C = [] /\ r = mkRow nll (CLen (Z.of_nat n) (combine fish p)) (pad maxp p) ones) \/
    (C <> [] /\
     ((* C: the variant could not be re-evaluated *)
      (reeval = false /\ r = mkRow NaN (CVal NaN) (zeros maxp) []) \/
      (reeval = true /\
       ((* D: all candidates dropped at once *)
        (isfin (fop p0) = true /\
         finish maxp p p0 fish (fop p0) (Z.of_nat n - Z.of_nat (count m)) (map2 ge1 p fish) = Ret r) \/
        (isfin (fop p0) = false /\
         ((* E: one candidate dropped (last round of the search) *)
          (isfin (s_nll st) = true /\ 2 <= length C /\ exists j, In j C /\ st = single_state fop p j /\
           finish maxp p (zero_at [j] p) fish (s_nll st) (Z.of_nat n - 1) (clear_at [j] ones) = Ret r) \/
          (* F1: infinite likelihood: everything restored, uncertainty = parameter on the candidates *)
          (isfin (s_nll st) = false /\ isinf (s_nll st) = true /\
           r = mkRow nll (CLen (Z.of_nat n) (combine (fallback_fish p fish) p)) (pad maxp p) ones) \/
          (* F2: NaN likelihood: falls through with the zeros still in p *)
          (s_nll st = NaN /\
           finish maxp p (s_p st) fish NaN (Z.of_nat n) ones = Ret r))))))))).
Proof.
  intros maxp p fish nll reeval fop r H n m C p0 st ones. unfold snap in H.
  destruct (existsb le0 fish) eqn:EL; [left; split; [reflexivity|now inversion H]|]. right. split; [reflexivity|].
  fold m in H. destruct (negb (anyb m)) eqn:EA.
  { left. apply negb_true_iff, anyb_idx_nil in EA. split; [exact EA|now inversion H]. }
  right. apply negb_false_iff in EA.
  assert (HC : C <> []). { intros E. apply anyb_idx_nil in E. congruence. }
  split; [exact HC|]. pose proof (anyb_nonempty _ _ _ EA) as Hn. fold n in Hn.
  fold p0 in H. destruct reeval.
  2:{ left. simpl in H. split; [reflexivity|now inversion H]. }
  right. split; [reflexivity|].
  destruct (isfin (fop p0)) eqn:E0; [left; split; [reflexivity|exact H]|]. right. split; [reflexivity|].
  simpl negb in H. cbv iota in H.
  change (search fop p (idx_of m) (mkSS p0 (fop p0) None)) with st in H.
  assert (Hshape := search_shape fop p C (mkSS p0 (fop p0) None)).
  change (search fop p C (mkSS p0 (fop p0) None)) with st in Hshape.
  destruct (isfin (s_nll st)) eqn:E1.
  - left. split; [reflexivity|]. destruct Hshape as [[_ Hs]|[HC2 [j [Hj Hs]]]].
    + rewrite Hs in E1. simpl in E1. congruence.
    + split; [exact HC2|]. exists j. split; [exact Hj|]. split; [exact Hs|].
      rewrite Hs in H. unfold single_state in H. simpl s_idx in H. simpl s_p in H. simpl s_nll in H.
      rewrite Hs. unfold single_state. simpl s_nll. exact H.
  - right. destruct (isinf (s_nll st)) eqn:E2.
    + left. split; [reflexivity|]. split; [reflexivity|]. now inversion H.
    + right. assert (EN : s_nll st = NaN) by (destruct (s_nll st); simpl in *; congruence).
      split; [exact EN|]. rewrite EN in H. exact H.
Qed.

(* ================================================================== reported parameters *)
Lemma map_negb_repeat : forall b n, map negb (repeat b n) = repeat (negb b) n.
Proof. intros b n. induction n; simpl; congruence. Qed.
Lemma zero_mask_none : forall th, zero_mask (repeat false (length th)) th = th.
Proof. intros th. unfold zero_mask. induction th as [|t th IH]; simpl; [reflexivity|]. now rewrite IH. Qed.
Lemma zero_mask_all : forall th, zero_mask (repeat true (length th)) th = repeat 0%Q (length th).
Proof. intros th. unfold zero_mask. induction th as [|t th IH]; simpl; [reflexivity|]. now rewrite IH. Qed.
Lemma count_all : forall m, count m = length m -> m = repeat true (length m).
Proof.
  induction m as [|b m IH]; intros H; [reflexivity|].
  unfold count in *. simpl in *. destruct b; simpl in *.
  - f_equal. apply IH. lia.
  - pose proof (filter_length_le (fun b : bool => b) m). lia.
Qed.
Lemma firstn_repeat : forall {A} (x : A) n m, n <= m -> firstn n (repeat x m) = repeat x n.
Proof. intros A x n. induction n as [|n IH]; intros m H; [reflexivity|]. destruct m; [lia|]. simpl. f_equal. apply IH. lia. Qed.

(* transfer_params (after convert_params): the reported parameters are the transferred vector
   with zeros exactly at the positions cleared in kept_mask -- or all zero when no code length
   is computed (inf / nan rows, and k = 0) *)
Theorem snap_params : forall maxp p fish nll reeval fop r,
  length fish = length p ->
  snap maxp p fish nll reeval fop = Ret r ->
  r_params r = zeros maxp \/
  (length (r_kept r) = length p /\ r_params r = pad maxp (zero_mask (map negb (r_kept r)) p)).
Proof.
  intros maxp p fish nll reeval fop r HL H. apply snap_cases in H. cbv zeta in H.
  assert (Hones : forall r', r' = pad maxp p ->
            length (repeat true (length p)) = length p /\ r' = pad maxp (zero_mask (map negb (repeat true (length p))) p)).
  { intros r' ->. split; [apply repeat_length|]. now rewrite map_negb_repeat, zero_mask_none. }
  assert (Hfin : forall cur v k kept, length kept = length p -> finish maxp p cur fish v k kept = Ret r ->
            r_params r = zeros maxp \/ (length (r_kept r) = length p /\ r_params r = pad maxp (zero_mask (map negb (r_kept r)) p))).
  { intros cur v k kept Hk Hf. apply finish_cases in Hf. destruct Hf as [[_ ->]|[_ ->]]; simpl; [now left|right; split; [exact Hk|reflexivity]]. }
  destruct H as [[_ ->]|[_ [[_ ->]|[_ [[_ ->]|[_ [[_ Hf]|[_ [[_ [_ [j [_ [_ Hf]]]]]|[[_ [_ ->]]|[_ Hf]]]]]]]]]]]; simpl.
  - now left.
  - right. now apply Hones.
  - now left.
  - eapply Hfin; [|exact Hf]. rewrite map2_length; lia.
  - eapply Hfin; [|exact Hf]. rewrite clear_at_length; apply repeat_length.
  - right. now apply Hones.
  - eapply Hfin; [|exact Hf]. apply repeat_length.
Qed.

(* ================================================================== positive finite curvatures *)
Definition posfin (a : xq) : Prop := exists q, a = Fin q /\ (0 < q)%Q.
Definition good (fish : list xq) : Prop := Forall posfin fish.

Lemma Qlt_b_true : forall a b, Qlt_b a b = true <-> (a < b)%Q.
Proof.
  intros. unfold Qlt_b. rewrite negb_true_iff. split.
  - intros H. apply Qnot_le_lt. intros L. apply Qle_bool_iff in L. congruence.
  - intros H. destruct (Qle_bool b a) eqn:E; [|reflexivity]. apply Qle_bool_iff in E. exfalso. apply (Qlt_not_le _ _ H E).
Qed.

Lemma good_no_le0 : forall fish, good fish -> existsb le0 fish = false.
Proof.
  intros fish H. induction H as [|a l [q [-> Hq]] _ IH]; [reflexivity|]. simpl. rewrite IH.
  destruct (Qle_bool q 0) eqn:E; [|reflexivity]. apply Qle_bool_iff in E. exfalso. apply (Qlt_not_le _ _ Hq E).
Qed.

Lemma fin_no_le0_good : forall fish, Forall (fun a => isfin a = true) fish -> existsb le0 fish = false -> good fish.
Proof.
  intros fish H. induction H as [|a l Ha _ IH]; intros E; [constructor|]. simpl in E. apply orb_false_iff in E. destruct E as [E1 E2].
  constructor; [|now apply IH]. destruct a as [q| | |]; try discriminate. exists q. split; [reflexivity|].
  simpl in E1. apply Qnot_le_lt. intros L. apply Qle_bool_iff in L. congruence.
Qed.

Lemma ge1_negb_lt1 : forall p a, posfin a -> ge1 p a = negb (lt1 p a).
Proof.
  intros p a [q [-> Hq]]. simpl. apply Qlt_b_true in Hq. rewrite Hq. simpl. unfold Qlt_b. now rewrite negb_involutive.
Qed.

Lemma map2_ge1_lt1 : forall p fish, good fish -> map2 ge1 p fish = map negb (map2 lt1 p fish).
Proof.
  intros p fish H. revert p. induction H as [|a l Ha _ IH]; intros [|t p]; try reflexivity.
  unfold map2 in *. simpl. rewrite ge1_negb_lt1 by exact Ha. f_equal. apply IH.
Qed.

(* a parameter that is not below one precision step is not zero *)
Lemma not_lt1_nonzero : forall p a, posfin a -> lt1 p a = false -> ~ (p == 0)%Q.
Proof.
  intros p a [q [-> Hq]] H E. simpl in H. assert (Hq' := Hq). apply Qlt_b_true in Hq'. rewrite Hq' in H. simpl in H.
  assert (L : (p * p * q < 12)%Q) by (rewrite E; reflexivity). apply Qlt_b_true in L. congruence.
Qed.

(* ================================================================== the reported likelihood *)
Definition term_ok (t : xq * Q) : bool :=
  match fst t with Fin q => Qlt_b 0 q | _ => false end && negb (Qeq_bool (snd t) 0).
(* the value of the structure is a finite number *)
Definition clen_finite (c : clen) : bool :=
  match c with CVal v => isfin v | CLen _ ts => forallb term_ok ts end.

(* nll_reported: with positive finite transferred curvatures the row reports
     - the unique's likelihood and the untouched transferred parameters (nothing dropped), or
     - a finite likelihood which is the variant's own likelihood AT THE REPORTED PARAMETERS, or
     - nan (the variant could not be re-evaluated, or its re-evaluation gave nan). *)
Theorem nll_reported : forall maxp p fish nll reeval fop r,
  length fish = length p -> length p <= maxp -> good fish ->
  snap maxp p fish nll reeval fop = Ret r ->
  (r_nll r = nll /\ r_params r = pad maxp p /\ r_kept r = repeat true (length p)) \/
  (isfin (r_nll r) = true /\ r_nll r = fop (firstn (length p) (r_params r))) \/
  r_nll r = NaN.
Proof.
  intros maxp p fish nll reeval fop r HL Hmax HG H. apply snap_cases in H. cbv zeta in H.
  rewrite (good_no_le0 _ HG) in H.
  destruct H as [[E _]|[_ H]]; [discriminate|].
  set (m := map2 lt1 p fish) in *.
  assert (Hm : length m = length p) by (unfold m; rewrite map2_length; lia).
  destruct H as [[_ ->]|[HC [[_ ->]|[_ [[E0 Hf]|[_ [[E1 [HC2 [j [Hj [Hs Hf]]]]]|[[_ [_ ->]]|[EN Hf]]]]]]]]]; simpl.
  - left. auto.
  - right. right. reflexivity.
  - (* D *) right. left. apply finish_cases in Hf.
    assert (Hp0 : length (zero_mask m p) = length p) by now apply zero_mask_length.
    destruct Hf as [[Hk ->]|[_ ->]]; simpl; (split; [exact E0|]); f_equal.
    + assert (Hc : count m = length m) by lia. apply count_all in Hc. rewrite Hc, Hm, zero_mask_all.
      unfold zeros. now rewrite firstn_repeat.
    + rewrite (map2_ge1_lt1 _ _ HG). fold m. rewrite map_map.
      rewrite (map_ext (fun x => negb (negb x)) (fun x => x)) by apply negb_involutive. rewrite map_id.
      rewrite <- Hp0 at 1. now rewrite firstn_pad.
  - (* E *) right. left. rewrite Hs in *. unfold single_state in *. simpl s_nll in *.
    apply finish_cases in Hf.
    assert (Hcn : length (idx_of m) <= length p) by (rewrite idx_of_length, <- Hm; apply count_le_length).
    destruct Hf as [[Hk _]|[_ ->]]; [lia|]. simpl. split; [exact E1|]. f_equal.
    rewrite zero_mask_clear_at. rewrite <- (zero_at_length [j] p) at 1. now rewrite firstn_pad.
  - left. auto.
  - right. right. apply finish_cases in Hf. destruct Hf as [[_ ->]|[_ ->]]; reflexivity.
Qed.

(* ================================================================== when the code length is finite *)
Lemma forallb_select : forall {A} (f : A -> bool) kept (l : list A),
  forallb f (select kept l) = forallb (fun t : bool * A => negb (fst t) || f (snd t)) (combine kept l).
Proof.
  intros A f kept. unfold select. induction kept as [|b kept IH]; intros [|x l]; try reflexivity.
  simpl. destruct b; simpl; now rewrite IH.
Qed.
Lemma select_combine : forall {A B} kept (l1 : list A) (l2 : list B),
  select kept (combine l1 l2) = combine (select kept l1) (select kept l2).
Proof.
  intros A B kept. unfold select. induction kept as [|b kept IH]; intros l1 l2; [reflexivity|].
  destruct l1 as [|x l1]; [reflexivity|]. destruct l2 as [|y l2].
  - simpl. destruct b; simpl; [|destruct (filter fst (combine kept l1)); reflexivity].
    destruct (map snd (filter fst (combine kept l1))); reflexivity.
  - simpl. destruct b; simpl; now rewrite IH.
Qed.
Lemma forallb_nth_iff : forall {A} (f : A -> bool) l d,
  forallb f l = true <-> forall i, i < length l -> f (nth i l d) = true.
Proof.
  intros A f l d. rewrite forallb_forall. split.
  - intros H i Hi. apply H. now apply nth_In.
  - intros H x Hx. destruct (In_nth _ _ d Hx) as [i [Hi <-]]. now apply H.
Qed.

Lemma nth_map2 : forall {A B C} (f : A -> B -> C) l1 l2 i d1 d2 d,
  i < length l1 -> i < length l2 -> nth i (map2 f l1 l2) d = f (nth i l1 d1) (nth i l2 d2).
Proof.
  intros A B C f l1. induction l1 as [|x l1 IH]; intros l2 i d1 d2 d H1 H2; [simpl in H1; lia|].
  destruct l2 as [|y l2]; [simpl in H2; lia|]. destruct i; [reflexivity|]. unfold map2 in *. simpl. apply IH; simpl in *; lia.
Qed.
Lemma nth_zero_mask : forall m p i, length m = length p -> i < length p ->
  nth i (zero_mask m p) 0%Q = if nth i m false then 0%Q else nth i p 0%Q.
Proof.
  induction m as [|b m IH]; intros [|t p] i HL Hi; simpl in *; try lia.
  destruct i; [reflexivity|]. unfold zero_mask in *. simpl. apply IH; lia.
Qed.
Lemma nth_enum_map : forall {A B} (g : nat -> A -> B) (l : list A) s i d d',
  i < length l -> nth i (map (fun q : nat * A => g (fst q) (snd q)) (combine (seq s (length l)) l)) d' = g (s + i) (nth i l d).
Proof.
  intros A B g l. induction l as [|x l IH]; intros s i d d' Hi; [simpl in Hi; lia|].
  destruct i; simpl; [now rewrite Nat.add_0_r|]. rewrite (IH (S s) i d d') by (simpl in Hi; lia). f_equal. lia.
Qed.
Lemma nth_repeat_lt : forall {A} (a d : A) n i, i < n -> nth i (repeat a n) d = a.
Proof. intros A a d n. induction n as [|n IH]; intros i Hi; [lia|]. destruct i; [reflexivity|]. simpl. apply IH. lia. Qed.
Lemma nth_zero_at1 : forall j p i, i < length p -> nth i (zero_at [j] p) 0%Q = if i =? j then 0%Q else nth i p 0%Q.
Proof.
  intros j p i Hi. unfold zero_at, enum.
  rewrite (nth_enum_map (fun a t => if memn a [j] then 0%Q else t) p 0 i 0%Q 0%Q Hi). simpl. now rewrite orb_false_r.
Qed.
Lemma nth_clear_at1 : forall j n i, i < n -> nth i (clear_at [j] (repeat true n)) false = negb (i =? j).
Proof.
  intros j n i Hi. unfold clear_at, enum.
  rewrite (nth_enum_map (fun a t => if memn a [j] then false else t) (repeat true n) 0 i true false)
    by (now rewrite repeat_length).
  simpl. rewrite orb_false_r. rewrite nth_repeat_lt by exact Hi. now destruct (i =? j).
Qed.

Lemma term_ok_good : forall a c, posfin a -> term_ok (a, c) = negb (Qeq_bool c 0).
Proof. intros a c [q [-> Hq]]. unfold term_ok. simpl. apply Qlt_b_true in Hq. now rewrite Hq. Qed.

Lemma negb_Qeq_bool : forall c, negb (Qeq_bool c 0) = true <-> ~ (c == 0)%Q.
Proof.
  intros c. rewrite negb_true_iff. split.
  - intros H E. apply Qeq_bool_iff in E. congruence.
  - intros H. destruct (Qeq_bool c 0) eqn:E; [|reflexivity]. apply Qeq_bool_iff in E. contradiction.
Qed.

Lemma good_nth : forall fish i, good fish -> i < length fish -> posfin (nth i fish NaN).
Proof. intros fish i H Hi. unfold good in H. rewrite Forall_forall in H. apply H. now apply nth_In. Qed.

(* the structure built by `finish`/line 219 is finite iff every KEPT current parameter is non-zero *)
Lemma kept_terms_finite : forall kept fish cur,
  good fish -> length fish = length cur -> length kept = length cur ->
  (forallb term_ok (combine (select kept fish) (select kept cur)) = true <->
   forall i, i < length cur -> nth i kept false = true -> ~ (nth i cur 0 == 0)%Q).
Proof.
  intros kept fish cur HG HL HK.
  rewrite <- select_combine, forallb_select.
  rewrite (forallb_nth_iff _ _ (false, (NaN, 0%Q))).
  rewrite combine_length, combine_length, HL, HK, Nat.min_id, Nat.min_id.
  split; intros H i Hi.
  - intros Hk. specialize (H i Hi). rewrite combine_nth in H by (rewrite combine_length; lia).
    rewrite combine_nth in H by exact HL. simpl in H. rewrite Hk in H. simpl in H.
    rewrite term_ok_good in H by (apply good_nth; [exact HG|lia]). now apply negb_Qeq_bool.
  - rewrite combine_nth by (rewrite combine_length; lia). rewrite combine_nth by exact HL. simpl.
    destruct (nth i kept false) eqn:Hk; [|reflexivity]. simpl.
    rewrite term_ok_good by (apply good_nth; [exact HG|lia]). apply negb_Qeq_bool. now apply H.
Qed.

Lemma select_ones : forall {A} (l : list A) n, n = length l -> select (repeat true n) l = l.
Proof. intros A l n ->. apply select_all. Qed.

Lemma twelve_ok : forall c, term_ok (twelve_over_sq c, c) = negb (Qeq_bool c 0).
Proof.
  intros c. unfold term_ok, twelve_over_sq. destruct (Qeq_bool c 0) eqn:E; [reflexivity|]. cbn [fst snd negb]. rewrite E. cbn [negb]. rewrite andb_true_r.
  apply Qlt_b_true. assert (Hc : ~ (c == 0)%Q) by (intros H; apply Qeq_bool_iff in H; congruence).
  pose proof (Qsq_pos c Hc) as Hs. unfold Qdiv. apply Qmult_lt_0_compat; [reflexivity|]. now apply Qinv_lt_0_compat.
Qed.

Lemma nth_map_lt : forall {A B} (f : A -> B) l i d d', i < length l -> nth i (map f l) d' = f (nth i l d).
Proof. intros A B f l. induction l as [|x l IH]; intros i d d' H; [simpl in H; lia|]. destruct i; [reflexivity|]. simpl. apply IH. simpl in H. lia. Qed.

Lemma nth_fallback : forall p fish i, length fish = length p -> i < length p ->
  nth i (fallback_fish p fish) NaN =
    if lt1 (nth i p 0%Q) (nth i fish NaN) then twelve_over_sq (nth i p 0%Q) else nth i fish NaN.
Proof.
  intros p fish i HL Hi. unfold fallback_fish.
  assert (Hm : length (map2 lt1 p fish) = length p) by (rewrite map2_length; lia).
  rewrite (nth_map_lt _ _ i (false, (0%Q, NaN))) by (rewrite combine_length, combine_length; lia).
  rewrite combine_nth by (rewrite combine_length; lia). rewrite combine_nth by lia. simpl.
  rewrite (nth_map2 lt1 p fish i 0%Q NaN false) by lia. reflexivity.
Qed.

Lemma fallback_length : forall p fish, length fish = length p -> length (fallback_fish p fish) = length p.
Proof. intros. unfold fallback_fish. rewrite map_length, combine_length, combine_length, map2_length. lia. Qed.

(* codelen_finite_iff (after convert_params, positive finite transferred curvatures):
   the reported code length is a finite number exactly when
     - no parameter is below one precision step, or
     - the variant can be re-evaluated and
         . the likelihood with all candidates dropped is finite, or
         . the last round of the search ends on a singleton with a finite likelihood and the
           other candidates are not exactly zero, or
         . it ends on an infinite likelihood and no candidate is exactly zero. *)
Theorem codelen_finite_iff : forall maxp p fish nll reeval fop r,
  length fish = length p -> good fish ->
  snap maxp p fish nll reeval fop = Ret r ->
  let m := map2 lt1 p fish in
  let C := idx_of m in
  let p0 := zero_mask m p in
  let st := final_state fop p fish in
  (clen_finite (r_len r) = true <->
   C = [] \/
   (reeval = true /\
    (isfin (fop p0) = true \/
     (isfin (fop p0) = false /\ isfin (s_nll st) = true /\
        forall i, In i C -> s_idx st <> Some [i] -> ~ (nth i p 0 == 0)%Q) \/
     (isfin (fop p0) = false /\ isinf (s_nll st) = true /\ forall i, In i C -> ~ (nth i p 0 == 0)%Q)))).
Proof.
  intros maxp p fish nll reeval fop r HL HG H m C p0 st. apply snap_cases in H. cbv zeta in H.
  rewrite (good_no_le0 _ HG) in H. destruct H as [[E _]|[_ H]]; [discriminate|].
  fold m in H. fold C in H. fold p0 in H. fold st in H.
  assert (Hm : length m = length p) by (unfold m; rewrite map2_length; lia).
  assert (HmC : forall i, In i C <-> (i < length p /\ lt1 (nth i p 0%Q) (nth i fish NaN) = true)).
  { intros i. unfold C. rewrite In_idx_of, Hm. split; intros [Hi Hn]; (split; [exact Hi|]).
    - unfold m in Hn. rewrite (nth_map2 lt1 p fish i 0%Q NaN false) in Hn by lia. exact Hn.
    - unfold m. rewrite (nth_map2 lt1 p fish i 0%Q NaN false) by lia. exact Hn. }
  assert (Hnz : forall i, i < length p -> ~ In i C -> ~ (nth i p 0 == 0)%Q).
  { intros i Hi Hn. apply (not_lt1_nonzero _ (nth i fish NaN)); [apply good_nth; [exact HG|lia]|].
    destruct (lt1 (nth i p 0%Q) (nth i fish NaN)) eqn:E; [|reflexivity]. exfalso. apply Hn. apply HmC. auto. }
  destruct H as [[HC ->]|[HC [[Hre ->]|[Hre [[E0 Hf]|[E0 [[E1 [HC2 [j [Hj [Hs Hf]]]]]|[[E1 [E2 ->]]|[EN Hf]]]]]]]]]; simpl r_len.
  - (* B *) split; [intros _; now left|intros _]. simpl.
    rewrite <- (select_ones fish (length p)) by (symmetry; exact HL).
    rewrite <- (select_ones p (length p)) at 2 by reflexivity.
    apply kept_terms_finite; [exact HG|exact HL|apply repeat_length|].
    intros i Hi _. apply Hnz; [exact Hi|]. rewrite HC. intros [].
  - (* C *) simpl. split; [discriminate|]. intros [E|[E _]]; congruence.
  - (* D *) split; [intros _; right; split; [exact Hre|now left]|intros _].
    apply finish_cases in Hf. destruct Hf as [[_ ->]|[_ ->]]; [reflexivity|]. simpl.
    assert (Hp0 : length p0 = length p) by (unfold p0; now apply zero_mask_length).
    apply kept_terms_finite; [exact HG|lia|rewrite map2_length; lia|].
    intros i Hi Hk. rewrite Hp0 in Hi. rewrite (nth_map2 ge1 p fish i 0%Q NaN false) in Hk by lia.
    rewrite ge1_negb_lt1 in Hk by (apply good_nth; [exact HG|lia]). apply negb_true_iff in Hk.
    unfold p0. rewrite nth_zero_mask by assumption. unfold m. rewrite (nth_map2 lt1 p fish i 0%Q NaN false) by lia.
    rewrite Hk. apply (not_lt1_nonzero _ (nth i fish NaN)); [apply good_nth; [exact HG|lia]|exact Hk].
  - (* E *) apply finish_cases in Hf.
    assert (Hcn : length C <= length p) by (unfold C; rewrite idx_of_length, <- Hm; apply count_le_length).
    destruct Hf as [[Hk _]|[_ ->]]; [lia|]. simpl.
    assert (Hzl : length (zero_at [j] p) = length p) by apply zero_at_length.
    rewrite (kept_terms_finite _ fish (zero_at [j] p) HG) by (try lia; rewrite clear_at_length; rewrite repeat_length; lia).
    rewrite Hzl. rewrite Hs. unfold single_state. simpl s_idx. simpl s_nll. split.
    + intros H. right. split; [exact Hre|]. right. left. split; [exact E0|]. split; [rewrite Hs in E1; exact E1|].
      intros i Hi Hne. assert (Hi' := Hi). apply HmC in Hi'. destruct Hi' as [Hi' _].
      assert (Hij : i <> j) by (intros ->; now apply Hne).
      specialize (H i Hi'). rewrite nth_clear_at1 in H by exact Hi'. rewrite nth_zero_at1 in H by exact Hi'.
      apply Nat.eqb_neq in Hij. rewrite Hij in H. now apply H.
    + intros H i Hi Hk. rewrite nth_clear_at1 in Hk by exact Hi. apply negb_true_iff in Hk.
      rewrite nth_zero_at1 by exact Hi. rewrite Hk. apply Nat.eqb_neq in Hk.
      destruct (in_dec Nat.eq_dec i C) as [Hin|Hin]; [|now apply Hnz].
      destruct H as [HC0|[_ [F|[[_ [_ F]]|[_ [F _]]]]]].
      * congruence.
      * congruence.
      * apply F; [exact Hin|]. intros E. inversion E. congruence.
      * rewrite Hs in E1. simpl in E1. destruct (fop (zero_at [j] p)); discriminate.
  - (* F1 *) simpl.
    rewrite <- (select_ones (fallback_fish p fish) (length p)) by (symmetry; now apply fallback_length).
    rewrite <- (select_ones p (length p)) at 3 by reflexivity.
    rewrite <- select_combine, forallb_select.
    rewrite (forallb_nth_iff _ _ (false, (NaN, 0%Q))).
    rewrite combine_length, combine_length, fallback_length, repeat_length, Nat.min_id, Nat.min_id by exact HL.
    assert (Hterm : forall i, i < length p ->
              (negb (fst (nth i (combine (repeat true (length p)) (combine (fallback_fish p fish) p)) (false, (NaN, 0%Q))))
               || term_ok (snd (nth i (combine (repeat true (length p)) (combine (fallback_fish p fish) p)) (false, (NaN, 0%Q)))))
              = negb (Qeq_bool (nth i p 0%Q) 0)).
    { intros i Hi. rewrite combine_nth by (rewrite combine_length, fallback_length, repeat_length by exact HL; lia).
      rewrite combine_nth by (now apply fallback_length). simpl. rewrite nth_repeat_lt by exact Hi. simpl.
      rewrite nth_fallback by assumption. destruct (lt1 (nth i p 0%Q) (nth i fish NaN)); [apply twelve_ok|].
      apply term_ok_good. apply good_nth; [exact HG|lia]. }
    split.
    + intros H. right. split; [exact Hre|]. right. right. split; [exact E0|]. split; [exact E2|].
      intros i Hi. apply HmC in Hi. destruct Hi as [Hi _]. apply negb_Qeq_bool. rewrite <- Hterm by exact Hi. now apply H.
    + intros H i Hi. rewrite Hterm by exact Hi. apply negb_Qeq_bool.
      destruct (in_dec Nat.eq_dec i C) as [Hin|Hin]; [|now apply Hnz].
      destruct H as [HC0|[_ [F|[[_ [F _]]|[_ [_ F]]]]]]; try congruence. now apply F.
  - (* F2 *) split.
    2:{ intros [E|[_ [F|[[_ [F _]]|[_ [F _]]]]]]; [congruence|congruence|rewrite EN in F; discriminate|rewrite EN in F; discriminate]. }
    intros Hfin. exfalso.
    assert (Hex : exists i, In i C) by (destruct C as [|c0 C0]; [congruence|exists c0; now left]).
    destruct Hex as [i0 Hi0].
    apply finish_cases in Hf. destruct Hf as [[Hk _]|[_ ->]].
    { apply HmC in Hi0. lia. }
    simpl in Hfin.
    (* the current vector has an exact zero at a candidate position *)
    assert (Hz : exists i, i < length p /\ length (s_p st) = length p /\ (nth i (s_p st) 0 == 0)%Q).
    { unfold st, final_state. fold m. fold C. fold p0.
      destruct (search_shape fop p C (mkSS p0 (fop p0) None)) as [[_ Hs]|[_ [j [Hj Hs]]]]; rewrite Hs; simpl s_p.
      - pose (i := i0). assert (Hi : In i C) by exact Hi0.
        assert (Hi' := Hi). apply HmC in Hi'. destruct Hi' as [Hi' _]. exists i. split; [exact Hi'|]. split; [unfold p0; now apply zero_mask_length|].
        unfold p0. rewrite nth_zero_mask by assumption. unfold C in Hi. apply In_idx_of in Hi. destruct Hi as [_ ->]. reflexivity.
      - assert (Hj' := Hj). apply HmC in Hj'. destruct Hj' as [Hj' _]. exists j. split; [exact Hj'|]. split; [apply zero_at_length|].
        rewrite nth_zero_at1 by exact Hj'. rewrite Nat.eqb_refl. reflexivity. }
    destruct Hz as [i [Hi [Hl Hz]]].
    rewrite (kept_terms_finite _ fish (s_p st) HG) in Hfin by (try lia; rewrite repeat_length; lia).
    apply (Hfin i); [lia|apply nth_repeat_lt; exact Hi|exact Hz].
Qed.

(* ================================================================== the row of a recoverable chain *)
Definition recoverable (chain : list step) : Prop :=
  existsb is_nan_step chain = false /\ existsb is_raise_step chain = false.

Lemma row_recoverable : forall maxp nparams nll theta flat chain reeval fop,
  isfin nll = true -> nparams <> 0 -> recoverable chain ->
  row maxp nparams nll theta flat chain reeval fop =
    match convert nparams maxp (firstn nparams theta) flat (dicts chain) with
    | ConvRaise => Ret (mkRow nll (CVal PInf) (zeros maxp) [])
    | ConvIrregular => Irregular
    | ConvOK p fish => snap maxp p fish nll reeval fop
    end.
Proof.
  intros maxp nparams nll theta flat chain reeval fop Hf Hp [Hn Hr]. unfold row.
  destruct nll; try discriminate. simpl. destruct (Nat.eqb_spec nparams 0); [contradiction|]. now rewrite Hn, Hr.
Qed.

Lemma eval_vec_length : forall th p, length (eval_vec th p) = length p.
Proof. intros. unfold eval_vec. apply map_length. Qed.

Lemma convert_lengths : forall k n th flat chain p fish,
  convert k n th flat chain = ConvOK p fish -> length p = k /\ length fish = k.
Proof.
  intros k n th flat chain p fish H. apply convert_ok_iff in H. cbv zeta in H. destruct H as [_ [_ [-> ->]]].
  rewrite eval_vec_length, compose_length, map_length, seq_length. auto.
Qed.

(* transfer_params: for a recoverable chain the reported parameters are sigma(theta_u) -- the
   composite s_1 o ... o s_n of the recorded dictionaries applied to the unique's fitted parameters
   -- with zeros exactly at the positions cleared in kept_mask; or all zero when the row carries
   no code length (inf / nan rows, and k = 0). *)
Theorem transfer_params : forall maxp nparams nll theta flat chain reeval fop r,
  isfin nll = true -> nparams <> 0 -> recoverable chain ->
  row maxp nparams nll theta flat chain reeval fop = Ret r ->
  r_params r = zeros maxp \/
  (let th := firstn nparams theta in
   let pv := compose_chain nparams (dicts chain) in
   gperm nparams pv = true /\ regular th pv = true /\
   length (r_kept r) = nparams /\
   r_params r = pad maxp (zero_mask (map negb (r_kept r)) (eval_vec th pv)) /\
   forall i, i < nparams -> (nth i (eval_vec th pv) 0 == den_chain (dicts chain) (env_of th) i)%Q).
Proof.
  intros maxp nparams nll theta flat chain reeval fop r Hf Hp Hrec H.
  rewrite row_recoverable in H by assumption.
  destruct (convert nparams maxp (firstn nparams theta) flat (dicts chain)) as [| |p fish] eqn:EC.
  - inversion H. now left.
  - discriminate.
  - destruct (convert_lengths _ _ _ _ _ _ _ EC) as [Lp Lf].
    apply convert_ok_iff in EC. cbv zeta in EC. destruct EC as [Hg [Hr [Ep Ef]]].
    apply snap_params in H; [|lia]. destruct H as [H|[Hk Hpar]]; [now left|right]. cbv zeta.
    split; [exact Hg|]. split; [exact Hr|]. split; [lia|]. split; [now rewrite <- Ep|].
    intros i Hi. unfold eval_vec.
    rewrite (nth_map_lt _ _ i (idm i)) by (now rewrite compose_length).
    now apply compose_matches_code.
Qed.

(* ---- the transferred curvatures of a generalised permutation *)
Definition block_finite (n k : nat) (flat : list xq) (f : nat -> nat -> Q) : Prop :=
  forall a b, a < k -> b < k -> fmat n flat a b = Fin (f a b).

Lemma gperm_facts : forall k pv, gperm k pv = true -> length pv = k ->
  (forall i, i < k -> pi pv i < k) /\
  (forall i i', i < k -> i' < k -> pi pv i = pi pv i' -> i = i') /\
  (forall i, i < k -> ~ (m_c (nth i pv (idm i)) == 0)%Q).
Proof.
  intros k pv H HL. unfold gperm in H. apply andb_true_iff in H. destruct H as [H H3].
  apply andb_true_iff in H. destruct H as [H1 H2]. repeat split.
  - intros i Hi. unfold pi. apply Nat.ltb_lt. apply (forallb_nth (fun m => m_j m <? k) pv i (idm i) H1). lia.
  - intros i i' Hi Hi' E. apply nodupb_NoDup in H3. unfold pi in E.
    rewrite (NoDup_nth (map m_j pv) 0) in H3. apply H3; rewrite ?map_length; try lia.
    rewrite (nth_map_lt m_j pv i (idm i)) by lia. rewrite (nth_map_lt m_j pv i' (idm i')) by lia. exact E.
  - intros i Hi. apply negb_Qeq_bool. apply (forallb_nth (fun m => negb (Qeq_bool (m_c m) 0)) pv i (idm i) H2). lia.
Qed.

Lemma regular_facts : forall th pv i, regular th pv = true -> i < length pv ->
  m_inv (nth i pv (idm i)) = true -> ~ (env_of th (m_j (nth i pv (idm i))) == 0)%Q.
Proof.
  intros th pv i H Hi Hinv. apply (forallb_nth _ pv i (idm i)) in H; [|exact Hi]. cbv beta in H. rewrite Hinv in H. simpl in H.
  apply negb_Qeq_bool in H. exact H.
Qed.

(* transfer_fisher: F'_ii = F_jj / (dp'_i/dtheta_j)^2, j the source parameter of p'_i; together with
   the exact invariant p'_i^2 F'_ii = theta_j^2 F_jj and preservation of positivity *)
Theorem transfer_fisher : forall k n th flat chain p fish f,
  convert k n th flat chain = ConvOK p fish -> block_finite n k flat f ->
  let pv := compose_chain k chain in
  forall i, i < k ->
    let j := pi pv i in
    exists F', nth i fish NaN = Fin F' /\
      (F' == f j j / (dd pv (env_of th) i * dd pv (env_of th) i))%Q /\
      (nth i p 0 * nth i p 0 * F' == nth j th 0 * nth j th 0 * f j j)%Q /\
      ((0 < F')%Q <-> (0 < f j j)%Q).
Proof.
  intros k n th flat chain p fish f HC HB pv i Hi j.
  apply convert_ok_iff in HC. cbv zeta in HC. fold pv in HC. destruct HC as [Hg [Hr [-> ->]]].
  assert (HL : length pv = k) by apply compose_length.
  destruct (gperm_facts k pv Hg HL) as [Hrange [_ Hc]].
  assert (X := fnew_closed_form k pv (env_of th) HL Hrange n flat f i HB Hi).
  rewrite (nth_map_lt _ _ i 0) by (now rewrite seq_length). rewrite seq_nth by exact Hi. simpl plus.
  destruct (fnew n k flat (env_of th) pv i) as [F'| | |]; simpl in X; try contradiction.
  exists F'. split; [reflexivity|]. split; [exact X|].
  assert (Hreg : m_inv (nth i pv (idm i)) = true -> ~ (env_of th (m_j (nth i pv (idm i))) == 0)%Q).
  { apply regular_facts; [exact Hr|lia]. }
  assert (Hinv := transfer_invariant (env_of th) (nth i pv (idm i)) (f j j) (Hc i Hi) Hreg). cbv zeta in Hinv.
  assert (Hpos := deriv_sq_pos (env_of th) (nth i pv (idm i)) (Hc i Hi) Hreg).
  split.
  - unfold eval_vec. rewrite (nth_map_lt _ _ i (idm i)) by lia. rewrite X. exact Hinv.
  - rewrite X. unfold dd. set (d2 := (deriv_mono (env_of th) (nth i pv (idm i)) * deriv_mono (env_of th) (nth i pv (idm i)))%Q) in *.
    split; intros H.
    + assert (E : (f j j == f j j / d2 * d2)%Q) by (field; intros E0; rewrite E0 in Hpos; apply (Qlt_irrefl _ Hpos)).
      rewrite E. now apply Qmult_lt_0_compat.
    + unfold Qdiv. apply Qmult_lt_0_compat; [exact H|now apply Qinv_lt_0_compat].
Qed.

Lemma lt1_compat : forall p p' F F', (0 < F)%Q <-> (0 < F')%Q -> (p * p * F == p' * p' * F')%Q ->
  lt1 p (Fin F) = lt1 p' (Fin F').
Proof.
  intros p p' F F' HP HE. simpl.
  assert (A : Qlt_b 0 F = Qlt_b 0 F').
  { destruct (Qlt_b 0 F) eqn:E1, (Qlt_b 0 F') eqn:E2; try reflexivity.
    - apply Qlt_b_true, HP, Qlt_b_true in E1. congruence.
    - apply Qlt_b_true, HP, Qlt_b_true in E2. congruence. }
  assert (B : Qlt_b (p * p * F) 12 = Qlt_b (p' * p' * F') 12).
  { destruct (Qlt_b (p * p * F) 12) eqn:E1, (Qlt_b (p' * p' * F') 12) eqn:E2; try reflexivity.
    - apply Qlt_b_true in E1. rewrite HE in E1. apply Qlt_b_true in E1. congruence.
    - apply Qlt_b_true in E2. rewrite <- HE in E2. apply Qlt_b_true in E2. congruence. }
  now rewrite A, B.
Qed.

(* snap_pattern_same: a transferred parameter is below one precision step exactly when its
   source parameter is, in the unique function *)
Theorem snap_pattern_same : forall k n th flat chain p fish f,
  convert k n th flat chain = ConvOK p fish -> block_finite n k flat f ->
  let pv := compose_chain k chain in
  forall i, i < k ->
    lt1 (nth i p 0%Q) (nth i fish NaN) = lt1 (nth (pi pv i) th 0%Q) (Fin (f (pi pv i) (pi pv i))).
Proof.
  intros k n th flat chain p fish f HC HB pv i Hi.
  destruct (transfer_fisher k n th flat chain p fish f HC HB i Hi) as [F' [E [_ [I P]]]]. fold pv in I, P.
  rewrite E. now apply lt1_compat.
Qed.
