(* C05 -- lemmas about Model/Match.v (the per-variant body of esr/fitting/match.py : main). *)
From Coq Require Import QArith ZArith List Bool Arith Lia Lqa.
From ESRV Require Import Model.Subs Model.Match Proofs.SubsProofs.
Import ListNotations.
Close Scope Q_scope.
Open Scope nat_scope.

(* ================================================================== list facts *)
Lemma map2_length : forall {A B C} (f : A -> B -> C) l1 l2, length (map2 f l1 l2) = Nat.min (length l1) (length l2).
Proof. intros. unfold map2. now rewrite map_length, combine_length. Qed.

Lemma filter_length_le : forall {A} (f : A -> bool) l, length (filter f l) <= length l.
Proof. intros A f l. induction l as [|x l IH]; simpl; [lia|]. destruct (f x); simpl; lia. Qed.

Lemma count_le_length : forall m, count m <= length m.
Proof. intros. unfold count. apply filter_length_le. Qed.

Lemma memn_true : forall i D, memn i D = true <-> In i D.
Proof.
  intros. unfold memn. rewrite existsb_exists. split.
  - intros [x [Hx He]]. apply Nat.eqb_eq in He. now subst.
  - intros H. exists i. split; [assumption|apply Nat.eqb_refl].
Qed.

Definition idx_from (s : nat) (m : list bool) : list nat := map fst (filter snd (combine (seq s (length m)) m)).
Lemma idx_of_from : forall m, idx_of m = idx_from 0 m.
Proof. reflexivity. Qed.
Lemma idx_from_cons : forall s b m,
  idx_from s (b :: m) = if b then s :: idx_from (S s) m else idx_from (S s) m.
Proof. intros. unfold idx_from. simpl. destruct b; reflexivity. Qed.
Lemma idx_from_bounds : forall m s i, In i (idx_from s m) -> s <= i < s + length m.
Proof.
  induction m as [|b m IH]; intros s i H.
  - inversion H.
  - rewrite idx_from_cons in H. simpl. destruct b.
    + destruct H as [H|H]; [lia|]. apply IH in H. lia.
    + apply IH in H. lia.
Qed.
Lemma idx_from_nth : forall m s i, In i (idx_from s m) <-> (s <= i < s + length m /\ nth (i - s) m false = true).
Proof.
  induction m as [|b m IH]; intros s i.
  - simpl. split; [intros []|intros [H _]; lia].
  - rewrite idx_from_cons. simpl length. destruct b.
    + simpl In. rewrite IH. split.
      * intros [<-|[Hb Hn]]; [split; [lia|]; now rewrite Nat.sub_diag|].
        split; [lia|]. replace (i - s) with (S (i - S s)) by lia. exact Hn.
      * intros [Hb Hn]. destruct (Nat.eq_dec s i) as [E|E]; [now left|right].
        split; [lia|]. replace (i - s) with (S (i - S s)) in Hn by lia. exact Hn.
    + rewrite IH. split.
      * intros [Hb Hn]. split; [lia|]. replace (i - s) with (S (i - S s)) by lia. exact Hn.
      * intros [Hb Hn]. destruct (Nat.eq_dec s i) as [E|E].
        { subst. rewrite Nat.sub_diag in Hn. discriminate. }
        split; [lia|]. replace (i - s) with (S (i - S s)) in Hn by lia. exact Hn.
Qed.
Lemma In_idx_of : forall m i, In i (idx_of m) <-> (i < length m /\ nth i m false = true).
Proof. intros. rewrite idx_of_from, idx_from_nth, Nat.sub_0_r. simpl. split; intros [H1 H2]; (split; [lia|exact H2]). Qed.

Lemma idx_from_length : forall m s, length (idx_from s m) = count m.
Proof.
  induction m as [|b m IH]; intros s; [reflexivity|].
  rewrite idx_from_cons. unfold count in *. simpl. destruct b; simpl; rewrite IH; reflexivity.
Qed.
Lemma idx_of_length : forall m, length (idx_of m) = count m.
Proof. intros. rewrite idx_of_from. apply idx_from_length. Qed.

Lemma anyb_count : forall m, anyb m = false <-> count m = 0.
Proof.
  induction m as [|b m IH]; simpl; [split; reflexivity|].
  unfold anyb, count in *. simpl. destruct b; simpl; [split; [discriminate|lia]|exact IH].
Qed.
Lemma anyb_idx_nil : forall m, anyb m = false <-> idx_of m = [].
Proof. intros. rewrite anyb_count, <- idx_of_length. apply length_zero_iff_nil. Qed.

Lemma select_all : forall {A} (l : list A), select (repeat true (length l)) l = l.
Proof. intros A l. unfold select. induction l as [|x l IH]; [reflexivity|]. simpl. f_equal. apply IH. Qed.

Lemma zero_mask_length : forall m th, length m = length th -> length (zero_mask m th) = length th.
Proof. intros m th H. unfold zero_mask. rewrite map_length, combine_length. lia. Qed.

Lemma zero_at_length : forall D th, length (zero_at D th) = length th.
Proof. intros. unfold zero_at, enum. rewrite map_length, combine_length, seq_length. lia. Qed.

Lemma pad_length : forall maxp l, length l <= maxp -> length (pad maxp l) = maxp.
Proof. intros. unfold pad. rewrite app_length, repeat_length. lia. Qed.
Lemma firstn_pad : forall maxp l, firstn (length l) (pad maxp l) = l.
Proof. intros. unfold pad. rewrite firstn_app, Nat.sub_diag, firstn_all. simpl. apply app_nil_r. Qed.

(* mask[idx] = 0 and p[idx] = 0 agree: zeroing through the cleared mask is zero_at *)
Lemma zero_clear_gen : forall D th s,
  map (fun q : bool * Q => if fst q then 0%Q else snd q)
      (combine (map negb (map (fun q : nat * bool => if memn (fst q) D then false else snd q)
                              (combine (seq s (length th)) (repeat true (length th))))) th)
  = map (fun q : nat * Q => if memn (fst q) D then 0%Q else snd q) (combine (seq s (length th)) th).
Proof.
  intros D th. induction th as [|t th IH]; intros s; simpl; [reflexivity|].
  rewrite IH. destruct (memn s D); reflexivity.
Qed.
Lemma zero_mask_clear_at : forall D th,
  zero_mask (map negb (clear_at D (repeat true (length th)))) th = zero_at D th.
Proof. intros. unfold zero_mask, clear_at, zero_at, enum. rewrite repeat_length. apply zero_clear_gen. Qed.

Lemma clear_at_length : forall D m, length (clear_at D m) = length m.
Proof. intros. unfold clear_at, enum. rewrite map_length, combine_length, seq_length. lia. Qed.

(* ================================================================== the subset search *)
Lemma combs_0 : forall {A} (l : list A), combs l 0 = [[]].
Proof. destruct l; reflexivity. Qed.
Lemma combs_1 : forall {A} (l : list A), combs l 1 = map (fun j => [j]) l.
Proof. induction l as [|x l IH]; [reflexivity|]. simpl. rewrite combs_0, IH. reflexivity. Qed.

(* the inner loop forgets the incoming state as soon as it has one candidate *)
Lemma inner_indep : forall fop p cs st st', cs <> [] -> inner fop p cs st = inner fop p cs st'.
Proof. intros fop p [|idx rest] st st' H; [congruence|reflexivity]. Qed.

Lemma outer_app : forall fop p C rs r st,
  outer fop p C (rs ++ [r]) st = inner fop p (combs C r) (outer fop p C rs st).
Proof. intros fop p C rs. induction rs as [|a rs IH]; intros r st; simpl; [reflexivity|]. apply IH. Qed.

Definition singles (fop : list Q -> xq) (p : list Q) (C : list nat) (st : sstate) : sstate :=
  inner fop p (map (fun j => [j]) C) st.

(* search_is_last_round: with two or more candidates the state after the loops is that of the
   round r = 1 alone -- whatever happened for the larger subsets *)
Theorem search_is_last_round : forall fop p C st, 2 <= length C ->
  search fop p C st = singles fop p C st.
Proof.
  intros fop p C st HC. unfold search, singles.
  destruct (length C - 1) as [|n] eqn:E; [lia|].
  change (seq 1 (S n)) with (1 :: seq 2 n). simpl rev. rewrite outer_app, combs_1.
  apply inner_indep. destruct C; [simpl in HC; lia|discriminate].
Qed.
(* with at most one candidate nothing is tried *)
Theorem search_short : forall fop p C st, length C <= 1 -> search fop p C st = st.
Proof. intros fop p C st HC. unfold search. replace (length C - 1) with 0 by lia. reflexivity. Qed.

Definition single_state (fop : list Q -> xq) (p : list Q) (j : nat) : sstate :=
  mkSS (zero_at [j] p) (fop (zero_at [j] p)) (Some [j]).

(* the round r = 1: the first singleton with a finite likelihood, else the last singleton *)
Theorem singles_result : forall fop p C st, C <> [] ->
  singles fop p C st =
    match find (fun j => isfin (fop (zero_at [j] p))) C with
    | Some j => single_state fop p j
    | None => single_state fop p (last C 0)
    end.
Proof.
  intros fop p C. unfold singles. induction C as [|j C IH]; intros st HC; [congruence|].
  simpl map. simpl inner. simpl find. destruct (isfin (fop (zero_at [j] p))) eqn:E; [reflexivity|].
  destruct C as [|j' C']; [reflexivity|]. rewrite IH by discriminate. reflexivity.
Qed.

Lemma singles_shape : forall fop p C st, C <> [] -> exists j, In j C /\ singles fop p C st = single_state fop p j.
Proof.
  intros fop p C st HC. rewrite singles_result by exact HC.
  destruct (find _ C) as [j|] eqn:F.
  - apply find_some in F. exists j. split; [apply F|reflexivity].
  - exists (last C 0). split; [|reflexivity]. destruct C; [congruence|]. apply exists_last in HC.
    destruct HC as [l' [a E]]. rewrite E. rewrite last_last. apply in_or_app. right. now left.
Qed.

(* what the search leaves behind, for every likelihood *)
Lemma search_shape : forall fop p C st,
  (length C <= 1 /\ search fop p C st = st) \/
  (2 <= length C /\ exists j, In j C /\ search fop p C st = single_state fop p j).
Proof.
  intros fop p C st. destruct (le_lt_dec (length C) 1) as [H|H].
  - left. split; [exact H|now apply search_short].
  - right. split; [lia|]. rewrite search_is_last_round by lia. apply singles_shape. destruct C; [simpl in H; lia|discriminate].
Qed.

(* ================================================================== totality *)
Lemma finish_ret : forall maxp ptrue cur fish nll k kept, (0 <= k)%Z ->
  exists r, finish maxp ptrue cur fish nll k kept = Ret r.
Proof.
  intros. unfold finish. destruct (k <? 0)%Z eqn:E; [apply Z.ltb_lt in E; lia|].
  destruct (k =? 0)%Z; eexists; reflexivity.
Qed.

Lemma anyb_nonempty : forall {A B} (f : A -> B -> bool) (l1 : list A) (l2 : list B), anyb (map2 f l1 l2) = true -> 1 <= length l1.
Proof. intros A B f [|x l1] l2 H; [discriminate|simpl; lia]. Qed.

(* row_total: the loop body never raises and never reaches quit() *)
Theorem snap_total : forall maxp p fish nll reeval fop, exists r, snap maxp p fish nll reeval fop = Ret r.
Proof.
  intros. unfold snap.
  destruct (existsb le0 fish); [eexists; reflexivity|].
  destruct (negb (anyb (map2 lt1 p fish))) eqn:EA; [eexists; reflexivity|].
  apply negb_false_iff in EA. pose proof (anyb_nonempty _ _ _ EA) as Hn.
  set (m := map2 lt1 p fish) in *.
  destruct (isfin (if reeval then fop (zero_mask m p) else NaN)) eqn:E0.
  { apply finish_ret. pose proof (count_le_length m) as Hc. unfold m in Hc at 2. rewrite map2_length in Hc. lia. }
  destruct reeval; simpl negb; cbv iota; [|eexists; reflexivity].
  destruct (search_shape fop p (idx_of m) (mkSS (zero_mask m p) (fop (zero_mask m p)) None)) as [[_ Hs]|[_ [j [_ Hs]]]]; rewrite Hs.
  - simpl s_nll. rewrite E0. simpl s_p. destruct (isinf (fop (zero_mask m p))); [eexists; reflexivity|].
    apply finish_ret. lia.
  - unfold single_state. simpl s_nll. simpl s_idx. simpl s_p.
    destruct (isfin (fop (zero_at [j] p))); [apply finish_ret; lia|].
    destruct (isinf (fop (zero_at [j] p))); [eexists; reflexivity|]. apply finish_ret. lia.
Qed.

Theorem row_total : forall maxp nparams nll theta flat chain reeval fop,
  (exists r, row maxp nparams nll theta flat chain reeval fop = Ret r) \/
  row maxp nparams nll theta flat chain reeval fop = Irregular.
Proof.
  intros. unfold row.
  destruct (isnan nll || isinf nll); [left; eexists; reflexivity|].
  destruct (nparams =? 0); [left; eexists; reflexivity|].
  destruct (existsb is_nan_step chain); [left; eexists; reflexivity|].
  destruct (existsb is_raise_step chain); [left; eexists; reflexivity|].
  destruct (convert nparams maxp (firstn nparams theta) flat (dicts chain)).
  - left; eexists; reflexivity.
  - now right.
  - left. apply snap_total.
Qed.

Corollary row_never_pyerror : forall maxp nparams nll theta flat chain reeval fop,
  row maxp nparams nll theta flat chain reeval fop <> PyError /\
  row maxp nparams nll theta flat chain reeval fop <> Quit.
Proof.
  intros. destruct (row_total maxp nparams nll theta flat chain reeval fop) as [[r ->]| ->]; split; discriminate.
Qed.

(* the irregular outcome is exactly: recoverable chain, well-formed composite, a reciprocal at 0 *)
Theorem irregular_iff : forall maxp nparams nll theta flat chain reeval fop,
  row maxp nparams nll theta flat chain reeval fop = Irregular <->
  (isfin nll = true /\ nparams <> 0 /\ existsb is_nan_step chain = false /\ existsb is_raise_step chain = false /\
   let pv := compose_chain nparams (dicts chain) in
   in_range nparams pv = true /\ coeffs_nonzero pv = true /\ regular (firstn nparams theta) pv = false).
Proof.
  intros. unfold row. rewrite convert_cases. cbv zeta.
  destruct nll; simpl; try (split; [discriminate|intros [H _]; discriminate]).
  destruct (Nat.eqb_spec nparams 0) as [E|E]; [split; [discriminate|intros [_ [H _]]; contradiction]|].
  destruct (existsb is_nan_step chain); [split; [discriminate|intros [_ [_ [H _]]]; discriminate]|].
  destruct (existsb is_raise_step chain); [split; [discriminate|intros [_ [_ [_ [H _]]]]; discriminate]|].
  destruct (in_range nparams _); simpl; [|split; [discriminate|intros [_ [_ [_ [_ [H _]]]]]; discriminate]].
  destruct (coeffs_nonzero _); simpl; [|split; [discriminate|intros [_ [_ [_ [_ [_ [H _]]]]]]; discriminate]].
  destruct (regular _ _); simpl.
  - split; [|intros [_ [_ [_ [_ [_ [_ H]]]]]]; discriminate].
    destruct (nodupb _); simpl; [|discriminate]. intros H.
    destruct (snap_total maxp (eval_vec (firstn nparams theta) (compose_chain nparams (dicts chain)))
               (map (fnew maxp nparams flat (env_of (firstn nparams theta)) (compose_chain nparams (dicts chain))) (seq 0 nparams))
               (Fin q) reeval fop) as [r Hr]. rewrite Hr in H. discriminate.
  - split; [intros _; repeat split; auto|reflexivity].
Qed.

(* ================================================================== unrecoverable transformations *)
Definition clen_is (c : clen) (v : xq) : Prop := c = CVal v.

(* unrecoverable_never_finite: a chain containing 'nan' gives inf (or nan when the unique's
   likelihood is not finite), whatever the other steps, parameters, curvatures and likelihood *)
Theorem unrecoverable_never_finite : forall maxp nparams nll theta flat chain reeval fop,
  existsb is_nan_step chain = true -> nparams <> 0 ->
  exists r, row maxp nparams nll theta flat chain reeval fop = Ret r /\
            r_params r = zeros maxp /\ r_nll r = nll /\
            (r_len r = CVal PInf \/ (r_len r = CVal NaN /\ isfin nll = false)).
Proof.
  intros maxp nparams nll theta flat chain reeval fop Hn Hp. unfold row.
  destruct (isnan nll || isinf nll) eqn:E.
  - eexists; split; [reflexivity|]. simpl. repeat split. right. split; [reflexivity|]. destruct nll; simpl in *; congruence.
  - destruct (Nat.eqb_spec nparams 0); [contradiction|]. rewrite Hn. eexists; split; [reflexivity|]. simpl. auto.
Qed.

(* the same for a dictionary on which convert_params raises, and for a composite that is not
   a generalised permutation (exception path, line 99) *)
Theorem exception_gives_inf : forall maxp nparams nll theta flat chain reeval fop,
  isfin nll = true -> nparams <> 0 -> existsb is_nan_step chain = false ->
  (existsb is_raise_step chain = true \/
   convert nparams maxp (firstn nparams theta) flat (dicts chain) = ConvRaise) ->
  row maxp nparams nll theta flat chain reeval fop = Ret (mkRow nll (CVal PInf) (zeros maxp) []).
Proof.
  intros maxp nparams nll theta flat chain reeval fop Hf Hp Hn H. unfold row.
  destruct nll; try discriminate. simpl.
  destruct (Nat.eqb_spec nparams 0); [contradiction|]. rewrite Hn.
  destruct (existsb is_raise_step chain); [reflexivity|]. destruct H as [H|H]; [discriminate|]. rewrite H. reflexivity.
Qed.

(* ================================================================== what snap returns *)
Lemma finish_cases : forall maxp ptrue cur fish v k kept r,
  finish maxp ptrue cur fish v k kept = Ret r ->
  (k = 0%Z /\ r = mkRow v (CLen 0 []) (zeros maxp) kept) \/
  ((0 < k)%Z /\ r = mkRow v (CLen k (combine (select kept fish) (select kept cur)))
                        (pad maxp (zero_mask (map negb kept) ptrue)) kept).
Proof.
  intros maxp ptrue cur fish v k kept r H. unfold finish in H.
  destruct (k <? 0)%Z eqn:E1; [discriminate|]. apply Z.ltb_ge in E1.
  destruct (k =? 0)%Z eqn:E2.
  - apply Z.eqb_eq in E2. left. split; [exact E2|]. now inversion H.
  - apply Z.eqb_neq in E2. right. split; [lia|]. now inversion H.
Qed.

Definition final_state (fop : list Q -> xq) (p : list Q) (fish : list xq) : sstate :=
  let m := map2 lt1 p fish in
  search fop p (idx_of m) (mkSS (zero_mask m p) (fop (zero_mask m p)) None).

Definition fallback_fish (p : list Q) (fish : list xq) : list xq :=
  map (fun t : bool * (Q * xq) => if fst t then twelve_over_sq (fst (snd t)) else snd (snd t))
      (combine (map2 lt1 p fish) (combine p fish)).

(* snap_cases: every way the loop body can end after convert_params succeeded *)
Theorem snap_cases : forall maxp p fish nll reeval fop r,
  snap maxp p fish nll reeval fop = Ret r ->
  let n := length p in
  let m := map2 lt1 p fish in
  let C := idx_of m in
  let p0 := zero_mask m p in
  let st := final_state fop p fish in
  let ones := repeat true n in
  (* A: a non-positive curvature *)
  (existsb le0 fish = true /\ r = mkRow nll (CVal PInf) (zeros maxp) []) \/
  (existsb le0 fish = false /\
   ((* B: nothing below one precision step *)
    (C = [] /\ r = mkRow nll (CLen (Z.of_nat n) (combine fish p)) (pad maxp p) ones) \/
    (C <> [] /\
     ((* C: the variant could not be re-evaluated *)
      (reeval = false /\ r = mkRow NaN (CVal NaN) (zeros maxp) []) \/
      (reeval = true /\
       ((* D: all candidates dropped at once *)
        (isfin (fop p0) = true /\
         finish maxp p p0 fish (fop p0) (Z.of_nat n - Z.of_nat (count m)) (map2 ge1 p fish) = Ret r) \/
        (isfin (fop p0) = false /\
         ((* E: one candidate dropped (last round of the search) *)
          (isfin (s_nll st) = true /\ 2 <= length C /\ exists j, In j C /\ st = single_state fop p j /\
           finish maxp p (zero_at [j] p) fish (s_nll st) (Z.of_nat n - 1) (clear_at [j] ones) = Ret r) \/
          (* F1: infinite likelihood: everything restored, uncertainty = parameter on the candidates *)
          (isfin (s_nll st) = false /\ isinf (s_nll st) = true /\
           r = mkRow nll (CLen (Z.of_nat n) (combine (fallback_fish p fish) p)) (pad maxp p) ones) \/
          (* F2: NaN likelihood: falls through with the zeros still in p *)
          (s_nll st = NaN /\
           finish maxp p (s_p st) fish NaN (Z.of_nat n) ones = Ret r))))))))).
Proof.
  intros maxp p fish nll reeval fop r H n m C p0 st ones. unfold snap in H.
  destruct (existsb le0 fish) eqn:EL; [left; split; [reflexivity|now inversion H]|]. right. split; [reflexivity|].
  fold m in H. destruct (negb (anyb m)) eqn:EA.
  { left. apply negb_true_iff, anyb_idx_nil in EA. split; [exact EA|now inversion H]. }
  right. apply negb_false_iff in EA.
  assert (HC : C <> []). { intros E. apply anyb_idx_nil in E. congruence. }
  split; [exact HC|]. pose proof (anyb_nonempty _ _ _ EA) as Hn. fold n in Hn.
  fold p0 in H. destruct reeval.
  2:{ left. simpl in H. split; [reflexivity|now inversion H]. }
  right. split; [reflexivity|].
  destruct (isfin (fop p0)) eqn:E0; [left; split; [reflexivity|exact H]|]. right. split; [reflexivity|].
  simpl negb in H. cbv iota in H.
  change (search fop p (idx_of m) (mkSS p0 (fop p0) None)) with st in H.
  assert (Hshape := search_shape fop p C (mkSS p0 (fop p0) None)).
  change (search fop p C (mkSS p0 (fop p0) None)) with st in Hshape.
  destruct (isfin (s_nll st)) eqn:E1.
  - left. split; [reflexivity|]. destruct Hshape as [[_ Hs]|[HC2 [j [Hj Hs]]]].
    + rewrite Hs in E1. simpl in E1. congruence.
    + split; [exact HC2|]. exists j. split; [exact Hj|]. split; [exact Hs|].
      rewrite Hs in H. unfold single_state in H. simpl s_idx in H. simpl s_p in H. simpl s_nll in H.
      rewrite Hs. unfold single_state. simpl s_nll. exact H.
  - right. destruct (isinf (s_nll st)) eqn:E2.
    + left. split; [reflexivity|]. split; [reflexivity|]. now inversion H.
    + right. assert (EN : s_nll st = NaN) by (destruct (s_nll st); simpl in *; congruence).
      split; [exact EN|]. rewrite EN in H. exact H.
Qed.

(* ================================================================== reported parameters *)
Lemma map_negb_repeat : forall b n, map negb (repeat b n) = repeat (negb b) n.
Proof. intros b n. induction n; simpl; congruence. Qed.
Lemma zero_mask_none : forall th, zero_mask (repeat false (length th)) th = th.
Proof. intros th. unfold zero_mask. induction th as [|t th IH]; simpl; [reflexivity|]. now rewrite IH. Qed.
Lemma zero_mask_all : forall th, zero_mask (repeat true (length th)) th = repeat 0%Q (length th).
Proof. intros th. unfold zero_mask. induction th as [|t th IH]; simpl; [reflexivity|]. now rewrite IH. Qed.
Lemma count_all : forall m, count m = length m -> m = repeat true (length m).
Proof.
  induction m as [|b m IH]; intros H; [reflexivity|].
  unfold count in *. simpl in *. destruct b; simpl in *.
  - f_equal. apply IH. lia.
  - pose proof (filter_length_le (fun b : bool => b) m). lia.
Qed.
Lemma firstn_repeat : forall {A} (x : A) n m, n <= m -> firstn n (repeat x m) = repeat x n.
Proof. intros A x n. induction n as [|n IH]; intros m H; [reflexivity|]. destruct m; [lia|]. simpl. f_equal. apply IH. lia. Qed.

(* transfer_params (after convert_params): the reported parameters are the transferred vector
   with zeros exactly at the positions cleared in kept_mask -- or all zero when no code length
   is computed (inf / nan rows, and k = 0) *)
Theorem snap_params : forall maxp p fish nll reeval fop r,
  length fish = length p ->
  snap maxp p fish nll reeval fop = Ret r ->
  r_params r = zeros maxp \/
  (length (r_kept r) = length p /\ r_params r = pad maxp (zero_mask (map negb (r_kept r)) p)).
Proof.
  intros maxp p fish nll reeval fop r HL H. apply snap_cases in H. cbv zeta in H.
  assert (Hones : forall r', r' = pad maxp p ->
            length (repeat true (length p)) = length p /\ r' = pad maxp (zero_mask (map negb (repeat true (length p))) p)).
  { intros r' ->. split; [apply repeat_length|]. now rewrite map_negb_repeat, zero_mask_none. }
  assert (Hfin : forall cur v k kept, length kept = length p -> finish maxp p cur fish v k kept = Ret r ->
            r_params r = zeros maxp \/ (length (r_kept r) = length p /\ r_params r = pad maxp (zero_mask (map negb (r_kept r)) p))).
  { intros cur v k kept Hk Hf. apply finish_cases in Hf. destruct Hf as [[_ ->]|[_ ->]]; simpl; [now left|right; split; [exact Hk|reflexivity]]. }
  destruct H as [[_ ->]|[_ [[_ ->]|[_ [[_ ->]|[_ [[_ Hf]|[_ [[_ [_ [j [_ [_ Hf]]]]]|[[_ [_ ->]]|[_ Hf]]]]]]]]]]]; simpl.
  - now left.
  - right. now apply Hones.
  - now left.
  - apply (Hfin _ _ _ _ ltac:(rewrite map2_length; lia) Hf).
  - apply (Hfin _ _ _ _ ltac:(rewrite clear_at_length; apply repeat_length) Hf).
  - right. now apply Hones.
  - apply (Hfin _ _ _ _ ltac:(apply repeat_length) Hf).
Qed.

(* ================================================================== positive finite curvatures *)
Definition posfin (a : xq) : Prop := exists q, a = Fin q /\ (0 < q)%Q.
Definition good (fish : list xq) : Prop := Forall posfin fish.

Lemma Qlt_b_true : forall a b, Qlt_b a b = true <-> (a < b)%Q.
Proof.
  intros. unfold Qlt_b. rewrite negb_true_iff. split.
  - intros H. apply Qnot_le_lt. intros L. apply Qle_bool_iff in L. congruence.
  - intros H. destruct (Qle_bool b a) eqn:E; [|reflexivity]. apply Qle_bool_iff in E. exfalso. apply (Qlt_not_le _ _ H E).
Qed.

Lemma good_no_le0 : forall fish, good fish -> existsb le0 fish = false.
Proof.
  intros fish H. induction H as [|a l [q [-> Hq]] _ IH]; [reflexivity|]. simpl. rewrite IH.
  destruct (Qle_bool q 0) eqn:E; [|reflexivity]. apply Qle_bool_iff in E. exfalso. apply (Qlt_not_le _ _ Hq E).
Qed.

Lemma fin_no_le0_good : forall fish, Forall (fun a => isfin a = true) fish -> existsb le0 fish = false -> good fish.
Proof.
  intros fish H. induction H as [|a l Ha _ IH]; intros E; [constructor|]. simpl in E. apply orb_false_iff in E. destruct E as [E1 E2].
  constructor; [|now apply IH]. destruct a as [q| | |]; try discriminate. exists q. split; [reflexivity|].
  simpl in E1. apply Qnot_le_lt. intros L. apply Qle_bool_iff in L. congruence.
Qed.

Lemma ge1_negb_lt1 : forall p a, posfin a -> ge1 p a = negb (lt1 p a).
Proof.
  intros p a [q [-> Hq]]. simpl. apply Qlt_b_true in Hq. rewrite Hq. simpl. unfold Qlt_b. now rewrite negb_involutive.
Qed.

Lemma map2_ge1_lt1 : forall p fish, good fish -> map2 ge1 p fish = map negb (map2 lt1 p fish).
Proof.
  intros p fish H. revert p. induction H as [|a l Ha _ IH]; intros [|t p]; try reflexivity.
  unfold map2 in *. simpl. rewrite ge1_negb_lt1 by exact Ha. f_equal. apply IH.
Qed.

(* a parameter that is not below one precision step is not zero *)
Lemma not_lt1_nonzero : forall p a, posfin a -> lt1 p a = false -> ~ (p == 0)%Q.
Proof.
  intros p a [q [-> Hq]] H E. simpl in H. assert (Hq' := Hq). apply Qlt_b_true in Hq'. rewrite Hq' in H. simpl in H.
  assert (L : (p * p * q < 12)%Q) by (rewrite E; reflexivity). apply Qlt_b_true in L. congruence.
Qed.

(* ================================================================== the reported likelihood *)
Definition term_ok (t : xq * Q) : bool :=
  match fst t with Fin q => Qlt_b 0 q | _ => false end && negb (Qeq_bool (snd t) 0).
(* the value of the structure is a finite number *)
Definition clen_finite (c : clen) : bool :=
  match c with CVal v => isfin v | CLen _ ts => forallb term_ok ts end.

(* nll_reported: with positive finite transferred curvatures the row reports
     - the unique's likelihood and the untouched transferred parameters (nothing dropped), or
     - a finite likelihood which is the variant's own likelihood AT THE REPORTED PARAMETERS, or
     - nan (the variant could not be re-evaluated, or its re-evaluation gave nan). *)
Theorem nll_reported : forall maxp p fish nll reeval fop r,
  length fish = length p -> length p <= maxp -> good fish ->
  snap maxp p fish nll reeval fop = Ret r ->
  (r_nll r = nll /\ r_params r = pad maxp p /\ r_kept r = repeat true (length p)) \/
  (isfin (r_nll r) = true /\ r_nll r = fop (firstn (length p) (r_params r))) \/
  r_nll r = NaN.
Proof.
  intros maxp p fish nll reeval fop r HL Hmax HG H. apply snap_cases in H. cbv zeta in H.
  rewrite (good_no_le0 _ HG) in H.
  destruct H as [[E _]|[_ H]]; [discriminate|].
  set (m := map2 lt1 p fish) in *.
  assert (Hm : length m = length p) by (unfold m; rewrite map2_length; lia).
  destruct H as [[_ ->]|[HC [[_ ->]|[_ [[E0 Hf]|[_ [[E1 [HC2 [j [Hj [Hs Hf]]]]]|[[_ [_ ->]]|[EN Hf]]]]]]]]]; simpl.
  - left. auto.
  - right. right. reflexivity.
  - (* D *) right. left. apply finish_cases in Hf.
    assert (Hp0 : length (zero_mask m p) = length p) by now apply zero_mask_length.
    destruct Hf as [[Hk ->]|[_ ->]]; simpl; (split; [exact E0|]); f_equal.
    + assert (Hc : count m = length m) by lia. apply count_all in Hc. rewrite Hc, Hm, zero_mask_all.
      unfold zeros. now rewrite firstn_repeat.
    + rewrite (map2_ge1_lt1 _ _ HG). fold m. rewrite map_map.
      rewrite (map_ext (fun x => negb (negb x)) (fun x => x)) by apply negb_involutive. rewrite map_id.
      rewrite <- Hp0 at 1. now rewrite firstn_pad.
  - (* E *) right. left. rewrite Hs in *. unfold single_state in *. simpl s_nll in *.
    apply finish_cases in Hf.
    assert (Hcn : length (idx_of m) <= length p) by (rewrite idx_of_length, <- Hm; apply count_le_length).
    destruct Hf as [[Hk _]|[_ ->]]; [lia|]. simpl. split; [exact E1|]. f_equal.
    rewrite zero_mask_clear_at. rewrite <- (zero_at_length [j] p) at 1. now rewrite firstn_pad.
  - left. auto.
  - right. right. apply finish_cases in Hf. destruct Hf as [[_ ->]|[_ ->]]; reflexivity.
Qed.
