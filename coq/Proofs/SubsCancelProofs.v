(* C17, cancellation side: the index loop of simplify_inv_subs equals the
   structural [cancel]; members of get_all_dup are involutions; cancelling
   adjacent equal members of all_dup never changes the composition. *)
From Coq Require Import Arith Bool Lia List.
From ESRV Require Import Model.SubsCancel.
Import ListNotations.

(* ------------------------------------------------------------------ *)
(* equality tests *)
Lemma pairs_eqb_eq a b : pairs_eqb a b = true -> a = b.
Proof.
  revert b; induction a as [|[x1 y1] a IH]; intros [|[x2 y2] b] H; cbn in H; try discriminate; [reflexivity|].
  apply andb_true_iff in H as [H H3]. apply andb_true_iff in H as [H1 H2].
  apply Nat.eqb_eq in H1, H2. subst. f_equal. now apply IH.
Qed.

Lemma sub_eqb_eq a b : sub_eqb a b = true -> a = b.
Proof.
  destruct a, b; cbn; intros H; try discriminate.
  - apply Nat.eqb_eq in H. now subst.
  - apply Nat.eqb_eq in H. now subst.
  - apply pairs_eqb_eq in H. now subst.
  - apply Nat.eqb_eq in H. now subst.
Qed.

Lemma mem_In x l : mem x l = true -> In x l.
Proof.
  unfold mem. intros H. apply existsb_exists in H as (e & He & E). apply sub_eqb_eq in E. now subst.
Qed.

(* ------------------------------------------------------------------ *)
(* the loop computes the structural deletion indices *)
Lemma nth_error_mid {A} (pre : list A) x l : nth_error (pre ++ x :: l) (length pre) = Some x.
Proof. rewrite nth_error_app2 by lia. now rewrite Nat.sub_diag. Qed.

Lemma sis_loop_spec dup fuel : forall pre l del,
  length l < fuel ->
  sis_loop fuel (pre ++ l) dup (length pre) del
  = Some (del ++ map (fun k => length pre + k) (del_idx dup l)).
Proof.
  induction fuel as [|fuel IH]; intros pre l del Hf; [lia|].
  cbn [sis_loop]. rewrite app_length.
  destruct l as [|x [|y r]].
  - cbn [length]. destruct (Nat.ltb_spec (length pre + 1) (length pre + 0)); [lia|].
    cbn. now rewrite app_nil_r.
  - cbn [length]. destruct (Nat.ltb_spec (length pre + 1) (length pre + 1)); [lia|].
    cbn. now rewrite app_nil_r.
  - cbn [length] in *. destruct (Nat.ltb_spec (length pre + 1) (length pre + S (S (length r)))); [|lia].
    rewrite nth_error_mid.
    replace (pre ++ x :: y :: r) with ((pre ++ [x]) ++ y :: r) at 1 by (now rewrite <- app_assoc).
    replace (length pre + 1) with (length (pre ++ [x])) at 1 by (rewrite app_length; cbn; lia).
    rewrite nth_error_mid.
    cbn [del_idx]. destruct (mem x dup) eqn:Hm; cbn [andb].
    + destruct (sub_eqb y x) eqn:He.
      * replace (pre ++ x :: y :: r) with ((pre ++ [x; y]) ++ r) by (now rewrite <- app_assoc).
        replace (length pre + 2) with (length (pre ++ [x; y])) by (rewrite app_length; cbn; lia).
        rewrite IH by lia. f_equal. rewrite <- app_assoc. f_equal.
        rewrite app_length. cbn [length map app]. rewrite map_map.
        f_equal; [lia|]. f_equal. apply map_ext. intros; lia.
      * replace (pre ++ x :: y :: r) with ((pre ++ [x]) ++ y :: r) by (now rewrite <- app_assoc).
        replace (length pre + 1) with (length (pre ++ [x])) by (rewrite app_length; cbn; lia).
        rewrite IH by (cbn; lia). f_equal. f_equal. rewrite map_map. rewrite app_length. cbn [length].
        apply map_ext. intros; lia.
    + replace (pre ++ x :: y :: r) with ((pre ++ [x]) ++ y :: r) by (now rewrite <- app_assoc).
      replace (length pre + 1) with (length (pre ++ [x])) by (rewrite app_length; cbn; lia).
      rewrite IH by (cbn; lia). f_equal. f_equal. rewrite map_map. rewrite app_length. cbn [length].
      apply map_ext. intros; lia.
Qed.

Lemma cancel_cons2 dup x y r :
  cancel dup (x :: y :: r) = if mem x dup && sub_eqb y x then cancel dup r else x :: cancel dup (y :: r).
Proof. reflexivity. Qed.

Lemma del_idx_cons2 dup x y r :
  del_idx dup (x :: y :: r) = if mem x dup && sub_eqb y x then 0 :: 1 :: map (fun k => 2 + k) (del_idx dup r)
                              else map S (del_idx dup (y :: r)).
Proof. reflexivity. Qed.

(* selection by index, with an offset *)
Definition select_off (k : nat) (l : list sub) (del : list nat) : list sub :=
  map snd (filter (fun p => negb (existsb (Nat.eqb (fst p)) del)) (combine (seq k (length l)) l)).

Lemma select_off_cons k x l del :
  select_off k (x :: l) del =
  (if existsb (Nat.eqb k) del then [] else [x]) ++ select_off (S k) l del.
Proof.
  unfold select_off. cbn [length seq combine filter fst]. destruct (existsb (Nat.eqb k) del); reflexivity.
Qed.

Lemma existsb_eqb_In k del : existsb (Nat.eqb k) del = true <-> In k del.
Proof.
  rewrite existsb_exists. split.
  - intros (x & Hx & E). apply Nat.eqb_eq in E. now subst.
  - intros H. exists k. split; [assumption|apply Nat.eqb_refl].
Qed.

Lemma select_del_idx dup n : forall l k D,
  length l <= n -> (forall d, In d D -> d < k) ->
  select_off k l (D ++ map (fun j => k + j) (del_idx dup l)) = cancel dup l.
Proof.
  induction n as [|n IH]; intros l k D Hn HD.
  - destruct l; [reflexivity|cbn in Hn; lia].
  - destruct l as [|x [|y r]]; [reflexivity| |].
    + cbn [del_idx cancel map]. rewrite select_off_cons.
      destruct (existsb (Nat.eqb k) (D ++ [])) eqn:E.
      * apply existsb_eqb_In in E. rewrite app_nil_r in E. apply HD in E. lia.
      * reflexivity.
    + rewrite del_idx_cons2, cancel_cons2. destruct (mem x dup && sub_eqb y x) eqn:Hc.
      * cbn [map]. rewrite !select_off_cons.
        assert (E1 : existsb (Nat.eqb k) (D ++ (k + 0) :: (k + 1) :: map (fun j => k + j) (map (fun k0 => 2 + k0) (del_idx dup r))) = true).
        { apply existsb_eqb_In. apply in_or_app. right. left. lia. }
        assert (E2 : existsb (Nat.eqb (S k)) (D ++ (k + 0) :: (k + 1) :: map (fun j => k + j) (map (fun k0 => 2 + k0) (del_idx dup r))) = true).
        { apply existsb_eqb_In. apply in_or_app. right. right. left. lia. }
        rewrite E1, E2. cbn [app].
        replace (D ++ (k + 0) :: (k + 1) :: map (fun j => k + j) (map (fun k0 => 2 + k0) (del_idx dup r)))
          with ((D ++ [k; S k]) ++ map (fun j => S (S k) + j) (del_idx dup r)).
        2:{ rewrite <- app_assoc. f_equal. cbn [app]. rewrite map_map.
            f_equal; [lia|]. f_equal; [lia|]. apply map_ext. intros; lia. }
        apply IH; [cbn in Hn; lia|].
        intros d Hd. apply in_app_or in Hd as [Hd|Hd]; [apply HD in Hd; lia|].
        destruct Hd as [<-|[<-|[]]]; lia.
      * rewrite select_off_cons.
        assert (E : existsb (Nat.eqb k) (D ++ map (fun j => k + j) (map S (del_idx dup (y :: r)))) = false).
        { apply not_true_iff_false. intros E. apply existsb_eqb_In in E. apply in_app_or in E as [E|E].
          - apply HD in E. lia.
          - rewrite map_map in E. apply in_map_iff in E as (j & E & _). lia. }
        rewrite E. cbn [app]. f_equal.
        replace (map (fun j => k + j) (map S (del_idx dup (y :: r))))
          with (map (fun j => S k + j) (del_idx dup (y :: r)))
          by (rewrite map_map; apply map_ext; intros; lia).
        apply IH; [cbn in Hn |- *; lia|]. intros d Hd. apply HD in Hd. lia.
Qed.

Lemma select_is_off inv del : select inv del = select_off 0 inv del.
Proof. reflexivity. Qed.

(* the loop-and-filter of the code is the structural cancel; it always finishes *)
Theorem simplify_inv_subs_spec inv dup :
  simplify_inv_subs inv dup =
  Some (match inv with
        | [] => Some []
        | _ => match cancel dup inv with [] => None | c => Some c end
        end).
Proof.
  destruct inv as [|x inv]; [reflexivity|].
  unfold simplify_inv_subs.
  pose proof (sis_loop_spec dup (S (length (x :: inv))) [] (x :: inv) [] ltac:(lia)) as H.
  cbn [app length] in H. cbn [length]. rewrite H. cbn [app].
  rewrite select_is_off.
  replace (map (fun k => 0 + k) (del_idx dup (x :: inv))) with ([] ++ map (fun k => 0 + k) (del_idx dup (x :: inv))) by reflexivity.
  rewrite (select_del_idx dup (length (x :: inv))) by (reflexivity || (intros d []) || lia).
  destruct (cancel dup (x :: inv)); reflexivity.
Qed.

Theorem sis_chain_cancel inv dup : sis_chain inv dup = Some (cancel dup inv).
Proof.
  unfold sis_chain. rewrite simplify_inv_subs_spec.
  destruct inv as [|x inv]; [reflexivity|]. destruct (cancel dup (x :: inv)); reflexivity.
Qed.

(* ------------------------------------------------------------------ *)
(* cancel only removes adjacent equal members of dup *)
Inductive removes_pairs (dup : list sub) : list sub -> list sub -> Prop :=
| rp_nil : removes_pairs dup [] []
| rp_keep x l l' : removes_pairs dup l l' -> removes_pairs dup (x :: l) (x :: l')
| rp_drop x l l' : In x dup -> removes_pairs dup l l' -> removes_pairs dup (x :: x :: l) l'.

Lemma cancel_ind_len (P : list sub -> Prop) :
  (forall n, (forall l, length l < n -> P l) -> forall l, length l = n -> P l) -> forall l, P l.
Proof.
  intros H l. remember (length l) as n eqn:E. revert l E.
  induction n as [n IH] using lt_wf_ind. intros l E. apply (H n); [|now symmetry].
  intros l' Hl'. now apply (IH (length l')).
Qed.

Theorem cancel_removes_pairs dup l : removes_pairs dup l (cancel dup l).
Proof.
  induction l as [n IH l Hn] using cancel_ind_len.
  destruct l as [|x [|y r]].
  - constructor.
  - constructor. constructor.
  - rewrite cancel_cons2. destruct (mem x dup && sub_eqb y x) eqn:Hc.
    + apply andb_true_iff in Hc as [Hm He]. apply sub_eqb_eq in He. subst y.
      apply rp_drop; [now apply mem_In|]. apply IH. cbn in Hn. lia.
    + apply rp_keep. apply IH. cbn in Hn |- *. lia.
Qed.

(* anything that is not in dup (in particular nan) is never removed, nothing is added *)
Lemma removes_pairs_In dup l l' x : removes_pairs dup l l' -> In x l' -> In x l.
Proof.
  induction 1 as [|y l l' _ IH|y l l' _ _ IH]; intros Hx; [assumption| |].
  - destruct Hx as [->|Hx]; [now left|right; auto].
  - right. right. auto.
Qed.

Lemma removes_pairs_keeps dup l l' x : removes_pairs dup l l' -> ~ In x dup -> In x l -> In x l'.
Proof.
  induction 1 as [|y l l' _ IH|y l l' Hy _ IH]; intros Hn Hx; [assumption| |].
  - destruct Hx as [->|Hx]; [now left|right; auto].
  - destruct Hx as [->|[->|Hx]]; [contradiction|contradiction|auto].
Qed.

(* ------------------------------------------------------------------ *)
(* get_all_dup: exactly sign flips, reciprocals and swaps of two different parameters below k *)
Lemma comb_In k i j : In (i, j) (comb k) <-> j < i < k.
Proof.
  unfold comb. rewrite in_flat_map. split.
  - intros (i' & Hi & H). apply in_map_iff in H as (j' & E & Hj). injection E as <- <-.
    rewrite <- in_rev in Hi, Hj. apply in_seq in Hi, Hj. lia.
  - intros H. exists i. split; [rewrite <- in_rev; apply in_seq; lia|].
    apply in_map_iff. exists j. split; [reflexivity|rewrite <- in_rev; apply in_seq; lia].
Qed.

Theorem all_dup_spec k s :
  In s (all_dup k) <->
  (exists i, i < k /\ (s = SNeg i \/ s = SInv i)) \/
  (exists i j, i < k /\ j < k /\ i <> j /\ s = swap i j).
Proof.
  unfold all_dup. rewrite !in_app_iff, !in_map_iff. split.
  - intros [(i & E & Hi)|[(i & E & Hi)|[([i j] & E & Hc)|([i j] & E & Hc)]]]; subst s.
    + apply in_seq in Hi. left. exists i. split; [lia|now left].
    + apply in_seq in Hi. left. exists i. split; [lia|now right].
    + apply comb_In in Hc. right. exists i, j. cbn. repeat split; lia.
    + apply comb_In in Hc. right. exists j, i. cbn. repeat split; lia.
  - intros [(i & Hi & [-> | ->])|(i & j & Hi & Hj & Hne & ->)].
    + left. exists i. split; [reflexivity|apply in_seq; lia].
    + right. left. exists i. split; [reflexivity|apply in_seq; lia].
    + destruct (Nat.lt_ge_cases j i).
      * right. right. left. exists (i, j). split; [reflexivity|apply comb_In; lia].
      * right. right. right. exists (j, i). split; [reflexivity|apply comb_In; lia].
Qed.

(* ------------------------------------------------------------------ *)
(* meaning *)
Section SemProofs.
  Variable F : Type.
  Variable zero : F.
  Variable opp inv : F -> F.
  Variable is_zero : F -> bool.
  Variable interp : nat -> list F -> option (list F).
  Hypothesis opp_invol : forall x, opp (opp x) = x.
  Hypothesis inv_invol : forall x, is_zero x = false -> inv (inv x) = x.
  Hypothesis inv_nonzero : forall x, is_zero x = false -> is_zero (inv x) = false.

  Notation get := (get F zero).
  Notation sim := (sim F).
  Notation denote := (denote F zero opp inv is_zero interp).
  Notation compose := (compose F zero opp inv is_zero interp).

  Lemma sim_length f e : length (sim f e) = length e.
  Proof. unfold SubsCancel.sim. now rewrite map_length, seq_length. Qed.

  Lemma get_sim f e k : k < length e -> get (sim f e) k = f k.
  Proof.
    intros H. unfold SubsCancel.get, SubsCancel.sim.
    rewrite (nth_indep _ zero (f 0)) by (now rewrite map_length, seq_length).
    rewrite map_nth. now rewrite seq_nth.
  Qed.

  Lemma rebuild e : map (get e) (seq 0 (length e)) = e.
  Proof.
    induction e as [|x e IH]; [reflexivity|].
    cbn [length seq map]. f_equal. rewrite <- seq_shift, map_map. exact IH.
  Qed.

  Lemma sim_ext f e : (forall k, k < length e -> f k = get e k) -> sim f e = e.
  Proof.
    intros H. unfold SubsCancel.sim. rewrite <- (rebuild e) at 2.
    apply map_ext_in. intros k Hk. apply in_seq in Hk. apply H. lia.
  Qed.

  Lemma sim_sim_ext g f e :
    (forall k, k < length e -> g k = get e k) -> map g (seq 0 (length (sim f e))) = e.
  Proof. intros H. rewrite sim_length. now apply sim_ext. Qed.

  Lemma denote_length s e e' : denote s e = Some e' -> length e' = length e.
  Proof.
    destruct s; cbn [SubsCancel.denote]; intros H.
    - discriminate.
    - injection H as <-. apply sim_length.
    - destruct (_ && _); [discriminate|]. injection H as <-. apply sim_length.
    - injection H as <-. apply sim_length.
    - destruct (interp id e) as [e1|]; [|discriminate].
      destruct (Nat.eqb_spec (length e1) (length e)); [|discriminate]. now injection H as <-.
  Qed.

  Lemma compose_length c e e' : compose c e = Some e' -> length e' = length e.
  Proof.
    revert e'. induction c as [|s c IH]; intros e' H; cbn [SubsCancel.compose] in H.
    - now injection H as <-.
    - destruct (compose c e) as [e1|]; [|discriminate].
      apply denote_length in H. rewrite H. now apply IH.
  Qed.

  (* sign flip, reciprocal (where defined) and swap are involutions *)
  Definition involutive_at (s : sub) (n : nat) : Prop :=
    forall e e', length e = n -> denote s e = Some e' -> denote s e' = Some e.

  Lemma neg_involutive i n : involutive_at (SNeg i) n.
  Proof.
    intros e e' _ H. cbn [SubsCancel.denote] in *. injection H as <-. f_equal.
    apply sim_sim_ext. intros k Hk. rewrite !get_sim by assumption.
    destruct (k =? i); [apply opp_invol|reflexivity].
  Qed.

  Lemma inv_involutive i n : involutive_at (SInv i) n.
  Proof.
    intros e e' _ H. cbn [SubsCancel.denote] in *.
    destruct ((i <? length e) && is_zero (get e i)) eqn:Hz; [discriminate|]. injection H as <-.
    rewrite sim_length.
    destruct (Nat.ltb_spec i (length e)) as [Hi|Hi]; cbn [andb] in *.
    - rewrite get_sim by assumption. rewrite Nat.eqb_refl. rewrite inv_nonzero by assumption.
      f_equal. apply sim_sim_ext. intros k Hk. rewrite !get_sim by assumption.
      destruct (Nat.eqb_spec k i) as [->|]; [now apply inv_invol|reflexivity].
    - f_equal. apply sim_sim_ext. intros k Hk. rewrite !get_sim by assumption.
      destruct (Nat.eqb_spec k i); [lia|reflexivity].
  Qed.

  Lemma swap_involutive i j n : i < n -> j < n -> involutive_at (swap i j) n.
  Proof.
    intros Hi Hj e e' Hn H. unfold swap in *. cbn [SubsCancel.denote] in *. injection H as <-. f_equal.
    apply sim_sim_ext. intros k Hk. cbn [SubsCancel.assoc].
    destruct (Nat.eqb_spec i k) as [->|Hik].
    - rewrite get_sim by lia. cbn [SubsCancel.assoc]. destruct (Nat.eqb_spec k j) as [->|Hkj]; [reflexivity|].
      now rewrite Nat.eqb_refl.
    - destruct (Nat.eqb_spec j k) as [->|Hjk].
      + rewrite get_sim by lia. cbn [SubsCancel.assoc]. now rewrite Nat.eqb_refl.
      + rewrite get_sim by lia. cbn [SubsCancel.assoc].
        destruct (Nat.eqb_spec i k); [contradiction|]. destruct (Nat.eqb_spec j k); [contradiction|]. reflexivity.
  Qed.

  Theorem all_dup_involutive k s n : In s (all_dup k) -> k <= n -> involutive_at s n.
  Proof.
    intros H Hk. apply all_dup_spec in H as [(i & Hi & [-> | ->])|(i & j & Hi & Hj & _ & ->)].
    - apply neg_involutive.
    - apply inv_involutive.
    - apply swap_involutive; lia.
  Qed.

  (* removing adjacent equal involutions never changes the composition where the original is defined *)
  Theorem cancel_preserves_composition_gen dup n :
    (forall s, In s dup -> involutive_at s n) ->
    forall c e e', length e = n -> compose c e = Some e' -> compose (cancel dup c) e = Some e'.
  Proof.
    intros Hd c. induction c as [m IH c Hm] using cancel_ind_len. intros e e' Hn H.
    destruct c as [|x [|y r]]; [assumption|assumption|].
    rewrite cancel_cons2. destruct (mem x dup && sub_eqb y x) eqn:Hc.
    - apply andb_true_iff in Hc as [Hmem He]. apply sub_eqb_eq in He. subst y. apply mem_In in Hmem.
      cbn [SubsCancel.compose] in H.
      destruct (compose r e) as [e1|] eqn:E1; [|discriminate].
      destruct (denote x e1) as [e2|] eqn:E2; [|discriminate].
      assert (L1 : length e1 = n) by (apply compose_length in E1; lia).
      pose proof (Hd x Hmem e1 e2 L1 E2) as Hinv. rewrite Hinv in H. injection H as <-.
      apply IH; [cbn in Hm; lia|assumption|assumption].
    - change (compose (x :: y :: r) e) with (match compose (y :: r) e with Some e1 => denote x e1 | None => None end) in H.
      change (compose (x :: cancel dup (y :: r)) e)
        with (match compose (cancel dup (y :: r)) e with Some e1 => denote x e1 | None => None end).
      destruct (compose (y :: r) e) as [e1|] eqn:E1; [|discriminate].
      rewrite (IH (y :: r) ltac:(cbn in Hm |- *; lia) e e1 Hn E1). exact H.
  Qed.

  (* the statement on the code's loop, with the code's all_dup *)
  Theorem cancel_preserves_composition k chain e e' :
    k <= length e -> compose chain e = Some e' ->
    exists c, sis_chain chain (all_dup k) = Some c /\ compose c e = Some e'.
  Proof.
    intros Hk H. exists (cancel (all_dup k) chain). split; [apply sis_chain_cancel|].
    apply (cancel_preserves_composition_gen (all_dup k) (length e)); [|reflexivity|assumption].
    intros s Hs. now apply (all_dup_involutive k).
  Qed.
End SemProofs.

(* what the code's loop removes, and that nan (unrecoverable) survives *)
Theorem sis_chain_removes_pairs k chain :
  exists c, sis_chain chain (all_dup k) = Some c /\ removes_pairs (all_dup k) chain c.
Proof. exists (cancel (all_dup k) chain). split; [apply sis_chain_cancel|apply cancel_removes_pairs]. Qed.

Lemma nan_not_dup k : ~ In SNan (all_dup k).
Proof.
  intros H. apply all_dup_spec in H as [(i & _ & [H|H])|(i & j & _ & _ & _ & H)]; discriminate.
Qed.

Theorem sis_chain_nan k chain :
  exists c, sis_chain chain (all_dup k) = Some c /\ (In SNan c <-> In SNan chain).
Proof.
  exists (cancel (all_dup k) chain). split; [apply sis_chain_cancel|].
  pose proof (cancel_removes_pairs (all_dup k) chain) as H. split.
  - exact (removes_pairs_In _ _ _ _ H).
  - exact (removes_pairs_keeps _ _ _ _ H (nan_not_dup k)).
Qed.

(* ------------------------------------------------------------------ *)
(* instances: the reals, and the rationals (axiom-free) *)
From Coq Require Import Reals QArith Qcanon.
Open Scope nat_scope.

Definition R_is_zero (x : R) : bool := if Req_EM_T x 0%R then true else false.

Theorem cancel_preserves_composition_R (interp : nat -> list R -> option (list R)) k chain (e e' : list R) :
  k <= length e ->
  compose R 0%R Ropp Rinv R_is_zero interp chain e = Some e' ->
  exists c, sis_chain chain (all_dup k) = Some c /\ compose R 0%R Ropp Rinv R_is_zero interp c e = Some e'.
Proof.
  apply cancel_preserves_composition.
  - apply Ropp_involutive.
  - intros x H. unfold R_is_zero in H. destruct (Req_EM_T x 0%R); [discriminate|]. now apply Rinv_involutive.
  - intros x H. unfold R_is_zero in *. destruct (Req_EM_T x 0%R); [discriminate|].
    destruct (Req_EM_T (/ x) 0%R) as [E|]; [|reflexivity]. exfalso. now apply (Rinv_neq_0_compat x).
Qed.

Theorem all_dup_involutive_R (interp : nat -> list R -> option (list R)) k s (e e' : list R) :
  In s (all_dup k) -> k <= length e ->
  denote R 0%R Ropp Rinv R_is_zero interp s e = Some e' ->
  denote R 0%R Ropp Rinv R_is_zero interp s e' = Some e.
Proof.
  intros Hs Hk. apply (all_dup_involutive R 0%R Ropp Rinv R_is_zero interp) with (k := k) (n := length e); try assumption; try reflexivity.
  - apply Ropp_involutive.
  - intros x H. unfold R_is_zero in H. destruct (Req_EM_T x 0%R); [discriminate|]. now apply Rinv_involutive.
  - intros x H. unfold R_is_zero in *. destruct (Req_EM_T x 0%R); [discriminate|].
    destruct (Req_EM_T (/ x) 0%R) as [E|]; [|reflexivity]. exfalso. now apply (Rinv_neq_0_compat x).
Qed.

Definition Qc_is_zero (x : Qc) : bool := if Qc_eq_dec x (Q2Qc 0) then true else false.

Lemma Qc_opp_invol (x : Qc) : Qcopp (Qcopp x) = x.
Proof. ring. Qed.

Lemma Qc_inv_invol x : Qc_is_zero x = false -> Qcinv (Qcinv x) = x.
Proof.
  unfold Qc_is_zero. destruct (Qc_eq_dec x (Q2Qc 0)) as [|Hx]; [discriminate|]. intros _.
  field. split; [assumption|discriminate].
Qed.

Lemma Qc_inv_nonzero x : Qc_is_zero x = false -> Qc_is_zero (Qcinv x) = false.
Proof.
  unfold Qc_is_zero. destruct (Qc_eq_dec x (Q2Qc 0)) as [|Hx]; [discriminate|]. intros _.
  destruct (Qc_eq_dec (Qcinv x) (Q2Qc 0)) as [E|]; [|reflexivity].
  exfalso. pose proof (Qcmult_inv_l x Hx) as M. rewrite E in M.
  assert (Z0 : Qcmult (Q2Qc 0) x = Q2Qc 0) by ring. rewrite Z0 in M. discriminate.
Qed.

Theorem cancel_preserves_composition_Qc (interp : nat -> list Qc -> option (list Qc)) k chain (e e' : list Qc) :
  k <= length e ->
  compose Qc (Q2Qc 0) Qcopp Qcinv Qc_is_zero interp chain e = Some e' ->
  exists c, sis_chain chain (all_dup k) = Some c /\ compose Qc (Q2Qc 0) Qcopp Qcinv Qc_is_zero interp c e = Some e'.
Proof.
  apply cancel_preserves_composition.
  - apply Qc_opp_invol.
  - apply Qc_inv_invol.
  - apply Qc_inv_nonzero.
Qed.
