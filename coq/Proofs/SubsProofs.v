(* C05 -- lemmas about Model/Subs.v: composition of substitution chains, the Jacobian of a
   generalised permutation and its inverse, the transfer law for the Fisher diagonal and the
   exact invariant  p'^2 F' = theta^2 F. *)
From Coq Require Import QArith ZArith List Bool Arith Lia Lqa Permutation.
From ESRV Require Import Model.Subs.
Import ListNotations.

(* ================================================================== composition *)
(* the function R^N -> R^N denoted by one dictionary, and by a chain: s1 o s2 o ... o sn *)
Definition den_subst (s : subst) (rho : env) : env := fun j => eval_mono rho (lookup s j).
Fixpoint den_chain (chain : list subst) (rho : env) : env :=
  match chain with
  | [] => rho
  | s :: r => den_subst s (den_chain r rho)
  end.

Lemma subst_mono_sound : forall s m rho,
  eval_mono rho (subst_mono s m) == eval_mono (den_subst s rho) m.
Proof.
  intros s [c j inv] rho. unfold subst_mono, eval_mono, den_subst. simpl.
  destruct (lookup s j) as [c' j' inv']. unfold eval_mono. simpl. destruct inv; simpl.
  - (* c / (c' * pw) *)
    unfold Qdiv. rewrite Qinv_mult_distr. destruct inv'; simpl.
    + rewrite Qinv_involutive. ring.
    + ring.
  - ring.
Qed.

Lemma nth_apply_subst : forall s p i d, nth i (apply_subst s p) (subst_mono s d) = subst_mono s (nth i p d).
Proof. intros. unfold apply_subst. apply map_nth. Qed.

Lemma fold_chain_sound : forall chain p rho i d,
  (i < length p)%nat ->
  eval_mono rho (nth i (fold_left (fun p s => apply_subst s p) chain p) d)
  == eval_mono (den_chain chain rho) (nth i p d).
Proof.
  induction chain as [|s r IH]; intros p rho i d Hi; simpl.
  - reflexivity.
  - rewrite IH by (unfold apply_subst; rewrite map_length; exact Hi).
    rewrite (nth_indep _ d (subst_mono s d)) by (unfold apply_subst; rewrite map_length; exact Hi).
    rewrite nth_apply_subst. apply subst_mono_sound.
Qed.

Lemma ident_length : forall n, length (ident n) = n.
Proof. intros. unfold ident. now rewrite map_length, seq_length. Qed.

Lemma nth_ident : forall n i d, (i < n)%nat -> nth i (ident n) d = idm i.
Proof.
  intros n i d Hi. unfold ident.
  rewrite (nth_indep _ d (idm 0)) by (rewrite map_length, seq_length; exact Hi).
  rewrite map_nth. now rewrite seq_nth.
Qed.

Lemma compose_length : forall chain n, length (compose_chain n chain) = n.
Proof.
  intros chain n. unfold compose_chain.
  assert (H : forall p, length (fold_left (fun p s => apply_subst s p) chain p) = length p).
  { induction chain as [|s r IH]; intros p; simpl; [reflexivity|]. rewrite IH. unfold apply_subst. now rewrite map_length. }
  rewrite H. apply ident_length.
Qed.

(* compose_matches_code: the i-th component of the vector the code builds by folding
   p.subs(s_1), ..., p.subs(s_n) over the identity denotes  (s_1 o s_2 o ... o s_n)(theta)_i :
   the LAST recorded dictionary acts on theta first. *)
Theorem compose_matches_code : forall n chain rho i d,
  (i < n)%nat ->
  eval_mono rho (nth i (compose_chain n chain) d) == den_chain chain rho i.
Proof.
  intros n chain rho i d Hi. unfold compose_chain.
  rewrite fold_chain_sound by (rewrite ident_length; exact Hi).
  rewrite nth_ident by exact Hi. unfold eval_mono, idm. simpl. ring.
Qed.

(* ================================================================== finite sums *)
Definition qsum (l : list Q) : Q := fold_right Qplus 0 l.

Lemma xsum_fin : forall (g : nat -> Q) l, xsum (map (fun a => Fin (g a)) l) = Fin (qsum (map g l)).
Proof. unfold xsum. induction l as [|a l IH]; simpl; [reflexivity|]. rewrite IH. reflexivity. Qed.

Lemma qsum_zero : forall (g : nat -> Q) l, (forall a, In a l -> g a == 0) -> qsum (map g l) == 0.
Proof.
  induction l as [|a l IH]; intros H; simpl; [reflexivity|].
  rewrite IH by (intros; apply H; now right). rewrite (H a) by now left. ring.
Qed.

(* a sum with a single non-zero term *)
Lemma qsum_single : forall (g : nat -> Q) l j, NoDup l -> In j l ->
  (forall a, In a l -> a <> j -> g a == 0) -> qsum (map g l) == g j.
Proof.
  induction l as [|a l IH]; intros j ND Hj H0; [inversion Hj|]. simpl.
  inversion ND as [|? ? Hna ND']; subst. destruct Hj as [->|Hj].
  - rewrite qsum_zero; [ring|]. intros b Hb. apply H0; [now right|]. intros ->. contradiction.
  - rewrite (IH j ND' Hj) by (intros; apply H0; [now right|assumption]).
    assert (Haj : a <> j) by (intros ->; contradiction).
    rewrite (H0 a (or_introl eq_refl) Haj). ring.
Qed.

Lemma qsum_ext : forall (g h : nat -> Q) l, (forall a, In a l -> g a == h a) -> qsum (map g l) == qsum (map h l).
Proof.
  induction l as [|a l IH]; intros H; simpl; [reflexivity|].
  rewrite IH by (intros; apply H; now right). rewrite (H a) by now left. reflexivity.
Qed.

(* ================================================================== the matrix *)
Definition xeq (a b : xq) : Prop :=
  match a, b with
  | Fin x, Fin y => x == y
  | PInf, PInf | NInf, NInf | NaN, NaN => True
  | _, _ => False
  end.

Lemma xeq_refl : forall a, xeq a a.
Proof. destruct a; simpl; auto. reflexivity. Qed.

(* the unpacked matrix is symmetric: np.where(fish, fish, fish.T) mirrors the upper triangle *)
Lemma fmat_upper : forall n flat i j, (i <= j)%nat -> xeq (fmat n flat i j) (nth (tri n i j) flat NaN).
Proof.
  intros n flat i j Hij. unfold fmat, raw.
  assert (E : (i <=? j)%nat = true) by now apply Nat.leb_le. rewrite E.
  destruct (truthy (nth (tri n i j) flat NaN)) eqn:T; [apply xeq_refl|].
  destruct (nth (tri n i j) flat NaN) as [q| | |] eqn:Eq; simpl in T; try discriminate.
  apply negb_false_iff, Qeq_bool_iff in T.
  destruct (j <=? i)%nat eqn:E2.
  - apply Nat.leb_le in E2. assert (i = j) by lia. subst j. rewrite Eq. simpl. reflexivity.
  - simpl. symmetry. exact T.
Qed.

Lemma fmat_lower : forall n flat i j, (j < i)%nat -> fmat n flat i j = nth (tri n j i) flat NaN.
Proof.
  intros n flat i j Hij. unfold fmat, raw.
  assert (E : (i <=? j)%nat = false) by (apply Nat.leb_gt; lia). rewrite E.
  assert (E2 : (j <=? i)%nat = true) by (apply Nat.leb_le; lia). rewrite E2.
  simpl. reflexivity.
Qed.

Theorem fmat_symmetric : forall n flat i j, xeq (fmat n flat i j) (fmat n flat j i).
Proof.
  intros n flat i j. destruct (Nat.lt_trichotomy i j) as [H|[H|H]].
  - rewrite (fmat_lower n flat j i H). apply fmat_upper. lia.
  - subst. apply xeq_refl.
  - rewrite (fmat_lower n flat i j H).
    assert (X := fmat_upper n flat j i ltac:(lia)).
    destruct (fmat n flat j i), (nth (tri n j i) flat NaN); simpl in *; auto. symmetry. exact X.
Qed.

Lemma NoDup_map_inj_in : forall {A B} (f : A -> B) l,
  (forall x y, In x l -> In y l -> f x = f y -> x = y) -> NoDup l -> NoDup (map f l).
Proof.
  intros A B f. induction l as [|a l IH]; intros Hinj ND; simpl; [constructor|].
  inversion ND as [|? ? Hn ND']; subst. constructor.
  - intros Hin. apply in_map_iff in Hin. destruct Hin as [y [E Hy]].
    assert (y = a) by (apply Hinj; [now right|now left|exact E]). subst. contradiction.
  - apply IH; [|exact ND']. intros x y Hx Hy. apply Hinj; now right.
Qed.

(* ================================================================== generalised permutations *)
Section GPerm.
Variable k : nat.
Variable p : list mono.
Variable rho : env.
Hypothesis Hlen : length p = k.

Definition pi (i : nat) : nat := m_j (nth i p (idm i)).
Definition dd (i : nat) : Q := deriv_mono rho (nth i p (idm i)).

Lemma jinv_unfold : forall a i, jinv rho p a i = if Nat.eqb a (pi i) then / dd i else 0.
Proof. reflexivity. Qed.
Lemma jmat_unfold : forall i a, jmat rho p i a = if Nat.eqb a (pi i) then dd i else 0.
Proof. reflexivity. Qed.

Hypothesis Hrange : forall i, (i < k)%nat -> (pi i < k)%nat.

Lemma seq_NoDup' : forall n, NoDup (seq 0 n).
Proof. intros. apply seq_NoDup. Qed.

(* transfer_fisher, rational core: with the analytic inverse Jacobian, only the (pi i, pi i)
   entry of F survives in  diag(Jinv^T F Jinv)_i *)
Lemma transfer_sum : forall (f : nat -> nat -> Q) i, (i < k)%nat ->
  qsum (map (fun a => jinv rho p a i * qsum (map (fun b => f a b * jinv rho p b i) (seq 0 k))) (seq 0 k))
  == f (pi i) (pi i) * / dd i * / dd i.
Proof.
  intros f i Hi.
  assert (Hp : In (pi i) (seq 0 k)) by (apply in_seq; specialize (Hrange i Hi); lia).
  rewrite (qsum_single _ (seq 0 k) (pi i) (seq_NoDup' k) Hp).
  - rewrite (qsum_single _ (seq 0 k) (pi i) (seq_NoDup' k) Hp).
    + rewrite !jinv_unfold, Nat.eqb_refl. ring.
    + intros b _ Hb. rewrite jinv_unfold. apply Nat.eqb_neq in Hb. rewrite Hb. ring.
  - intros a _ Ha. rewrite jinv_unfold. apply Nat.eqb_neq in Ha. rewrite Ha. ring.
Qed.

(* the same through the code's float arithmetic when the k x k block of F is finite *)
Theorem fnew_closed_form : forall n flat (f : nat -> nat -> Q) i,
  (forall a b, (a < k)%nat -> (b < k)%nat -> fmat n flat a b = Fin (f a b)) ->
  (i < k)%nat ->
  xeq (fnew n k flat rho p i) (Fin (f (pi i) (pi i) / (dd i * dd i))).
Proof.
  intros n flat f i Hf Hi. unfold fnew.
  assert (E1 : forall a, In a (seq 0 k) ->
            xsum (map (fun b => xmul (fmat n flat a b) (Fin (jinv rho p b i))) (seq 0 k))
            = Fin (qsum (map (fun b => f a b * jinv rho p b i) (seq 0 k)))).
  { intros a Ha. apply in_seq in Ha. rewrite <- xsum_fin. f_equal. apply map_ext_in.
    intros b Hb. apply in_seq in Hb. rewrite Hf by lia. reflexivity. }
  rewrite (map_ext_in _ (fun a => Fin (jinv rho p a i * qsum (map (fun b => f a b * jinv rho p b i) (seq 0 k))))).
  2:{ intros a Ha. rewrite E1 by exact Ha. reflexivity. }
  rewrite xsum_fin. simpl. rewrite (transfer_sum f i Hi). unfold Qdiv. rewrite Qinv_mult_distr. ring.
Qed.

(* ---- the analytic inverse is the inverse *)
Hypothesis Hinj : forall i i', (i < k)%nat -> (i' < k)%nat -> pi i = pi i' -> i = i'.
Hypothesis Hd : forall i, (i < k)%nat -> ~ dd i == 0.

(* J * Jinv = I *)
Theorem jinv_right_inverse : forall i i', (i < k)%nat -> (i' < k)%nat ->
  qsum (map (fun a => jmat rho p i a * jinv rho p a i') (seq 0 k)) == if Nat.eqb i i' then 1 else 0.
Proof.
  intros i i' Hi Hi'.
  assert (Hp : In (pi i) (seq 0 k)) by (apply in_seq; specialize (Hrange i Hi); lia).
  rewrite (qsum_single _ (seq 0 k) (pi i) (seq_NoDup' k) Hp).
  - rewrite jmat_unfold, jinv_unfold, Nat.eqb_refl.
    destruct (Nat.eqb i i') eqn:E.
    + apply Nat.eqb_eq in E. subst i'. rewrite Nat.eqb_refl. apply Qmult_inv_r. now apply Hd.
    + destruct (Nat.eqb (pi i) (pi i')) eqn:E2; [|ring].
      apply Nat.eqb_eq in E2. apply Hinj in E2; try assumption. apply Nat.eqb_neq in E. contradiction.
  - intros a _ Ha. rewrite jmat_unfold. apply Nat.eqb_neq in Ha. rewrite Ha. ring.
Qed.

(* every column is hit: an injective map of {0..k-1} into itself is onto *)
Lemma pi_onto : forall a, (a < k)%nat -> exists i, (i < k)%nat /\ pi i = a.
Proof.
  intros a Ha.
  assert (ND : NoDup (map pi (seq 0 k))).
  { apply NoDup_map_inj_in; [|apply seq_NoDup].
    intros x y Hx Hy E. apply in_seq in Hx. apply in_seq in Hy. apply Hinj; (lia || assumption). }
  assert (Hincl : incl (map pi (seq 0 k)) (seq 0 k)).
  { intros x Hx. apply in_map_iff in Hx. destruct Hx as [i [<- Hi]]. apply in_seq in Hi. apply in_seq.
    specialize (Hrange i ltac:(lia)). lia. }
  assert (Hin : In a (map pi (seq 0 k))).
  { apply (@NoDup_length_incl _ (map pi (seq 0 k)) (seq 0 k) ND); [rewrite map_length; apply le_n|exact Hincl|apply in_seq; lia]. }
  apply in_map_iff in Hin. destruct Hin as [i [E Hi]]. apply in_seq in Hi. exists i. split; [lia|exact E].
Qed.

(* Jinv * J = I *)
Theorem jinv_left_inverse : forall a a', (a < k)%nat -> (a' < k)%nat ->
  qsum (map (fun i => jinv rho p a i * jmat rho p i a') (seq 0 k)) == if Nat.eqb a a' then 1 else 0.
Proof.
  intros a a' Ha Ha'. destruct (pi_onto a Ha) as [i0 [Hi0 E0]].
  assert (Hp : In i0 (seq 0 k)) by (apply in_seq; lia).
  rewrite (qsum_single _ (seq 0 k) i0 (seq_NoDup' k) Hp).
  - rewrite jmat_unfold, jinv_unfold, E0, Nat.eqb_refl.
    destruct (Nat.eqb a a') eqn:E.
    + apply Nat.eqb_eq in E. subst a'. rewrite Nat.eqb_refl. rewrite Qmult_comm. apply Qmult_inv_r. now apply Hd.
    + rewrite Nat.eqb_sym, E. ring.
  - intros i Hi Hne. apply in_seq in Hi. rewrite jinv_unfold.
    destruct (Nat.eqb a (pi i)) eqn:E; [|ring].
    apply Nat.eqb_eq in E. exfalso. apply Hne. apply Hinj; lia.
Qed.

End GPerm.

(* ================================================================== the exact invariant *)
(* p'_i^2 * F'_ii = theta_j^2 * F_jj   for p'_i = c theta_j^(+-1), F'_ii = F_jj / (dp'_i/dtheta_j)^2 *)
Theorem transfer_invariant : forall rho m F,
  ~ m_c m == 0 -> (m_inv m = true -> ~ rho (m_j m) == 0) ->
  let p' := eval_mono rho m in
  let d := deriv_mono rho m in
  p' * p' * (F / (d * d)) == rho (m_j m) * rho (m_j m) * F.
Proof.
  intros rho [c j inv] F Hc Ht. simpl in *. unfold eval_mono, deriv_mono. simpl.
  destruct inv; simpl.
  - specialize (Ht eq_refl). field. auto.
  - field. exact Hc.
Qed.

Lemma deriv_nonzero : forall rho m, ~ m_c m == 0 -> (m_inv m = true -> ~ rho (m_j m) == 0) -> ~ deriv_mono rho m == 0.
Proof.
  intros rho [c j inv] Hc Ht. simpl in *. unfold deriv_mono. simpl. destruct inv; [|exact Hc].
  specialize (Ht eq_refl). intros H.
  assert (E : c == - (- c / (rho j * rho j)) * (rho j * rho j)) by (field; exact Ht).
  rewrite H in E. apply Hc. rewrite E. ring.
Qed.

Lemma Qsq_pos : forall d : Q, ~ d == 0 -> 0 < d * d.
Proof.
  intros d H. destruct (Q_dec d 0) as [[L|G]|E]; [nra|nra|contradiction].
Qed.

Lemma deriv_sq_pos : forall rho m, ~ m_c m == 0 -> (m_inv m = true -> ~ rho (m_j m) == 0) ->
  0 < deriv_mono rho m * deriv_mono rho m.
Proof. intros rho m Hc Ht. apply Qsq_pos. now apply deriv_nonzero. Qed.

(* ================================================================== what convert returns *)
Lemma forallb_nth : forall {A} (f : A -> bool) l i d, forallb f l = true -> (i < length l)%nat -> f (nth i l d) = true.
Proof. intros A f l i d H Hi. rewrite forallb_forall in H. apply H. now apply nth_In. Qed.

Lemma nodupb_NoDup : forall l, nodupb l = true <-> NoDup l.
Proof.
  induction l as [|x r IH]; simpl.
  - split; [constructor|reflexivity].
  - rewrite andb_true_iff, IH, negb_true_iff. split.
    + intros [H ND]. constructor; [|exact ND]. intros Hin.
      assert (E : existsb (Nat.eqb x) r = true) by (apply existsb_exists; exists x; split; [exact Hin|apply Nat.eqb_refl]).
      congruence.
    + intros ND. inversion ND as [|? ? Hn ND']; subst. split; [|exact ND'].
      destruct (existsb (Nat.eqb x) r) eqn:E; [|reflexivity].
      apply existsb_exists in E. destruct E as [y [Hy E]]. apply Nat.eqb_eq in E. subst y. contradiction.
Qed.

Theorem convert_ok_iff : forall k n th flat chain p fish,
  convert k n th flat chain = ConvOK p fish <->
  (let pv := compose_chain k chain in
   gperm k pv = true /\ regular th pv = true /\
   p = eval_vec th pv /\ fish = map (fnew n k flat (env_of th) pv) (seq 0 k)).
Proof.
  intros. unfold convert, gperm. cbv zeta.
  destruct (in_range k (compose_chain k chain)); simpl; [|split; [discriminate|intros [H _]; discriminate]].
  destruct (coeffs_nonzero (compose_chain k chain)); simpl; [|split; [discriminate|intros [H _]; discriminate]].
  destruct (regular th (compose_chain k chain)); simpl.
  2:{ split; [discriminate|intros [_ [H _]]; discriminate]. }
  destruct (nodupb (map m_j (compose_chain k chain))); simpl.
  - split.
    + intros H. inversion H. auto.
    + intros [_ [_ [-> ->]]]. reflexivity.
  - split; [discriminate|intros [H _]; discriminate].
Qed.

Theorem convert_cases : forall k n th flat chain,
  let pv := compose_chain k chain in
  convert k n th flat chain =
    if negb (in_range k pv && coeffs_nonzero pv) then ConvRaise
    else if negb (regular th pv) then ConvIrregular
    else if negb (nodupb (map m_j pv)) then ConvRaise
    else ConvOK (eval_vec th pv) (map (fnew n k flat (env_of th) pv) (seq 0 k)).
Proof.
  intros. unfold convert. fold pv.
  destruct (in_range k pv); simpl; [|reflexivity]. destruct (coeffs_nonzero pv); reflexivity.
Qed.
