(* Proofs about Model/Timeouts.v (C15). *)
From Coq Require Import List Bool Arith Lia.
From ESRV Require Import Model.Timeouts.
Import ListNotations.

(* ------------------------------------------------------------------ generic list facts *)

Lemma set_nth_length : forall A n (x : A) l, length (set_nth n x l) = length l.
Proof. induction n; destruct l; simpl; auto. Qed.

Lemma nth_error_set_nth_eq : forall A n (x : A) l, n < length l -> nth_error (set_nth n x l) n = Some x.
Proof. induction n; destruct l; simpl; intros; try lia; auto. apply IHn. lia. Qed.

Lemma nth_error_set_nth_neq : forall A n m (x : A) l, n <> m -> nth_error (set_nth n x l) m = nth_error l m.
Proof.
  induction n; destruct l; simpl; intros; auto.
  - destruct m; [lia | reflexivity].
  - destruct m; simpl; auto.
Qed.

Lemma set_nth_out : forall A n (x : A) l, length l <= n -> set_nth n x l = l.
Proof. induction n; destruct l; simpl; intros; auto; try lia. f_equal. apply IHn. lia. Qed.

Lemma vals_of_app : forall f a b, vals_of f (a ++ b) = vals_of f a ++ vals_of f b.
Proof. intros. unfold vals_of. rewrite filter_app, map_app. reflexivity. Qed.

(* ------------------------------------------------------------------ one block *)

Lemma exec_evs_app : forall a b l,
  exec_evs (a ++ b) l = match exec_evs a l with Some l' => exec_evs b l' | None => None end.
Proof.
  induction a; simpl; intros; auto.
  destruct (exec_ev a l); auto.
Qed.

(* what a sequence of effects does to the lists, whatever the values *)
Lemma exec_ev_lists : forall e l l', exec_ev e l = Some l' ->
  subs_list (l_subs l') = subs_list (l_subs l) ++ vals_of is_sub [e] /\
  l_ci l' = l_ci l ++ vals_of is_ci [e] /\ l_ri l' = l_ri l ++ vals_of is_ri [e] /\
  l_ns l' = l_ns l ++ vals_of is_ns [e] /\ l_xi l' = l_xi l ++ vals_of is_xi [e] /\
  l_xv l' = l_xv l ++ vals_of is_xv [e].
Proof.
  intros [f v] l l' H. unfold exec_ev in H.
  destruct f; try destruct v0; try (destruct (l_f1 l)); try (destruct (l_expr l));
    inversion H; subst; cbn; rewrite ?app_nil_r; auto 10.
Qed.

Lemma exec_evs_lists : forall es l l', exec_evs es l = Some l' ->
  subs_list (l_subs l') = subs_list (l_subs l) ++ vals_of is_sub es /\
  l_ci l' = l_ci l ++ vals_of is_ci es /\ l_ri l' = l_ri l ++ vals_of is_ri es /\
  l_ns l' = l_ns l ++ vals_of is_ns es /\ l_xi l' = l_xi l ++ vals_of is_xi es /\
  l_xv l' = l_xv l ++ vals_of is_xv es.
Proof.
  induction es as [|e es IH]; simpl; intros l l' H.
  - inversion H; subst. cbn. rewrite !app_nil_r. auto 10.
  - destruct (exec_ev e l) as [l1|] eqn:E1; [|discriminate].
    destruct (exec_ev_lists _ _ _ E1) as (A1 & A2 & A3 & A4 & A5 & A6).
    destruct (IH _ _ H) as (B1 & B2 & B3 & B4 & B5 & B6).
    change (e :: es) with ([e] ++ es). rewrite !vals_of_app.
    rewrite B1, B2, B3, B4, B5, B6, A1, A2, A3, A4, A5, A6, <- !app_assoc. auto 10.
Qed.

Lemma exec_evs_subs_none : forall es l l', exec_evs es l = Some l' ->
  vals_of is_sub es = [] -> l_subs l' = l_subs l.
Proof.
  induction es as [|e es IH]; simpl; intros l l' H V.
  - inversion H; auto.
  - destruct (exec_ev e l) as [l1|] eqn:E1; [|discriminate].
    change (e :: es) with ([e] ++ es) in V. rewrite vals_of_app in V.
    apply app_eq_nil in V. destruct V as [V1 V2].
    rewrite (IH _ _ H V2).
    destruct e as [f v]. unfold exec_ev in E1.
    destruct f; try destruct v0; try (destruct (l_f1 l)); try (destruct (l_expr l));
      inversion E1; subst; cbn in *; auto; discriminate.
Qed.

(* THE BLOCK-LEVEL CHARACTERISATION.  A block of sympy_simplify that is cut anywhere ends, after its handler,
   in (str0, sym0, subs0 ++ stale): the string and the sympy object are the ones at block entry, and
   every substitution the executed part appended is still in inv_subs_fun[i]. *)
Definition restoring (k : kind) : Prop := handler_of k = HRestore \/ handler_of k = HRestoreTrunc3.

Lemma cut_block_state : forall k b l l',
  restoring k -> is_cut b = true ->
  run_block k b l = Some l' ->
  l_str l' = l_str l /\ l_sym l' = l_sym l /\
  subs_list (l_subs l') = subs_list (l_subs l) ++ appended b.
Proof.
  intros k b l l' Hh Hc H. unfold run_block in H. rewrite Hc in H.
  destruct (exec_evs (executed b) l) as [l1|] eqn:E; [|discriminate].
  destruct (exec_evs_lists _ _ _ E) as (A1 & _).
  inversion H; subst. unfold appended.
  destruct Hh as [Hh|Hh]; rewrite Hh; cbn; auto.
Qed.

(* in particular: the state is clean exactly when nothing was appended before the interrupt *)
Lemma cut_block_clean_iff : forall k b l l',
  restoring k -> is_cut b = true -> run_block k b l = Some l' ->
  (subs_list (l_subs l') = subs_list (l_subs l) <-> appended b = []).
Proof.
  intros k b l l' Hh Hc H.
  destruct (cut_block_state _ _ _ _ Hh Hc H) as (_ & _ & S).
  rewrite S. split; intro A.
  - rewrite <- (app_nil_r (subs_list (l_subs l))) in A at 2. apply app_inv_head in A. exact A.
  - rewrite A, app_nil_r. reflexivity.
Qed.

Lemma uncut_block_state : forall k b l, is_cut b = false -> run_block k b l = exec_evs (executed b) l.
Proof. intros. unfold run_block. rewrite H. destruct (exec_evs (executed b) l); reflexivity. Qed.

(* the only exception that can escape a block is the read of an unbound local *)
Lemma exec_evs_guarded : forall es l,
  exec_evs es l = None <-> fst (fst (guarded_evs es (l_f1 l) (l_expr l))) = false.
Proof.
  induction es as [|[f v] es IH]; intros l.
  - simpl. split; discriminate.
  - destruct f; try destruct v0; simpl;
      try (rewrite IH; simpl; reflexivity);
      try (destruct (l_f1 l) eqn:F; simpl; [rewrite IH; rewrite ?F; reflexivity | split; auto]);
      try (destruct (l_expr l) eqn:F; simpl; [rewrite IH; rewrite ?F; reflexivity | split; auto]).
Qed.

Lemma exec_evs_flags : forall es l l', exec_evs es l = Some l' ->
  l_f1 l' = snd (fst (guarded_evs es (l_f1 l) (l_expr l))) /\ l_expr l' = snd (guarded_evs es (l_f1 l) (l_expr l)).
Proof.
  induction es as [|[f v] es IH]; intros l l' H.
  - inversion H; subst. simpl. auto.
  - simpl in H.
    destruct f; try destruct v0; simpl in *;
      try (apply IH in H; simpl in H; exact H);
      try (destruct (l_f1 l) eqn:F; [apply IH in H; rewrite F in H; exact H | discriminate]);
      try (destruct (l_expr l) eqn:F; [apply IH in H; rewrite F in H; exact H | discriminate]).
Qed.

Lemma run_block_none_iff : forall k b l,
  run_block k b l = None <-> fst (fst (guarded_evs (executed b) (l_f1 l) (l_expr l))) = false.
Proof.
  intros. rewrite <- exec_evs_guarded. unfold run_block.
  destruct (exec_evs (executed b) l); split; intro; try discriminate; auto.
Qed.

(* ------------------------------------------------------------------ reads of unbound locals *)

Lemma guarded_evs_app : forall a b f1 fx,
  guarded_evs (a ++ b) f1 fx =
  (if fst (fst (guarded_evs a f1 fx))
   then guarded_evs b (snd (fst (guarded_evs a f1 fx))) (snd (guarded_evs a f1 fx))
   else guarded_evs a f1 fx).
Proof.
  induction a as [|[f v] a IH]; intros; simpl; auto.
  destruct f; try destruct v0; simpl; auto.
  - destruct f1; simpl; auto.
  - destruct fx; simpl; auto.
Qed.

Lemma guarded_prefix : forall a b f1 fx,
  fst (fst (guarded_evs (a ++ b) f1 fx)) = true -> fst (fst (guarded_evs a f1 fx)) = true.
Proof.
  intros a b f1 fx H. rewrite guarded_evs_app in H.
  destruct (fst (fst (guarded_evs a f1 fx))) eqn:E; auto. congruence.
Qed.

Lemma guarded_mono : forall es f1 fx g1 gx,
  (f1 = true -> g1 = true) -> (fx = true -> gx = true) ->
  fst (fst (guarded_evs es f1 fx)) = true -> fst (fst (guarded_evs es g1 gx)) = true.
Proof.
  induction es as [|[f v] es IH]; intros f1 fx g1 gx H1 Hx H; simpl in *; auto.
  destruct f; try destruct v0; simpl in *; eauto.
  - destruct f1; simpl in H; [|discriminate]. rewrite (H1 eq_refl). eauto.
  - destruct fx; simpl in H; [|discriminate]. rewrite (Hx eq_refl). eauto.
Qed.

Lemma concat_firstn_skipn : forall A (t : list (list A)) p, concat t = concat (firstn p t) ++ concat (skipn p t).
Proof. intros. rewrite <- concat_app, firstn_skipn. reflexivity. Qed.

Lemma executed_prefix : forall b, exists rest, concat (fst b) = executed b ++ rest.
Proof.
  intros [t [p|]]; unfold executed; simpl.
  - exists (concat (skipn p t)). apply concat_firstn_skipn.
  - exists []. rewrite app_nil_r. reflexivity.
Qed.

(* whatever the cut and whatever was bound before, a block whose trace binds before it reads cannot fail *)
Lemma self_guarded_runs : forall k b l, self_guarded (fst b) = true -> run_block k b l <> None.
Proof.
  intros k b l H N. apply run_block_none_iff in N.
  destruct (executed_prefix b) as [rest E]. unfold self_guarded in H. rewrite E in H.
  apply guarded_prefix in H.
  apply (guarded_mono _ false false (l_f1 l) (l_expr l)) in H; try discriminate. congruence.
Qed.

(* ------------------------------------------------------------------ the paired lists *)

Definition leq3 (l : loc) : Prop := length (l_ci l) = length (l_ri l) /\ length (l_ri l) = length (l_ns l).

Lemma vals_of_length_app : forall f a b, length (vals_of f (a ++ b)) = length (vals_of f a) + length (vals_of f b).
Proof. intros. rewrite vals_of_app, app_length. reflexivity. Qed.

Lemma firstn_min_length : forall A (l : list A) m, m <= length l -> length (firstn m l) = m.
Proof. intros. rewrite firstn_length. lia. Qed.

Lemma conforms_no_list_effects : forall k t, conforms k t = true ->
  (k = KA \/ k = KB \/ k = KE) ->
  forall es rest, concat t = es ++ rest ->
  vals_of is_ci es = [] /\ vals_of is_ri es = [] /\ vals_of is_ns es = [].
Proof.
  intros k t C Hk es rest E. unfold conforms in C. rewrite E, forallb_app in C.
  apply andb_prop in C. destruct C as [C _]. clear E.
  induction es as [|[f v] es IH]; simpl in *; auto.
  apply andb_prop in C. destruct C as [C1 C2].
  destruct (IH C2) as (A & B & D).
  unfold vals_of in *. simpl.
  destruct Hk as [Hk|[Hk|Hk]]; subst k; destruct f; try destruct v0; simpl in *; try discriminate; auto.
Qed.

Lemma forall_lt_app : forall n a b, Forall (fun x => x < n) a -> Forall (fun x => x < n) b -> Forall (fun x => x < n) (a ++ b).
Proof. intros. apply Forall_app. auto. Qed.

Lemma in_range_vals : forall n es, forallb (fun e : ev => match fst e with ECi | ERi => snd e <? n | _ => true end) es = true ->
  Forall (fun x => x < n) (vals_of is_ci es) /\ Forall (fun x => x < n) (vals_of is_ri es).
Proof.
  induction es as [|[f v] es IH]; simpl; intros H.
  - split; constructor.
  - apply andb_prop in H. destruct H as [H1 H2]. destruct (IH H2) as [A B].
    unfold vals_of in *. destruct f; simpl in *; auto.
    + split; auto. constructor; auto. apply Nat.ltb_lt. exact H1.
    + split; auto. constructor; auto. apply Nat.ltb_lt. exact H1.
Qed.

Lemma Forall_firstn : forall A (P : A -> Prop) m l, Forall P l -> Forall P (firstn m l).
Proof.
  induction m; destruct l; simpl; intros; auto. inversion H; subst. constructor; auto.
Qed.

Definition lists_ok (n : nat) (l : loc) : Prop :=
  leq3 l /\ Forall (fun x => x < n) (l_ci l) /\ Forall (fun x => x < n) (l_ri l).

(* one block of sympy_simplify keeps the three lists aligned and in range, WHATEVER the cut *)
Lemma run_block_lists_ok : forall k n t c l l',
  simplify_kind k = true -> blk_ok k n t = true ->
  lists_ok n l -> run_block k (t, c) l = Some l' -> lists_ok n l'.
Proof.
  intros k n t c l l' Hk Hok [[L1 L2] [R1 R2]] H.
  unfold blk_ok in Hok. apply andb_prop in Hok. destruct Hok as [Hok Hr].
  apply andb_prop in Hok. destruct Hok as [Hok Hg]. apply andb_prop in Hok. destruct Hok as [Hc Ha].
  unfold run_block in H.
  destruct (exec_evs (executed (t, c)) l) as [l1|] eqn:E; [|discriminate].
  destruct (exec_evs_lists _ _ _ E) as (_ & A2 & A3 & A4 & _).
  destruct (executed_prefix (t, c)) as [rest P]. simpl in P.
  assert (RG : Forall (fun x => x < n) (vals_of is_ci (executed (t, c))) /\
               Forall (fun x => x < n) (vals_of is_ri (executed (t, c)))).
  { unfold in_range in Hr. rewrite P, forallb_app in Hr. apply andb_prop in Hr. destruct Hr as [Hr _].
    apply in_range_vals. exact Hr. }
  destruct RG as [RG1 RG2].
  assert (OK1 : Forall (fun x => x < n) (l_ci l1)) by (rewrite A2; apply forall_lt_app; auto).
  assert (OK2 : Forall (fun x => x < n) (l_ri l1)) by (rewrite A3; apply forall_lt_app; auto).
  destruct c as [p|]; simpl in H; inversion H; subst; clear H.
  - (* cut *)
    destruct k; simpl in Hk; try discriminate; cbn.
    + (* KA *) destruct (conforms_no_list_effects _ _ Hc (or_introl eq_refl) _ _ P) as (Z1 & Z2 & Z3).
      unfold lists_ok, leq3; cbn. rewrite A2, A3, A4, Z1, Z2, Z3, !app_nil_r. auto.
    + (* KB *) destruct (conforms_no_list_effects _ _ Hc (or_intror (or_introl eq_refl)) _ _ P) as (Z1 & Z2 & Z3).
      unfold lists_ok, leq3; cbn. rewrite A2, A3, A4, Z1, Z2, Z3, !app_nil_r. auto.
    + (* KC *) unfold lists_ok, leq3; cbn.
      rewrite !firstn_min_length by lia. repeat split; auto using Forall_firstn.
    + (* KD *) unfold lists_ok, leq3; cbn.
      rewrite !firstn_min_length by lia. repeat split; auto using Forall_firstn.
    + (* KE *) destruct (conforms_no_list_effects _ _ Hc (or_intror (or_intror eq_refl)) _ _ P) as (Z1 & Z2 & Z3).
      unfold lists_ok, leq3; cbn. rewrite A2, A3, A4, Z1, Z2, Z3, !app_nil_r. auto.
  - (* ran to its end: whole groups *)
    unfold executed in *. simpl in *.
    unfold aligned in Ha. apply andb_prop in Ha. destruct Ha as [Ha _]. apply andb_prop in Ha. destruct Ha as [Ha1 Ha2].
    apply Nat.eqb_eq in Ha1. apply Nat.eqb_eq in Ha2.
    unfold lists_ok, leq3. repeat split; auto.
    + rewrite A2, A3, !app_length. lia.
    + rewrite A3, A4, !app_length. unfold sub, val in *. lia.
Qed.
