(* Proofs about Model/Timeouts.v (C15). *)
From Coq Require Import List Bool Arith Lia.
From ESRV Require Import Model.Timeouts.
Import ListNotations.

(* ------------------------------------------------------------------ generic list facts *)

Lemma set_nth_length : forall A n (x : A) l, length (set_nth n x l) = length l.
Proof. induction n; destruct l; simpl; auto. Qed.

Lemma nth_error_set_nth_eq : forall A n (x : A) l, n < length l -> nth_error (set_nth n x l) n = Some x.
Proof. induction n; destruct l; simpl; intros; try lia; auto. apply IHn. lia. Qed.

Lemma nth_error_set_nth_neq : forall A n m (x : A) l, n <> m -> nth_error (set_nth n x l) m = nth_error l m.
Proof.
  induction n; destruct l; simpl; intros; auto.
  - destruct m; [lia | reflexivity].
  - destruct m; simpl; auto.
Qed.

Lemma set_nth_out : forall A n (x : A) l, length l <= n -> set_nth n x l = l.
Proof. induction n; destruct l; simpl; intros; auto; try lia. f_equal. apply IHn. lia. Qed.

Lemma vals_of_app : forall f a b, vals_of f (a ++ b) = vals_of f a ++ vals_of f b.
Proof. intros. unfold vals_of. rewrite filter_app, map_app. reflexivity. Qed.

(* ------------------------------------------------------------------ one block *)

Lemma exec_evs_app : forall a b l,
  exec_evs (a ++ b) l = match exec_evs a l with Some l' => exec_evs b l' | None => None end.
Proof.
  induction a; simpl; intros; auto.
  destruct (exec_ev a l); auto.
Qed.

(* what a sequence of effects does to the lists, whatever the values *)
Lemma exec_ev_lists : forall e l l', exec_ev e l = Some l' ->
  subs_list (l_subs l') = subs_list (l_subs l) ++ vals_of is_sub [e] /\
  l_ci l' = l_ci l ++ vals_of is_ci [e] /\ l_ri l' = l_ri l ++ vals_of is_ri [e] /\
  l_ns l' = l_ns l ++ vals_of is_ns [e] /\ l_xi l' = l_xi l ++ vals_of is_xi [e] /\
  l_xv l' = l_xv l ++ vals_of is_xv [e].
Proof.
  intros [f v] l l' H. unfold exec_ev in H.
  destruct f; try destruct v0; try (destruct (l_f1 l)); try (destruct (l_expr l));
    inversion H; subst; cbn; rewrite ?app_nil_r; auto 10.
Qed.

Lemma exec_evs_lists : forall es l l', exec_evs es l = Some l' ->
  subs_list (l_subs l') = subs_list (l_subs l) ++ vals_of is_sub es /\
  l_ci l' = l_ci l ++ vals_of is_ci es /\ l_ri l' = l_ri l ++ vals_of is_ri es /\
  l_ns l' = l_ns l ++ vals_of is_ns es /\ l_xi l' = l_xi l ++ vals_of is_xi es /\
  l_xv l' = l_xv l ++ vals_of is_xv es.
Proof.
  induction es as [|e es IH]; simpl; intros l l' H.
  - inversion H; subst. cbn. rewrite !app_nil_r. auto 10.
  - destruct (exec_ev e l) as [l1|] eqn:E1; [|discriminate].
    destruct (exec_ev_lists _ _ _ E1) as (A1 & A2 & A3 & A4 & A5 & A6).
    destruct (IH _ _ H) as (B1 & B2 & B3 & B4 & B5 & B6).
    change (e :: es) with ([e] ++ es). rewrite !vals_of_app.
    rewrite B1, B2, B3, B4, B5, B6, A1, A2, A3, A4, A5, A6, <- !app_assoc. auto 10.
Qed.

Lemma exec_evs_subs_none : forall es l l', exec_evs es l = Some l' ->
  vals_of is_sub es = [] -> l_subs l' = l_subs l.
Proof.
  induction es as [|e es IH]; simpl; intros l l' H V.
  - inversion H; auto.
  - destruct (exec_ev e l) as [l1|] eqn:E1; [|discriminate].
    change (e :: es) with ([e] ++ es) in V. rewrite vals_of_app in V.
    apply app_eq_nil in V. destruct V as [V1 V2].
    rewrite (IH _ _ H V2).
    destruct e as [f v]. unfold exec_ev in E1.
    destruct f; try destruct v0; try (destruct (l_f1 l)); try (destruct (l_expr l));
      inversion E1; subst; cbn in *; auto; discriminate.
Qed.

(* THE BLOCK-LEVEL CHARACTERISATION.  A block of sympy_simplify that is cut anywhere ends, after its handler,
   in (str0, sym0, subs0 ++ stale): the string and the sympy object are the ones at block entry, and
   every substitution the executed part appended is still in inv_subs_fun[i]. *)
Definition restoring (k : kind) : Prop := handler_of k = HRestore \/ handler_of k = HRestoreTrunc3.

Lemma cut_block_state : forall k b l l',
  restoring k -> is_cut b = true ->
  run_block k b l = Some l' ->
  l_str l' = l_str l /\ l_sym l' = l_sym l /\
  subs_list (l_subs l') = subs_list (l_subs l) ++ appended b.
Proof.
  intros k b l l' Hh Hc H. unfold run_block in H. rewrite Hc in H.
  destruct (exec_evs (executed b) l) as [l1|] eqn:E; [|discriminate].
  destruct (exec_evs_lists _ _ _ E) as (A1 & _).
  inversion H; subst. unfold appended.
  destruct Hh as [Hh|Hh]; rewrite Hh; cbn; auto.
Qed.

(* in particular: the state is clean exactly when nothing was appended before the interrupt *)
Lemma cut_block_clean_iff : forall k b l l',
  restoring k -> is_cut b = true -> run_block k b l = Some l' ->
  (subs_list (l_subs l') = subs_list (l_subs l) <-> appended b = []).
Proof.
  intros k b l l' Hh Hc H.
  destruct (cut_block_state _ _ _ _ Hh Hc H) as (_ & _ & S).
  rewrite S. split; intro A.
  - rewrite <- (app_nil_r (subs_list (l_subs l))) in A at 2. apply app_inv_head in A. exact A.
  - rewrite A, app_nil_r. reflexivity.
Qed.

Lemma uncut_block_state : forall k b l, is_cut b = false -> run_block k b l = exec_evs (executed b) l.
Proof. intros. unfold run_block. rewrite H. destruct (exec_evs (executed b) l); reflexivity. Qed.

(* the only exception that can escape a block is the read of an unbound local *)
Lemma exec_evs_guarded : forall es l,
  exec_evs es l = None <-> fst (fst (guarded_evs es (l_f1 l) (l_expr l))) = false.
Proof.
  induction es as [|[f v] es IH]; intros l.
  - simpl. split; discriminate.
  - destruct f; try destruct v0; simpl;
      try (rewrite IH; simpl; reflexivity);
      try (destruct (l_f1 l) eqn:F; simpl; [rewrite IH; rewrite ?F; reflexivity | split; auto]);
      try (destruct (l_expr l) eqn:F; simpl; [rewrite IH; rewrite ?F; reflexivity | split; auto]).
Qed.

Lemma exec_evs_flags : forall es l l', exec_evs es l = Some l' ->
  l_f1 l' = snd (fst (guarded_evs es (l_f1 l) (l_expr l))) /\ l_expr l' = snd (guarded_evs es (l_f1 l) (l_expr l)).
Proof.
  induction es as [|[f v] es IH]; intros l l' H.
  - inversion H; subst. simpl. auto.
  - simpl in H.
    destruct f; try destruct v0; simpl in *;
      try (apply IH in H; simpl in H; exact H);
      try (destruct (l_f1 l) eqn:F; [apply IH in H; rewrite F in H; exact H | discriminate]);
      try (destruct (l_expr l) eqn:F; [apply IH in H; rewrite F in H; exact H | discriminate]).
Qed.

Lemma run_block_none_iff : forall k b l,
  run_block k b l = None <-> fst (fst (guarded_evs (executed b) (l_f1 l) (l_expr l))) = false.
Proof.
  intros. rewrite <- exec_evs_guarded. unfold run_block.
  destruct (exec_evs (executed b) l); split; intro; try discriminate; auto.
Qed.

(* ------------------------------------------------------------------ reads of unbound locals *)

Lemma guarded_evs_app : forall a b f1 fx,
  guarded_evs (a ++ b) f1 fx =
  (if fst (fst (guarded_evs a f1 fx))
   then guarded_evs b (snd (fst (guarded_evs a f1 fx))) (snd (guarded_evs a f1 fx))
   else guarded_evs a f1 fx).
Proof.
  induction a as [|[f v] a IH]; intros; simpl; auto.
  destruct f; try destruct v0; simpl; auto.
  - destruct f1; simpl; auto.
  - destruct fx; simpl; auto.
Qed.

Lemma guarded_prefix : forall a b f1 fx,
  fst (fst (guarded_evs (a ++ b) f1 fx)) = true -> fst (fst (guarded_evs a f1 fx)) = true.
Proof.
  intros a b f1 fx H. rewrite guarded_evs_app in H.
  destruct (fst (fst (guarded_evs a f1 fx))) eqn:E; auto. congruence.
Qed.

Lemma guarded_mono : forall es f1 fx g1 gx,
  (f1 = true -> g1 = true) -> (fx = true -> gx = true) ->
  fst (fst (guarded_evs es f1 fx)) = true -> fst (fst (guarded_evs es g1 gx)) = true.
Proof.
  induction es as [|[f v] es IH]; intros f1 fx g1 gx H1 Hx H; simpl in *; auto.
  destruct f; try destruct v0; simpl in *; eauto.
  - destruct f1; simpl in H; [|discriminate]. rewrite (H1 eq_refl). eauto.
  - destruct fx; simpl in H; [|discriminate]. rewrite (Hx eq_refl). eauto.
Qed.

Lemma concat_firstn_skipn : forall A (t : list (list A)) p, concat t = concat (firstn p t) ++ concat (skipn p t).
Proof. intros. rewrite <- concat_app, firstn_skipn. reflexivity. Qed.

Lemma executed_prefix : forall b, exists rest, concat (fst b) = executed b ++ rest.
Proof.
  intros [t [p|]]; unfold executed; simpl.
  - exists (concat (skipn p t)). apply concat_firstn_skipn.
  - exists []. rewrite app_nil_r. reflexivity.
Qed.

(* whatever the cut and whatever was bound before, a block whose trace binds before it reads cannot fail *)
Lemma self_guarded_runs : forall k b l, self_guarded (fst b) = true -> run_block k b l <> None.
Proof.
  intros k b l H N. apply run_block_none_iff in N.
  destruct (executed_prefix b) as [rest E]. unfold self_guarded in H. rewrite E in H.
  apply guarded_prefix in H.
  apply (guarded_mono _ false false (l_f1 l) (l_expr l)) in H; try discriminate. congruence.
Qed.

(* ------------------------------------------------------------------ the paired lists *)

Definition leq3 (l : loc) : Prop := length (l_ci l) = length (l_ri l) /\ length (l_ri l) = length (l_ns l).

Lemma vals_of_length_app : forall f a b, length (vals_of f (a ++ b)) = length (vals_of f a) + length (vals_of f b).
Proof. intros. rewrite vals_of_app, app_length. reflexivity. Qed.

Lemma firstn_min_length : forall A (l : list A) m, m <= length l -> length (firstn m l) = m.
Proof. intros. rewrite firstn_length. lia. Qed.

Lemma conforms_no_list_effects : forall k t, conforms k t = true ->
  (k = KA \/ k = KB \/ k = KE) ->
  forall es rest, concat t = es ++ rest ->
  vals_of is_ci es = [] /\ vals_of is_ri es = [] /\ vals_of is_ns es = [].
Proof.
  intros k t C Hk es rest E. unfold conforms in C. rewrite E, forallb_app in C.
  apply andb_prop in C. destruct C as [C _]. clear E.
  induction es as [|[f v] es IH]; simpl in *; auto.
  apply andb_prop in C. destruct C as [C1 C2].
  destruct (IH C2) as (A & B & D).
  unfold vals_of in *. simpl.
  destruct Hk as [Hk|[Hk|Hk]]; subst k; destruct f; try destruct v0; simpl in *; try discriminate; auto.
Qed.

Lemma forall_lt_app : forall n a b, Forall (fun x => x < n) a -> Forall (fun x => x < n) b -> Forall (fun x => x < n) (a ++ b).
Proof. intros. apply Forall_app. auto. Qed.

Lemma in_range_vals : forall n es, forallb (fun e : ev => match fst e with ECi | ERi => snd e <? n | _ => true end) es = true ->
  Forall (fun x => x < n) (vals_of is_ci es) /\ Forall (fun x => x < n) (vals_of is_ri es).
Proof.
  induction es as [|[f v] es IH]; simpl; intros H.
  - split; constructor.
  - apply andb_prop in H. destruct H as [H1 H2]. destruct (IH H2) as [A B].
    unfold vals_of in *. destruct f; simpl in *; auto.
    + split; auto. constructor; auto. apply Nat.ltb_lt. exact H1.
    + split; auto. constructor; auto. apply Nat.ltb_lt. exact H1.
Qed.

Lemma Forall_firstn : forall A (P : A -> Prop) m l, Forall P l -> Forall P (firstn m l).
Proof.
  induction m; destruct l; simpl; intros; auto. inversion H; subst. constructor; auto.
Qed.

Definition lists_ok (n : nat) (l : loc) : Prop :=
  leq3 l /\ Forall (fun x => x < n) (l_ci l) /\ Forall (fun x => x < n) (l_ri l).

(* one block of sympy_simplify keeps the three lists aligned and in range, WHATEVER the cut *)
Lemma run_block_lists_ok : forall k n t c l l',
  simplify_kind k = true -> blk_ok k n t = true ->
  lists_ok n l -> run_block k (t, c) l = Some l' -> lists_ok n l'.
Proof.
  intros k n t c l l' Hk Hok [[L1 L2] [R1 R2]] H.
  unfold blk_ok in Hok. apply andb_prop in Hok. destruct Hok as [Hok Hr].
  apply andb_prop in Hok. destruct Hok as [Hok Hg]. apply andb_prop in Hok. destruct Hok as [Hc Ha].
  unfold run_block in H.
  destruct (exec_evs (executed (t, c)) l) as [l1|] eqn:E; [|discriminate].
  destruct (exec_evs_lists _ _ _ E) as (_ & A2 & A3 & A4 & _).
  destruct (executed_prefix (t, c)) as [rest P]. simpl in P.
  assert (RG : Forall (fun x => x < n) (vals_of is_ci (executed (t, c))) /\
               Forall (fun x => x < n) (vals_of is_ri (executed (t, c)))).
  { unfold in_range in Hr. rewrite P, forallb_app in Hr. apply andb_prop in Hr. destruct Hr as [Hr _].
    apply in_range_vals. exact Hr. }
  destruct RG as [RG1 RG2].
  assert (OK1 : Forall (fun x => x < n) (l_ci l1)) by (rewrite A2; apply forall_lt_app; auto).
  assert (OK2 : Forall (fun x => x < n) (l_ri l1)) by (rewrite A3; apply forall_lt_app; auto).
  destruct c as [p|]; simpl in H; inversion H; subst; clear H.
  - (* cut *)
    destruct k; simpl in Hk; try discriminate; cbn.
    + (* KA *) destruct (conforms_no_list_effects _ _ Hc (or_introl eq_refl) _ _ P) as (Z1 & Z2 & Z3).
      unfold lists_ok, leq3; cbn. rewrite A2, A3, A4, Z1, Z2, Z3, !app_nil_r. auto.
    + (* KB *) destruct (conforms_no_list_effects _ _ Hc (or_intror (or_introl eq_refl)) _ _ P) as (Z1 & Z2 & Z3).
      unfold lists_ok, leq3; cbn. rewrite A2, A3, A4, Z1, Z2, Z3, !app_nil_r. auto.
    + (* KC *) unfold lists_ok, leq3; cbn.
      rewrite !firstn_min_length by lia. repeat split; auto using Forall_firstn.
    + (* KD *) unfold lists_ok, leq3; cbn.
      rewrite !firstn_min_length by lia. repeat split; auto using Forall_firstn.
    + (* KE *) destruct (conforms_no_list_effects _ _ Hc (or_intror (or_intror eq_refl)) _ _ P) as (Z1 & Z2 & Z3).
      unfold lists_ok, leq3; cbn. rewrite A2, A3, A4, Z1, Z2, Z3, !app_nil_r. auto.
  - (* ran to its end: whole groups *)
    unfold executed in *. simpl in *.
    unfold aligned in Ha. apply andb_prop in Ha. destruct Ha as [Ha _]. apply andb_prop in Ha. destruct Ha as [Ha1 Ha2].
    apply Nat.eqb_eq in Ha1. apply Nat.eqb_eq in Ha2.
    unfold lists_ok, leq3. repeat split; auto.
    + rewrite A2, A3, !app_length. lia.
    + rewrite A3, A4, !app_length. unfold sub, val in *. lia.
Qed.

(* ------------------------------------------------------------------ one sympy_simplify call: it always completes *)

Definition finv (n : nat) (fr : frame) : Prop :=
  length (fG fr) = n /\ length (fL fr) = n /\
  length (f_ci fr) = length (f_ri fr) /\ length (f_ri fr) = length (f_ns fr) /\
  Forall (fun x => x < n) (f_ci fr) /\ Forall (fun x => x < n) (f_ri fr).

Lemma nth_error_some_lt : forall A (l : list A) i, i < length l -> exists x, nth_error l i = Some x.
Proof.
  intros. destruct (nth_error l i) eqn:E; eauto. apply nth_error_None in E. lia.
Qed.

Lemma store_lengths : forall i l fr, length (fG (store i l fr)) = length (fG fr) /\ length (fL (store i l fr)) = length (fL fr).
Proof.
  intros. unfold store. destruct (nth_error (fL fr) i) as [e|]; auto. cbn.
  rewrite set_nth_length. split; auto.
  destruct (e_alias e); auto. destruct (nth_error (fG fr) i); auto. apply set_nth_length.
Qed.

Lemma run_block_at_inv : forall n k i t c fr,
  finv n fr -> simplify_kind k = true -> blk_ok k n t = true -> i < n ->
  exists fr', run_block_at k i (t, c) fr = Some fr' /\ finv n fr'.
Proof.
  intros n k i t c fr (G1 & G2 & G3 & G4 & G5 & G6) Hk Hok Hi.
  unfold run_block_at, load.
  destruct (nth_error_some_lt _ (fL fr) i) as [e He]; [lia|]. rewrite He.
  set (l := mkLoc (e_str e) (e_sym e) (e_subs e) (f_f0 fr) (f_f1 fr) (f_expr fr) (f_ci fr) (f_ri fr) (f_ns fr) [] [] false).
  destruct (run_block k (t, c) l) as [l'|] eqn:R.
  - eexists. split; [reflexivity|].
    assert (LO : lists_ok n l) by (unfold lists_ok, leq3, l; cbn; auto).
    destruct (run_block_lists_ok _ _ _ _ _ _ Hk Hok LO R) as [[M1 M2] [M3 M4]].
    destruct (store_lengths i l' fr) as [S1 S2].
    unfold finv. rewrite S1, S2. repeat split; auto; unfold store; rewrite He; cbn; auto.
  - exfalso. revert R. apply self_guarded_runs. simpl.
    unfold blk_ok in Hok. apply andb_prop in Hok. destruct Hok as [Hok _]. apply andb_prop in Hok. tauto.
Qed.

Lemma run_blocks_from_inv : forall n k bs i fr,
  finv n fr -> simplify_kind k = true -> i + length bs = n ->
  forallb (fun b => blk_ok k n (fst b)) bs = true ->
  exists fr', run_blocks_from k i bs fr = Some fr' /\ finv n fr'.
Proof.
  induction bs as [|[t c] bs IH]; intros i fr Hf Hk Hl Hok; simpl in *.
  - eauto.
  - apply andb_prop in Hok. destruct Hok as [H1 H2].
    destruct (run_block_at_inv n k i t c fr Hf Hk H1) as [fr1 [R1 F1]]; [lia|].
    rewrite R1. apply IH; auto. lia.
Qed.

Lemma merge_from_some : forall fuel i ci ri ns G,
  length ci = length ri -> length ri = length ns ->
  Forall (fun x => x < length G) ci -> Forall (fun x => x < length G) ri ->
  i + fuel = length ci ->
  exists G', merge_from fuel i ci ri ns G = Some G' /\ length G' = length G.
Proof.
  induction fuel as [|fuel IH]; intros i ci ri ns G L1 L2 F1 F2 Hi; simpl.
  - eauto.
  - destruct (nth_error_some_lt _ ci i) as [c Hc]; [lia|].
    destruct (nth_error_some_lt _ ri i) as [r Hr]; [lia|].
    destruct (nth_error_some_lt _ ns i) as [s Hs]; [unfold sub in *; lia|].
    rewrite Hc, Hr.
    destruct (negb (mem_nat r (firstn i ci)) && negb (mem_nat c (firstn i ci))).
    + assert (Cl : c < length G) by (rewrite Forall_forall in F1; apply F1; eapply nth_error_In; eauto).
      assert (Rl : r < length G) by (rewrite Forall_forall in F2; apply F2; eapply nth_error_In; eauto).
      destruct (nth_error_some_lt _ G c Cl) as [gc Hgc].
      destruct (nth_error_some_lt _ G r Rl) as [gr Hgr].
      rewrite Hgc, Hgr, Hs.
      destruct (IH (S i) ci ri ns (set_nth c (mkG (g_str gr) (g_sym gr) (Some (subs_list (g_subs gc) ++ [s]))) G))
        as [G' [M Ln]]; auto; try (rewrite set_nth_length; auto); try lia.
      exists G'. split; auto. rewrite Ln, set_nth_length. reflexivity.
    + apply IH; auto. lia.
Qed.

Lemma make_changes_lists_length : forall G L, length (make_changes_lists G L) = length G.
Proof. induction G; destruct L; simpl; auto. Qed.

Lemma zoo_fix_length : forall zs L, length (zoo_fix zs L) = length L.
Proof. induction zs; destruct L; simpl; auto. Qed.

Lemma run_stage_inv : forall n s fr, finv n fr -> stage_ok n s = true ->
  exists fr', run_stage s fr = Some fr' /\ finv n fr'.
Proof.
  intros n s fr Hf Hok. pose proof Hf as (G1 & G2 & G3 & G4 & G5 & G6).
  destruct s; simpl in *.
  - apply andb_prop in Hok. destruct Hok as [Hok H3]. apply andb_prop in Hok. destruct Hok as [H1 H2].
    apply Nat.eqb_eq in H2. apply run_blocks_from_inv; auto.
  - eexists. split; [reflexivity|]. unfold finv, make_changes; cbn. rewrite make_changes_lists_length. auto 10.
  - eexists. split; [reflexivity|]. unfold finv, reslice; cbn. rewrite map_length. auto 10.
  - eexists. split; [reflexivity|]. unfold finv, reset_lists; cbn. auto 10.
  - unfold merge.
    destruct (merge_from_some (length (f_ci fr)) 0 (f_ci fr) (f_ri fr) (f_ns fr) (fG fr)) as [G' [M Ln]]; auto;
      try (rewrite G1; auto).
    rewrite M. eexists. split; [reflexivity|]. unfold finv; cbn. rewrite Ln. auto 10.
  - eexists. split; [reflexivity|]. unfold finv; cbn. rewrite zoo_fix_length. auto 10.
Qed.

Lemma run_stages_inv : forall n ss fr, finv n fr -> forallb (stage_ok n) ss = true ->
  exists fr', run_stages ss fr = Some fr' /\ finv n fr'.
Proof.
  induction ss as [|s ss IH]; intros fr Hf Hok; simpl in *.
  - eauto.
  - apply andb_prop in Hok. destruct Hok as [H1 H2].
    destruct (run_stage_inv n s fr Hf H1) as [fr1 [R1 F1]]. rewrite R1. auto.
Qed.

Lemma init_frame_inv : forall G, finv (length G) (init_frame G).
Proof. intros. unfold finv, init_frame, reslice; cbn. rewrite map_length. auto 10. Qed.

(* COMPLETES (one call).  For every script whose block traces are well formed -- and for EVERY choice of
   cuts, since well-formedness only looks at the traces -- sympy_simplify returns, with one entry per function. *)
Theorem call_completes : forall ss G,
  forallb (stage_ok (length G)) ss = true ->
  exists G', run_call ss G = Some G' /\ length G' = length G.
Proof.
  intros ss G Hok. unfold run_call.
  destruct (run_stages_inv (length G) ss (init_frame G) (init_frame_inv G) Hok) as [fr [R F]].
  rewrite R. eexists. split; [reflexivity|]. apply F.
Qed.

(* ------------------------------------------------------------------ expand_or_factor always completes *)

Lemma no_reads_guarded : forall es f1 fx,
  forallb (fun e : ev => match fst e with EUse _ => false | _ => true end) es = true ->
  fst (fst (guarded_evs es f1 fx)) = true.
Proof.
  induction es as [|[f v] es IH]; intros; simpl in *; auto.
  apply andb_prop in H. destruct H as [H1 H2].
  destruct f; try destruct v0; simpl in *; try discriminate; auto.
Qed.

Lemma conforms_KX_no_reads : forall t, conforms KX t = true ->
  forallb (fun e : ev => match fst e with EUse _ => false | _ => true end) (concat t) = true.
Proof.
  intros t H. unfold conforms in H. rewrite forallb_forall in *. intros [f v] Hin.
  specialize (H _ Hin). destruct f; try destruct v0; simpl in *; auto; discriminate.
Qed.

Lemma forallb_app_l : forall A (p : A -> bool) a b, forallb p (a ++ b) = true -> forallb p a = true.
Proof. intros. rewrite forallb_app in H. apply andb_prop in H. tauto. Qed.

Lemma run_expand_from_inv : forall bs xi xv,
  forallb (fun b => conforms KX (fst b) && aligned (fst b)) bs = true ->
  length xi <= length xv ->
  exists xi' xv', run_expand_from bs xi xv = Some (xi', xv') /\ length xi' <= length xv'.
Proof.
  induction bs as [|[t c] bs IH]; intros xi xv Hok Hle; simpl in *.
  - eauto.
  - apply andb_prop in Hok. destruct Hok as [H1 H2]. apply andb_prop in H1. destruct H1 as [Hc Ha].
    destruct (executed_prefix (t, c)) as [rest P]. simpl in P.
    assert (NR : forallb (fun e : ev => match fst e with EUse _ => false | _ => true end) (executed (t, c)) = true).
    { apply conforms_KX_no_reads in Hc. rewrite P in Hc. eapply forallb_app_l; eauto. }
    unfold run_block.
    destruct (exec_evs (executed (t, c)) (xloc xi xv)) as [l1|] eqn:E.
    + destruct (exec_evs_lists _ _ _ E) as (_ & _ & _ & _ & A5 & A6). cbn in A5, A6.
      destruct c as [p|]; cbn.
      * apply IH; auto. rewrite firstn_length. lia.
      * apply IH; auto. unfold executed in *. simpl in *.
        unfold aligned in Ha. apply andb_prop in Ha. destruct Ha as [_ Ha]. apply Nat.eqb_eq in Ha.
        rewrite A5, A6, !app_length. unfold val in *. lia.
    + exfalso. apply exec_evs_guarded in E. rewrite (no_reads_guarded _ _ _ NR) in E. discriminate.
Qed.

Theorem expand_completes : forall bs,
  forallb (fun b => conforms KX (fst b) && aligned (fst b)) bs = true ->
  exists ch, run_expand bs = Some ch.
Proof.
  intros bs H. unfold run_expand.
  destruct (run_expand_from_inv bs [] [] H (le_n 0)) as (xi & xv & R & L). rewrite R.
  apply Nat.leb_le in L. rewrite L. eauto.
Qed.

(* ------------------------------------------------------------------ which entries a block stage touches *)

Definition loc_of (e : lent) (fr : frame) : loc :=
  mkLoc (e_str e) (e_sym e) (e_subs e) (f_f0 fr) (f_f1 fr) (f_expr fr) (f_ci fr) (f_ri fr) (f_ns fr) [] [] false.

Lemma run_block_at_others : forall k i b fr fr', run_block_at k i b fr = Some fr' ->
  forall j, j <> i -> nth_error (fL fr') j = nth_error (fL fr) j /\ nth_error (fG fr') j = nth_error (fG fr) j.
Proof.
  intros k i b fr fr' H j Hj. unfold run_block_at, load in H.
  destruct (nth_error (fL fr) i) as [e|] eqn:He; [|discriminate].
  destruct (run_block k b _) as [l'|]; [|discriminate]. inversion H; subst; clear H.
  unfold store. rewrite He. cbn. split.
  - apply nth_error_set_nth_neq. auto.
  - destruct (e_alias e); auto. destruct (nth_error (fG fr) i); auto. apply nth_error_set_nth_neq. auto.
Qed.

Lemma run_block_at_self : forall k i b fr fr' e g, run_block_at k i b fr = Some fr' ->
  nth_error (fL fr) i = Some e -> nth_error (fG fr) i = Some g ->
  exists l', run_block k b (loc_of e fr) = Some l' /\
    nth_error (fL fr') i = Some (mkE (l_str l') (l_sym l') (l_subs l') (e_alias e)) /\
    nth_error (fG fr') i = Some (if e_alias e then mkG (g_str g) (g_sym g) (l_subs l') else g).
Proof.
  intros k i b fr fr' e g H He Hg. unfold run_block_at, load in H. rewrite He in H.
  fold (loc_of e fr) in H.
  destruct (run_block k b (loc_of e fr)) as [l'|]; [|discriminate]. inversion H; subst; clear H.
  exists l'. split; auto. unfold store. rewrite He, Hg. cbn.
  assert (Li : i < length (fL fr)) by (apply nth_error_Some; congruence).
  assert (Gi : i < length (fG fr)) by (apply nth_error_Some; congruence).
  split.
  - apply nth_error_set_nth_eq. auto.
  - destruct (e_alias e); auto. apply nth_error_set_nth_eq. auto.
Qed.

(* what a block stage does to function i: only block i touches it *)
Lemma run_blocks_from_entry : forall k bs i0 fr fr', run_blocks_from k i0 bs fr = Some fr' ->
  (forall j, j < i0 -> nth_error (fL fr') j = nth_error (fL fr) j /\ nth_error (fG fr') j = nth_error (fG fr) j) /\
  (forall m b e g, nth_error bs m = Some b ->
     nth_error (fL fr) (i0 + m) = Some e -> nth_error (fG fr) (i0 + m) = Some g ->
     exists frm l', run_block k b (loc_of e frm) = Some l' /\
       nth_error (fL fr') (i0 + m) = Some (mkE (l_str l') (l_sym l') (l_subs l') (e_alias e)) /\
       nth_error (fG fr') (i0 + m) = Some (if e_alias e then mkG (g_str g) (g_sym g) (l_subs l') else g)).
Proof.
  induction bs as [|b0 bs IH]; intros i0 fr fr' H; simpl in H.
  - inversion H; subst. split; auto. intros m b e g Hb. destruct m; discriminate.
  - destruct (run_block_at k i0 b0 fr) as [fr1|] eqn:R1; [|discriminate].
    destruct (IH (S i0) fr1 fr' H) as [IH1 IH2]. split.
    + intros j Hj. destruct (IH1 j) as [A B]; [lia|].
      destruct (run_block_at_others _ _ _ _ _ R1 j) as [C D]; [lia|]. rewrite A, B. auto.
    + intros m b e g Hb He Hg. destruct m as [|m]; simpl in Hb.
      * inversion Hb; subst b0. rewrite Nat.add_0_r in *.
        destruct (run_block_at_self _ _ _ _ _ _ _ R1 He Hg) as [l' [A [B C]]].
        exists fr, l'. split; auto.
        destruct (IH1 i0) as [D E]; [lia|]. rewrite D, E. auto.
      * replace (i0 + S m) with (S i0 + m) in * by lia.
        destruct (run_block_at_others _ _ _ _ _ R1 (S i0 + m)) as [C D]; [lia|].
        apply (IH2 m b e g Hb); congruence.
Qed.

(* STALE SUBSTITUTIONS, stage level.  After a block stage, function i has
   (str, sym, subs0 ++ everything block i appended); when block i was cut, str and sym are the old ones;
   all_inv_subs[i] sees the appended entries exactly when inv_subs_fun[i] was the same list object. *)
Theorem stage_entry : forall k bs fr fr' i b e g,
  run_blocks_from k 0 bs fr = Some fr' ->
  nth_error bs i = Some b -> nth_error (fL fr) i = Some e -> nth_error (fG fr) i = Some g ->
  exists e', nth_error (fL fr') i = Some e' /\ e_alias e' = e_alias e /\
    subs_list (e_subs e') = subs_list (e_subs e) ++ appended b /\
    (is_cut b = true -> restoring k -> e_str e' = e_str e /\ e_sym e' = e_sym e) /\
    nth_error (fG fr') i = Some (if e_alias e then mkG (g_str g) (g_sym g) (e_subs e') else g).
Proof.
  intros k bs fr fr' i b e g H Hb He Hg.
  destruct (run_blocks_from_entry _ _ _ _ _ H) as [_ P].
  destruct (P i b e g Hb He Hg) as (frm & l' & R & A & B).
  eexists. split; [exact A|]. cbn. split; auto. split.
  - unfold run_block in R. destruct (exec_evs (executed b) (loc_of e frm)) as [l1|] eqn:E; [|discriminate].
    destruct (exec_evs_lists _ _ _ E) as (S1 & _). cbn in S1.
    inversion R; subst. unfold appended.
    destruct (is_cut b); auto. destruct (handler_of k); cbn; auto.
  - split; auto. intros Hc Hr.
    destruct (cut_block_state _ _ _ _ Hr Hc R) as (S1 & S2 & _). cbn in S1, S2. auto.
Qed.

Lemma make_changes_spec : forall G L i g,
  nth_error G i = Some g ->
  nth_error (make_changes_lists G L) i =
  Some (match nth_error L i with
        | Some e => if e_str e =? g_str g then g else mkG (e_str e) (e_sym e) (e_subs e)
        | None => g end).
Proof.
  induction G as [|g0 G IH]; intros L i g H.
  - destruct i; discriminate.
  - destruct L as [|e0 L]; simpl.
    + rewrite H. destruct i; reflexivity.
    + destruct i as [|i]; simpl in *.
      * inversion H; subst. reflexivity.
      * apply IH. exact H.
Qed.

Lemma reslice_entry : forall fr i g, nth_error (fG fr) i = Some g ->
  nth_error (fL (reslice fr)) i = Some (mkE (g_str g) (g_sym g) (g_subs g) (is_some (g_subs g))) /\
  nth_error (fG (reslice fr)) i = Some g.
Proof.
  intros. unfold reslice; cbn. split; auto. rewrite nth_error_map, H. reflexivity.
Qed.

(* SKIPPED CLEANLY.  Between a slice and the next make_changes, a function whose only block is cut, and whose
   substitution list was None when it was sliced, leaves NOTHING behind in the global lists: the stale entries stay in
   the rank-local copy and are discarded.  (sympy_simplify with max_param <= 1: block KB is the only block before
   the first make_changes; all_inv_subs is all None at entry -- do_sympy resets it every round.) *)
Theorem stale_dropped : forall k bs fr0 fr' i b g,
  restoring k ->
  run_blocks_from k 0 bs (reslice fr0) = Some fr' ->
  nth_error bs i = Some b -> is_cut b = true ->
  nth_error (fG fr0) i = Some g -> g_subs g = None ->
  nth_error (fG (make_changes fr')) i = Some g.
Proof.
  intros k bs fr0 fr' i b g Hr H Hb Hc Hg Hn.
  destruct (reslice_entry fr0 i g Hg) as [He Hg'].
  destruct (stage_entry _ _ _ _ _ _ _ _ H Hb He Hg') as (e' & A & B & C & D & E).
  destruct (D Hc Hr) as [D1 D2]. cbn in *.
  rewrite Hn in E. cbn in E.
  unfold make_changes; cbn. rewrite (make_changes_spec _ _ _ _ E), A, D1, Nat.eqb_refl. reflexivity.
Qed.

(* ... but whatever is in the local list goes to the global lists as soon as the STRING differs at make_changes
   time -- because an earlier or a later block of the same function, in the same window, changed it. *)
Theorem stale_propagates : forall fr i g e,
  nth_error (fG fr) i = Some g -> nth_error (fL fr) i = Some e -> e_str e <> g_str g ->
  nth_error (fG (make_changes fr)) i = Some (mkG (e_str e) (e_sym e) (e_subs e)).
Proof.
  intros fr i g e Hg He Hne. unfold make_changes; cbn.
  rewrite (make_changes_spec _ _ _ _ Hg), He.
  destruct (e_str e =? g_str g) eqn:E; auto. apply Nat.eqb_eq in E. contradiction.
Qed.

(* ... and, when the list was not None at slice time, inv_subs_fun[i] IS all_inv_subs[i]: a cut block's appends are
   in the global list at once, string restored or not (block KE after a first make_changes). *)
Theorem alias_stale_reaches_global : forall k bs fr0 fr' i b g l0,
  restoring k ->
  run_blocks_from k 0 bs (reslice fr0) = Some fr' ->
  nth_error bs i = Some b -> is_cut b = true ->
  nth_error (fG fr0) i = Some g -> g_subs g = Some l0 ->
  exists g', nth_error (fG (make_changes fr')) i = Some g' /\
    g_str g' = g_str g /\ g_sym g' = g_sym g /\ subs_list (g_subs g') = l0 ++ appended b.
Proof.
  intros k bs fr0 fr' i b g l0 Hr H Hb Hc Hg Hs.
  destruct (reslice_entry fr0 i g Hg) as [He Hg'].
  destruct (stage_entry _ _ _ _ _ _ _ _ H Hb He Hg') as (e' & A & B & C & D & E).
  destruct (D Hc Hr) as [D1 D2]. cbn in *.
  rewrite Hs in E, C. cbn in E, C.
  eexists. split.
  - unfold make_changes; cbn. rewrite (make_changes_spec _ _ _ _ E), A. cbn. rewrite D1, Nat.eqb_refl. reflexivity.
  - cbn. auto.
Qed.

(* ------------------------------------------------------------------ the whole run completes *)

Lemma run_calls_completes : forall cs U o, forallb call_ok cs = true -> exists o', run_calls cs U o = Some o' .
Proof.
  induction cs as [|c cs IH]; intros U o H; simpl in *.
  - eauto.
  - apply andb_prop in H. destruct H as [H1 H2]. unfold call_ok in H1.
    apply andb_prop in H1. destruct H1 as [L S]. apply Nat.eqb_eq in L.
    set (Gin := map (fun ps => mkG (nth (fst ps) U 0) (snd ps) None) (combine (c_group c) (c_syms c))).
    assert (LG : length Gin = length (c_group c)).
    { unfold Gin. rewrite map_length, combine_length. lia. }
    rewrite <- LG in S.
    destruct (call_completes _ _ S) as [G' [R _]]. rewrite R. apply IH. exact H2.
Qed.

Lemma run_round_completes : forall cs lb, forallb call_ok cs = true ->
  exists lb', run_round cs lb = Some lb' /\
    length (lb_fun lb') = length (lb_fun lb) /\
    length (lb_chain lb') = Nat.min (length (lb_fun lb)) (length (lb_chain lb)).
Proof.
  intros cs lb H. unfold run_round.
  destruct (run_calls_completes cs (dedupe (lb_fun lb)) (map (fun u => (u, None)) (dedupe (lb_fun lb))) H) as [o R].
  rewrite R. eexists. split; [reflexivity|]. cbn. rewrite !map_length, combine_length. auto.
Qed.

Lemma run_rounds_completes : forall rs lb, forallb (forallb call_ok) rs = true ->
  length (lb_chain lb) = length (lb_fun lb) ->
  exists lb', run_rounds rs lb = Some lb' /\ length (lb_fun lb') = length (lb_fun lb) /\
              length (lb_chain lb') = length (lb_fun lb).
Proof.
  induction rs as [|r rs IH]; intros lb H L; simpl in *.
  - eauto.
  - apply andb_prop in H. destruct H as [H1 H2].
    destruct (run_round_completes r lb H1) as [lb1 [R [A B]]]. rewrite R.
    destruct (IH lb1 H2) as [lb2 [R2 [C D]]]; [lia|].
    exists lb2. split; auto. split; lia.
Qed.

(* COMPLETES (whole run).  Whatever subset of the time-limited blocks is cut, and wherever: the rounds, both
   expansions and the final files are reached.  (run_ok constrains the traces, not the cuts.) *)
Theorem generation_completes : forall nparam cancel n orig r,
  run_ok r = true -> exists y, generate nparam cancel n orig r = Some y.
Proof.
  intros nparam cancel n orig r H. unfold run_ok in H.
  apply andb_prop in H. destruct H as [H H4]. apply andb_prop in H. destruct H as [H H3].
  apply andb_prop in H. destruct H as [H1 H2].
  unfold generate, pre_check.
  destruct (run_rounds_completes (gr_rounds1 r) (mkLib orig (map (fun _ => []) orig)) H1) as [lb1 [R1 [A1 B1]]].
  { cbn. apply map_length. }
  rewrite R1.
  destruct (expand_completes _ H2) as [c1 E1]. rewrite E1.
  destruct (run_rounds_completes (gr_rounds2 r) lb1 H3) as [lb2 [R2 _]]; [lia|].
  rewrite R2.
  destruct (expand_completes _ H4) as [c2 E2]. rewrite E2. eauto.
Qed.

(* ------------------------------------------------------------------ check_results *)

Lemma mem_nat_In : forall x l, mem_nat x l = true <-> In x l.
Proof.
  intros. unfold mem_nat. rewrite existsb_exists. split.
  - intros [y [A B]]. apply Nat.eqb_eq in B. subst. auto.
  - intros A. exists x. split; auto. apply Nat.eqb_refl.
Qed.

Lemma to_change_subset : forall nparam y order cs x, In x (to_change nparam y order cs) -> In x order.
Proof.
  induction order as [|j order IH]; intros cs x H; simpl in *.
  - destruct cs; auto.
  - destruct cs as [|c cs]; [contradiction|].
    destruct (checked nparam y j).
    + destruct (chk_unmerges c).
      * destruct H as [H|H]; auto. right. eauto.
      * right. eauto.
    + right. eauto.
Qed.

Lemma chk_for_In : forall nparam y order cs i c, chk_for nparam y order cs i = Some c -> In i order.
Proof.
  induction order as [|j order IH]; intros cs i c H; simpl in *.
  - destruct cs; discriminate.
  - destruct cs as [|c0 cs]; [discriminate|].
    destruct (checked nparam y j).
    + destruct (j =? i) eqn:E.
      * apply Nat.eqb_eq in E. auto.
      * right. eauto.
    + right. eauto.
Qed.

(* a function is un-merged exactly when the check consumed for it did not end in a verified comparison *)
Lemma to_change_iff : forall nparam y order cs i, NoDup order ->
  (In i (to_change nparam y order cs) <->
   exists c, chk_for nparam y order cs i = Some c /\ chk_unmerges c = true).
Proof.
  induction order as [|j order IH]; intros cs i ND; simpl.
  - destruct cs as [|c1 cs]; split; try contradiction; intros [c [A _]]; discriminate.
  - inversion ND as [|? ? Hnin ND']; subst.
    destruct cs as [|c0 cs].
    + split; [contradiction|]. intros [c [A _]]. discriminate.
    + destruct (checked nparam y j) eqn:CK.
      * destruct (j =? i) eqn:E.
        -- apply Nat.eqb_eq in E. subst j.
           destruct (chk_unmerges c0) eqn:U.
           ++ split; intros _; [eauto | left; auto].
           ++ split.
              ** intros H. apply to_change_subset in H. contradiction.
              ** intros [c [A B]]. inversion A; subst. congruence.
        -- apply Nat.eqb_neq in E.
           destruct (chk_unmerges c0).
           ++ rewrite <- (IH cs i ND'). split; [intros [H|H]; [contradiction|auto] | intro; right; auto].
           ++ apply IH. auto.
      * apply IH. auto.
Qed.

Lemma nth_map_combine_seq : forall A B (f : nat * A -> B) (l : list A) i dA dB, i < length l ->
  nth i (map f (combine (seq 0 (length l)) l)) dB = f (i, nth i l dA).
Proof.
  intros A B f l i dA dB Hi.
  rewrite (nth_indep _ dB (f (0, dA))) by (rewrite map_length, combine_length, seq_length; lia).
  rewrite (map_nth f (combine (seq 0 (length l)) l) (0, dA) i).
  rewrite combine_nth by apply seq_length.
  rewrite seq_nth by auto. reflexivity.
Qed.

Lemma memv_In : forall x l, memv x l = true <-> In x l.
Proof. exact mem_nat_In. Qed.

Lemma dedupe_acc_In : forall l seen x, In x l -> In x seen \/ In x (dedupe_acc seen l).
Proof.
  induction l as [|a l IH]; intros seen x H; simpl in *; [contradiction|].
  destruct (memv a seen) eqn:M.
  - destruct H as [H|H]; [subst; left; apply memv_In; auto | auto].
  - destruct H as [H|H]; [subst; right; left; auto|].
    destruct (IH (a :: seen) x H) as [[K|K]|K]; [subst; right; left; auto | auto | right; right; auto].
Qed.

Lemma dedupe_In : forall l x, In x l -> In x (dedupe l).
Proof. intros. destruct (dedupe_acc_In l [] x H); [contradiction|auto]. Qed.

Lemma index_of_In : forall x l, In x l -> index_of x l < length l /\ nth (index_of x l) l 0 = x.
Proof.
  induction l as [|a l IH]; intros H; simpl in *; [contradiction|].
  destruct (x =? a) eqn:E.
  - apply Nat.eqb_eq in E. subst. split; [lia|auto].
  - destruct H as [H|H]; [subst; rewrite Nat.eqb_refl in E; discriminate|].
    destruct (IH H). split; [lia|auto].
Qed.

(* FINAL LIBRARY.  After check_results, whatever happened before it and whatever is cut inside it:
   every function has a match; it is either its own unique with an empty chain, or it keeps its match and chain and
   -- if the chain is non-trivial and the parameter counts are equal -- the chain was verified by the comparison,
   which ran to completion (not cut, nothing raised). *)
Theorem check_results_sound : forall nparam y order cs,
  let y' := check_results nparam y order cs in
  let N := length (y_match y) in
  NoDup order ->
  length (y_chain y) = N -> length (y_orig y) = N ->
  (forall i, i < N -> nth i (y_match y) 0 < length (y_uniq y)) ->
  (forall i, i < N -> checked nparam y i = true -> chk_for nparam y order cs i <> None) ->
  forall i, i < N ->
    nth i (y_match y') 0 < length (y_uniq y') /\
    ( (nth (nth i (y_match y') 0) (y_uniq y') 0 = nth i (y_orig y) 0 /\ nth i (y_chain y') [] = [])
      \/
      (nth i (y_match y') 0 = nth i (y_match y) 0 /\ nth i (y_chain y') [] = nth i (y_chain y) [] /\
       nth (nth i (y_match y') 0) (y_uniq y') 0 = nth (nth i (y_match y) 0) (y_uniq y) 0 /\
       (checked nparam y i = true ->
        exists c, chk_for nparam y order cs i = Some c /\ chk_unmerges c = false)) ).
Proof.
  intros nparam y order cs y' N ND LC LO MR CV i Hi.
  set (tc := to_change nparam y order cs).
  set (newu := dedupe (map (fun i => nth i (y_orig y) 0) tc)).
  assert (M' : nth i (y_match y') 0 =
               if mem_nat i tc then length (y_uniq y) + index_of (nth i (y_orig y) 0) newu else nth i (y_match y) 0).
  { unfold y', check_results. cbn. fold tc. fold newu.
    rewrite (nth_map_combine_seq _ _ _ (y_match y) i 0 0 Hi). reflexivity. }
  assert (C' : nth i (y_chain y') [] = if mem_nat i tc then [] else nth i (y_chain y) []).
  { unfold y', check_results. cbn. fold tc.
    rewrite (nth_map_combine_seq _ _ _ (y_chain y) i [] []) by lia. reflexivity. }
  assert (U' : y_uniq y' = y_uniq y ++ newu) by reflexivity.
  destruct (mem_nat i tc) eqn:MT.
  - (* un-merged *)
    apply mem_nat_In in MT.
    assert (IN : In (nth i (y_orig y) 0) newu).
    { apply dedupe_In. apply (in_map (fun i => nth i (y_orig y) 0)) in MT. exact MT. }
    destruct (index_of_In _ _ IN) as [I1 I2].
    rewrite M', C', U', app_length. split; [lia|]. left. split; auto.
    rewrite app_nth2 by lia. replace (length (y_uniq y) + index_of (nth i (y_orig y) 0) newu - length (y_uniq y))
      with (index_of (nth i (y_orig y) 0) newu) by lia. exact I2.
  - (* kept *)
    rewrite M', C', U', app_length. specialize (MR i Hi). split; [lia|]. right.
    repeat split; auto.
    + apply app_nth1. exact MR.
    + intros CK. destruct (chk_for nparam y order cs i) as [c|] eqn:CF; [|exfalso; eapply CV; eauto].
      exists c. split; auto. destruct (chk_unmerges c) eqn:UM; auto.
      exfalso. assert (In i tc) by (apply to_change_iff; eauto). apply mem_nat_In in H. congruence.
Qed.

(* 'nan' never remains on a pair with equal parameter counts (ast.literal_eval('nan') raises inside the check) *)
Theorem check_results_no_nan : forall nparam y order cs,
  let y' := check_results nparam y order cs in
  let N := length (y_match y) in
  NoDup order ->
  length (y_chain y) = N -> length (y_orig y) = N ->
  (forall i, i < N -> nth i (y_match y) 0 < length (y_uniq y)) ->
  (forall i, i < N -> checked nparam y i = true -> chk_for nparam y order cs i <> None) ->
  (forall i c, chk_for nparam y order cs i = Some c -> In NAN (nth i (y_chain y) []) -> chk_unmerges c = true) ->
  forall i, i < N -> In NAN (nth i (y_chain y') []) ->
    nparam (nth i (y_orig y') 0) <> nparam (nth (nth i (y_match y') 0) (y_uniq y') 0).
Proof.
  intros nparam y order cs y' N ND LC LO MR CV RJ i Hi HN.
  destruct (check_results_sound nparam y order cs ND LC LO MR CV i Hi) as [_ [[_ E]|[A [B [C D]]]]].
  - fold y' in E. rewrite E in HN. contradiction.
  - fold y' in A, B, C. rewrite B in HN. rewrite C. change (y_orig y') with (y_orig y).
    intro EQ.
    assert (CK : checked nparam y i = true).
    { unfold checked. apply andb_true_intro. split.
      - destruct (nth i (y_chain y) []); [contradiction|reflexivity].
      - apply Nat.eqb_eq. exact EQ. }
    destruct (D CK) as [c [F G]]. rewrite (RJ i c F HN) in G. discriminate.
Qed.

(* the library handed to check_results is well formed: one match and one chain per function, matches in range *)
Lemma index_of_dedupe_lt : forall f l, In f l -> index_of f (dedupe l) < length (dedupe l).
Proof. intros. apply index_of_In. apply dedupe_In. exact H. Qed.

Lemma finish_wf : forall cancel orig lb,
  length (lb_fun lb) = length orig -> length (lb_chain lb) = length orig ->
  let y := finish cancel orig lb in
  length (y_match y) = length orig /\ length (y_chain y) = length orig /\ y_orig y = orig /\
  (forall i, i < length orig -> nth i (y_match y) 0 < length (y_uniq y)).
Proof.
  intros cancel orig lb L1 L2 y. unfold y, finish; cbn. rewrite !map_length. repeat split; auto.
  intros i Hi.
  rewrite (nth_indep _ 0 (index_of 0 (dedupe (lb_fun lb)))) by (rewrite map_length; lia).
  rewrite (map_nth (fun f => index_of f (dedupe (lb_fun lb)))).
  apply index_of_dedupe_lt. apply nth_In. lia.
Qed.

Lemma run_round_lengths : forall cs lb lb', run_round cs lb = Some lb' ->
  length (lb_fun lb') = length (lb_fun lb) /\ length (lb_chain lb') = Nat.min (length (lb_fun lb)) (length (lb_chain lb)).
Proof.
  intros cs lb lb' H. unfold run_round in H.
  destruct (run_calls cs _ _); [|discriminate]. inversion H; subst; cbn.
  rewrite !map_length, combine_length. auto.
Qed.

Lemma run_rounds_lengths : forall rs lb lb', run_rounds rs lb = Some lb' ->
  length (lb_chain lb) = length (lb_fun lb) ->
  length (lb_fun lb') = length (lb_fun lb) /\ length (lb_chain lb') = length (lb_fun lb).
Proof.
  induction rs as [|r rs IH]; intros lb lb' H L; simpl in H.
  - inversion H; subst. auto.
  - destruct (run_round r lb) as [lb1|] eqn:R; [|discriminate].
    destruct (run_round_lengths _ _ _ R) as [A B].
    destruct (IH _ _ H) as [C D]; [lia|]. split; lia.
Qed.

Lemma pre_check_wf : forall cancel orig r y, pre_check cancel orig r = Some y ->
  length (y_match y) = length orig /\ length (y_chain y) = length orig /\ y_orig y = orig /\
  (forall i, i < length orig -> nth i (y_match y) 0 < length (y_uniq y)).
Proof.
  intros cancel orig r y H. unfold pre_check in H.
  destruct (run_rounds (gr_rounds1 r) _) as [lb1|] eqn:R1; [|discriminate].
  destruct (run_expand (gr_expand1 r)); [|discriminate].
  destruct (run_rounds (gr_rounds2 r) lb1) as [lb2|] eqn:R2; [|discriminate].
  destruct (run_expand (gr_expand2 r)); [|discriminate].
  inversion H; subst.
  destruct (run_rounds_lengths _ _ _ R1) as [A B]; [cbn; apply map_length|]. cbn in A, B.
  destruct (run_rounds_lengths _ _ _ R2) as [C D]; [lia|].
  apply finish_wf; lia.
Qed.

(* FINAL LIBRARY, whole run, n > 2: for EVERY choice of cuts in every block of every round, of both expansions and
   of check_results itself. *)
Theorem final_library_sound : forall nparam cancel n orig r y',
  2 < n -> generate nparam cancel n orig r = Some y' -> NoDup (gr_order r) ->
  exists y, pre_check cancel orig r = Some y /\ y' = check_results nparam y (gr_order r) (gr_checks r) /\
  ((forall i, i < length orig -> checked nparam y i = true -> chk_for nparam y (gr_order r) (gr_checks r) i <> None) ->
   forall i, i < length orig ->
    nth i (y_match y') 0 < length (y_uniq y') /\
    ( (nth (nth i (y_match y') 0) (y_uniq y') 0 = nth i orig 0 /\ nth i (y_chain y') [] = [])
      \/
      (nth i (y_match y') 0 = nth i (y_match y) 0 /\ nth i (y_chain y') [] = nth i (y_chain y) [] /\
       nth (nth i (y_match y') 0) (y_uniq y') 0 = nth (nth i (y_match y) 0) (y_uniq y) 0 /\
       (checked nparam y i = true ->
        exists c, chk_for nparam y (gr_order r) (gr_checks r) i = Some c /\ chk_unmerges c = false)) )).
Proof.
  intros nparam cancel n orig r y' Hn H ND. unfold generate in H.
  destruct (pre_check cancel orig r) as [y|] eqn:P; [|discriminate].
  apply Nat.ltb_lt in Hn. rewrite Hn in H. inversion H; subst; clear H.
  exists y. split; auto. split; auto. intros CV i Hi.
  destruct (pre_check_wf _ _ _ _ P) as (A & B & C & D).
  pose proof (check_results_sound nparam y (gr_order r) (gr_checks r) ND) as S. cbv zeta in S.
  rewrite A, C in S. apply S; auto.
Qed.

(* ------------------------------------------------------------------ structural facts and witnesses *)

Lemma tables_transparent : forall k, transparent (table k) = true.
Proof. destruct k; vm_compute; reflexivity. Qed.

Lemma stale_witness :
  forallb (stage_ok 1) stale_witness_script = true /\
  (exists g, run_call stale_witness_script [mkG 1 2 None] = Some [g] /\ In NAN (subs_list (g_subs g))) /\
  (exists g, run_call stale_witness_skipped [mkG 1 2 None] = Some [g] /\ ~ In NAN (subs_list (g_subs g))).
Proof.
  split; [vm_compute; reflexivity|]. split.
  - eexists. split; [vm_compute; reflexivity|]. cbn. auto.
  - eexists. split; [vm_compute; reflexivity|]. cbn. intros [H|[]]. discriminate.
Qed.

(* ------------------------------------------------------------------ calls with at most one parameter *)

Lemma run_blocks_from_lengths : forall k bs i0 fr fr', run_blocks_from k i0 bs fr = Some fr' ->
  length (fG fr') = length (fG fr) /\ length (fL fr') = length (fL fr).
Proof.
  induction bs as [|b bs IH]; intros i0 fr fr' H; simpl in H.
  - inversion H; auto.
  - destruct (run_block_at k i0 b fr) as [fr1|] eqn:R; [|discriminate].
    destruct (IH _ _ _ H) as [A B]. unfold run_block_at in R.
    destruct (load i0 fr); [|discriminate]. destruct (run_block k b l); [|discriminate]. inversion R; subst.
    destruct (store_lengths i0 l0 fr) as [C D]. split; congruence.
Qed.

(* a block stage that starts right after a slice *)
Lemma stage_from_reslice : forall k bs fr0 fr fr',
  fL fr = fL (reslice fr0) -> fG fr = fG fr0 ->
  run_blocks_from k 0 bs fr = Some fr' -> length bs = length (fG fr0) ->
  forall i g, nth_error (fG fr0) i = Some g ->
  exists b e' g', nth_error bs i = Some b /\ nth_error (fL fr') i = Some e' /\ nth_error (fG fr') i = Some g' /\
    subs_list (e_subs e') = subs_list (g_subs g) ++ appended b /\
    (is_cut b = true -> restoring k -> e_str e' = g_str g /\ e_sym e' = g_sym g) /\
    g_str g' = g_str g /\ g_sym g' = g_sym g /\
    (g_subs g' = g_subs g \/ (is_some (g_subs g) = true /\ g_subs g' = e_subs e')).
Proof.
  intros k bs fr0 fr fr' HL HG H Len i g Hg.
  assert (Hi : i < length bs) by (rewrite Len; apply nth_error_Some; congruence).
  destruct (nth_error_some_lt _ bs i Hi) as [b Hb].
  destruct (reslice_entry fr0 i g Hg) as [He _]. rewrite <- HL in He. rewrite <- HG in Hg.
  destruct (stage_entry _ _ _ _ _ _ _ _ H Hb He Hg) as (e' & A & B & C & D & E). cbn in *.
  exists b, e'. eexists. split; [exact Hb|]. split; [exact A|]. split; [exact E|].
  split; [exact C|]. split; [exact D|].
  destruct (is_some (g_subs g)) eqn:S; cbn; auto.
Qed.

Lemma conforms_no_subs : forall k t, conforms k t = true -> (k = KC \/ k = KD) ->
  forall es rest, concat t = es ++ rest -> vals_of is_sub es = [].
Proof.
  intros k t C Hk es rest E. unfold conforms in C. rewrite E, forallb_app in C.
  apply andb_prop in C. destruct C as [C _]. clear E.
  induction es as [|[f v] es IH]; simpl in *; auto.
  apply andb_prop in C. destruct C as [C1 C2]. specialize (IH C2).
  unfold vals_of in *. simpl.
  destruct Hk as [Hk|Hk]; subst k; destruct f; try destruct v0; simpl in *; try discriminate; auto.
Qed.

Lemma In_firstn : forall A (x : A) m l, In x (firstn m l) -> In x l.
Proof. induction m; destruct l; simpl; intros; auto; try contradiction. destruct H; auto. Qed.

Lemma vals_of_In_app : forall f a b x, In x (vals_of f a) -> In x (vals_of f (a ++ b)).
Proof. intros. rewrite vals_of_app. apply in_or_app. auto. Qed.

(* where the entries of new_inv_subs come from *)
Lemma run_block_ns_provenance : forall k b l l' s, run_block k b l = Some l' -> In s (l_ns l') ->
  In s (l_ns l) \/ In s (vals_of is_ns (concat (fst b))).
Proof.
  intros k b l l' s H Hin. unfold run_block in H.
  destruct (exec_evs (executed b) l) as [l1|] eqn:E; [|discriminate].
  destruct (exec_evs_lists _ _ _ E) as (_ & _ & _ & A4 & _).
  destruct (executed_prefix b) as [rest P].
  assert (K : In s (l_ns l1) -> In s (l_ns l) \/ In s (vals_of is_ns (concat (fst b)))).
  { rewrite A4. intro X. apply in_app_or in X. destruct X; auto. right. rewrite P. apply vals_of_In_app. auto. }
  inversion H; subst; clear H. destruct (is_cut b); auto.
  destruct (handler_of k); cbn in Hin; auto. apply K. eapply In_firstn; eauto.
Qed.

Lemma run_blocks_ns_provenance : forall k bs i0 fr fr' s, run_blocks_from k i0 bs fr = Some fr' -> In s (f_ns fr') ->
  In s (f_ns fr) \/ exists b, In b bs /\ In s (vals_of is_ns (concat (fst b))).
Proof.
  induction bs as [|b bs IH]; intros i0 fr fr' s H Hin; simpl in H.
  - inversion H; subst. auto.
  - destruct (run_block_at k i0 b fr) as [fr1|] eqn:R; [|discriminate].
    destruct (IH _ _ _ _ H Hin) as [A|[b' [A B]]].
    + unfold run_block_at, load in R. destruct (nth_error (fL fr) i0) as [e|] eqn:He; [|discriminate].
      destruct (run_block k b _) as [l'|] eqn:RB; [|discriminate]. inversion R; subst; clear R.
      unfold store in A. rewrite He in A. cbn in A.
      destruct (run_block_ns_provenance _ _ _ _ _ RB A) as [X|X]; cbn in X; auto.
      right. exists b. split; [left; auto|auto].
    + right. exists b'. split; [right; auto|auto].
Qed.

Definition gsubs_in (P : sub -> Prop) (G : list gent) : Prop :=
  forall i g s, nth_error G i = Some g -> In s (subs_list (g_subs g)) -> P s.

Lemma merge_from_provenance : forall (P : sub -> Prop) fuel i ci ri ns G G',
  merge_from fuel i ci ri ns G = Some G' -> gsubs_in P G -> (forall s, In s ns -> P s) -> gsubs_in P G'.
Proof.
  induction fuel as [|fuel IH]; intros i ci ri ns G G' H HG Hns; simpl in H.
  - inversion H; subst; auto.
  - destruct (nth_error ci i) as [c|]; [|discriminate]. destruct (nth_error ri i) as [r|]; [|discriminate].
    destruct (negb (mem_nat r (firstn i ci)) && negb (mem_nat c (firstn i ci))).
    + destruct (nth_error G c) as [gc|] eqn:Hgc; [|discriminate].
      destruct (nth_error G r) as [gr|] eqn:Hgr; [|discriminate].
      destruct (nth_error ns i) as [s0|] eqn:Hs; [|discriminate].
      eapply IH; eauto.
      intros j g s Hj Hin.
      destruct (Nat.eq_dec c j) as [->|Ne].
      * rewrite nth_error_set_nth_eq in Hj by (apply nth_error_Some; congruence).
        inversion Hj; subst; clear Hj. cbn in Hin. apply in_app_or in Hin. destruct Hin as [X|[X|[]]].
        -- exact (HG j gc s Hgc X).
        -- subst. apply Hns. eapply nth_error_In; eauto.
      * rewrite nth_error_set_nth_neq in Hj by auto. exact (HG j g s Hj Hin).
    + eapply IH; eauto.
Qed.

Lemma zoo_fix_subs : forall zs L i e', nth_error (zoo_fix zs L) i = Some e' ->
  exists e, nth_error L i = Some e /\ e_subs e' = e_subs e.
Proof.
  induction zs as [|z zs IH]; intros L i e' H; simpl in H.
  - destruct L; eauto.
  - destruct L as [|e L]; [destruct i; discriminate|].
    destruct i as [|i]; simpl in *.
    + inversion H; subst. exists e. split; auto. destruct z as [[s y]|]; reflexivity.
    + apply IH. exact H.
Qed.

Lemma forallb_nth_error : forall A (p : A -> bool) l i x, forallb p l = true -> nth_error l i = Some x -> p x = true.
Proof. intros. rewrite forallb_forall in H. apply H. eapply nth_error_In; eauto. Qed.

Lemma merge_from_length : forall fuel i ci ri ns G G', merge_from fuel i ci ri ns G = Some G' -> length G' = length G.
Proof.
  induction fuel as [|fuel IH]; intros i ci ri ns G G' H; simpl in H.
  - inversion H; auto.
  - destruct (nth_error ci i); [|discriminate]. destruct (nth_error ri i); [|discriminate].
    destruct (negb _ && negb _).
    + destruct (nth_error G n); [|discriminate]. destruct (nth_error G n0); [|discriminate].
      destruct (nth_error ns i); [|discriminate]. apply IH in H. rewrite set_nth_length in H. exact H.
    + eapply IH; eauto.
Qed.

Lemma make_changes_gsubs : forall (P : sub -> Prop) G L,
  gsubs_in P G -> (forall i e s, nth_error L i = Some e -> In s (subs_list (e_subs e)) -> P s) ->
  gsubs_in P (make_changes_lists G L).
Proof.
  intros P G L HG HL i g' s Hg' Hin.
  assert (Hi : i < length G).
  { rewrite <- (make_changes_lists_length G L). apply nth_error_Some. congruence. }
  destruct (nth_error_some_lt _ G i Hi) as [g Hg].
  rewrite (make_changes_spec _ _ _ _ Hg) in Hg'. inversion Hg'; subst g'; clear Hg'.
  destruct (nth_error L i) as [e|] eqn:He.
  - destruct (e_str e =? g_str g).
    + exact (HG i g s Hg Hin).
    + cbn in Hin. exact (HL i e s He Hin).
  - exact (HG i g s Hg Hin).
Qed.

(* a block stage, started right after a slice, whose blocks append no substitution: the lists keep their content *)
Lemma neutral_stage : forall k bs fr0 fr fr' (P : sub -> Prop),
  fL fr = fL (reslice fr0) -> fG fr = fG fr0 ->
  run_blocks_from k 0 bs fr = Some fr' -> length bs = length (fG fr0) ->
  (forall b, In b bs -> appended b = []) ->
  gsubs_in P (fG fr0) ->
  gsubs_in P (fG fr') /\ (forall i e s, nth_error (fL fr') i = Some e -> In s (subs_list (e_subs e)) -> P s).
Proof.
  intros k bs fr0 fr fr' P HL HG R Len AP G0.
  destruct (run_blocks_from_lengths _ _ _ _ _ R) as [LG LL]. rewrite HG in LG.
  assert (LL0 : length (fL fr') = length (fG fr0)).
  { rewrite LL, HL. unfold reslice; cbn. apply map_length. }
  split.
  - intros i g' s Hg' Hin.
    assert (Hi : i < length (fG fr0)) by (rewrite <- LG; apply nth_error_Some; congruence).
    destruct (nth_error_some_lt _ _ i Hi) as [g Hg].
    destruct (stage_from_reslice k bs fr0 fr fr' HL HG R Len i g Hg)
      as (b & e' & g1 & Hb & He' & Hg1 & S1 & _ & _ & _ & S5).
    rewrite Hg' in Hg1. inversion Hg1; subst g1; clear Hg1.
    rewrite (AP b (nth_error_In _ _ Hb)), app_nil_r in S1.
    apply (G0 i g s Hg). destruct S5 as [S5|[_ S5]]; [rewrite <- S5; auto | rewrite <- S1, <- S5; auto].
  - intros i e s He Hin.
    assert (Hi : i < length (fG fr0)) by (rewrite <- LL0; apply nth_error_Some; congruence).
    destruct (nth_error_some_lt _ _ i Hi) as [g Hg].
    destruct (stage_from_reslice k bs fr0 fr fr' HL HG R Len i g Hg)
      as (b & e' & g1 & Hb & He' & Hg1 & S1 & _).
    rewrite He in He'. inversion He'; subst e'; clear He'.
    rewrite (AP b (nth_error_In _ _ Hb)), app_nil_r in S1.
    apply (G0 i g s Hg). rewrite <- S1. exact Hin.
Qed.

Lemma first_window_good : forall B G fr1,
  forallb (fun g => negb (is_some (g_subs g))) G = true -> length B = length G ->
  run_blocks_from KB 0 B (init_frame G) = Some fr1 ->
  gsubs_in (fun s => exists j b, nth_error B j = Some b /\ is_cut b = false /\ In s (appended b))
           (fG (make_changes fr1)).
Proof.
  intros B G fr1 HN LB R1 i g s Hg Hin. unfold make_changes in Hg; cbn in Hg.
  destruct (run_blocks_from_lengths _ _ _ _ _ R1) as [LG LL].
  assert (Hi : i < length G).
  { assert (X : i < length (make_changes_lists (fG fr1) (fL fr1))) by (apply nth_error_Some; congruence).
    rewrite make_changes_lists_length, LG in X. exact X. }
  destruct (nth_error_some_lt _ G i Hi) as [g0 Hg0].
  destruct (stage_from_reslice KB B (mkFr G [] 0 false false [] [] []) (init_frame G) fr1 eq_refl eq_refl R1 LB i g0 Hg0)
    as (b & e' & g1 & Hb & He' & Hg1 & S1 & S2 & S3 & S4 & S5).
  assert (N0 : g_subs g0 = None).
  { pose proof (forallb_nth_error _ _ _ _ _ HN Hg0) as X. cbn in X. destruct (g_subs g0); [discriminate|auto]. }
  rewrite N0 in S5, S1. cbn in S5, S1. destruct S5 as [S5|[S5 _]]; [|discriminate].
  rewrite (make_changes_spec _ _ _ _ Hg1), He' in Hg. inversion Hg; subst g; clear Hg.
  destruct (e_str e' =? g_str g1) eqn:EQ.
  - rewrite S5 in Hin. contradiction.
  - cbn in Hin. exists i, b. split; auto. split.
    + destruct (is_cut b) eqn:CB; auto. destruct (S2 eq_refl (or_introl eq_refl)) as [X _].
      apply Nat.eqb_neq in EQ. congruence.
    + rewrite S1 in Hin. exact Hin.
Qed.

(* SMALL CALLS.  With at most one parameter sympy_simplify runs block KB, make_changes, blocks KD and KE
   (KE does nothing: there is no second parameter name to reorder).  Whatever is cut, every substitution in the
   lists it returns was appended by a block that ran to its end, or comes from new_inv_subs. *)
Theorem small_calls_no_stale : forall B D E Z G G',
  let ss := call_script [] B false [] D E Z in
  forallb (stage_ok (length G)) ss = true ->
  forallb (fun b => match fst b with [] => true | _ => false end) E = true ->
  forallb (fun g => negb (is_some (g_subs g))) G = true ->
  run_call ss G = Some G' ->
  forall i g s, nth_error G' i = Some g -> In s (subs_list (g_subs g)) ->
    (exists j b, nth_error B j = Some b /\ is_cut b = false /\ In s (appended b)) \/
    (exists b, In b D /\ In s (vals_of is_ns (concat (fst b)))).
Proof.
  intros B D E Z G G' ss Hok HE HN H.
  set (Good := fun s => (exists j b, nth_error B j = Some b /\ is_cut b = false /\ In s (appended b)) \/
                        (exists b, In b D /\ In s (vals_of is_ns (concat (fst b))))).
  change (gsubs_in Good G').
  unfold ss, call_script in Hok, H. simpl in Hok, H.
  repeat (apply andb_prop in Hok; destruct Hok as [?Hs Hok]).
  apply andb_prop in Hs. destruct Hs as [LB HsB]. apply Nat.eqb_eq in LB.
  apply andb_prop in Hs0. destruct Hs0 as [LD HsD]. apply Nat.eqb_eq in LD.
  apply andb_prop in Hs1. destruct Hs1 as [LE HsE]. apply Nat.eqb_eq in LE.
  unfold run_call in H. simpl in H.
  destruct (run_blocks_from KB 0 B (init_frame G)) as [fr1|] eqn:R1; [|discriminate].
  set (fr2 := make_changes fr1) in *.
  set (fr4 := reset_lists (reset_lists (reslice fr2))) in *.
  destruct (run_blocks_from KD 0 D fr4) as [fr5|] eqn:R5; [|discriminate].
  destruct (merge fr5) as [fr6|] eqn:R6; [|discriminate].
  set (fr7 := reslice fr6) in *.
  destruct (run_blocks_from KE 0 E fr7) as [fr8|] eqn:R8; [|discriminate].
  inversion H; subst G'; clear H. cbn.
  assert (L2 : length (fG fr2) = length G).
  { unfold fr2, make_changes; cbn. rewrite make_changes_lists_length.
    destruct (run_blocks_from_lengths _ _ _ _ _ R1) as [X _]. rewrite X. unfold init_frame, reslice; reflexivity. }
  assert (G2 : gsubs_in Good (fG fr2)).
  { intros i g s Hg Hin. left. exact (first_window_good B G fr1 HN LB R1 i g s Hg Hin). }
  assert (APD : forall b, In b D -> appended b = []).
  { intros b Hb. rewrite forallb_forall in HsD. specialize (HsD b Hb). unfold blk_ok in HsD.
    repeat (apply andb_prop in HsD; destruct HsD as [HsD ?]).
    destruct (executed_prefix b) as [rest P]. unfold appended. eapply conforms_no_subs; eauto. }
  destruct (neutral_stage KD D fr2 fr4 fr5 Good eq_refl eq_refl R5 (eq_trans LD (eq_sym L2)) APD G2) as [G5 _].
  assert (NS5 : forall s, In s (f_ns fr5) -> Good s).
  { intros s Hin. destruct (run_blocks_ns_provenance _ _ _ _ _ _ R5 Hin) as [X|X]; [cbn in X; contradiction|].
    right. exact X. }
  assert (L5 : length (fG fr5) = length G).
  { destruct (run_blocks_from_lengths _ _ _ _ _ R5) as [X _]. rewrite X. exact L2. }
  assert (G6 : gsubs_in Good (fG fr6) /\ length (fG fr6) = length G).
  { unfold merge in R6. destruct (merge_from _ _ _ _ _ _) as [G6'|] eqn:M; [|discriminate].
    inversion R6; subst; cbn. split.
    - eapply merge_from_provenance; eauto.
    - rewrite (merge_from_length _ _ _ _ _ _ _ M). exact L5. }
  destruct G6 as [G6 L6].
  assert (APE : forall b, In b E -> appended b = []).
  { intros b Hb. rewrite forallb_forall in HE. specialize (HE b Hb). destruct b as [t c]. simpl in HE.
    destruct t; [|discriminate]. unfold appended, executed. simpl. destruct c; [rewrite firstn_nil|]; reflexivity. }
  destruct (neutral_stage KE E fr6 fr7 fr8 Good eq_refl eq_refl R8 (eq_trans LE (eq_sym L6)) APE G6) as [G8 L8].
  apply make_changes_gsubs; auto.
  intros i e s He Hin. destruct (zoo_fix_subs _ _ _ _ He) as [e0 [He0 Eq]]. rewrite Eq in Hin. eapply L8; eauto.
Qed.
