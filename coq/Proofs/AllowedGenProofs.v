(* C01: the function generated from generator.get_allowed_shapes (Gen/GenAllowed.v, regenerated on every run from the numpy
   source through the idioms of Common/Np.v) returns, for every complexity n >= 1 and without raising, the matrix whose rows
   are exactly what the hand model Model/Shapes.allowed computes -- hence (allowed_exact) the prefix codes of all unary-binary
   trees with n nodes, each once, in itertools.product order; for n = 0 it raises, like the model (IndexError at cand[:, -1]). *)
From Coq Require Import List Arith Bool Lia.
From ESRV Require Import Common.Np Model.Shapes Gen.GenShapes Gen.GenAllowed Proofs.ShapesProofs Proofs.ShapesGenProofs.
Import ListNotations.

(* ---------- the idioms on well-shaped matrices *)

Lemma np_lprod_lprod : forall b k, np_lprod b k = lprod b k.
Proof. induction k as [|k IH]; cbn [np_lprod lprod]; [reflexivity|]. now rewrite IH. Qed.

Lemma rowsel_filter : forall w (rows : list (list nat)) (f : list nat -> bool),
  np_rowsel (mkArr w rows) (map f rows) = Some (mkArr w (filter f rows)).
Proof.
  intros w rows f. unfold np_rowsel. cbn [arows aw]. rewrite map_length, Nat.eqb_refl. do 2 f_equal.
  induction rows as [|r rows IH]; cbn [map combine filter]; [reflexivity|].
  cbn [snd]. destruct (f r); cbn [map fst]; now rewrite IH.
Qed.

Lemma col_pos : forall w rows k, k < w -> np_col (mkArr w rows) (Pos k) = Some (map (fun r => nth k r 0) rows).
Proof. intros w rows k H. unfold np_col, norm_idx. cbn [aw arows]. apply Nat.ltb_lt in H. now rewrite H. Qed.

Lemma col_neg : forall w rows k, 1 <= k -> k <= w -> np_col (mkArr w rows) (Neg k) = Some (map (fun r => nth (w - k) r 0) rows).
Proof.
  intros w rows k H1 H2. unfold np_col, norm_idx. cbn [aw arows].
  apply Nat.leb_le in H1. apply Nat.leb_le in H2. now rewrite H1, H2.
Qed.

Lemma last_nth_len : forall (s : list nat) d d', s <> [] -> last s d = nth (length s - 1) s d'.
Proof.
  induction s as [|a s IH]; intros d d' H; [congruence|].
  destruct s as [|b s]; [reflexivity|].
  change (last (a :: b :: s) d) with (last (b :: s) d). rewrite (IH d d') by congruence.
  cbn [length]. replace (S (S (length s)) - 1) with (S (length s)) by lia.
  replace (S (length s) - 1) with (length s) by lia. reflexivity.
Qed.

Lemma hd_nth0 : forall (s : list nat), hd 0 s = nth 0 s 0.
Proof. destruct s; reflexivity. Qed.

(* the three column filters = the model's prefilter, on rows of length n *)
Lemma prefilter_code : forall n rows, 1 <= n -> (forall r, In r rows -> length r = n) ->
  (cand <~ (if (1 <? n) then (col_1 <~ (np_col (mkArr n rows) (Pos 0)) ;;
                               sel_2 <~ (np_rowsel (mkArr n rows) (np_ne col_1 0)) ;; Some sel_2) else Some (mkArr n rows)) ;;
   col_3 <~ (np_col cand (Neg 1)) ;;
   sel_4 <~ (np_rowsel cand (np_eq col_3 0)) ;;
   (if (1 <? (aw sel_4)) then (col_5 <~ (np_col sel_4 (Neg 2)) ;;
                                sel_6 <~ (np_rowsel sel_4 (np_ne col_5 2)) ;; Some sel_6) else Some sel_4))
  = Some (mkArr n (prefilter n rows)).
Proof.
  intros n rows Hn Hlen. unfold prefilter.
  assert (F1 : forall l : list (list nat), np_ne (map (fun r => nth 0 r 0) l) 0 = map (fun s => negb (hd 0 s =? 0)) l).
  { intros l. unfold np_ne. rewrite map_map. apply map_ext. intros s. now rewrite hd_nth0. }
  assert (F2 : forall l : list (list nat), (forall r, In r l -> length r = n) ->
             filter (fun s => nth (n - 1) s 0 =? 0) l = filter (fun s => last s 1 =? 0) l).
  { intros l Hl. apply filter_ext_in. intros s Hs. rewrite (last_nth_len s 1 0).
    - now rewrite (Hl s Hs).
    - intros ->. specialize (Hl [] Hs). cbn in Hl. lia. }
  assert (F3 : forall l : list (list nat), np_eq (map (fun r => nth (n - 1) r 0) l) 0 = map (fun s => nth (n - 1) s 0 =? 0) l).
  { intros l. unfold np_eq. now rewrite map_map. }
  assert (F4 : forall l : list (list nat), np_ne (map (fun r => nth (n - 2) r 0) l) 2 = map (fun s => negb (nth (n - 2) s 0 =? 2)) l).
  { intros l. unfold np_ne. now rewrite map_map. }
  destruct (1 <? n) eqn:E.
  - apply Nat.ltb_lt in E.
    rewrite col_pos by lia. cbn [bindc]. rewrite F1, rowsel_filter. cbn [bindc].
    rewrite col_neg by lia. cbn [bindc]. rewrite F3, rowsel_filter. cbn [bindc aw].
    assert (E' : (1 <? n) = true) by now apply Nat.ltb_lt. rewrite E'.
    rewrite col_neg by lia. cbn [bindc]. rewrite F4, rowsel_filter. cbn [bindc].
    rewrite F2; [reflexivity|]. intros r Hr. apply filter_In in Hr. apply Hlen. tauto.
  - cbn [bindc]. rewrite col_neg by lia. cbn [bindc]. rewrite F3, rowsel_filter. cbn [bindc aw]. rewrite E.
    rewrite F2; [reflexivity|]. exact Hlen.
Qed.

(* ---------- the mask updates *)

Lemma set_nth_upd : forall (A : Type) i (v : A) l, set_nth i v l = upd i (fun _ => v) l.
Proof. intros A i v l. revert i. induction l as [|x l IH]; intros [|i]; cbn [set_nth upd]; try reflexivity. now rewrite IH. Qed.

Lemma eqb_rows_all : forall r p, length r = length p ->
  forallb (fun b => b) (eqb_rows r p) = list_nat_eqb r p.
Proof.
  induction r as [|x r IH]; intros [|y p] H; cbn in H; try lia; [reflexivity|].
  cbn [eqb_rows forallb list_nat_eqb]. rewrite IH by lia. reflexivity.
Qed.

Lemma existsb_where : forall (v : list nat) j, j < length v ->
  existsb (Nat.eqb j) (np_where v) = negb (nth j v 0 =? 0).
Proof.
  intros v j Hj. unfold np_where. destruct (negb (nth j v 0 =? 0)) eqn:E.
  - apply existsb_exists. exists j. split; [|apply Nat.eqb_refl].
    apply filter_In. split; [apply in_seq; lia | exact E].
  - apply not_true_is_false. intros H. apply existsb_exists in H. destruct H as [i [Hi He]].
    apply Nat.eqb_eq in He. subst i. apply filter_In in Hi. destruct Hi as [_ Hi]. congruence.
Qed.

Lemma where_in_range : forall (v : list nat) n, length v = n -> forallb (fun i => i <? n) (np_where v) = true.
Proof.
  intros v n H. apply forallb_forall. intros i Hi. unfold np_where in Hi. apply filter_In in Hi. destruct Hi as [Hi _].
  apply in_seq in Hi. apply Nat.ltb_lt. lia.
Qed.

Lemma combine_seq_map : forall (A B : Type) (f : nat -> A -> B) (l : list A) off,
  map (fun jb => f (fst jb) (snd jb)) (combine (seq off (length l)) l)
  = map (fun jb => f (fst jb) (snd jb)) (combine (seq off (length l)) l).
Proof. reflexivity. Qed.

(* msk[np.where(np.prod(cand[:, :len(p)] == p[None, :], axis=1))] = False  is the model's mask_prefix *)
Lemma mask_code : forall n (C : list (list nat)) p (msk : list bool),
  (forall r, In r C -> length r = n) -> length p <= n -> length msk = length C ->
  (m_12 <~ (np_eq_rowvec (np_cols_upto (mkArr n C) (length p)) p) ;;
   np_set_idx msk (np_where (np_prod1 m_12)) false) = Some (mask_prefix p C msk).
Proof.
  intros n C p msk Hlen Hp Hm.
  unfold np_eq_rowvec, np_cols_upto. cbn [aw arows].
  rewrite Nat.min_l by exact Hp. rewrite Nat.eqb_refl. cbn [bindc].
  set (V := np_prod1 (map (fun r => eqb_rows r p) (map (firstn (length p)) C))).
  assert (HV : V = map (fun r => if list_nat_eqb (firstn (length p) r) p then 1 else 0) C).
  { unfold V, np_prod1. rewrite !map_map. apply map_ext_in. intros r Hr.
    rewrite eqb_rows_all; [reflexivity|]. rewrite firstn_length, (Hlen r Hr). lia. }
  assert (HVl : length V = length C) by (rewrite HV; apply map_length).
  unfold np_set_idx. rewrite (where_in_range V (length msk)) by lia. f_equal.
  unfold mask_prefix.
  (* pointwise *)
  assert (G : forall (C : list (list nat)) (msk : list bool) off (V : list nat) (W : list nat),
            length msk = length C -> W = map (fun r => if list_nat_eqb (firstn (length p) r) p then 1 else 0) C ->
            (forall j, off <= j < off + length C -> existsb (Nat.eqb j) V = negb (nth (j - off) W 0 =? 0)) ->
            map (fun jb : nat * bool => if existsb (Nat.eqb (fst jb)) V then false else snd jb) (combine (seq off (length msk)) msk)
            = map (fun rb : list nat * bool => if list_nat_eqb (firstn (length p) (fst rb)) p then false else snd rb) (combine C msk)).
  { clear. intros C. induction C as [|r C IH]; intros [|b msk] off V W Hl HW HV; cbn in Hl; try lia; [reflexivity|].
    cbn [length seq combine map fst snd]. f_equal.
    - rewrite (HV off) by (cbn [length]; lia). rewrite Nat.sub_diag, HW. cbn [map nth].
      destruct (list_nat_eqb (firstn (length p) r) p); reflexivity.
    - apply (IH msk (S off) V (map (fun r => if list_nat_eqb (firstn (length p) r) p then 1 else 0) C)); [lia|reflexivity|].
      intros j Hj. rewrite (HV j) by (cbn [length]; lia). rewrite HW.
      replace (j - off) with (S (j - S off)) by lia. reflexivity. }
  apply (G C msk 0 (np_where V) V Hm HV).
  intros j Hj. rewrite Nat.sub_0_r. apply existsb_where. lia.
Qed.

(* ---------- one iteration and the loop *)

Definition good2 (n : nat) (row : list nat) : Prop :=
  exists p t, check_tree row = Ok (lukb row, p, t) /\ (lukb row = false -> exists p', p = Some p' /\ length p' <= n).

Lemma good2_row : forall n row, 1 <= n -> length row = n -> Forall le2 row ->
  last row 1 = 0 -> (1 < n -> hd 0 row <> 0) -> good2 n row.
Proof.
  intros n row Hn Hl Hle Hlast Hhd.
  destruct (Nat.eq_dec n 1) as [->|Hne].
  - destruct row as [|a [|b r]]; cbn in Hl; try lia. cbn in Hlast. subst a.
    exists None, [mknode 0]. split; [reflexivity|]. intros H. discriminate.
  - destruct (check_tree_spec row ltac:(lia) (Hhd ltac:(lia)) Hle) as [p [t [Hct [Hpre _]]]].
    exists (Some p), t. split; [exact Hct|]. intros _. exists p. split; [reflexivity|].
    rewrite <- Hl. rewrite <- Hpre at 1. rewrite firstn_length. lia.
Qed.

(* the loop body of the generated code *)
Definition body (cand : arr2) : nat -> list bool -> option (list bool) :=
  fun i msk =>
    b_7 <~ (nth_error msk i) ;;
    _ <~ (if (negb b_7) then (Some tt) else Some tt) ;;
    row_8 <~ (np_row cand i) ;;
    ct_9 <~ (check_tree_code row_8) ;;
    let '(success, part_considered, tree) := ct_9 in
    msk <~ (if (negb success) then (msk <~ (np_set msk i false) ;;
            pv_10 <~ part_considered ;;
            pv_11 <~ part_considered ;;
            m_12 <~ (np_eq_rowvec (np_cols_upto cand (length pv_10)) pv_11) ;;
            let m := m_12 in
            let m := (np_prod1 m) in
            msk <~ (np_set_idx msk (np_where m) false) ;;
            Some msk) else Some msk) ;;
    Some msk.

Lemma body_step : forall n C i s msk, (forall r, In r C -> length r = n) -> good2 n s ->
  nth_error C i = Some s -> length msk = length C ->
  body (mkArr n C) i msk =
  Some (if lukb s then msk
        else match check_tree s with
             | Ok (_, Some p, _) => mask_prefix p C (upd i (fun _ => false) msk)
             | _ => msk
             end).
Proof.
  intros n C i s msk Hlen [p [t [Hct Hp]]] Hs Hm. unfold body.
  assert (Hi : i < length msk) by (rewrite Hm; apply nth_error_Some; congruence).
  destruct (nth_error msk i) as [b|] eqn:Eb; [|apply nth_error_None in Eb; lia].
  cbn [bindc]. replace (if negb b then Some tt else Some tt) with (Some tt) by (destruct b; reflexivity). cbn [bindc].
  unfold np_row. cbn [arows]. rewrite Hs. cbn [bindc].
  pose proof (check_tree_code_refines s) as R. rewrite Hct in R. rewrite R. cbn [bindc]. rewrite Hct.
  destruct (lukb s) eqn:El; cbn [negb]; [reflexivity|].
  destruct (Hp eq_refl) as [p' [-> Hp']].
  unfold np_set. rewrite Eb. cbn [bindc]. rewrite set_nth_upd.
  pose proof (mask_code n C p' (upd i (fun _ : bool => false) msk) Hlen Hp' ltac:(now rewrite upd_length)) as M.
  destruct (np_eq_rowvec (np_cols_upto (mkArr n C) (length p')) p') as [m|]; cbn [bindc] in M |- *; [|discriminate].
  rewrite M. reflexivity.
Qed.

Lemma loop_code : forall n C, (forall r, In r C -> length r = n /\ good2 n r) ->
  forall rest i msk, skipn i C = rest -> length msk = length C ->
  match mloop C rest i msk with
  | Ok m' => np_for_from (length rest) i (body (mkArr n C)) msk = Some m'
  | _ => True
  end.
Proof.
  intros n C HC. induction rest as [|s rest IH]; intros i msk Hsk Hm; [reflexivity|].
  assert (Hs : nth_error C i = Some s).
  { rewrite <- (firstn_skipn i C) at 1. rewrite Hsk.
    assert (Hi : i <= length C).
    { destruct (le_lt_dec i (length C)) as [H|H]; [exact H|]. rewrite skipn_all2 in Hsk by lia. discriminate. }
    rewrite nth_error_app2 by (rewrite firstn_length; lia). rewrite firstn_length, Nat.min_l by exact Hi.
    now rewrite Nat.sub_diag. }
  assert (Hsk' : skipn (S i) C = rest).
  { clear - Hsk. revert i Hsk. induction C as [|c C IHC]; intros [|i] H; cbn in *; try discriminate.
    - now inversion H.
    - now apply IHC. }
  destruct (HC s (nth_error_In _ _ Hs)) as [_ Hg].
  assert (Hlen : forall r, In r C -> length r = n) by (intros r Hr; apply (HC r Hr)).
  cbn [mloop length np_for_from]. rewrite (body_step n C i s msk Hlen Hg Hs Hm).
  destruct Hg as [p [t [Hct Hp]]]. rewrite Hct.
  destruct (lukb s) eqn:El.
  - apply IH; assumption.
  - destruct (Hp eq_refl) as [p' [-> _]].
    apply IH; [assumption|]. rewrite mask_prefix_length; [reflexivity|]. now rewrite upd_length.
Qed.

(* ---------- the whole function *)

Lemma code_unfold : forall compl,
  get_allowed_shapes_code compl =
  (let cand := (np_product [0; 1; 2] compl) in
   cand <~ (cand <~ (if (1 <? compl) then (col_1 <~ (np_col cand (Pos 0)) ;;
                               sel_2 <~ (np_rowsel cand (np_ne col_1 0)) ;; Some sel_2) else Some cand) ;;
            col_3 <~ (np_col cand (Neg 1)) ;;
            sel_4 <~ (np_rowsel cand (np_eq col_3 0)) ;;
            (if (1 <? (aw sel_4)) then (col_5 <~ (np_col sel_4 (Neg 2)) ;;
                                sel_6 <~ (np_rowsel sel_4 (np_ne col_5 2)) ;; Some sel_6) else Some sel_4)) ;;
   msk <~ np_for (length (arows cand)) (body cand) (repeat true (length (arows cand))) ;;
   np_rowsel cand msk).
Proof.
  intros compl. unfold get_allowed_shapes_code, body. cbv zeta.
  destruct (1 <? compl).
  - destruct (np_col (np_product [0; 1; 2] compl) (Pos 0)) as [c1|]; [|reflexivity]. cbn [bindc].
    destruct (np_rowsel (np_product [0; 1; 2] compl) (np_ne c1 0)) as [s2|]; [|reflexivity]. cbn [bindc].
    destruct (np_col s2 (Neg 1)) as [c3|]; [|reflexivity]. cbn [bindc].
    destruct (np_rowsel s2 (np_eq c3 0)) as [s4|]; [|reflexivity]. cbn [bindc].
    destruct (1 <? aw s4).
    + destruct (np_col s4 (Neg 2)) as [c5|]; [|reflexivity]. cbn [bindc].
      destruct (np_rowsel s4 (np_ne c5 2)) as [s6|]; [|reflexivity]. cbn [bindc].
      destruct (np_for _ _ _) as [m|]; [|reflexivity]. cbn [bindc].
      destruct (np_rowsel s6 m); reflexivity.
    + cbn [bindc]. destruct (np_for _ _ _) as [m|]; [|reflexivity]. cbn [bindc].
      destruct (np_rowsel s4 m); reflexivity.
  - cbn [bindc].
    destruct (np_col (np_product [0; 1; 2] compl) (Neg 1)) as [c3|]; [|reflexivity]. cbn [bindc].
    destruct (np_rowsel (np_product [0; 1; 2] compl) (np_eq c3 0)) as [s4|]; [|reflexivity]. cbn [bindc].
    destruct (1 <? aw s4).
    + destruct (np_col s4 (Neg 2)) as [c5|]; [|reflexivity]. cbn [bindc].
      destruct (np_rowsel s4 (np_ne c5 2)) as [s6|]; [|reflexivity]. cbn [bindc].
      destruct (np_for _ _ _) as [m|]; [|reflexivity]. cbn [bindc].
      destruct (np_rowsel s6 m); reflexivity.
    + cbn [bindc]. destruct (np_for _ _ _) as [m|]; [|reflexivity]. cbn [bindc].
      destruct (np_rowsel s4 m); reflexivity.
Qed.

Lemma rowsel_apply_mask : forall w (C : list (list nat)) msk, length msk = length C ->
  np_rowsel (mkArr w C) msk = Some (mkArr w (apply_mask C msk)).
Proof.
  intros w C msk H. unfold np_rowsel, apply_mask. cbn [arows aw]. rewrite H, Nat.eqb_refl. reflexivity.
Qed.

Lemma mloop_length : forall C rest i msk m', length msk = length C -> mloop C rest i msk = Ok m' -> length m' = length C.
Proof.
  intros C. induction rest as [|s rest IH]; intros i msk m' Hm H; cbn [mloop] in H.
  - inversion H. now subst.
  - destruct (check_tree s) as [[[[|] [p|]] t]| |]; try discriminate.
    + eapply IH; [|exact H]. exact Hm.
    + eapply IH; [|exact H]. exact Hm.
    + eapply IH; [|exact H]. rewrite mask_prefix_length; [reflexivity|]. now rewrite upd_length.
Qed.

(* the generated get_allowed_shapes is the model's, for every complexity *)
Theorem allowed_code_is_model : forall n,
  get_allowed_shapes_code n = match allowed n with Ok l => Some (mkArr n l) | _ => None end.
Proof.
  intros n. destruct (Nat.eq_dec n 0) as [->|Hn0]; [reflexivity|].
  assert (Hn : 1 <= n) by lia.
  rewrite (allowed_eq n Hn).
  pose proof (allowed_eq n Hn) as HA. unfold allowed in HA. destruct n as [|n']; [lia|]. set (n := S n') in *.
  rewrite code_unfold. cbv zeta. unfold np_product. rewrite np_lprod_lprod. fold (product n).
  assert (Hlen : forall r, In r (product n) -> length r = n).
  { intros r Hr. apply in_lprod in Hr. tauto. }
  rewrite (prefilter_code n (product n) Hn Hlen). cbn [bindc arows].
  set (C := prefilter n (product n)) in *.
  assert (HC : forall r, In r C -> length r = n /\ good2 n r).
  { intros r Hr. apply in_prefilter in Hr. destruct Hr as [Hp [Hlast Hhd]].
    apply in_lprod in Hp. destruct Hp as [Hl Hf]. split; [exact Hl|].
    apply good2_row; auto. now apply le2_of_in012. }
  pose proof (loop_code n C HC C 0 (repeat true (length C)) eq_refl (repeat_length _ _)) as L.
  destruct (mloop C C 0 (repeat true (length C))) as [m'| |] eqn:EM; try discriminate.
  unfold np_for. rewrite L. cbn [bindc].
  rewrite rowsel_apply_mask by (eapply mloop_length; [|exact EM]; apply repeat_length).
  inversion HA as [HA']. reflexivity.
Qed.

(* consequently: no exception for n >= 1, and the rows are exactly the prefix codes of the trees with n nodes *)
Theorem allowed_code_exact : forall n, 1 <= n ->
  exists l, get_allowed_shapes_code n = Some (mkArr n l) /\ l = filter lukb (product n) /\
            (forall s, In s l <-> length s = n /\ exists t, pre t = s) /\ NoDup l.
Proof.
  intros n Hn. destruct (allowed_exact n Hn) as [l [Ha [Hl [Hin Hnd]]]]. exists l.
  split; [|auto]. rewrite allowed_code_is_model, Ha. reflexivity.
Qed.

Theorem allowed_code_zero : get_allowed_shapes_code 0 = None.
Proof. reflexivity. Qed.

(* end to end (C01 -> C02): every row the generated get_allowed_shapes returns for n >= 2 is the prefix code of a tree u with n
   nodes, and the generated check_tree run on that row (as shape_to_functions does) succeeds, considers the whole row and returns
   exactly the parent/left/right arrays of u *)
Theorem allowed_rows_check_tree : forall n l s, 2 <= n ->
  get_allowed_shapes_code n = Some (mkArr n l) -> In s l ->
  exists u, pre u = s /\ Shapes.size u = n /\ check_tree_code s = Some (true, Some s, arr u 0 None).
Proof.
  intros n l s Hn Hc Hin. destruct (allowed_code_exact n ltac:(lia)) as [l' [Hc' [_ [Hspec _]]]].
  rewrite Hc in Hc'. injection Hc' as <-.
  apply Hspec in Hin. destruct Hin as [Hlen [u Hu]]. exists u. split; [exact Hu|].
  assert (Hs : Shapes.size u = n).
  { rewrite <- Hlen, <- Hu. clear. induction u as [|c IH|a IHa b IHb]; cbn [pre Shapes.size length]; try reflexivity.
    - now rewrite IH.
    - rewrite app_length, IHa, IHb. reflexivity. }
  split; [exact Hs|]. rewrite <- Hu. apply code_check_tree_arrays. lia.
Qed.
