(* C19 -- combinatorial part: grid (= np.unique of the concatenation), mask (= np.where equality),
   cache state machine.  Everything in section [Preorder] is proved for EVERY instance of [Fld]
   whose [fleb] is a total preorder, hence both for the executable Q instance and for R. *)
From Coq Require Import ZArith List Bool Lia Sorted.
From ESRV Require Import Model.Trapz.
Import ListNotations.

Section Preorder.
Context {F : Fld}.
Notation T := (car F).
Notation leb := (fleb F).

Definition fle (x y : T) : Prop := leb x y = true.
Definition flt (x y : T) : Prop := @fltb F x y = true.
Definition feqv (x y : T) : Prop := @feqb F x y = true.

Hypothesis leb_total : forall x y : T, fle x y \/ fle y x.
Hypothesis leb_trans : forall x y z : T, fle x y -> fle y z -> fle x z.

Lemma fle_refl : forall x, fle x x.
Proof. intro x. destruct (leb_total x x); assumption. Qed.

Lemma flt_fle : forall x y, flt x y -> fle x y.
Proof.
  unfold flt, fltb, fle. intros x y H. destruct (leb_total x y) as [H1|H1]; [assumption|].
  unfold fle in H1. rewrite H1 in H. discriminate.
Qed.

Lemma flt_not_fle : forall x y, flt x y <-> ~ fle y x.
Proof.
  unfold flt, fltb, fle. intros x y. destruct (leb y x); simpl; split; intro H.
  - discriminate.
  - exfalso; apply H; reflexivity.
  - intro; discriminate.
  - reflexivity.
Qed.

Lemma flt_fle_trans : forall x y z, flt x y -> fle y z -> flt x z.
Proof.
  intros x y z H1 H2. apply flt_not_fle. intro H3. apply (proj1 (flt_not_fle x y) H1).
  apply (leb_trans y z x); assumption.
Qed.

Lemma fle_flt_trans : forall x y z, fle x y -> flt y z -> flt x z.
Proof.
  intros x y z H1 H2. apply flt_not_fle. intro H3. apply (proj1 (flt_not_fle y z) H2).
  apply (leb_trans z x y); assumption.
Qed.

Lemma flt_trans : forall x y z, flt x y -> flt y z -> flt x z.
Proof. intros x y z H1 H2. eapply flt_fle_trans; [exact H1|apply flt_fle; exact H2]. Qed.

Lemma feqv_iff : forall x y, feqv x y <-> fle x y /\ fle y x.
Proof. unfold feqv, feqb, fle. intros. apply andb_true_iff. Qed.

Lemma feqv_refl : forall x, feqv x x.
Proof. intro. apply feqv_iff. split; apply fle_refl. Qed.

Lemma feqv_sym : forall x y, feqv x y -> feqv y x.
Proof. intros x y H. apply feqv_iff in H. apply feqv_iff. tauto. Qed.

Lemma feqv_trans : forall x y z, feqv x y -> feqv y z -> feqv x z.
Proof.
  intros x y z H1 H2. apply feqv_iff in H1. apply feqv_iff in H2. apply feqv_iff.
  split; eapply leb_trans; try apply H1; try apply H2; tauto.
Qed.

Lemma flt_not_feqv : forall x y, flt x y -> ~ feqv y x /\ ~ feqv x y.
Proof.
  intros x y H. apply flt_not_fle in H. split; intro E; apply feqv_iff in E; tauto.
Qed.

Lemma fle_not_feqv_flt : forall x y, fle x y -> @feqb F x y = false -> flt x y.
Proof.
  intros x y H1 H2. apply flt_not_fle. intro H3.
  assert (E : feqv x y) by (apply feqv_iff; tauto). unfold feqv in E. rewrite E in H2. discriminate.
Qed.

(* ---------------------------------------------------------------- insertion sort *)
Lemma insert_In : forall (x y : T) l, In y (insert x l) <-> y = x \/ In y l.
Proof.
  intros x y l. induction l as [|z r IH]; simpl.
  - intuition.
  - destruct (leb x z); simpl; rewrite ?IH; intuition.
Qed.

Lemma insert_sorted : forall (x : T) l, StronglySorted fle l -> StronglySorted fle (insert x l).
Proof.
  intros x l H. induction H as [|z r Hr IH Hz]; simpl.
  - constructor; [constructor|constructor].
  - destruct (leb x z) eqn:E.
    + constructor; [constructor; assumption|].
      constructor; [exact E|]. rewrite Forall_forall in *. intros w Hw.
      apply (leb_trans x z w); [exact E|apply Hz; exact Hw].
    + constructor; [exact IH|]. rewrite Forall_forall in *. intros w Hw.
      apply insert_In in Hw. destruct Hw as [->|Hw]; [|apply Hz; exact Hw].
      destruct (leb_total x z) as [H1|H1]; [unfold fle in H1; rewrite H1 in E; discriminate|exact H1].
Qed.

Lemma isort_In : forall (y : T) l, In y (isort l) <-> In y l.
Proof.
  intros y l. induction l as [|x r IH]; simpl; [tauto|]. rewrite insert_In, IH. intuition.
Qed.

Lemma isort_sorted : forall l : list T, StronglySorted fle (isort l).
Proof. induction l as [|x r IH]; simpl; [constructor|apply insert_sorted; exact IH]. Qed.

(* ---------------------------------------------------------------- dedup of a sorted list *)
Lemma dedup_In : forall (y : T) l, In y (dedup l) -> In y l.
Proof.
  intros y l. induction l as [|x r IH]; simpl; [tauto|].
  destruct r as [|z r']; [simpl; tauto|].
  destruct (feqb x z); [intro H; right; apply IH; exact H|].
  intros [->|H]; [left; reflexivity|right; apply IH; exact H].
Qed.

Lemma dedup_repr : forall (l : list T) x, In x l -> exists y, In y (dedup l) /\ feqv y x.
Proof.
  induction l as [|a r IH]; intros x Hx; [destruct Hx|].
  simpl. destruct r as [|z r'].
  - destruct Hx as [->|[]]. exists x. split; [left; reflexivity|apply feqv_refl].
  - destruct (feqb a z) eqn:E.
    + destruct Hx as [->|Hx]; [|apply IH; exact Hx].
      destruct (IH z (or_introl eq_refl)) as [y [Hy1 Hy2]]. exists y. split; [exact Hy1|].
      eapply feqv_trans; [exact Hy2|apply feqv_sym; exact E].
    + destruct Hx as [->|Hx].
      * exists x. split; [left; reflexivity|apply feqv_refl].
      * destruct (IH x Hx) as [y [Hy1 Hy2]]. exists y. split; [right; exact Hy1|exact Hy2].
Qed.

Lemma dedup_strict : forall l : list T, StronglySorted fle l -> StronglySorted flt (dedup l).
Proof.
  induction l as [|a r IH]; intro H; [constructor|].
  inversion H as [|? ? Hr Ha]; subst. specialize (IH Hr).
  simpl. destruct r as [|z r']; [constructor; constructor|].
  destruct (feqb a z) eqn:E; [exact IH|].
  constructor; [exact IH|]. rewrite Forall_forall in *. intros w Hw.
  apply dedup_In in Hw.
  assert (Haz : flt a z) by (apply fle_not_feqv_flt; [apply Ha; left; reflexivity|exact E]).
  destruct Hw as [<-|Hw]; [exact Haz|].
  eapply flt_fle_trans; [exact Haz|]. inversion Hr as [|? ? _ Hz]; subst.
  rewrite Forall_forall in Hz. apply Hz. exact Hw.
Qed.

Theorem unique_strict : forall l : list T, StronglySorted flt (unique l).
Proof. intro l. apply dedup_strict, isort_sorted. Qed.

Theorem unique_In : forall (l : list T) y, In y (unique l) -> In y l.
Proof. intros l y H. apply dedup_In in H. apply (proj1 (isort_In y l)). exact H. Qed.

Theorem unique_repr : forall (l : list T) x, In x l -> exists y, In y (unique l) /\ feqv y x.
Proof. intros l x H. apply dedup_repr. apply (proj2 (isort_In x l)). exact H. Qed.

(* strictly sorted, by positions: this is "sorted and free of repeated values" *)
Lemma strict_nth : forall (l : list T) d i j, StronglySorted flt l -> i < j < length l -> flt (nth i l d) (nth j l d).
Proof.
  induction l as [|a r IH]; intros d i j H Hij; [simpl in Hij; lia|].
  inversion H as [|? ? Hr Ha]; subst. destruct j as [|j]; [lia|]. simpl in Hij.
  destruct i as [|i]; simpl.
  - rewrite Forall_forall in Ha. apply Ha. apply nth_In. lia.
  - apply IH; [exact Hr|lia].
Qed.

(* ---------------------------------------------------------------- np.where(xs == d) *)
Lemma where_from_nil : forall (xs : list T) d i, (forall z, In z xs -> @feqb F z d = false) -> where_from i xs d = [].
Proof.
  induction xs as [|x r IH]; intros d i H; [reflexivity|]. simpl.
  rewrite (H x (or_introl eq_refl)). apply IH. intros z Hz. apply H. right. exact Hz.
Qed.

Lemma where_from_single : forall (xs : list T) d d0 k i,
  StronglySorted flt xs -> k < length xs -> feqv (nth k xs d0) d -> where_from i xs d = [i + k].
Proof.
  induction xs as [|x r IH]; intros d d0 k i H Hk E; [simpl in Hk; lia|].
  inversion H as [|? ? Hr Hx]; subst. rewrite Forall_forall in Hx. simpl.
  destruct k as [|k]; simpl in E.
  - unfold feqv in E. rewrite E. rewrite Nat.add_0_r. f_equal. apply where_from_nil.
    intros z Hz. destruct (feqb z d) eqn:Ez; [|reflexivity]. exfalso.
    apply (proj1 (flt_not_feqv x z (Hx z Hz))). eapply feqv_trans; [exact Ez|apply feqv_sym; exact E].
  - simpl in Hk. assert (Hk' : k < length r) by lia.
    destruct (feqb x d) eqn:Ex.
    + exfalso. apply (proj2 (flt_not_feqv x (nth k r d0) (Hx _ (nth_In r d0 Hk')))).
      eapply feqv_trans; [exact Ex|apply feqv_sym; exact E].
    + rewrite (IH d d0 k (S i) Hr Hk' E). f_equal. lia.
Qed.

Theorem where_eq_single : forall (xs : list T) d d0 k,
  StronglySorted flt xs -> k < length xs -> feqv (nth k xs d0) d -> where_eq xs d = [k].
Proof. intros xs d d0 k Hs Hk E. unfold where_eq. rewrite (where_from_single xs d d0 k 0 Hs Hk E). reflexivity. Qed.

Lemma squeeze_singletons : forall (xs : list T) d0 (zs : list T),
  StronglySorted flt xs ->
  (forall d, In d zs -> exists y, In y xs /\ feqv y d) ->
  exists m, mask_of xs zs = Some m /\ length m = length zs /\
    forall i, i < length zs -> nth i m 0 < length xs /\ feqv (nth (nth i m 0) xs d0) (nth i zs d0).
Proof.
  intros xs d0 zs Hs. unfold mask_of. induction zs as [|z r IH]; intro Hc.
  - exists []. simpl. repeat split; intros; lia.
  - destruct IH as [m [Hm [Hl Hn]]]; [intros d Hd; apply Hc; right; exact Hd|].
    destruct (Hc z (or_introl eq_refl)) as [y [Hy Ey]].
    destruct (In_nth xs y d0 Hy) as [k [Hk Hk2]].
    assert (W : where_eq xs z = [k]) by (apply (where_eq_single xs z d0 k Hs Hk); rewrite Hk2; exact Ey).
    exists (k :: m). simpl. rewrite W, Hm. split; [reflexivity|]. split; [simpl; lia|].
    intros i Hi. destruct i as [|i]; simpl.
    + split; [exact Hk|rewrite Hk2; exact Ey].
    + apply Hn. simpl in Hi. lia.
Qed.

(* ---------------------------------------------------------------- the grid *)
Lemma grid_some : forall p (zs : list T), zs <> [] -> exists xs, grid p zs = Some xs.
Proof. intros p zs H. destruct zs as [|z r]; [congruence|]. unfold grid. simpl. eexists; reflexivity. Qed.

Lemma grid_none : forall p, @grid F p [] = None.
Proof. reflexivity. Qed.

Lemma grid_is_unique : forall p (zs xs : list T), grid p zs = Some xs ->
  exists pre, xs = unique (pre ++ zs).
Proof.
  intros p zs xs H. unfold grid in H. destruct (lmin zs) as [a|]; [|discriminate].
  destruct (lmax zs) as [b|]; [|discriminate]. injection H as <-. unfold grid_of.
  eexists. rewrite app_assoc. reflexivity.
Qed.

Theorem grid_sorted_nodup : forall p (zs xs : list T), grid p zs = Some xs -> StronglySorted flt xs.
Proof. intros p zs xs H. destruct (grid_is_unique p zs xs H) as [pre ->]. apply unique_strict. Qed.

Theorem grid_sorted_nodup_nth : forall p (zs xs : list T) d i j, grid p zs = Some xs ->
  i < j < length xs -> flt (nth i xs d) (nth j xs d).
Proof. intros. apply strict_nth; [eapply grid_sorted_nodup; eauto|assumption]. Qed.

Theorem grid_contains_data : forall p (zs xs : list T) d, grid p zs = Some xs -> In d zs ->
  exists y, In y xs /\ feqv y d.
Proof.
  intros p zs xs d H Hd. destruct (grid_is_unique p zs xs H) as [pre ->].
  apply unique_repr. apply in_or_app. right. exact Hd.
Qed.

Theorem mask_correct : forall p (zs xs : list T) d0, grid p zs = Some xs ->
  exists m, mask_of xs zs = Some m /\ length m = length zs /\
    forall i, i < length zs -> nth i m 0 < length xs /\ feqv (nth (nth i m 0) xs d0) (nth i zs d0).
Proof.
  intros p zs xs d0 H. apply squeeze_singletons.
  - eapply grid_sorted_nodup; eauto.
  - intros d Hd. eapply grid_contains_data; eauto.
Qed.

(* ---------------------------------------------------------------- cache state machine *)
(* after clear_data, whatever the cache held, the next call behaves as on a fresh instance:
   grid and mask are recomputed from the argument of that call *)
Theorem cache_rebuilt_after_clear : forall p (st : cache F) (zs : list T) h2,
  get_pred_dl p (clear_data st) zs h2 = get_pred_dl p cache_empty zs h2.
Proof. reflexivity. Qed.

Theorem fresh_call_builds_from_argument : forall p (zs : list T) h2, zs <> [] ->
  exists xs m, grid p zs = Some xs /\ mask_of xs zs = Some m /\
    fst (get_pred_dl p cache_empty zs h2) = mkCache (Some xs) (Some m) /\
    snd (get_pred_dl p cache_empty zs h2)
      = bmul (take_mask (f0 F) (cumtrapz xs (integrand_values h2 xs)) m) zs.
Proof.
  intros p zs h2 Hz. destruct (grid_some p zs Hz) as [xs Hx].
  destruct (mask_correct p zs xs (f0 F) Hx) as [m [Hm _]].
  exists xs, m. unfold get_pred_dl, ensure_cache. simpl. rewrite Hx, Hm. simpl. auto.
Qed.

(* without clear_data a filled cache is reused as it is: the argument of the call is not consulted
   for the grid or the mask (only for the final multiplication) *)
Theorem cache_reused_without_clear : forall p xs m (zs' : list T) h2,
  get_pred_dl p (mkCache (Some xs) (Some m)) zs' h2
  = (mkCache (Some xs) (Some m), bmul (take_mask (f0 F) (cumtrapz xs (integrand_values h2 xs)) m) zs').
Proof. reflexivity. Qed.

(* the call pattern of negloglike (always the same argument): a second call returns what a fresh
   instance returns *)
Theorem cache_same_argument : forall p (zs : list T) h2 h2',
  snd (get_pred_dl p (fst (get_pred_dl p cache_empty zs h2)) zs h2') = snd (get_pred_dl p cache_empty zs h2').
Proof.
  intros p zs h2 h2'. destruct zs as [|z r].
  - reflexivity.
  - destruct (fresh_call_builds_from_argument p (z :: r) h2 ltac:(congruence)) as [xs [m [Hx [Hm [H1 _]]]]].
    destruct (fresh_call_builds_from_argument p (z :: r) h2' ltac:(congruence)) as [xs' [m' [Hx' [Hm' [_ H2]]]]].
    rewrite H1, H2. rewrite Hx in Hx'. injection Hx' as <-. rewrite Hm in Hm'. injection Hm' as <-.
    reflexivity.
Qed.

(* shape facts used downstream *)
Lemma take_mask_length : forall (d0 : T) cum m, length (take_mask d0 cum m) = length m.
Proof. intros. unfold take_mask. apply map_length. Qed.

Lemma take_mask_nth : forall (d0 : T) cum m i, i < length m ->
  nth i (take_mask d0 cum m) d0 = nth (nth i m 0) cum d0.
Proof.
  intros d0 cum m. unfold take_mask. induction m as [|k r IH]; intros i Hi; [simpl in Hi; lia|].
  destruct i as [|i]; simpl; [reflexivity|]. apply IH. simpl in Hi. lia.
Qed.

Lemma zipmul_nth : forall (a b : list T) d i, length a = length b -> i < length a ->
  nth i (zipmul a b) d = fmul F (nth i a d) (nth i b d).
Proof.
  induction a as [|x r IH]; intros b d i Hl Hi; [simpl in Hi; lia|].
  destruct b as [|y s]; [discriminate|]. destruct i as [|i]; simpl; [reflexivity|].
  apply IH; simpl in *; lia.
Qed.

Lemma zipmul_length : forall (a b : list T), length a = length b -> length (zipmul a b) = length a.
Proof.
  induction a as [|x r IH]; intros b Hl; [reflexivity|]. destruct b as [|y s]; [discriminate|].
  simpl. f_equal. apply IH. simpl in Hl. lia.
Qed.

(* with equal lengths bmul is the entry-wise product *)
Lemma bmul_same_length : forall (dl zs : list T), length dl = length zs ->
  exists out, bmul dl zs = Some out /\ length out = length zs /\
    forall d i, i < length zs -> nth i out d = fmul F (nth i dl d) (nth i zs d).
Proof.
  intros dl zs Hl. unfold bmul. destruct dl as [|a [|b r]].
  - destruct zs; [|discriminate]. exists []. simpl. repeat split; intros; lia.
  - destruct zs as [|z [|z' s]]; try discriminate. exists [fmul F a z]. simpl. repeat split.
    intros d i Hi. destruct i; [reflexivity|lia].
  - rewrite Hl, Nat.eqb_refl. eexists. split; [reflexivity|]. split.
    + rewrite zipmul_length; [exact Hl|exact Hl].
    + intros d i Hi. apply zipmul_nth; [exact Hl|lia].
Qed.

End Preorder.
