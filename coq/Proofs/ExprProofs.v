(* Lemmas about Model/Expr.v: decidable equalities, prefix-list round trip, the real identities
   behind the power/exp/log rewrites, and [equiv] being an equivalence relation. *)
From Coq Require Import Reals ZArith List Bool Lia Lra.
From ESRV Require Import Model.Expr.
Import ListNotations.

(* ---------------------------------------------------------------- decidable equalities *)

Lemma nullary_eqb_eq : forall a b, nullary_eqb a b = true <-> a = b.
Proof.
  intros a b; destruct a, b; simpl; split; intro H; try discriminate; try reflexivity.
  - apply Nat.eqb_eq in H; subst; reflexivity.
  - inversion H; apply Nat.eqb_refl.
  - apply Z.eqb_eq in H; subst; reflexivity.
  - inversion H; apply Z.eqb_refl.
Qed.

Lemma unop_eqb_eq : forall a b, unop_eqb a b = true <-> a = b.
Proof. intros a b; destruct a, b; simpl; split; intro H; try discriminate; reflexivity. Qed.

Lemma binop_eqb_eq : forall a b, binop_eqb a b = true <-> a = b.
Proof. intros a b; destruct a, b; simpl; split; intro H; try discriminate; reflexivity. Qed.

Lemma label_eqb_eq : forall a b, label_eqb a b = true <-> a = b.
Proof.
  intros a b; destruct a, b; simpl; split; intro H; try discriminate.
  - apply nullary_eqb_eq in H; subst; reflexivity.
  - inversion H; apply nullary_eqb_eq; reflexivity.
  - apply unop_eqb_eq in H; subst; reflexivity.
  - inversion H; apply unop_eqb_eq; reflexivity.
  - apply binop_eqb_eq in H; subst; reflexivity.
  - inversion H; apply binop_eqb_eq; reflexivity.
Qed.

Lemma expr_eqb_refl : forall e, expr_eqb e e = true.
Proof.
  induction e as [l | o a IH | o a IHa b IHb]; simpl.
  - apply nullary_eqb_eq; reflexivity.
  - rewrite IH. rewrite (proj2 (unop_eqb_eq o o) eq_refl). reflexivity.
  - rewrite IHa, IHb. rewrite (proj2 (binop_eqb_eq o o) eq_refl). reflexivity.
Qed.

Lemma expr_eqb_eq : forall s t, expr_eqb s t = true <-> s = t.
Proof.
  intros s t; split.
  - revert t; induction s as [l | o a IH | o a IHa b IHb]; intros t H; destruct t as [m | p c | p c d]; simpl in H; try discriminate.
    + apply nullary_eqb_eq in H; subst; reflexivity.
    + apply andb_true_iff in H; destruct H as [H1 H2].
      apply unop_eqb_eq in H1; apply IH in H2; subst; reflexivity.
    + apply andb_true_iff in H; destruct H as [H12 H3].
      apply andb_true_iff in H12; destruct H12 as [H1 H2].
      apply binop_eqb_eq in H1; apply IHa in H2; apply IHb in H3; subst; reflexivity.
  - intros ->; apply expr_eqb_refl.
Qed.

Lemma labels_eqb_eq : forall l m, labels_eqb l m = true <-> l = m.
Proof.
  induction l as [| a r IH]; intros m; destruct m as [| b s]; simpl; split; intro H; try discriminate; try reflexivity.
  - apply andb_true_iff in H; destruct H as [H1 H2].
    apply label_eqb_eq in H1; apply IH in H2; subst; reflexivity.
  - inversion H; subst. apply andb_true_iff; split; [apply label_eqb_eq | apply IH]; reflexivity.
Qed.

(* ---------------------------------------------------------------- prefix lists *)

Lemma to_prefix_length : forall e, length (to_prefix e) = size e.
Proof.
  induction e as [l | o a IH | o a IHa b IHb]; simpl.
  - reflexivity.
  - rewrite IH; reflexivity.
  - rewrite app_length, IHa, IHb; reflexivity.
Qed.

Lemma size_pos : forall e, 1 <= size e.
Proof. destruct e; simpl; lia. Qed.

Lemma parse_to_prefix : forall e r fuel, size e <= fuel -> parse fuel (to_prefix e ++ r) = Some (e, r).
Proof.
  induction e as [l | o a IH | o a IHa b IHb]; intros r fuel Hf; destruct fuel as [| f]; simpl in Hf; try lia; simpl.
  - reflexivity.
  - rewrite IH by lia. reflexivity.
  - rewrite <- app_assoc. rewrite IHa by lia. rewrite IHb by lia. reflexivity.
Qed.

Lemma of_prefix_to_prefix : forall e, of_prefix (to_prefix e) = Some e.
Proof.
  intros e. unfold of_prefix.
  rewrite <- (app_nil_r (to_prefix e)) at 2.
  rewrite parse_to_prefix by (rewrite to_prefix_length; lia).
  reflexivity.
Qed.

Lemma parse_sound : forall fuel l e r, parse fuel l = Some (e, r) -> l = to_prefix e ++ r.
Proof.
  induction fuel as [| f IH]; intros l e r H; simpl in H; try discriminate.
  destruct l as [| [n | o | o] l']; try discriminate.
  - inversion H; subst; reflexivity.
  - destruct (parse f l') as [[a r1] |] eqn:Ha; try discriminate.
    inversion H; subst. apply IH in Ha. subst; reflexivity.
  - destruct (parse f l') as [[a r1] |] eqn:Ha; try discriminate.
    destruct (parse f r1) as [[b r2] |] eqn:Hb; try discriminate.
    inversion H; subst. apply IH in Ha. apply IH in Hb. subst. simpl. rewrite <- app_assoc. reflexivity.
Qed.

Lemma of_prefix_sound : forall l e, of_prefix l = Some e -> to_prefix e = l.
Proof.
  intros l e H. unfold of_prefix in H.
  destruct (parse (length l) l) as [[e' r] |] eqn:Hp; try discriminate.
  destruct r; try discriminate. inversion H; subst.
  apply parse_sound in Hp. rewrite app_nil_r in Hp. symmetry; exact Hp.
Qed.

Lemma to_prefix_inj : forall s t, to_prefix s = to_prefix t -> s = t.
Proof.
  intros s t H. assert (Hs := of_prefix_to_prefix s). rewrite H, of_prefix_to_prefix in Hs.
  inversion Hs; reflexivity.
Qed.

Lemma wellformed_to_prefix : forall e, wellformed (to_prefix e) = true.
Proof. intros e. unfold wellformed. rewrite of_prefix_to_prefix. reflexivity. Qed.

Lemma wellformed_iff : forall l, wellformed l = true <-> exists e, to_prefix e = l.
Proof.
  intros l; split.
  - unfold wellformed. destruct (of_prefix l) as [e |] eqn:H; try discriminate.
    intros _. exists e. apply of_prefix_sound; exact H.
  - intros [e <-]. apply wellformed_to_prefix.
Qed.

(* ---------------------------------------------------------------- equiv *)

Lemma equiv_refl : forall t, equiv t t.
Proof. intros t env x; split; [tauto | reflexivity]. Qed.

Lemma equiv_sym : forall t r, equiv t r -> equiv r t.
Proof.
  intros t r H env x. destruct (H env x) as [Hd He]. split; [tauto |].
  intros Hr. symmetry. apply He. apply Hd. exact Hr.
Qed.

Lemma equiv_trans : forall t r s, equiv t r -> equiv r s -> equiv t s.
Proof.
  intros t r s H1 H2 env x. destruct (H1 env x) as [Hd1 He1]. destruct (H2 env x) as [Hd2 He2].
  split; [tauto |]. intros Ht. rewrite He1 by exact Ht. apply He2. apply Hd1. exact Ht.
Qed.

(* ---------------------------------------------------------------- real identities *)
Open Scope R_scope.

Lemma Rabs_pos_nz : forall v, v <> 0 -> 0 < Rabs v.
Proof. intros v H. apply Rabs_pos_lt. exact H. Qed.

Lemma ln_abs_square : forall v, v <> 0 -> ln (Rabs (v * v)) = 2 * ln (Rabs v).
Proof.
  intros v H. rewrite Rabs_mult. rewrite ln_mult by (apply Rabs_pos_nz; exact H). lra.
Qed.

Lemma ln_abs_cube : forall v, v <> 0 -> ln (Rabs (v * v * v)) = 3 * ln (Rabs v).
Proof.
  intros v H. assert (Hp := Rabs_pos_nz v H).
  rewrite !Rabs_mult. rewrite ln_mult; [| apply Rmult_lt_0_compat; exact Hp | exact Hp].
  rewrite ln_mult by exact Hp. lra.
Qed.

Lemma ln_sqrt_half : forall y, 0 < y -> ln (sqrt y) = ln y / 2.
Proof.
  intros y Hy. assert (Hs : 0 < sqrt y) by (apply sqrt_lt_R0; exact Hy).
  assert (H2 : ln (sqrt y * sqrt y) = ln y) by (rewrite sqrt_def by lra; reflexivity).
  rewrite ln_mult in H2 by exact Hs. lra.
Qed.

Lemma ln_abs_sqrt_abs : forall v, v <> 0 -> ln (Rabs (sqrt (Rabs v))) = ln (Rabs v) / 2.
Proof.
  intros v H. assert (Hp := Rabs_pos_nz v H).
  rewrite (Rabs_pos_eq (sqrt (Rabs v))) by apply sqrt_pos.
  apply ln_sqrt_half. exact Hp.
Qed.

Lemma ln_abs_inv : forall v, v <> 0 -> ln (Rabs (/ v)) = - ln (Rabs v).
Proof.
  intros v H. rewrite Rabs_Rinv by exact H. apply ln_Rinv. apply Rabs_pos_nz; exact H.
Qed.

Lemma sqrt_abs_nz : forall v, v <> 0 -> sqrt (Rabs v) <> 0.
Proof.
  intros v H. assert (0 < sqrt (Rabs v)) by (apply sqrt_lt_R0; apply Rabs_pos_nz; exact H). lra.
Qed.

Lemma sqrt_abs_nz_inv : forall v, sqrt (Rabs v) <> 0 -> v <> 0.
Proof. intros v H Hv. apply H. subst. rewrite Rabs_R0. apply sqrt_0. Qed.

Lemma exp_square : forall u, exp u * exp u = exp (2 * u).
Proof. intros u. rewrite <- exp_plus. f_equal. lra. Qed.

Lemma exp_cube : forall u, exp u * exp u * exp u = exp (3 * u).
Proof. intros u. rewrite <- !exp_plus. f_equal. lra. Qed.

Lemma sqrt_abs_exp : forall u, sqrt (Rabs (exp u)) = exp (u / 2).
Proof.
  intros u. rewrite Rabs_pos_eq by (left; apply exp_pos).
  replace (exp u) with (exp (u / 2) * exp (u / 2)) by (rewrite <- exp_plus; f_equal; lra).
  apply sqrt_square. left; apply exp_pos.
Qed.

Lemma inv_exp : forall u, / exp u = exp (- u).
Proof. intros u. symmetry. apply exp_Ropp. Qed.

Lemma exp_nz : forall u, exp u <> 0.
Proof. intros u. assert (H := exp_pos u). lra. Qed.
