(* Proofs about Model/Labels.v: the label enumeration of shape_to_functions / generate_equations
   produces exactly the labelled trees with n nodes over the basis, parameters numbered in
   prefix order, each once. *)
From Coq Require Import String DecimalNat DecimalFacts DecimalString.
From Coq Require Import List Bool Arith Lia Permutation.
From ESRV Require Import Model.Shapes Model.Labels Proofs.ShapesProofs.
Import ListNotations.
Open Scope list_scope.
Open Scope nat_scope.

(* ------------------------------------------------------------------ projections of a labelled tree *)

Fixpoint erase (t : ltree) : tree :=
  match t with
  | LL _ => L
  | LU _ t => U (erase t)
  | LB _ l r => B (erase l) (erase r)
  end.

Definition shape_of (t : ltree) : list nat := pre (erase t).

Fixpoint leaves (t : ltree) : list string :=
  match t with
  | LL x => [x]
  | LU _ t => leaves t
  | LB _ l r => leaves l ++ leaves r
  end.
Fixpoint unaries (t : ltree) : list string :=
  match t with
  | LL _ => []
  | LU f t => f :: unaries t
  | LB _ l r => unaries l ++ unaries r
  end.
Fixpoint binaries (t : ltree) : list string :=
  match t with
  | LL _ => []
  | LU _ t => binaries t
  | LB g l r => g :: binaries l ++ binaries r
  end.

(* labels of the right arity class *)
Fixpoint wf (b : basis) (t : ltree) : Prop :=
  match t with
  | LL x => In x (b0 b)
  | LU f t => In f (b1 b) /\ wf b t
  | LB g l r => In g (b2 b) /\ wf b l /\ wf b r
  end.

Definition quad := (list nat * list string * list string * list string)%type.
Definition quad_of (t : ltree) : quad := (shape_of t, leaves t, unaries t, binaries t).
Definition outfn (q : quad) : list string :=
  match q with (s, l0, l1, l2) => fill s (rename 0 l0) l1 l2 end.

Lemma lsize_shape : forall t, length (shape_of t) = lsize t.
Proof.
  unfold shape_of. induction t; simpl; auto. rewrite app_length. lia.
Qed.

Lemma lsize_pos : forall t, 1 <= lsize t.
Proof. destruct t; simpl; lia. Qed.

Lemma cnt_app : forall a s1 s2, cnt a (s1 ++ s2) = cnt a s1 + cnt a s2.
Proof. induction s1; intros; simpl; auto. rewrite IHs1. lia. Qed.

Lemma cnt_shape : forall t,
  length (leaves t) = cnt 0 (shape_of t) /\
  length (unaries t) = cnt 1 (shape_of t) /\
  length (binaries t) = cnt 2 (shape_of t).
Proof.
  unfold shape_of. induction t as [x|f t IH|g l IHl r IHr]; simpl.
  - auto.
  - destruct IH as [H0 [H1 H2]]. repeat split; lia.
  - destruct IHl as [H0 [H1 H2]]. destruct IHr as [H0' [H1' H2']].
    rewrite !cnt_app, !app_length. repeat split; lia.
Qed.

Lemma wf_iff : forall b t, wf b t <->
  Forall (fun x => In x (b0 b)) (leaves t) /\
  Forall (fun x => In x (b1 b)) (unaries t) /\
  Forall (fun x => In x (b2 b)) (binaries t).
Proof.
  intros b. induction t as [x|f t IH|g l IHl r IHr]; simpl.
  - split.
    + intros H. repeat split; auto.
    + intros [H _]. now inversion H.
  - rewrite IH. split.
    + intros [Hf [H0 [H1 H2]]]. repeat split; auto.
    + intros [H0 [H1 H2]]. inversion H1; subst. repeat split; auto.
  - rewrite IHl, IHr. rewrite !Forall_app. split.
    + intros [Hg [[A0 [A1 A2]] [B0 [B1 B2]]]]. repeat split; auto.
      constructor; auto. apply Forall_app; auto.
    + intros [[A0 B0] [[A1 B1] H2]]. inversion H2 as [|? ? Hg H2']; subst.
      apply Forall_app in H2'. destruct H2'. repeat split; auto.
Qed.

(* ------------------------------------------------------------------ render = fill + rename *)

Lemma fill_number : forall t j s' l0' l1' l2',
  fill (shape_of t ++ s') (rename j (leaves t ++ l0')) (unaries t ++ l1') (binaries t ++ l2') =
  lpre (fst (number j t)) ++ fill s' (rename (snd (number j t)) l0') l1' l2'.
Proof.
  unfold shape_of.
  induction t as [x|f t IH|g l IHl r IHr]; intros j s' l0' l1' l2'; simpl.
  - destruct (String.eqb x "a"); reflexivity.
  - rewrite IH. destruct (number j t) as [t' j']. reflexivity.
  - rewrite <- !app_assoc. rewrite IHl.
    destruct (number j l) as [l' j1]. simpl.
    rewrite IHr. destruct (number j1 r) as [r' j2]. simpl.
    now rewrite <- app_assoc.
Qed.

Lemma render_outfn : forall t, render t = outfn (quad_of t).
Proof.
  intros t. unfold render, outfn, quad_of.
  assert (H := fill_number t 0 [] [] [] []). simpl in H. rewrite !app_nil_r in H. exact (eq_sym H).
Qed.

(* ------------------------------------------------------------------ quad_of is injective *)

Lemma quad_inj_gen : forall t t' s1 s2 a1 a2 u1 u2 c1 c2,
  shape_of t ++ s1 = shape_of t' ++ s2 ->
  leaves t ++ a1 = leaves t' ++ a2 ->
  unaries t ++ u1 = unaries t' ++ u2 ->
  binaries t ++ c1 = binaries t' ++ c2 ->
  t = t' /\ s1 = s2 /\ a1 = a2 /\ u1 = u2 /\ c1 = c2.
Proof.
  unfold shape_of.
  induction t as [x|f t IH|g l IHl r IHr]; intros [x'|f' t'|g' l' r'] s1 s2 a1 a2 u1 u2 c1 c2 Hs Ha Hu Hc;
    simpl in *; try discriminate.
  - inversion Hs; inversion Ha; subst. auto.
  - inversion Hs as [Hs']. inversion Hu as [[Hf Hu']]. subst f'.
    destruct (IH t' _ _ _ _ _ _ _ _ Hs' Ha Hu' Hc) as [-> [? [? [? ?]]]]. auto.
  - inversion Hs as [Hs']. inversion Hc as [[Hg Hc']]. subst g'.
    rewrite <- !app_assoc in Hs', Ha, Hu, Hc'.
    destruct (IHl l' _ _ _ _ _ _ _ _ Hs' Ha Hu Hc') as [-> [Hs'' [Ha'' [Hu'' Hc'']]]].
    destruct (IHr r' _ _ _ _ _ _ _ _ Hs'' Ha'' Hu'' Hc'') as [-> [? [? [? ?]]]]. auto.
Qed.

Lemma quad_of_inj : forall t t', quad_of t = quad_of t' -> t = t'.
Proof.
  intros t t' H. unfold quad_of in H. inversion H as [[Hs Ha Hu Hc]].
  apply (quad_inj_gen t t' [] [] [] [] [] [] [] []); now rewrite !app_nil_r.
Qed.

(* ------------------------------------------------------------------ the spec enumerator *)

Lemma raw_size : forall b fuel n t, In t (raw_trees b fuel n) -> lsize t = n.
Proof.
  intros b. induction fuel as [|f IH]; intros n t H; simpl in H; [contradiction|].
  destruct n as [|[|m]]; [contradiction| |].
  - apply in_map_iff in H. destruct H as [x [<- _]]. reflexivity.
  - apply in_app_or in H. destruct H as [H|H].
    + apply in_flat_map in H. destruct H as [g [_ H]].
      apply in_map_iff in H. destruct H as [t' [<- Ht']]. simpl. now rewrite (IH _ _ Ht').
    + apply in_flat_map in H. destruct H as [k [Hk H]].
      apply in_flat_map in H. destruct H as [g [_ H]].
      apply in_flat_map in H. destruct H as [l [Hl H]].
      apply in_map_iff in H. destruct H as [r [<- Hr]]. simpl.
      rewrite (IH _ _ Hl), (IH _ _ Hr). apply in_seq in Hk. lia.
Qed.

Lemma in_raw : forall b fuel n t, n <= fuel ->
  (In t (raw_trees b fuel n) <-> lsize t = n /\ wf b t).
Proof.
  intros b. induction fuel as [|f IH]; intros n t Hn.
  - simpl. split; [contradiction|]. intros [H _]. assert (H1 := lsize_pos t). lia.
  - simpl. destruct n as [|[|m]].
    + split; [contradiction|]. intros [H _]. assert (H1 := lsize_pos t). lia.
    + rewrite in_map_iff. split.
      * intros [x [<- Hx]]. simpl. auto.
      * intros [Hs Hw]. destruct t as [x|g t|g l r]; simpl in *.
        -- exists x. auto.
        -- assert (H1 := lsize_pos t). lia.
        -- assert (H1 := lsize_pos l). lia.
    + rewrite in_app_iff. split.
      * intros [H|H].
        -- apply in_flat_map in H. destruct H as [g [Hg H]].
           apply in_map_iff in H. destruct H as [t' [<- Ht']].
           apply IH in Ht'; [|lia]. destruct Ht' as [Hs Hw]. simpl. split; [lia|auto].
        -- apply in_flat_map in H. destruct H as [k [Hk H]].
           apply in_flat_map in H. destruct H as [g [Hg H]].
           apply in_flat_map in H. destruct H as [l [Hl H]].
           apply in_map_iff in H. destruct H as [r [<- Hr]].
           apply in_seq in Hk.
           apply IH in Hl; [|lia]. apply IH in Hr; [|lia].
           destruct Hl as [Hsl Hwl]. destruct Hr as [Hsr Hwr]. simpl. split; [lia|auto].
      * intros [Hs Hw]. destruct t as [x|g t|g l r]; simpl in *.
        -- lia.
        -- left. apply in_flat_map. exists g. destruct Hw as [Hg Hw]. split; auto.
           apply in_map. apply IH; [lia|]. split; [lia|auto].
        -- right. destruct Hw as [Hg [Hwl Hwr]].
           assert (H1 := lsize_pos l). assert (H2 := lsize_pos r).
           apply in_flat_map. exists (lsize l). split; [apply in_seq; lia|].
           apply in_flat_map. exists g. split; auto.
           apply in_flat_map. exists l. split; [apply IH; [lia|auto]|].
           apply in_map. destruct (lsize l) as [|k]; [lia|].
           apply IH; [lia|]. split; [lia|auto].
Qed.

Lemma NoDup_raw : forall b, NoDup (b0 b) -> NoDup (b1 b) -> NoDup (b2 b) ->
  forall fuel n, NoDup (raw_trees b fuel n).
Proof.
  intros b N0 N1 N2. induction fuel as [|f IH]; intros n; simpl; [constructor|].
  destruct n as [|[|m]]; [constructor| |].
  - apply NoDup_map_inj; auto. intros x y _ _ E. now inversion E.
  - apply NoDup_app_intro.
    + apply NoDup_flat_map; auto.
      * intros g _. apply NoDup_map_inj; auto. intros x y _ _ E. now inversion E.
      * intros g g' z _ _ Hz Hz'. apply in_map_iff in Hz. apply in_map_iff in Hz'.
        destruct Hz as [? [<- _]]. destruct Hz' as [? [E _]]. now inversion E.
    + apply NoDup_flat_map.
      * apply seq_NoDup.
      * intros k _. apply NoDup_flat_map; auto.
        -- intros g _. apply NoDup_flat_map; auto.
           ++ intros l _. apply NoDup_map_inj; auto. intros x y _ _ E. now inversion E.
           ++ intros l l' z _ _ Hz Hz'. apply in_map_iff in Hz. apply in_map_iff in Hz'.
              destruct Hz as [? [<- _]]. destruct Hz' as [? [E _]]. now inversion E.
        -- intros g g' z _ _ Hz Hz'.
           apply in_flat_map in Hz. destruct Hz as [l [_ Hz]].
           apply in_flat_map in Hz'. destruct Hz' as [l' [_ Hz']].
           apply in_map_iff in Hz. apply in_map_iff in Hz'.
           destruct Hz as [? [<- _]]. destruct Hz' as [? [E _]]. now inversion E.
      * intros k k' z _ _ Hz Hz'.
        apply in_flat_map in Hz. destruct Hz as [g [_ Hz]].
        apply in_flat_map in Hz. destruct Hz as [l [Hl Hz]].
        apply in_flat_map in Hz'. destruct Hz' as [g' [_ Hz']].
        apply in_flat_map in Hz'. destruct Hz' as [l' [Hl' Hz']].
        apply in_map_iff in Hz. apply in_map_iff in Hz'.
        destruct Hz as [? [<- _]]. destruct Hz' as [? [E _]]. inversion E; subst.
        apply raw_size in Hl. apply raw_size in Hl'. congruence.
    + intros z Hz Hz'.
      apply in_flat_map in Hz. destruct Hz as [g [_ Hz]]. apply in_map_iff in Hz.
      destruct Hz as [? [<- _]].
      apply in_flat_map in Hz'. destruct Hz' as [k [_ Hz']].
      apply in_flat_map in Hz'. destruct Hz' as [g' [_ Hz']].
      apply in_flat_map in Hz'. destruct Hz' as [l' [_ Hz']].
      apply in_map_iff in Hz'. destruct Hz' as [? [E _]]. discriminate.
Qed.

(* ------------------------------------------------------------------ the model's enumeration as quadruples *)

Definition quads_s (s : list nat) (b : basis) : list quad :=
  flat_map (fun l0 =>
    flat_map (fun l1 => map (fun l2 => (s, l0, l1, l2)) (lprod (b2 b) (cnt 2 s)))
             (lprod (b1 b) (cnt 1 s)))
           (lprod (b0 b) (cnt 0 s)).

Definition quads (n : nat) (b : basis) : list quad :=
  flat_map (fun s => quads_s s b) (allowed_spec n).

Lemma map_flat_map : forall A B C (f : B -> C) (g : A -> list B) l,
  map f (flat_map g l) = flat_map (fun x => map f (g x)) l.
Proof. induction l; simpl; auto. now rewrite map_app, IHl. Qed.

Lemma flat_map_map : forall A B C (f : B -> list C) (g : A -> B) l,
  flat_map f (map g l) = flat_map (fun x => f (g x)) l.
Proof. induction l; simpl; auto. now rewrite IHl. Qed.

Lemma labelings_quads : forall s b, labelings s b = map outfn (quads_s s b).
Proof.
  intros s b. unfold labelings, quads_s. rewrite flat_map_map, map_flat_map.
  apply flat_map_ext. intros l0. rewrite map_flat_map.
  apply flat_map_ext. intros l1. rewrite map_map. reflexivity.
Qed.

Lemma in_quads_s : forall s b q, In q (quads_s s b) <->
  exists l0 l1 l2, q = (s, l0, l1, l2) /\
    In l0 (lprod (b0 b) (cnt 0 s)) /\ In l1 (lprod (b1 b) (cnt 1 s)) /\ In l2 (lprod (b2 b) (cnt 2 s)).
Proof.
  intros s b q. unfold quads_s. rewrite in_flat_map. split.
  - intros [l0 [H0 H]]. apply in_flat_map in H. destruct H as [l1 [H1 H]].
    apply in_map_iff in H. destruct H as [l2 [<- H2]]. exists l0, l1, l2. auto.
  - intros [l0 [l1 [l2 [-> [H0 [H1 H2]]]]]]. exists l0. split; auto.
    apply in_flat_map. exists l1. split; auto. apply in_map_iff. exists l2. auto.
Qed.

Lemma NoDup_quads_s : forall s b, NoDup (b0 b) -> NoDup (b1 b) -> NoDup (b2 b) -> NoDup (quads_s s b).
Proof.
  intros s b N0 N1 N2. unfold quads_s.
  apply NoDup_flat_map; [now apply NoDup_lprod| |].
  - intros l0 _. apply NoDup_flat_map; [now apply NoDup_lprod| |].
    + intros l1 _. apply NoDup_map_inj; [|now apply NoDup_lprod]. intros x y _ _ E. now inversion E.
    + intros l1 l1' z _ _ Hz Hz'. apply in_map_iff in Hz. apply in_map_iff in Hz'.
      destruct Hz as [? [<- _]]. destruct Hz' as [? [E _]]. now inversion E.
  - intros l0 l0' z _ _ Hz Hz'.
    apply in_flat_map in Hz. destruct Hz as [l1 [_ Hz]].
    apply in_flat_map in Hz'. destruct Hz' as [l1' [_ Hz']].
    apply in_map_iff in Hz. apply in_map_iff in Hz'.
    destruct Hz as [? [<- _]]. destruct Hz' as [? [E _]]. now inversion E.
Qed.

Lemma NoDup_quads : forall n b, NoDup (b0 b) -> NoDup (b1 b) -> NoDup (b2 b) -> NoDup (quads n b).
Proof.
  intros n b N0 N1 N2. unfold quads. apply NoDup_flat_map.
  - apply allowed_spec_NoDup.
  - intros s _. now apply NoDup_quads_s.
  - intros s s' z _ _ Hz Hz'. apply in_quads_s in Hz. apply in_quads_s in Hz'.
    destruct Hz as [? [? [? [-> _]]]]. destruct Hz' as [? [? [? [E _]]]]. now inversion E.
Qed.

(* every unlabelled tree can be labelled by any label lists of the right lengths *)
Lemma build : forall u l0 l1 l2,
  length l0 = cnt 0 (pre u) -> length l1 = cnt 1 (pre u) -> length l2 = cnt 2 (pre u) ->
  exists t, shape_of t = pre u /\ leaves t = l0 /\ unaries t = l1 /\ binaries t = l2.
Proof.
  unfold shape_of.
  induction u as [|u IH|ul IHl ur IHr]; intros l0 l1 l2 H0 H1 H2; simpl in *.
  - destruct l0 as [|x [|? ?]]; simpl in H0; try lia.
    destruct l1; simpl in H1; try lia. destruct l2; simpl in H2; try lia.
    exists (LL x). auto.
  - destruct l1 as [|f l1]; simpl in H1; try lia.
    destruct (IH l0 l1 l2) as [t [Hs [Ha [Hu Hc]]]]; try lia.
    exists (LU f t). simpl. rewrite Hs, Ha, Hu, Hc. auto.
  - rewrite cnt_app in H0, H1, H2.
    destruct l2 as [|g l2]; simpl in H2; try lia.
    destruct (IHl (firstn (cnt 0 (pre ul)) l0) (firstn (cnt 1 (pre ul)) l1) (firstn (cnt 2 (pre ul)) l2))
      as [tl [Hs [Ha [Hu Hc]]]]; try (rewrite firstn_length; lia).
    destruct (IHr (skipn (cnt 0 (pre ul)) l0) (skipn (cnt 1 (pre ul)) l1) (skipn (cnt 2 (pre ul)) l2))
      as [tr [Hs' [Ha' [Hu' Hc']]]]; try (rewrite skipn_length; lia).
    exists (LB g tl tr). simpl. rewrite Hs, Ha, Hu, Hc, Hs', Ha', Hu', Hc'.
    rewrite !firstn_skipn. auto.
Qed.

Lemma quads_raw_same : forall n b q,
  In q (quads n b) <-> In q (map quad_of (raw_trees b n n)).
Proof.
  intros n b q. unfold quads. rewrite in_flat_map, in_map_iff. split.
  - intros [s [Hs Hq]]. apply in_quads_s in Hq.
    destruct Hq as [l0 [l1 [l2 [-> [H0 [H1 H2]]]]]].
    apply allowed_spec_exact in Hs. destruct Hs as [Hlen [u Hu]]. subst s.
    apply in_lprod in H0. apply in_lprod in H1. apply in_lprod in H2.
    destruct H0 as [L0 F0]. destruct H1 as [L1 F1]. destruct H2 as [L2 F2].
    destruct (build u l0 l1 l2 L0 L1 L2) as [t [Hs [Ha [Hu Hc]]]].
    exists t. split.
    + unfold quad_of. now rewrite Hs, Ha, Hu, Hc.
    + apply in_raw; [lia|]. split.
      * rewrite <- lsize_shape, Hs. exact Hlen.
      * apply wf_iff. now rewrite Ha, Hu, Hc.
  - intros [t [<- Ht]]. apply in_raw in Ht; [|lia]. destruct Ht as [Hs Hw].
    exists (shape_of t). split.
    + apply allowed_spec_exact. split; [now rewrite lsize_shape|]. exists (erase t). reflexivity.
    + apply in_quads_s. exists (leaves t), (unaries t), (binaries t). split; [reflexivity|].
      apply wf_iff in Hw. destruct Hw as [F0 [F1 F2]].
      destruct (cnt_shape t) as [C0 [C1 C2]].
      rewrite !in_lprod. auto.
Qed.

Lemma generate_quads : forall n b, 1 <= n -> generate n b = Ok (map outfn (quads n b)).
Proof.
  intros n b Hn. unfold generate. rewrite (allowed_eq n Hn). f_equal.
  unfold quads. rewrite map_flat_map. apply flat_map_ext. intros s. apply labelings_quads.
Qed.

Lemma all_ltrees_quads : forall n b, all_ltrees n b = map outfn (map quad_of (raw_trees b n n)).
Proof.
  intros n b. unfold all_ltrees. rewrite map_map. apply map_ext. intros t. apply render_outfn.
Qed.

(* C01: for every n >= 1 and every duplicate-free basis, generation yields a list which is a
   permutation of the spec-side enumeration of all labelled trees with n nodes. *)
Theorem enumeration_perm : forall n b, 1 <= n ->
  NoDup (b0 b) -> NoDup (b1 b) -> NoDup (b2 b) ->
  exists out, generate n b = Ok out /\ Permutation out (all_ltrees n b).
Proof.
  intros n b Hn N0 N1 N2. exists (map outfn (quads n b)). split; [now apply generate_quads|].
  rewrite all_ltrees_quads. apply Permutation_map.
  apply NoDup_Permutation.
  - now apply NoDup_quads.
  - apply NoDup_map_inj; [|now apply NoDup_raw]. intros x y _ _. apply quad_of_inj.
  - apply quads_raw_same.
Qed.

(* the spec enumerator itself: exactly the well-labelled trees of size n, each once *)
Theorem raw_trees_exact : forall n b t, In t (raw_trees b n n) <-> lsize t = n /\ wf b t.
Proof. intros. apply in_raw. lia. Qed.

Theorem raw_trees_NoDup : forall n b, NoDup (b0 b) -> NoDup (b1 b) -> NoDup (b2 b) ->
  NoDup (raw_trees b n n).
Proof. intros. now apply NoDup_raw. Qed.

Lemma pre_app_inj : forall t t' r r', pre t ++ r = pre t' ++ r' -> t = t' /\ r = r'.
Proof.
  induction t as [|t IH|l IHl r0 IHr]; intros [|t'|l' r0'] r r' H; simpl in *; try discriminate.
  - inversion H. auto.
  - inversion H as [H']. destruct (IH _ _ _ H') as [-> ->]. auto.
  - inversion H as [H']. rewrite <- !app_assoc in H'.
    destruct (IHl _ _ _ H') as [-> H'']. destruct (IHr _ _ _ H'') as [-> ->]. auto.
Qed.

(* per shape: the label lists produced for the shape s = pre u are exactly the renderings of
   the well-labelled trees of that shape *)
Theorem labelings_exact : forall u b x,
  In x (labelings (pre u) b) <-> exists t, erase t = u /\ wf b t /\ x = render t.
Proof.
  intros u b x. rewrite labelings_quads, in_map_iff. split.
  - intros [q [<- Hq]]. apply in_quads_s in Hq.
    destruct Hq as [l0 [l1 [l2 [-> [H0 [H1 H2]]]]]].
    apply in_lprod in H0. apply in_lprod in H1. apply in_lprod in H2.
    destruct H0 as [L0 F0]. destruct H1 as [L1 F1]. destruct H2 as [L2 F2].
    destruct (build u l0 l1 l2 L0 L1 L2) as [t [Hs [Ha [Hu Hc]]]].
    exists t. split; [|split].
    + unfold shape_of in Hs. apply (pre_app_inj (erase t) u [] []). now rewrite !app_nil_r.
    + apply wf_iff. now rewrite Ha, Hu, Hc.
    + rewrite render_outfn. unfold quad_of. now rewrite Hs, Ha, Hu, Hc.
  - intros [t [<- [Hw ->]]]. exists (quad_of t). split; [symmetry; apply render_outfn|].
    apply in_quads_s. exists (leaves t), (unaries t), (binaries t). split; [reflexivity|].
    apply wf_iff in Hw. destruct Hw as [F0 [F1 F2]].
    destruct (cnt_shape t) as [C0 [C1 C2]]. unfold shape_of in *.
    rewrite !in_lprod. auto.
Qed.

(* ------------------------------------------------------------------ no duplicate lines *)

(* no basis label looks like a numbered parameter, and the three arity classes are disjoint *)
Definition clean (b : basis) : Prop :=
  (forall k, ~ In (param_name k) (b0 b)) /\
  (forall k, ~ In (param_name k) (b1 b)) /\
  (forall k, ~ In (param_name k) (b2 b)) /\
  (forall x, In x (b0 b) -> ~ In x (b1 b)) /\
  (forall x, In x (b0 b) -> ~ In x (b2 b)) /\
  (forall x, In x (b1 b) -> ~ In x (b2 b)).

Lemma number_inj_gen : forall b, clean b ->
  forall t t' j t1 j1 t1' j1' r r', wf b t -> wf b t' ->
  number j t = (t1, j1) -> number j t' = (t1', j1') ->
  lpre t1 ++ r = lpre t1' ++ r' -> t = t' /\ r = r'.
Proof.
  intros b [P0 [P1 [P2 [D01 [D02 D12]]]]].
  induction t as [x|f t IH|g l IHl r0 IHr];
    intros [x'|f' t'|g' l' r0'] j t1 j1 t1' j1' r r' Hw Hw' N N' H; simpl in *.
  - destruct (String.eqb x "a") eqn:E; destruct (String.eqb x' "a") eqn:E';
      inversion N; inversion N'; subst; simpl in H; inversion H; subst.
    + apply String.eqb_eq in E. apply String.eqb_eq in E'. subst. auto.
    + exfalso. eapply P0; eassumption.
    + exfalso. eapply P0; eassumption.
    + auto.
  - exfalso. destruct (number j t') as [a ja]. inversion N'; subst. destruct Hw' as [Hf' _].
    destruct (String.eqb x "a"); inversion N; subst; simpl in H; inversion H; subst.
    + eapply P1; eassumption.
    + eapply D01; eassumption.
  - exfalso. destruct (number j l') as [a ja]. destruct (number ja r0') as [c jc].
    inversion N'; subst. destruct Hw' as [Hg' _].
    destruct (String.eqb x "a"); inversion N; subst; simpl in H; inversion H; subst.
    + eapply P2; eassumption.
    + eapply D02; eassumption.
  - exfalso. destruct (number j t) as [a ja]. inversion N; subst. destruct Hw as [Hf _].
    destruct (String.eqb x' "a"); inversion N'; subst; simpl in H; inversion H; subst.
    + eapply P1; eassumption.
    + eapply D01; eassumption.
  - destruct (number j t) as [a ja] eqn:E. destruct (number j t') as [a' ja'] eqn:E'.
    inversion N; inversion N'; subst. simpl in H. inversion H as [[Hf H']]. subst f'.
    destruct Hw as [_ Hw]. destruct Hw' as [_ Hw'].
    destruct (IH t' j a j1 a' j1' r r' Hw Hw' E E' H') as [-> ->]. auto.
  - exfalso. destruct (number j t) as [a ja]. inversion N; subst.
    destruct (number j l') as [a' ja']. destruct (number ja' r0') as [c jc]. inversion N'; subst.
    simpl in H. inversion H; subst. destruct Hw as [Hf _]. destruct Hw' as [Hg _].
    eapply D12; eassumption.
  - exfalso. destruct (number j l) as [a ja]. destruct (number ja r0) as [c jc].
    inversion N; subst. destruct Hw as [Hg _].
    destruct (String.eqb x' "a"); inversion N'; subst; simpl in H; inversion H; subst.
    + eapply P2; eassumption.
    + eapply D02; eassumption.
  - exfalso. destruct (number j t') as [a ja]. inversion N'; subst.
    destruct (number j l) as [a' ja']. destruct (number ja' r0) as [c jc]. inversion N; subst.
    simpl in H. inversion H; subst. destruct Hw as [Hg _]. destruct Hw' as [Hf _].
    eapply D12; eassumption.
  - destruct (number j l) as [a ja] eqn:E1. destruct (number ja r0) as [c jc] eqn:E2.
    destruct (number j l') as [a' ja'] eqn:E1'. destruct (number ja' r0') as [c' jc'] eqn:E2'.
    inversion N; inversion N'; subst. simpl in H. inversion H as [[Hg H']]. subst g'.
    rewrite <- !app_assoc in H'.
    destruct Hw as [_ [Hwl Hwr]]. destruct Hw' as [_ [Hwl' Hwr']].
    destruct (IHl l' j a ja a' ja' _ _ Hwl Hwl' E1 E1' H') as [-> H''].
    rewrite E1 in E1'. inversion E1'; subst.
    destruct (IHr r0' ja' c j1 c' j1' r r' Hwr Hwr' E2 E2' H'') as [-> ->]. auto.
Qed.

Lemma render_inj : forall b, clean b -> forall t t', wf b t -> wf b t' -> render t = render t' -> t = t'.
Proof.
  intros b Hc t t' Hw Hw' H. unfold render in H.
  destruct (number 0 t) as [a ja] eqn:E. destruct (number 0 t') as [a' ja'] eqn:E'. simpl in H.
  apply (number_inj_gen b Hc t t' 0 a ja a' ja' [] [] Hw Hw' E E'). now rewrite !app_nil_r.
Qed.

Theorem all_ltrees_NoDup : forall n b, NoDup (b0 b) -> NoDup (b1 b) -> NoDup (b2 b) -> clean b ->
  NoDup (all_ltrees n b).
Proof.
  intros n b N0 N1 N2 Hc. unfold all_ltrees. apply NoDup_map_inj; [|now apply NoDup_raw].
  intros x y Hx Hy. apply in_raw in Hx; [|lia]. apply in_raw in Hy; [|lia].
  apply (render_inj b Hc); tauto.
Qed.

(* C01, top level *)
Theorem enumeration : forall n b, 1 <= n ->
  NoDup (b0 b) -> NoDup (b1 b) -> NoDup (b2 b) ->
  exists out, generate n b = Ok out /\ Permutation out (all_ltrees n b) /\ (clean b -> NoDup out).
Proof.
  intros n b Hn N0 N1 N2. destruct (enumeration_perm n b Hn N0 N1 N2) as [out [Hg Hp]].
  exists out. split; auto. split; auto. intros Hc.
  apply (Permutation_NoDup (Permutation_sym Hp)). now apply all_ltrees_NoDup.
Qed.

(* ------------------------------------------------------------------ the shipped bases are duplicate-free and clean *)

Lemma param_name_not_a : forall k, param_name k <> "a"%string.
Proof.
  intros k H. unfold param_name in H. simpl in H. inversion H as [H'].
  assert (Hn : Nat.to_uint k <> Decimal.Nil).
  { rewrite <- (DecimalNat.Unsigned.of_to k) at 1. rewrite DecimalNat.Unsigned.to_of.
    apply DecimalFacts.unorm_nonnil. }
  destruct (Nat.to_uint k); simpl in H'; try discriminate. congruence.
Qed.

Ltac clean_tac :=
  repeat split;
  try (intros k H; simpl in H; unfold param_name in H; simpl in H;
       repeat (destruct H as [H|H]; [try discriminate; exfalso; apply (param_name_not_a k); unfold param_name; simpl; congruence|]);
       contradiction);
  try (intros x H H'; simpl in H, H';
       repeat (destruct H as [H|H]; [subst x; repeat (destruct H' as [H'|H']; [discriminate|]); contradiction|]);
       contradiction).

Ltac nodup_tac := repeat (constructor; [simpl; intros H; repeat (destruct H as [H|H]; [discriminate|]); contradiction|]); constructor.

Lemma shipped_clean :
  clean core_maths /\ clean ext_maths /\ clean keep_duplicates /\ clean osc_maths /\
  clean base10_maths /\ clean base_e_maths.
Proof. repeat split; clean_tac. Qed.

Lemma shipped_nodup :
  (NoDup (b0 core_maths) /\ NoDup (b1 core_maths) /\ NoDup (b2 core_maths)) /\
  (NoDup (b0 ext_maths) /\ NoDup (b1 ext_maths) /\ NoDup (b2 ext_maths)) /\
  (NoDup (b0 keep_duplicates) /\ NoDup (b1 keep_duplicates) /\ NoDup (b2 keep_duplicates)) /\
  (NoDup (b0 osc_maths) /\ NoDup (b1 osc_maths) /\ NoDup (b2 osc_maths)) /\
  (NoDup (b0 base10_maths) /\ NoDup (b1 base10_maths) /\ NoDup (b2 base10_maths)) /\
  (NoDup (b0 base_e_maths) /\ NoDup (b1 base_e_maths) /\ NoDup (b2 base_e_maths)).
Proof. repeat split; nodup_tac. Qed.
