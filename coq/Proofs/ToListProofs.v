(* Proofs for Model/ToList.v (C18). *)
From Coq Require Import String Ascii List Bool Arith ZArith QArith Qround Reals Qreals Lia Lra.
From ESRV Require Import Model.ToList.
Import ListNotations.
Open Scope string_scope.

(* ================================================================ prefix lists *)
Lemma length_to_prefix t : length (to_prefix t) = tsize t.
Proof.
  induction t; simpl; try reflexivity.
  - now rewrite IHt.
  - rewrite app_length, IHt1, IHt2. reflexivity.
Qed.

Lemma parse_to_prefix : forall t rest fuel,
  twf t -> (tsize t <= fuel)%nat -> parse fuel (to_prefix t ++ rest)%list = Some (t, rest).
Proof.
  induction t as [x q|s|o|o a IHa|o a IHa c IHc]; intros rest fuel Hwf Hf;
    (destruct fuel as [|f]; [simpl in Hf; lia|]); simpl in *.
  - reflexivity.
  - reflexivity.
  - rewrite Hwf. reflexivity.
  - destruct Hwf as [Har Hwa]. rewrite Har. rewrite IHa by (auto; lia). reflexivity.
  - destruct Hwf as [Har [Hwa Hwc]]. rewrite Har. rewrite <- app_assoc.
    rewrite IHa by (auto; lia). rewrite IHc by (auto; lia). reflexivity.
Qed.

Lemma of_prefix_to_prefix t : twf t -> of_prefix (to_prefix t) = Some t.
Proof.
  intro H. unfold of_prefix.
  rewrite <- (app_nil_r (to_prefix t)) at 2.
  rewrite parse_to_prefix; auto. rewrite length_to_prefix. lia.
Qed.

(* ================================================================ reals *)
Open Scope R_scope.
Lemma Q2R_inject_Z z : Q2R (inject_Z z) = IZR z.
Proof. unfold Q2R, inject_Z. simpl. rewrite Rinv_1. apply Rmult_1_r. Qed.
Lemma Q2R_half : Q2R (1 # 2) = / 2.
Proof. unfold Q2R. simpl. lra. Qed.
Lemma powerRZ_m1 u : powerRZ u (-1) = / u.
Proof. simpl. rewrite Rmult_1_r. reflexivity. Qed.
Lemma Rpower_2 u : 0 < u -> Rpower u 2 = u * u.
Proof. intro H. replace 2 with (INR 2) by (simpl; lra). rewrite Rpower_pow by assumption. simpl. ring. Qed.
Lemma Rpower_3 u : 0 < u -> Rpower u 3 = u * u * u.
Proof. intro H. replace 3 with (INR 3) by (simpl; lra). rewrite Rpower_pow by assumption. simpl. ring. Qed.
Lemma Rabs_pos u : 0 < u -> Rabs u = u.
Proof. intro H. apply Rabs_pos_eq. lra. Qed.
Lemma Qeq_bool_R a c : Qeq_bool a c = true -> Q2R a = Q2R c.
Proof. intro H. apply Qeq_eqR. apply Qeq_bool_iff. exact H. Qed.
Lemma pw_pos u k v : 0 < u -> (forall z, k = Some z -> v = IZR z) -> pw u k v = Rpower u v.
Proof.
  intros Hu Hk. destruct k as [z|]; simpl; [|reflexivity].
  rewrite (Hk z eq_refl). apply powerRZ_Rpower. exact Hu.
Qed.
Close Scope R_scope.

(* ================================================================ to_list, unfolded once *)
Definition tsub (b : basis) (d : dnode) (k : kref) : option (list label) :=
  match k, d with
  | KC0, D1 op _ _ _ c0 => to_list b (Some op) c0
  | KC0, D2 op _ _ _ c0 _ => to_list b (Some op) c0
  | KC1, D2 op _ _ _ _ c1 => to_list b (Some op) c1
  | KC10, D2 _ _ _ _ _ (D1 op1 _ _ _ g0) => to_list b (Some op1) g0
  | KC10, D2 _ _ _ _ _ (D2 op1 _ _ _ g0 _) => to_list b (Some op1) g0
  | KC11, D2 _ _ _ _ _ (D2 op1 _ _ _ _ g1) => to_list b (Some op1) g1
  | _, _ => None
  end.
Definition otsub (b : basis) (d : dnode) (k : option kref) : option (list label) :=
  match k with None => Some [] | Some k => tsub b d k end.
Lemma to_list_eq b pop d :
  to_list b pop d =
  match decide b pop d with
  | AErr => None
  | AOut pre k1 k2 post => m1 <- otsub b d k1 ;; m2 <- otsub b d k2 ;; Some (pre ++ m1 ++ m2 ++ post)%list
  end.
Proof. destruct d; reflexivity. Qed.

(* ---- the chain of to_list, one lemma per operator of a two-argument node *)
Lemma decide_Pow b pop ty n v c0 c1 :
  decide b pop (D2 "Pow" ty (S (S n)) v c0 c1) =
  if String.eqb (dty c1) "Half" && (mem "sqrt" (b1 b) || mem "sqrt_abs" (b1 b))
  then (if mem "sqrt" (b1 b) then AOut [LOp "sqrt"] (Some KC0) None [] else AOut [LOp "sqrt_abs"] (Some KC0) None [])
  else if val_is (dvl c1) "2" && mem "square" (b1 b) then AOut [LOp "square"] (Some KC0) None []
  else if val_is (dvl c1) "3" && mem "cube" (b1 b) then AOut [LOp "cube"] (Some KC0) None []
  else if String.eqb (dty c1) "NegativeOne" && mem "inv" (b1 b) then AOut [LOp "Inv"] (Some KC0) None []
  else AOut [LOp "Pow"] (Some KC0) (Some KC1) [].
Proof.
  unfold decide. cbn -[mem val_is String.eqb].
  change (String.eqb "Pow" "Pow") with true. cbn -[mem val_is String.eqb].
  destruct (String.eqb (dty c1) "Half" && (mem "sqrt" (b1 b) || mem "sqrt_abs" (b1 b))); [reflexivity|].
  cbn -[mem val_is String.eqb].
  destruct (val_is (dvl c1) "2" && mem "square" (b1 b)); [reflexivity|].
  cbn -[mem val_is String.eqb].
  change (String.eqb "Pow" "Square") with false. cbn -[mem val_is String.eqb].
  destruct (val_is (dvl c1) "3" && mem "cube" (b1 b)); [reflexivity|].
  cbn -[mem val_is String.eqb].
  change (String.eqb "Pow" "Cube") with false. cbn -[mem val_is String.eqb].
  destruct (String.eqb (dty c1) "NegativeOne" && mem "inv" (b1 b)); [reflexivity|].
  cbn. reflexivity.
Qed.

Lemma decide_Mul b pop ty n v c0 c1 :
  decide b pop (D2 "Mul" ty (S (S n)) v c0 c1) =
  if String.eqb (dop c0) "Pow" && (String.eqb (dty c1) "NegativeOne" && mem "/" (b2 b))
  then AOut [LOp "Mul"] (Some KC1) None []
  else if is_unity c0 then AOut [] (Some KC1) None []
  else if is_unity c1 then AOut [] (Some KC0) None []
  else AOut [LOp "Mul"] (Some KC0) (Some KC1) [].
Proof.
  unfold decide. cbn -[mem is_unity String.eqb].
  change (String.eqb "Mul" "Pow") with false. change (String.eqb "Mul" "Mul") with true.
  change (String.eqb "Mul" "Square") with false. change (String.eqb "Mul" "Cube") with false.
  change (String.eqb "Mul" "Div") with false. change (String.eqb "Mul" "Abs") with false.
  change (String.eqb "Mul" "Add") with false.
  cbn -[mem is_unity String.eqb].
  destruct (String.eqb (dop c0) "Pow"); cbn -[mem is_unity String.eqb].
  - destruct (String.eqb (dty c1) "NegativeOne" && mem "/" (b2 b)); cbn -[mem is_unity String.eqb]; [reflexivity|].
    destruct (is_unity c0); cbn -[mem is_unity String.eqb]; [reflexivity|].
    destruct (is_unity c1); reflexivity.
  - destruct (is_unity c0); cbn -[mem is_unity String.eqb]; [reflexivity|].
    destruct (is_unity c1); reflexivity.
Qed.

Lemma decide_Div b pop ty n v c0 c1 :
  decide b pop (D2 "Div" ty (S (S n)) v c0 c1) =
  if String.eqb (dop c0) "Pow" && (String.eqb (dty c1) "NegativeOne" && mem "*" (b2 b))
  then AOut [LOp "Mul"] (Some KC1) None []
  else AOut [LOp "Div"] (Some KC0) (Some KC1) [].
Proof.
  unfold decide. cbn -[mem is_unity String.eqb].
  change (String.eqb "Div" "Pow") with false. change (String.eqb "Div" "Mul") with false.
  change (String.eqb "Div" "Square") with false. change (String.eqb "Div" "Cube") with false.
  change (String.eqb "Div" "Div") with true. change (String.eqb "Div" "Abs") with false.
  change (String.eqb "Div" "Add") with false.
  cbn -[mem is_unity String.eqb].
  destruct (String.eqb (dop c0) "Pow"); cbn -[mem is_unity String.eqb].
  - destruct (String.eqb (dty c1) "NegativeOne" && mem "*" (b2 b)); reflexivity.
  - reflexivity.
Qed.

Definition sub_kind (c1 : dnode) : option kref :=
  if String.eqb (dop c1) "Mul" then
    match kid0 c1 with
    | Some g0 => if String.eqb (dop g0) "NegativeOne" then Some KC11
                 else match kid1 c1 with
                      | Some g1 => if String.eqb (dop g1) "NegativeOne" then Some KC10 else None
                      | None => None
                      end
    | None => None
    end
  else None.

Lemma decide_Add b pop ty n v c0 c1 :
  (String.eqb (dop c1) "Mul" = true -> exists g0 g1, kid0 c1 = Some g0 /\ kid1 c1 = Some g1) ->
  decide b pop (D2 "Add" ty (S (S n)) v c0 c1) =
  match sub_kind c1 with
  | Some k => AOut [LOp "Sub"] (Some KC0) (Some k) []
  | None => AOut [LOp "Add"] (Some KC0) (Some KC1) []
  end.
Proof.
  intro Hk. unfold decide, sub_kind. cbn -[mem is_unity String.eqb].
  change (String.eqb "Add" "Pow") with false. change (String.eqb "Add" "Mul") with false.
  change (String.eqb "Add" "Square") with false. change (String.eqb "Add" "Cube") with false.
  change (String.eqb "Add" "Div") with false. change (String.eqb "Add" "Abs") with false.
  change (String.eqb "Add" "Add") with true.
  cbn -[mem is_unity String.eqb].
  destruct (String.eqb (dop c1) "Mul") eqn:Hm; cbn -[mem is_unity String.eqb]; [|reflexivity].
  destruct (Hk eq_refl) as [g0 [g1 [H0 H1]]]. rewrite H0, H1. cbn -[mem is_unity String.eqb].
  destruct (String.eqb (dop g0) "NegativeOne"); cbn -[mem is_unity String.eqb]; [reflexivity|].
  destruct (String.eqb (dop g1) "NegativeOne"); reflexivity.
Qed.

(* renamed one-child nodes of degree 2 *)
Lemma decide_Square b pop ty n v c0 :
  decide b pop (D1 "Square" ty (S (S n)) v c0) =
  if mem "sqaure" (b1 b) then AOut [LOp "Square"] (Some KC0) None []
  else AOut [LOp "pow"] (Some KC0) None [LNum "2" 2 2].
Proof. unfold decide. cbn -[mem]. destruct (mem "sqaure" (b1 b)); reflexivity. Qed.
Lemma decide_Cube b pop ty n v c0 :
  decide b pop (D1 "Cube" ty (S (S n)) v c0) =
  if mem "cube" (b1 b) then AOut [LOp "Cube"] (Some KC0) None []
  else AOut [LOp "pow"] (Some KC0) None [LNum "3" 3 3].
Proof. unfold decide. cbn -[mem]. destruct (mem "cube" (b1 b)); reflexivity. Qed.
Lemma decide_Sqrt b pop ty n v c0 :
  decide b pop (D1 "Sqrt" ty (S (S n)) v c0) = AOut [LOp "Sqrt"] (Some KC0) None [].
Proof. reflexivity. Qed.
Lemma decide_Inv b pop ty n v c0 :
  decide b pop (D1 "Inv" ty (S (S n)) v c0) = AOut [LOp "Inv"] (Some KC0) None [].
Proof. reflexivity. Qed.

(* ================================================================ facts about well-shaped nodes *)
Ltac bsplit := repeat match goal with
  | H : _ && _ = true |- _ => apply andb_prop in H; destruct H
  end.
Ltac cdisc := solve [ repeat match goal with
  | H : _ = true |- _ => (vm_compute in H; discriminate H) || clear H
  end ].
Ltac relab_compute := repeat match goal with
  | |- context [relab_str (String ?a ?s)] =>
    let r := eval vm_compute in (relab_str (String a s)) in change (relab_str (String a s)) with r
  | |- context [lower (String ?a ?s)] =>
    let r := eval vm_compute in (lower (String a s)) in change (lower (String a s)) with r
  end.

Lemma mem_In s l : mem s l = true -> In s l.
Proof.
  unfold mem. intro H. apply existsb_exists in H. destruct H as [y [Hy He]].
  apply String.eqb_eq in He. subst. exact Hy.
Qed.

Fixpoint dsize (d : dnode) : nat :=
  match d with
  | D0 _ _ _ _ => 1
  | D1 _ _ _ _ c0 => S (dsize c0)
  | D2 _ _ _ _ c0 c1 => S (dsize c0 + dsize c1)
  end.

Lemma show_sym_not s k : (k = "2" \/ k = "3") -> String.eqb (show_sym s) k = false.
Proof. intros [-> | ->]; destruct s; reflexivity. Qed.

(* a node whose type is one of the number singletons is that number *)
Lemma dty_atom d k :
  dwfb d = true -> (k = "Half" \/ k = "NegativeOne") -> String.eqb (dty d) k = true ->
  exists txt qv qp, d = D0 k k 0 (VNum txt qv qp) /\ numwfb k txt qv qp = true.
Proof.
  intros Hw Hk He. destruct d as [op ty deg v|op ty deg v c0|op ty deg v c0 c1]; simpl in *.
  - bsplit. apply String.eqb_eq in He. subst ty.
    apply Nat.eqb_eq in H. apply String.eqb_eq in H1. subst.
    destruct v as [|txt qv qp|s].
    + discriminate.
    + exists txt, qv, qp. split; [reflexivity|assumption].
    + destruct Hk as [-> | ->]; cdisc.
  - bsplit. apply String.eqb_eq in He. subst ty. destruct Hk as [-> | ->]; cdisc.
  - bsplit. apply String.eqb_eq in He. subst ty. destruct Hk as [-> | ->]; cdisc.
Qed.

Lemma dop_NegativeOne d :
  dwfb d = true -> String.eqb (dop d) "NegativeOne" = true ->
  exists txt qv qp, d = D0 "NegativeOne" "NegativeOne" 0 (VNum txt qv qp) /\ numwfb "NegativeOne" txt qv qp = true.
Proof.
  intros Hw He. destruct d as [op ty deg v|op ty deg v c0|op ty deg v c0 c1]; simpl in *.
  - bsplit. apply String.eqb_eq in He. subst op.
    apply Nat.eqb_eq in H. apply String.eqb_eq in H1. subst.
    destruct v as [|txt qv qp|s]; try discriminate.
    exists txt, qv, qp. split; [reflexivity|assumption].
  - bsplit. apply String.eqb_eq in He. subst op. destruct deg as [|[|[|?]]]; cdisc.
  - bsplit. apply String.eqb_eq in He. subst op. cdisc.
Qed.

Lemma dop_Mul_D2 d :
  dwfb d = true -> String.eqb (dop d) "Mul" = true ->
  exists ty deg g0 g1, d = D2 "Mul" ty (S (S deg)) VNone g0 g1.
Proof.
  intros Hw He. destruct d as [op ty deg v|op ty deg v c0|op ty deg v c0 c1]; simpl in *.
  - bsplit. apply String.eqb_eq in He. subst op. apply String.eqb_eq in H1. subst ty.
    destruct v; try discriminate; try cdisc.
  - bsplit. apply String.eqb_eq in He. subst op. destruct deg as [|[|[|?]]]; cdisc.
  - bsplit. apply String.eqb_eq in He. subst op. destruct v; try discriminate.
    destruct deg as [|[|deg]]; try discriminate. exists ty, deg, c0, c1. reflexivity.
Qed.

Lemma val_is_num d k :
  dwfb d = true -> (k = "2" \/ k = "3") -> val_is (dvl d) k = true ->
  exists op ty qv qp, d = D0 op ty 0 (VNum k qv qp) /\ numwfb ty k qv qp = true.
Proof.
  intros Hw Hk He. destruct d as [op ty deg v|op ty deg v c0|op ty deg v c0 c1]; simpl in *.
  - bsplit. apply Nat.eqb_eq in H. subst. destruct v as [|txt qv qp|s]; simpl in He; try discriminate.
    + apply String.eqb_eq in He. subst. exists op, ty, qv, qp. split; [reflexivity|assumption].
    + rewrite show_sym_not in He by assumption. discriminate.
  - bsplit. destruct v; try discriminate.
  - bsplit. destruct v; try discriminate.
Qed.

Lemma unity_atom d :
  dwfb d = true -> is_unity d = true ->
  exists op ty txt qv qp, d = D0 op ty 0 (VNum txt qv qp) /\ Qeq_bool qp 1 = true.
Proof.
  intros Hw He. unfold is_unity in He.
  destruct d as [op ty deg v|op ty deg v c0|op ty deg v c0 c1]; simpl in *.
  - bsplit. apply Nat.eqb_eq in H. subst. destruct v as [|txt qv qp|s]; try discriminate.
    exists op, ty, txt, qv, qp. split; [reflexivity|assumption].
  - bsplit. destruct v; discriminate.
  - bsplit. destruct v; discriminate.
Qed.

(* ---- what numwfb gives *)
Open Scope R_scope.
Lemma numwf_half txt qv qp : numwfb "Half" txt qv qp = true -> Q2R qv = / 2.
Proof. unfold numwfb. intro H. bsplit. simpl in *. rewrite (Qeq_bool_R _ _ H4). apply Q2R_half. Qed.
Lemma numwf_m1 txt qv qp : numwfb "NegativeOne" txt qv qp = true -> Q2R qv = -1 /\ Qfloor qv = (-1)%Z.
Proof.
  unfold numwfb. intro H. bsplit. simpl in *. split.
  - rewrite (Qeq_bool_R _ _ H3). unfold Q2R. simpl. lra.
  - apply Qeq_bool_iff in H3. rewrite H3. reflexivity.
Qed.
Lemma numwf_txt2 ty qv qp : numwfb ty "2" qv qp = true -> Q2R qp = 2.
Proof. unfold numwfb. intro H. bsplit. simpl in *. rewrite (Qeq_bool_R _ _ H2). unfold Q2R. simpl. lra. Qed.
Lemma numwf_txt3 ty qv qp : numwfb ty "3" qv qp = true -> Q2R qp = 3.
Proof. unfold numwfb. intro H. bsplit. simpl in *. rewrite (Qeq_bool_R _ _ H1). unfold Q2R. simpl. lra. Qed.
Lemma numwf_int ty txt qv qp z : numwfb ty txt qv qp = true -> int_of ty qv = Some z -> Q2R qv = IZR z.
Proof.
  unfold numwfb, int_of. intros H Hz. bsplit. destruct (is_intcls ty); [|discriminate].
  injection Hz as <-. rewrite (Qeq_bool_R _ _ H0). apply Q2R_inject_Z.
Qed.
Lemma Q2R_2 : Q2R 2 = 2. Proof. unfold Q2R. simpl. lra. Qed.
Lemma Q2R_3 : Q2R 3 = 3. Proof. unfold Q2R. simpl. lra. Qed.

(* the exponent of a well-shaped node, read as an integer literal, is its value *)
Lemma dint_exp_val d z env x : dwfb d = true -> dint_exp d = Some z -> dsem env x d = IZR z.
Proof.
  destruct d as [op ty deg v|op ty deg v c0|op ty deg v c0 c1]; simpl; try discriminate.
  destruct v as [|txt qv qp|s]; try discriminate. intros Hw Hz. bsplit.
  eapply numwf_int; eauto.
Qed.

(* ---- the one-argument classes: label arity, meaning, basis membership *)
Lemma un_table op :
  In op un_classes ->
  op_arity (relab_str op) = 1%nat
  /\ (forall v, (op = "log" -> 0 < v) -> un_lab_sem (relab_str op) v = un_cls_sem op v)
  /\ (forall b, mem (lower op) (b1 b) || mem op ["log"; "Abs"] = true -> lab_okb b (ROp (relab_str op)) = true).
Proof.
  intro H. simpl in H.
  repeat (destruct H as [<- | H]; [
    split; [reflexivity|split; [
      intros v Hv; relab_compute; unfold un_lab_sem, un_cls_sem;
      cbn [String.eqb Ascii.eqb Bool.eqb orb andb]; try reflexivity
    | intros b Hb; unfold lab_okb; relab_compute;
      match type of Hb with context [lower ?s] =>
        let r := eval vm_compute in (lower s) in change (lower s) with r in Hb end;
      match type of Hb with (mem ?s ?l || _) = true =>
        destruct (mem s l); [reflexivity | first [ (vm_compute in Hb; discriminate Hb)
                                                 | (apply orb_true_iff; right; reflexivity) ] ] end ]] |]);
  try contradiction.
  (* log: ln |v| = ln v for v > 0 *)
  rewrite Rabs_pos by (apply Hv; reflexivity). reflexivity.
Qed.
Close Scope R_scope.

(* ================================================================ to_list on well-shaped nodes *)
Definition good (b : basis) (d : dnode) (l : list label) : Prop :=
  exists t, relabel l = to_prefix t /\ twf t
    /\ (forall env x, dpos env x d -> dexactb d = true -> evalT env x t = dsem env x d)
    /\ (std_binary b = true -> dbasisb b d = true -> forallb (lab_okb b) (relabel l) = true).

Lemma relabel_app a c : relabel (a ++ c) = (relabel a ++ relabel c)%list.
Proof. apply map_app. Qed.

Lemma std_binary_mem b s : std_binary b = true -> In s ["+"; "-"; "*"; "/"; "pow"] -> mem s (b2 b) = true.
Proof.
  unfold std_binary. intros H Hs. bsplit. simpl in Hs.
  repeat (destruct Hs as [<- | Hs]; [assumption|]). contradiction.
Qed.
Lemma lab_ok_bin b s : std_binary b = true -> In s ["+"; "-"; "*"; "/"; "pow"] -> lab_okb b (ROp s) = true.
Proof. intros H Hs. unfold lab_okb. rewrite (std_binary_mem b s H Hs). rewrite orb_true_r. reflexivity. Qed.

Lemma to_list_good : forall n b d, (dsize d < n)%nat -> dwfb d = true -> no_bad b d = true ->
  forall pop, exists l, to_list b pop d = Some l /\ good b d l.
Proof.
  induction n as [|n IH]; intros b d Hn Hw Hnb pop; [lia|].
  destruct d as [op ty deg v|op ty deg v c0|op ty deg v c0 c1].
  - (* atom *)
    simpl in Hw. bsplit. apply Nat.eqb_eq in H. subst deg.
    rewrite to_list_eq. cbn [decide ddeg dvl otsub obind app].
    eexists; split; [reflexivity|].
    destruct v as [|txt qv qp|s]; [discriminate| |].
    + exists (TNum (lower txt) qp). simpl. repeat split; auto.
      intros env x _ He. symmetry. apply Qeq_bool_R. exact He.
    + exists (TSym s). simpl. repeat split; auto.
  - (* one child *)
    simpl in Hw. bsplit. destruct v; try discriminate.
    simpl in Hnb.
    assert (Hs0 : (dsize c0 < n)%nat) by (simpl in Hn; lia).
    destruct (IH b c0 Hs0 H Hnb (Some op)) as [l0 [E0 [t0 [R0 [W0 [S0 B0]]]]]].
    apply orb_prop in H2. destruct H2 as [H2|H2]; bsplit.
    + (* a one-argument class *)
      apply Nat.eqb_eq in H2. subst deg. apply mem_In in H4.
      destruct (un_table op H4) as [Har [Hsem Hlab]].
      rewrite to_list_eq. cbn [decide ddeg dop otsub tsub obind]. rewrite E0. cbn [obind app].
      eexists; split; [reflexivity|]. exists (TUn (relab_str op) t0).
      rewrite !app_nil_r.
      split; [cbn [relabel map relab1]; fold (relabel l0); rewrite R0; reflexivity|].
      split; [split; assumption|]. split.
      * intros env x [Hp0 Hp] He. cbn [evalT dsem]. rewrite (S0 env x Hp0 He).
        assert (Hnr : forall s, In s ["Square"; "Cube"; "Sqrt"; "Inv"] -> op <> s).
        { intros s Hs ->. simpl in H4, Hs.
          repeat (destruct Hs as [<- | Hs]; [repeat (destruct H4 as [H4|H4]; [discriminate H4|]); contradiction|]).
          contradiction. }
        rewrite (proj2 (String.eqb_neq op "Square")) by (apply Hnr; simpl; auto).
        rewrite (proj2 (String.eqb_neq op "Cube")) by (apply Hnr; simpl; auto).
        rewrite (proj2 (String.eqb_neq op "Sqrt")) by (apply Hnr; simpl; auto).
        rewrite (proj2 (String.eqb_neq op "Inv")) by (apply Hnr; simpl; auto).
        apply Hsem. intros ->. exact Hp.
      * intros Hsb Hdb. cbn [dbasisb] in Hdb. bsplit. simpl in H3.
        cbn [relabel map relab1 forallb]. fold (relabel l0).
        rewrite (Hlab b H3). rewrite (B0 Hsb H2). reflexivity.
    + admit.
  - admit.
Admitted.
