(* Proofs for Model/ToList.v (C18). *)
From Coq Require Import String Ascii List Bool Arith ZArith QArith Qround Reals Qreals Lia Lra.
From ESRV Require Import Model.ToList.
Import ListNotations.
Open Scope string_scope.

(* ================================================================ prefix lists *)
Lemma length_to_prefix t : length (to_prefix t) = tsize t.
Proof.
  induction t; simpl; try reflexivity.
  - now rewrite IHt.
  - rewrite app_length, IHt1, IHt2. reflexivity.
Qed.

Lemma parse_to_prefix : forall t rest fuel,
  twf t -> (tsize t <= fuel)%nat -> parse fuel (to_prefix t ++ rest)%list = Some (t, rest).
Proof.
  induction t as [x q|s|o|o a IHa|o a IHa c IHc]; intros rest fuel Hwf Hf;
    (destruct fuel as [|f]; [simpl in Hf; lia|]); simpl in *.
  - reflexivity.
  - reflexivity.
  - rewrite Hwf. reflexivity.
  - destruct Hwf as [Har Hwa]. rewrite Har. rewrite IHa by (auto; lia). reflexivity.
  - destruct Hwf as [Har [Hwa Hwc]]. rewrite Har. rewrite <- app_assoc.
    rewrite IHa by (auto; lia). rewrite IHc by (auto; lia). reflexivity.
Qed.

Lemma of_prefix_to_prefix t : twf t -> of_prefix (to_prefix t) = Some t.
Proof.
  intro H. unfold of_prefix.
  rewrite <- (app_nil_r (to_prefix t)) at 2.
  rewrite parse_to_prefix; auto. rewrite length_to_prefix. lia.
Qed.

(* ================================================================ reals *)
Open Scope R_scope.
Lemma Q2R_inject_Z z : Q2R (inject_Z z) = IZR z.
Proof. unfold Q2R, inject_Z. simpl. rewrite Rinv_1. apply Rmult_1_r. Qed.
Lemma Q2R_half : Q2R (1 # 2) = / 2.
Proof. unfold Q2R. simpl. lra. Qed.
Lemma powerRZ_m1 u : powerRZ u (-1) = / u.
Proof. simpl. rewrite Rmult_1_r. reflexivity. Qed.
Lemma Rpower_2 u : 0 < u -> Rpower u 2 = u * u.
Proof. intro H. replace 2 with (INR 2) by (simpl; lra). rewrite Rpower_pow by assumption. simpl. ring. Qed.
Lemma Rpower_3 u : 0 < u -> Rpower u 3 = u * u * u.
Proof. intro H. replace 3 with (INR 3) by (simpl; lra). rewrite Rpower_pow by assumption. simpl. ring. Qed.
Lemma Rabs_pos u : 0 < u -> Rabs u = u.
Proof. intro H. apply Rabs_pos_eq. lra. Qed.
Lemma Qeq_bool_R a c : Qeq_bool a c = true -> Q2R a = Q2R c.
Proof. intro H. apply Qeq_eqR. apply Qeq_bool_iff. exact H. Qed.
Lemma powerRZ_2 u : powerRZ u 2 = u * u.
Proof. simpl. ring. Qed.
Lemma powerRZ_3 u : powerRZ u 3 = u * u * u.
Proof. simpl. ring. Qed.
Lemma pw_pos u k v : 0 < u -> (forall z, k = Some z -> v = IZR z) -> pw u k v = Rpower u v.
Proof.
  intros Hu Hk. destruct k as [z|]; simpl; [|reflexivity].
  rewrite (Hk z eq_refl). apply powerRZ_Rpower. exact Hu.
Qed.
Close Scope R_scope.

(* ================================================================ to_list, unfolded once *)
Definition tsub (b : basis) (d : dnode) (k : kref) : option (list label) :=
  match k, d with
  | KC0, D1 op _ _ _ c0 => to_list b (Some op) c0
  | KC0, D2 op _ _ _ c0 _ => to_list b (Some op) c0
  | KC1, D2 op _ _ _ _ c1 => to_list b (Some op) c1
  | KC10, D2 _ _ _ _ _ (D1 op1 _ _ _ g0) => to_list b (Some op1) g0
  | KC10, D2 _ _ _ _ _ (D2 op1 _ _ _ g0 _) => to_list b (Some op1) g0
  | KC11, D2 _ _ _ _ _ (D2 op1 _ _ _ _ g1) => to_list b (Some op1) g1
  | _, _ => None
  end.
Definition otsub (b : basis) (d : dnode) (k : option kref) : option (list label) :=
  match k with None => Some [] | Some k => tsub b d k end.
Lemma to_list_eq b pop d :
  to_list b pop d =
  match decide b pop d with
  | AErr => None
  | AOut pre k1 k2 post => m1 <- otsub b d k1 ;; m2 <- otsub b d k2 ;; Some (pre ++ m1 ++ m2 ++ post)%list
  end.
Proof. destruct d; reflexivity. Qed.

(* ---- the chain of to_list, one lemma per operator of a two-argument node *)
Lemma decide_Pow b pop ty n v c0 c1 :
  decide b pop (D2 "Pow" ty (S (S n)) v c0 c1) =
  if String.eqb (dty c1) "Half" && (mem "sqrt" (b1 b) || mem "sqrt_abs" (b1 b))
  then (if mem "sqrt" (b1 b) then AOut [LOp "sqrt"] (Some KC0) None [] else AOut [LOp "sqrt_abs"] (Some KC0) None [])
  else if val_is (dvl c1) "2" && mem "square" (b1 b) then AOut [LOp "square"] (Some KC0) None []
  else if val_is (dvl c1) "3" && mem "cube" (b1 b) then AOut [LOp "cube"] (Some KC0) None []
  else if String.eqb (dty c1) "NegativeOne" && mem "inv" (b1 b) then AOut [LOp "Inv"] (Some KC0) None []
  else AOut [LOp "Pow"] (Some KC0) (Some KC1) [].
Proof.
  unfold decide. cbn -[mem val_is String.eqb].
  change (String.eqb "Pow" "Pow") with true. cbn -[mem val_is String.eqb].
  destruct (String.eqb (dty c1) "Half" && (mem "sqrt" (b1 b) || mem "sqrt_abs" (b1 b))); [reflexivity|].
  cbn -[mem val_is String.eqb].
  destruct (val_is (dvl c1) "2" && mem "square" (b1 b)); [reflexivity|].
  cbn -[mem val_is String.eqb].
  change (String.eqb "Pow" "Square") with false. cbn -[mem val_is String.eqb].
  destruct (val_is (dvl c1) "3" && mem "cube" (b1 b)); [reflexivity|].
  cbn -[mem val_is String.eqb].
  change (String.eqb "Pow" "Cube") with false. cbn -[mem val_is String.eqb].
  destruct (String.eqb (dty c1) "NegativeOne" && mem "inv" (b1 b)); [reflexivity|].
  cbn. reflexivity.
Qed.

Lemma decide_Mul b pop ty n v c0 c1 :
  decide b pop (D2 "Mul" ty (S (S n)) v c0 c1) =
  if String.eqb (dop c0) "Pow" && (String.eqb (dty c1) "NegativeOne" && mem "/" (b2 b))
  then AOut [LOp "Mul"] (Some KC1) None []
  else if is_unity c0 then AOut [] (Some KC1) None []
  else if is_unity c1 then AOut [] (Some KC0) None []
  else AOut [LOp "Mul"] (Some KC0) (Some KC1) [].
Proof.
  unfold decide. cbn -[mem is_unity String.eqb].
  change (String.eqb "Mul" "Pow") with false. change (String.eqb "Mul" "Mul") with true.
  change (String.eqb "Mul" "Square") with false. change (String.eqb "Mul" "Cube") with false.
  change (String.eqb "Mul" "Div") with false. change (String.eqb "Mul" "Abs") with false.
  change (String.eqb "Mul" "Add") with false.
  cbn -[mem is_unity String.eqb].
  destruct (String.eqb (dop c0) "Pow"); cbn -[mem is_unity String.eqb].
  - destruct (String.eqb (dty c1) "NegativeOne" && mem "/" (b2 b)); cbn -[mem is_unity String.eqb]; [reflexivity|].
    destruct (is_unity c0); cbn -[mem is_unity String.eqb]; [reflexivity|].
    destruct (is_unity c1); reflexivity.
  - destruct (is_unity c0); cbn -[mem is_unity String.eqb]; [reflexivity|].
    destruct (is_unity c1); reflexivity.
Qed.

Lemma decide_Div b pop ty n v c0 c1 :
  decide b pop (D2 "Div" ty (S (S n)) v c0 c1) =
  if String.eqb (dop c0) "Pow" && (String.eqb (dty c1) "NegativeOne" && mem "*" (b2 b))
  then AOut [LOp "Mul"] (Some KC1) None []
  else AOut [LOp "Div"] (Some KC0) (Some KC1) [].
Proof.
  unfold decide. cbn -[mem is_unity String.eqb].
  change (String.eqb "Div" "Pow") with false. change (String.eqb "Div" "Mul") with false.
  change (String.eqb "Div" "Square") with false. change (String.eqb "Div" "Cube") with false.
  change (String.eqb "Div" "Div") with true. change (String.eqb "Div" "Abs") with false.
  change (String.eqb "Div" "Add") with false.
  cbn -[mem is_unity String.eqb].
  destruct (String.eqb (dop c0) "Pow"); cbn -[mem is_unity String.eqb].
  - destruct (String.eqb (dty c1) "NegativeOne" && mem "*" (b2 b)); reflexivity.
  - reflexivity.
Qed.

Definition sub_kind (c1 : dnode) : option kref :=
  if String.eqb (dop c1) "Mul" then
    match kid0 c1 with
    | Some g0 => if String.eqb (dop g0) "NegativeOne" then Some KC11
                 else match kid1 c1 with
                      | Some g1 => if String.eqb (dop g1) "NegativeOne" then Some KC10 else None
                      | None => None
                      end
    | None => None
    end
  else None.

Lemma decide_Add b pop ty n v c0 c1 :
  (String.eqb (dop c1) "Mul" = true -> exists g0 g1, kid0 c1 = Some g0 /\ kid1 c1 = Some g1) ->
  decide b pop (D2 "Add" ty (S (S n)) v c0 c1) =
  match sub_kind c1 with
  | Some k => AOut [LOp "Sub"] (Some KC0) (Some k) []
  | None => AOut [LOp "Add"] (Some KC0) (Some KC1) []
  end.
Proof.
  intro Hk. unfold decide, sub_kind. cbn -[mem is_unity String.eqb].
  change (String.eqb "Add" "Pow") with false. change (String.eqb "Add" "Mul") with false.
  change (String.eqb "Add" "Square") with false. change (String.eqb "Add" "Cube") with false.
  change (String.eqb "Add" "Div") with false. change (String.eqb "Add" "Abs") with false.
  change (String.eqb "Add" "Add") with true.
  cbn -[mem is_unity String.eqb].
  destruct (String.eqb (dop c1) "Mul") eqn:Hm; cbn -[mem is_unity String.eqb]; [|reflexivity].
  destruct (Hk eq_refl) as [g0 [g1 [H0 H1]]]. rewrite H0, H1. cbn -[mem is_unity String.eqb].
  destruct (String.eqb (dop g0) "NegativeOne"); cbn -[mem is_unity String.eqb]; [reflexivity|].
  destruct (String.eqb (dop g1) "NegativeOne"); reflexivity.
Qed.

(* renamed one-child nodes of degree 2 *)
Lemma decide_Square b pop ty n v c0 :
  decide b pop (D1 "Square" ty (S (S n)) v c0) =
  if mem "sqaure" (b1 b) then AOut [LOp "Square"] (Some KC0) None []
  else AOut [LOp "pow"] (Some KC0) None [LNum "2" 2 2].
Proof. unfold decide. cbn -[mem]. destruct (mem "sqaure" (b1 b)); reflexivity. Qed.
Lemma decide_Cube b pop ty n v c0 :
  decide b pop (D1 "Cube" ty (S (S n)) v c0) =
  if mem "cube" (b1 b) then AOut [LOp "Cube"] (Some KC0) None []
  else AOut [LOp "pow"] (Some KC0) None [LNum "3" 3 3].
Proof. unfold decide. cbn -[mem]. destruct (mem "cube" (b1 b)); reflexivity. Qed.
Lemma decide_Sqrt b pop ty n v c0 :
  decide b pop (D1 "Sqrt" ty (S (S n)) v c0) = AOut [LOp "Sqrt"] (Some KC0) None [].
Proof. reflexivity. Qed.
Lemma decide_Inv b pop ty n v c0 :
  decide b pop (D1 "Inv" ty (S (S n)) v c0) = AOut [LOp "Inv"] (Some KC0) None [].
Proof. reflexivity. Qed.

(* ================================================================ facts about well-shaped nodes *)
Ltac bsplit := repeat match goal with
  | H : _ && _ = true |- _ => apply andb_prop in H; destruct H
  end.
Ltac cdisc := solve [ repeat match goal with
  | H : _ = true |- _ => (vm_compute in H; discriminate H) || clear H
  end ].
Ltac relab_compute := repeat match goal with
  | |- context [relab_str (String ?a ?s)] =>
    let r := eval vm_compute in (relab_str (String a s)) in change (relab_str (String a s)) with r
  | |- context [lower (String ?a ?s)] =>
    let r := eval vm_compute in (lower (String a s)) in change (lower (String a s)) with r
  end.

Lemma mem_In s l : mem s l = true -> In s l.
Proof.
  unfold mem. intro H. apply existsb_exists in H. destruct H as [y [Hy He]].
  apply String.eqb_eq in He. subst. exact Hy.
Qed.

Fixpoint dsize (d : dnode) : nat :=
  match d with
  | D0 _ _ _ _ => 1
  | D1 _ _ _ _ c0 => S (dsize c0)
  | D2 _ _ _ _ c0 c1 => S (dsize c0 + dsize c1)
  end.

Lemma show_sym_not s k : (k = "2" \/ k = "3") -> String.eqb (show_sym s) k = false.
Proof. intros [-> | ->]; destruct s; reflexivity. Qed.

(* a node whose type is one of the number singletons is that number *)
Lemma dty_atom d k :
  dwfb d = true -> (k = "Half" \/ k = "NegativeOne") -> String.eqb (dty d) k = true ->
  exists txt qv qp, d = D0 k k 0 (VNum txt qv qp) /\ numwfb k txt qv qp = true.
Proof.
  intros Hw Hk He. destruct d as [op ty deg v|op ty deg v c0|op ty deg v c0 c1]; simpl in *.
  - bsplit. apply String.eqb_eq in He. subst ty.
    apply Nat.eqb_eq in H. apply String.eqb_eq in H1. subst.
    destruct v as [|txt qv qp|s].
    + discriminate.
    + exists txt, qv, qp. split; [reflexivity|assumption].
    + destruct Hk as [-> | ->]; cdisc.
  - bsplit. apply String.eqb_eq in He. subst ty. destruct Hk as [-> | ->]; cdisc.
  - bsplit. apply String.eqb_eq in He. subst ty. destruct Hk as [-> | ->]; cdisc.
Qed.

Lemma dop_NegativeOne d :
  dwfb d = true -> String.eqb (dop d) "NegativeOne" = true ->
  exists txt qv qp, d = D0 "NegativeOne" "NegativeOne" 0 (VNum txt qv qp) /\ numwfb "NegativeOne" txt qv qp = true.
Proof.
  intros Hw He. destruct d as [op ty deg v|op ty deg v c0|op ty deg v c0 c1]; simpl in *.
  - bsplit. apply String.eqb_eq in He. subst op.
    apply Nat.eqb_eq in H. apply String.eqb_eq in H1. subst.
    destruct v as [|txt qv qp|s]; try discriminate.
    exists txt, qv, qp. split; [reflexivity|assumption].
  - bsplit. apply String.eqb_eq in He. subst op. destruct deg as [|[|[|?]]]; cdisc.
  - bsplit. apply String.eqb_eq in He. subst op. cdisc.
Qed.

Lemma dop_Mul_D2 d :
  dwfb d = true -> String.eqb (dop d) "Mul" = true ->
  exists ty deg g0 g1, d = D2 "Mul" ty (S (S deg)) VNone g0 g1.
Proof.
  intros Hw He. destruct d as [op ty deg v|op ty deg v c0|op ty deg v c0 c1]; simpl in *.
  - bsplit. apply String.eqb_eq in He. subst op. apply String.eqb_eq in H1. subst ty.
    destruct v; try discriminate; try cdisc.
  - bsplit. apply String.eqb_eq in He. subst op. destruct deg as [|[|[|?]]]; cdisc.
  - bsplit. apply String.eqb_eq in He. subst op. destruct v; try discriminate.
    destruct deg as [|[|deg]]; try discriminate. exists ty, deg, c0, c1. reflexivity.
Qed.

Lemma val_is_num d k :
  dwfb d = true -> (k = "2" \/ k = "3") -> val_is (dvl d) k = true ->
  exists op ty qv qp, d = D0 op ty 0 (VNum k qv qp) /\ numwfb ty k qv qp = true.
Proof.
  intros Hw Hk He. destruct d as [op ty deg v|op ty deg v c0|op ty deg v c0 c1]; simpl in *.
  - bsplit. apply Nat.eqb_eq in H. subst. destruct v as [|txt qv qp|s]; simpl in He; try discriminate.
    + apply String.eqb_eq in He. subst. exists op, ty, qv, qp. split; [reflexivity|assumption].
    + rewrite show_sym_not in He by assumption. discriminate.
  - bsplit. destruct v; try discriminate.
  - bsplit. destruct v; try discriminate.
Qed.

Lemma unity_atom d :
  dwfb d = true -> is_unity d = true ->
  exists op ty txt qv qp, d = D0 op ty 0 (VNum txt qv qp) /\ Qeq_bool qp 1 = true.
Proof.
  intros Hw He. unfold is_unity in He.
  destruct d as [op ty deg v|op ty deg v c0|op ty deg v c0 c1]; simpl in *.
  - bsplit. apply Nat.eqb_eq in H. subst. destruct v as [|txt qv qp|s]; try discriminate.
    exists op, ty, txt, qv, qp. split; [reflexivity|assumption].
  - bsplit. destruct v; discriminate.
  - bsplit. destruct v; discriminate.
Qed.

(* ---- what numwfb gives *)
Open Scope R_scope.
Lemma numwf_half txt qv qp : numwfb "Half" txt qv qp = true -> Q2R qv = / 2.
Proof. unfold numwfb. intro H. bsplit. simpl in *. rewrite (Qeq_bool_R _ _ H4). apply Q2R_half. Qed.
Lemma numwf_m1 txt qv qp : numwfb "NegativeOne" txt qv qp = true -> Q2R qv = -1 /\ Qfloor qv = (-1)%Z.
Proof.
  unfold numwfb. intro H. bsplit. simpl in *. split.
  - rewrite (Qeq_bool_R _ _ H3). unfold Q2R. simpl. lra.
  - apply Qeq_bool_iff in H3. rewrite H3. reflexivity.
Qed.
Lemma numwf_txt2 ty qv qp : numwfb ty "2" qv qp = true -> Q2R qp = 2.
Proof. unfold numwfb. intro H. bsplit. simpl in *. rewrite (Qeq_bool_R _ _ H2). unfold Q2R. simpl. lra. Qed.
Lemma numwf_txt3 ty qv qp : numwfb ty "3" qv qp = true -> Q2R qp = 3.
Proof. unfold numwfb. intro H. bsplit. simpl in *. rewrite (Qeq_bool_R _ _ H1). unfold Q2R. simpl. lra. Qed.
Lemma numwf_int ty txt qv qp z : numwfb ty txt qv qp = true -> int_of ty qv = Some z -> Q2R qv = IZR z.
Proof.
  unfold numwfb, int_of. intros H Hz. bsplit. destruct (is_intcls ty); [|discriminate].
  injection Hz as <-. rewrite (Qeq_bool_R _ _ H0). apply Q2R_inject_Z.
Qed.
Lemma Q2R_2 : Q2R 2 = 2. Proof. unfold Q2R. simpl. lra. Qed.
Lemma Q2R_3 : Q2R 3 = 3. Proof. unfold Q2R. simpl. lra. Qed.

(* the exponent of a well-shaped node, read as an integer literal, is its value *)
Lemma dint_exp_val d z env x : dwfb d = true -> dint_exp d = Some z -> dsem env x d = IZR z.
Proof.
  destruct d as [op ty deg v|op ty deg v c0|op ty deg v c0 c1]; simpl; try discriminate.
  destruct v as [|txt qv qp|s]; try discriminate. intros Hw Hz. bsplit.
  eapply numwf_int; eauto.
Qed.

(* ---- the one-argument classes: label arity, meaning, basis membership *)
Lemma un_table op :
  In op un_classes ->
  op_arity (relab_str op) = 1%nat
  /\ (forall v, (op = "log" -> 0 < v) -> un_lab_sem (relab_str op) v = un_cls_sem op v)
  /\ (forall b, mem (lower op) (b1 b) || mem op ["log"; "Abs"] = true -> lab_okb b (ROp (relab_str op)) = true).
Proof.
  intro H. simpl in H.
  repeat (destruct H as [<- | H]; [
    split; [reflexivity|split; [
      intros v Hv; relab_compute; unfold un_lab_sem, un_cls_sem;
      cbn [String.eqb Ascii.eqb Bool.eqb orb andb]; try reflexivity
    | intros b Hb; unfold lab_okb; relab_compute;
      match type of Hb with context [lower ?s] =>
        let r := eval vm_compute in (lower s) in change (lower s) with r in Hb end;
      match type of Hb with (mem ?s ?l || _) = true =>
        destruct (mem s l); [reflexivity | first [ (vm_compute in Hb; discriminate Hb)
                                                 | (apply orb_true_iff; right; reflexivity) ] ] end ]] |]);
  try contradiction.
  (* log: ln |v| = ln v for v > 0 *)
  rewrite Rabs_pos by (apply Hv; reflexivity). reflexivity.
Qed.
Close Scope R_scope.

(* ================================================================ to_list on well-shaped nodes *)
Definition good (b : basis) (d : dnode) (l : list label) : Prop :=
  exists t, relabel l = to_prefix t /\ twf t
    /\ (forall env x, dpos env x d -> dexactb d = true -> evalT env x t = dsem env x d)
    /\ (std_binary b = true -> dbasisb b d = true -> forallb (lab_okb b) (relabel l) = true).

Lemma relabel_app a c : relabel (a ++ c) = (relabel a ++ relabel c)%list.
Proof. apply map_app. Qed.

Lemma std_binary_mem b s : std_binary b = true -> In s ["+"; "-"; "*"; "/"; "pow"] -> mem s (b2 b) = true.
Proof.
  unfold std_binary. intros H Hs. bsplit. simpl in Hs.
  repeat (destruct Hs as [<- | Hs]; [assumption|]). contradiction.
Qed.
Lemma lab_ok_bin b s : std_binary b = true -> In s ["+"; "-"; "*"; "/"; "pow"] -> lab_okb b (ROp s) = true.
Proof. intros H Hs. unfold lab_okb. rewrite (std_binary_mem b s H Hs). rewrite orb_true_r. reflexivity. Qed.

Lemma to_list_good : forall n b d, (dsize d < n)%nat -> dwfb d = true -> no_bad b d = true ->
  forall pop, exists l, to_list b pop d = Some l /\ good b d l.
Proof.
  induction n as [|n IH]; intros b d Hn Hw Hnb pop; [lia|].
  destruct d as [op ty deg v|op ty deg v c0|op ty deg v c0 c1].
  - (* atom *)
    cbn [dwfb] in Hw. bsplit. apply Nat.eqb_eq in H. subst deg.
    rewrite to_list_eq. cbn [decide ddeg dvl otsub obind app].
    eexists; split; [reflexivity|].
    destruct v as [|txt qv qp|s]; [discriminate| |].
    + exists (TNum (lower txt) qp). simpl. repeat split; auto.
      intros env x _ He. symmetry. apply Qeq_bool_R. exact He.
    + exists (TSym s). simpl. repeat split; auto.
  - (* one child *)
    cbn [dwfb] in Hw. bsplit. destruct v; try discriminate.
    cbn [no_bad bad_here negb andb] in Hnb.
    assert (Hs0 : (dsize c0 < n)%nat) by (simpl in Hn; lia).
    destruct (IH b c0 Hs0 H Hnb (Some op)) as [l0 [E0 [t0 [R0 [W0 [S0 B0]]]]]].
    apply orb_prop in H2. destruct H2 as [H2|H2]; bsplit.
    + (* a one-argument class *)
      apply Nat.eqb_eq in H2. subst deg. apply mem_In in H4.
      destruct (un_table op H4) as [Har [Hsem Hlab]].
      rewrite to_list_eq. cbn [decide ddeg dop otsub tsub obind]. rewrite E0. cbn [obind app].
      eexists; split; [reflexivity|]. exists (TUn (relab_str op) t0).
      rewrite !app_nil_r.
      split; [cbn [relabel map relab1]; fold (relabel l0); rewrite R0; reflexivity|].
      split; [split; assumption|]. split.
      * intros env x [Hp0 Hp] He. cbn [evalT dsem]. rewrite (S0 env x Hp0 He).
        assert (Hnr : forall s, In s ["Square"; "Cube"; "Sqrt"; "Inv"] -> op <> s).
        { intros s Hs ->. simpl in H4, Hs.
          repeat (destruct Hs as [<- | Hs]; [repeat (destruct H4 as [H4|H4]; [discriminate H4|]); contradiction|]).
          contradiction. }
        rewrite (proj2 (String.eqb_neq op "Square")) by (apply Hnr; simpl; auto).
        rewrite (proj2 (String.eqb_neq op "Cube")) by (apply Hnr; simpl; auto).
        rewrite (proj2 (String.eqb_neq op "Sqrt")) by (apply Hnr; simpl; auto).
        rewrite (proj2 (String.eqb_neq op "Inv")) by (apply Hnr; simpl; auto).
        apply Hsem. intros ->. exact Hp.
      * intros Hsb Hdb. cbn [dbasisb] in Hdb. apply andb_prop in Hdb. destruct Hdb as [Hdb0 Hdb1].
        cbn [Nat.eqb] in Hdb1.
        cbn [relabel map relab1 forallb]. fold (relabel l0).
        rewrite (Hlab b Hdb1). rewrite (B0 Hsb Hdb0). reflexivity.
    + (* a renamed Pow: Square, Cube, Sqrt, Inv *)
      apply Nat.eqb_eq in H2. subst deg. apply mem_In in H4. simpl in H4.
      destruct H4 as [<- | [<- | [<- | [<- | []]]]].
      * (* Square *)
        rewrite to_list_eq, decide_Square.
        destruct (mem "sqaure" (b1 b)) eqn:Hsq; cbn [otsub tsub obind]; rewrite E0; cbn [obind app];
          (eexists; split; [reflexivity|]); rewrite ?app_nil_r.
        -- exists (TUn "square" t0).
           split; [cbn [relabel map relab1]; fold (relabel l0); rewrite R0; reflexivity|].
           split; [split; [reflexivity|assumption]|]. split.
           ++ intros env x [Hp0 Hp] He. cbn [evalT dsem String.eqb Ascii.eqb Bool.eqb].
              rewrite (S0 env x Hp0 He). unfold un_lab_sem. cbn [String.eqb Ascii.eqb Bool.eqb].
              rewrite powerRZ_2. reflexivity.
           ++ intros Hsb Hdb. cbn [dbasisb Nat.eqb String.eqb Ascii.eqb Bool.eqb] in Hdb.
              apply andb_prop in Hdb. destruct Hdb as [Hdb0 Hdb1]. rewrite Hsq in Hdb1. simpl in Hdb1.
              cbn [relabel map relab1 forallb]. fold (relabel l0). rewrite (B0 Hsb Hdb0).
              change (relab_str "Square") with "square". unfold lab_okb. rewrite Hdb1. reflexivity.
        -- exists (TBin "pow" t0 (TNum "2" 2)).
           split; [cbn [relabel map relab1 app]; fold (relabel (l0 ++ [LNum "2" 2 2])); rewrite relabel_app, R0; reflexivity|].
           split; [split; [reflexivity|split; [assumption|exact I]]|]. split.
           ++ intros env x [Hp0 Hp] He. cbn [evalT dsem String.eqb Ascii.eqb Bool.eqb].
              rewrite (S0 env x Hp0 He). unfold bin_lab_sem. cbn [String.eqb Ascii.eqb Bool.eqb].
              simpl in Hp. rewrite Rabs_pos by exact Hp. rewrite Q2R_2, Rpower_2 by exact Hp.
              rewrite powerRZ_2. reflexivity.
           ++ intros Hsb Hdb. cbn [dbasisb] in Hdb. apply andb_prop in Hdb. destruct Hdb as [Hdb0 Hdb1].
              cbn [relabel map relab1 forallb app]. fold (relabel (l0 ++ [LNum "2" 2 2])).
              rewrite relabel_app, forallb_app, (B0 Hsb Hdb0).
              change (relab_str "pow") with "pow". rewrite lab_ok_bin by (auto; simpl; auto 10). reflexivity.
      * (* Cube *)
        rewrite to_list_eq, decide_Cube.
        destruct (mem "cube" (b1 b)) eqn:Hcu; cbn [otsub tsub obind]; rewrite E0; cbn [obind app];
          (eexists; split; [reflexivity|]); rewrite ?app_nil_r.
        -- exists (TUn "cube" t0).
           split; [cbn [relabel map relab1]; fold (relabel l0); rewrite R0; reflexivity|].
           split; [split; [reflexivity|assumption]|]. split.
           ++ intros env x [Hp0 Hp] He. cbn [evalT dsem String.eqb Ascii.eqb Bool.eqb].
              rewrite (S0 env x Hp0 He). unfold un_lab_sem. cbn [String.eqb Ascii.eqb Bool.eqb].
              rewrite powerRZ_3. reflexivity.
           ++ intros Hsb Hdb. cbn [dbasisb] in Hdb. apply andb_prop in Hdb. destruct Hdb as [Hdb0 Hdb1].
              cbn [relabel map relab1 forallb]. fold (relabel l0). rewrite (B0 Hsb Hdb0).
              change (relab_str "Cube") with "cube". unfold lab_okb. rewrite Hcu. reflexivity.
        -- exists (TBin "pow" t0 (TNum "3" 3)).
           split; [cbn [relabel map relab1 app]; fold (relabel (l0 ++ [LNum "3" 3 3])); rewrite relabel_app, R0; reflexivity|].
           split; [split; [reflexivity|split; [assumption|exact I]]|]. split.
           ++ intros env x [Hp0 Hp] He. cbn [evalT dsem String.eqb Ascii.eqb Bool.eqb].
              rewrite (S0 env x Hp0 He). unfold bin_lab_sem. cbn [String.eqb Ascii.eqb Bool.eqb].
              simpl in Hp. rewrite Rabs_pos by exact Hp. rewrite Q2R_3, Rpower_3 by exact Hp.
              rewrite powerRZ_3. reflexivity.
           ++ intros Hsb Hdb. cbn [dbasisb] in Hdb. apply andb_prop in Hdb. destruct Hdb as [Hdb0 Hdb1].
              cbn [relabel map relab1 forallb app]. fold (relabel (l0 ++ [LNum "3" 3 3])).
              rewrite relabel_app, forallb_app, (B0 Hsb Hdb0).
              change (relab_str "pow") with "pow". rewrite lab_ok_bin by (auto; simpl; auto 10). reflexivity.
      * (* Sqrt *)
        rewrite to_list_eq, decide_Sqrt. cbn [otsub tsub obind]. rewrite E0. cbn [obind app].
        eexists; split; [reflexivity|]. rewrite ?app_nil_r.
        exists (TUn "sqrt" t0).
        split; [cbn [relabel map relab1]; fold (relabel l0); rewrite R0; reflexivity|].
        split; [split; [reflexivity|assumption]|]. split.
        -- intros env x [Hp0 Hp] He. cbn [evalT dsem String.eqb Ascii.eqb Bool.eqb].
           rewrite (S0 env x Hp0 He). unfold un_lab_sem. cbn [String.eqb Ascii.eqb Bool.eqb orb].
           simpl in Hp. rewrite Rabs_pos by exact Hp. rewrite Q2R_half, Rpower_sqrt by exact Hp. reflexivity.
        -- intros Hsb Hdb. cbn [dbasisb] in Hdb. apply andb_prop in Hdb. destruct Hdb as [Hdb0 Hdb1].
           cbn [relabel map relab1 forallb]. fold (relabel l0). rewrite (B0 Hsb Hdb0).
           change (relab_str "Sqrt") with "sqrt". unfold lab_okb.
           replace (mem "sqrt" ["sqrt"; "log"; "abs"]) with true by reflexivity. rewrite orb_true_r. reflexivity.
      * (* Inv *)
        rewrite to_list_eq, decide_Inv. cbn [otsub tsub obind]. rewrite E0. cbn [obind app].
        eexists; split; [reflexivity|]. rewrite ?app_nil_r.
        exists (TUn "inv" t0).
        split; [cbn [relabel map relab1]; fold (relabel l0); rewrite R0; reflexivity|].
        split; [split; [reflexivity|assumption]|]. split.
        -- intros env x [Hp0 Hp] He. cbn [evalT dsem String.eqb Ascii.eqb Bool.eqb].
           rewrite (S0 env x Hp0 He). unfold un_lab_sem. cbn [String.eqb Ascii.eqb Bool.eqb].
           rewrite powerRZ_m1. reflexivity.
        -- intros Hsb Hdb. cbn [dbasisb Nat.eqb String.eqb Ascii.eqb Bool.eqb] in Hdb.
           apply andb_prop in Hdb. destruct Hdb as [Hdb0 Hdb1].
           cbn [relabel map relab1 forallb]. fold (relabel l0). rewrite (B0 Hsb Hdb0).
           change (relab_str "Inv") with "inv". unfold lab_okb. rewrite Hdb1. reflexivity.
  - (* two children *)
    assert (Hw0 : dwfb c0 = true) by (cbn [dwfb] in Hw; bsplit; assumption).
    assert (Hw1 : dwfb c1 = true) by (cbn [dwfb] in Hw; bsplit; assumption).
    assert (Hv : v = VNone) by (cbn [dwfb] in Hw; bsplit; destruct v; [reflexivity|discriminate|discriminate]).
    assert (Hdeg : exists m, deg = S (S m)).
    { cbn [dwfb] in Hw; bsplit.
      match goal with Hx : (2 <=? deg)%nat = true |- _ => apply Nat.leb_le in Hx; destruct deg as [|[|m]]; [lia|lia|eauto] end. }
    assert (Hop : In op ["Add"; "Mul"; "Pow"; "Div"]) by (cbn [dwfb] in Hw; bsplit; apply mem_In; assumption).
    destruct Hdeg as [m ->]. subst v.
    cbn [no_bad] in Hnb. apply andb_prop in Hnb. destruct Hnb as [Hnbh Hnb].
    apply andb_prop in Hnb. destruct Hnb as [Hnb0 Hnb1]. apply negb_true_iff in Hnbh.
    assert (Hs0 : (dsize c0 < n)%nat) by (simpl in Hn; lia).
    assert (Hs1 : (dsize c1 < n)%nat) by (simpl in Hn; lia).
    destruct (IH b c0 Hs0 Hw0 Hnb0 (Some op)) as [l0 [E0 [t0 [R0 [W0 [S0 B0]]]]]].
    destruct (IH b c1 Hs1 Hw1 Hnb1 (Some op)) as [l1 [E1 [t1 [R1 [W1 [S1 B1]]]]]].
    simpl in Hop. destruct Hop as [<- | [<- | [<- | [<- | []]]]].
    + (* Add *)
      rewrite to_list_eq, decide_Add.
      2:{ intro Hm. destruct (dop_Mul_D2 c1 Hw1 Hm) as [ty1 [m1 [g0 [g1 ->]]]]. exists g0, g1. split; reflexivity. }
      unfold sub_kind. destruct (String.eqb (dop c1) "Mul") eqn:Hm.
      * destruct (dop_Mul_D2 c1 Hw1 Hm) as [ty1 [m1 [g0 [g1 ->]]]]. cbn [kid0 kid1].
        assert (Hwg0 : dwfb g0 = true) by (cbn [dwfb] in Hw1; bsplit; assumption).
        assert (Hwg1 : dwfb g1 = true) by (cbn [dwfb] in Hw1; bsplit; assumption).
        cbn [no_bad] in Hnb1. apply andb_prop in Hnb1. destruct Hnb1 as [_ Hnb1].
        apply andb_prop in Hnb1. destruct Hnb1 as [Hnbg0 Hnbg1].
        assert (Hsg0 : (dsize g0 < n)%nat) by (simpl in Hn; lia).
        assert (Hsg1 : (dsize g1 < n)%nat) by (simpl in Hn; lia).
        destruct (String.eqb (dop g0) "NegativeOne") eqn:Hn0.
        -- destruct (dop_NegativeOne g0 Hwg0 Hn0) as [txt [qv [qp [-> Hnum]]]].
           destruct (IH b g1 Hsg1 Hwg1 Hnbg1 (Some "Mul")) as [lg [Eg [tg [Rg [Wg [Sg Bg]]]]]].
           cbn [otsub tsub obind]. rewrite E0, Eg. cbn [obind app].
           eexists; split; [reflexivity|]. rewrite ?app_nil_r.
           exists (TBin "-" t0 tg).
           split; [cbn [relabel map relab1]; fold (relabel (l0 ++ lg)); rewrite relabel_app, R0, Rg; reflexivity|].
           split; [split; [reflexivity|split; assumption]|]. split.
           ++ intros env x [Hp0 [Hp1 _]] He. cbn [dexactb] in He. apply andb_prop in He. destruct He as [He0 He1].
              apply andb_prop in He1. destruct He1 as [_ Heg].
              cbn [dpos] in Hp1. destruct Hp1 as [_ [Hpg _]].
              cbn [evalT dsem String.eqb Ascii.eqb Bool.eqb].
              rewrite (S0 env x Hp0 He0), (Sg env x Hpg Heg). unfold bin_lab_sem. cbn [String.eqb Ascii.eqb Bool.eqb].
              rewrite (proj1 (numwf_m1 _ _ _ Hnum)). ring.
           ++ intros Hsb Hdb. cbn [dbasisb] in Hdb. apply andb_prop in Hdb. destruct Hdb as [Hdb0 Hdb1].
              apply andb_prop in Hdb1. destruct Hdb1 as [_ Hdbg].
              cbn [relabel map relab1 forallb]. fold (relabel (l0 ++ lg)).
              rewrite relabel_app, forallb_app, (B0 Hsb Hdb0), (Bg Hsb Hdbg).
              change (relab_str "Sub") with "-". rewrite lab_ok_bin by (auto; simpl; auto 10). reflexivity.
        -- destruct (String.eqb (dop g1) "NegativeOne") eqn:Hn1.
           ++ destruct (dop_NegativeOne g1 Hwg1 Hn1) as [txt [qv [qp [-> Hnum]]]].
              destruct (IH b g0 Hsg0 Hwg0 Hnbg0 (Some "Mul")) as [lg [Eg [tg [Rg [Wg [Sg Bg]]]]]].
              assert (Etg : tsub b (D2 "Add" ty (S (S m)) VNone c0
                               (D2 "Mul" ty1 (S (S m1)) VNone g0 (D0 "NegativeOne" "NegativeOne" 0 (VNum txt qv qp)))) KC10
                            = to_list b (Some "Mul") g0) by reflexivity.
              cbn [otsub]. rewrite Etg. cbn [tsub obind]. rewrite E0, Eg. cbn [obind app].
              eexists; split; [reflexivity|]. rewrite ?app_nil_r.
              exists (TBin "-" t0 tg).
              split; [cbn [relabel map relab1]; fold (relabel (l0 ++ lg)); rewrite relabel_app, R0, Rg; reflexivity|].
              split; [split; [reflexivity|split; assumption]|]. split.
              ** intros env x [Hp0 [Hp1 _]] He. cbn [dexactb] in He. apply andb_prop in He. destruct He as [He0 He1].
                 apply andb_prop in He1. destruct He1 as [Heg _].
                 cbn [dpos] in Hp1. destruct Hp1 as [Hpg _].
                 cbn [evalT dsem String.eqb Ascii.eqb Bool.eqb].
                 rewrite (S0 env x Hp0 He0), (Sg env x Hpg Heg). unfold bin_lab_sem. cbn [String.eqb Ascii.eqb Bool.eqb].
                 rewrite (proj1 (numwf_m1 _ _ _ Hnum)). ring.
              ** intros Hsb Hdb. cbn [dbasisb] in Hdb. apply andb_prop in Hdb. destruct Hdb as [Hdb0 Hdb1].
                 apply andb_prop in Hdb1. destruct Hdb1 as [Hdbg _].
                 cbn [relabel map relab1 forallb]. fold (relabel (l0 ++ lg)).
                 rewrite relabel_app, forallb_app, (B0 Hsb Hdb0), (Bg Hsb Hdbg).
                 change (relab_str "Sub") with "-". rewrite lab_ok_bin by (auto; simpl; auto 10). reflexivity.
           ++ cbn [otsub tsub obind]. rewrite E0, E1. cbn [obind app].
              eexists; split; [reflexivity|]. rewrite ?app_nil_r.
              exists (TBin "+" t0 t1).
              split; [cbn [relabel map relab1]; fold (relabel (l0 ++ l1)); rewrite relabel_app, R0, R1; reflexivity|].
              split; [split; [reflexivity|split; assumption]|]. split.
              ** intros env x [Hp0 [Hp1 _]] He. cbn [dexactb] in He. apply andb_prop in He. destruct He as [He0 He1].
                 cbn [evalT]. rewrite (S0 env x Hp0 He0), (S1 env x Hp1 He1). reflexivity.
              ** intros Hsb Hdb. cbn [dbasisb] in Hdb. apply andb_prop in Hdb. destruct Hdb as [Hdb0 Hdb1].
                 cbn [relabel map relab1 forallb]. fold (relabel (l0 ++ l1)).
                 rewrite relabel_app, forallb_app, (B0 Hsb Hdb0), (B1 Hsb Hdb1).
                 change (relab_str "Add") with "+". rewrite lab_ok_bin by (auto; simpl; auto 10). reflexivity.
      * cbn [otsub tsub obind]. rewrite E0, E1. cbn [obind app].
        eexists; split; [reflexivity|]. rewrite ?app_nil_r.
        exists (TBin "+" t0 t1).
        split; [cbn [relabel map relab1]; fold (relabel (l0 ++ l1)); rewrite relabel_app, R0, R1; reflexivity|].
        split; [split; [reflexivity|split; assumption]|]. split.
        -- intros env x [Hp0 [Hp1 _]] He. cbn [dexactb] in He. apply andb_prop in He. destruct He as [He0 He1].
           cbn [evalT]. rewrite (S0 env x Hp0 He0), (S1 env x Hp1 He1). reflexivity.
        -- intros Hsb Hdb. cbn [dbasisb] in Hdb. apply andb_prop in Hdb. destruct Hdb as [Hdb0 Hdb1].
           cbn [relabel map relab1 forallb]. fold (relabel (l0 ++ l1)).
           rewrite relabel_app, forallb_app, (B0 Hsb Hdb0), (B1 Hsb Hdb1).
           change (relab_str "Add") with "+". rewrite lab_ok_bin by (auto; simpl; auto 10). reflexivity.
    + (* Mul *)
      rewrite to_list_eq, decide_Mul.
      assert (Hc : String.eqb (dop c0) "Pow" && (String.eqb (dty c1) "NegativeOne" && mem "/" (b2 b)) = false).
      { cbn [bad_here String.eqb Ascii.eqb Bool.eqb andb orb] in Hnbh.
        destruct (String.eqb (dop c0) "Pow"), (String.eqb (dty c1) "NegativeOne"), (mem "/" (b2 b));
          simpl in *; congruence. }
      rewrite Hc.
      destruct (is_unity c0) eqn:Hu0; [|destruct (is_unity c1) eqn:Hu1].
      * destruct (unity_atom c0 Hw0 Hu0) as [op0 [ty0 [txt [qv [qp [-> Hq]]]]]].
        cbn [otsub tsub obind]. rewrite E1. cbn [obind app].
        eexists; split; [reflexivity|]. rewrite ?app_nil_r.
        exists t1. split; [assumption|]. split; [assumption|]. split.
        -- intros env x [Hp0 [Hp1 _]] He. cbn [dexactb] in He. apply andb_prop in He. destruct He as [He0 He1].
           rewrite (S1 env x Hp1 He1). cbn [dsem String.eqb Ascii.eqb Bool.eqb].
           rewrite (Qeq_bool_R _ _ He0), (Qeq_bool_R _ _ Hq). unfold Q2R. simpl. lra.
        -- intros Hsb Hdb. cbn [dbasisb] in Hdb. apply andb_prop in Hdb. destruct Hdb as [Hdb0 Hdb1]. auto.
      * destruct (unity_atom c1 Hw1 Hu1) as [op1 [ty1 [txt [qv [qp [-> Hq]]]]]].
        cbn [otsub tsub obind]. rewrite E0. cbn [obind app].
        eexists; split; [reflexivity|]. rewrite ?app_nil_r.
        exists t0. split; [assumption|]. split; [assumption|]. split.
        -- intros env x [Hp0 [Hp1 _]] He. cbn [dexactb] in He. apply andb_prop in He. destruct He as [He0 He1].
           rewrite (S0 env x Hp0 He0). cbn [dsem String.eqb Ascii.eqb Bool.eqb].
           rewrite (Qeq_bool_R _ _ He1), (Qeq_bool_R _ _ Hq). unfold Q2R. simpl. lra.
        -- intros Hsb Hdb. cbn [dbasisb] in Hdb. apply andb_prop in Hdb. destruct Hdb as [Hdb0 Hdb1]. auto.
      * cbn [otsub tsub obind]. rewrite E0, E1. cbn [obind app].
        eexists; split; [reflexivity|]. rewrite ?app_nil_r.
        exists (TBin "*" t0 t1).
        split; [cbn [relabel map relab1]; fold (relabel (l0 ++ l1)); rewrite relabel_app, R0, R1; reflexivity|].
        split; [split; [reflexivity|split; assumption]|]. split.
        -- intros env x [Hp0 [Hp1 _]] He. cbn [dexactb] in He. apply andb_prop in He. destruct He as [He0 He1].
           cbn [evalT]. rewrite (S0 env x Hp0 He0), (S1 env x Hp1 He1). reflexivity.
        -- intros Hsb Hdb. cbn [dbasisb] in Hdb. apply andb_prop in Hdb. destruct Hdb as [Hdb0 Hdb1].
           cbn [relabel map relab1 forallb]. fold (relabel (l0 ++ l1)).
           rewrite relabel_app, forallb_app, (B0 Hsb Hdb0), (B1 Hsb Hdb1).
           change (relab_str "Mul") with "*". rewrite lab_ok_bin by (auto; simpl; auto 10). reflexivity.
    + (* Pow *)
      rewrite to_list_eq, decide_Pow.
      destruct (String.eqb (dty c1) "Half" && (mem "sqrt" (b1 b) || mem "sqrt_abs" (b1 b))) eqn:Hhalf.
      { apply andb_prop in Hhalf. destruct Hhalf as [Hh1 Hh2].
        destruct (dty_atom c1 "Half" Hw1 (or_introl eq_refl) Hh1) as [txt [qv [qp [-> Hnum]]]].
        assert (Hsem : forall env x, dpos env x (D2 "Pow" ty (S (S m)) VNone c0 (D0 "Half" "Half" 0 (VNum txt qv qp))) ->
                 dexactb (D2 "Pow" ty (S (S m)) VNone c0 (D0 "Half" "Half" 0 (VNum txt qv qp))) = true ->
                 sqrt (Rabs (evalT env x t0)) = dsem env x (D2 "Pow" ty (S (S m)) VNone c0 (D0 "Half" "Half" 0 (VNum txt qv qp)))).
        { intros env x [Hp0 [_ Hp]] He. cbn [dexactb] in He. apply andb_prop in He. destruct He as [He0 _].
          rewrite (S0 env x Hp0 He0). cbn [dsem String.eqb Ascii.eqb Bool.eqb dint_exp].
          change (int_of "Half" qv) with (@None Z). cbn [pw].
          simpl in Hp. rewrite Rabs_pos by exact Hp. rewrite (numwf_half _ _ _ Hnum), Rpower_sqrt by exact Hp. reflexivity. }
        destruct (mem "sqrt" (b1 b)) eqn:Hsq; cbn [otsub tsub obind]; rewrite E0; cbn [obind app];
          (eexists; split; [reflexivity|]); rewrite ?app_nil_r.
        - exists (TUn "sqrt" t0).
          split; [cbn [relabel map relab1]; fold (relabel l0); rewrite R0; reflexivity|].
          split; [split; [reflexivity|assumption]|]. split; [exact Hsem|].
          intros Hsb Hdb. cbn [dbasisb] in Hdb. apply andb_prop in Hdb. destruct Hdb as [Hdb0 Hdb1].
          cbn [relabel map relab1 forallb]. fold (relabel l0). rewrite (B0 Hsb Hdb0).
          change (relab_str "sqrt") with "sqrt". unfold lab_okb. rewrite Hsq. reflexivity.
        - simpl in Hh2. exists (TUn "sqrt_abs" t0).
          split; [cbn [relabel map relab1]; fold (relabel l0); rewrite R0; reflexivity|].
          split; [split; [reflexivity|assumption]|]. split; [exact Hsem|].
          intros Hsb Hdb. cbn [dbasisb] in Hdb. apply andb_prop in Hdb. destruct Hdb as [Hdb0 Hdb1].
          cbn [relabel map relab1 forallb]. fold (relabel l0). rewrite (B0 Hsb Hdb0).
          change (relab_str "sqrt_abs") with "sqrt_abs". unfold lab_okb. rewrite Hh2. reflexivity. }
      destruct (val_is (dvl c1) "2" && mem "square" (b1 b)) eqn:Hsq2.
      { apply andb_prop in Hsq2. destruct Hsq2 as [Hv2 Hm2].
        destruct (val_is_num c1 "2" Hw1 (or_introl eq_refl) Hv2) as [op1 [ty1 [qv [qp [-> Hnum]]]]].
        cbn [otsub tsub obind]. rewrite E0. cbn [obind app].
        eexists; split; [reflexivity|]. rewrite ?app_nil_r.
        exists (TUn "square" t0).
        split; [cbn [relabel map relab1]; fold (relabel l0); rewrite R0; reflexivity|].
        split; [split; [reflexivity|assumption]|]. split.
        - intros env x [Hp0 [_ Hp]] He. cbn [dexactb] in He. apply andb_prop in He. destruct He as [He0 He1].
          cbn [evalT]. rewrite (S0 env x Hp0 He0). unfold un_lab_sem. cbn [String.eqb Ascii.eqb Bool.eqb].
          cbn [dsem String.eqb Ascii.eqb Bool.eqb dint_exp]. simpl in Hp.
          rewrite pw_pos; [|exact Hp|intros z Hz; eapply numwf_int; eauto].
          rewrite (Qeq_bool_R _ _ He1), (numwf_txt2 _ _ _ Hnum), Rpower_2 by exact Hp. reflexivity.
        - intros Hsb Hdb. cbn [dbasisb] in Hdb. apply andb_prop in Hdb. destruct Hdb as [Hdb0 Hdb1].
          cbn [relabel map relab1 forallb]. fold (relabel l0). rewrite (B0 Hsb Hdb0).
          change (relab_str "square") with "square". unfold lab_okb. rewrite Hm2. reflexivity. }
      destruct (val_is (dvl c1) "3" && mem "cube" (b1 b)) eqn:Hcu3.
      { apply andb_prop in Hcu3. destruct Hcu3 as [Hv3 Hm3].
        destruct (val_is_num c1 "3" Hw1 (or_intror eq_refl) Hv3) as [op1 [ty1 [qv [qp [-> Hnum]]]]].
        cbn [otsub tsub obind]. rewrite E0. cbn [obind app].
        eexists; split; [reflexivity|]. rewrite ?app_nil_r.
        exists (TUn "cube" t0).
        split; [cbn [relabel map relab1]; fold (relabel l0); rewrite R0; reflexivity|].
        split; [split; [reflexivity|assumption]|]. split.
        - intros env x [Hp0 [_ Hp]] He. cbn [dexactb] in He. apply andb_prop in He. destruct He as [He0 He1].
          cbn [evalT]. rewrite (S0 env x Hp0 He0). unfold un_lab_sem. cbn [String.eqb Ascii.eqb Bool.eqb].
          cbn [dsem String.eqb Ascii.eqb Bool.eqb dint_exp]. simpl in Hp.
          rewrite pw_pos; [|exact Hp|intros z Hz; eapply numwf_int; eauto].
          rewrite (Qeq_bool_R _ _ He1), (numwf_txt3 _ _ _ Hnum), Rpower_3 by exact Hp. reflexivity.
        - intros Hsb Hdb. cbn [dbasisb] in Hdb. apply andb_prop in Hdb. destruct Hdb as [Hdb0 Hdb1].
          cbn [relabel map relab1 forallb]. fold (relabel l0). rewrite (B0 Hsb Hdb0).
          change (relab_str "cube") with "cube". unfold lab_okb. rewrite Hm3. reflexivity. }
      destruct (String.eqb (dty c1) "NegativeOne" && mem "inv" (b1 b)) eqn:Hinv.
      { apply andb_prop in Hinv. destruct Hinv as [Hi1 Hi2].
        destruct (dty_atom c1 "NegativeOne" Hw1 (or_intror eq_refl) Hi1) as [txt [qv [qp [-> Hnum]]]].
        cbn [otsub tsub obind]. rewrite E0. cbn [obind app].
        eexists; split; [reflexivity|]. rewrite ?app_nil_r.
        exists (TUn "inv" t0).
        split; [cbn [relabel map relab1]; fold (relabel l0); rewrite R0; reflexivity|].
        split; [split; [reflexivity|assumption]|]. split.
        - intros env x [Hp0 _] He. cbn [dexactb] in He. apply andb_prop in He. destruct He as [He0 He1].
          cbn [evalT]. rewrite (S0 env x Hp0 He0). unfold un_lab_sem. cbn [String.eqb Ascii.eqb Bool.eqb].
          cbn [dsem String.eqb Ascii.eqb Bool.eqb dint_exp].
          change (int_of "NegativeOne" qv) with (Some (Qfloor qv)). cbn [pw].
          rewrite (proj2 (numwf_m1 _ _ _ Hnum)), powerRZ_m1. reflexivity.
        - intros Hsb Hdb. cbn [dbasisb] in Hdb. apply andb_prop in Hdb. destruct Hdb as [Hdb0 Hdb1].
          cbn [relabel map relab1 forallb]. fold (relabel l0). rewrite (B0 Hsb Hdb0).
          change (relab_str "Inv") with "inv". unfold lab_okb. rewrite Hi2. reflexivity. }
      cbn [otsub tsub obind]. rewrite E0, E1. cbn [obind app].
      eexists; split; [reflexivity|]. rewrite ?app_nil_r.
      exists (TBin "pow" t0 t1).
      split; [cbn [relabel map relab1]; fold (relabel (l0 ++ l1)); rewrite relabel_app, R0, R1; reflexivity|].
      split; [split; [reflexivity|split; assumption]|]. split.
      * intros env x [Hp0 [Hp1 Hp]] He. cbn [dexactb] in He. apply andb_prop in He. destruct He as [He0 He1].
        cbn [evalT]. rewrite (S0 env x Hp0 He0), (S1 env x Hp1 He1). unfold bin_lab_sem. cbn [String.eqb Ascii.eqb Bool.eqb].
        cbn [dsem String.eqb Ascii.eqb Bool.eqb]. simpl in Hp.
        rewrite pw_pos; [|exact Hp|intros z Hz; apply dint_exp_val; assumption].
        rewrite Rabs_pos by exact Hp. reflexivity.
      * intros Hsb Hdb. cbn [dbasisb] in Hdb. apply andb_prop in Hdb. destruct Hdb as [Hdb0 Hdb1].
        cbn [relabel map relab1 forallb]. fold (relabel (l0 ++ l1)).
        rewrite relabel_app, forallb_app, (B0 Hsb Hdb0), (B1 Hsb Hdb1).
        change (relab_str "Pow") with "pow". rewrite lab_ok_bin by (auto; simpl; auto 10). reflexivity.
    + (* Div *)
      rewrite to_list_eq, decide_Div.
      assert (Hc : String.eqb (dop c0) "Pow" && (String.eqb (dty c1) "NegativeOne" && mem "*" (b2 b)) = false).
      { cbn [bad_here String.eqb Ascii.eqb Bool.eqb andb orb] in Hnbh.
        destruct (String.eqb (dop c0) "Pow"), (String.eqb (dty c1) "NegativeOne"), (mem "*" (b2 b));
          simpl in *; congruence. }
      rewrite Hc.
      cbn [otsub tsub obind]. rewrite E0, E1. cbn [obind app].
      eexists; split; [reflexivity|]. rewrite ?app_nil_r.
      exists (TBin "/" t0 t1).
      split; [cbn [relabel map relab1]; fold (relabel (l0 ++ l1)); rewrite relabel_app, R0, R1; reflexivity|].
      split; [split; [reflexivity|split; assumption]|]. split.
      * intros env x [Hp0 [Hp1 _]] He. cbn [dexactb] in He. apply andb_prop in He. destruct He as [He0 He1].
        cbn [evalT]. rewrite (S0 env x Hp0 He0), (S1 env x Hp1 He1). unfold bin_lab_sem. cbn [String.eqb Ascii.eqb Bool.eqb].
        cbn [dsem String.eqb Ascii.eqb Bool.eqb]. rewrite powerRZ_m1. reflexivity.
      * intros Hsb Hdb. cbn [dbasisb] in Hdb. apply andb_prop in Hdb. destruct Hdb as [Hdb0 Hdb1].
        cbn [relabel map relab1 forallb]. fold (relabel (l0 ++ l1)).
        rewrite relabel_app, forallb_app, (B0 Hsb Hdb0), (B1 Hsb Hdb1).
        change (relab_str "Div") with "/". rewrite lab_ok_bin by (auto; simpl; auto 10). reflexivity.
Qed.

(* ================================================================ decorate builds well-shaped nodes with the same meaning *)
Fixpoint esize (e : sexpr) : nat :=
  match e with
  | EApp _ args => S ((fix sum (l : list sexpr) : nat := match l with [] => 0%nat | a :: r => (esize a + sum r)%nat end) args)
  | _ => 1%nat
  end.
Definition esizes (l : list sexpr) : nat := fold_right (fun a n => esize a + n)%nat 0%nat l.
Lemma esize_app c l : esize (EApp c l) = S (esizes l).
Proof. simpl. f_equal; induction l; simpl; auto. Qed.

Definition alls (f : sexpr -> bool) (l : list sexpr) : bool := forallb f l.
Lemma supportedb_app c l :
  supportedb (EApp c l) =
  forallb supportedb l
  && (if String.eqb c "Add" || String.eqb c "Mul" then (2 <=? length l)%nat
      else if String.eqb c "Pow" then (length l =? 2)%nat
      else mem c un_classes && (length l =? 1)%nat).
Proof. simpl. f_equal; induction l; simpl; auto; now rewrite IHl. Qed.
Lemma exactb_app c l : exactb (EApp c l) = forallb exactb l.
Proof. simpl. induction l; simpl; auto; now rewrite IHl. Qed.
Lemma over_basisb_app b c l :
  over_basisb b (EApp c l) =
  forallb (over_basisb b) l
  && (if String.eqb c "Add" || String.eqb c "Mul" || String.eqb c "Pow" then true
      else mem (lower c) (b1 b) || mem c ["log"; "Abs"]).
Proof. simpl. f_equal; induction l; simpl; auto; now rewrite IHl. Qed.
Fixpoint poss (b : basis) (env : nat -> R) (x : R) (l : list sexpr) : Prop :=
  match l with [] => True | a :: r => pos b env x a /\ poss b env x r end.
Lemma pos_app b env x c l :
  pos b env x (EApp c l) =
  (poss b env x l
   /\ (if String.eqb c "Pow" then
          match l with
          | [a; w] => if eq_int w (-1) && mem "inv" (b1 b) then True else (0 < sem env x a)%R
          | _ => True
          end
        else if String.eqb c "log" then match l with [a] => (0 < sem env x a)%R | _ => True end
        else True)).
Proof. simpl. f_equal; induction l; simpl; auto; now rewrite IHl. Qed.

Lemma decorate_app_eq b c l :
  decorate b (EApp c l) =
  let deg := length l in
  let one (o : string) (a : sexpr) := d <- decorate b a ;; Some (D1 o c deg VNone d) in
  let generic :=
    match l with
    | [] => Some (D0 c c 0 VNone)
    | [a0] => d0 <- decorate b a0 ;; Some (D1 c c 1 VNone d0)
    | [a0; a1] => d0 <- decorate b a0 ;; d1 <- decorate b a1 ;; Some (D2 c c 2 VNone d0 d1)
    | a0 :: rest =>
      if String.eqb c "Add" || String.eqb c "Mul"
      then d0 <- decorate b a0 ;; d1 <- decorate b (EApp c rest) ;; Some (D2 c c deg VNone d0 d1)
      else None
    end in
  if String.eqb c "Pow" then
    match l with
    | a0 :: a1 :: _ =>
      if eq_int a1 2 && mem "square" (b1 b) then one "Square" a0
      else if eq_int a1 3 && mem "cube" (b1 b) then one "Cube" a0
      else if eq_half a1 && (mem "sqrt" (b1 b) || mem "sqrt_abs" (b1 b)) then one "Sqrt" a0
      else if eq_int a1 (-1) && mem "inv" (b1 b) then one "Inv" a0
      else generic
    | _ => None
    end
  else if String.eqb c "Mul" then
    match l with
    | [a0; EApp c1 l1] =>
      if String.eqb c1 "Pow" then
        match l1 with
        | u :: w :: _ =>
          if eq_int w (-1)
          then d0 <- decorate b a0 ;; d1 <- decorate b u ;; Some (D2 "Div" c 2 VNone d0 d1)
          else generic
        | _ => None
        end
      else generic
    | _ => generic
    end
  else generic.
Proof. destruct l as [|a0 [|a1 [|a2 r]]]; reflexivity. Qed.

Definition dec_ok (b : basis) (e : sexpr) (d : dnode) : Prop :=
  dwfb d = true
  /\ (forall env x, dsem env x d = sem env x e)
  /\ (forall env x, pos b env x e -> dpos env x d)
  /\ (exactb e = true -> dexactb d = true)
  /\ (over_basisb b e = true -> dbasisb b d = true).

Lemma sem_add env x a r : sem env x (EApp "Add" (a :: r)) = (sem env x a + sem env x (EApp "Add" r))%R.
Proof. reflexivity. Qed.
Lemma sem_mul env x a r : sem env x (EApp "Mul" (a :: r)) = (sem env x a * sem env x (EApp "Mul" r))%R.
Proof. reflexivity. Qed.
Lemma sem_pow env x a w : sem env x (EApp "Pow" [a; w]) = pw (sem env x a) (int_exp w) (sem env x w).
Proof. reflexivity. Qed.

Lemma dint_decorate_app b c l d : decorate b (EApp c l) = Some d -> dint_exp d = None.
Proof.
  rewrite decorate_app_eq. cbv zeta.
  assert (Hb : forall (o : option dnode) (f : dnode -> dnode),
             (forall y, dint_exp (f y) = None) -> (y <- o ;; Some (f y)) = Some d -> dint_exp d = None).
  { intros o f Hf. destruct o; simpl; [|discriminate]. intros [= <-]. apply Hf. }
  assert (Hb2 : forall (o1 o2 : option dnode) (f : dnode -> dnode -> dnode),
             (forall y z, dint_exp (f y z) = None) -> (y <- o1 ;; z <- o2 ;; Some (f y z)) = Some d -> dint_exp d = None).
  { intros o1 o2 f Hf. destruct o1; simpl; [|discriminate]. destruct o2; simpl; [|discriminate]. intros [= <-]. apply Hf. }
  assert (Hg : match l with
               | [] => Some (D0 c c 0 VNone)
               | [a0] => d0 <- decorate b a0 ;; Some (D1 c c 1 VNone d0)
               | [a0; a1] => d0 <- decorate b a0 ;; d1 <- decorate b a1 ;; Some (D2 c c 2 VNone d0 d1)
               | a0 :: rest =>
                 if String.eqb c "Add" || String.eqb c "Mul"
                 then d0 <- decorate b a0 ;; d1 <- decorate b (EApp c rest) ;; Some (D2 c c (length l) VNone d0 d1)
                 else None
               end = Some d -> dint_exp d = None).
  { destruct l as [|a0 [|a1 [|a2 r]]].
    - intros [= <-]. reflexivity.
    - apply Hb. reflexivity.
    - apply Hb2. reflexivity.
    - destruct (String.eqb c "Add" || String.eqb c "Mul"); [|discriminate]. apply Hb2. reflexivity. }
  destruct (String.eqb c "Pow").
  - destruct l as [|a0 [|a1 r]]; try discriminate.
    destruct (eq_int a1 2 && mem "square" (b1 b)); [apply Hb; reflexivity|].
    destruct (eq_int a1 3 && mem "cube" (b1 b)); [apply Hb; reflexivity|].
    destruct (eq_half a1 && (mem "sqrt" (b1 b) || mem "sqrt_abs" (b1 b))); [apply Hb; reflexivity|].
    destruct (eq_int a1 (-1) && mem "inv" (b1 b)); [apply Hb; reflexivity|].
    exact Hg.
  - destruct (String.eqb c "Mul"); [|exact Hg].
    destruct l as [|a0 [|a1 [|a2 r]]]; try exact Hg.
    + destruct a1 as [| |c1 l1]; try exact Hg.
      destruct (String.eqb c1 "Pow"); [|exact Hg].
      destruct l1 as [|u [|w r1]]; try discriminate.
      destruct (eq_int w (-1)); [apply Hb2; reflexivity|exact Hg].
    + destruct a1; exact Hg.
Qed.

Lemma dint_decorate b e d : decorate b e = Some d -> dint_exp d = int_exp e.
Proof.
  destruct e as [c txt qv qp|s|c l].
  - intros [= <-]. reflexivity.
  - intros [= <-]. reflexivity.
  - intro H. rewrite (dint_decorate_app b c l d H). reflexivity.
Qed.

(* eq_int facts *)
Lemma eq_int_inv e k : eq_int e k = true ->
  exists c txt qv qp, e = ENum c txt qv qp /\ is_intcls c = true /\ Qeq_bool qv (inject_Z k) = true.
Proof.
  destruct e as [c txt qv qp|s|c l]; simpl; try discriminate.
  intro H. apply andb_prop in H. destruct H. eauto 10.
Qed.
Lemma eq_int_floor c txt qv qp k : eq_int (ENum c txt qv qp) k = true -> int_exp (ENum c txt qv qp) = Some k.
Proof.
  simpl. intro H. apply andb_prop in H. destruct H as [Hc Hq]. unfold int_of. rewrite Hc.
  apply Qeq_bool_iff in Hq. rewrite Hq. f_equal. apply Qfloor_Z.
Qed.
Lemma eq_int_excl e j k : j <> k -> eq_int e j = true -> eq_int e k = false.
Proof.
  intros Hjk Hj. destruct (eq_int_inv e j Hj) as [c [txt [qv [qp [-> [Hc Hq]]]]]].
  simpl. rewrite Hc. simpl. destruct (Qeq_bool qv (inject_Z k)) eqn:Hk; [|reflexivity].
  apply Qeq_bool_iff in Hq, Hk. rewrite Hq in Hk. unfold Qeq, inject_Z in Hk. simpl in Hk. lia.
Qed.

Lemma esizes_in a l : In a l -> (esize a <= esizes l)%nat.
Proof. induction l; simpl; [tauto|]. intros [-> | H]; [lia|]. apply IHl in H. lia. Qed.
Lemma forallb_in {A} (f : A -> bool) l a : forallb f l = true -> In a l -> f a = true.
Proof. intros H Hi. rewrite forallb_forall in H. auto. Qed.

Lemma dec_ok_num b c txt qv qp :
  numwfb c txt qv qp = true -> dec_ok b (ENum c txt qv qp) (D0 c c 0 (VNum txt qv qp)).
Proof.
  intro H. unfold dec_ok. cbn [dwfb dsem sem dpos exactb dexactb dbasisb over_basisb pos].
  rewrite String.eqb_refl, H. repeat split; auto.
Qed.
Lemma dec_ok_sym b s : dec_ok b (ESym s) (D0 "Symbol" "Symbol" 0 (VSym s)).
Proof. unfold dec_ok. cbn. repeat split; auto. Qed.

Lemma dec_ok_bin2 b c a0 a1 d0 d1 :
  (c = "Add" \/ c = "Mul") -> dec_ok b a0 d0 -> dec_ok b a1 d1 ->
  dec_ok b (EApp c [a0; a1]) (D2 c c 2 VNone d0 d1).
Proof.
  intros Hc [W0 [S0 [P0 [X0 B0]]]] [W1 [S1 [P1 [X1 B1]]]]. unfold dec_ok.
  rewrite exactb_app, over_basisb_app. cbn [forallb dwfb dexactb dbasisb]. rewrite W0, W1.
  split; [destruct Hc as [-> | ->]; reflexivity|].
  split; [intros env x; destruct Hc as [-> | ->]; cbn [dsem String.eqb Ascii.eqb Bool.eqb];
          rewrite S0, S1; [rewrite !sem_add|rewrite !sem_mul]; cbn; ring|].
  split; [intros env x; rewrite pos_app; cbn [poss]; intros [[Q0 [Q1 _]] _]; cbn [dpos];
          split; [auto|split; [auto|destruct Hc as [-> | ->]; exact I]]|].
  split.
  - intro H. rewrite !andb_true_r in H. apply andb_prop in H. destruct H. rewrite X0, X1; auto.
  - intro H. apply andb_prop in H. destruct H as [H _]. rewrite !andb_true_r in H.
    apply andb_prop in H. destruct H. rewrite B0, B1; auto.
Qed.

Lemma dec_ok_nary b c a0 rest d0 dr :
  (c = "Add" \/ c = "Mul") -> (1 <= length rest)%nat -> dec_ok b a0 d0 -> dec_ok b (EApp c rest) dr ->
  dec_ok b (EApp c (a0 :: rest)) (D2 c c (S (length rest)) VNone d0 dr).
Proof.
  intros Hc Hl [W0 [S0 [P0 [X0 B0]]]] [W1 [S1 [P1 [X1 B1]]]]. unfold dec_ok.
  rewrite exactb_app, over_basisb_app in *. cbn [forallb dwfb dexactb dbasisb]. rewrite W0, W1.
  split; [destruct rest; [simpl in Hl; lia|]; destruct Hc as [-> | ->]; reflexivity|].
  split; [intros env x; destruct Hc as [-> | ->]; cbn [dsem String.eqb Ascii.eqb Bool.eqb];
          rewrite S0, S1; [rewrite sem_add|rewrite sem_mul]; reflexivity|].
  split; [intros env x; rewrite pos_app; cbn [poss]; intros [[Q0 Q1] _]; cbn [dpos];
          split; [auto|split; [apply P1; rewrite pos_app; split; [exact Q1|destruct Hc as [-> | ->]; exact I]
                              |destruct Hc as [-> | ->]; exact I]]|].
  split.
  - intro H. apply andb_prop in H. destruct H. rewrite X0, X1; auto.
  - intro H. apply andb_prop in H. destruct H as [H H']. apply andb_prop in H. destruct H.
    rewrite B0, B1; auto. rewrite H0. exact H'.
Qed.

Lemma dec_ok_div b a0 u w d0 du :
  eq_int w (-1) = true -> dec_ok b a0 d0 -> dec_ok b u du ->
  dec_ok b (EApp "Mul" [a0; EApp "Pow" [u; w]]) (D2 "Div" "Mul" 2 VNone d0 du).
Proof.
  intros Hw [W0 [S0 [P0 [X0 B0]]]] [W1 [S1 [P1 [X1 B1]]]]. unfold dec_ok.
  destruct (eq_int_inv w _ Hw) as [cw [txt [qv [qp [-> [Hcw Hq]]]]]].
  rewrite !exactb_app, !over_basisb_app. cbn [forallb dwfb dexactb dbasisb]. rewrite !exactb_app, !over_basisb_app.
  cbn [forallb]. rewrite W0, W1.
  split; [reflexivity|].
  split; [intros env x; cbn [dsem String.eqb Ascii.eqb Bool.eqb]; rewrite S0, S1, sem_mul, sem_mul, sem_pow,
          (eq_int_floor _ _ _ _ _ Hw); cbn [pw]; cbn; ring|].
  split; [intros env x; rewrite pos_app; cbn [poss]; rewrite pos_app; cbn [poss];
          intros [[Q0 [[[Qu _] _] _]] _]; cbn [dpos String.eqb Ascii.eqb Bool.eqb]; auto|].
  split.
  - intro H. apply andb_prop in H. destruct H as [H H']. apply andb_prop in H'. destruct H' as [H' _].
    apply andb_prop in H'. destruct H' as [H' _]. rewrite X0, X1; auto.
  - intro H. apply andb_prop in H. destruct H as [H _]. apply andb_prop in H. destruct H as [H H'].
    apply andb_prop in H'. destruct H' as [H' _]. apply andb_prop in H'. destruct H' as [H' _].
    apply andb_prop in H'. destruct H' as [H' _]. rewrite B0, B1; auto.
Qed.

Lemma eq_half_inv e : eq_half e = true ->
  exists txt qv qp, e = ENum "Float" txt qv qp /\ Qeq_bool qv (1 # 2) = true.
Proof.
  destruct e as [c txt qv qp|s|c l]; simpl; try discriminate.
  intro H. apply andb_prop in H. destruct H as [Hc Hq]. apply String.eqb_eq in Hc. subst. eauto.
Qed.

(* the four renamings of Pow *)
Lemma dec_ok_pow1 b o a0 a1 d0 :
  dec_ok b a0 d0 ->
  (o = "Square" /\ eq_int a1 2 = true /\ mem "square" (b1 b) = true
   \/ o = "Cube" /\ eq_int a1 3 = true /\ mem "cube" (b1 b) = true
   \/ o = "Sqrt" /\ eq_half a1 = true
   \/ o = "Inv" /\ eq_int a1 (-1) = true /\ mem "inv" (b1 b) = true) ->
  dec_ok b (EApp "Pow" [a0; a1]) (D1 o "Pow" 2 VNone d0).
Proof.
  intros [W0 [S0 [P0 [X0 B0]]]] Ho. unfold dec_ok.
  rewrite exactb_app, over_basisb_app. cbn [forallb dwfb dexactb dbasisb]. rewrite W0.
  split; [destruct Ho as [[-> _] | [[-> _] | [[-> _] | [-> _]]]]; reflexivity|].
  split.
  { intros env x. rewrite sem_pow.
    destruct Ho as [[-> [H _]] | [[-> [H _]] | [[-> H] | [-> [H _]]]]]; cbn [dsem String.eqb Ascii.eqb Bool.eqb]; rewrite S0.
    - destruct (eq_int_inv a1 _ H) as [cw [txt [qv [qp [-> _]]]]]. rewrite (eq_int_floor _ _ _ _ _ H). reflexivity.
    - destruct (eq_int_inv a1 _ H) as [cw [txt [qv [qp [-> _]]]]]. rewrite (eq_int_floor _ _ _ _ _ H). reflexivity.
    - destruct (eq_half_inv a1 H) as [txt [qv [qp [-> Hq]]]]. cbn [int_exp]. change (int_of "Float" qv) with (@None Z).
      cbn [pw sem]. rewrite (Qeq_bool_R _ _ Hq). reflexivity.
    - destruct (eq_int_inv a1 _ H) as [cw [txt [qv [qp [-> _]]]]]. rewrite (eq_int_floor _ _ _ _ _ H). reflexivity. }
  split.
  { intros env x. rewrite pos_app. cbn [poss String.eqb Ascii.eqb Bool.eqb]. intros [[Q0 _] Hp]. cbn [dpos].
    split; [auto|]. rewrite S0.
    destruct Ho as [[-> [H _]] | [[-> [H _]] | [[-> H] | [-> [H _]]]]].
    - rewrite (eq_int_excl a1 2 (-1)) in Hp by (auto; lia). exact Hp.
    - rewrite (eq_int_excl a1 3 (-1)) in Hp by (auto; lia). exact Hp.
    - destruct (eq_half_inv a1 H) as [txt [qv [qp [-> Hq]]]]. exact Hp.
    - exact I. }
  split.
  - intro H. apply andb_prop in H. destruct H as [H _]. auto.
  - intro H. apply andb_prop in H. destruct H as [H _]. apply andb_prop in H. destruct H as [H _].
    rewrite (B0 H).
    destruct Ho as [[-> [_ Hm]] | [[-> [_ Hm]] | [[-> _] | [-> [_ Hm]]]]]; cbn [Nat.eqb String.eqb Ascii.eqb Bool.eqb andb];
      rewrite ?Hm, ?orb_true_r; reflexivity.
Qed.

Lemma dec_ok_pow2 b a0 a1 d0 d1 :
  eq_int a1 (-1) && mem "inv" (b1 b) = false -> decorate b a1 = Some d1 ->
  dec_ok b a0 d0 -> dec_ok b a1 d1 ->
  dec_ok b (EApp "Pow" [a0; a1]) (D2 "Pow" "Pow" 2 VNone d0 d1).
Proof.
  intros Hc Hd [W0 [S0 [P0 [X0 B0]]]] [W1 [S1 [P1 [X1 B1]]]]. unfold dec_ok.
  rewrite exactb_app, over_basisb_app. cbn [forallb dwfb dexactb dbasisb]. rewrite W0, W1.
  split; [reflexivity|].
  split; [intros env x; rewrite sem_pow; cbn [dsem String.eqb Ascii.eqb Bool.eqb];
          rewrite S0, S1, (dint_decorate b a1 d1 Hd); reflexivity|].
  split; [intros env x; rewrite pos_app; cbn [poss String.eqb Ascii.eqb Bool.eqb]; rewrite Hc;
          intros [[Q0 [Q1 _]] Hp]; cbn [dpos String.eqb Ascii.eqb Bool.eqb]; rewrite S0; auto|].
  split.
  - intro H. apply andb_prop in H. destruct H as [H H']. apply andb_prop in H'. destruct H' as [H' _].
    rewrite X0, X1; auto.
  - intro H. apply andb_prop in H. destruct H as [H _]. apply andb_prop in H. destruct H as [H H'].
    apply andb_prop in H'. destruct H' as [H' _]. rewrite B0, B1; auto.
Qed.

Lemma dec_ok_un b c a0 d0 :
  In c un_classes -> dec_ok b a0 d0 -> dec_ok b (EApp c [a0]) (D1 c c 1 VNone d0).
Proof.
  intros Hc [W0 [S0 [P0 [X0 B0]]]]. unfold dec_ok.
  rewrite exactb_app, over_basisb_app. cbn [forallb dwfb dexactb dbasisb Nat.eqb]. rewrite W0.
  simpl in Hc.
  repeat (destruct Hc as [<- | Hc]; [
    split; [reflexivity|];
    split; [intros env x; cbn [dsem sem String.eqb Ascii.eqb Bool.eqb]; rewrite S0; reflexivity|];
    split; [intros env x; rewrite pos_app; cbn [poss String.eqb Ascii.eqb Bool.eqb]; intros [[Q0 _] Hp];
            cbn [dpos]; split; [auto|]; rewrite S0; first [exact Hp | exact I]|];
    split; [intro H; rewrite andb_true_r in H; auto|];
    intro H; apply andb_prop in H; destruct H as [H H']; rewrite andb_true_r in H; rewrite (B0 H);
    cbn [String.eqb Ascii.eqb Bool.eqb orb] in H'; exact H' |]).
  contradiction.
Qed.

Lemma decorate_ok b : forall n e, (esize e < n)%nat -> supportedb e = true ->
  exists d, decorate b e = Some d /\ dec_ok b e d.
Proof.
  induction n as [|n IH]; intros e Hn Hs; [lia|].
  destruct e as [c txt qv qp|s|c l].
  - eexists; split; [reflexivity|]. apply dec_ok_num. exact Hs.
  - eexists; split; [reflexivity|]. apply dec_ok_sym.
  - rewrite supportedb_app in Hs. apply andb_prop in Hs. destruct Hs as [Hall Hc].
    rewrite esize_app in Hn.
    assert (IHa : forall a, In a l -> exists d, decorate b a = Some d /\ dec_ok b a d).
    { intros a Ha. apply IH; [pose proof (esizes_in a l Ha); lia|]. eapply forallb_in; eauto. }
    rewrite decorate_app_eq. cbv zeta.
    destruct (String.eqb c "Add" || String.eqb c "Mul") eqn:Ham.
    + (* Add / Mul *)
      assert (Hcc : c = "Add" \/ c = "Mul").
      { apply orb_prop in Ham. destruct Ham as [H|H]; apply String.eqb_eq in H; auto. }
      apply Nat.leb_le in Hc.
      destruct l as [|a0 [|a1 r]]; [simpl in Hc; lia|simpl in Hc; lia|].
      destruct (IHa a0 (or_introl eq_refl)) as [d0 [E0 K0]].
      destruct (IHa a1 (or_intror (or_introl eq_refl))) as [d1 [E1 K1]].
      assert (Hgen : exists d,
                 match a0 :: a1 :: r with
                 | [] => Some (D0 c c 0 VNone)
                 | [a0] => d0 <- decorate b a0 ;; Some (D1 c c 1 VNone d0)
                 | [a0; a1] => d0 <- decorate b a0 ;; d1 <- decorate b a1 ;; Some (D2 c c 2 VNone d0 d1)
                 | a0 :: rest =>
                   if String.eqb c "Add" || String.eqb c "Mul"
                   then d0 <- decorate b a0 ;; d1 <- decorate b (EApp c rest) ;;
                        Some (D2 c c (length (a0 :: a1 :: r)) VNone d0 d1)
                   else None
                 end = Some d /\ dec_ok b (EApp c (a0 :: a1 :: r)) d).
      { destruct r as [|a2 r].
        - rewrite E0, E1. cbn [obind]. eexists; split; [reflexivity|]. apply dec_ok_bin2; assumption.
        - rewrite Ham, E0. cbn [obind].
          assert (Hr : exists dr, decorate b (EApp c (a1 :: a2 :: r)) = Some dr /\ dec_ok b (EApp c (a1 :: a2 :: r)) dr).
          { apply IH.
            - rewrite esize_app. simpl in Hn |- *. pose proof (esize a0). destruct a0; simpl in *; lia.
            - rewrite supportedb_app, Ham. simpl in Hall |- *. apply andb_prop in Hall. destruct Hall as [_ Hall].
              rewrite Hall. reflexivity. }
          destruct Hr as [dr [Er Kr]]. rewrite Er. cbn [obind].
          eexists; split; [reflexivity|].
          apply (dec_ok_nary b c a0 (a1 :: a2 :: r) d0 dr); auto. simpl. lia. }
      destruct Hcc as [-> | ->].
      * cbn [String.eqb Ascii.eqb Bool.eqb]. exact Hgen.
      * cbn [String.eqb Ascii.eqb Bool.eqb].
        destruct r as [|a2 r]; [|destruct a1; exact Hgen].
        destruct a1 as [c1 t1 q1 q1'|s1|c1 l1]; try exact Hgen.
        destruct (String.eqb c1 "Pow") eqn:Hp; [|exact Hgen]. apply String.eqb_eq in Hp. subst c1.
        assert (Hs1 : supportedb (EApp "Pow" l1) = true) by (eapply forallb_in; [exact Hall|simpl; auto]).
        rewrite supportedb_app in Hs1. apply andb_prop in Hs1. destruct Hs1 as [Hall1 Hl1].
        cbn [String.eqb Ascii.eqb Bool.eqb orb] in Hl1. apply Nat.eqb_eq in Hl1.
        destruct l1 as [|u [|w [|? ?]]]; try discriminate Hl1.
        destruct (eq_int w (-1)) eqn:Hw; [|exact Hgen].
        assert (Hu : exists du, decorate b u = Some du /\ dec_ok b u du).
        { apply IH.
          - simpl in Hn |- *. lia.
          - simpl in Hall1. apply andb_prop in Hall1. tauto. }
        destruct Hu as [du [Eu Ku]]. rewrite E0, Eu. cbn [obind].
        eexists; split; [reflexivity|]. apply dec_ok_div; assumption.
    + destruct (String.eqb c "Pow") eqn:Hp.
      * (* Pow *)
        apply String.eqb_eq in Hp. subst c. apply Nat.eqb_eq in Hc.
        destruct l as [|a0 [|a1 [|? ?]]]; try discriminate Hc.
        destruct (IHa a0 (or_introl eq_refl)) as [d0 [E0 K0]].
        destruct (IHa a1 (or_intror (or_introl eq_refl))) as [d1 [E1 K1]].
        destruct (eq_int a1 2 && mem "square" (b1 b)) eqn:H2.
        { apply andb_prop in H2. rewrite E0. cbn [obind]. eexists; split; [reflexivity|].
          apply dec_ok_pow1; [assumption|]. left. tauto. }
        destruct (eq_int a1 3 && mem "cube" (b1 b)) eqn:H3.
        { apply andb_prop in H3. rewrite E0. cbn [obind]. eexists; split; [reflexivity|].
          apply dec_ok_pow1; [assumption|]. right. left. tauto. }
        destruct (eq_half a1 && (mem "sqrt" (b1 b) || mem "sqrt_abs" (b1 b))) eqn:Hh.
        { apply andb_prop in Hh. rewrite E0. cbn [obind]. eexists; split; [reflexivity|].
          apply dec_ok_pow1; [assumption|]. right. right. left. tauto. }
        destruct (eq_int a1 (-1) && mem "inv" (b1 b)) eqn:Hi.
        { apply andb_prop in Hi. rewrite E0. cbn [obind]. eexists; split; [reflexivity|].
          apply dec_ok_pow1; [assumption|]. right. right. right. tauto. }
        rewrite E0, E1. cbn [obind]. eexists; split; [reflexivity|]. apply dec_ok_pow2; assumption.
      * (* a one-argument class *)
        apply andb_prop in Hc. destruct Hc as [Hm Hl]. apply Nat.eqb_eq in Hl. apply mem_In in Hm.
        destruct l as [|a0 [|? ?]]; try discriminate Hl.
        destruct (IHa a0 (or_introl eq_refl)) as [d0 [E0 K0]].
        assert (Hnm : String.eqb c "Mul" = false).
        { apply orb_false_elim in Ham. tauto. }
        rewrite Hnm, E0. cbn [obind]. eexists; split; [reflexivity|]. apply dec_ok_un; assumption.
Qed.

(* ================================================================ the property theorems *)
Theorem to_list_total b e :
  supportedb e = true ->
  exists d, decorate b e = Some d /\ (no_bad b d = true -> exists l, to_list b None d = Some l).
Proof.
  intro Hs. destruct (decorate_ok b (S (esize e)) e (Nat.lt_succ_diag_r _) Hs) as [d [E [W _]]].
  exists d. split; [exact E|]. intro Hnb.
  destruct (to_list_good (S (dsize d)) b d (Nat.lt_succ_diag_r _) W Hnb None) as [l [El _]]. eauto.
Qed.

Lemma to_list_main b e d l :
  supportedb e = true -> decorate b e = Some d -> no_bad b d = true -> to_list b None d = Some l ->
  exists t, of_prefix (relabel l) = Some t /\ tsize t = length l
    /\ (exactb e = true -> forall env x, pos b env x e -> evalT env x t = sem env x e)
    /\ (std_binary b = true -> over_basisb b e = true -> forallb (lab_okb b) (relabel l) = true).
Proof.
  intros Hs Ed Hnb El.
  destruct (decorate_ok b (S (esize e)) e (Nat.lt_succ_diag_r _) Hs) as [d' [E [W [Sm [P [X B]]]]]].
  rewrite Ed in E. injection E as <-.
  destruct (to_list_good (S (dsize d)) b d (Nat.lt_succ_diag_r _) W Hnb None) as [l' [El' [t [R [Wt [St Bt]]]]]].
  rewrite El in El'. injection El' as <-.
  exists t. split; [rewrite R; apply of_prefix_to_prefix; exact Wt|].
  split; [rewrite <- length_to_prefix, <- R; unfold relabel; apply map_length|].
  split.
  - intros Hx env x Hp. rewrite St; auto.
  - intros Hb Ho. auto.
Qed.

Theorem to_list_wellformed b e d l :
  supportedb e = true -> decorate b e = Some d -> no_bad b d = true -> to_list b None d = Some l ->
  exists t, of_prefix (relabel l) = Some t /\ tsize t = length l /\ count_nodes b d = Some (length l).
Proof.
  intros Hs Ed Hnb El. destruct (to_list_main b e d l Hs Ed Hnb El) as [t [Ht [Hsz _]]].
  exists t. repeat split; auto. unfold count_nodes. rewrite El. reflexivity.
Qed.

Theorem to_list_sound b e d l :
  supportedb e = true -> exactb e = true -> decorate b e = Some d -> no_bad b d = true -> to_list b None d = Some l ->
  exists t, of_prefix (relabel l) = Some t /\ forall env x, pos b env x e -> evalT env x t = sem env x e.
Proof.
  intros Hs Hx Ed Hnb El. destruct (to_list_main b e d l Hs Ed Hnb El) as [t [Ht [_ [Hsem _]]]].
  exists t. split; auto.
Qed.

Theorem labels_in_basis_except_sqrt_log b e d l :
  supportedb e = true -> over_basisb b e = true -> std_binary b = true ->
  decorate b e = Some d -> no_bad b d = true -> to_list b None d = Some l ->
  forallb (lab_okb b) (relabel l) = true.
Proof.
  intros Hs Ho Hb Ed Hnb El. destruct (to_list_main b e d l Hs Ed Hnb El) as [t [_ [_ [_ H]]]]. auto.
Qed.

(* ---- witnesses of the two refuted statements *)
Definition w_sqrt : sexpr := EApp "Pow" [ESym SX; ENum "Float" "0.500000000000000" (1 # 2) (1 # 2)].
Definition w_log : sexpr := EApp "log" [ESym SX].
Definition w_powm1 : sexpr := EApp "Mul" [EApp "Pow" [ESym SX; ESym (SA 0)]; ENum "NegativeOne" "-1" (-1 # 1) (-1 # 1)].

Theorem labels_in_basis_refuted :
  exists b e d l, supportedb e = true /\ over_basisb b e = true /\ std_binary b = true
    /\ decorate b e = Some d /\ no_bad b d = true /\ to_list b None d = Some l
    /\ map show_rlabel (relabel l) = ["sqrt"; "x"]
    /\ forallb (in_basisb b) (relabel l) = false
    /\ final_labels b false l = None.
Proof.
  exists keep_duplicates, w_sqrt. eexists. eexists.
  split; [vm_compute; reflexivity|]. split; [vm_compute; reflexivity|]. split; [vm_compute; reflexivity|].
  split; [vm_compute; reflexivity|]. split; [vm_compute; reflexivity|]. split; [vm_compute; reflexivity|].
  split; [vm_compute; reflexivity|]. split; vm_compute; reflexivity.
Qed.

Theorem labels_in_basis_refuted_log :
  exists b e d l, supportedb e = true /\ over_basisb b e = true /\ std_binary b = true
    /\ decorate b e = Some d /\ no_bad b d = true /\ to_list b None d = Some l
    /\ map show_rlabel (relabel l) = ["log"; "x"]
    /\ forallb (in_basisb b) (relabel l) = false
    /\ final_labels b false l = None.
Proof.
  exists base_e_maths, w_log. eexists. eexists.
  split; [vm_compute; reflexivity|]. split; [vm_compute; reflexivity|]. split; [vm_compute; reflexivity|].
  split; [vm_compute; reflexivity|]. split; [vm_compute; reflexivity|]. split; [vm_compute; reflexivity|].
  split; [vm_compute; reflexivity|]. split; vm_compute; reflexivity.
Qed.

(* pow(a0-a2, -a0) as the symbol table parses it: |a0-a2|**(-a0); the Abs survives as a label *)
Definition w_abs : sexpr :=
  EApp "Pow" [EApp "Abs" [EApp "Add" [ESym (SA 0); EApp "Mul" [ENum "NegativeOne" "-1" (-1 # 1) (-1 # 1); ESym (SA 2)]]];
              ESym (SA 0)].

Theorem labels_in_basis_refuted_abs :
  exists b e d l, supportedb e = true /\ over_basisb b e = true /\ std_binary b = true
    /\ decorate b e = Some d /\ no_bad b d = true /\ to_list b None d = Some l
    /\ map show_rlabel (relabel l) = ["pow"; "abs"; "-"; "a0"; "a2"; "a0"]
    /\ forallb (in_basisb b) (relabel l) = false
    /\ final_labels b false l = None.
Proof.
  exists core_maths, w_abs. eexists. eexists.
  split; [vm_compute; reflexivity|]. split; [vm_compute; reflexivity|]. split; [vm_compute; reflexivity|].
  split; [vm_compute; reflexivity|]. split; [vm_compute; reflexivity|]. split; [vm_compute; reflexivity|].
  split; [vm_compute; reflexivity|]. split; vm_compute; reflexivity.
Qed.

Theorem to_list_wellformed_refuted :
  exists b e d l, supportedb e = true /\ exactb e = true /\ decorate b e = Some d /\ to_list b None d = Some l
    /\ map show_label l = ["Mul"; "-1"]
    /\ of_prefix (relabel l) = None
    /\ count_nodes b d = Some 2%nat.
Proof.
  exists core_maths, w_powm1. eexists. eexists.
  split; [vm_compute; reflexivity|]. split; [vm_compute; reflexivity|]. split; [vm_compute; reflexivity|].
  split; [vm_compute; reflexivity|]. split; [vm_compute; reflexivity|]. split; vm_compute; reflexivity.
Qed.

(* ================================================================ relabelling and `replace floats` *)
Lemma parent_is_pow_hit x p h :
  (if r_is_num x then (pw <- parent_is_pow p ;; Some (negb pw)) else Some (r_is_par x)) = Some h ->
  h = hitb (x, p).
Proof.
  unfold hitb. simpl. destruct (r_is_num x).
  - destruct p as [q|]; simpl; intros [= <-]; reflexivity.
  - intros [= <-]. reflexivity.
Qed.

Lemma replace_from_spec : forall l k out,
  replace_from k l = Some out ->
  length out = length l
  /\ forall j xp, nth_error l j = Some xp ->
       nth_error out j = Some (if hitb xp then RSym (SA (k + nhits (firstn j l))) else fst xp).
Proof.
  induction l as [|[x p] r IH]; intros k out H.
  - simpl in H. injection H as <-. split; [reflexivity|]. intros [|j] xp Hj; discriminate.
  - cbn [replace_from] in H.
    destruct (if r_is_num x then (pw <- parent_is_pow p ;; Some (negb pw)) else Some (r_is_par x)) as [h|] eqn:Hh;
      [|discriminate].
    apply parent_is_pow_hit in Hh. subst h. cbn [obind] in H.
    destruct (hitb (x, p)) eqn:Hit.
    + destruct (replace_from (S k) r) as [t|] eqn:Ht; [|discriminate]. cbn [obind] in H. injection H as <-.
      destruct (IH _ _ Ht) as [Hl Hn]. split; [simpl; congruence|].
      intros [|j] xp Hj.
      * simpl in Hj. injection Hj as <-. simpl. rewrite Hit. unfold nhits. simpl. rewrite Nat.add_0_r. reflexivity.
      * simpl in Hj. simpl. rewrite (Hn j xp Hj). unfold nhits. simpl. rewrite Hit. simpl.
        destruct (hitb xp); [|reflexivity]. do 3 f_equal. lia.
    + destruct (replace_from k r) as [t|] eqn:Ht; [|discriminate]. cbn [obind] in H. injection H as <-.
      destruct (IH _ _ Ht) as [Hl Hn]. split; [simpl; congruence|].
      intros [|j] xp Hj.
      * simpl in Hj. injection Hj as <-. simpl. rewrite Hit. reflexivity.
      * simpl in Hj. simpl. rewrite (Hn j xp Hj). unfold nhits. simpl. rewrite Hit. reflexivity.
Qed.

Lemma final_labels_inv b rf l0 l' :
  final_labels b rf l0 = Some l' ->
  exists s ps, shape b (relabel l0) = Some s /\ parents (combine (relabel l0) s) = Some ps
    /\ (if rf then replace_from 0 (combine (relabel l0) ps) = Some l' else l' = relabel l0).
Proof.
  unfold final_labels. destruct (shape b (relabel l0)) as [s|] eqn:Hs; [|discriminate]. cbn [obind].
  destruct (parents (combine (relabel l0) s)) as [ps|] eqn:Hp; [|discriminate]. cbn [obind].
  intro H. exists s, ps. split; [reflexivity|]. split; [exact Hp|].
  destruct rf; [exact H|]. injection H as <-. reflexivity.
Qed.

(* after the repair (a root number has "no pow parent") replacement itself never raises *)
Lemma replace_from_total : forall l k, exists out, replace_from k l = Some out.
Proof.
  induction l as [|[x p] r IH]; intro k; [eexists; reflexivity|].
  cbn [replace_from].
  assert (Hh : exists h, (if r_is_num x then (pw <- parent_is_pow p ;; Some (negb pw)) else Some (r_is_par x)) = Some h).
  { destruct (r_is_num x); [|eauto]. destruct p; simpl; eauto. }
  destruct Hh as [h ->]. cbn [obind]. destruct h.
  - destruct (IH (S k)) as [t ->]. eexists; reflexivity.
  - destruct (IH k) as [t ->]. eexists; reflexivity.
Qed.

(* a number at the root is replaced *)
Lemma root_number_replaced b t qv qp :
  option_map (map show_rlabel) (final_labels b true [LNum t qv qp]) = Some ["a0"].
Proof. reflexivity. Qed.

(* without replacement every constant keeps its printed text and value, and nothing else changes either *)
Theorem constants_kept b l0 l' :
  final_labels b false l0 = Some l' ->
  l' = relabel l0
  /\ forall j t qv qp, nth_error l0 j = Some (LNum t qv qp) -> nth_error l' j = Some (RNum (lower t) qp).
Proof.
  intro H. destruct (final_labels_inv _ _ _ _ H) as [s [ps [_ [_ ->]]]]. split; [reflexivity|].
  intros j t qv qp Hj. unfold relabel. rewrite nth_error_map, Hj. reflexivity.
Qed.

(* with replacement: position j is replaced iff it is a parameter, or a number whose parent is not pow; the k-th
   replaced position (in list order) becomes a<k>; everything else is untouched *)
Theorem replace_floats_spec b l0 l' :
  final_labels b true l0 = Some l' ->
  exists s ps, shape b (relabel l0) = Some s /\ parents (combine (relabel l0) s) = Some ps
    /\ length l' = length (combine (relabel l0) ps)
    /\ forall j x p, nth_error (combine (relabel l0) ps) j = Some (x, p) ->
         nth_error l' j = Some (if hitb (x, p) then RSym (SA (nhits (firstn j (combine (relabel l0) ps)))) else x).
Proof.
  intro H. destruct (final_labels_inv _ _ _ _ H) as [s [ps [Hs [Hp Hr]]]].
  exists s, ps. split; [exact Hs|]. split; [exact Hp|].
  destruct (replace_from_spec _ _ _ Hr) as [Hl Hn]. split; [exact Hl|].
  intros j x p Hj. rewrite (Hn j (x, p) Hj). reflexivity.
Qed.

Theorem no_param_in_exponent b l0 l' :
  final_labels b true l0 = Some l' ->
  exists s ps, shape b (relabel l0) = Some s /\ parents (combine (relabel l0) s) = Some ps
    /\ forall j t q p, nth_error (combine (relabel l0) ps) j = Some (RNum t q, p) -> is_pow_parent p = true ->
         nth_error l' j = Some (RNum t q).
Proof.
  intro H. destruct (replace_floats_spec _ _ _ H) as [s [ps [Hs [Hp [_ Hn]]]]].
  exists s, ps. split; [exact Hs|]. split; [exact Hp|].
  intros j t q p Hj Hpow. rewrite (Hn j _ _ Hj). unfold hitb. simpl. rewrite Hpow. reflexivity.
Qed.

Lemma nhits_firstn_lt l j1 j2 xp :
  (j1 < j2)%nat -> nth_error l j1 = Some xp -> hitb xp = true -> (nhits (firstn j1 l) < nhits (firstn j2 l))%nat.
Proof.
  revert j1 j2. induction l as [|y r IH]; intros j1 j2 Hlt Hj Hh.
  - destruct j1; discriminate.
  - destruct j2 as [|j2]; [lia|]. destruct j1 as [|j1].
    + simpl in Hj. injection Hj as ->. unfold nhits. simpl. rewrite Hh. simpl. lia.
    + simpl in Hj. assert (H := IH j1 j2 ltac:(lia) Hj Hh). unfold nhits in *. simpl.
      destruct (hitb y); simpl; lia.
Qed.

(* parameters of the result are numbered by position *)
Theorem param_order_by_position b l0 l' :
  final_labels b true l0 = Some l' ->
  forall j1 j2 i1 i2, (j1 < j2)%nat ->
    nth_error l' j1 = Some (RSym (SA i1)) -> nth_error l' j2 = Some (RSym (SA i2)) -> (i1 < i2)%nat.
Proof.
  intro H. destruct (replace_floats_spec _ _ _ H) as [s [ps [_ [_ [Hl Hn]]]]].
  intros j1 j2 i1 i2 Hlt H1 H2.
  assert (Hex : forall j i, nth_error l' j = Some (RSym (SA i)) ->
            exists xp, nth_error (combine (relabel l0) ps) j = Some xp /\ hitb xp = true
                       /\ i = nhits (firstn j (combine (relabel l0) ps))).
  { intros j i Hj.
    destruct (nth_error (combine (relabel l0) ps) j) as [[x p]|] eqn:Hc.
    - exists (x, p). split; [reflexivity|]. rewrite (Hn j x p Hc) in Hj.
      destruct (hitb (x, p)) eqn:Hit.
      + injection Hj as <-. auto.
      + injection Hj as ->. unfold hitb in Hit. simpl in Hit. discriminate.
    - apply nth_error_None in Hc. assert (nth_error l' j <> None) by congruence.
      apply nth_error_Some in H0. lia. }
  destruct (Hex _ _ H1) as [xp1 [Hc1 [Hh1 ->]]]. destruct (Hex _ _ H2) as [xp2 [Hc2 [Hh2 ->]]].
  eapply nhits_firstn_lt; eauto.
Qed.

(* ================================================================ the choice among the four parses *)
Lemma string_to_node_inv b ps i d l :
  string_to_node b ps = Some (i, d, l) ->
  exists e, nth_error ps i = Some (Some e) /\ decorate b e = Some d /\ to_list b None d = Some l.
Proof.
  unfold string_to_node.
  destruct (nanargmin _) as [k|]; [|discriminate]. cbn [obind].
  destruct (nth_error (map (candidate b) ps) k) as [[[d' l']|]|] eqn:Hk; try discriminate.
  intros [= <- <- <-].
  rewrite nth_error_map in Hk. destruct (nth_error ps k) as [oe|]; [|discriminate]. simpl in Hk.
  injection Hk as Hk. unfold candidate in Hk. destruct oe as [e|]; [|discriminate]. cbn [obind] in Hk.
  destruct (decorate b e) as [d0|] eqn:Ed; [|discriminate]. cbn [obind] in Hk.
  destruct (to_list b None d0) as [l0|] eqn:El; [|discriminate]. cbn [obind] in Hk. injection Hk as <- <-.
  exists e. auto.
Qed.

(* whichever candidate is selected, its labels denote the formula -- under the parse-oracle contract that every
   parse denotes the formula f on the domain considered (and lies in the theorems' fragment) *)
Theorem choice_irrelevant b ps (dom : (nat -> R) -> R -> Prop) (f : (nat -> R) -> R -> R) i d l :
  (forall j e, nth_error ps j = Some (Some e) ->
     supportedb e = true /\ exactb e = true
     /\ forall env x, dom env x -> pos b env x e /\ sem env x e = f env x) ->
  string_to_node b ps = Some (i, d, l) -> no_bad b d = true ->
  exists t, of_prefix (relabel l) = Some t /\ tsize t = length l
    /\ forall env x, dom env x -> evalT env x t = f env x.
Proof.
  intros Hc Hs Hnb. destruct (string_to_node_inv _ _ _ _ _ Hs) as [e [Hi [Ed El]]].
  destruct (Hc i e Hi) as [Hsup [Hex Hdom]].
  destruct (to_list_main b e d l Hsup Ed Hnb El) as [t [Ht [Hsz [Hsem _]]]].
  exists t. split; [exact Ht|]. split; [exact Hsz|].
  intros env x Hd. destruct (Hdom env x Hd) as [Hp Hf]. rewrite (Hsem Hex env x Hp). exact Hf.
Qed.

(* string_to_node returns a candidate with the smallest count *)
Lemma argmin_from_spec : forall l i best j c,
  argmin_from i best l = Some (j, c) ->
  (best = Some (j, c) \/ ((i <= j)%nat /\ nth_error l (j - i) = Some (Some c)))
  /\ (forall k c', nth_error l k = Some (Some c') -> (c <= c')%nat)
  /\ (forall jb cb, best = Some (jb, cb) -> (c <= cb)%nat).
Proof.
  induction l as [|o r IH]; intros i best j c H.
  - simpl in H. subst best. split; [left; reflexivity|]. split.
    + intros [|k] c' Hk; discriminate.
    + intros jb cb [= <- <-]. lia.
  - simpl in H. destruct o as [c0|].
    + destruct best as [[jb cb]|].
      * destruct (c0 <? cb)%nat eqn:Hlt.
        -- apply Nat.ltb_lt in Hlt. destruct (IH _ _ _ _ H) as [Hsrc [Hall Hb]]. split; [|split].
           ++ right. destruct Hsrc as [[= <- <-] | [Hle Hn]].
              ** split; [lia|]. rewrite Nat.sub_diag. reflexivity.
              ** split; [lia|]. replace (j - i)%nat with (S (j - S i)) by lia. exact Hn.
           ++ intros [|k] c' Hk; [simpl in Hk; injection Hk as <-; apply (Hb i c0 eq_refl)|apply (Hall k c' Hk)].
           ++ intros jb' cb' [= <- <-]. pose proof (Hb i c0 eq_refl). lia.
        -- apply Nat.ltb_ge in Hlt. destruct (IH _ _ _ _ H) as [Hsrc [Hall Hb]]. split; [|split].
           ++ destruct Hsrc as [Heq | [Hle Hn]]; [left; exact Heq|right].
              split; [lia|]. replace (j - i)%nat with (S (j - S i)) by lia. exact Hn.
           ++ intros [|k] c' Hk; [simpl in Hk; injection Hk as <-; pose proof (Hb jb cb eq_refl); lia|apply (Hall k c' Hk)].
           ++ exact Hb.
      * destruct (IH _ _ _ _ H) as [Hsrc [Hall Hb]]. split; [|split].
        -- right. destruct Hsrc as [[= <- <-] | [Hle Hn]].
           ++ split; [lia|]. rewrite Nat.sub_diag. reflexivity.
           ++ split; [lia|]. replace (j - i)%nat with (S (j - S i)) by lia. exact Hn.
        -- intros [|k] c' Hk; [simpl in Hk; injection Hk as <-; apply (Hb i c0 eq_refl)|apply (Hall k c' Hk)].
        -- intros jb cb Hbb. discriminate.
    + destruct (IH _ _ _ _ H) as [Hsrc [Hall Hb]]. split; [|split].
      * destruct Hsrc as [Heq | [Hle Hn]]; [left; exact Heq|right].
        split; [lia|]. replace (j - i)%nat with (S (j - S i)) by lia. exact Hn.
      * intros [|k] c' Hk; [discriminate|apply (Hall k c' Hk)].
      * exact Hb.
Qed.

Theorem string_to_node_minimal b ps i d l :
  string_to_node b ps = Some (i, d, l) ->
  forall k e' d' l', nth_error ps k = Some (Some e') -> decorate b e' = Some d' -> to_list b None d' = Some l' ->
    (length l <= length l')%nat.
Proof.
  unfold string_to_node. intros H k e' d' l' Hk Ed El.
  destruct (nanargmin _) as [j|] eqn:Hm; [|discriminate]. cbn [obind] in H.
  destruct (nth_error (map (candidate b) ps) j) as [[[d0 l0]|]|] eqn:Hj; try discriminate.
  injection H as <- <- <-.
  unfold nanargmin in Hm.
  destruct (argmin_from 0 None _) as [[j' c]|] eqn:Ha; [|discriminate]. simpl in Hm. injection Hm as ->.
  destruct (argmin_from_spec _ _ _ _ _ Ha) as [Hsrc [Hall _]].
  destruct Hsrc as [Hbad | [_ Hn]]; [discriminate|]. rewrite Nat.sub_0_r in Hn.
  rewrite nth_error_map, Hj in Hn. simpl in Hn. injection Hn as <-.
  apply (Hall k). rewrite nth_error_map, nth_error_map, Hk. simpl.
  unfold candidate. cbn [obind]. rewrite Ed. cbn [obind]. rewrite El. reflexivity.
Qed.
