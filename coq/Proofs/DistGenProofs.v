(* C13: the slice arithmetic of the distribution skeletons in Model/Dist.v is what the code says now: the pieces regenerated
   from generator.shape_to_functions, simplifier.make_changes and simplifier.check_results (Gen/GenDist.v) are equal to the
   hand-written ones the skeleton theorems are stated on. *)
From Coq Require Import ZArith List Bool.
From ESRV Require Import Common.Py Gen.GenPartition Gen.GenDist Model.Dist.
Import ListNotations.
Open Scope Z_scope.

Theorem stf_bounds_is_code : forall T rank size, stf_bounds_code T rank size = stf_bounds T rank size.
Proof.
  intros. unfold stf_bounds_code, stf_bounds, first_last1.
  destruct (split_idx T rank size) as [i|]; cbn [bind]; [|reflexivity].
  destruct (py_len i =? 0); [reflexivity|].
  destruct (py_index i 0); cbn [bind]; [|reflexivity].
  destruct (py_index i (-1)); reflexivity.
Qed.

Theorem stf_guard_is_code : forall pos imin imax, stf_guard_code pos imin imax = (pos >=? imin) && (pos <? imax).
Proof. reflexivity. Qed.

(* the per-rank extras of the model, written with the generated pieces *)
Theorem stf_rank_extras_is_code : forall (B : Type) (g : Z -> list B) T rank size,
  stf_rank_extras g T rank size
  = (b <- stf_bounds_code T rank size ;;
     let '(imin, imax) := b in
     Some (flat_map (fun pos => if stf_guard_code pos imin imax then g pos else []) (zrange T))).
Proof. intros. unfold stf_rank_extras. rewrite <- stf_bounds_is_code. reflexivity. Qed.

Theorem mc_bounds_is_code : forall (A : Type) (all_fun : list A) rank size,
  mc_bounds_code all_fun rank size = mc_bounds all_fun rank size.
Proof.
  intros. unfold mc_bounds_code, mc_bounds, first_last1.
  destruct (split_idx (py_len all_fun) rank size) as [i|]; cbn [bind]; [|reflexivity].
  destruct (py_len i >? 0); [|reflexivity].
  destruct (py_index i 0); cbn [bind]; [|reflexivity].
  destruct (py_index i (-1)); reflexivity.
Qed.

Theorem cr_bounds_is_code : forall nfun rank size, cr_bounds_code nfun rank size = cr_bounds nfun rank size.
Proof.
  intros. unfold cr_bounds_code, cr_bounds.
  destruct (split_idx nfun rank size) as [idx|]; cbn [bind]; [|reflexivity].
  destruct (py_len idx =? 0); cbn [bind fst snd]; [reflexivity|].
  destruct idx as [|a [|e [|x r]]]; reflexivity.
Qed.

Theorem cr_imin_is_code : forall nfun rank size, cr_imin_code nfun rank size = cr_imin nfun rank size.
Proof. reflexivity. Qed.
