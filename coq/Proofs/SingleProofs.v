From Coq Require Import ZArith List.
From ESRV Require Import Model.Single.
Import ListNotations.

Section SingleProofs.
  Variables (Lab Str Par Num : Type).
  Variables (nts : list Lab -> Str) (max_param_of : Str -> Z) (sympify : Str -> Str)
            (optimise : Str -> Z -> Num * Par) (fisher : Str -> Par -> Num -> Z -> Par * Num * Num)
            (aifeyn : list Lab -> Z -> Num) (add : Num -> Num -> Num) (nan : Num).

  Let single := single_function Lab Str Par Num nts max_param_of sympify optimise fisher aifeyn add nan.
  Let pipe := pipeline_row Lab Str Par Num nts sympify optimise fisher aifeyn add.

  (* the description length returned is exactly the sum of the returned likelihood term, the
     parameter code length the Fisher routine returned, and the tree's code length *)
  Theorem dl_is_sum (labels : list Lab) chi2 params0 p nll cl :
    optimise (sympify (nts labels)) (max_param_of (nts labels)) = (chi2, params0) ->
    fisher (sympify (nts labels)) params0 chi2 (max_param_of (nts labels)) = (p, nll, cl) ->
    single false labels = (nll, add (add nll cl) (aifeyn labels (max_param_of (nts labels))), p).
  Proof. intros Eo Ef. unfold single, single_function. rewrite Eo, Ef. reflexivity. Qed.

  Theorem mse_no_dl (labels : list Lab) : snd (fst (single true labels)) = nan.
  Proof.
    unfold single, single_function.
    destruct (optimise (sympify (nts labels)) (max_param_of (nts labels))); reflexivity.
  Qed.

  (* the string fitted by single_function is the library string of that tree *)
  Theorem single_uses_same_string (labels : list Lab) :
    forall K mp, fst (pipe K mp labels) =
      (let '(chi2, params) := optimise (sympify (nts labels)) mp in
       let '(p, nll, cl) := fisher (sympify (nts labels)) params chi2 mp in (nll, add (add nll cl) (aifeyn labels K))).
  Proof.
    intros K mp. unfold pipe, pipeline_row.
    destruct (optimise (sympify (nts labels)) mp) as [chi2 params].
    destruct (fisher (sympify (nts labels)) params chi2 mp) as [[p nll] cl]. reflexivity.
  Qed.

  (* same oracles, same padding width, same parameter count for the tree code  =>  same result *)
  Theorem single_eq_pipeline (labels : list Lab) (K mp : Z) :
    mp = max_param_of (nts labels) -> K = max_param_of (nts labels) ->
    single false labels = pipe K mp labels.
  Proof.
    intros -> ->. unfold single, pipe, single_function, pipeline_row.
    destruct (optimise (sympify (nts labels)) (max_param_of (nts labels))) as [chi2 params].
    destruct (fisher (sympify (nts labels)) params chi2 (max_param_of (nts labels))) as [[p nll] cl]. reflexivity.
  Qed.

  (* when the stage functions' numerical results do not depend on the padding width (they only pad with
     zeros) and the tree code does not depend on extra parameter names, the two agree on likelihood and DL *)
  Theorem single_eq_pipeline_conditional (labels : list Lab) (K mp : Z) :
    (forall s m m', fst (optimise s m) = fst (optimise s m')) ->
    (forall s p p' c m m', snd (fst (fisher s p c m)) = snd (fst (fisher s p' c m')) /\ snd (fisher s p c m) = snd (fisher s p' c m')) ->
    (forall l k k', aifeyn l k = aifeyn l k') ->
    fst (single false labels) = fst (pipe K mp labels).
  Proof.
    intros Ho Hf Ha. unfold single, pipe, single_function, pipeline_row.
    set (s := sympify (nts labels)). set (m0 := max_param_of (nts labels)).
    pose proof (Ho s m0 mp) as Ho'.
    destruct (optimise s m0) as [chi2 params] eqn:E1. destruct (optimise s mp) as [chi2' params'] eqn:E2.
    cbn in Ho'. subst chi2'.
    destruct (Hf s params params' chi2 m0 mp) as [Hn Hc].
    destruct (fisher s params chi2 m0) as [[p nll] cl]. destruct (fisher s params' chi2 mp) as [[p' nll'] cl'].
    cbn in Hn, Hc. subst nll' cl'. cbn. now rewrite (Ha labels m0 K).
  Qed.
End SingleProofs.
