(* C17: the replace pairs and the nan literal that load_subs uses now (Gen/GenRequote.v, regenerated on every run) are the ones the
   text model was written with: requote_code = requote on every string, and read_cell is the model's reading with them. *)
From Coq Require Import String Ascii List.
From ESRV Require Import Model.InvSubsText Gen.GenRequote.
Import ListNotations.

Theorem requote_is_code : forall s, requote_code s = requote s.
Proof. reflexivity. Qed.

Theorem nan_literal_is_code : nan_literal_code = lit "nan".
Proof. reflexivity. Qed.

Theorem read_cell_is_code : forall s,
  read_cell s =
  let s' := requote_code s in
  if str_eqb s' nan_literal_code then CNan
  else match literal_eval_dict s' with Some d => CDict d | None => CError end.
Proof. reflexivity. Qed.
