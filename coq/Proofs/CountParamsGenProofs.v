(* C10 / C05 / C03: the function generated from simplifier.count_params (Gen/GenCountParams.v, regenerated on every run) returns,
   for every substring predicate, every number of functions and every max_param -- without raising -- the list whose i-th entry is
   the model's count_params (Model/Optimise.v) of function i: one more than the highest j < max_param whose name occurs, 0 if none. *)
From Coq Require Import List Arith Bool Lia.
From ESRV Require Import Common.Np Model.Optimise Gen.GenCountParams.
Import ListNotations.

Fixpoint top (c : nat -> bool) (m : nat) : nat :=
  match m with
  | O => O
  | S j => if c j then S j else top c j
  end.

Lemma count_from_snoc : forall l j h,
  count_from j (l ++ [h]) = if h then j + length l + 1 else count_from j l.
Proof.
  induction l as [|x l IH]; intros j h; cbn [app count_from length].
  - destruct h; cbn; lia.
  - rewrite IH. destruct h.
    + replace (0 <? S j + length l + 1) with true by (symmetry; apply Nat.ltb_lt; lia). lia.
    + reflexivity.
Qed.

Lemma count_params_top : forall c mp, count_params (map c (seq 0 mp)) mp = top c mp.
Proof.
  intros c mp. unfold count_params. rewrite firstn_all2 by (rewrite map_length, seq_length; lia).
  induction mp as [|m IH]; [reflexivity|].
  rewrite seq_S, map_app. cbn [map plus]. rewrite count_from_snoc, map_length, seq_length. cbn [top].
  destruct (c m); [lia | exact IH].
Qed.

Lemma first_desc_top : forall (c : nat -> bool) mp nfun i m (s : list nat), i < nfun -> m <= mp ->
  np_first_desc m (fun j => if (j <? mp) && (i <? nfun) then Some (c j) else None) (fun j s => np_set s i (j + 1)) s
  = if top c m =? 0 then Some s else np_set s i (top c m).
Proof.
  intros c mp nfun i m s Hi. induction m as [|j IH]; intros Hm; [reflexivity|].
  cbn [np_first_desc top].
  assert (E : (j <? mp) && (i <? nfun) = true).
  { apply andb_true_intro. split; apply Nat.ltb_lt; lia. }
  rewrite E.
  destruct (c j).
  - rewrite Nat.add_1_r. reflexivity.
  - apply IH. lia.
Qed.

Lemma set_nth_mid : forall (A : Type) (pre : list A) x v post, set_nth (length pre) v (pre ++ x :: post) = pre ++ v :: post.
Proof. induction pre as [|p pre IH]; intros; cbn [length app set_nth]; [reflexivity | now rewrite IH]. Qed.

Lemma nth_error_mid : forall (A : Type) (pre : list A) x post, nth_error (pre ++ x :: post) (length pre) = Some x.
Proof. intros. rewrite nth_error_app2 by lia. now rewrite Nat.sub_diag. Qed.

Lemma outer_loop : forall (g : nat -> nat) (body : nat -> list nat -> option (list nat)) nfun,
  (forall i s, i < nfun -> body i s = if g i =? 0 then Some s else np_set s i (g i)) ->
  forall k i, i + k = nfun ->
  np_for_from k i body (map g (seq 0 i) ++ repeat 0 k) = Some (map g (seq 0 nfun)).
Proof.
  intros g body nfun Hb. induction k as [|k IH]; intros i Hk.
  - cbn [np_for_from repeat]. rewrite app_nil_r. replace i with nfun by lia. reflexivity.
  - cbn [np_for_from]. rewrite Hb by lia.
    assert (Hlen : length (map g (seq 0 i)) = i) by (rewrite map_length, seq_length; reflexivity).
    assert (Hnext : map g (seq 0 (S i)) ++ repeat 0 k = map g (seq 0 i) ++ g i :: repeat 0 k).
    { rewrite seq_S, map_app. cbn [map plus]. now rewrite <- app_assoc. }
    destruct (g i =? 0) eqn:E.
    + apply Nat.eqb_eq in E.
      replace (map g (seq 0 i) ++ repeat 0 (S k)) with (map g (seq 0 (S i)) ++ repeat 0 k)
        by (rewrite Hnext; cbn [repeat]; rewrite E; reflexivity).
      apply IH. lia.
    + unfold np_set. cbn [repeat].
      assert (N : nth_error (map g (seq 0 i) ++ 0 :: repeat 0 k) i = Some 0).
      { rewrite <- Hlen at 2. apply nth_error_mid. }
      rewrite N.
      assert (S' : set_nth i (g i) (map g (seq 0 i) ++ 0 :: repeat 0 k) = map g (seq 0 i) ++ g i :: repeat 0 k).
      { rewrite <- Hlen at 1. apply set_nth_mid. }
      rewrite S', <- Hnext. apply IH. lia.
Qed.

Theorem count_params_code_is_model : forall contains nfun mp,
  count_params_code contains nfun mp
  = Some (map (fun i => count_params (map (contains i) (seq 0 mp)) mp) (seq 0 nfun)).
Proof.
  intros contains nfun mp. unfold count_params_code. cbv zeta. rewrite repeat_length. unfold np_for.
  rewrite (map_ext _ (fun i => top (contains i) mp)) by (intros i; apply count_params_top).
  apply (outer_loop (fun i => top (contains i) mp) _ nfun) with (i := 0) (k := nfun); [|reflexivity].
  intros i s Hi. apply first_desc_top; [exact Hi | apply le_n].
Qed.

(* in words: entry i is 0 when no name a_j (j < max_param) occurs in function i, else one more than the highest such j *)
Theorem count_params_code_spec : forall contains nfun mp l i, i < nfun ->
  count_params_code contains nfun mp = Some l ->
  (nth i l 0 = 0 /\ forall j, j < mp -> contains i j = false) \/
  (exists j, nth i l 0 = S j /\ j < mp /\ contains i j = true /\ forall j', j < j' < mp -> contains i j' = false).
Proof.
  intros contains nfun mp l i Hi H. rewrite count_params_code_is_model in H. injection H as <-.
  set (F := fun i0 : nat => count_params (map (contains i0) (seq 0 mp)) mp).
  rewrite (nth_indep (map F (seq 0 nfun)) 0 (F 0)) by (rewrite map_length, seq_length; exact Hi).
  rewrite map_nth, seq_nth by exact Hi. cbn [plus]. unfold F. rewrite count_params_top.
  generalize (contains i). intros c. induction mp as [|m IH]; cbn [top].
  - left. split; [reflexivity|]. intros j Hj. lia.
  - destruct (c m) eqn:E.
    + right. exists m. repeat split; auto. intros j' Hj'. lia.
    + destruct IH as [[H0 Hall]|[j [Hj [Hlt [Hc Hab]]]]].
      * left. split; [exact H0|]. intros j Hj. destruct (Nat.eq_dec j m) as [->|Hne]; [exact E | apply Hall; lia].
      * right. exists j. repeat split; auto. intros j' Hj'. destruct (Nat.eq_dec j' m) as [->|Hne]; [exact E | apply Hab; lia].
Qed.
