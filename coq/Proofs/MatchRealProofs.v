(* C05 -- real-valued facts: the snapping test as the code writes it, the derivative of a
   monomial map, the value of the code-length structure and its invariance under a recoverable
   generalised-permutation chain. *)
From Coq Require Import QArith ZArith List Bool Arith Lia Permutation.
From Coq Require Import Reals Qreals Lra.
From ESRV Require Import Model.Subs Model.Match Proofs.SubsProofs Proofs.MatchProofs.
Import ListNotations.
Open Scope R_scope.

(* ================================================================== the snapping test *)
(* the code's test  |p| / sqrt(12/F) < 1  is  p^2 * F < 12  for F > 0 *)
Lemma nsteps_lt1_equiv : forall t i : R, 0 < i -> (Rabs t / sqrt (12 / i) < 1 <-> t * t * i < 12).
Proof.
  intros t i Hi.
  assert (Hq : 0 < 12 / i) by (apply Rdiv_lt_0_compat; lra).
  assert (Hs : 0 < sqrt (12 / i)) by (apply sqrt_lt_R0; exact Hq).
  assert (E1 : Rabs t / sqrt (12 / i) < 1 <-> Rabs t < sqrt (12 / i)).
  { assert (Ha : Rabs t = (Rabs t / sqrt (12 / i)) * sqrt (12 / i)) by (field; lra).
    set (x := Rabs t / sqrt (12 / i)) in *. set (s := sqrt (12 / i)) in *.
    split; intros H.
    - rewrite Ha. nra.
    - rewrite Ha in H. nra. }
  assert (E2 : Rabs t < sqrt (12 / i) <-> t * t < 12 / i).
  { split; intros H.
    - apply Rsqr_incrst_1 in H; [|apply Rabs_pos|lra].
      rewrite <- Rsqr_abs in H. rewrite Rsqr_sqrt in H by lra. exact H.
    - rewrite <- (sqrt_Rsqr_abs t). apply sqrt_lt_1_alt. split; [apply Rle_0_sqr|exact H]. }
  assert (E3 : t * t < 12 / i <-> t * t * i < 12).
  { assert (Hy : 12 / i * i = 12) by (field; lra).
    set (y := 12 / i) in *. split; intros H; nra. }
  tauto.
Qed.

Lemma Q2R_0 : Q2R 0 = 0.
Proof. unfold Q2R. simpl. lra. Qed.
Lemma Q2R_12 : Q2R 12 = 12.
Proof. unfold Q2R. simpl. lra. Qed.

(* the model's rational test is the code's float formula read over the reals *)
Theorem lt1_real : forall (p q : Q), (0 < q)%Q ->
  (lt1 p (Fin q) = true <-> Rabs (Q2R p) / sqrt (12 / Q2R q) < 1).
Proof.
  intros p q Hq.
  assert (HqR : 0 < Q2R q) by (rewrite <- Q2R_0; now apply Qlt_Rlt).
  rewrite nsteps_lt1_equiv by exact HqR.
  simpl. assert (Hb := Hq). apply Qlt_b_true in Hb. rewrite Hb. simpl. rewrite Qlt_b_true.
  rewrite <- Q2R_12, <- !Q2R_mult. split; [apply Qlt_Rlt|apply Rlt_Qlt].
Qed.

(* ================================================================== the Jacobian entries are derivatives *)
Lemma deriv_linear : forall c t0 : R, derivable_pt_lim (fun t => c * t) t0 c.
Proof.
  intros c t0. assert (D := derivable_pt_lim_scal id c t0 1 (derivable_pt_lim_id t0)).
  unfold mult_real_fct, id in D. rewrite Rmult_1_r in D. exact D.
Qed.

Lemma deriv_reciprocal : forall c t0 : R, t0 <> 0 -> derivable_pt_lim (fun t => c / t) t0 (- c / (t0 * t0)).
Proof.
  intros c t0 H0.
  assert (D := derivable_pt_lim_div (fct_cte c) id t0 0 1 (derivable_pt_lim_const c t0) (derivable_pt_lim_id t0) H0).
  unfold fct_cte, id, Rsqr in D.
  replace ((0 * t0 - 1 * c) / (t0 * t0)) with (- c / (t0 * t0)) in D by (field; exact H0).
  exact D.
Qed.

(* deriv_mono is d/dtheta_j of eval_mono, over the reals *)
Theorem deriv_mono_is_derivative : forall (m : mono) (rho : env),
  (m_inv m = true -> ~ (rho (m_j m) == 0)%Q) ->
  derivable_pt_lim (fun t => if m_inv m then Q2R (m_c m) / t else Q2R (m_c m) * t)
                   (Q2R (rho (m_j m))) (Q2R (deriv_mono rho m)).
Proof.
  intros [c j inv] rho H. simpl in *. unfold deriv_mono. simpl. destruct inv.
  - specialize (H eq_refl).
    assert (Hr : Q2R (rho j) <> 0). { intros E. apply H. apply eqR_Qeq. now rewrite Q2R_0. }
    replace (Q2R (- c / (rho j * rho j))) with (- Q2R c / (Q2R (rho j) * Q2R (rho j))).
    + now apply deriv_reciprocal.
    + unfold Qdiv. rewrite Q2R_mult, Q2R_opp, Q2R_inv, Q2R_mult; [reflexivity|].
      intros E. apply Qmult_integral in E. destruct E; contradiction.
  - apply deriv_linear.
Qed.

(* ================================================================== value of the structure *)
Definition term_val (t : xq * Q) : R :=
  match fst t with Fin q => / 2 * ln (Q2R q) + ln (Rabs (Q2R (snd t))) | _ => 0 end.
Definition rsum (l : list R) : R := fold_right Rplus 0 l.

(* Some v: the code length is the finite number v;  None: inf, -inf or nan *)
Definition denote (c : clen) : option R :=
  match c with
  | CVal (Fin q) => Some (Q2R q)
  | CVal _ => None
  | CLen k ts => if forallb term_ok ts then Some (- (IZR k / 2) * ln 3 + rsum (map term_val ts)) else None
  end.

Lemma denote_finite : forall c, clen_finite c = true <-> exists v, denote c = Some v.
Proof.
  intros [v|k ts]; simpl.
  - destruct v; simpl; split; try discriminate; try (intros [? H]; discriminate); eauto.
  - destruct (forallb term_ok ts); split; try discriminate; try (intros [? H]; discriminate); eauto.
Qed.

(* one term:  1/2 ln F' + ln|p'| = 1/2 ln F + ln|theta|   whenever  p'^2 F' = theta^2 F  *)
Lemma term_invariant : forall a b A B : R, 0 < A -> 0 < B -> a <> 0 -> a * a * A = b * b * B ->
  / 2 * ln A + ln (Rabs a) = / 2 * ln B + ln (Rabs b).
Proof.
  intros a b A B HA HB Ha E.
  assert (Hb : b <> 0). { intros ->. assert (0 < a * a) by nra. nra. }
  assert (Pa : 0 < Rabs a) by now apply Rabs_pos_lt.
  assert (Pb : 0 < Rabs b) by now apply Rabs_pos_lt.
  assert (L : ln (Rabs a * Rabs a * A) = ln (Rabs b * Rabs b * B)).
  { f_equal. rewrite <- !Rabs_mult. rewrite !Rabs_pos_eq by nra. exact E. }
  rewrite !ln_mult in L; try assumption; try nra.
Qed.

Lemma rsum_perm : forall (g : nat -> R) l l', Permutation l l' -> rsum (map g l) = rsum (map g l').
Proof.
  intros g l l' P. induction P; simpl; lra.
Qed.

Lemma rsum_ext : forall (g h : nat -> R) l, (forall a, In a l -> g a = h a) -> rsum (map g l) = rsum (map h l).
Proof.
  intros g h l. induction l as [|a l IH]; intros H; simpl; [reflexivity|].
  rewrite IH by (intros; apply H; now right). rewrite (H a) by now left. reflexivity.
Qed.

Lemma list_as_map : forall {A} (l : list A) d, l = map (fun i => nth i l d) (seq 0 (length l)).
Proof.
  intros A l d. apply (nth_ext _ _ d d).
  - now rewrite map_length, seq_length.
  - intros i Hi. rewrite (nth_map_lt _ _ i 0%nat) by (now rewrite seq_length). now rewrite seq_nth.
Qed.

Lemma combine_map_seq : forall {A B} (f : nat -> A) (g : nat -> B) l,
  combine (map f l) (map g l) = map (fun i => (f i, g i)) l.
Proof. intros A B f g l. induction l; simpl; congruence. Qed.

Lemma term_sum_index : forall (fish : list xq) (p : list Q) k, length fish = k -> length p = k ->
  rsum (map term_val (combine fish p)) = rsum (map (fun i => term_val (nth i fish NaN, nth i p 0%Q)) (seq 0 k)).
Proof.
  intros fish p k Hf Hp. rewrite (list_as_map fish NaN) at 1. rewrite (list_as_map p 0%Q) at 1.
  rewrite Hf, Hp, combine_map_seq, map_map. reflexivity.
Qed.

Lemma forallb_index : forall (fish : list xq) (p : list Q) k, length fish = k -> length p = k ->
  (forall i, (i < k)%nat -> term_ok (nth i fish NaN, nth i p 0%Q) = true) -> forallb term_ok (combine fish p) = true.
Proof.
  intros fish p k Hf Hp H. rewrite (forallb_nth_iff _ _ (NaN, 0%Q)). rewrite combine_length, Hf, Hp, Nat.min_id.
  intros i Hi. rewrite combine_nth by lia. now apply H.
Qed.

Lemma nth_firstn_lt : forall {A} (l : list A) k j d, (j < k)%nat -> nth j (firstn k l) d = nth j l d.
Proof.
  intros A l. induction l as [|x l IH]; intros k j d H; [now rewrite firstn_nil|].
  destruct k; [lia|]. destruct j; [reflexivity|]. simpl. apply IH. lia.
Qed.

Lemma gperm_ident : forall k, gperm k (ident k) = true.
Proof.
  intros k. unfold gperm. rewrite !andb_true_iff. repeat split.
  - unfold in_range, ident. apply forallb_forall. intros m Hm. apply in_map_iff in Hm. destruct Hm as [j [<- Hj]].
    apply in_seq in Hj. simpl. apply Nat.ltb_lt. lia.
  - unfold coeffs_nonzero, ident. apply forallb_forall. intros m Hm. apply in_map_iff in Hm. destruct Hm as [j [<- _]]. reflexivity.
  - apply nodupb_NoDup. unfold ident. rewrite map_map. simpl. rewrite map_id. apply seq_NoDup.
Qed.

(* ================================================================== invariance of the code length *)
Section Invariant.
Variables maxp k : nat.
Variable nll : xq.
Variable theta : list Q.
Variable flat : list xq.
Variable f : nat -> nat -> Q.
Variable fop : list Q -> xq.
Variable reeval : bool.

Hypothesis Hnll : isfin nll = true.
Hypothesis Hk : k <> 0%nat.
Hypothesis Hth : (k <= length theta)%nat.
Hypothesis Hblock : block_finite maxp k flat f.
(* the unique function: positive curvatures, every parameter worth at least one precision step *)
Hypothesis Hpos : forall j, (j < k)%nat -> (0 < f j j)%Q.
Hypothesis Hsteps : forall j, (j < k)%nat -> (12 <= nth j theta 0 * nth j theta 0 * f j j)%Q.

Let th := firstn k theta.
Let g (j : nat) : R := / 2 * ln (Q2R (f j j)) + ln (Rabs (Q2R (nth j theta 0%Q))).

Lemma th_nth : forall j, (j < k)%nat -> nth j th 0%Q = nth j theta 0%Q.
Proof. intros j Hj. unfold th. apply nth_firstn_lt. exact Hj. Qed.

(* the row of ANY recoverable regular generalised-permutation chain: nothing is dropped, the
   likelihood is the unique's, and the code length is  -(k/2) ln 3 + sum_j g j  *)
Lemma row_value : forall chain,
  recoverable chain ->
  gperm k (compose_chain k (dicts chain)) = true ->
  regular th (compose_chain k (dicts chain)) = true ->
  exists r, row maxp k nll theta flat chain reeval fop = Ret r /\
    r_nll r = nll /\ r_kept r = repeat true k /\
    r_params r = pad maxp (eval_vec th (compose_chain k (dicts chain))) /\
    denote (r_len r) = Some (- (IZR (Z.of_nat k) / 2) * ln 3 + rsum (map g (seq 0 k))).
Proof.
  intros chain Hrec Hg Hr. set (pv := compose_chain k (dicts chain)) in *.
  assert (HL : length pv = k) by apply compose_length.
  destruct (gperm_facts k pv Hg HL) as [Hrange [Hinj Hc]].
  rewrite row_recoverable by assumption. fold th.
  assert (EC : convert k maxp th flat (dicts chain) = ConvOK (eval_vec th pv) (map (fnew maxp k flat (env_of th) pv) (seq 0 k))).
  { apply convert_ok_iff. cbv zeta. fold pv. auto. }
  rewrite EC.
  set (p := eval_vec th pv) in *. set (fish := map (fnew maxp k flat (env_of th) pv) (seq 0 k)) in *.
  assert (Lp : length p = k) by (unfold p; now rewrite eval_vec_length).
  assert (Lf : length fish = k) by (unfold fish; now rewrite map_length, seq_length).
  assert (TF := transfer_fisher k maxp th flat (dicts chain) p fish f EC Hblock). cbv zeta in TF. fold pv in TF.
  (* per index facts *)
  assert (Hi_all : forall i, (i < k)%nat ->
            exists F', nth i fish NaN = Fin F' /\ (0 < F')%Q /\
              (nth i p 0 * nth i p 0 * F' == nth (pi pv i) theta 0 * nth (pi pv i) theta 0 * f (pi pv i) (pi pv i))%Q).
  { intros i Hi. destruct (TF i Hi) as [F' [E1 [_ [E3 E4]]]]. exists F'. split; [exact E1|].
    specialize (Hrange i Hi). split; [apply E4; now apply Hpos|]. rewrite <- th_nth by exact Hrange. exact E3. }
  assert (HG : good fish).
  { unfold good. apply Forall_forall. intros a Ha. destruct (In_nth _ _ NaN Ha) as [i [Hi <-]]. rewrite Lf in Hi.
    destruct (Hi_all i Hi) as [F' [E [P _]]]. exists F'. auto. }
  assert (Hno : forall i, (i < k)%nat -> lt1 (nth i p 0%Q) (nth i fish NaN) = false).
  { intros i Hi. destruct (Hi_all i Hi) as [F' [E [P I]]]. rewrite E. simpl.
    assert (Pb := P). apply Qlt_b_true in Pb. rewrite Pb. simpl.
    destruct (Qlt_b (nth i p 0 * nth i p 0 * F')%Q 12%Q) eqn:EL; [|reflexivity].
    apply Qlt_b_true in EL. rewrite I in EL. exfalso. apply (Qlt_not_le _ _ EL). apply Hsteps. now apply Hrange. }
  assert (Hm : map2 lt1 p fish = repeat false k).
  { apply (nth_ext _ _ false false); [rewrite map2_length, repeat_length; lia|].
    intros i Hi. rewrite map2_length in Hi. rewrite (nth_map2 lt1 p fish i 0%Q NaN false) by lia.
    rewrite nth_repeat_lt by lia. apply Hno. lia. }
  unfold snap. rewrite (good_no_le0 _ HG). rewrite Hm.
  assert (EA : anyb (repeat false k) = false) by (clear; induction k; [reflexivity|simpl; assumption]).
  rewrite EA. simpl negb. cbv iota. rewrite Lp.
  eexists. split; [reflexivity|]. simpl. split; [reflexivity|]. split; [reflexivity|]. split; [reflexivity|].
  rewrite (forallb_index fish p k Lf Lp).
  2:{ intros i Hi. rewrite term_ok_good by (apply good_nth; [exact HG|lia]). apply negb_Qeq_bool.
      apply (not_lt1_nonzero _ (nth i fish NaN)); [apply good_nth; [exact HG|lia]|now apply Hno]. }
  f_equal. f_equal.
  rewrite (term_sum_index fish p k Lf Lp).
  (* each term is g (pi i) *)
  rewrite (rsum_ext _ (fun i => g (pi pv i))).
  2:{ intros i Hi. apply in_seq in Hi. assert (Hi' : (i < k)%nat) by lia.
      destruct (Hi_all i Hi') as [F' [E [P I]]]. unfold term_val. rewrite E. simpl. unfold g.
      assert (PR : 0 < Q2R F') by (rewrite <- Q2R_0; now apply Qlt_Rlt).
      assert (PfR : 0 < Q2R (f (pi pv i) (pi pv i))) by (rewrite <- Q2R_0; apply Qlt_Rlt, Hpos; now apply Hrange).
      apply term_invariant; try assumption.
      - intros E0. apply (not_lt1_nonzero _ (nth i fish NaN) (good_nth fish i HG ltac:(lia)) (Hno i Hi')).
        apply eqR_Qeq. now rewrite Q2R_0.
      - apply Qeq_eqR in I. rewrite !Q2R_mult in I. exact I. }
  (* sum over a permutation *)
  rewrite <- (map_map (pi pv) g). apply rsum_perm.
  apply NoDup_Permutation_bis.
  - apply NoDup_map_inj_in; [|apply seq_NoDup]. intros x y Hx Hy. apply in_seq in Hx. apply in_seq in Hy. apply Hinj; lia.
  - rewrite map_length. apply le_n.
  - intros x Hx. apply in_map_iff in Hx. destruct Hx as [i [<- Hi]]. apply in_seq in Hi. apply in_seq.
    specialize (Hrange i ltac:(lia)). lia.
Qed.

(* codelen_invariant: a variant reached through a recoverable chain whose composite is a regular
   generalised permutation gets the same likelihood and the same parameter code length as the
   unique function itself (= the identity variant, empty chain), and nothing is dropped for either *)
Theorem codelen_invariant : forall chain,
  recoverable chain ->
  gperm k (compose_chain k (dicts chain)) = true ->
  regular th (compose_chain k (dicts chain)) = true ->
  exists r r0 v,
    row maxp k nll theta flat chain reeval fop = Ret r /\
    row maxp k nll theta flat [] reeval fop = Ret r0 /\
    r_nll r = nll /\ r_nll r0 = nll /\
    r_kept r = repeat true k /\ r_kept r0 = repeat true k /\
    denote (r_len r) = Some v /\ denote (r_len r0) = Some v.
Proof.
  intros chain Hrec Hg Hr.
  destruct (row_value chain Hrec Hg Hr) as [r [E1 [E2 [E3 [_ E4]]]]].
  assert (Hg0 : gperm k (compose_chain k (dicts [])) = true).
  { simpl. unfold compose_chain. simpl. apply gperm_ident. }
  assert (Hr0 : regular th (compose_chain k (dicts [])) = true).
  { simpl. unfold compose_chain. simpl. unfold regular, ident. apply forallb_forall. intros m Hm.
    apply in_map_iff in Hm. destruct Hm as [j [<- _]]. reflexivity. }
  destruct (row_value [] (conj eq_refl eq_refl) Hg0 Hr0) as [r0 [F1 [F2 [F3 [_ F4]]]]].
  exists r, r0, (- (IZR (Z.of_nat k) / 2) * ln 3 + rsum (map g (seq 0 k))). auto 10.
Qed.

End Invariant.
