(* Proofs about Model/DoSympy.v: the bookkeeping of do_sympy / duplicate_checker.main /
   check_results preserves the meaning of every function, given sound oracle answers. *)
From Coq Require Import List Bool Arith NArith Lia Permutation Sorted.
From ESRV Require Import Model.Uniq Model.DoSympy Proofs.UniqProofs.
Import ListNotations.

Local Notation Neqb_spec := N.eqb_eq.

(* ------------------------------------------------------------------ list update / scatter *)
Lemma upd_length : forall X (l : list X) p x, length (upd p x l) = length l.
Proof. induction l as [|y r IH]; intros [|p] x; simpl; auto. Qed.

Lemma upd_nth_same : forall X (l : list X) p x, p < length l -> nth_error (upd p x l) p = Some x.
Proof.
  induction l as [|y r IH]; intros [|p] x H; simpl in *; try lia; auto. apply IH. lia.
Qed.

Lemma upd_nth_other : forall X (l : list X) p q x, p <> q -> nth_error (upd p x l) q = nth_error l q.
Proof.
  induction l as [|y r IH]; intros [|p] [|q] x H; simpl in *; auto; try congruence.
Qed.

Lemma scatter_snoc : forall X (ja : list (nat * X)) a st, scatter (ja ++ [a]) st = upd (fst a) (snd a) (scatter ja st).
Proof. intros. unfold scatter. now rewrite fold_left_app. Qed.

Lemma scatter_length : forall X (ja : list (nat * X)) st, length (scatter ja st) = length st.
Proof.
  intros X ja. induction ja as [|a r IH] using rev_ind; intros st; [reflexivity|].
  now rewrite scatter_snoc, upd_length.
Qed.

Lemma scatter_weak : forall X (ja : list (nat * X)) st p y,
  nth_error (scatter ja st) p = Some y -> nth_error st p = Some y \/ In (p, y) ja.
Proof.
  intros X ja. induction ja as [|a r IH] using rev_ind; intros st p y H; [now left|].
  rewrite scatter_snoc in H. destruct (Nat.eq_dec (fst a) p) as [E|E].
  - subst p. assert (Hl : fst a < length (scatter r st)).
    { destruct (lt_dec (fst a) (length (scatter r st))); [assumption|].
      assert (nth_error (upd (fst a) (snd a) (scatter r st)) (fst a) = None) as HN by (apply nth_error_None; rewrite upd_length; lia).
      congruence. }
    rewrite upd_nth_same in H by assumption. inversion H; subst. right. apply in_or_app. right. left. now destruct a.
  - rewrite upd_nth_other in H by assumption. destruct (IH _ _ _ H); [now left | right; apply in_or_app; now left].
Qed.

Lemma scatter_notin : forall X (ja : list (nat * X)) st p,
  ~ In p (map fst ja) -> nth_error (scatter ja st) p = nth_error st p.
Proof.
  intros X ja. induction ja as [|a r IH] using rev_ind; intros st p H; [reflexivity|].
  rewrite scatter_snoc. rewrite map_app, in_app_iff in H. simpl in H.
  rewrite upd_nth_other by tauto. apply IH. tauto.
Qed.

Lemma scatter_functional : forall X (ja : list (nat * X)) st p y,
  (forall y', In (p, y') ja -> y' = y) -> In (p, y) ja -> p < length st ->
  nth_error (scatter ja st) p = Some y.
Proof.
  intros X ja. induction ja as [|a r IH] using rev_ind; intros st p y HF HI HL; [contradiction|].
  rewrite scatter_snoc. destruct (Nat.eq_dec (fst a) p) as [E|E].
  - subst p. rewrite upd_nth_same by (now rewrite scatter_length). f_equal. apply HF.
    apply in_or_app. right. left. now destruct a.
  - rewrite upd_nth_other by assumption. apply IH; auto.
    + intros y' H'. apply HF. apply in_or_app. now left.
    + apply in_app_or in HI. destruct HI as [HI|[HI|[]]]; [assumption|]. subst a. simpl in E. congruence.
Qed.

Lemma in_combine_nth : forall X Y (l : list X) (l' : list Y) x y,
  In (x, y) (combine l l') -> exists k, nth_error l k = Some x /\ nth_error l' k = Some y.
Proof.
  induction l as [|a r IH]; intros [|b r'] x y H; simpl in *; try contradiction.
  destruct H as [H|H].
  - inversion H; subst. exists 0. auto.
  - destruct (IH _ _ _ H) as [k [H1 H2]]. exists (S k). auto.
Qed.

Lemma nth_error_nth' : forall X (l : list X) n d x, nth_error l n = Some x -> nth n l d = x.
Proof. intros. now apply nth_error_nth. Qed.

Lemma nth_nth_error : forall X (l : list X) n d, n < length l -> nth_error l n = Some (nth n l d).
Proof.
  intros X l n d H. destruct (nth_error l n) eqn:E.
  - f_equal. symmetry. now apply nth_error_nth.
  - apply nth_error_None in E. lia.
Qed.

Lemma nth_error_map_some : forall X Y (f : X -> Y) l n y,
  nth_error (map f l) n = Some y -> exists x, nth_error l n = Some x /\ y = f x.
Proof.
  induction l as [|a r IH]; intros [|n] y H; simpl in *; try discriminate.
  - inversion H. eauto.
  - now apply IH.
Qed.

(* ------------------------------------------------------------------ one round *)
Section RoundP.
  Variable cp : sid -> nat.
  Variable max_param : nat.

  Lemma positions_in : forall uniq g p, In p (positions cp uniq g) <-> p < length uniq /\ cp (nth p uniq 0%N) = g.
  Proof.
    intros uniq g p. unfold positions. rewrite filter_In, in_seq, Nat.eqb_eq. simpl. split; intros; [split; [lia | tauto] | split; [lia | tauto]].
  Qed.

  (* state of the group loop after the groups in G *)
  Definition ginv (uniq : list sid) (os : round_oracle) (G : list nat) (acc : ustate * list (list sid)) : Prop :=
    length (fst acc) = length uniq /\
    (forall p y, nth_error (fst acc) p = Some y ->
       (nth_error uniq p = Some (fst y) /\ snd y = None) \/
       exists g k, In g G /\ nth_error (positions cp uniq g) k = Some p /\ nth_error (nth g os []) k = Some y) /\
    (forall p, p < length uniq -> ~ In (cp (nth p uniq 0%N)) G -> nth_error (fst acc) p = Some (nth p uniq 0%N, None)) /\
    snd acc = map (fun g => map (fun p => nth p uniq 0%N) (positions cp uniq g)) G.

  Lemma group_step_inv : forall uniq os G acc g,
    ginv uniq os G acc -> ~ In g G -> ginv uniq os (G ++ [g]) (group_step cp uniq os acc g).
  Proof.
    intros uniq os G [st inps] g [HL [HB [HU HI]]] Hg. unfold group_step. simpl in *.
    split; [|split; [|split]]; simpl.
    - now rewrite scatter_length.
    - intros p y H. apply scatter_weak in H. destruct H as [H|H].
      + destruct (HB p y H) as [H1|[g' [k [H1 [H2 H3]]]]]; [now left|].
        right. exists g', k. split; [apply in_or_app; now left | auto].
      + right. apply in_combine_nth in H. destruct H as [k [H1 H2]]. exists g, k.
        split; [apply in_or_app; right; now left | auto].
    - intros p Hp Hn. rewrite scatter_notin.
      + apply HU; [assumption|]. intros H. apply Hn. apply in_or_app. now left.
      + intros H. apply in_map_iff in H. destruct H as [[p' y] [E H]]. simpl in E. subst p'.
        apply in_combine_l in H. apply positions_in in H. apply Hn. apply in_or_app. right. left. symmetry. tauto.
    - rewrite HI, map_app. simpl. do 2 f_equal. apply map_ext_in. intros p Hp. apply positions_in in Hp.
      destruct Hp as [Hp1 Hp2]. rewrite (nth_error_nth' _ st p (0%N, None) (nth p uniq 0%N, None)); [reflexivity|].
      apply HU; [assumption | now rewrite Hp2].
  Qed.

  Lemma group_fold_inv : forall uniq os gs G acc,
    ginv uniq os G acc -> NoDup (G ++ gs) -> ginv uniq os (G ++ gs) (fold_left (group_step cp uniq os) gs acc).
  Proof.
    intros uniq os. induction gs as [|g r IH]; intros G acc HI ND; simpl.
    - now rewrite app_nil_r.
    - replace (G ++ g :: r) with ((G ++ [g]) ++ r) by (now rewrite <- app_assoc).
      apply IH.
      + apply group_step_inv; [assumption|]. apply NoDup_remove_2 in ND. intros H. apply ND. apply in_or_app. now left.
      + now rewrite <- app_assoc.
  Qed.

  Lemma simplify_unique_inv : forall uniq os,
    ginv uniq os (seq 0 (S max_param)) (simplify_unique cp max_param uniq os).
  Proof.
    intros uniq os. unfold simplify_unique.
    apply (group_fold_inv uniq os (seq 0 (S max_param)) []); [|apply seq_NoDup].
    split; [|split; [|split]]; simpl.
    - now rewrite map_length.
    - intros p y H. left. apply nth_error_map_some in H.
      destruct H as [u [H1 H2]]. subst y. simpl. auto.
    - intros p Hp _.
      exact (map_nth_error (fun u => (u, @None chain)) p uniq (nth_nth_error _ uniq p 0%N Hp)).
    - reflexivity.
  Qed.

  Lemma nth_error_seq : forall n s k, k < n -> nth_error (seq s n) k = Some (s + k).
  Proof.
    induction n as [|n IH]; intros s k H; [lia|]. destruct k; simpl.
    - f_equal. lia.
    - rewrite IH by lia. f_equal. lia.
  Qed.

  Lemma norm_add_chain : forall oc, chain_or_nil (norm_add oc) = chain_or_nil oc.
  Proof. intros [[|s c]|]; reflexivity. Qed.

  (* what one round does to function i: either its string is kept with no chain, or string and chain
     are the k-th answer of the call of some group g whose k-th argument was its string *)
  Lemma one_round_spec : forall af os,
    let r := one_round cp max_param af os in
    length (fst (fst r)) = length af /\ length (snd (fst r)) = length af /\
    forall i f, nth_error af i = Some f ->
      exists f' oc, nth_error (fst (fst r)) i = Some f' /\ nth_error (snd (fst r)) i = Some (norm_add oc) /\
        ((f' = f /\ oc = None) \/
         exists g k inp, nth_error (snd r) g = Some inp /\ nth_error inp k = Some f /\ nth_error (nth g os []) k = Some (f', oc)).
  Proof.
    intros af os. unfold one_round. simpl.
    set (uniq := uniq_keys N.eqb af). set (mt := gui_match N.eqb af).
    destruct (simplify_unique_inv uniq os) as [HL [HB [HU HI]]].
    set (su := simplify_unique cp max_param uniq os) in *.
    split; [now rewrite !map_length|]. split; [now rewrite !map_length|].
    intros i f Hi.
    destruct (uniq_spec N N.eqb Neqb_spec af f (nth_error_In _ _ Hi)) as [m [Hm1 [Hm2 Hm3]]].
    fold uniq in Hm2, Hm3.
    assert (Hst : nth_error (fst su) m = Some (nth m (fst su) (f, None))) by (apply nth_nth_error; now rewrite HL).
    set (y := nth m (fst su) (f, None)) in *.
    exists (fst y), (snd y).
    assert (Hrow : nth_error (map (fun f0 : sid => nth match dget N.eqb f0 mt with Some m0 => m0 | None => 0 end (fst su) (f0, None)) af) i = Some y).
    { rewrite (map_nth_error _ i af Hi). unfold mt. rewrite Hm1. reflexivity. }
    split; [exact (map_nth_error fst i _ Hrow)|].
    split; [exact (map_nth_error (fun r => norm_add (snd r)) i _ Hrow)|].
    destruct (HB m y Hst) as [[H1 H2]|[g [k [H1 [H2 H3]]]]].
    - left. split; [|assumption]. congruence.
    - right. exists g, k, (map (fun p => nth p uniq 0%N) (positions cp uniq g)). split; [|split].
      + rewrite HI. apply in_seq in H1.
        rewrite (map_nth_error _ g (seq 0 (S max_param)) (nth_error_seq (S max_param) 0 g ltac:(lia))). reflexivity.
      + rewrite (map_nth_error _ k _ H2). f_equal. now apply nth_error_nth'.
      + rewrite H3. now destruct y.
  Qed.
End RoundP.

(* ------------------------------------------------------------------ rounds: a generic invariant principle *)
Arguments one_round : simpl never.

Section PhaseP.
  Variable cp : N -> nat.
  Variable max_param : nat.

  (* Q holds of (all_fun, oracle answers) at every executed round *)
  Fixpoint phase_all (Q : list N -> round_oracle -> Prop) (os : list round_oracle) (old new : nat) (af : list N) : Prop :=
    if Nat.eqb old new then True
    else match os with
         | [] => True
         | o :: os' => Q af o /\
                       let af' := fst (fst (one_round cp max_param af o)) in phase_all Q os' new (nuniq af') af'
         end.

  Lemma phase_invariant : forall (P : list N -> list round_rec -> Prop) (Q : list N -> round_oracle -> Prop),
    (forall af acc o, P af acc -> Q af o ->
       let r := one_round cp max_param af o in
       P (fst (fst r)) (acc ++ [mk_round (fst (fst r)) (snd (fst r)) (snd r)])) ->
    forall os old new af acc af2 new2 acc2 os2,
      phase cp max_param os old new af acc = Some (af2, new2, acc2, os2) ->
      phase_all Q os old new af -> P af acc -> P af2 acc2.
  Proof.
    intros P Q Hstep. induction os as [|o os' IH]; intros old new af acc af2 new2 acc2 os2 H HQ HP; simpl in H, HQ.
    - destruct (Nat.eqb old new); [|discriminate]. inversion H; subst. exact HP.
    - destruct (Nat.eqb old new).
      + inversion H; subst. exact HP.
      + destruct HQ as [HQ1 HQ2]. eapply IH; [exact H | exact HQ2 |]. now apply Hstep.
  Qed.

  Lemma phase_nil : forall old new af acc,
    phase cp max_param [] old new af acc = if Nat.eqb old new then Some (af, new, acc, []) else None.
  Proof. reflexivity. Qed.

  Lemma phase_cons : forall o os' old new af acc,
    phase cp max_param (o :: os') old new af acc =
    if Nat.eqb old new then Some (af, new, acc, o :: os')
    else phase cp max_param os' new (nuniq (fst (fst (one_round cp max_param af o)))) (fst (fst (one_round cp max_param af o)))
           (acc ++ [mk_round (fst (fst (one_round cp max_param af o))) (snd (fst (one_round cp max_param af o))) (snd (one_round cp max_param af o))]).
  Proof. reflexivity. Qed.

  Lemma phase_all_true : forall os old new af, phase_all (fun _ _ => True) os old new af.
  Proof.
    induction os as [|o os' IH]; intros old new af; simpl; destruct (Nat.eqb old new); auto.
  Qed.

  (* the oracle answers that were consumed + those left = those supplied *)
  Lemma phase_consumes : forall os old new af acc af2 new2 acc2 os2,
    phase cp max_param os old new af acc = Some (af2, new2, acc2, os2) ->
    exists used, os = used ++ os2 /\ length acc2 = length acc + length used.
  Proof.
    induction os as [|o os' IH]; intros old new af acc af2 new2 acc2 os2 H; simpl in H.
    - destruct (Nat.eqb old new); [|discriminate]. inversion H; subst. exists []. auto.
    - destruct (Nat.eqb old new).
      + inversion H; subst. exists []. auto.
      + apply IH in H. destruct H as [used [H1 H2]]. exists (o :: used). split; [simpl; now rewrite H1|].
        rewrite H2, app_length. simpl. lia.
  Qed.
End PhaseP.

(* ------------------------------------------------------------------ meaning *)
Section SemP.
  Variable V Env : Type.
  Variable den : N -> Env -> V.
  Variable sden : N -> Env -> Env.
  Variable npar : N -> nat.
  Variable cp : N -> nat.
  Variable max_param : nat.

  Local Notation compose := (compose Env sden).
  Local Notation step_sound := (step_sound V Env den sden npar).
  Local Notation round_sound := (round_sound V Env den sden npar cp max_param).
  Local Notation phase_sound := (phase_sound V Env den sden npar cp max_param).

  (* the order in which convert_params / check_results compose the recorded substitutions *)
  Lemma compose_app : forall c1 c2 theta, compose (c1 ++ c2) theta = compose c1 (compose c2 theta).
  Proof. intros. unfold DoSympy.compose. now rewrite fold_right_app. Qed.

  Lemma has_nan_app : forall c1 c2, has_nan (c1 ++ c2) = has_nan c1 || has_nan c2.
  Proof. intros. unfold has_nan. apply existsb_app. Qed.

  Lemma step_refl : forall f, step_sound f f [].
  Proof. intros f. split; [lia|]. simpl. reflexivity. Qed.

  Lemma step_trans : forall f f1 f2 c1 c2,
    step_sound f f1 c1 -> step_sound f1 f2 c2 -> step_sound f f2 (c1 ++ c2).
  Proof.
    intros f f1 f2 c1 c2 [L1 S1] [L2 S2]. split; [lia|]. rewrite has_nan_app.
    destruct (has_nan c1), (has_nan c2); simpl; try lia.
    intros theta. rewrite compose_app, S1. apply S2.
  Qed.

  Lemma phase_sound_all : forall os old new af, phase_sound os old new af <-> phase_all cp max_param round_sound os old new af.
  Proof.
    induction os as [|o os' IH]; intros old new af; simpl; destruct (Nat.eqb old new); try tauto.
    rewrite IH. tauto.
  Qed.

  (* one round, function by function *)
  Lemma round_fn_sound : forall af os, round_sound af os ->
    forall i f, nth_error af i = Some f ->
      exists f' oc, nth_error (fst (fst (one_round cp max_param af os))) i = Some f' /\
                    nth_error (snd (fst (one_round cp max_param af os))) i = Some oc /\
                    step_sound f f' (chain_or_nil oc).
  Proof.
    intros af os HS i f Hi.
    destruct (one_round_spec cp max_param af os) as [_ [_ H]].
    destruct (H i f Hi) as [f' [oc [H1 [H2 H3]]]]. exists f', (norm_add oc).
    split; [assumption|]. split; [assumption|]. rewrite norm_add_chain.
    destruct H3 as [[E1 E2]|[g [k [inp [G1 [G2 G3]]]]]].
    - subst. apply step_refl.
    - exact (HS g inp G1 k f (f', oc) G2 G3).
  Qed.

  Lemma chain_i_snoc : forall i rounds inv, chain_i i (rounds ++ [inv]) = chain_i i rounds ++ chain_or_nil (nth i inv None).
  Proof. intros. unfold chain_i. rewrite flat_map_app. simpl. now rewrite app_nil_r. Qed.

  Definition sem_inv (A0 : list N) (afc : list N) (acc : list round_rec) : Prop :=
    forall i f0, nth_error A0 i = Some f0 ->
      exists f, nth_error afc i = Some f /\ step_sound f0 f (chain_i i (map rr_inv acc)).

  Lemma sem_inv_step : forall A0 af acc o, sem_inv A0 af acc -> round_sound af o ->
    let r := one_round cp max_param af o in
    sem_inv A0 (fst (fst r)) (acc ++ [mk_round (fst (fst r)) (snd (fst r)) (snd r)]).
  Proof.
    intros A0 af acc o HI HS r i f0 H0. destruct (HI i f0 H0) as [f [Hf Hs]].
    destruct (round_fn_sound af o HS i f Hf) as [f' [oc [H1 [H2 H3]]]].
    exists f'. split; [exact H1|]. rewrite map_app.
    change (map rr_inv [mk_round (fst (fst r)) (snd (fst r)) (snd r)]) with [snd (fst r)].
    rewrite chain_i_snoc. subst r. rewrite (nth_error_nth' _ _ i None oc H2). eapply step_trans; eauto.
  Qed.
End SemP.

(* ------------------------------------------------------------------ structure: one row per function *)
Section StructP.
  Variable cp : N -> nat.
  Variable max_param : nat.

  Definition struct_inv (n : nat) (afc : list N) (acc : list round_rec) : Prop :=
    length afc = n /\ Forall (fun r => length (rr_inv r) = n /\ length (rr_fun r) = n) acc.

  Lemma struct_inv_step : forall n af acc o, struct_inv n af acc -> True ->
    let r := one_round cp max_param af o in
    struct_inv n (fst (fst r)) (acc ++ [mk_round (fst (fst r)) (snd (fst r)) (snd r)]).
  Proof.
    intros n af acc o [H1 H2] _ r. destruct (one_round_spec cp max_param af o) as [L1 [L2 _]]. fold r in L1, L2.
    split; [now rewrite L1|]. apply Forall_app. split; [assumption|]. constructor; [|constructor]. cbn [rr_inv rr_fun]. split; [now rewrite L2 | now rewrite L1].
  Qed.

  Lemma do_sympy_struct : forall af os af2 rounds r1 os2,
    do_sympy cp max_param af os = Some (af2, rounds, r1, os2) ->
    struct_inv (length af) af2 rounds /\ r1 <= length rounds /\
    exists used, os = used ++ os2 /\ length used = length rounds.
  Proof.
    intros af os af2 rounds r1 os2 H. unfold do_sympy in H.
    destruct (phase cp max_param os 0 (length af) af []) as [[[[af1 new1] ra] os1]|] eqn:E1; [|discriminate].
    destruct (phase cp max_param os1 0 new1 af1 ra) as [[[[af2' new2] rb] os2']|] eqn:E2; [|discriminate].
    inversion H; subst. clear H.
    assert (S1 : struct_inv (length af) af1 ra).
    { eapply (phase_invariant cp max_param (struct_inv (length af)) (fun _ _ => True)); [| exact E1 | apply phase_all_true |].
      - intros. now apply struct_inv_step.
      - split; [reflexivity | constructor]. }
    assert (S2 : struct_inv (length af) af2 rounds).
    { eapply (phase_invariant cp max_param (struct_inv (length af)) (fun _ _ => True)); [| exact E2 | apply phase_all_true | exact S1].
      intros. now apply struct_inv_step. }
    apply phase_consumes in E1. apply phase_consumes in E2.
    destruct E1 as [u1 [U1 U2]]. destruct E2 as [u2 [U3 U4]]. simpl in U2.
    split; [assumption|]. split; [lia|]. exists (u1 ++ u2). split; [subst; now rewrite app_assoc|].
    rewrite app_length. lia.
  Qed.
End StructP.

(* ------------------------------------------------------------------ re-combination of the per-round files *)
Definition contrib (i : nat) (ja : list (nat * list N)) : list N :=
  flat_map (fun jr => if Nat.eqb (fst jr) i then snd jr else []) ja.

Lemma accum_spec : forall (ja : list (nat * list N)) acc,
  let res := fold_left (fun acc jr => upd (fst jr) (nth (fst jr) acc [] ++ snd jr) acc) ja acc in
  length res = length acc /\ forall i, i < length acc -> nth i res [] = nth i acc [] ++ contrib i ja.
Proof.
  induction ja as [|[j row] r IH] using rev_ind; intros acc; simpl.
  - split; [reflexivity|]. intros. now rewrite app_nil_r.
  - rewrite fold_left_app. simpl. destruct (IH acc) as [IL IN]. simpl in IL, IN.
    set (acc' := fold_left (fun acc0 jr => upd (fst jr) (nth (fst jr) acc0 [] ++ snd jr) acc0) r acc) in *.
    split; [now rewrite upd_length|]. intros i Hi. unfold contrib. rewrite flat_map_app. simpl. rewrite app_nil_r.
    fold (contrib i r). destruct (Nat.eqb j i) eqn:E.
    + apply Nat.eqb_eq in E. subst j. rewrite (nth_error_nth' _ _ i [] _ (upd_nth_same _ acc' i _ ltac:(lia))).
      rewrite IN by assumption. now rewrite app_assoc.
    + apply Nat.eqb_neq in E. rewrite app_nil_r. rewrite <- IN by assumption.
      apply nth_error_nth'. rewrite upd_nth_other by assumption. apply nth_nth_error. lia.
Qed.

Lemma combine_map_map : forall X Y Z (f : X -> Y) (g : X -> Z) l, combine (map f l) (map g l) = map (fun x => (f x, g x)) l.
Proof. induction l as [|x r IH]; simpl; [reflexivity | now rewrite IH]. Qed.

Lemma contrib_enum : forall (inv : list (option (list N))) s i,
  contrib i (map (fun ic => (fst ic, chain_or_nil (snd ic)))
               (filter (fun ic : nat * option (list N) => is_some (snd ic)) (combine (seq s (length inv)) inv)))
  = if s <=? i then chain_or_nil (nth (i - s) inv None) else [].
Proof.
  induction inv as [|oc r IH]; intros s i.
  - simpl. destruct (s <=? i); [destruct (i - s)|]; reflexivity.
  - pose proof (IH (S s) i) as T. unfold contrib in T |- *.
    change (combine (seq s (length (oc :: r))) (oc :: r)) with ((s, oc) :: combine (seq (S s) (length r)) r).
    assert (C : (S s <=? i) = true /\ (s <=? i) = true /\ Nat.eqb s i = false /\ i - s = S (i - S s)
             \/ (S s <=? i) = false /\ (s <=? i) = true /\ Nat.eqb s i = true /\ i - s = 0
             \/ (S s <=? i) = false /\ (s <=? i) = false /\ Nat.eqb s i = false).
    { destruct (lt_eq_lt_dec s i) as [[H|H]|H].
      - left. repeat split; [apply Nat.leb_le | apply Nat.leb_le | apply Nat.eqb_neq |]; lia.
      - right. left. repeat split; [apply Nat.leb_gt | apply Nat.leb_le | apply Nat.eqb_eq |]; lia.
      - right. right. repeat split; [apply Nat.leb_gt | apply Nat.leb_gt | apply Nat.eqb_neq]; lia. }
    destruct oc as [c|]; cbn [filter snd fst is_some map flat_map chain_or_nil]; rewrite T;
      destruct C as [[C1 [C2 [C3 C4]]]|[[C1 [C2 [C3 C4]]]|[C1 [C2 C3]]]]; rewrite ?C1, ?C2, ?C3, ?C4; cbn [nth chain_or_nil app];
      rewrite ?app_nil_r; reflexivity.
Qed.

Lemma combine_round_spec : forall acc inv,
  length (combine_round acc (inv_idx inv) (inv_rows inv)) = length acc /\
  forall i, i < length acc ->
    nth i (combine_round acc (inv_idx inv) (inv_rows inv)) [] = nth i acc [] ++ chain_or_nil (nth i inv None).
Proof.
  intros acc inv. unfold combine_round, inv_idx, inv_rows. rewrite combine_map_map.
  destruct (accum_spec (map (fun ic => (fst ic, chain_or_nil (snd ic)))
                          (filter (fun ic : nat * option (list N) => is_some (snd ic)) (enumerate inv))) acc) as [HL HN].
  split; [exact HL|]. intros i Hi. rewrite (HN i Hi). f_equal. unfold enumerate. rewrite contrib_enum. simpl.
  now rewrite Nat.sub_0_r.
Qed.

Lemma nth_repeat_nil : forall X n i, nth i (repeat (@nil X) n) [] = [].
Proof. induction n as [|n IH]; intros [|i]; simpl; auto. Qed.

Lemma combine_rounds_spec : forall n rounds,
  length (combine_rounds n rounds) = n /\
  forall i, i < n -> nth i (combine_rounds n rounds) [] = chain_i i rounds.
Proof.
  intros n rounds. unfold combine_rounds.
  assert (G : forall rounds acc, length acc = n ->
            let res := fold_left (fun acc inv => combine_round acc (inv_idx inv) (inv_rows inv)) rounds acc in
            length res = n /\ forall i, i < n -> nth i res [] = nth i acc [] ++ chain_i i rounds).
  { induction rounds0 as [|inv r IH]; intros acc HL; simpl.
    - split; [assumption|]. intros. now rewrite app_nil_r.
    - destruct (combine_round_spec acc inv) as [CL CN].
      destruct (IH (combine_round acc (inv_idx inv) (inv_rows inv)) ltac:(congruence)) as [IL IN].
      split; [exact IL|]. intros i Hi. rewrite (IN i Hi), CN by lia. now rewrite app_assoc. }
  destruct (G rounds (repeat [] n) (repeat_length _ _)) as [GL GN].
  split; [exact GL|]. intros i Hi. rewrite (GN i Hi). now rewrite nth_repeat_nil.
Qed.

(* the index file of a round: strictly increasing function indices, one chain per index *)
Lemma inv_files_aligned : forall inv,
  length (inv_rows inv) = length (inv_idx inv) /\
  (forall j, In j (inv_idx inv) -> j < length inv /\ nth j inv None <> None) /\
  StronglySorted lt (inv_idx inv).
Proof.
  intros inv. unfold inv_rows, inv_idx. split; [now rewrite !map_length|].
  assert (G : forall (l : list (option (list N))) s,
            (forall j, In j (map fst (filter (fun ic : nat * option (list N) => is_some (snd ic)) (combine (seq s (length l)) l))) ->
                       s <= j < s + length l /\ nth (j - s) l None <> None) /\
            StronglySorted lt (map fst (filter (fun ic : nat * option (list N) => is_some (snd ic)) (combine (seq s (length l)) l)))).
  { induction l as [|oc r IH]; intros s; simpl.
    - split; [intros j []| constructor].
    - destruct (IH (S s)) as [I1 I2]. destruct oc as [c|]; simpl.
      + split.
        * intros j [Hj|Hj].
          -- subst. split; [lia|]. rewrite Nat.sub_diag. discriminate.
          -- destruct (I1 j Hj) as [A B]. split; [lia|]. replace (j - s) with (S (j - S s)) by lia. exact B.
        * constructor; [exact I2|]. rewrite Forall_forall. intros j Hj. destruct (I1 j Hj). lia.
      + split; [|exact I2]. intros j Hj. destruct (I1 j Hj) as [A B]. split; [lia|].
        replace (j - s) with (S (j - S s)) by lia. exact B. }
  destruct (G inv 0) as [G1 G2]. split; [|exact G2].
  intros j Hj. destruct (G1 j Hj) as [A B]. rewrite Nat.sub_0_r in B. split; [lia | exact B].
Qed.

(* ------------------------------------------------------------------ check_results: the un-merge *)
Lemma NoDup_app_disj : forall X (l1 l2 : list X), NoDup l1 -> NoDup l2 -> (forall x, In x l1 -> ~ In x l2) -> NoDup (l1 ++ l2).
Proof.
  induction l1 as [|x r IH]; intros l2 N1 N2 D; simpl; [assumption|].
  inversion N1; subst. constructor.
  - intros H. apply in_app_or in H. destruct H; [contradiction|]. eapply D; [now left | eassumption].
  - apply IH; auto. intros y Hy. apply D. now right.
Qed.

Lemma map_snd_combine_seq : forall X (U : list X) s, map snd (combine (seq s (length U)) U) = U.
Proof. induction U as [|u r IH]; intros s; simpl; [reflexivity | now rewrite IH]. Qed.

(* old_match = {f: i for i, f in enumerate(uniq_fun)} *)
Lemma old_match_get : forall (U : list N) k j, dget N.eqb k (old_match_of U) = Some j -> nth_error U j = Some k.
Proof.
  intros U k j H. unfold old_match_of, enumerate in H.
  destruct (enum_fold_get N N.eqb Neqb_spec (combine (seq 0 (length U)) U) [] k) as [G _].
  destruct (G j H) as [G1|G1]; [discriminate|].
  apply in_combine_nth in G1. destruct G1 as [m [M1 M2]].
  assert (m < length U) by (apply nth_error_Some; congruence).
  rewrite nth_error_seq in M1 by assumption. inversion M1; subst. exact M2.
Qed.

Lemma old_match_mem : forall (U : list N) k, dmem N.eqb k (old_match_of U) = true <-> In k U.
Proof.
  intros U k. unfold dmem, old_match_of, enumerate.
  destruct (enum_fold_get N N.eqb Neqb_spec (combine (seq 0 (length U)) U) [] k) as [_ G].
  rewrite map_snd_combine_seq in G.
  destruct (dget N.eqb k (fold_left (fun d iv => dset N.eqb (snd iv) (fst iv) d) (combine (seq 0 (length U)) U) [])) eqn:D.
  - split; [|reflexivity]. intros _. destruct (in_dec N.eq_dec k U) as [I|I]; [assumption|].
    assert (@None nat = None /\ ~ In k U) as X by auto. apply G in X. discriminate.
  - split; [discriminate|]. intros I. destruct G as [G _]. destruct (G eq_refl) as [_ G2]. contradiction.
Qed.

Theorem unmerge_sound : forall (E : list N) (lib : library) (T : list nat),
  length (l_match lib) = length E -> length (l_subs lib) = length E ->
  (forall r, In r T -> r < length E) ->
  let lib' := unmerge E lib T in
  length (l_match lib') = length E /\ length (l_subs lib') = length E /\
  (* every function in to_change is matched to a unique entry that IS its own string, with an empty row *)
  (forall r, In r T -> exists q, nth_error (l_match lib') r = Some q /\
                                 nth_error (l_uniq lib') q = Some (nth r E 0%N) /\ nth_error (l_subs lib') r = Some []) /\
  (* every other function keeps its match and its row, and the old uniques keep their positions *)
  (forall i, ~ In i T -> nth_error (l_match lib') i = nth_error (l_match lib) i /\
                         nth_error (l_subs lib') i = nth_error (l_subs lib) i) /\
  (forall q, q < length (l_uniq lib) -> nth_error (l_uniq lib') q = nth_error (l_uniq lib) q) /\
  (* the unique list stays duplicate-free *)
  (NoDup (l_uniq lib) -> NoDup (l_uniq lib')).
Proof.
  intros E lib T HM HS HT lib'. unfold lib', unmerge. simpl.
  set (om := old_match_of (l_uniq lib)).
  set (new_fun := map (fun r => nth r E 0%N) (filter (fun r => negb (dmem N.eqb (nth r E 0%N) om)) T)).
  split; [now rewrite scatter_length|]. split; [now rewrite scatter_length|]. split; [|split; [|split]].
  - intros r Hr.
    assert (Hsub : nth_error (scatter (map (fun r0 : nat => (r0, @nil N)) T) (l_subs lib)) r = Some []).
    { apply scatter_functional.
      - intros y' Hy. apply in_map_iff in Hy. destruct Hy as [r' [Hy1 Hy2]]. now inversion Hy1.
      - apply in_map_iff. eauto.
      - rewrite HS. now apply HT. }
    destruct (dget N.eqb (nth r E 0%N) om) as [j|] eqn:Eo.
    + exists j. split; [|split; [|exact Hsub]].
      * apply scatter_functional.
        -- intros y' Hy. apply in_map_iff in Hy. destruct Hy as [r' [Hy1 Hy2]]. inversion Hy1; subst. now rewrite Eo.
        -- apply in_map_iff. exists r. split; [now rewrite Eo | assumption].
        -- rewrite HM. now apply HT.
      * apply old_match_get in Eo. rewrite nth_error_app1; [assumption|]. apply nth_error_Some. congruence.
    + assert (Hin : In (nth r E 0%N) new_fun).
      { unfold new_fun. apply in_map_iff. exists r. split; [reflexivity|]. apply filter_In. split; [assumption|].
        unfold dmem. now rewrite Eo. }
      destruct (uniq_spec N N.eqb Neqb_spec new_fun _ Hin) as [m [Hm1 [Hm2 Hm3]]].
      exists (length (l_uniq lib) + m). split; [|split; [|exact Hsub]].
      * apply scatter_functional.
        -- intros y' Hy. apply in_map_iff in Hy. destruct Hy as [r' [Hy1 Hy2]]. inversion Hy1; subst. now rewrite Eo, Hm1.
        -- apply in_map_iff. exists r. split; [now rewrite Eo, Hm1 | assumption].
        -- rewrite HM. now apply HT.
      * rewrite nth_error_app2 by lia. replace (length (l_uniq lib) + m - length (l_uniq lib)) with m by lia. exact Hm2.
  - intros i Hi. split; apply scatter_notin; rewrite map_map; simpl; now rewrite map_id.
  - intros q Hq. now apply nth_error_app1.
  - intros ND. apply NoDup_app_disj; [assumption | apply (uniq_keys_nodup N N.eqb Neqb_spec)|].
    intros x Hx Hx'. rewrite (uniq_keys_in N N.eqb Neqb_spec) in Hx'. unfold new_fun in Hx'. apply in_map_iff in Hx'.
    destruct Hx' as [r [Hr1 Hr2]]. subst x. apply filter_In in Hr2. destruct Hr2 as [_ Hr2].
    apply negb_true_iff in Hr2. apply (old_match_mem (l_uniq lib)) in Hx. unfold om in Hr2. congruence.
Qed.

(* ------------------------------------------------------------------ the whole of main *)
Lemma inherit_length : forall E xo, length xo <= length E -> length (inherit E xo) = length E.
Proof. intros E xo H. unfold inherit. rewrite app_length, firstn_length, map_length. lia. Qed.

Lemma nth_firstn_lt : forall X (l : list X) k i d, i < k -> nth i (firstn k l) d = nth i l d.
Proof.
  induction l as [|x r IH]; intros [|k] [|i] d H; simpl; try reflexivity; try lia. apply IH. lia.
Qed.

Lemma inherit_nth : forall E xo i, length xo <= length E -> i < length E ->
  nth i (inherit E xo) 0%N = if i <? length E - length xo then nth i E 0%N else nth (nth (i - (length E - length xo)) xo 0) E 0%N.
Proof.
  intros E xo i H Hi. unfold inherit. destruct (i <? length E - length xo) eqn:L.
  - apply Nat.ltb_lt in L. rewrite app_nth1 by (rewrite firstn_length; lia).
    now apply nth_firstn_lt.
  - apply Nat.ltb_ge in L. rewrite app_nth2 by (rewrite firstn_length; lia). rewrite firstn_length.
    replace (Nat.min (length E - length xo) (length E)) with (length E - length xo) by lia.
    rewrite nth_indep with (d' := (fun f => nth f E 0%N) 0) by (rewrite map_length; lia).
    now rewrite (map_nth (fun f => nth f E 0%N) xo 0).
Qed.

Lemma main_inv : forall cp mp E xo os perm cancel check T o,
  main cp mp E xo os perm cancel check T = Some o ->
  exists af rounds r1 rest uniq' midx,
    do_sympy cp mp (inherit E xo) os = Some (af, rounds, r1, rest) /\
    shuffle_uniq (uniq_keys N.eqb af) perm = Some uniq' /\
    shuffle_match N.eqb (gui_match N.eqb af) perm af = Some midx /\
    o = mk_out (inherit E xo) rounds r1 rest af (combine_rounds (length af) (map rr_inv rounds))
          (mk_lib uniq' midx (map cancel (combine_rounds (length af) (map rr_inv rounds))))
          (if check then unmerge E (mk_lib uniq' midx (map cancel (combine_rounds (length af) (map rr_inv rounds)))) T
           else mk_lib uniq' midx (map cancel (combine_rounds (length af) (map rr_inv rounds)))).
Proof.
  intros cp mp E xo os perm cancel check T o H. unfold main in H.
  destruct (do_sympy cp mp (inherit E xo) os) as [[[[af rounds] r1] rest]|] eqn:E1; [|discriminate].
  destruct (shuffle_uniq (uniq_keys N.eqb af) perm) as [uniq'|] eqn:E2; [|discriminate].
  destruct (shuffle_match N.eqb (gui_match N.eqb af) perm af) as [midx|] eqn:E3; [|discriminate].
  inversion H; subst. exists af, rounds, r1, rest, uniq', midx. auto.
Qed.

(* rows_aligned: every per-function table has exactly one row per function, in function order *)
Theorem rows_aligned : forall cp mp E xo os perm cancel check T o,
  main cp mp E xo os perm cancel check T = Some o ->
  length xo <= length E -> (forall r, In r T -> r < length E) ->
  let n := length E in
  length (o_a0 o) = n /\ length (o_fun o) = n /\ length (o_combined o) = n /\
  Forall (fun r => length (rr_fun r) = n /\ length (rr_inv r) = n /\
                   length (inv_rows (rr_inv r)) = length (inv_idx (rr_inv r)) /\
                   StronglySorted lt (inv_idx (rr_inv r)) /\ (forall j, In j (inv_idx (rr_inv r)) -> j < n)) (o_rounds o) /\
  length (l_match (o_lib o)) = n /\ length (l_subs (o_lib o)) = n /\
  length (l_match (o_final o)) = n /\ length (l_subs (o_final o)) = n /\
  o_round1 o <= length (o_rounds o) /\
  exists used, os = used ++ o_left o /\ length used = length (o_rounds o).
Proof.
  intros cp mp E xo os perm cancel check T o H Hxo HT n.
  destruct (main_inv _ _ _ _ _ _ _ _ _ _ H) as [af [rounds [r1 [rest [uniq' [midx [D [SU [SM Ho]]]]]]]]].
  destruct (do_sympy_struct _ _ _ _ _ _ _ _ D) as [[S1 S2] [S3 S4]].
  rewrite inherit_length in S1, S2 by assumption. fold n in S1, S2.
  destruct (combine_rounds_spec (length af) (map rr_inv rounds)) as [CL _].
  apply traverse_some in SM. destruct SM as [ML _].
  subst o. simpl.
  split; [now apply inherit_length|]. split; [assumption|]. split; [congruence|]. split.
  { rewrite Forall_forall in *. intros r Hr. destruct (S2 r Hr) as [A B]. destruct (inv_files_aligned (rr_inv r)) as [F1 [F2 F3]].
    repeat split; auto. intros j Hj. destruct (F2 j Hj). lia. }
  assert (L1 : length midx = n) by congruence.
  assert (L2 : length (map cancel (combine_rounds (length af) (map rr_inv rounds))) = n) by (rewrite map_length; congruence).
  split; [assumption|]. split; [assumption|].
  destruct check.
  - destruct (unmerge_sound E (mk_lib uniq' midx (map cancel (combine_rounds (length af) (map rr_inv rounds)))) T L1 L2 HT) as [U1 [U2 _]].
    auto.
  - simpl. auto.
Qed.

Section MainP.
  Variable V Env : Type.
  Variable den : N -> Env -> V.
  Variable sden : N -> Env -> Env.
  Variable npar : N -> nat.

  Local Notation compose := (compose Env sden).
  Local Notation step_sound := (step_sound V Env den sden npar).
  Local Notation cancel_ok := (cancel_ok Env sden).

  Lemma cancel_step : forall cancel f u c, cancel_ok cancel -> step_sound f u c -> step_sound f u (cancel c).
  Proof.
    intros cancel f u c HC [L S]. destruct (HC c) as [C1 C2]. split; [assumption|]. rewrite C1.
    destruct (has_nan c); [assumption|]. intros theta. rewrite C2 by reflexivity. apply S.
  Qed.

  Lemma do_sympy_sem : forall cp mp af os af2 rounds r1 os2,
    do_sympy cp mp af os = Some (af2, rounds, r1, os2) ->
    run_sound V Env den sden npar cp mp af os ->
    sem_inv V Env den sden npar af af2 rounds.
  Proof.
    intros cp mp af os af2 rounds r1 os2 H [R1 R2]. unfold do_sympy in H.
    destruct (phase cp mp os 0 (length af) af []) as [[[[af1 new1] ra] os1]|] eqn:E1; [|discriminate].
    destruct (phase cp mp os1 0 new1 af1 ra) as [[[[af2' new2] rb] os2']|] eqn:E2; [|discriminate].
    inversion H; subst. clear H.
    apply phase_sound_all in R1. apply phase_sound_all in R2.
    assert (S1 : sem_inv V Env den sden npar af af1 ra).
    { eapply (phase_invariant cp mp (sem_inv V Env den sden npar af)); [| exact E1 | exact R1 |].
      - intros. now apply sem_inv_step.
      - intros i f0 H0. exists f0. split; [assumption | apply step_refl]. }
    eapply (phase_invariant cp mp (sem_inv V Env den sden npar af)); [| exact E2 | exact R2 | exact S1].
    intros. now apply sem_inv_step.
  Qed.

  (* chain_sound: the library written by main before check_results *)
  Theorem chain_sound : forall cp mp E xo os perm cancel check T o,
    main cp mp E xo os perm cancel check T = Some o ->
    Permutation perm (seq 0 (length (uniq_keys N.eqb (o_fun o)))) ->
    run_sound V Env den sden npar cp mp (inherit E xo) os ->
    cancel_ok cancel ->
    forall i f0, nth_error (o_a0 o) i = Some f0 ->
      exists q u c, nth_error (l_match (o_lib o)) i = Some q /\ nth_error (l_uniq (o_lib o)) q = Some u /\
                    nth_error (l_subs (o_lib o)) i = Some c /\ step_sound f0 u c.
  Proof.
    intros cp mp E xo os perm cancel check T o H HP HR HC i f0 Hi.
    destruct (main_inv _ _ _ _ _ _ _ _ _ _ H) as [af [rounds [r1 [rest [uniq' [midx [D [SU [SM Ho]]]]]]]]].
    subst o. simpl in *.
    destruct (do_sympy_sem _ _ _ _ _ _ _ _ D HR i f0 Hi) as [f [Hf Hs]].
    destruct (shuffle_remap N N.eqb Neqb_spec af perm HP) as [u2 [m2 [SU2 [SM2 [_ [_ [HQ _]]]]]]].
    rewrite SU in SU2. rewrite SM in SM2. inversion SU2; inversion SM2; subst u2 m2.
    destruct (HQ i f Hf) as [q [Hq1 Hq2]].
    destruct (combine_rounds_spec (length af) (map rr_inv rounds)) as [CL CN].
    assert (Hil : i < length af) by (apply nth_error_Some; congruence).
    exists q, f, (cancel (nth i (combine_rounds (length af) (map rr_inv rounds)) [])).
    split; [assumption|]. split; [assumption|]. split.
    - apply map_nth_error. apply nth_nth_error. now rewrite CL.
    - apply cancel_step; [assumption|]. now rewrite CN.
  Qed.

  (* uniques_distinct: before check_results *)
  Theorem uniques_distinct : forall cp mp E xo os perm cancel check T o,
    main cp mp E xo os perm cancel check T = Some o ->
    Permutation perm (seq 0 (length (uniq_keys N.eqb (o_fun o)))) ->
    NoDup (l_uniq (o_lib o)) /\ Permutation (l_uniq (o_lib o)) (dedup N.eqb (o_fun o)).
  Proof.
    intros cp mp E xo os perm cancel check T o H HP.
    destruct (main_inv _ _ _ _ _ _ _ _ _ _ H) as [af [rounds [r1 [rest [uniq' [midx [D [SU [SM Ho]]]]]]]]].
    subst o. simpl in *.
    destruct (shuffle_remap N N.eqb Neqb_spec af perm HP) as [u2 [m2 [SU2 [_ [_ [_ [_ [ND PM]]]]]]]].
    rewrite SU in SU2. inversion SU2; subst u2. split; [assumption|].
    now rewrite <- (uniq_keys_spec N N.eqb Neqb_spec).
  Qed.

  (* C03 on the final library: every function i of the list, with its OWN string E[i] (what
     all_equations_<n>.txt holds), its final match, unique and row.  Hypotheses: the oracle contracts,
     and (C11) an extra tree's own string denotes the same function as its original's string. *)
  Theorem C03_library : forall cp mp E xo os perm cancel check T o,
    main cp mp E xo os perm cancel check T = Some o ->
    length xo <= length E -> (forall k f, nth_error xo k = Some f -> f < length E) ->
    (forall r, In r T -> r < length E) ->
    Permutation perm (seq 0 (length (uniq_keys N.eqb (o_fun o)))) ->
    run_sound V Env den sden npar cp mp (inherit E xo) os ->
    cancel_ok cancel ->
    (forall k f, nth_error xo k = Some f -> step_sound (nth (length E - length xo + k) E 0%N) (nth f E 0%N) []) ->
    forall i, i < length E ->
      exists q u c,
        nth_error (l_match (o_final o)) i = Some q /\ nth_error (l_uniq (o_final o)) q = Some u /\
        nth_error (l_subs (o_final o)) i = Some c /\
        step_sound (nth i E 0%N) u c /\
        (has_nan c = true -> npar u < npar (nth i E 0%N)) /\
        (has_nan c = false -> forall theta, den (nth i E 0%N) (compose c theta) = den u theta).
  Proof.
    intros cp mp E xo os perm cancel check T o H Hxo Hxr HT HP HR HC HX i Hi.
    assert (G : exists q u c, nth_error (l_match (o_final o)) i = Some q /\ nth_error (l_uniq (o_final o)) q = Some u /\
                nth_error (l_subs (o_final o)) i = Some c /\ step_sound (nth i E 0%N) u c).
    { (* own string -> string handed to do_sympy *)
      assert (HA : step_sound (nth i E 0%N) (nth i (inherit E xo) 0%N) []).
      { rewrite inherit_nth by assumption. destruct (i <? length E - length xo) eqn:L; [apply step_refl|].
        apply Nat.ltb_ge in L. set (k := i - (length E - length xo)).
        assert (Hk : nth_error xo k = Some (nth k xo 0)) by (apply nth_nth_error; unfold k; lia).
        specialize (HX k _ Hk). replace (length E - length xo + k) with i in HX by (unfold k; lia). exact HX. }
      assert (Hi0 : nth_error (o_a0 o) i = Some (nth i (inherit E xo) 0%N)).
      { destruct (main_inv _ _ _ _ _ _ _ _ _ _ H) as [af [rounds [r1 [rest [uniq' [midx [_ [_ [_ Ho]]]]]]]]]. subst o. simpl.
        apply nth_nth_error. now rewrite inherit_length. }
      destruct (chain_sound _ _ _ _ _ _ _ _ _ _ H HP HR HC i _ Hi0) as [q [u [c [Q1 [Q2 [Q3 Q4]]]]]].
      assert (Q5 : step_sound (nth i E 0%N) u c) by (change c with ([] ++ c); eapply step_trans; eauto).
      destruct (rows_aligned _ _ _ _ _ _ _ _ _ _ H Hxo HT) as [_ [_ [_ [_ [LM [LS _]]]]]].
      destruct (main_inv _ _ _ _ _ _ _ _ _ _ H) as [af [rounds [r1 [rest [uniq' [midx [_ [_ [_ Ho]]]]]]]]].
      destruct check.
      - assert (Hf : o_final o = unmerge E (o_lib o) T) by (subst o; reflexivity).
        rewrite Hf. destruct (unmerge_sound E (o_lib o) T LM LS HT) as [_ [_ [U3 [U4 [U5 _]]]]].
        destruct (in_dec Nat.eq_dec i T) as [HiT|HiT].
        + destruct (U3 i HiT) as [q' [W1 [W3 W4]]]. exists q', (nth i E 0%N), []. split; [exact W1|]. split; [exact W3|]. split; [exact W4|]. apply step_refl.
        + destruct (U4 i HiT) as [W1 W2]. exists q, u, c. rewrite W1, W2.
          split; [assumption|]. split; [|split; assumption].
          rewrite U5; [assumption|]. apply nth_error_Some. congruence.
      - assert (Hf : o_final o = o_lib o) by (subst o; reflexivity). rewrite Hf. exists q, u, c. auto. }
    destruct G as [q [u [c [G1 [G2 [G3 G4]]]]]]. exists q, u, c. repeat split; auto; try apply G4.
    - intros Hn. destruct G4 as [_ G4]. now rewrite Hn in G4.
    - intros Hn. destruct G4 as [_ G4]. now rewrite Hn in G4.
  Qed.

  (* provenance: a row can only contain substitutions that some sympy_simplify call returned; so a
     'nan' in a row was produced by an oracle step (whose contract removes a parameter) *)
  Definition from_oracle (os : list round_oracle) (s : N) : Prop :=
    exists o g k y, In o os /\ nth_error (nth g o []) k = Some y /\ In s (chain_or_nil (snd y)).
End MainP.

Section ProvP.
  Variable cp : N -> nat.
  Variable max_param : nat.

  Definition prov_inv (os : list round_oracle) (afc : list N) (acc : list round_rec) : Prop :=
    forall r i s, In r acc -> In s (chain_or_nil (nth i (rr_inv r) None)) -> from_oracle os s.

  Lemma phase_prov : forall all os old new af acc af2 new2 acc2 os2,
    phase cp max_param os old new af acc = Some (af2, new2, acc2, os2) ->
    (forall o, In o os -> In o all) -> prov_inv all af acc -> prov_inv all af2 acc2.
  Proof.
    intros all. induction os as [|o os' IH]; intros old new af acc af2 new2 acc2 os2 H Hsub HP.
    - rewrite phase_nil in H. destruct (Nat.eqb old new); [|discriminate]. inversion H; subst. exact HP.
    - rewrite phase_cons in H. destruct (Nat.eqb old new); [inversion H; subst; exact HP|].
      eapply IH; [exact H | intros; apply Hsub; now right |].
      intros r i s Hr Hs. apply in_app_or in Hr. destruct Hr as [Hr|[Hr|[]]]; [eapply HP; eauto|].
      subst r. unfold rr_inv in Hs. cbv beta iota in Hs.
      destruct (one_round_spec cp max_param af o) as [L1 [L2 Hsp]].
      destruct (nth_error af i) as [f|] eqn:Ef.
      + destruct (Hsp i f Ef) as [f' [oc [H1 [H2 H3]]]].
        rewrite (nth_error_nth' _ _ i None _ H2), norm_add_chain in Hs.
        destruct H3 as [[_ E2]|[g [k [inp [G1 [G2 G3]]]]]]; [subst; contradiction|].
        exists o, g, k, (f', oc). split; [apply Hsub; now left | auto].
      + apply nth_error_None in Ef. rewrite nth_overflow in Hs by lia. contradiction.
  Qed.

  Theorem chains_from_oracle : forall E xo os perm cancel check T o,
    main cp max_param E xo os perm cancel check T = Some o ->
    forall i s, In s (nth i (o_combined o) []) -> from_oracle os s.
  Proof.
    intros E xo os perm cancel check T o H i s Hs.
    destruct (main_inv _ _ _ _ _ _ _ _ _ _ H) as [af [rounds [r1 [rest [uniq' [midx [D [_ [_ Ho]]]]]]]]]. subst o. simpl in Hs.
    assert (P : prov_inv os af rounds).
    { unfold do_sympy in D.
      destruct (phase cp max_param os 0 (length (inherit E xo)) (inherit E xo) []) as [[[[af1 new1] ra] os1]|] eqn:E1; [|discriminate].
      destruct (phase cp max_param os1 0 new1 af1 ra) as [[[[af2' new2] rb] os2']|] eqn:E2; [|discriminate].
      inversion D; subst. clear D.
      destruct (phase_consumes _ _ _ _ _ _ _ _ _ _ _ E1) as [u1 [U1 _]].
      eapply phase_prov; [exact E2 | intros; subst os; apply in_or_app; now right |].
      eapply phase_prov; [exact E1 | auto |]. intros r i0 s0 []. }
    destruct (combine_rounds_spec (length af) (map rr_inv rounds)) as [CL CN].
    destruct (lt_dec i (length af)) as [L|L].
    - rewrite CN in Hs by assumption. unfold chain_i in Hs. apply in_flat_map in Hs. destruct Hs as [inv [I1 I2]].
      apply in_map_iff in I1. destruct I1 as [r [R1 R2]]. subst inv. eapply P; eauto.
    - rewrite nth_overflow in Hs by lia. contradiction.
  Qed.
End ProvP.

(* ------------------------------------------------------------------ a concrete run (non-vacuity)
   strings 1 = '3 - a0', 2 = '3 + a0', 3 = '3 + a0 + a1' (values at a fixed x); substitution 1 = {a0: -a0}, 0 = nan *)
From Coq Require Import ZArith.
Definition ex_den (f : N) (th : Z * Z) : Z :=
  (if N.eqb f 1 then 3 - fst th else if N.eqb f 2 then 3 + fst th else if N.eqb f 3 then 3 + fst th + snd th else 0)%Z.
Definition ex_sden (s : N) (th : Z * Z) : Z * Z := if N.eqb s 1 then (- fst th, snd th)%Z else th.
Definition ex_npar (f : N) : nat := if N.eqb f 3 then 2 else 1.
Definition ex_cp := ex_npar.
Definition ex_E : list N := [1; 2; 1; 3]%N.
Definition ex_o0 : round_oracle := [[]; [(2%N, Some [1%N]); (2%N, None)]; [(2%N, Some [0%N])]].
Definition ex_o1 : round_oracle := [[]; [(2%N, None)]; []].
Definition ex_os := [ex_o0; ex_o1; ex_o1].
Definition ex_main := main ex_cp 2 ex_E [] ex_os [0] (fun c => c) true [].

Lemma ex_runs : option_map o_final ex_main = Some (mk_lib [2%N] [0; 0; 0; 0] [[1%N]; []; [1%N]; [0%N]]).
Proof. vm_compute. reflexivity. Qed.


Ltac solve_step := unfold step_sound, ex_npar, ex_den, ex_sden, compose;
  cbn [has_nan existsb nan_sub N.eqb Pos.eqb fold_right orb fst snd]; split; [lia|]; try lia; try (intros [a b]; cbn [fst snd]; lia).
Ltac kill_idx H k := try discriminate H; try (destruct k; discriminate H).
Ltac solve_call := let k := fresh "k" in let f := fresh "f" in let y := fresh "y" in let Hk1 := fresh "Hk1" in let Hk2 := fresh "Hk2" in
  intros k f y Hk1 Hk2; destruct k as [|[|[|k]]]; simpl in Hk1, Hk2; kill_idx Hk1 k; kill_idx Hk2 k; inversion Hk1; inversion Hk2; subst; cbn [fst snd chain_or_nil]; solve_step.
Ltac solve_round := let g := fresh "g" in let inp := fresh "inp" in let H := fresh "H" in
  intros g inp H; vm_compute in H; destruct g as [|[|[|g]]]; kill_idx H g; inversion H; subst; simpl nth; solve_call.

Lemma ex_sound : run_sound Z (Z * Z) ex_den ex_sden ex_npar ex_cp 2 (inherit ex_E []) ex_os.
Proof.
  assert (R0 : round_sound Z (Z * Z) ex_den ex_sden ex_npar ex_cp 2 [1;2;1;3]%N ex_o0) by solve_round.
  assert (R1 : round_sound Z (Z * Z) ex_den ex_sden ex_npar ex_cp 2 [2;2;2;2]%N ex_o1) by solve_round.
  unfold run_sound.
  replace (phase ex_cp 2 ex_os 0 (length (inherit ex_E [])) (inherit ex_E []) []) with
    (Some ([2;2;2;2]%N, 1, [mk_round [2;2;2;2]%N [Some [1%N]; None; Some [1%N]; Some [0%N]] [[]; [1;2]%N; [3%N]];
                             mk_round [2;2;2;2]%N [None; None; None; None] [[]; [2%N]; []]], [ex_o1])) by (vm_compute; reflexivity).
  split.
  - change (inherit ex_E []) with [1;2;1;3]%N. unfold ex_os.
    cbn [phase_sound length Nat.eqb]. split; [exact R0|].
    replace (fst (fst (one_round ex_cp 2 [1;2;1;3]%N ex_o0))) with [2;2;2;2]%N by (vm_compute; reflexivity).
    replace (nuniq [2;2;2;2]%N) with 1 by (vm_compute; reflexivity).
    cbn [phase_sound Nat.eqb]. split; [exact R1|].
    replace (fst (fst (one_round ex_cp 2 [2;2;2;2]%N ex_o1))) with [2;2;2;2]%N by (vm_compute; reflexivity).
    replace (nuniq [2;2;2;2]%N) with 1 by (vm_compute; reflexivity).
    cbn [phase_sound Nat.eqb]. exact I.
  - cbn [phase_sound Nat.eqb]. split; [exact R1|].
    replace (fst (fst (one_round ex_cp 2 [2;2;2;2]%N ex_o1))) with [2;2;2;2]%N by (vm_compute; reflexivity).
    replace (nuniq [2;2;2;2]%N) with 1 by (vm_compute; reflexivity).
    cbn [phase_sound Nat.eqb]. exact I.
Qed.

Lemma ex_cancel_ok : cancel_ok (Z * Z) ex_sden (fun c => c).
Proof. intros c. split; [reflexivity | intros; reflexivity]. Qed.

(* all hypotheses of C03_library hold together on this run, so its conclusion is not vacuous *)
Lemma ex_library : forall i, i < 4 ->
  exists q u c, option_map (fun o => nth_error (l_match (o_final o)) i) ex_main = Some (Some q) /\
                option_map (fun o => nth_error (l_uniq (o_final o)) q) ex_main = Some (Some u) /\
                option_map (fun o => nth_error (l_subs (o_final o)) i) ex_main = Some (Some c) /\
                (has_nan c = true -> ex_npar u < ex_npar (nth i ex_E 0%N)) /\
                (has_nan c = false -> forall theta, ex_den (nth i ex_E 0%N) (compose (Z * Z) ex_sden c theta) = ex_den u theta).
Proof.
  intros i Hi. destruct ex_main as [o|] eqn:Eo; [|vm_compute in Eo; discriminate].
  unfold ex_main in Eo.
  assert (HP : Permutation [0] (seq 0 (length (uniq_keys N.eqb (o_fun o))))).
  { assert (E1 : option_map (fun o => length (uniq_keys N.eqb (o_fun o))) (main ex_cp 2 ex_E [] ex_os [0] (fun c => c) true []) = Some 1)
      by (vm_compute; reflexivity).
    rewrite Eo in E1. simpl in E1. inversion E1 as [E2]. rewrite E2. apply Permutation_refl. }
  destruct (C03_library Z (Z * Z) ex_den ex_sden ex_npar ex_cp 2 ex_E [] ex_os [0] (fun c => c) true [] o Eo
              ltac:(simpl; lia) ltac:(intros k f H; destruct k; discriminate) ltac:(intros r []) HP ex_sound ex_cancel_ok
              ltac:(intros k f H; destruct k; discriminate) i Hi)
    as [q [u [c [H1 [H2 [H3 [_ [H5 H6]]]]]]]].
  exists q, u, c. simpl. rewrite H1, H2, H3. auto.
Qed.

(* uniques_distinct, final: the unique list written at the very end (after check_results) is duplicate-free *)
Theorem final_uniques_distinct : forall cp mp E xo os perm cancel check T o,
  main cp mp E xo os perm cancel check T = Some o ->
  length xo <= length E -> (forall r, In r T -> r < length E) ->
  Permutation perm (seq 0 (length (uniq_keys N.eqb (o_fun o)))) ->
  NoDup (l_uniq (o_final o)).
Proof.
  intros cp mp E xo os perm cancel check T o H Hxo HT HP.
  destruct (uniques_distinct _ _ _ _ _ _ _ _ _ _ H HP) as [ND _].
  destruct (rows_aligned _ _ _ _ _ _ _ _ _ _ H Hxo HT) as [_ [_ [_ [_ [LM [LS _]]]]]].
  destruct (main_inv _ _ _ _ _ _ _ _ _ _ H) as [af [rounds [r1 [rest [uniq' [midx [_ [_ [_ Ho]]]]]]]]].
  destruct check.
  - assert (Hf : o_final o = unmerge E (o_lib o) T) by (subst o; reflexivity). rewrite Hf.
    destruct (unmerge_sound E (o_lib o) T LM LS HT) as [_ [_ [_ [_ [_ U6]]]]]. now apply U6.
  - assert (Hf : o_final o = o_lib o) by (subst o; reflexivity). now rewrite Hf.
Qed.
