(* Proofs about Model/Uniq.v: get_unique_indexes, get_match_indexes, shuffle remap. *)
From Coq Require Import List Bool Arith Lia Permutation Sorted.
From ESRV Require Import Model.Uniq.
Import ListNotations.

(* ------------------------------------------------------------------ dictionaries *)
Section DictP.
  Variable K : Type.
  Variable keqb : K -> K -> bool.
  Hypothesis kspec : forall x y, keqb x y = true <-> x = y.

  Lemma keqb_refl : forall x, keqb x x = true.
  Proof. intro x. apply kspec. reflexivity. Qed.

  Lemma keqb_false : forall x y, keqb x y = false <-> x <> y.
  Proof.
    intros x y. split.
    - intros H E. apply kspec in E. congruence.
    - intros H. destruct (keqb x y) eqn:E; [apply kspec in E; contradiction | reflexivity].
  Qed.

  Lemma dget_none_iff : forall B (d : list (K * B)) k, dget keqb k d = None <-> ~ In k (map fst d).
  Proof.
    induction d as [|[k' v] r IH]; intros k; simpl.
    - tauto.
    - destruct (keqb k k') eqn:E.
      + apply kspec in E. subst. split; [discriminate | intros H; exfalso; apply H; now left].
      + apply keqb_false in E. rewrite IH. split.
        * intros H [H1|H1]; [congruence | contradiction].
        * intros H H1. apply H. now right.
  Qed.

  Lemma dget_some_in : forall B (d : list (K * B)) k v, dget keqb k d = Some v -> In (k, v) d.
  Proof.
    induction d as [|[k' v'] r IH]; intros k v; simpl; [discriminate|].
    destruct (keqb k k') eqn:E.
    - apply kspec in E. subst. intros H. inversion H. now left.
    - intros H. right. now apply IH.
  Qed.

  Lemma dmem_true_iff : forall B (d : list (K * B)) k, dmem keqb k d = true <-> In k (map fst d).
  Proof.
    intros B d k. unfold dmem. destruct (dget keqb k d) eqn:E.
    - split; [|reflexivity]. intros _. apply dget_some_in in E. apply in_map_iff. exists (k, b). auto.
    - apply dget_none_iff in E. split; [discriminate | contradiction].
  Qed.

  Lemma dset_new : forall B (d : list (K * B)) k v, dget keqb k d = None -> dset keqb k v d = d ++ [(k, v)].
  Proof.
    induction d as [|[k' v'] r IH]; intros k v; simpl; [reflexivity|].
    destruct (keqb k k') eqn:E; [discriminate|]. intros H. now rewrite IH.
  Qed.

  Lemma dget_app : forall B (d1 d2 : list (K * B)) k,
    dget keqb k (d1 ++ d2) = match dget keqb k d1 with Some v => Some v | None => dget keqb k d2 end.
  Proof.
    induction d1 as [|[k' v'] r IH]; intros d2 k; simpl; [reflexivity|].
    destruct (keqb k k'); [reflexivity | apply IH].
  Qed.

  Lemma dget_in_nodup : forall B (d : list (K * B)) k v,
    NoDup (map fst d) -> In (k, v) d -> dget keqb k d = Some v.
  Proof.
    induction d as [|[k' v'] r IH]; intros k v ND HI; simpl in *; [contradiction|].
    inversion ND as [|? ? Hn ND']; subst.
    destruct HI as [HI|HI].
    - inversion HI; subst. now rewrite keqb_refl.
    - destruct (keqb k k') eqn:E.
      + apply kspec in E. subst. exfalso. apply Hn. apply in_map_iff. exists (k', v). auto.
      + now apply IH.
  Qed.

  (* Python's d[k] = v followed by a lookup *)
  Lemma dget_dset : forall B (d : list (K * B)) k v k',
    dget keqb k' (dset keqb k v d) = if keqb k' k then Some v else dget keqb k' d.
  Proof.
    induction d as [|[k0 v0] r IH]; intros k v k'; simpl.
    - reflexivity.
    - destruct (keqb k k0) eqn:E; simpl.
      + apply kspec in E. subst k0. destruct (keqb k' k); reflexivity.
      + rewrite IH. destruct (keqb k' k0) eqn:E0; [|reflexivity].
        apply kspec in E0. subst k0. destruct (keqb k' k) eqn:E1; [|reflexivity].
        apply kspec in E1. subst k'. rewrite keqb_refl in E. discriminate.
  Qed.

  Lemma lmem_true_iff : forall (l : list K) k, lmem keqb k l = true <-> In k l.
  Proof.
    intros l k. unfold lmem. rewrite existsb_exists. split.
    - intros [x [Hx E]]. apply kspec in E. now subst.
    - intros H. exists k. split; [assumption | apply keqb_refl].
  Qed.
End DictP.

(* the dictionary comprehension {v:i for i, v in enumerate(ks)} over distinct keys *)
Lemma enum_fold_dset : forall K (keqb : K -> K -> bool) (kspec : forall x y, keqb x y = true <-> x = y)
    (ks : list K) (s : nat) (d : list (K * nat)),
  NoDup (map fst d ++ ks) ->
  fold_left (fun d iv => dset keqb (snd iv) (fst iv) d) (combine (seq s (length ks)) ks) d
  = d ++ combine ks (seq s (length ks)).
Proof.
  intros K keqb kspec. induction ks as [|k r IH]; intros s d ND; simpl.
  - now rewrite app_nil_r.
  - rewrite dset_new.
    + rewrite IH.
      * now rewrite <- app_assoc.
      * rewrite map_app. simpl. rewrite <- app_assoc. exact ND.
    + apply (dget_none_iff _ _ kspec). apply NoDup_remove_2 in ND. intros H. apply ND. apply in_or_app. now left.
Qed.

Lemma enum_fold_get : forall K (keqb : K -> K -> bool) (kspec : forall x y, keqb x y = true <-> x = y)
    (ivs : list (nat * K)) (d : list (K * nat)) k,
  (forall j, dget keqb k (fold_left (fun d iv => dset keqb (snd iv) (fst iv) d) ivs d) = Some j ->
     dget keqb k d = Some j \/ In (j, k) ivs) /\
  (dget keqb k (fold_left (fun d iv => dset keqb (snd iv) (fst iv) d) ivs d) = None <->
     dget keqb k d = None /\ ~ In k (map snd ivs)).
Proof.
  intros K keqb kspec. induction ivs as [|[i v] r IH]; intros d k; simpl.
  - split; [auto|]. tauto.
  - destruct (IH (dset keqb v i d) k) as [I1 I2]. rewrite (dget_dset K keqb kspec) in I1, I2. split.
    + intros j Hj. destruct (I1 j Hj) as [H|H]; [|auto].
      destruct (keqb k v) eqn:E; [|auto]. apply kspec in E. subst v. inversion H; subst. auto.
    + rewrite I2. destruct (keqb k v) eqn:E.
      * apply kspec in E. subst v. split; [intros [H _]; discriminate | intros [_ H]; exfalso; apply H; now left].
      * apply (keqb_false K keqb kspec) in E. split; intros [H1 H2]; (split; [assumption|]).
        -- intros [H|H]; [congruence | contradiction].
        -- intros H. apply H2. now right.
Qed.

Lemma dget_combine_seq : forall K (keqb : K -> K -> bool) (kspec : forall x y, keqb x y = true <-> x = y)
    (ks : list K) (s : nat) k m,
  NoDup ks ->
  (dget keqb k (combine ks (seq s (length ks))) = Some m <-> (s <= m /\ nth_error ks (m - s) = Some k)).
Proof.
  intros K keqb kspec. induction ks as [|k' r IH]; intros s k m ND; simpl.
  - split; [discriminate|]. intros [_ H]. destruct (m - s); discriminate.
  - inversion ND as [|? ? Hn ND']; subst. destruct (keqb k k') eqn:E.
    + apply kspec in E. subst. split.
      * intros H. inversion H; subst. split; [lia|]. now rewrite Nat.sub_diag.
      * intros [Hle H]. destruct (m - s) eqn:Em.
        -- f_equal. lia.
        -- simpl in H. apply nth_error_In in H. contradiction.
    + rewrite IH by assumption. split.
      * intros [Hle H]. split; [lia|]. replace (m - s) with (S (m - S s)) by lia. exact H.
      * intros [Hle H]. destruct (m - s) eqn:Em.
        -- simpl in H. inversion H; subst. rewrite keqb_refl in E by assumption. discriminate.
        -- simpl in H. split; [lia|]. replace (m - S s) with n by lia. exact H.
Qed.

Lemma map_fst_combine : forall X Y (l : list X) (l' : list Y), length l = length l' -> map fst (combine l l') = l.
Proof.
  induction l as [|x r IH]; intros [|y r'] H; simpl in *; try reflexivity; try discriminate.
  f_equal. apply IH. now inversion H.
Qed.

Lemma map_nth_seq_id : forall X (U : list X) d, map (fun ii => nth ii U d) (seq 0 (length U)) = U.
Proof.
  intros X U d. apply nth_ext with (d := d) (d' := d); [now rewrite map_length, seq_length|].
  intros n Hn. rewrite map_length, seq_length in Hn.
  rewrite nth_indep with (d' := (fun ii => nth ii U d) 0) by (now rewrite map_length, seq_length).
  rewrite (map_nth (fun ii => nth ii U d) (seq 0 (length U)) 0 n). rewrite seq_nth by assumption. reflexivity.
Qed.

(* ------------------------------------------------------------------ traverse *)
Lemma traverse_some : forall X Y (f : X -> option Y) l ys,
  traverse f l = Some ys -> length ys = length l /\ forall k x, nth_error l k = Some x -> exists y, f x = Some y /\ nth_error ys k = Some y.
Proof.
  induction l as [|x r IH]; intros ys H; simpl in H.
  - inversion H; subst. split; [reflexivity|]. intros k x Hk. destruct k; discriminate.
  - destruct (f x) eqn:Ef; [|discriminate]. destruct (traverse f r) eqn:Er; [|discriminate].
    inversion H; subst. destruct (IH l eq_refl) as [IL IN]. split; [simpl; now rewrite IL|].
    intros [|k] x' Hk; simpl in *.
    + inversion Hk; subst. eauto.
    + now apply IN.
Qed.

Lemma traverse_total : forall X Y (f : X -> option Y) l,
  (forall x, In x l -> f x <> None) -> exists ys, traverse f l = Some ys.
Proof.
  induction l as [|x r IH]; intros H; simpl.
  - eauto.
  - destruct (f x) eqn:Ef; [|exfalso; eapply H; [now left | exact Ef]].
    destruct IH as [ys Hy]; [intros; apply H; now right|]. rewrite Hy. eauto.
Qed.

Lemma traverse_none : forall X Y (f : X -> option Y) l x,
  In x l -> f x = None -> traverse f l = None.
Proof.
  induction l as [|y r IH]; intros x HI Hx; simpl in *; [contradiction|].
  destruct HI as [HI|HI].
  - subst. now rewrite Hx.
  - destruct (f y); [|reflexivity]. now rewrite (IH x HI Hx).
Qed.

(* ------------------------------------------------------------------ get_unique_indexes *)
Section UniqP.
  Variable A : Type.
  Variable eqb : A -> A -> bool.
  Hypothesis eqb_spec : forall x y, eqb x y = true <-> x = y.

  Let erefl := keqb_refl A eqb eqb_spec.
  Let efalse := keqb_false A eqb eqb_spec.

  Definition neqb (x y : A) := negb (eqb x y).

  Lemma dedup_in : forall L k, In k (dedup eqb L) <-> In k L.
  Proof.
    induction L as [|x r IH]; intros k; simpl; [tauto|].
    rewrite filter_In, IH. split.
    - intros [H|[H _]]; auto.
    - intros [H|H]; auto. destruct (eqb x k) eqn:E.
      + apply eqb_spec in E. auto.
      + right. split; [assumption | reflexivity].
  Qed.

  Lemma NoDup_filter : forall (p : A -> bool) l, NoDup l -> NoDup (filter p l).
  Proof.
    induction l as [|x r IH]; intros ND; simpl; [constructor|].
    inversion ND; subst. destruct (p x); auto. constructor; auto.
    intros H. apply filter_In in H. tauto.
  Qed.

  Lemma dedup_nodup : forall L, NoDup (dedup eqb L).
  Proof.
    induction L as [|x r IH]; simpl; constructor.
    - intros H. apply filter_In in H. destruct H as [_ H]. rewrite erefl in H. discriminate.
    - now apply NoDup_filter.
  Qed.

  Lemma first_index_nth : forall L k, In k L -> nth_error L (first_index eqb k L) = Some k.
  Proof.
    induction L as [|x r IH]; intros k HI; simpl in *; [contradiction|].
    destruct (eqb k x) eqn:E.
    - apply eqb_spec in E. now subst.
    - simpl. apply IH. destruct HI as [HI|HI]; [|assumption]. subst. rewrite erefl in E. discriminate.
  Qed.

  Lemma first_index_least : forall L k j, j < first_index eqb k L -> nth_error L j <> Some k.
  Proof.
    induction L as [|x r IH]; intros k j Hj; simpl in *; [lia|].
    destruct (eqb k x) eqn:E; [lia|]. destruct j; simpl.
    - intros H. inversion H; subst. rewrite erefl in E. discriminate.
    - apply IH. lia.
  Qed.

  Lemma first_index_lt : forall L k, In k L -> first_index eqb k L < length L.
  Proof.
    intros L k H. apply nth_error_Some. rewrite first_index_nth by assumption. discriminate.
  Qed.

  (* the shared shape of both loops: insert val -> i when P val and val not yet a key *)
  Definition cond_step (P : A -> bool) (d : list (A * nat)) (iv : nat * A) : list (A * nat) :=
    if P (snd iv) && negb (dmem eqb (snd iv) d) then dset eqb (snd iv) (fst iv) d else d.

  Definition fresh (P : A -> bool) (d : list (A * nat)) (k : A) : bool := P k && negb (dmem eqb k d).

  Lemma filter_filter_comm : forall (p q : A -> bool) l, filter p (filter q l) = filter q (filter p l).
  Proof.
    induction l as [|x r IH]; simpl; [reflexivity|].
    destruct (q x) eqn:Eq, (p x) eqn:Ep; simpl; rewrite ?Eq, ?Ep, ?IH; reflexivity.
  Qed.

  Lemma filter_ext_in' : forall (p q : A -> bool) l, (forall x, In x l -> p x = q x) -> filter p l = filter q l.
  Proof.
    induction l as [|x r IH]; intros H; simpl; [reflexivity|].
    rewrite (H x) by now left. rewrite IH; [reflexivity|]. intros; apply H; now right.
  Qed.

  Lemma filter_and : forall (p q : A -> bool) l, filter (fun x => p x && q x) l = filter p (filter q l).
  Proof.
    induction l as [|x r IH]; simpl; [reflexivity|].
    destruct (q x) eqn:Eq, (p x) eqn:Ep; simpl; rewrite ?Ep, ?IH; reflexivity.
  Qed.

  Lemma cond_fold_spec : forall (P : A -> bool) L s d,
    fold_left (cond_step P) (combine (seq s (length L)) L) d
    = d ++ map (fun k => (k, s + first_index eqb k L)) (filter (fresh P d) (dedup eqb L)).
  Proof.
    intros P. induction L as [|x r IH]; intros s d; simpl.
    - now rewrite app_nil_r.
    - unfold cond_step at 2. simpl fst; simpl snd.
      destruct (P x && negb (dmem eqb x d)) eqn:C.
      + (* x is inserted *)
        apply andb_true_iff in C. destruct C as [CP CM]. apply negb_true_iff in CM.
        assert (Hg : dget eqb x d = None) by (unfold dmem in CM; destruct (dget eqb x d); [discriminate | reflexivity]).
        rewrite dset_new by assumption.
        rewrite IH. rewrite <- app_assoc. f_equal.
        unfold fresh at 2. rewrite CP, CM. simpl. rewrite erefl. rewrite Nat.add_0_r. f_equal.
        rewrite filter_filter_comm.
        assert (E1 : filter (fresh P (d ++ [(x, s)])) (dedup eqb r)
                     = filter (fun y => negb (eqb x y)) (filter (fresh P d) (dedup eqb r))).
        { rewrite <- filter_and. apply filter_ext_in'. intros y _. unfold fresh.
          unfold dmem. rewrite dget_app. simpl.
          destruct (dget eqb y d) eqn:Ey; simpl.
          - destruct (eqb x y), (P y); reflexivity.
          - destruct (eqb y x) eqn:Eyx.
            + apply eqb_spec in Eyx. subst. rewrite erefl. destruct (P x); reflexivity.
            + assert (eqb x y = false) as ->. { apply efalse. apply efalse in Eyx. congruence. }
              destruct (P y); reflexivity. }
        rewrite E1. apply map_ext_in. intros k Hk. apply filter_In in Hk. destruct Hk as [_ Hk].
        apply negb_true_iff in Hk. assert (eqb k x = false) as ->. { apply efalse. apply efalse in Hk. congruence. }
        f_equal. lia.
      + (* x is skipped *)
        rewrite IH. f_equal.
        assert (Hx : fresh P d x = false) by exact C.
        rewrite Hx.
        assert (E1 : filter (fresh P d) (filter (fun y => negb (eqb x y)) (dedup eqb r)) = filter (fresh P d) (dedup eqb r)).
        { rewrite <- filter_and. apply filter_ext_in'. intros y _.
          destruct (eqb x y) eqn:E; simpl.
          - apply eqb_spec in E. subst. now rewrite Hx.
          - now rewrite andb_true_r. }
        rewrite E1. apply map_ext_in. intros k Hk. apply filter_In in Hk. destruct Hk as [_ Hk].
        destruct (eqb k x) eqn:E.
        * apply eqb_spec in E. subst. rewrite Hx in Hk. discriminate.
        * f_equal. lia.
  Qed.

  Lemma gui_step_cond : forall d iv, gui_step eqb d iv = cond_step (fun _ => true) d iv.
  Proof. intros d iv. unfold gui_step, cond_step. simpl. now destruct (dmem eqb (snd iv) d). Qed.

  Lemma fold_left_ext : forall X Y (f g : X -> Y -> X) l x, (forall a b, f a b = g a b) -> fold_left f l x = fold_left g l x.
  Proof. induction l as [|y r IH]; intros x H; simpl; [reflexivity|]. rewrite H. now apply IH. Qed.

  (* get_unique_indexes: the OrderedDict holds the distinct values in order of first
     appearance, each with the index of its first occurrence *)
  Theorem gui_result_spec : forall L,
    gui_result eqb L = map (fun k => (k, first_index eqb k L)) (dedup eqb L).
  Proof.
    intros L. unfold gui_result, enumerate.
    rewrite (fold_left_ext _ _ (gui_step eqb) (cond_step (fun _ => true))) by apply gui_step_cond.
    rewrite cond_fold_spec. simpl. f_equal.
    assert (E : filter (fresh (fun _ => true) []) (dedup eqb L) = dedup eqb L).
    { induction (dedup eqb L) as [|y r IHr]; simpl; [reflexivity | now rewrite IHr]. }
    now rewrite E.
  Qed.

  Lemma uniq_keys_spec : forall L, uniq_keys eqb L = dedup eqb L.
  Proof.
    intros L. unfold uniq_keys. rewrite gui_result_spec, map_map. simpl. apply map_id.
  Qed.

  Lemma uniq_vals_spec : forall L, uniq_vals eqb L = map (fun k => first_index eqb k L) (dedup eqb L).
  Proof. intros L. unfold uniq_vals. rewrite gui_result_spec, map_map. reflexivity. Qed.

  Theorem uniq_keys_nodup : forall L, NoDup (uniq_keys eqb L).
  Proof. intros L. rewrite uniq_keys_spec. apply dedup_nodup. Qed.

  Theorem uniq_keys_in : forall L k, In k (uniq_keys eqb L) <-> In k L.
  Proof. intros L k. rewrite uniq_keys_spec. apply dedup_in. Qed.

  Lemma gui_match_spec : forall L, gui_match eqb L = combine (uniq_keys eqb L) (seq 0 (length (uniq_keys eqb L))).
  Proof.
    intros L. unfold gui_match, enumerate.
    rewrite (enum_fold_dset A eqb eqb_spec); [reflexivity|]. simpl. apply uniq_keys_nodup.
  Qed.

  Lemma gui_match_get : forall L k m,
    dget eqb k (gui_match eqb L) = Some m <-> nth_error (uniq_keys eqb L) m = Some k.
  Proof.
    intros L k m. rewrite gui_match_spec.
    rewrite (dget_combine_seq A eqb eqb_spec) by apply uniq_keys_nodup.
    rewrite Nat.sub_0_r. split; [tauto | intros; split; [lia | assumption]].
  Qed.

  (* uniq_spec: every element of L is a key of `match`, and the unique list holds it at that position *)
  Theorem uniq_spec : forall L f, In f L ->
    exists m, dget eqb f (gui_match eqb L) = Some m /\ nth_error (uniq_keys eqb L) m = Some f /\ m < length (uniq_keys eqb L).
  Proof.
    intros L f HI. rewrite <- uniq_keys_in in HI. apply In_nth_error in HI. destruct HI as [m Hm].
    exists m. split; [now apply gui_match_get|]. split; [assumption|].
    apply nth_error_Some. rewrite Hm. discriminate.
  Qed.

  (* order of first occurrence: the recorded first indices are strictly increasing along the unique list,
     each is the least index holding its key *)
  Lemma first_index_filter_mono : forall L, StronglySorted lt (map (fun k => first_index eqb k L) (dedup eqb L)).
  Proof.
    induction L as [|x r IH]; simpl; [constructor|].
    rewrite erefl. constructor.
    - assert (E : map (fun k => if eqb k x then 0 else S (first_index eqb k r)) (filter (fun y => negb (eqb x y)) (dedup eqb r))
                  = map S (map (fun k => first_index eqb k r) (filter (fun y => negb (eqb x y)) (dedup eqb r)))).
      { rewrite map_map. apply map_ext_in. intros k Hk. apply filter_In in Hk. destruct Hk as [_ Hk].
        apply negb_true_iff in Hk. assert (eqb k x = false) as ->; [|reflexivity].
        apply efalse. apply efalse in Hk. congruence. }
      rewrite E. clear E.
      assert (G : forall l, StronglySorted lt (map (fun k => first_index eqb k r) l) ->
                  StronglySorted lt (map S (map (fun k => first_index eqb k r) (filter (fun y => negb (eqb x y)) l)))).
      { induction l as [|y l' IHl]; intros HS; simpl; [constructor|].
        inversion HS as [|? ? HS' HF]; subst.
        destruct (negb (eqb x y)); simpl; [|now apply IHl].
        constructor; [now apply IHl|].
        rewrite Forall_forall in *. intros z Hz. rewrite map_map in Hz. apply in_map_iff in Hz.
        destruct Hz as [w [Hw1 Hw2]]. subst. apply filter_In in Hw2. destruct Hw2 as [Hw2 _].
        apply -> Nat.succ_lt_mono. apply HF. apply in_map_iff. eauto. }
      now apply G.
    - rewrite Forall_forall. intros z Hz. apply in_map_iff in Hz. destruct Hz as [w [Hw1 Hw2]]. subst.
      apply filter_In in Hw2. destruct Hw2 as [_ Hw2]. apply negb_true_iff in Hw2.
      assert (eqb w x = false) as ->; [|lia]. apply efalse. apply efalse in Hw2. congruence.
  Qed.

  Theorem uniq_order : forall L,
    StronglySorted lt (uniq_vals eqb L) /\
    (forall m k, nth_error (uniq_keys eqb L) m = Some k ->
       exists v, nth_error (uniq_vals eqb L) m = Some v /\ nth_error L v = Some k /\ forall j, j < v -> nth_error L j <> Some k).
  Proof.
    intros L. split.
    - rewrite uniq_vals_spec. apply first_index_filter_mono.
    - intros m k Hm. rewrite uniq_vals_spec. rewrite uniq_keys_spec in Hm.
      exists (first_index eqb k L). split; [exact (map_nth_error (fun k => first_index eqb k L) m (dedup eqb L) Hm)|].
      assert (In k L) by (apply dedup_in; eapply nth_error_In; eauto).
      split; [now apply first_index_nth | intros j; apply first_index_least].
  Qed.

  (* ---------------------------------------------------------------- get_match_indexes *)
  Lemma gmi_result_spec : forall a b,
    gmi_result eqb a b = map (fun k => (k, first_index eqb k a)) (filter (fun k => lmem eqb k b) (dedup eqb a)).
  Proof.
    intros a b. unfold gmi_result, enumerate.
    rewrite (fold_left_ext _ _ (gmi_step eqb b) (cond_step (fun k => lmem eqb k b))) by reflexivity.
    rewrite cond_fold_spec. simpl. f_equal. apply filter_ext_in'. intros x _. unfold fresh. simpl. now rewrite andb_true_r.
  Qed.

  Theorem get_match_indexes_spec : forall a b,
    (forall f, In f b -> In f a) ->
    get_match_indexes eqb a b = Some (map (fun f => first_index eqb f a) b).
  Proof.
    intros a b Hsub. unfold get_match_indexes.
    assert (G : forall f, In f b -> dget eqb f (gmi_result eqb a b) = Some (first_index eqb f a)).
    { intros f Hf. apply (dget_in_nodup A eqb eqb_spec).
      - rewrite gmi_result_spec, map_map. simpl. rewrite map_id. apply NoDup_filter. apply dedup_nodup.
      - rewrite gmi_result_spec. apply in_map_iff. exists f. split; [reflexivity|].
        apply filter_In. split; [apply dedup_in; auto | now apply (lmem_true_iff A eqb eqb_spec)]. }
    revert G. generalize (gmi_result eqb a b). intros d. clear Hsub.
    induction b as [|f r IH]; intros G; simpl; [reflexivity|].
    rewrite G by now left. rewrite IH; [reflexivity|]. intros; apply G; now right.
  Qed.

  Theorem get_match_indexes_first : forall a b r,
    get_match_indexes eqb a b = Some r ->
    length r = length b /\
    forall k f, nth_error b k = Some f ->
      exists v, nth_error r k = Some v /\ nth_error a v = Some f /\ forall j, j < v -> nth_error a j <> Some f.
  Proof.
    intros a b r H. unfold get_match_indexes in H. apply traverse_some in H. destruct H as [HL HN].
    split; [assumption|]. intros k f Hk. destruct (HN k f Hk) as [v [Hv1 Hv2]].
    exists v. split; [assumption|]. apply (dget_some_in A eqb eqb_spec) in Hv1.
    rewrite gmi_result_spec in Hv1. apply in_map_iff in Hv1. destruct Hv1 as [w [Hw1 Hw2]].
    inversion Hw1; subst. apply filter_In in Hw2. destruct Hw2 as [Hw2 _]. rewrite dedup_in in Hw2.
    split; [now apply first_index_nth | intros j; apply first_index_least].
  Qed.

  Theorem get_match_indexes_keyerror : forall a b f, In f b -> ~ In f a -> get_match_indexes eqb a b = None.
  Proof.
    intros a b f Hb Ha. unfold get_match_indexes. apply traverse_none with (x := f); [assumption|].
    apply (dget_none_iff A eqb eqb_spec). rewrite gmi_result_spec, map_map. simpl. rewrite map_id.
    intros H. apply filter_In in H. destruct H as [H _]. rewrite dedup_in in H. contradiction.
  Qed.

  (* ---------------------------------------------------------------- shuffle + remap *)
  Lemma shuffle_inv_spec : forall i, NoDup i -> shuffle_inv i = combine i (seq 0 (length i)).
  Proof.
    intros i ND. unfold shuffle_inv, enumerate.
    rewrite (enum_fold_dset nat Nat.eqb Nat.eqb_eq); [reflexivity | exact ND].
  Qed.

  Theorem shuffle_remap : forall (L : list A) (i : list nat),
    Permutation i (seq 0 (length (uniq_keys eqb L))) ->
    exists uniq' midx,
      shuffle_uniq (uniq_keys eqb L) i = Some uniq' /\
      shuffle_match eqb (gui_match eqb L) i L = Some midx /\
      length midx = length L /\
      length uniq' = length (uniq_keys eqb L) /\
      (forall k f, nth_error L k = Some f -> exists q, nth_error midx k = Some q /\ nth_error uniq' q = Some f) /\
      NoDup uniq' /\ Permutation uniq' (uniq_keys eqb L).
  Proof.
    intros L i HP. set (U := uniq_keys eqb L) in *.
    assert (NDi : NoDup i). { apply Permutation_sym in HP. eapply Permutation_NoDup; [exact HP | apply seq_NoDup]. }
    assert (Hin : forall m, In m i <-> m < length U).
    { intros m. split; intros H.
      - apply (Permutation_in _ HP) in H. apply in_seq in H. lia.
      - apply Permutation_sym in HP. apply (Permutation_in _ HP). apply in_seq. lia. }
    assert (Hlen : length i = length U) by (apply Permutation_length in HP; now rewrite seq_length in HP).
    destruct (traverse_total _ _ (fun ii => nth_error U ii) i) as [uniq' Hu].
    { intros x Hx. apply nth_error_Some. now apply Hin. }
    destruct (traverse_total _ _ (fun f => match dget eqb f (gui_match eqb L) with
                                           | None => None | Some m => dget Nat.eqb m (shuffle_inv i) end) L) as [midx Hm].
    { intros f Hf. destruct (uniq_spec L f Hf) as [m [Hm1 [Hm2 Hm3]]]. rewrite Hm1.
      intros Hn. apply (dget_none_iff nat Nat.eqb Nat.eqb_eq) in Hn. apply Hn.
      rewrite shuffle_inv_spec by assumption. rewrite map_fst_combine by (now rewrite seq_length). now apply Hin. }
    exists uniq', midx. unfold shuffle_uniq, shuffle_match. fold U. rewrite Hu, Hm.
    apply traverse_some in Hu. destruct Hu as [HuL HuN].
    apply traverse_some in Hm. destruct Hm as [HmL HmN].
    split; [reflexivity|]. split; [reflexivity|]. split; [assumption|]. split; [congruence|]. split.
    - intros k f Hk. destruct (HmN k f Hk) as [q [Hq1 Hq2]]. exists q. split; [assumption|].
      destruct (dget eqb f (gui_match eqb L)) as [m|] eqn:Em; [|discriminate].
      apply gui_match_get in Em. fold U in Em.
      rewrite shuffle_inv_spec in Hq1 by assumption.
      apply (dget_combine_seq nat Nat.eqb Nat.eqb_eq) in Hq1; [|assumption].
      destruct Hq1 as [_ Hq1]. rewrite Nat.sub_0_r in Hq1.
      destruct (HuN q m Hq1) as [y [Hy1 Hy2]]. congruence.
    - assert (HPu : Permutation uniq' U).
      { (* uniq' = map (nth U) i and i is a permutation of the index range *)
        assert (E : forall d, uniq' = map (fun ii => nth ii U d) i).
        { intros d. apply nth_ext with (d := d) (d' := d); [now rewrite map_length|].
          intros n Hn. rewrite HuL in Hn.
          destruct (nth_error i n) as [m|] eqn:En; [|apply nth_error_None in En; lia].
          destruct (HuN n m En) as [y [Hy1 Hy2]].
          rewrite (nth_error_nth _ _ _ Hy2).
          rewrite (nth_error_nth _ _ d (map_nth_error (fun ii => nth ii U d) _ _ En)).
          symmetry. now apply nth_error_nth. }
        destruct U as [|u0 U'] eqn:EU.
        - destruct i; [|simpl in Hlen; discriminate]. destruct uniq'; [constructor | simpl in HuL; discriminate].
        - rewrite (E u0). rewrite <- EU in *.
          eapply Permutation_trans; [apply Permutation_map; exact HP|].
          rewrite <- (map_nth_seq_id _ U u0) at 2. apply Permutation_refl. }
      split; [|assumption]. apply Permutation_sym in HPu. eapply Permutation_NoDup; [exact HPu | apply uniq_keys_nodup].
  Qed.
End UniqP.
