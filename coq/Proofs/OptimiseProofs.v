(* C10 -- proofs about Model/Optimise.v (optimise_fun's bookkeeping), for every oracle,
   every start stream and every configuration. *)
From Coq Require Import ZArith List Bool Lia Arith.
From ESRV Require Import Common.XZ Model.Optimise.
Import ListNotations.
Open Scope Z_scope.

(* ---------------------------------------------------------------- order on xz *)
Definition nn (a : xz) : Prop := isnan a = false.

Ltac xz_crush :=
  repeat match goal with
         | a : xz |- _ => destruct a
         end;
  unfold nn, xleb, xle, xlt in *; simpl in *;
  try discriminate; try reflexivity; try tauto;
  repeat rewrite ?Bool.orb_true_iff, ?Bool.orb_false_iff, ?Z.ltb_lt, ?Z.ltb_ge, ?Z.eqb_eq, ?Z.eqb_neq in *;
  try (intuition (try discriminate; try lia; try (f_equal; lia))).

Lemma xleb_refl : forall a, nn a -> xleb a a = true.
Proof. intros a H. xz_crush. Qed.
Lemma xltb_xleb : forall a b, xltb a b = true -> xleb a b = true.
Proof. intros a b H. unfold xleb. rewrite H. reflexivity. Qed.
Lemma xltb_false_xleb : forall a b, nn a -> nn b -> xltb a b = false -> xleb b a = true.
Proof. intros a b Ha Hb H. xz_crush. Qed.
Lemma xleb_trans : forall a b c, xleb a b = true -> xleb b c = true -> xleb a c = true.
Proof. intros a b c H1 H2. xz_crush. Qed.
Lemma xleb_antisym : forall a b, xleb a b = true -> xleb b a = true -> a = b.
Proof. intros a b H1 H2. xz_crush. Qed.
Lemma xltb_nn : forall a b, xltb a b = true -> nn a /\ nn b.
Proof. intros a b H. xz_crush. Qed.
Lemma xltb_lt_pinf : forall a b, xltb a b = true -> xltb a PInf = true.
Proof. intros a b H. xz_crush. Qed.
Lemma xleb_nn : forall a b, xleb a b = true -> nn a /\ nn b.
Proof. intros a b H. xz_crush. Qed.
Lemma xleb_xltb_false : forall a b, xleb a b = true -> xltb b a = false.
Proof. intros a b H. xz_crush. Qed.

(* ---------------------------------------------------------------- np.argmin *)
Lemma argmin_from_spec : forall l i bi b,
  nn b -> (forall a, In a l -> nn a) ->
  (argmin_from i bi b l = bi /\ forall a, In a l -> xleb b a = true) \/
  (exists k a, argmin_from i bi b l = (i + k)%nat /\ nth_error l k = Some a /\ xleb a b = true /\
               forall a', In a' l -> xleb a a' = true).
Proof.
  induction l as [|a r IH]; intros i bi b Hb Hl; simpl.
  - left. split; [reflexivity | intros a []].
  - assert (Ha : nn a) by (apply Hl; left; reflexivity).
    assert (Hr : forall a', In a' r -> nn a') by (intros; apply Hl; right; assumption).
    unfold nn in Ha. rewrite Ha.
    destruct (xltb a b) eqn:Hab.
    + destruct (IH (S i) i a Ha Hr) as [[E Hall] | [k [a' [E [Hn [Hle Hall]]]]]].
      * right. exists 0%nat, a. rewrite E. repeat split.
        -- lia.
        -- apply xltb_xleb; assumption.
        -- intros a' [<- | Hin]; [apply xleb_refl; assumption | apply Hall; assumption].
      * right. exists (S k), a'. rewrite E. repeat split.
        -- lia.
        -- assumption.
        -- eapply xleb_trans; [eassumption | apply xltb_xleb; assumption].
        -- intros a'' [<- | Hin]; [assumption | apply Hall; assumption].
    + assert (Hba : xleb b a = true) by (apply xltb_false_xleb; assumption).
      destruct (IH (S i) bi b Hb Hr) as [[E Hall] | [k [a' [E [Hn [Hle Hall]]]]]].
      * left. split; [assumption|]. intros a' [<- | Hin]; [assumption | apply Hall; assumption].
      * right. exists (S k), a'. rewrite E. repeat split.
        -- lia.
        -- assumption.
        -- assumption.
        -- intros a'' [<- | Hin]; [eapply xleb_trans; eassumption | apply Hall; assumption].
Qed.

Lemma np_argmin_spec : forall l, l <> [] -> (forall a, In a l -> nn a) ->
  exists a, nth_error l (np_argmin l) = Some a /\ forall a', In a' l -> xleb a a' = true.
Proof.
  intros [|a r] Hne Hl; [congruence|]. unfold np_argmin.
  assert (Ha : nn a) by (apply Hl; left; reflexivity).
  assert (Hr : forall a', In a' r -> nn a') by (intros; apply Hl; right; assumption).
  unfold nn in Ha. rewrite Ha.
  destruct (argmin_from_spec r 1 0 a Ha Hr) as [[E Hall] | [k [a' [E [Hn [Hle Hall]]]]]].
  - rewrite E. exists a. split; [reflexivity|].
    intros a' [<- | Hin]; [apply xleb_refl; assumption | apply Hall; assumption].
  - rewrite E. exists a'. split; [simpl; assumption|].
    intros a'' [<- | Hin]; [assumption | apply Hall; assumption].
Qed.

(* ---------------------------------------------------------------- the branch table *)
Lemma branches_cover : forall md n (p : list bool),
  (md = MLog1 /\ n = 1%nat) \/ (md = MLog2 /\ n = 2%nat) ->
  length p = n -> In (signs_of p, p) (branches md).
Proof.
  intros md n p [[-> ->] | [-> ->]] Hp.
  - destruct p as [|[|] [|]]; try discriminate; simpl; tauto.
  - destruct p as [|[|] [|[|] [|]]]; try discriminate; simpl; tauto.
Qed.

Lemma all_patterns_complete : forall n p, length p = n -> In p (all_patterns n).
Proof.
  induction n; intros p Hp.
  - destruct p; [left; reflexivity | discriminate].
  - destruct p as [|b r]; [discriminate|]. simpl in *. injection Hp as Hp.
    apply in_or_app. destruct b; [right | left]; apply in_map; apply IHn; assumption.
Qed.

(* decoding with the signs of a branch is the back-transformation with that branch's mult_arr *)
Lemma branch_decode : forall md sg m x,
  In (sg, m) (branches md) ->
  length x = (match md with MLin => length x | MLog1 => 1 | MLog2 => 2 end)%nat ->
  decode sg x = if flag_three md then map Lin x else pow_params x m.
Proof.
  intros md sg m x Hin Hlen. destruct md; simpl in *.
  - destruct Hin as [E | []]. inversion E; subst. reflexivity.
  - destruct x as [|x0 [|]]; try discriminate.
    destruct Hin as [E | [E | []]]; inversion E; subst; reflexivity.
  - destruct x as [|x0 [|x1 [|]]]; try discriminate.
    destruct Hin as [E | [E | [E | [E | []]]]]; inversion E; subst; reflexivity.
Qed.

Lemma mode_of_nparam : forall n lo,
  (1 <= n)%nat ->
  match mode_of n lo with MLin => True | MLog1 => n = 1%nat | MLog2 => n = 2%nat end.
Proof.
  intros n lo Hn. unfold mode_of.
  destruct (2 <? n)%nat eqn:E1; [exact I|].
  destruct (n =? 2)%nat eqn:E2.
  - apply Nat.eqb_eq in E2. destruct lo; [assumption | exact I].
  - apply Nat.ltb_ge in E1. apply Nat.eqb_neq in E2. destruct lo; [lia | exact I].
Qed.

Lemma count_from_le : forall has j, (count_from j has <= j + length has)%nat.
Proof.
  induction has as [|h r IH]; intros j; simpl; [lia|].
  specialize (IH (S j)).
  destruct (0 <? count_from (S j) r)%nat; [lia|]. destruct h; lia.
Qed.
Lemma count_params_le : forall has mp, (count_params has mp <= mp)%nat.
Proof.
  intros. unfold count_params. pose proof (count_from_le (firstn mp has) 0).
  pose proof (firstn_le_length mp has). lia.
Qed.

Section Proofs.
Variable chi2 : list par -> xz.
Variable oracle : nat -> list Z -> option (list sgn) -> answer.
Variable rnd : nat -> Z.

(* ---------------------------------------------------------------- call_all *)
Lemma call_all_length : forall brs k st rs,
  call_all oracle k st brs = (rs, None) -> length rs = length brs.
Proof.
  induction brs as [|b r IH]; intros k st rs H; simpl in H.
  - inversion H. reflexivity.
  - destruct (oracle k st b) eqn:Ho; [|discriminate].
    destruct (call_all oracle (S k) st r) as [l e] eqn:Hc. inversion H; subst.
    simpl. f_equal. eapply IH. eassumption.
Qed.

Lemma call_all_nth : forall brs k st rs i r,
  call_all oracle k st brs = (rs, None) -> nth_error rs i = Some r ->
  exists sg, nth_error brs i = Some sg /\ oracle (k + i)%nat st sg = Res (r_x r) (r_f r) (r_ok r).
Proof.
  induction brs as [|b br IH]; intros k st rs i r H Hn; simpl in H.
  - inversion H; subst. destruct i; discriminate.
  - destruct (oracle k st b) eqn:Ho; [|discriminate].
    destruct (call_all oracle (S k) st br) as [l e] eqn:Hc. inversion H; subst.
    destruct i as [|i]; simpl in Hn.
    + inversion Hn; subst. exists b. simpl. rewrite Nat.add_0_r. split; [reflexivity | assumption].
    + destruct (IH (S k) st l i r Hc Hn) as [sg [H1 H2]]. exists sg. split; [assumption|].
      replace (k + S i)%nat with (S k + i)%nat by lia. assumption.
Qed.

Lemma call_all_nth_br : forall brs k st rs i sg,
  call_all oracle k st brs = (rs, None) -> nth_error brs i = Some sg ->
  exists r, nth_error rs i = Some r /\ oracle (k + i)%nat st sg = Res (r_x r) (r_f r) (r_ok r).
Proof.
  intros brs k st rs i sg H Hn.
  pose proof (call_all_length _ _ _ _ H) as Hl.
  assert (Hi : (i < length rs)%nat) by (rewrite Hl; apply nth_error_Some; congruence).
  destruct (nth_error rs i) as [r|] eqn:Hr; [|apply nth_error_None in Hr; lia].
  exists r. split; [reflexivity|].
  destruct (call_all_nth _ _ _ _ _ _ H Hr) as [sg' [H1 H2]]. congruence.
Qed.

(* a raised exception comes from the oracle *)
Lemma call_all_exc : forall brs k st rs e,
  call_all oracle k st brs = (rs, Some e) ->
  exists i sg, nth_error brs i = Some sg /\ oracle (k + i)%nat st sg = Raise e /\ i = length rs.
Proof.
  induction brs as [|b br IH]; intros k st rs e H; simpl in H.
  - discriminate.
  - destruct (oracle k st b) eqn:Ho.
    + destruct (call_all oracle (S k) st br) as [l e'] eqn:Hc. inversion H; subst.
      destruct (IH _ _ _ _ Hc) as [i [sg [H1 [H2 H3]]]].
      exists (S i), sg. simpl. replace (k + S i)%nat with (S k + i)%nat by lia. auto.
    + inversion H; subst. exists 0%nat, b. simpl. rewrite Nat.add_0_r. auto.
Qed.

(* ---------------------------------------------------------------- select *)
Lemma select_some : forall md rs, length rs = length (branches md) -> exists i, select md rs = Some i.
Proof.
  intros md rs H. destruct md; simpl in H.
  - destruct rs as [|a [|]]; try discriminate. eexists; reflexivity.
  - destruct rs as [|a [|b [|]]]; try discriminate. eexists; reflexivity.
  - destruct rs as [|a [|b [|c [|d [|]]]]]; try discriminate. eexists; reflexivity.
Qed.

Lemma select_min : forall md rs i,
  select md rs = Some i -> (forall r, In r rs -> nn (r_f r)) ->
  exists r, nth_error rs i = Some r /\ forall r', In r' rs -> xleb (r_f r) (r_f r') = true.
Proof.
  intros md rs i H Hnn. destruct md; simpl in H.
  - destruct rs as [|a [|]]; try discriminate. inversion H; subst. exists a. split; [reflexivity|].
    intros r' [<- | []]. apply xleb_refl. apply Hnn. left; reflexivity.
  - destruct rs as [|a [|b [|]]]; try discriminate. inversion H; subst; clear H.
    assert (Ha : nn (r_f a)) by (apply Hnn; simpl; auto).
    assert (Hb : nn (r_f b)) by (apply Hnn; simpl; auto).
    destruct (xltb (r_f a) (r_f b)) eqn:E1.
    + exists a. split; [reflexivity|]. intros r' [<- | [<- | []]];
        [apply xleb_refl; assumption | apply xltb_xleb; assumption].
    + destruct (xltb (r_f b) (r_f a)) eqn:E2.
      * exists b. split; [reflexivity|]. intros r' [<- | [<- | []]];
          [apply xltb_xleb; assumption | apply xleb_refl; assumption].
      * exists a. split; [reflexivity|]. intros r' [<- | [<- | []]];
          [apply xleb_refl; assumption | apply xltb_false_xleb; assumption].
  - destruct rs as [|a [|b [|c [|d [|]]]]]; try discriminate. inversion H; subst; clear H.
    set (rs := [a; b; c; d]) in *.
    destruct (np_argmin_spec (map r_f rs)) as [v [Hn Hall]].
    + discriminate.
    + intros v Hv. apply in_map_iff in Hv. destruct Hv as [r [<- Hr]]. apply Hnn; assumption.
    + rewrite nth_error_map in Hn. destruct (nth_error rs (np_argmin (map r_f rs))) as [r|] eqn:Hr; [|discriminate].
      simpl in Hn. inversion Hn; subst. exists r. split; [exact Hr|].
      intros r' Hr'. apply Hall. apply in_map. assumption.
Qed.

Lemma select_lt : forall md rs i, select md rs = Some i -> (i < length rs)%nat /\ length rs = length (branches md).
Proof.
  intros md rs i H. destruct md; simpl in H.
  - destruct rs as [|a [|]]; try discriminate. inversion H; subst. simpl. lia.
  - destruct rs as [|a [|b [|]]]; try discriminate. inversion H; subst. simpl.
    destruct (xltb (r_f a) (r_f b)); [lia|]. destruct (xltb (r_f b) (r_f a)); lia.
  - destruct rs as [|a [|b [|c [|d [|]]]]]; try discriminate. inversion H; subst. simpl. split; [|reflexivity].
    (* np_argmin of four values is < 4 *)
    unfold np_argmin. simpl.
    repeat match goal with |- context [if ?c then _ else _] => destruct c end; lia.
Qed.

Section LoopProofs.
Variable md : mode.
Variable nd : nat.
Variable ts : bool.
Variable Nconv : Z.

Notation SEL := (sel oracle rnd md nd).
Notation ITER := (iter_calls oracle rnd md nd).
Notation LOOP := (loop oracle rnd md nd ts Nconv).
Notation ACC := (accepted ts).

Lemma sel_total : forall j rs, ITER j = (rs, None) -> exists r m, SEL j = Some (r, m).
Proof.
  intros j rs H. unfold sel. rewrite H.
  pose proof (call_all_length _ _ _ _ H) as Hl. rewrite map_length in Hl.
  destruct (select_some md rs Hl) as [i Hi]. rewrite Hi.
  destruct (select_lt _ _ _ Hi) as [Hlt Hlen].
  destruct (nth_error rs i) as [r|] eqn:Hr; [|apply nth_error_None in Hr; lia].
  destruct (nth_error (branches md) i) as [b|] eqn:Hb; [|apply nth_error_None in Hb; lia].
  eauto.
Qed.

(* the chosen result is the answer of one of this iteration's oracle calls, made with the signs
   that belong to the recorded mult_arr *)
Lemma sel_sound : forall j r m, SEL j = Some (r, m) ->
  exists i sg, nth_error (branches md) i = Some (sg, m) /\
               oracle (j * nb md + i)%nat (start_of rnd nd j) sg = Res (r_x r) (r_f r) (r_ok r) /\
               snd (ITER j) = None.
Proof.
  intros j r m H. unfold sel in H.
  destruct (ITER j) as [rs e] eqn:Hc. destruct e; [discriminate|].
  destruct (select md rs) as [i|] eqn:Hs; [|discriminate].
  destruct (nth_error rs i) as [r'|] eqn:Hr; [|discriminate].
  destruct (nth_error (branches md) i) as [[sg m']|] eqn:Hb; [|discriminate].
  inversion H; subst. exists i, sg. split; [exact Hb|]. split; [|reflexivity].
  unfold iter_calls in Hc.
  destruct (call_all_nth _ _ _ _ _ _ Hc Hr) as [sg' [H1 H2]].
  rewrite nth_error_map, Hb in H1. simpl in H1. inversion H1; subst. assumption.
Qed.

Lemma sel_min : forall j rs r m,
  ITER j = (rs, None) -> (forall r', In r' rs -> nn (r_f r')) -> SEL j = Some (r, m) ->
  forall r', In r' rs -> xleb (r_f r) (r_f r') = true.
Proof.
  intros j rs r m Hc Hnn H. unfold sel in H. rewrite Hc in H.
  destruct (select md rs) as [i|] eqn:Hs; [|discriminate].
  destruct (select_min _ _ _ Hs Hnn) as [r0 [Hr0 Hall]].
  rewrite Hr0 in H. destruct (nth_error (branches md) i); [|discriminate].
  inversion H; subst. assumption.
Qed.

(* ---------------------------------------------------------------- one update *)
Lemma update_cases : forall s r m,
  (exists s', update Nconv s r m = Break s' StopInf /\ s_min s' = s_min s /\ s_best s' = s_best s /\
              s_inf s' = 50 /\ isinf (s_min s') = true) \/
  (exists s', (update Nconv s r m = Cont s' \/ (update Nconv s r m = Break s' StopConv /\ s_cl s' = Nconv)) /\
              s_min s' = (if xltb (r_f r) (s_min s) then r_f r else s_min s) /\
              s_best s' = (if xltb (r_f r) (s_min s) then Some (r_x r, m) else s_best s)).
Proof.
  intros s r m. unfold update.
  set (ic := if isinf (r_f r) then s_inf s + 1 else s_inf s).
  destruct ((ic =? 50) && isinf (s_min s)) eqn:E.
  - left. apply andb_true_iff in E. destruct E as [E1 E2]. apply Z.eqb_eq in E1.
    eexists. split; [reflexivity|]. simpl. auto.
  - right.
    set (d := xsub (r_f r) (s_min s)).
    set (cl1 := if xltb d (Fin (- thr_reset)) then 0 else s_cl s).
    set (cl2 := if xltb (xabs d) (Fin thr_conv) then cl1 + 1 else cl1).
    destruct (xltb (r_f r) (s_min s)) eqn:Elt.
    + destruct (cl2 =? Nconv) eqn:Ec.
      * eexists. split; [right; split; [reflexivity|]|]. simpl. apply Z.eqb_eq; assumption. simpl. auto.
      * eexists. split; [left; reflexivity|]. simpl. auto.
    + destruct (cl2 =? Nconv) eqn:Ec.
      * eexists. split; [right; split; [reflexivity|]|]. simpl. apply Z.eqb_eq; assumption. simpl. auto.
      * eexists. split; [left; reflexivity|]. simpl. auto.
Qed.

(* ---------------------------------------------------------------- the loop invariant *)
(* iterations 0 .. j-1 have been processed up to the best-update *)
Definition best_ok (j : nat) (s : st) : Prop :=
  (s_best s = None /\ s_min s = PInf) \/
  (exists i r m, (i < j)%nat /\ SEL i = Some (r, m) /\ ACC r = true /\
                 s_best s = Some (r_x r, m) /\ s_min s = r_f r /\ xltb (r_f r) PInf = true).
Definition lower_ok (j : nat) (s : st) : Prop :=
  forall i r m, (i < j)%nat -> SEL i = Some (r, m) -> ACC r = true -> nn (r_f r) -> xleb (s_min s) (r_f r) = true.
Definition Inv (j : nat) (s : st) : Prop := nn (s_min s) /\ best_ok j s /\ lower_ok j s.

Lemma Inv_st0 : Inv 0 st0.
Proof.
  split; [reflexivity|]. split; [left; split; reflexivity|]. intros i r m Hi. lia.
Qed.

Lemma Inv_ext : forall j s s', s_min s' = s_min s -> s_best s' = s_best s -> Inv j s -> Inv j s'.
Proof.
  intros j s s' Hm Hb [H1 [H2 H3]]. unfold Inv, best_ok, lower_ok in *. rewrite Hm, Hb. auto.
Qed.

Lemma Inv_skip : forall j s r m, SEL j = Some (r, m) -> ACC r = false -> Inv j s -> Inv (S j) s.
Proof.
  intros j s r m Hs Ha [H1 [H2 H3]]. split; [assumption|]. split.
  - destruct H2 as [H2 | [i [r' [m' [Hi H2]]]]]; [left; assumption|]. right. exists i, r', m'. split; [lia | assumption].
  - intros i r' m' Hi Hs' Ha' Hn. destruct (Nat.eq_dec i j) as [-> | Hne].
    + rewrite Hs in Hs'. inversion Hs'; subst. congruence.
    + apply (H3 i r' m'); try assumption. lia.
Qed.

Lemma Inv_step : forall j s s' r m,
  SEL j = Some (r, m) -> ACC r = true -> Inv j s ->
  s_min s' = (if xltb (r_f r) (s_min s) then r_f r else s_min s) ->
  s_best s' = (if xltb (r_f r) (s_min s) then Some (r_x r, m) else s_best s) ->
  Inv (S j) s'.
Proof.
  intros j s s' r m Hs Ha [H1 [H2 H3]] Hm Hb.
  destruct (xltb (r_f r) (s_min s)) eqn:Elt.
  - destruct (xltb_nn _ _ Elt) as [Hnf _].
    split; [rewrite Hm; assumption|]. split.
    + right. exists j, r, m. repeat split; try assumption; try lia. eapply xltb_lt_pinf; eassumption.
    + intros i r' m' Hi Hs' Ha' Hn. rewrite Hm. destruct (Nat.eq_dec i j) as [-> | Hne].
      * rewrite Hs in Hs'. inversion Hs'; subst. apply xleb_refl; assumption.
      * eapply xleb_trans; [apply xltb_xleb; eassumption|]. apply (H3 i r' m'); try assumption. lia.
  - split; [rewrite Hm; assumption|]. split.
    + destruct H2 as [[H2 H2'] | [i [r' [m' [Hi H2]]]]].
      * left. rewrite Hb, Hm. auto.
      * right. exists i, r', m'. rewrite Hb, Hm. split; [lia | assumption].
    + intros i r' m' Hi Hs' Ha' Hn. rewrite Hm. destruct (Nat.eq_dec i j) as [-> | Hne].
      * rewrite Hs in Hs'. inversion Hs'; subst. apply xltb_false_xleb; assumption.
      * apply (H3 i r' m'); try assumption. lia.
Qed.

(* iterations whose result went through the best-update when the loop ends *)
Definition nproc (jend : nat) (why : stop) : nat :=
  match why with StopCap | StopConv => jend | _ => (jend - 1)%nat end.
(* iterations all of whose oracle calls returned *)
Definition ncomplete (jend : nat) (why : stop) : nat :=
  match why with StopExc _ => (jend - 1)%nat | _ => jend end.

Lemma loop_spec : forall n j s jend s' why,
  Inv j s -> LOOP n j s = (jend, s', why) ->
  Inv (nproc jend why) s' /\
  (j <= jend <= j + n)%nat /\
  (why = StopCap -> jend = (j + n)%nat) /\
  (why <> StopCap -> (j < jend)%nat) /\
  (why = StopConv -> s_cl s' = Nconv) /\
  (why = StopInf -> s_inf s' = 50 /\ isinf (s_min s') = true) /\
  (forall e, why = StopExc e -> exists rs, ITER (jend - 1) = (rs, Some e)) /\
  (forall i, (j <= i < ncomplete jend why)%nat -> snd (ITER i) = None).
Proof.
  induction n as [|n IH]; intros j s jend s' why HI H; simpl in H.
  - inversion H; subst. simpl. rewrite Nat.add_0_r.
    split; [exact HI|].
    repeat split; try lia; try congruence; try discriminate.
  - destruct (ITER j) as [rs [e|]] eqn:Hc.
    + inversion H; subst. simpl. rewrite ?Nat.sub_0_r.
      split; [exact HI|].
      repeat split; try lia; try discriminate.
      intros e' He. inversion He; subst. eauto.
    + destruct (sel_total _ _ Hc) as [r [m Hs]]. rewrite Hs in H.
      destruct (ACC r) eqn:Ha.
      * destruct (update_cases s r m) as [[s1 [Hu [Hm [Hb [Hinf Hisinf]]]]] | [s1 [Hu [Hm Hb]]]].
        -- rewrite Hu in H. inversion H; subst. simpl. rewrite ?Nat.sub_0_r.
           split; [eapply Inv_ext; eassumption|].
           repeat split; try lia; try assumption; try discriminate.
           intros i Hi. assert (i = j) by lia. subst. rewrite Hc. reflexivity.
        -- pose proof (Inv_step _ _ _ _ _ Hs Ha HI Hm Hb) as HI'.
           destruct Hu as [Hu | [Hu Hcl]]; rewrite Hu in H.
           ++ destruct (IH _ _ _ _ _ HI' H) as [A [B [C [D [E [F [G K]]]]]]].
              split; [assumption|]. split; [lia|]. split; [intros; rewrite C by assumption; lia|].
              split; [intros; specialize (D ltac:(assumption)); lia|].
              split; [assumption|]. split; [assumption|]. split; [assumption|].
              intros i Hi. destruct (Nat.eq_dec i j) as [-> | Hne]; [rewrite Hc; reflexivity | apply K; lia].
           ++ inversion H; subst. simpl.
              split; [exact HI'|].
              repeat split; try lia; try assumption; try discriminate.
              intros i Hi. assert (i = j) by lia. subst. rewrite Hc. reflexivity.
      * pose proof (Inv_skip _ _ _ _ Hs Ha HI) as HI'.
        destruct (IH _ _ _ _ _ HI' H) as [A [B [C [D [E [F [G K]]]]]]].
        split; [assumption|]. split; [lia|]. split; [intros; rewrite C by assumption; lia|].
        split; [intros; specialize (D ltac:(assumption)); lia|].
        split; [assumption|]. split; [assumption|]. split; [assumption|].
        intros i Hi. destruct (Nat.eq_dec i j) as [-> | Hne]; [rewrite Hc; reflexivity | apply K; lia].
Qed.

End LoopProofs.

(* ---------------------------------------------------------------- optimise_fun *)
Notation OPT := (optimise chi2 oracle rnd).

Definition skipped (c : cfg) : bool := (1 <? c_comp c) && c_ignore_prev c && c_in_prev c.
Definition valid (c : cfg) : Prop := 0 < c_Nconv c /\ 0 < c_Niter c /\ c_Nconv c <= c_Niter c.
(* run_sympify keeps the parameters of the function: "a0" occurs in its string iff the function has parameters *)
Definition consistent (c : cfg) : Prop := forall h, c_sym c = SymOk h -> h = (0 <? c_nparam c)%nat.
(* scipy returns the objective at the returned point, with a point of the right dimension *)
Definition contract (n : nat) : Prop :=
  forall k st sg x f ok, oracle k st sg = Res x f ok -> length x = n /\ f = chi2 (decode sg x).

Definition the_loop (c : cfg) : nat * st * stop :=
  loop oracle rnd (c_mode c) (ndraws (c_nparam c)) (c_test_success c) (c_Nconv c) (Z.to_nat (c_Niter c)) 0 st0.

Lemma valid_dec : forall c,
  ((c_Nconv c <=? 0) || (c_Niter c <=? 0) || (c_Niter c <? c_Nconv c)) = false <-> valid c.
Proof.
  intros c. unfold valid. rewrite !orb_false_iff, !Z.leb_gt, Z.ltb_ge. tauto.
Qed.

Lemma optimise_reached : forall c why,
  o_stop (OPT c) = Some why ->
  skipped c = false /\ valid c /\ c_sym c = SymOk true /\ (1 <= c_nparam c)%nat /\ bad_fun c = false /\
  exists jend s,
    the_loop c = (jend, s, why) /\
    OPT c = mkOut (after_loop (c_mode c) (c_max_param c) s why)
                  (ncalls oracle rnd (c_mode c) (ndraws (c_nparam c)) jend why)
                  (run_log oracle rnd (c_mode c) (ndraws (c_nparam c)) jend why) jend (Some why).
Proof.
  intros c why H. unfold optimise in *. fold (skipped c) in *.
  destruct (skipped c) eqn:Hsk; [discriminate|].
  destruct ((c_Nconv c <=? 0) || (c_Niter c <=? 0) || (c_Niter c <? c_Nconv c)) eqn:Hv; [discriminate|].
  apply valid_dec in Hv.
  destruct (c_sym c) as [h | e] eqn:Hsym; [|destruct e; discriminate].
  destruct h; simpl in H; [|discriminate].
  destruct (c_nparam c =? 0)%nat eqn:Hn0; [destruct (c_xvar c); discriminate|].
  apply Nat.eqb_neq in Hn0.
  destruct (bad_fun c) eqn:Hbad; [discriminate|].
  fold (the_loop c) in *. destruct (the_loop c) as [[jend s] why'] eqn:Hl.
  simpl in H. inversion H; subst.
  repeat split; try assumption; try lia.
  - apply Hv.
  - apply Hv.
  - apply Hv.
  - exists jend, s. split; reflexivity.
Qed.

Lemma optimise_early : forall c, o_stop (OPT c) = None -> o_calls (OPT c) = 0%nat /\ o_log (OPT c) = [].
Proof.
  intros c H. unfold optimise in *.
  destruct ((1 <? c_comp c) && c_ignore_prev c && c_in_prev c); [split; reflexivity|].
  destruct ((c_Nconv c <=? 0) || (c_Niter c <=? 0) || (c_Niter c <? c_Nconv c)); [split; reflexivity|].
  destruct (c_sym c) as [h | e]; [|destruct e; split; reflexivity].
  destruct (negb h); [split; reflexivity|].
  destruct (c_nparam c =? 0)%nat; [split; reflexivity|].
  destruct (bad_fun c); [split; reflexivity|].
  destruct (loop _ _ _ _ _ _ _ _ _) as [[jend s] why]. discriminate.
Qed.

Lemma the_loop_spec : forall c jend s why,
  the_loop c = (jend, s, why) ->
  let md := c_mode c in let nd := ndraws (c_nparam c) in let ts := c_test_success c in
  Inv md nd ts (nproc jend why) s /\
  (jend <= Z.to_nat (c_Niter c))%nat /\
  (why = StopCap -> jend = Z.to_nat (c_Niter c)) /\
  (why <> StopCap -> (0 < jend)%nat) /\
  (why = StopConv -> s_cl s = c_Nconv c) /\
  (why = StopInf -> s_inf s = 50 /\ isinf (s_min s) = true) /\
  (forall e, why = StopExc e -> exists rs, iter_calls oracle rnd md nd (jend - 1) = (rs, Some e)) /\
  (forall i, (i < ncomplete jend why)%nat -> snd (iter_calls oracle rnd md nd i) = None).
Proof.
  intros c jend s why H md nd ts.
  destruct (loop_spec md nd ts (c_Nconv c) _ _ _ _ _ _ (Inv_st0 md nd ts) H) as [A [B [C [D [E [F [G K]]]]]]].
  split; [assumption|]. split; [lia|]. split; [intros; rewrite C by assumption; lia|].
  split; [assumption|]. split; [assumption|]. split; [assumption|]. split; [assumption|].
  intros i Hi. apply K. lia.
Qed.

Lemma pow_params_length : forall x m, length (pow_params x m) = length x.
Proof. induction x; intros m; simpl; [reflexivity | f_equal; apply IHx]. Qed.

Lemma firstn_app_exact : forall {A} (l1 l2 : list A), firstn (length l1) (l1 ++ l2) = l1.
Proof.
  intros A l1 l2. rewrite firstn_app, firstn_all, Nat.sub_diag. simpl. apply app_nil_r.
Qed.

(* the recorded best reproduces the recorded minimum *)
Lemma best_reproduces : forall c j s x m p,
  (1 <= c_nparam c)%nat -> contract (c_nparam c) ->
  Inv (c_mode c) (ndraws (c_nparam c)) (c_test_success c) j s ->
  s_best s = Some (x, m) ->
  params_of (flag_three (c_mode c)) (c_max_param c) x m = Some p ->
  chi2 (firstn (c_nparam c) p) = s_min s.
Proof.
  intros c j s x m p Hn Hct [_ [Hb _]] Hbest Hp.
  destruct Hb as [[Hb _] | [i [r [m' [Hi [Hs [Ha [Hb [Hm Hlt]]]]]]]]]; [congruence|].
  rewrite Hbest in Hb. inversion Hb; subst x m'. clear Hb.
  destruct (sel_sound _ _ _ _ _ Hs) as [b [sg [Hbr [Ho _]]]].
  destruct (Hct _ _ _ _ _ _ Ho) as [Hlen Hf].
  apply nth_error_In in Hbr.
  assert (Hdec : decode sg (r_x r) = if flag_three (c_mode c) then map Lin (r_x r) else pow_params (r_x r) m).
  { apply branch_decode; [assumption|].
    pose proof (mode_of_nparam (c_nparam c) (c_log_opt c) Hn) as Hmd. fold (c_mode c) in Hmd.
    destruct (c_mode c); lia. }
  unfold params_of in Hp. destruct (c_max_param c <? length (r_x r))%nat; [discriminate|].
  inversion Hp; subst p. rewrite Hm, Hf, Hdec. f_equal.
  rewrite <- Hlen. destruct (flag_three (c_mode c)).
  - rewrite <- (map_length Lin (r_x r)) at 1. apply firstn_app_exact.
  - rewrite <- (pow_params_length (r_x r) m) at 1. apply firstn_app_exact.
Qed.

Lemma xltb_nan_l : forall b, xltb NaN b = false.
Proof. intros b. destruct b; reflexivity. Qed.
Lemma xltb_pinf_l : forall b, xltb PInf b = false.
Proof. intros b. destruct b; reflexivity. Qed.

(* T1 *)
Theorem params_reproduce_chi2 : forall c v p,
  contract (c_nparam c) -> consistent c ->
  o_ret (OPT c) = Ret v p -> xltb v thr_big = true ->
  chi2 (firstn (c_nparam c) p) = v.
Proof.
  intros c v p Hct Hcons Hret Hlt.
  destruct (o_stop (OPT c)) as [why|] eqn:Hstop.
  - destruct (optimise_reached _ _ Hstop) as [_ [_ [_ [Hn [_ [jend [s [Hl Ho]]]]]]]].
    destruct (the_loop_spec _ _ _ _ Hl) as [HI _].
    rewrite Ho in Hret. simpl in Hret.
    assert (Hfin : forall o, (o = finish (c_mode c) (c_max_param c) s \/ o = finish_timeout (c_mode c) (c_max_param c) s) ->
                   o = Ret v p -> chi2 (firstn (c_nparam c) p) = v).
    { intros o Ho' Ho''. subst o. unfold finish, finish_timeout in Ho'.
      destruct (xltb (s_min s) thr_big) eqn:Hthr.
      - destruct (s_best s) as [[x m]|] eqn:Hb.
        + destruct (params_of (flag_three (c_mode c)) (c_max_param c) x m) as [p'|] eqn:Hp.
          * assert (E : Ret v p = Ret (s_min s) p') by (destruct Ho'; assumption). inversion E; subst.
            eapply best_reproduces; eassumption.
          * assert (E : Ret v p = Ret NaN (zeros (c_max_param c))) by (destruct Ho'; assumption).
            inversion E; subst. rewrite xltb_nan_l in Hlt. discriminate.
        + destruct Ho' as [E | E]; [discriminate|]. inversion E; subst. rewrite xltb_nan_l in Hlt. discriminate.
      - destruct Ho' as [E | E]; inversion E; subst; [congruence | rewrite xltb_nan_l in Hlt; discriminate]. }
    unfold after_loop in Hret.
    destruct why as [ | | | [ | | ]]; try (eapply Hfin; [left; reflexivity | assumption]).
    + eapply Hfin; [right; reflexivity | assumption].
    + discriminate.
    + inversion Hret; subst. rewrite xltb_nan_l in Hlt. discriminate.
  - (* early returns *)
    unfold optimise in *.
    destruct ((1 <? c_comp c) && c_ignore_prev c && c_in_prev c).
    { inversion Hret; subst. rewrite xltb_pinf_l in Hlt. discriminate. }
    destruct ((c_Nconv c <=? 0) || (c_Niter c <=? 0) || (c_Niter c <? c_Nconv c)); [discriminate|].
    destruct (c_sym c) as [h | e] eqn:Hsym.
    + pose proof (Hcons h Hsym) as Hh.
      destruct h; simpl in *.
      * destruct (c_nparam c =? 0)%nat.
        { destruct (c_xvar c); inversion Hret; subst; [rewrite xltb_nan_l in Hlt | rewrite xltb_pinf_l in Hlt]; discriminate. }
        destruct (bad_fun c).
        { inversion Hret; subst. rewrite xltb_pinf_l in Hlt. discriminate. }
        destruct (loop _ _ _ _ _ _ _ _ _) as [[jend s] why]. discriminate.
      * inversion Hret; subst. symmetry in Hh. apply Nat.ltb_ge in Hh.
        replace (c_nparam c) with 0%nat by lia. reflexivity.
    + destruct e; try discriminate; inversion Hret; subst; rewrite xltb_nan_l in Hlt; discriminate.
Qed.

(* when the loop ends normally and no x is longer than max_param, the returned value is chi2_min *)
Definition lengths_ok (mp : nat) : Prop :=
  forall k st sg x f ok, oracle k st sg = Res x f ok -> (length x <= mp)%nat.

Lemma contract_lengths : forall c, contract (c_nparam c) -> lengths_ok (c_max_param c).
Proof.
  intros c Hct k st sg x f ok Ho. destruct (Hct _ _ _ _ _ _ Ho) as [Hl _].
  pose proof (count_params_le (c_has c) (c_max_param c)). unfold c_nparam in *. lia.
Qed.

Lemma finish_value : forall c j s,
  lengths_ok (c_max_param c) ->
  Inv (c_mode c) (ndraws (c_nparam c)) (c_test_success c) j s ->
  exists p, finish (c_mode c) (c_max_param c) s = Ret (s_min s) p.
Proof.
  intros c j s Hlen [_ [Hb _]]. unfold finish.
  destruct (xltb (s_min s) thr_big) eqn:Hthr; [|eauto].
  destruct Hb as [[Hb Hm] | [i [r [m [Hi [Hs [Ha [Hb [Hm Hlt]]]]]]]]].
  - rewrite Hm in Hthr. rewrite xltb_pinf_l in Hthr. discriminate.
  - rewrite Hb. destruct (sel_sound _ _ _ _ _ Hs) as [b [sg [_ [Ho _]]]].
    pose proof (Hlen _ _ _ _ _ _ Ho) as Hl. unfold params_of.
    destruct (c_max_param c <? length (r_x r))%nat eqn:E; [apply Nat.ltb_lt in E; lia|]. eauto.
Qed.

(* T2: the returned value is the least non-NaN selected `fun` of the processed iterations *)
Theorem best_of_all_iterations : forall c why,
  lengths_ok (c_max_param c) ->
  o_stop (OPT c) = Some why -> (forall e, why <> StopExc e) ->
  let md := c_mode c in let nd := ndraws (c_nparam c) in let ts := c_test_success c in
  let np := nproc (o_iters (OPT c)) why in
  exists v p, o_ret (OPT c) = Ret v p /\
    (forall i r m, (i < np)%nat -> sel oracle rnd md nd i = Some (r, m) -> accepted ts r = true -> nn (r_f r) ->
                   xleb v (r_f r) = true) /\
    (v = PInf \/ exists i r m, (i < np)%nat /\ sel oracle rnd md nd i = Some (r, m) /\ accepted ts r = true /\ v = r_f r).
Proof.
  intros c why Hlen Hstop Hne md nd ts np.
  destruct (optimise_reached _ _ Hstop) as [_ [_ [_ [Hn [_ [jend [s [Hl Ho]]]]]]]].
  destruct (the_loop_spec _ _ _ _ Hl) as [HI _].
  subst np. rewrite Ho. simpl.
  destruct (finish_value c _ s Hlen HI) as [p Hp].
  exists (s_min s), p. split.
  - unfold after_loop. destruct why as [ | | | e]; try assumption. exfalso. eapply Hne; reflexivity.
  - destruct HI as [_ [Hb Hlow]]. split; [exact Hlow|].
    destruct Hb as [[_ Hm] | [i [r [m [Hi [Hs [Ha [_ [Hm _]]]]]]]]]; [left; assumption|].
    right. exists i, r, m. auto.
Qed.

(* a timeout keeps the partial result: the same minimum, over the iterations before the interrupted one *)
Theorem timeout_partial_result : forall c,
  lengths_ok (c_max_param c) ->
  o_stop (OPT c) = Some (StopExc ETimeout) ->
  let md := c_mode c in let nd := ndraws (c_nparam c) in let ts := c_test_success c in
  let np := (o_iters (OPT c) - 1)%nat in
  exists v p, o_ret (OPT c) = Ret v p /\
    (v = NaN \/
     (xltb v thr_big = true /\
      (forall i r m, (i < np)%nat -> sel oracle rnd md nd i = Some (r, m) -> accepted ts r = true -> nn (r_f r) ->
                     xleb v (r_f r) = true) /\
      (exists i r m, (i < np)%nat /\ sel oracle rnd md nd i = Some (r, m) /\ accepted ts r = true /\ v = r_f r))).
Proof.
  intros c Hlen Hstop md nd ts np.
  destruct (optimise_reached _ _ Hstop) as [_ [_ [_ [Hn [_ [jend [s [Hl Ho]]]]]]]].
  destruct (the_loop_spec _ _ _ _ Hl) as [HI _]. simpl in HI.
  subst np. rewrite Ho. simpl. unfold finish_timeout.
  destruct (xltb (s_min s) thr_big) eqn:Hthr; [|eauto].
  destruct HI as [_ [Hb Hlow]].
  destruct Hb as [[Hb Hm] | [i [r [m [Hi [Hs [Ha [Hb [Hm Hlt]]]]]]]]].
  - rewrite Hb. eauto.
  - rewrite Hb. destruct (sel_sound _ _ _ _ _ Hs) as [b [sg [_ [Ho' _]]]].
    pose proof (Hlen _ _ _ _ _ _ Ho') as Hl'. unfold params_of.
    destruct (c_max_param c <? length (r_x r))%nat eqn:E; [apply Nat.ltb_lt in E; lia|].
    eexists _, _. split; [reflexivity|]. right. split; [assumption|]. split; [exact Hlow|].
    exists i, r, m. auto.
Qed.

(* T3: why the loop ends *)
Theorem loop_stops_only : forall md nd ts Nconv n j s jend s' why,
  loop oracle rnd md nd ts Nconv n j s = (jend, s', why) ->
  (j <= jend <= j + n)%nat /\
  match why with
  | StopCap => jend = (j + n)%nat
  | StopConv => s_cl s' = Nconv
  | StopInf => s_inf s' = 50 /\ isinf (s_min s') = true
  | StopExc e => exists k st sg, oracle k st sg = Raise e
  end.
Proof.
  intros md nd ts Nconv n. induction n as [|n IH]; intros j s jend s' why H; simpl in H.
  - inversion H; subst. split; lia.
  - destruct (iter_calls oracle rnd md nd j) as [rs [e|]] eqn:Hc.
    + inversion H; subst. split; [lia|]. unfold iter_calls in Hc.
      destruct (call_all_exc _ _ _ _ _ Hc) as [i [sg [_ [Ho _]]]]. eauto.
    + destruct (sel_total _ _ _ _ Hc) as [r [m Hs]]. rewrite Hs in H.
      destruct (accepted ts r).
      * destruct (update_cases Nconv s r m) as [[s1 [Hu [Hm [Hb [Hinf Hisinf]]]]] | [s1 [[Hu | [Hu Hcl]] _]]];
          rewrite Hu in H.
        -- inversion H; subst. split; [lia | auto].
        -- destruct (IH _ _ _ _ _ H) as [A B]. split; [lia|]. destruct why; try assumption. lia.
        -- inversion H; subst jend s' why. split; [lia | assumption].
      * destruct (IH _ _ _ _ _ H) as [A B]. split; [lia|]. destruct why; try assumption. lia.
Qed.

(* T4: in log mode every sign pattern is tried, from the same start, in every completed iteration *)
Lemma in_log_upto : forall md nd i j b, (i < j)%nat -> In b (branches md) ->
  In (start_of rnd nd i, fst b) (log_upto rnd md nd j).
Proof.
  intros md nd i j b Hi Hb. unfold log_upto. apply in_flat_map. exists i. split.
  - apply in_seq. lia.
  - unfold iter_log. apply (in_map (fun b0 => (start_of rnd nd i, fst b0))). assumption.
Qed.

Theorem sign_coverage : forall c why,
  o_stop (OPT c) = Some why -> c_mode c <> MLin ->
  let nd := ndraws (c_nparam c) in
  (c_log_opt c = true /\ (c_nparam c <= 2)%nat) /\
  (1 <= o_iters (OPT c))%nat /\
  forall i p, (i < ncomplete (o_iters (OPT c)) why)%nat -> length p = c_nparam c ->
    In (start_of rnd nd i, signs_of p) (o_log (OPT c)) /\ In (signs_of p, p) (branches (c_mode c)).
Proof.
  intros c why Hstop Hmd nd.
  destruct (optimise_reached _ _ Hstop) as [_ [Hv [_ [Hn [_ [jend [s [Hl Ho]]]]]]]].
  pose proof (mode_of_nparam (c_nparam c) (c_log_opt c) Hn) as Hm. fold (c_mode c) in Hm.
  split.
  { unfold c_mode, mode_of in *. destruct (2 <? c_nparam c)%nat; [congruence|].
    destruct (c_nparam c =? 2)%nat; destruct (c_log_opt c); try congruence; split; try reflexivity;
      destruct (c_mode c); lia. }
  destruct (the_loop_spec _ _ _ _ Hl) as [_ [_ [Hcap [Hpos _]]]].
  rewrite Ho. simpl. split.
  { destruct why; try (apply Hpos; discriminate).
    rewrite Hcap by reflexivity. destruct Hv as [Hv1 [Hv2 Hv3]]. lia. }
  intros i p Hi Hp.
  assert (Hcov : In (signs_of p, p) (branches (c_mode c))).
  { apply (branches_cover (c_mode c) (c_nparam c)); [|assumption].
    destruct (c_mode c); [congruence | left; auto | right; auto]. }
  split; [|assumption].
  unfold run_log. destruct why; simpl in Hi;
    try (apply (in_log_upto (c_mode c) nd i jend (signs_of p, p)); assumption).
  apply in_or_app. left. apply (in_log_upto (c_mode c) nd i (jend - 1) (signs_of p, p)); assumption.
Qed.

(* T5, T6 and the two guards in front of them *)
Theorem previous_skip : forall c, skipped c = true -> OPT c = early (Ret PInf (zeros (c_max_param c))).
Proof. intros c H. unfold optimise. fold (skipped c). rewrite H. reflexivity. Qed.

Theorem validation : forall c, skipped c = false -> ~ valid c -> OPT c = early RaiseValueError.
Proof.
  intros c H Hv. unfold optimise. fold (skipped c). rewrite H.
  destruct ((c_Nconv c <=? 0) || (c_Niter c <=? 0) || (c_Niter c <? c_Nconv c)) eqn:E; [reflexivity|].
  apply valid_dec in E. contradiction.
Qed.

Theorem paramfree_direct : forall c,
  skipped c = false -> valid c -> c_sym c = SymOk false ->
  OPT c = early (Ret (chi2 []) (zeros (c_max_param c))).
Proof.
  intros c H Hv Hs. unfold optimise. fold (skipped c). rewrite H.
  apply valid_dec in Hv. rewrite Hv, Hs. reflexivity.
Qed.

Theorem nan_on_data_inf : forall c,
  skipped c = false -> valid c -> c_sym c = SymOk true -> (1 <= c_nparam c)%nat ->
  (c_xvar c = false \/ forall p, length p = c_nparam c -> c_nanpat c p = true) ->
  OPT c = early (Ret PInf (zeros (c_max_param c))).
Proof.
  intros c H Hv Hs Hn Hbad. unfold optimise. fold (skipped c). rewrite H.
  apply valid_dec in Hv. rewrite Hv, Hs. simpl.
  destruct (c_nparam c =? 0)%nat eqn:E; [apply Nat.eqb_eq in E; lia|].
  assert (Hb : bad_fun c = true).
  { unfold bad_fun. destruct Hbad as [Hx | Hall]; [rewrite Hx; reflexivity|].
    apply orb_true_iff. right. apply forallb_forall. intros p Hp. apply Hall.
    clear - Hp. revert p Hp. generalize (c_nparam c). induction n; intros p Hp; simpl in Hp.
    - destruct Hp as [<- | []]. reflexivity.
    - apply in_app_or in Hp. destruct Hp as [Hp | Hp]; apply in_map_iff in Hp; destruct Hp as [q [<- Hq]];
        simpl; f_equal; apply IHn; assumption. }
  rewrite Hb. reflexivity.
Qed.

(* a function that is not NaN on the data for some sign pattern is optimised *)
Theorem good_fun_reaches_loop : forall c p,
  skipped c = false -> valid c -> c_sym c = SymOk true -> (1 <= c_nparam c)%nat ->
  c_xvar c = true -> length p = c_nparam c -> c_nanpat c p = false ->
  exists why, o_stop (OPT c) = Some why.
Proof.
  intros c p H Hv Hs Hn Hx Hp Hnan. unfold optimise. fold (skipped c). rewrite H.
  apply valid_dec in Hv. rewrite Hv, Hs. simpl.
  destruct (c_nparam c =? 0)%nat eqn:E; [apply Nat.eqb_eq in E; lia|].
  assert (Hb : bad_fun c = false).
  { unfold bad_fun. rewrite Hx. simpl.
    destruct (forallb (c_nanpat c) (all_patterns (c_nparam c))) eqn:F; [|reflexivity].
    rewrite forallb_forall in F. rewrite (F p) in Hnan; [discriminate|].
    apply all_patterns_complete. assumption. }
  rewrite Hb. destruct (loop _ _ _ _ _ _ _ _ _) as [[jend s] why]. simpl. eauto.
Qed.

(* T7: if some processed iteration hands back the global minimum, the routine returns it *)
Theorem conditional_global_min : forall c why m i rs,
  contract (c_nparam c) ->
  (forall q, isnan (chi2 q) = true \/ xleb m (chi2 q) = true) ->        (* m bounds the likelihood from below *)
  o_stop (OPT c) = Some why -> (forall e, why <> StopExc e) ->
  let md := c_mode c in let nd := ndraws (c_nparam c) in
  (i < nproc (o_iters (OPT c)) why)%nat ->                              (* an iteration that was processed *)
  iter_calls oracle rnd md nd i = (rs, None) ->
  (forall r, In r rs -> nn (r_f r)) ->                                   (* none of its branches gave NaN *)
  (c_test_success c = true -> forall r, In r rs -> r_ok r = true) ->
  (exists r, In r rs /\ r_f r = m) ->                                    (* one of them reached m *)
  exists p, o_ret (OPT c) = Ret m p /\ (xltb m thr_big = true -> chi2 (firstn (c_nparam c) p) = m).
Proof.
  intros c why m i rs Hct Hlb Hstop Hne md nd Hi Hc Hnn Hok [r0 [Hr0 Hm0]].
  pose proof (contract_lengths c Hct) as Hlen.
  destruct (best_of_all_iterations c why Hlen Hstop Hne) as [v [p [Hret [Hlow Hatt]]]].
  destruct (sel_total _ _ _ _ Hc) as [r [mm Hs]].
  assert (Hin : In r rs).
  { unfold sel in Hs. fold md nd in Hs. rewrite Hc in Hs.
    destruct (select md rs) as [k|]; [|discriminate].
    destruct (nth_error rs k) as [r'|] eqn:Hk; [|discriminate].
    destruct (nth_error (branches md) k); [|discriminate]. inversion Hs; subst.
    eapply nth_error_In; eassumption. }
  assert (Hacc : accepted (c_test_success c) r = true).
  { unfold accepted. destruct (c_test_success c) eqn:Ets; [|reflexivity].
    rewrite (Hok eq_refl r Hin). reflexivity. }
  assert (Hv_le : xleb v m = true).
  { eapply xleb_trans.
    - apply (Hlow i r mm); try assumption. apply Hnn; assumption.
    - rewrite <- Hm0. eapply sel_min; eassumption. }
  assert (Hm_le : xleb m v = true).
  { destruct Hatt as [-> | [i' [r' [m' [Hi' [Hs' [Ha' ->]]]]]]].
    - destruct (xleb_nn _ _ Hv_le) as [_ Hmn]. destruct m; try discriminate; reflexivity.
    - destruct (sel_sound _ _ _ _ _ Hs') as [b [sg [_ [Ho _]]]].
      destruct (Hct _ _ _ _ _ _ Ho) as [_ Hf]. rewrite Hf.
      destruct (Hlb (decode sg (r_x r'))) as [Hnan | Hle]; [|assumption].
      destruct (xleb_nn _ _ Hv_le) as [Hvn _]. rewrite Hf in Hvn. unfold nn in Hvn. congruence. }
  assert (v = m) by (apply xleb_antisym; assumption). subst v.
  exists p. split; [assumption|]. intros Hthr.
  eapply params_reproduce_chi2; try eassumption.
  intros h Hh. destruct (optimise_reached _ _ Hstop) as [_ [_ [Hsym [Hn _]]]].
  rewrite Hsym in Hh. inversion Hh; subst. symmetry. apply Nat.ltb_lt. lia.
Qed.

End Proofs.

(* ---------------------------------------------------------------- main: one output row *)
Theorem main_row_cases : forall mp ti first second,
  main_row mp ti first second =
    match first with
    | Ret v p => (v, p)
    | RaiseNameError => if ti then match second with Ret v p => (v, p) | _ => (NaN, zeros mp) end
                        else (NaN, zeros mp)
    | RaiseValueError => (NaN, zeros mp)
    end.
Proof. intros. destruct first; reflexivity. Qed.

(* ---------------------------------------------------------------- witnesses *)
(* The unrestricted reading of T2 ("minimum over every executed iteration") fails in one corner:
   the iteration that trips the 50-infinities test is dropped before the best-update, so a -inf
   arriving as the 50th infinity is lost.  49 x +inf then -inf: *)
Definition w_cfg : cfg :=
  mkCfg [true] 4 0 true false false false [60] [5] (SymOk true) true (table_nanpat []).
Definition w_oracle : nat -> list Z -> option (list sgn) -> answer :=
  fun k _ _ => if (k <? 49)%nat then Res [1] PInf true else Res [2] NInf true.
Lemma neginf_dropped_witness :
  let o := optimise (nil_chi2 (Fin 0)) w_oracle (stream []) w_cfg in
  o_ret o = Ret PInf (zeros 4) /\ o_stop o = Some StopInf /\ o_iters o = 50%nat /\
  sel w_oracle (stream []) MLin 1 49 = Some (mkRes [2] NInf true, []).
Proof. vm_compute. repeat split. Qed.

(* ---------------------------------------------------------------- a concrete instance (non-vacuity of the hypotheses) *)
(* likelihood (a0 + 100)^2 + (a1 - 10)^2, minimum 0 at (-100, 10) = (-10^2, +10^1); an oracle that finds the
   minimiser of the (-,+) orthant and sits at 10^0 in the others *)
Fixpoint ex_sumsq (t : list Z) (q : list par) : Z :=
  match t, q with
  | ti :: tr, qi :: qr => (par_eval qi - ti) ^ 2 + ex_sumsq tr qr
  | _, _ => 0
  end.
Definition ex_chi2 (q : list par) : xz := Fin (ex_sumsq [-100; 10] q).
Definition ex_x (sg : option (list sgn)) : list Z :=
  match sg with Some [SMinus; SPlus] => [2; 1] | _ => [0; 0] end.
Definition ex_oracle : nat -> list Z -> option (list sgn) -> answer :=
  fun _ _ sg => Res (ex_x sg) (ex_chi2 (decode sg (ex_x sg))) true.
Definition ex_cfg : cfg :=
  mkCfg [true; true] 4 0 true false true false [6] [2] (SymOk true) true (table_nanpat [[false; true]]).

Lemma ex_sumsq_nonneg : forall t q, 0 <= ex_sumsq t q.
Proof.
  induction t as [|ti tr IH]; intros q; simpl; [lia|]. destruct q as [|qi qr]; [lia|].
  specialize (IH qr). pose proof (Z.pow_2_r (par_eval qi - ti)). nia.
Qed.
Lemma ex_contract : contract ex_chi2 ex_oracle 2.
Proof.
  intros k st sg x f ok H. unfold ex_oracle in H. inversion H; subst. split; [|reflexivity].
  unfold ex_x. repeat (match goal with |- context [match ?a with _ => _ end] => destruct a end; try reflexivity).
Qed.
Lemma ex_lower : forall q, isnan (ex_chi2 q) = true \/ xleb (Fin 0) (ex_chi2 q) = true.
Proof.
  intros q. right. unfold ex_chi2. generalize (ex_sumsq_nonneg [-100; 10] q). generalize (ex_sumsq [-100; 10] q).
  intros z H. unfold xleb, xltb, xeqb.
  apply orb_true_iff. destruct (Z.eq_dec 0 z) as [E | E].
  - right. apply Z.eqb_eq. assumption.
  - left. apply Z.ltb_lt. lia.
Qed.
Lemma ex_consistent : consistent ex_cfg.
Proof. intros h H. vm_compute in H. inversion H. reflexivity. Qed.
(* the conclusion of C10_conditional obtained from the theorem, all hypotheses discharged *)
Lemma ex_conditional :
  exists p, o_ret (optimise ex_chi2 ex_oracle (stream [1; 2]) ex_cfg) = Ret (Fin 0) p /\
            ex_chi2 (firstn 2 p) = Fin 0.
Proof.
  destruct (conditional_global_min ex_chi2 ex_oracle (stream [1; 2]) ex_cfg StopConv (Fin 0) 0
             [mkRes [0;0] (Fin 10282) true; mkRes [2;1] (Fin 0) true; mkRes [0;0] (Fin 10322) true; mkRes [0;0] (Fin 9922) true])
    as [p [H1 H2]].
  - exact ex_contract.
  - exact ex_lower.
  - vm_compute. reflexivity.
  - intros e; discriminate.
  - vm_compute. lia.
  - vm_compute. reflexivity.
  - intros r Hr. simpl in Hr. destruct Hr as [<- | [<- | [<- | [<- | []]]]]; reflexivity.
  - intros H; vm_compute in H; discriminate.
  - exists (mkRes [2;1] (Fin 0) true). split; [simpl; tauto | reflexivity].
  - exists p. split; [exact H1|]. apply H2. reflexivity.
Qed.
