From Coq Require Import String List Bool Arith Lia.
From ESRV Require Import Model.NodeStr.
Import ListNotations.

(* Reading back what node_to_string wrote returns the tree, whatever follows (as long as it
   is not an opening parenthesis directly after a leaf label, which node_to_string never emits
   after a complete term). Hence the string determines the tree: grouping is explicit. *)
Lemma parse_nts (t : lt) : forall fuel rest,
  size t <= fuel -> not_open rest -> parse fuel (nts t ++ rest) = Some (t, rest).
Proof.
  induction t as [l|l a IHa|l a IHa b IHb]; intros fuel rest Hf Hr; destruct fuel as [|f]; cbn [size] in Hf; try lia.
  - cbn. destruct rest as [|k r]; [reflexivity|]. destruct k; try reflexivity. contradiction.
  - cbn [nts app parse]. rewrite <- app_assoc. rewrite IHa; [reflexivity|lia|exact I].
  - cbn [nts]. destruct (is_infix l) eqn:El.
    + cbn [app parse]. rewrite <- app_assoc. cbn [app].
      rewrite IHa; [|lia|exact I]. rewrite <- app_assoc. cbn [app].
      rewrite IHb; [|lia|exact I]. rewrite El. reflexivity.
    + cbn [app parse]. rewrite <- app_assoc. cbn [app].
      rewrite IHa; [|lia|exact I]. rewrite <- app_assoc. cbn [app].
      rewrite IHb; [|lia|exact I]. rewrite El. reflexivity.
Qed.

Theorem node_to_string_readable (t : lt) : parse (size t) (nts t) = Some (t, []).
Proof. rewrite <- (app_nil_r (nts t)) at 1. apply parse_nts; [lia|exact I]. Qed.

Theorem node_to_string_injective (t1 t2 : lt) : nts t1 = nts t2 -> t1 = t2.
Proof.
  intros H.
  pose proof (parse_nts t1 (size t1 + size t2) [] ltac:(lia) I) as H1.
  pose proof (parse_nts t2 (size t1 + size t2) [] ltac:(lia) I) as H2.
  rewrite !app_nil_r in *. rewrite H in H1. congruence.
Qed.
