(* Relative probabilities of the final table (C06) over the real numbers. *)
From Coq Require Import ZArith List Bool Lia Reals Lra Sorting.Sorted.
From ESRV Require Import Common.Py Common.XZ Model.Combine Proofs.CombineProofs.
Import ListNotations.
Open Scope R_scope.

Lemma weight_nonneg s d : 0 <= weight s d.
Proof. destruct d; cbn; try lra. left. apply exp_pos. Qed.

Lemma weight_fin_pos s z : 0 < weight s (Fin z).
Proof. cbn. apply exp_pos. Qed.

Lemma weight_zero s : weight s (Fin 0) = 1.
Proof. cbn. unfold Rdiv. rewrite Rmult_0_l, Ropp_0. apply exp_0. Qed.

Lemma weight_nonfinite s d : isfinite d = false -> weight s d = 0.
Proof. destruct d; cbn; [discriminate|reflexivity..]. Qed.

(* exp(-(DL_i - DL_0)) in table units *)
Lemma weight_diff s z z0 : s <> 0 -> weight s (Fin (z - z0)) = exp (- (IZR z / s - IZR z0 / s)).
Proof. intros Hs. cbn. f_equal. rewrite minus_IZR. field. exact Hs. Qed.

Lemma rsum_cons a l : rsum (a :: l) = a + rsum l.
Proof. reflexivity. Qed.

Lemma rsum_nonneg l : (forall x, In x l -> 0 <= x) -> 0 <= rsum l.
Proof.
  induction l as [|a l IH]; intros H; [cbn; lra|rewrite rsum_cons].
  assert (0 <= a) by (apply H; now left). assert (0 <= rsum l) by (apply IH; intros; apply H; now right). lra.
Qed.

Lemma rsum_weights_nonneg s ds : 0 <= rsum (map (weight s) ds).
Proof. apply rsum_nonneg. intros x Hx. apply in_map_iff in Hx. destruct Hx as [d [<- _]]. apply weight_nonneg. Qed.

Lemma rsum_zero s ds : (forall d, In d ds -> isfinite d = false) -> rsum (map (weight s) ds) = 0.
Proof.
  induction ds as [|d ds IH]; intros H; [reflexivity|]. cbn [map]. rewrite rsum_cons.
  rewrite weight_nonfinite by (apply H; now left). rewrite IH by (intros; apply H; now right). lra.
Qed.

Lemma rsum_div l S : rsum (map (fun w => w / S) l) = rsum l / S.
Proof.
  induction l as [|a l IH]; [cbn; unfold Rdiv; now rewrite Rmult_0_l|].
  cbn [map]. rewrite !rsum_cons, IH. unfold Rdiv. ring.
Qed.

Definition pnum (p : pval) : R := match p with PVal r => r | PNaN => 0 end.

(* no finite exponent (DL_0 is +inf, -inf): the weights are all 0 and every Prel is 0/0 = NaN *)
Lemma prel_all_nan s ds : (forall d, In d ds -> isfinite d = false) ->
  forall p, In p (prel s ds) -> p = PNaN.
Proof.
  intros H p Hp. unfold prel in Hp. destruct (Req_EM_T _ 0) as [_|C].
  - apply in_map_iff in Hp. now destruct Hp as [? [<- _]].
  - exfalso. apply C. now apply rsum_zero.
Qed.

(* the first exponent is 0 (DL_0 finite): the sum S of the weights is at least 1, every Prel is a
   number weight/S *)
Lemma prel_numbers s ds : let S := rsum (map (weight s) (Fin 0%Z :: ds)) in
  1 <= S /\ prel s (Fin 0%Z :: ds) = map (fun d => PVal (weight s d / S)) (Fin 0%Z :: ds).
Proof.
  cbv zeta. set (S := rsum (map (weight s) (Fin 0%Z :: ds))).
  assert (HS : 1 <= S).
  { unfold S. cbn [map]. rewrite rsum_cons, weight_zero.
    pose proof (rsum_weights_nonneg s ds). lra. }
  split; [assumption|]. unfold prel. fold S. destruct (Req_EM_T S 0) as [C|_]; [lra|].
  now rewrite map_map.
Qed.

Section PrelTable.
  Variables (P : Z) (U : nat) (t : list vrow) (comb : list urow) (rows : list frow) (exps : list xz).
  Variable s : R.
  Hypothesis HP : (1 <= P)%Z.
  Hypothesis Hmain : combine_main P U t = Some (comb, rows, exps).
  Hypothesis Hs : 0 < s.

  Lemma main_exps : exps = prel_exps rows.
  Proof. now destruct (combine_main_inv _ _ _ _ _ _ HP Hmain) as (_ & _ & _ & _ & ->). Qed.

  Lemma main_rows_nonnan r : In r rows -> isnan (f_dl r) = false.
  Proof. intros H. now destruct (final_row_min _ _ _ _ _ _ HP Hmain r H). Qed.

  (* the smallest description length is finite as soon as one is finite and none is -inf *)
  Lemma main_first_finite :
    (exists r, In r rows /\ isfinite (f_dl r) = true) -> (forall r, In r rows -> f_dl r <> NInf) ->
    exists z0, f_dl (nth 0 rows dummy_f) = Fin z0 /\ forall r, In r rows -> xleb (Fin z0) (f_dl r) = true.
  Proof.
    intros He Hn. apply sorted_first_finite; try assumption.
    - apply (final_lexsorted _ _ _ _ _ _ HP Hmain).
    - apply main_rows_nonnan.
  Qed.

  Lemma main_first_le z0 : f_dl (nth 0 rows dummy_f) = Fin z0 ->
    forall r, In r rows -> xleb (Fin z0) (f_dl r) = true.
  Proof.
    intros H0 r Hr. destruct rows as [|r0 rs] eqn:E; [destruct Hr|]. rewrite <- E in *.
    destruct (main_first_finite) as [z [Hz Hle]].
    - exists r0. split; [rewrite E; now left|]. rewrite E in H0. cbn in H0. now rewrite H0.
    - intros x Hx C.
      pose proof (final_lexsorted _ _ _ _ _ _ HP Hmain) as Hsrt. rewrite E in Hsrt, Hx, H0. cbn in H0.
      inversion Hsrt as [|? ? _ Hall]; subst. rewrite Forall_forall in Hall.
      destruct Hx as [<-|Hx]; [congruence|].
      destruct (Hall x Hx) as [H|[H _]]; unfold fkey in H; cbn in H; rewrite H0, C in H; cbn in H; discriminate.
    - rewrite H0 in Hz. inversion Hz; subst. now apply Hle.
  Qed.

  (* value reported for row i when DL_0 = z0 is finite and the weights sum to S *)
  Definition prel_value (z0 : Z) (S : R) (i : nat) : R :=
    if is_dup rows i then 0 else
    match f_dl (nth i rows dummy_f) with
    | Fin z => exp (- (IZR z / s - IZR z0 / s)) / S
    | _ => 0
    end.

  (* finite smallest description length: every Prel is a non-negative number, proportional (factor 1/S,
     S >= 1) to exp(-(DL_i - DL_0)), 0 for a row repeating an earlier row's exact likelihood (never row 0)
     and for a row with DL = +inf, and the column sums to one *)
  Lemma prel_finite z0 : f_dl (nth 0 rows dummy_f) = Fin z0 ->
    exists S, 1 <= S /\
      length (prel s exps) = length rows /\
      (forall i, (i < length rows)%nat -> nth i (prel s exps) PNaN = PVal (prel_value z0 S i)) /\
      (forall i, (i < length rows)%nat -> 0 <= prel_value z0 S i) /\
      prel_value z0 S 0 = 1 / S /\
      rsum (map pnum (prel s exps)) = 1.
  Proof.
    intros H0. assert (Hne : rows <> []).
    { intros C. rewrite C in H0. cbn in H0. discriminate. }
    rewrite main_exps. destruct (prel_exps_head rows z0 Hne H0) as [ds Hds].
    destruct (prel_numbers s ds) as [HS Hp]. cbv zeta in *. rewrite <- Hds in *.
    set (S := rsum (map (weight s) (prel_exps rows))) in *. exists S.
    split; [assumption|]. split; [rewrite Hp, map_length; apply prel_exps_length|].
    assert (Hval : forall i, (i < length rows)%nat ->
              weight s (nth i (prel_exps rows) NaN) / S = prel_value z0 S i).
    { intros i Hi. destruct (prel_exps_finite0 rows z0 H0 (main_first_le z0 H0) i Hi) as [E _].
      rewrite E. unfold prel_value. destruct (is_dup rows i); [cbn; unfold Rdiv; now rewrite Rmult_0_l|].
      destruct (f_dl (nth i rows dummy_f)); try (cbn; unfold Rdiv; now rewrite Rmult_0_l).
      rewrite weight_diff by lra. reflexivity. }
    split; [|split; [|split]].
    - intros i Hi. rewrite Hp. rewrite (nth_map_default _ _ _ NaN) by now rewrite prel_exps_length.
      now rewrite Hval.
    - intros i Hi. rewrite <- Hval by assumption.
      apply Rmult_le_pos; [apply weight_nonneg|]. left. apply Rinv_0_lt_compat. lra.
    - rewrite <- Hval by (destruct rows; [congruence|cbn; lia]). rewrite Hds. cbn [nth]. now rewrite weight_zero.
    - rewrite Hp, map_map. cbn [pnum].
      rewrite <- (map_map (weight s) (fun w => w / S)). rewrite rsum_div. fold S. field. lra.
  Qed.

  (* non-finite smallest description length (+inf: nothing is finite; -inf): every Prel is NaN *)
  Lemma prel_nonfinite : isfinite (f_dl (nth 0 rows dummy_f)) = false ->
    forall p, In p (prel s exps) -> p = PNaN.
  Proof.
    intros H0. rewrite main_exps. apply prel_all_nan. now apply prel_exps_nonfinite.
  Qed.
End PrelTable.

(* The property as given ("sum to one whenever some description length is finite") fails when the
   smallest description length is -inf: witness with three uniques, DL = -inf, 6, 7. *)
Definition neg_inf_table : list vrow :=
  [ mkV NInf (Fin 2) (Fin 0) (Fin 3) [Fin 0];
    mkV (Fin 1) (Fin 2) (Fin 1) (Fin 3) [Fin 1];
    mkV (Fin 2) (Fin 2) (Fin 2) (Fin 3) [Fin 2] ].

Lemma prel_neg_inf_refuted :
  exists comb rows exps,
    combine_main 1 3 neg_inf_table = Some (comb, rows, exps) /\
    (exists r, In r rows /\ isfinite (f_dl r) = true) /\
    forall s, 0 < s -> forall p, In p (prel s exps) -> p = PNaN.
Proof.
  eexists _, _, _. split; [vm_compute; reflexivity|]. split.
  - eexists. split; [right; left; reflexivity|reflexivity].
  - intros s Hs. apply prel_all_nan. intros d Hd. cbn in Hd.
    repeat (destruct Hd as [<-|Hd]; [reflexivity|]). destruct Hd.
Qed.

(* the property's sentence: whenever some description length is finite (and, which the code needs,
   none is -inf) the relative probabilities are non-negative numbers, proportional to
   exp(-(DL-DL_min)), zero for repeated likelihoods, and sum to one *)
Lemma prel_property P U t comb rows exps s :
  (1 <= P)%Z -> combine_main P U t = Some (comb, rows, exps) -> 0 < s ->
  (exists r, In r rows /\ isfinite (f_dl r) = true) -> (forall r, In r rows -> f_dl r <> NInf) ->
  exists z0 S, f_dl (nth 0 rows dummy_f) = Fin z0 /\
    (forall r, In r rows -> xleb (Fin z0) (f_dl r) = true) /\
    1 <= S /\
    length (prel s exps) = length rows /\
    (forall i, (i < length rows)%nat -> nth i (prel s exps) PNaN = PVal (prel_value rows s z0 S i)) /\
    (forall i, (i < length rows)%nat -> 0 <= prel_value rows s z0 S i) /\
    prel_value rows s z0 S 0 = 1 / S /\
    rsum (map pnum (prel s exps)) = 1.
Proof.
  intros HP Hm Hs He Hn.
  destruct (main_first_finite P U t comb rows exps HP Hm He Hn) as [z0 [H0 Hle]].
  destruct (prel_finite P U t comb rows exps s HP Hm Hs z0 H0) as [S H].
  exists z0, S. tauto.
Qed.

(* relative probabilities of the non-vacuity table (exponents 0, 0, +inf, +inf; scale 1) *)
Lemma ex_prel : prel 1 [Fin 0%Z; Fin 0%Z; PInf; PInf] = [PVal (1/2); PVal (1/2); PVal 0; PVal 0].
Proof.
  unfold prel. cbn [map]. rewrite !weight_zero. cbn [weight].
  rewrite !rsum_cons. cbn [rsum fold_right].
  destruct (Req_EM_T (1 + (1 + (0 + (0 + 0)))) 0) as [C|_]; [lra|].
  repeat f_equal; field.
Qed.
