"""pyz.Tr extended with insertion-ordered dicts, sets used only for membership, `for v in range(n)` loops,
list comprehensions over lists and `{k: v for i, x in enumerate(d.keys())}` — the subset used by
esr/generation/utils.py::get_unique_indexes / get_match_indexes.  Fail-closed like pyz: anything else raises Refuse.

Types (in addition to pyz's): ('dict', K, V) = association list in insertion order with Python's update semantics
(Common/Py.v: py_dget / py_dmem / py_dset), ('set', T) = the list it was built from (only `in` is allowed on it)."""
import ast

from translate.pyz import Tr, Refuse

COQ_KEYWORDS = {'match', 'fun', 'let', 'in', 'if', 'then', 'else', 'end', 'with', 'as', 'return', 'fix', 'cofix', 'forall', 'exists',
                'Type', 'Set', 'Prop', 'at', 'using', 'where', 'for', 'struct', 'by', 'mod'}


def cq(name):
    return name + '_' if name in COQ_KEYWORDS else name


def eq_of(t):
    if t == 'Z':
        return 'Z.eqb'
    if t == 'A':
        return 'eqA'
    raise Refuse('no equality on %r' % (t,))


class DTr(Tr):
    # ------------------------------------------------------------ expressions
    def expr(self, e):
        if isinstance(e, ast.Name):
            if e.id not in self.env:
                raise Refuse('unknown name %s' % e.id)
            return cq(e.id), self.env[e.id]
        if isinstance(e, ast.Compare) and len(e.ops) == 1 and isinstance(e.ops[0], (ast.In, ast.NotIn)):
            a, ta = self.expr(e.left)
            b, tb = self.expr(e.comparators[0])
            neg = isinstance(e.ops[0], ast.NotIn)
            if tb[0] == 'dict':
                if tb[1] not in (ta, '?'):
                    raise Refuse('membership of %r in %r' % (ta, tb))
                g = '(py_dmem %s %s %s)' % (eq_of(ta), a, b)
            elif tb[0] in ('set', 'list'):
                if tb[1] not in (ta, '?'):
                    raise Refuse('membership of %r in %r' % (ta, tb))
                g = '(py_mem %s %s %s)' % (eq_of(ta), a, b)
            else:
                raise Refuse('membership in %r' % (tb,))
            return ('(negb %s)' % g if neg else g), 'bool'
        if isinstance(e, ast.Subscript) and not isinstance(e.slice, ast.Slice):
            d, td = self.expr(e.value)
            if td[0] == 'dict':
                k, tk = self.expr(e.slice)
                if tk != td[1]:
                    raise Refuse('dict key %r for %r' % (tk, td))
                v, _ = self.hoist('(py_dget %s %s %s)' % (eq_of(tk), k, d), td[2], 'dg')
                return v, td[2]
            if td[0] == 'set':
                raise Refuse('subscript on a set')
        if isinstance(e, ast.ListComp):
            if len(e.generators) == 1 and not e.generators[0].is_async and isinstance(e.generators[0].target, ast.Name) \
                    and not e.generators[0].ifs and not (isinstance(e.generators[0].iter, ast.Call)):
                gen = e.generators[0]
                l, tl = self.expr(gen.iter)
                if tl[0] != 'list':
                    raise Refuse('comprehension over %r' % (tl,))
                v = gen.target.id
                saved_env, saved_binds = dict(self.env), self.binds
                self.env[v] = tl[1]
                res = {}

                def mk():
                    g, t = self.expr(e.elt)
                    res['t'] = t
                    return 'Some %s' % g
                pre, body = self.with_binds(mk)
                self.env, self.binds = saved_env, saved_binds
                r, _ = self.hoist('(py_traverse (fun %s => %s%s) %s)' % (cq(v), pre, body, l), ('list', res['t']), 'lc')
                return r, ('list', res['t'])
        if isinstance(e, ast.DictComp):
            return self.dictcomp(e)
        if isinstance(e, ast.Tuple):
            parts = [self.expr(x) for x in e.elts]
            return '(' + ', '.join(p[0] for p in parts) + ')', ('tuple', [p[1] for p in parts])
        return super().expr(e)

    def dictcomp(self, e):
        # {K: V for i, x in enumerate(D.keys())}
        if len(e.generators) != 1:
            raise Refuse('nested dict comprehension')
        gen = e.generators[0]
        if (gen.is_async or gen.ifs or not isinstance(gen.target, ast.Tuple) or len(gen.target.elts) != 2
                or not all(isinstance(n, ast.Name) for n in gen.target.elts)):
            raise Refuse('dict comprehension form')
        it = gen.iter
        if not (isinstance(it, ast.Call) and ast.unparse(it.func) == 'enumerate' and len(it.args) == 1 and not it.keywords):
            raise Refuse('dict comprehension not over enumerate')
        src = it.args[0]
        if (isinstance(src, ast.Call) and isinstance(src.func, ast.Attribute) and src.func.attr == 'keys'
                and not src.args and not src.keywords):
            d, td = self.expr(src.func.value)
            if td[0] != 'dict':
                raise Refuse('.keys() of %r' % (td,))
            seq, telt = '(map fst %s)' % d, td[1]
        else:
            l, tl = self.expr(src)
            if tl[0] != 'list':
                raise Refuse('enumerate of %r' % (tl,))
            seq, telt = l, tl[1]
        i, x = gen.target.elts[0].id, gen.target.elts[1].id
        saved_env, saved_binds = dict(self.env), self.binds
        self.env[i] = 'Z'
        self.env[x] = telt
        self.binds = []
        k, tk = self.expr(e.key)
        v, tv = self.expr(e.value)
        if self.binds:
            raise Refuse('dict comprehension key/value may raise')
        self.env, self.binds = saved_env, saved_binds
        g = "(py_dict_of %s (map (fun '(%s, %s) => (%s, %s)) (py_enumerate %s)))" % (eq_of(tk), cq(i), cq(x), k, v, seq)
        return g, ('dict', tk, tv)

    def call(self, e):
        fn = ast.unparse(e.func)
        if fn in ('OrderedDict', 'dict') and not e.args and not e.keywords:
            if fn == 'OrderedDict' and not self.ordereddict_ok:
                raise Refuse('OrderedDict is not collections.OrderedDict')
            return '[]', ('dict', '?', '?')
        if fn == 'set' and len(e.args) == 1 and not e.keywords:
            l, tl = self.expr(e.args[0])
            if tl[0] != 'list':
                raise Refuse('set of %r' % (tl,))
            return l, ('set', tl[1])
        return super().call(e)

    # ------------------------------------------------------------ statements
    ordereddict_ok = False

    @staticmethod
    def is_setitem(st):
        return (isinstance(st, ast.Assign) and len(st.targets) == 1 and isinstance(st.targets[0], ast.Subscript)
                and isinstance(st.targets[0].value, ast.Name) and not isinstance(st.targets[0].slice, ast.Slice))

    def assigned(self, stmts):
        out = []
        for st in stmts:
            if self.is_setitem(st):
                out.append(st.targets[0].value.id)
            elif isinstance(st, ast.For):
                if st.orelse or not isinstance(st.target, ast.Name):
                    raise Refuse('for form')
                out += [v for v in self.assigned(st.body)]
            else:
                out += super().assigned([st])
        seen = []
        for n in out:
            if n not in seen:
                seen.append(n)
        return seen

    def block(self, stmts, tail):
        if stmts:
            st, rest = stmts[0], stmts[1:]
            if self.is_setitem(st):
                name = st.targets[0].value.id
                td = self.env.get(name)
                if td is None or td[0] != 'dict' or name not in self.local_dicts:
                    raise Refuse('item assignment on %s' % name)
                res = {}

                def mk():
                    k, tk = self.expr(st.targets[0].slice)
                    v, tv = self.expr(st.value)
                    res['t'] = (tk, tv)
                    return '(py_dset %s %s %s %s)' % (eq_of(tk), k, v, cq(name))
                pre, g = self.with_binds(mk)
                tk, tv = res['t']
                if td[1] == '?':
                    self.env[name] = ('dict', tk, tv)
                elif (td[1], td[2]) != (tk, tv):
                    raise Refuse('dict %r set with %r' % (td, (tk, tv)))
                return pre + 'let %s := %s in\n' % (cq(name), g) + self.block(rest, tail)
            if isinstance(st, ast.For):
                return self.for_range(st, rest, tail)
            if isinstance(st, ast.Assign) and len(st.targets) == 1 and isinstance(st.targets[0], ast.Name):
                name = st.targets[0].id
                # track which names hold a dict created in this function (no aliasing)
                if isinstance(st.value, ast.Call) and ast.unparse(st.value.func) in ('OrderedDict', 'dict') or isinstance(st.value, ast.DictComp):
                    out = self._assign_named(st, rest, tail)
                    self.local_dicts.add(name)
                    return out
                if isinstance(st.value, ast.Name) and self.env.get(st.value.id, ('',))[0] in ('dict',):
                    raise Refuse('dict alias')
                self.local_dicts.discard(name)
                return self._assign_named(st, rest, tail)
        return super().block(stmts, tail)

    def _assign_named(self, st, rest, tail):
        name = st.targets[0].id
        res = {}

        def mk():
            g, t = self.expr(st.value)
            res['t'] = t
            return g
        pre, g = self.with_binds(mk)
        # the rest is translated after the binding so that dict creation is registered first
        self.env[name] = res['t']
        if isinstance(st.value, (ast.List, ast.ListComp)):
            self.local_lists.add(name)
        else:
            self.local_lists.discard(name)
        if isinstance(st.value, ast.Call) and ast.unparse(st.value.func) in ('OrderedDict', 'dict') or isinstance(st.value, ast.DictComp):
            self.local_dicts.add(name)
        return pre + 'let %s := %s in\n' % (cq(name), g) + self.block(rest, tail)

    def for_range(self, st, rest, tail):
        """for v in range(N): body   ->   state <- py_for_range N (fun v state => body) state"""
        it = st.iter
        if st.orelse or not isinstance(st.target, ast.Name):
            raise Refuse('for form')
        if not (isinstance(it, ast.Call) and ast.unparse(it.func) == 'range' and len(it.args) == 1 and not it.keywords):
            raise Refuse('for not over range(n)')
        v = st.target.id
        if v in self.env:
            raise Refuse('loop variable %s shadows a binding' % v)
        for n in ast.walk(st):
            if isinstance(n, (ast.Break, ast.Continue, ast.Return)):
                raise Refuse('break/continue/return inside for')
        res = {}

        def mkn():
            g, t = self.expr(it.args[0])
            res['t'] = t
            return g
        pre, n = self.with_binds(mkn)
        if res['t'] != 'Z':
            raise Refuse('range of %r' % (res['t'],))
        assigned = self.assigned(st.body)
        if v in assigned:
            raise Refuse('loop variable assigned in the body')
        state = [x for x in assigned if x in self.env]          # loop-carried; the others are locals of one iteration
        local = [x for x in assigned if x not in self.env]
        if not state:
            raise Refuse('for without effect')
        tup = '(' + ', '.join(cq(x) for x in state) + ')' if len(state) > 1 else cq(state[0])
        pat = "'" + tup if len(state) > 1 else tup
        env0 = dict(self.env)
        self.env[v] = 'Z'
        body = self.block(st.body, 'Some ' + tup)
        # types of the state after one iteration are the loop's types (a '?' may have been resolved)
        for x in state:
            t0, t1 = env0[x], self.env[x]
            if t0 != t1 and not ('?' in str(t0)):
                raise Refuse('loop changes the type of %s' % x)
        for x in local + [v]:
            self.env.pop(x, None)                                # not visible after the loop (Python would leak them; uses are refused)
        fun = "(fun %s %s => %s)" % (cq(v), pat, body)
        return pre + '%s <- py_for_range %s %s %s ;;\n' % (pat, n, fun, tup) + self.block(rest, tail)

    def __init__(self, env, fuel=None, skip_print=True):
        super().__init__(env, fuel, skip_print)
        self.local_dicts = set()
