"""Fail-closed translator from a small integer/list subset of Python to Gallina
(option monad, see coq/Common/Py.v).  Every ast node kind, name and call that
is not listed here raises Refuse: a change to the source that leaves the subset
makes the translator refuse, which the check reports as a broken tie.

Types: 'Z', 'bool', ('list', T), ('tuple', [T...]), 'A' (abstract element).
"""
import ast


class Refuse(Exception):
    pass


def tystr(t):
    if t == 'Z':
        return 'Z'
    if t == 'bool':
        return 'bool'
    if t == 'A':
        return 'A'
    if t[0] == 'list':
        return '(list %s)' % tystr(t[1])
    if t[0] == 'tuple':
        return '(' + ' * '.join(tystr(x) for x in t[1]) + ')'
    raise Refuse('type %r' % (t,))


class Tr:
    def __init__(self, env, fuel=None, skip_print=True):
        self.env = dict(env)          # python name -> type
        self.fuel = fuel or {}
        self.n = 0
        self.binds = []
        self.local_lists = set()

    def fresh(self, base='t'):
        self.n += 1
        return '%s_%d' % (base, self.n)

    # ------------------------------------------------------------ expressions
    def hoist(self, term, ty, base='t'):
        v = self.fresh(base)
        self.binds.append((v, term))
        return v, ty

    def expr(self, e):
        """returns (gallina, type); failing sub-terms are hoisted into self.binds"""
        if isinstance(e, ast.Constant):
            if isinstance(e.value, bool):
                return ('true' if e.value else 'false'), 'bool'
            if isinstance(e.value, int):
                return ('%d' % e.value if e.value >= 0 else '(%d)' % e.value), 'Z'
            raise Refuse('constant %r' % (e.value,))
        if isinstance(e, ast.Name):
            if e.id not in self.env:
                raise Refuse('unknown name %s' % e.id)
            return e.id, self.env[e.id]
        if isinstance(e, ast.List):
            if not e.elts:
                return '[]', ('list', '?')
            parts = [self.expr(x) for x in e.elts]
            t = parts[0][1]
            if any(p[1] != t for p in parts):
                raise Refuse('heterogeneous list')
            return '[' + '; '.join(p[0] for p in parts) + ']', ('list', t)
        if isinstance(e, ast.Tuple):
            parts = [self.expr(x) for x in e.elts]
            return '(' + ', '.join(p[0] for p in parts) + ')', ('tuple', [p[1] for p in parts])
        if isinstance(e, ast.UnaryOp) and isinstance(e.op, ast.USub):
            a, t = self.expr(e.operand)
            if t != 'Z':
                raise Refuse('unary minus on %r' % (t,))
            return '(- %s)' % a, 'Z'
        if isinstance(e, ast.UnaryOp) and isinstance(e.op, ast.Not):
            a, t = self.expr(e.operand)
            if t != 'bool':
                raise Refuse('not on %r' % (t,))
            return '(negb %s)' % a, 'bool'
        if isinstance(e, ast.BinOp):
            a, ta = self.expr(e.left)
            b, tb = self.expr(e.right)
            op = type(e.op)
            if ta == 'Z' and tb == 'Z':
                if op in (ast.Add, ast.Sub, ast.Mult):
                    s = {ast.Add: '+', ast.Sub: '-', ast.Mult: '*'}[op]
                    return '(%s %s %s)' % (a, s, b), 'Z'
                if op is ast.FloorDiv:
                    v, _ = self.hoist('(if %s =? 0 then None else Some (%s / %s))' % (b, a, b), 'Z', 'q')
                    return v, 'Z'
                if op is ast.Mod:
                    v, _ = self.hoist('(if %s =? 0 then None else Some (%s mod %s))' % (b, a, b), 'Z', 'm')
                    return v, 'Z'
                raise Refuse('int operator %s' % op.__name__)
            if op is ast.Add and ta[0] == 'list' and tb[0] == 'list':
                t = ta if ta[1] != '?' else tb
                if ta[1] != '?' and tb[1] != '?' and ta != tb:
                    raise Refuse('list + list of different types')
                return '(%s ++ %s)' % (a, b), t
            if op is ast.Mult and ta == 'Z' and tb[0] == 'list':
                return '(py_repeat %s %s)' % (a, b), tb
            if op is ast.Mult and tb == 'Z' and ta[0] == 'list':
                return '(py_repeat %s %s)' % (b, a), ta
            raise Refuse('binop %s on %r,%r' % (op.__name__, ta, tb))
        if isinstance(e, ast.Compare):
            if len(e.ops) != 1:
                raise Refuse('chained comparison')
            a, ta = self.expr(e.left)
            b, tb = self.expr(e.comparators[0])
            op = type(e.ops[0])
            if op in (ast.In, ast.NotIn):
                # x in L for a list L: any(e is x or e == x for e in L); eqA is the element equality
                if tb[0] != 'list' or tb[1] not in (ta, '?') or ta not in ('Z', 'A'):
                    raise Refuse('membership on %r,%r' % (ta, tb))
                g = '(py_mem %s %s %s)' % ('Z.eqb' if ta == 'Z' else 'eqA', a, b)
                return (g if op is ast.In else '(negb %s)' % g), 'bool'
            if ta == 'A' and tb == 'A' and op in (ast.Eq, ast.NotEq):
                g = '(eqA %s %s)' % (a, b)
                return (g if op is ast.Eq else '(negb %s)' % g), 'bool'
            if ta != 'Z' or tb != 'Z':
                raise Refuse('comparison on %r,%r' % (ta, tb))
            tbl = {ast.Lt: '(%s <? %s)', ast.LtE: '(%s <=? %s)', ast.Gt: '(%s >? %s)', ast.GtE: '(%s >=? %s)',
                   ast.Eq: '(%s =? %s)', ast.NotEq: '(negb (%s =? %s))'}
            if op not in tbl:
                raise Refuse('comparison %s' % op.__name__)
            return tbl[op] % (a, b), 'bool'
        if isinstance(e, ast.BoolOp):
            parts = [self.expr(x) for x in e.values]
            if any(p[1] != 'bool' for p in parts):
                raise Refuse('boolop on non-bool')
            s = ' && ' if isinstance(e.op, ast.And) else ' || '
            return '(' + s.join(p[0] for p in parts) + ')', 'bool'
        if isinstance(e, ast.Subscript):
            l, tl = self.expr(e.value)
            if tl[0] != 'list':
                raise Refuse('subscript on %r' % (tl,))
            if isinstance(e.slice, ast.Slice):
                if e.slice.step is not None or e.slice.lower is None or e.slice.upper is None:
                    raise Refuse('slice form')
                a, ta = self.expr(e.slice.lower)
                b, tb = self.expr(e.slice.upper)
                if ta != 'Z' or tb != 'Z':
                    raise Refuse('slice bounds')
                return '(py_slice %s %s %s)' % (l, a, b), tl
            i, ti = self.expr(e.slice)
            if ti != 'Z':
                raise Refuse('index type')
            v, _ = self.hoist('(py_index %s %s)' % (l, i), tl[1], 'ix')
            return v, tl[1]
        if isinstance(e, ast.Call):
            return self.call(e)
        if isinstance(e, ast.ListComp):
            # [E for v in range(N) if C]
            if len(e.generators) != 1:
                raise Refuse('nested comprehension')
            gen = e.generators[0]
            if (gen.is_async or not isinstance(gen.target, ast.Name) or len(gen.ifs) > 1
                    or not (isinstance(gen.iter, ast.Call) and ast.unparse(gen.iter.func) == 'range'
                            and len(gen.iter.args) == 1 and not gen.iter.keywords)):
                raise Refuse('comprehension form')
            n, tn = self.expr(gen.iter.args[0])
            if tn != 'Z':
                raise Refuse('range of %r' % (tn,))
            v = gen.target.id
            saved_env, saved_binds = dict(self.env), self.binds
            self.env[v] = 'Z'                      # comprehension variable: own scope
            self.binds = []
            c = self._bool(gen.ifs[0]) if gen.ifs else 'true'
            if self.binds:
                raise Refuse('comprehension condition may raise')
            res = {}

            def mk():
                g, t = self.expr(e.elt)
                res['t'] = t
                return 'Some %s' % g
            pre, body = self.with_binds(mk)
            self.env, self.binds = saved_env, saved_binds
            r, _ = self.hoist('(py_comp_range %s (fun %s => %s) (fun %s => %s%s))' % (n, v, c, v, pre, body), ('list', res['t']), 'lc')
            return r, ('list', res['t'])
        raise Refuse('expression %s' % type(e).__name__)

    def call(self, e):
        f = e.func
        fn = ast.unparse(f)
        # int(np.ceil(A / float(B)))
        if fn == 'int' and len(e.args) == 1 and not e.keywords:
            a0 = e.args[0]
            if (isinstance(a0, ast.Call) and ast.unparse(a0.func) == 'np.ceil' and len(a0.args) == 1
                    and isinstance(a0.args[0], ast.BinOp) and isinstance(a0.args[0].op, ast.Div)
                    and isinstance(a0.args[0].right, ast.Call) and ast.unparse(a0.args[0].right.func) == 'float'
                    and len(a0.args[0].right.args) == 1):
                a, ta = self.expr(a0.args[0].left)
                b, tb = self.expr(a0.args[0].right.args[0])
                if ta != 'Z' or tb != 'Z':
                    raise Refuse('ceil pattern types')
                v, _ = self.hoist('(py_ceil_fdiv %s %s)' % (a, b), 'Z', 'c')
                return v, 'Z'
            a, ta = self.expr(a0)
            if ta != 'Z':
                raise Refuse('int() of %r' % (ta,))
            return a, 'Z'
        if fn == 'len' and len(e.args) == 1 and not e.keywords:
            a, ta = self.expr(e.args[0])
            if ta[0] != 'list':
                raise Refuse('len of %r' % (ta,))
            return '(py_len %s)' % a, 'Z'
        if fn == 'divmod' and len(e.args) == 2 and not e.keywords:
            a, ta = self.expr(e.args[0])
            b, tb = self.expr(e.args[1])
            if ta != 'Z' or tb != 'Z':
                raise Refuse('divmod types')
            v, _ = self.hoist('(py_divmod %s %s)' % (a, b), ('tuple', ['Z', 'Z']), 'dm')
            return v, ('tuple', ['Z', 'Z'])
        # np.array(L, dtype=np.intp).cumsum()
        if (isinstance(f, ast.Attribute) and f.attr == 'cumsum' and not e.args and not e.keywords
                and isinstance(f.value, ast.Call) and ast.unparse(f.value.func) == 'np.array'
                and len(f.value.args) == 1
                and [ast.unparse(k.value) for k in f.value.keywords if k.arg == 'dtype'] == ['np.intp']
                and len(f.value.keywords) == 1):
            a, ta = self.expr(f.value.args[0])
            if ta != ('list', 'Z'):
                raise Refuse('cumsum of %r' % (ta,))
            return '(py_cumsum %s)' % a, ('list', 'Z')
        raise Refuse('call %s' % fn)

    # ------------------------------------------------------------ statements
    def with_binds(self, mk):
        """run mk() (which translates expressions) and wrap its result term in the hoisted binds"""
        saved = self.binds
        self.binds = []
        body = mk()
        pre = ''.join('%s <- %s ;;\n' % (v, t) for v, t in self.binds)
        self.binds = saved
        return pre, body

    @staticmethod
    def is_print_only(st):
        if isinstance(st, ast.Expr) and isinstance(st.value, ast.Call) and ast.unparse(st.value.func) in ('print', 'sys.stdout.flush'):
            return True
        if isinstance(st, ast.If) and not st.orelse and all(Tr.is_print_only(s) for s in st.body):
            return True
        return False

    @staticmethod
    def is_append(st):
        return (isinstance(st, ast.Expr) and isinstance(st.value, ast.Call) and isinstance(st.value.func, ast.Attribute)
                and st.value.func.attr == 'append' and isinstance(st.value.func.value, ast.Name)
                and len(st.value.args) == 1 and not st.value.keywords)

    def assigned(self, stmts):
        out = []
        for st in stmts:
            if self.is_print_only(st):
                continue
            if self.is_append(st):
                out.append(st.value.func.value.id)
                continue
            if isinstance(st, ast.Assign):
                for tg in st.targets:
                    names = [tg] if isinstance(tg, ast.Name) else list(tg.elts) if isinstance(tg, ast.Tuple) else None
                    if names is None or not all(isinstance(n, ast.Name) for n in names):
                        raise Refuse('assignment target')
                    out += [n.id for n in names]
            elif isinstance(st, ast.AugAssign):
                if not isinstance(st.target, ast.Name):
                    raise Refuse('augassign target')
                out.append(st.target.id)
            elif isinstance(st, ast.If):
                out += self.assigned(st.body) + self.assigned(st.orelse)
            elif isinstance(st, ast.While):
                out += self.assigned(st.body)
            elif isinstance(st, (ast.Return, ast.Raise)):
                pass
            else:
                raise Refuse('statement %s' % type(st).__name__)
        seen = []
        for n in out:
            if n not in seen:
                seen.append(n)
        return seen

    @staticmethod
    def terminates(stmts):
        """all paths through stmts end in return/raise"""
        if not stmts:
            return False
        last = stmts[-1]
        if isinstance(last, (ast.Return, ast.Raise)):
            return True
        if isinstance(last, ast.If):
            return Tr.terminates(last.body) and Tr.terminates(last.orelse)
        return False

    def block(self, stmts, tail):
        """translate stmts followed by the Gallina term `tail` (None => must terminate by return)"""
        if not stmts:
            if tail is None:
                raise Refuse('control reaches end of function')
            return tail
        st, rest = stmts[0], stmts[1:]
        if self.is_print_only(st):
            return self.block(rest, tail)
        if isinstance(st, ast.Return):
            if st.value is None:
                raise Refuse('bare return')
            pre, body = self.with_binds(lambda: 'Some %s' % self.expr(st.value)[0])
            self.ret_type = None
            return pre + body
        if isinstance(st, ast.Raise):
            return 'None'
        if isinstance(st, ast.Assign):
            if len(st.targets) != 1:
                raise Refuse('multiple targets')
            tg = st.targets[0]
            res = {}

            def mk():
                g, t = self.expr(st.value)
                res['t'] = t
                return g
            pre, g = self.with_binds(mk)
            t = res['t']
            if isinstance(tg, ast.Name):
                self.env[tg.id] = t
                if isinstance(st.value, (ast.List, ast.ListComp)):
                    self.local_lists.add(tg.id)
                else:
                    self.local_lists.discard(tg.id)
                return pre + 'let %s := %s in\n' % (tg.id, g) + self.block(rest, tail)
            if isinstance(tg, ast.Tuple) and t[0] == 'tuple' and len(tg.elts) == len(t[1]):
                for n, tt in zip(tg.elts, t[1]):
                    if not isinstance(n, ast.Name):
                        raise Refuse('tuple target')
                    self.env[n.id] = tt
                return pre + "let '(%s) := %s in\n" % (', '.join(n.id for n in tg.elts), g) + self.block(rest, tail)
            raise Refuse('assignment form')
        if self.is_append(st):
            # L.append(e) on a local list L (no aliases: L must have been bound by a list display in this function)
            name = st.value.func.value.id
            tl = self.env.get(name)
            if tl is None or tl[0] != 'list' or name not in self.local_lists:
                raise Refuse('append on %s' % name)
            res = {}

            def mk():
                g, t = self.expr(st.value.args[0])
                res['t'] = t
                return g
            pre, g = self.with_binds(mk)
            if tl[1] == '?':
                self.env[name] = ('list', res['t'])
            elif tl[1] != res['t']:
                raise Refuse('append of %r to %r' % (res['t'], tl))
            return pre + 'let %s := (%s ++ [%s]) in\n' % (name, name, g) + self.block(rest, tail)
        if isinstance(st, ast.AugAssign):
            if not isinstance(st.target, ast.Name) or self.env.get(st.target.id) != 'Z':
                raise Refuse('augassign')
            op = {ast.Add: '+', ast.Sub: '-', ast.Mult: '*'}.get(type(st.op))
            if op is None:
                raise Refuse('augassign op')
            pre, g = self.with_binds(lambda: self.expr(st.value)[0])
            return pre + 'let %s := (%s %s %s) in\n' % (st.target.id, st.target.id, op, g) + self.block(rest, tail)
        if isinstance(st, ast.If):
            pre, c = self.with_binds(lambda: self._bool(st.test))
            if self.terminates(st.body) and not st.orelse:
                env0 = dict(self.env)
                b = self.block(st.body, None)
                self.env = env0
                return pre + 'if %s then (%s) else (\n%s)' % (c, b, self.block(rest, tail))
            if self.terminates(st.body) and self.terminates(st.orelse):
                env0 = dict(self.env)
                b = self.block(st.body, None)
                self.env = dict(env0)
                o = self.block(st.orelse, None)
                return pre + 'if %s then (%s) else (%s)' % (c, b, o)
            vs = self.assigned(st.body + st.orelse)
            if not vs:
                raise Refuse('if without effect')
            ab, ao = self.assigned(st.body), self.assigned(st.orelse)
            for v in vs:
                if v not in self.env and not (v in ab and v in ao):
                    raise Refuse('variable %s may be unbound after if' % v)
            tup = '(' + ', '.join(vs) + ')' if len(vs) > 1 else vs[0]
            env0 = dict(self.env)
            b = self.block(st.body, 'Some ' + tup)
            envb = self.env
            self.env = dict(env0)
            o = self.block(st.orelse, 'Some ' + tup)
            for v in vs:
                if envb.get(v) != self.env.get(v):
                    if envb[v][0] == 'list' and self.env[v][0] == 'list' and '?' in (envb[v][1], self.env[v][1]):
                        self.env[v] = envb[v] if envb[v][1] != '?' else self.env[v]
                    elif (envb[v][0] == 'dict' and self.env[v][0] == 'dict'
                          and ('?' in envb[v][1:]) != ('?' in self.env[v][1:])):
                        self.env[v] = envb[v] if '?' not in envb[v][1:] else self.env[v]
                    else:
                        raise Refuse('branches give %s different types' % v)
            pat = "'" + tup if len(vs) > 1 else tup
            return pre + '%s <- (if %s then (%s) else (%s)) ;;\n' % (pat, c, b, o) + self.block(rest, tail)
        if isinstance(st, ast.While):
            if st.orelse:
                raise Refuse('while-else')
            vs = self.assigned(st.body)
            for v in vs:
                if v not in self.env:
                    raise Refuse('loop variable %s unbound before loop' % v)
            tup = '(' + ', '.join(vs) + ')' if len(vs) > 1 else vs[0]
            pat = "'" + tup if len(vs) > 1 else tup
            fuel = self.fuel.get(st.lineno_rel if hasattr(st, 'lineno_rel') else None) or self.fuel.get('while')
            if fuel is None:
                raise Refuse('no fuel given for while loop')
            saved = self.binds
            self.binds = []
            c = self._bool(st.test)
            if self.binds:
                raise Refuse('loop condition may raise')
            self.binds = saved
            body = self.block(st.body, 'Some ' + tup)
            fun = "(fun %s => %s)" % (pat, c)
            bfun = "(fun %s => %s)" % (pat, body)
            return '%s <- while_fuel %s %s %s %s ;;\n' % (pat, fuel, fun, bfun, tup) + self.block(rest, tail)
        raise Refuse('statement %s' % type(st).__name__)

    def _bool(self, e):
        g, t = self.expr(e)
        if t != 'bool':
            raise Refuse('condition of type %r' % (t,))
        return g


def find_function(tree, name):
    for n in ast.walk(tree):
        if isinstance(n, ast.FunctionDef) and n.name == name:
            return n
    raise Refuse('function %s not found' % name)


def strip_docstring(body):
    if body and isinstance(body[0], ast.Expr) and isinstance(body[0].value, ast.Constant) and isinstance(body[0].value.value, str):
        return body[1:]
    return body
