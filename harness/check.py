#!/venv/bin/python
"""Entry point:  check.py Cxx [--tier quick|thorough] [--replay file]   |   check.py --setup

One run = scratch copy of /repo's working tree -> regenerate coq/Gen from it ->
full Coq build -> hygiene + Print Assumptions -> correspondence (model vs code)
-> spec-side search on the implementation -> verdict + evidence.
See DESIGN.md section 1.1.
"""
import argparse
import glob
import importlib
import json
import os
import sys
import time
import traceback

HERE = os.path.dirname(os.path.abspath(__file__))
sys.path.insert(0, os.path.join(HERE, "lib"))
sys.path.insert(0, HERE)
import esrv  # noqa: E402


class Ctx:
    pass


def all_prop_modules(required=None):
    mods = {}
    for p in sorted(glob.glob(os.path.join(HERE, "props", "C*.py"))):
        name = os.path.basename(p)[:-3]
        try:
            mods[name] = importlib.import_module("props." + name)
        except Exception:
            if name == required:
                raise
            sys.stderr.write("[check] props/%s.py does not import; ignored for this run\n" % name)
    return mods


def write_coqproject():
    files = []
    for sub in ("Common", "Model", "Gen", "Proofs", "Props"):
        files += sorted(os.path.relpath(p, esrv.COQ) for p in glob.glob(os.path.join(esrv.COQ, sub, "*.v")))
    txt = "-Q . ESRV\n-arg -w -arg -all\n" + "\n".join(files) + "\n"
    esrv.write_if_changed(os.path.join(esrv.COQ, "_CoqProject"), txt)


def regenerate(scratch, mods):
    """Run every translator against the scratch copy. Returns {prop: [error strings]}."""
    errs = {}
    done = set()
    for name, m in mods.items():
        for tr in getattr(m, "TRANSLATORS", []):
            if tr in done:
                continue
            done.add(tr)
            try:
                tmod = importlib.import_module("translate." + tr)
                out = tmod.translate(scratch)
                for rel, text in out.items():
                    esrv.write_if_changed(os.path.join(esrv.COQ, rel), text)
            except Exception as e:  # fail closed: the translator refuses
                for n2, m2 in mods.items():
                    if tr in getattr(m2, "TRANSLATORS", []):
                        errs.setdefault(n2, []).append("%s: %s: %s" % (tr, type(e).__name__, e))
    return errs


def setup():
    """Build everything (make -k).  Exit status reflects the CLAIMED properties only: files of
    properties still under construction may fail to build without failing the setup."""
    t0 = time.time()
    mods = all_prop_modules()
    scratch = esrv.scratch_copy()
    errs = regenerate(scratch, mods)
    write_coqproject()
    ok, log = esrv.coq_make()
    sys.stdout.write(log[-2000:])
    claimed = json.load(open(os.path.join(HERE, "claimed.json")))
    bad_claimed = []
    for pid in claimed:
        m = mods.get(pid)
        if m is None:
            bad_claimed.append(pid + ": module missing")
            continue
        deps = esrv.coq_deps(m.PROPS_V)
        if not all(esrv.vo_ok(d) for d in deps):
            bad_claimed.append(pid + ": " + ", ".join(d for d in deps if not esrv.vo_ok(d)))
        hy = esrv.hygiene(only=set(deps))
        if hy:
            bad_claimed.append(pid + ": hygiene " + "; ".join(hy[:3]))
        if errs.get(pid):
            bad_claimed.append(pid + ": translator " + "; ".join(errs[pid]))
    print("[setup] translators refused:", errs)
    print("[setup] full build ok=%s in %.0fs; claimed=%s; problems in claimed: %s" % (ok, time.time() - t0, claimed, bad_claimed or "none"))
    print("[setup] hygiene (whole tree):", esrv.hygiene() or "clean")
    return 1 if bad_claimed else 0


def main():
    ap = argparse.ArgumentParser()
    ap.add_argument("prop", nargs="?")
    ap.add_argument("--tier", default=os.environ.get("VERIF_TIER", "quick"))
    ap.add_argument("--replay")
    ap.add_argument("--setup", action="store_true")
    a = ap.parse_args()
    if a.setup:
        sys.exit(setup())
    prop = a.prop
    seed = int(os.environ.get("VERIF_SEED", "20261001"))
    tier = a.tier if a.tier in ("quick", "thorough") else "quick"
    mods = all_prop_modules(required=prop)
    m = mods[prop]
    rep = esrv.Report(prop, tier, seed)
    ctx = Ctx()
    ctx.prop, ctx.tier, ctx.seed, ctx.report = prop, tier, seed, rep
    ctx.quick = tier == "quick"
    ctx.scratch = esrv.scratch_copy()
    ctx.replay = json.load(open(a.replay)) if a.replay else None

    # 2-3. regenerate + build
    terrs = regenerate(ctx.scratch, mods)
    write_coqproject()
    props_v = m.PROPS_V
    ok, log = esrv.coq_make(targets=[props_v[:-2] + ".vo"])
    deps = esrv.coq_deps(props_v)
    rep.obligations = esrv.count_obligations(deps)
    rep.checker_cmd = "coq_makefile -f _CoqProject -o Makefile && make -k -j16 (full .vo) ; coqc -Q . ESRV %s" % props_v
    proof_ok = all(esrv.vo_ok(d) for d in deps)
    for e in terrs.get(prop, []):
        rep.fail("translator-refused", "translator refuses the current source: " + e, key=prop + ":translator",
                 theorem="coq/Gen (model regenerated from source)")
        proof_ok = False
    if not proof_ok and not terrs.get(prop):
        broken = [d for d in deps if not esrv.vo_ok(d)]
        errtxt = "\n".join(l for l in log.splitlines() if "Error" in l or "rror:" in l or l.startswith("File "))[-1500:]
        rep.fail("broken-proof", "Coq no longer checks: %s" % ", ".join(broken), key=prop + ":proof",
                 theorem=", ".join(broken), observed=errtxt)
    # 4. hygiene and assumptions
    bad = esrv.hygiene(only=set(deps))
    if bad:
        rep.fail("broken-proof", "hygiene scan found forbidden constructs: %s" % bad[:5], key=prop + ":hygiene",
                 theorem="hygiene")
        proof_ok = False
    rep.discharged = len(rep.obligations) if proof_ok else 0
    if proof_ok:
        rc, pa = esrv.print_assumptions(props_v)
        rep.extra["print_assumptions"] = pa.strip().splitlines()[-60:]
        if rc != 0:
            rep.fail("broken-proof", "re-check of %s failed" % props_v, key=prop + ":proof", theorem=props_v,
                     observed=pa[-1500:])
            rep.discharged = 0
    rep.trusted = list(getattr(m, "TRUSTED", []))
    rep.assumptions = list(getattr(m, "ASSUMPTIONS", []))

    # 4b. source guards of the hand-written models
    for rel, qual, why in esrv.check_guards(ctx.scratch, getattr(m, "SOURCE_GUARDS", [])):
        rep.fail("broken-correspondence", "%s::%s is no longer the source the hand-written model was written against: %s" % (rel, qual, why),
                 key=prop + ":guard:" + qual, theorem="hand-written model of %s" % qual, observed=why)

    # 5. correspondence; 7. independent sweep (both always run)
    for phase in ("correspondence", "search"):
        fn = getattr(m, phase, None)
        if fn is None:
            continue
        try:
            fn(ctx)
        except Exception:
            rep.fail("broken-correspondence", "%s driver crashed" % phase, key=prop + ":" + phase + "-crash",
                     theorem=phase, observed=traceback.format_exc()[-3000:])

    # 6. verdict
    known = [k for k in esrv.load_known() if k["property"] == prop and k.get("status") == "known"]
    concrete = [f for f in rep.failures if f["kind"] == "failing-input"]
    broken = [f for f in rep.failures if f["kind"] != "failing-input"]
    nviol = 0
    printed_known = set()
    for f in concrete:
        kf = [k for k in known if k["key"] == f["key"]]
        if kf:
            if f["key"] not in printed_known:
                printed_known.add(f["key"])
                print("KNOWN-FINDING: property=%s %s" % (prop, kf[0]["what"]))
            continue
        nviol += 1
        if nviol <= 5:
            f2 = dict(f)
            f2["also_broken"] = [b["what"] for b in broken][:5]
            path = esrv.write_replay(prop, f2, seed)
            print("VIOLATION property=%s replay=%s" % (prop, path))
            print("  " + f["what"][:400])
    if broken and nviol == 0:
        # a proof or the correspondence no longer checks, and no failing input outside the known list was found
        f2 = dict(broken[0])
        f2["all_broken"] = [dict(kind=b["kind"], what=b["what"], theorem_or_check=b["theorem_or_check"]) for b in broken][:10]
        f2["search"] = "spec-side search on the implementation found no failing input"
        path = esrv.write_replay(prop, f2, seed)
        nviol += 1
        print("  broken: " + "; ".join(b["what"][:300] for b in broken[:3]))
        print("VIOLATION property=%s replay=%s no-failing-input-found" % (prop, path))
    rep.extra["known_findings_seen"] = sorted(printed_known)
    rep.extra["failures"] = [dict(kind=f["kind"], key=f["key"], what=f["what"][:300]) for f in rep.failures][:20]
    ev = rep.write_evidence(nviol)
    print("[%s %s] obligations=%d discharged=%d evaluations=%d nontrivial=%d violations=%d wall=%.0fs evidence=%s" % (
        prop, tier, len(rep.obligations), rep.discharged, rep.evaluations, len(rep.nontrivial), nviol,
        time.time() - rep.t0, ev))
    sys.exit(1 if nviol else 0)


if __name__ == "__main__":
    main()
