#!/venv/bin/python
"""Regenerate /verif/MANIFEST.json from the property modules (so it is always valid)."""
import glob
import importlib
import json
import os
import sys

HERE = os.path.dirname(os.path.abspath(__file__))
sys.path.insert(0, os.path.join(HERE, "lib"))
sys.path.insert(0, HERE)
VERIF = os.path.dirname(HERE)

ids = [json.loads(l)["id"] for l in open(os.path.join(VERIF, "properties.jsonl"))]
checks, na = [], []
NOT_BUILT = {}
try:
    NOT_BUILT = json.load(open(os.path.join(HERE, "not_claimed.json")))
except FileNotFoundError:
    pass
CLAIMED = json.load(open(os.path.join(HERE, "claimed.json")))
for pid in ids:
    path = os.path.join(HERE, "props", pid + ".py")
    if pid not in CLAIMED or not os.path.exists(path):
        na.append({"property_id": pid, "reason": NOT_BUILT.get(pid, "not claimed in this revision: model and theorems for it are not built yet (see DESIGN.md section 3 for the plan); the technique itself applies")})
        continue
    m = importlib.import_module("props." + pid)
    checks.append({
        "property_id": pid,
        "quick_cmd": "./check %s --tier quick" % pid,
        "thorough_cmd": "./check %s --tier thorough" % pid,
        "evidence_file": "/verif/evidence/%s.json" % pid,
        "replay_cmd_template": "./check %s --replay {path}" % pid,
        "engine": "coq-proof+tie",
        "level_claimed": {"category": "proof", "text": m.LEVEL_TEXT, "design_ref": "DESIGN.md section 3, " + pid},
        "level_note": m.LEVEL_NOTE,
        "technique": m.TECHNIQUE,
    })
man = {
    "version": 1,
    "setup_cmd": "./check --setup",
    "hooks": {
        "guard": "ESR_VERIF",
        "enable": "checks copy /repo's working tree to a scratch directory and run it with ESR_VERIF=1 in the environment (PYTHONPATH = MPI stand-in + scratch copy)",
        "baseline_off_cmd": "cd /repo && env -u ESR_VERIF /venv/bin/python -m pytest -ra -q -p no:cacheprovider --timeout=900 --continue-on-collection-errors",
        "source_commits": json.load(open(os.path.join(HERE, "hook_commits.json"))) if os.path.exists(os.path.join(HERE, "hook_commits.json")) else [],
        "add_only": True,
    },
    "engines": [{
        "name": "coq-proof+tie",
        "path": "/verif/check",
        "serves_properties": [c["property_id"] for c in checks],
        "kind_free_text": "Coq 8.16.1 theorems about a Gallina model of the anchored code (coq/), tied to /repo on every run by fail-closed ast translators (coq/Gen regenerated, proofs re-checked) and/or by correspondence runs of the model (vm_compute on generated cases) against the implementation in a scratch copy; a spec-side search on the implementation supplies replays",
    }],
    "checks": checks,
    "not_applicable": na,
    "notes": "See DESIGN.md. KNOWN_FINDINGS.json lists recorded/fixed defects. Every check rebuilds from /repo's working tree (scratch copy), regenerates coq/Gen, runs a full .vo build, then correspondence and search.",
}
json.dump(man, open(os.path.join(VERIF, "MANIFEST.json"), "w"), indent=1)
print("checks:", [c["property_id"] for c in checks], "not claimed:", [n["property_id"] for n in na])
