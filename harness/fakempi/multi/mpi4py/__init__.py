"""Multi-process stand-in for mpi4py (real MPI cannot load here).  N ranks = N OS
processes; blocking collectives rooted anywhere, implemented through files in
FAKE_MPI_DIR.  Semantics are exactly those of coq/Model/Bsp.v: a collective is a
deposit by every rank followed by each rank picking up the combined result.

Optional: FAKE_MPI_TRACE=<dir>  -> every collective is logged to <dir>/coll.<rank>
          FAKE_MPI_DELAY=<seed> -> a pseudo-random sleep before every collective
                                   (varies the interleaving of the ranks)"""
import os
import pickle
import random
import time


class _Comm:
    def __init__(self):
        self.rank = int(os.environ.get('FAKE_MPI_RANK', '0'))
        self.size = int(os.environ.get('FAKE_MPI_SIZE', '1'))
        self.dir = os.environ.get('FAKE_MPI_DIR', '/var/tmp/fakempi')
        self.seq = 0
        self.trace = os.environ.get('FAKE_MPI_TRACE')
        d = os.environ.get('FAKE_MPI_DELAY')
        self.rng = random.Random('%s/%d' % (d, self.rank)) if d else None
        self.timeout = float(os.environ.get('FAKE_MPI_TIMEOUT', '900'))

    def Get_rank(self):
        return self.rank

    def Get_size(self):
        return self.size

    def _enter(self, op, root):
        self.seq += 1
        if self.trace:
            with open(os.path.join(self.trace, 'coll.%d' % self.rank), 'a') as f:
                f.write('%d %s %d\n' % (self.seq, op, root))
        if self.rng is not None:
            time.sleep(self.rng.choice([0, 0, 0.001, 0.005, 0.02]))

    def _put(self, name, obj):
        tmp = os.path.join(self.dir, name + '.tmp%d' % self.rank)
        with open(tmp, 'wb') as f:
            pickle.dump(obj, f)
        os.rename(tmp, os.path.join(self.dir, name))

    def _get(self, name):
        p = os.path.join(self.dir, name)
        t0 = time.time()
        while not os.path.exists(p):
            time.sleep(0.002)
            if time.time() - t0 > self.timeout:
                raise RuntimeError('fake mpi deadlock: rank %d waiting for %s' % (self.rank, name))
        with open(p, 'rb') as f:
            return pickle.load(f)

    def bcast(self, x, root=0):
        self._enter('bcast', root)
        if self.size == 1:
            return x
        if self.rank == root:
            self._put('%d_b' % self.seq, x)
            return x
        return self._get('%d_b' % self.seq)

    def gather(self, x, root=0):
        self._enter('gather', root)
        if self.size == 1:
            return [x]
        self._put('%d_g%d' % (self.seq, self.rank), x)
        if self.rank == root:
            return [self._get('%d_g%d' % (self.seq, r)) for r in range(self.size)]
        return None

    def scatter(self, x, root=0):
        self._enter('scatter', root)
        if self.size == 1:
            return x[0]
        if self.rank == root:
            for r in range(self.size):
                self._put('%d_s%d' % (self.seq, r), x[r])
        return self._get('%d_s%d' % (self.seq, self.rank))

    def Barrier(self):
        self._enter('Barrier', 0)
        if self.size == 1:
            return
        self._put('%d_B%d' % (self.seq, self.rank), None)
        for r in range(self.size):
            self._get('%d_B%d' % (self.seq, r))


class _MPI:
    pass


MPI = _MPI()
MPI.COMM_WORLD = _Comm()
