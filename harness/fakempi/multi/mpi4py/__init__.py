import os, pickle, time
class _Comm:
    def __init__(self):
        self.rank=int(os.environ.get('FAKE_MPI_RANK','0')); self.size=int(os.environ.get('FAKE_MPI_SIZE','1'))
        self.dir=os.environ.get('FAKE_MPI_DIR','/tmp/fakempi'); self.seq=0
    def Get_rank(self): return self.rank
    def Get_size(self): return self.size
    def _put(self,name,obj):
        tmp=os.path.join(self.dir,name+'.tmp%d'%self.rank)
        with open(tmp,'wb') as f: pickle.dump(obj,f)
        os.rename(tmp,os.path.join(self.dir,name))
    def _get(self,name,timeout=600):
        p=os.path.join(self.dir,name); t0=time.time()
        while not os.path.exists(p):
            time.sleep(0.002)
            if time.time()-t0>timeout: raise RuntimeError('fake mpi deadlock waiting for '+name)
        with open(p,'rb') as f: return pickle.load(f)
    def bcast(self,x,root=0):
        self.seq+=1
        if self.size==1: return x
        if self.rank==root:
            self._put('%d_b'%self.seq,x); return x
        return self._get('%d_b'%self.seq)
    def gather(self,x,root=0):
        self.seq+=1
        if self.size==1: return [x]
        self._put('%d_g%d'%(self.seq,self.rank),x)
        if self.rank==root:
            return [self._get('%d_g%d'%(self.seq,r)) for r in range(self.size)]
        return None
    def scatter(self,x,root=0):
        self.seq+=1
        if self.size==1: return x[0]
        if self.rank==root:
            for r in range(self.size): self._put('%d_s%d'%(self.seq,r),x[r])
        return self._get('%d_s%d'%(self.seq,self.rank))
    def Barrier(self):
        self.gather(None,0); self.bcast(None,0)
class _MPI: pass
MPI=_MPI(); MPI.COMM_WORLD=_Comm()
