class _Comm:
    def Get_rank(self): return 0
    def Get_size(self): return 1
    def bcast(self, x, root=0): return x
    def gather(self, x, root=0): return [x]
    def scatter(self, x, root=0): return x[0]
    def Barrier(self): pass
    def allgather(self, x): return [x]
class _MPI:
    COMM_WORLD = _Comm()
MPI = _MPI()
